/-
C08 — the alert node with a crash INSIDE a point: per-id "cell" view of a world (the id's state on the anonymous
and on the named topic, what the handlers of each were last told, the node's own state for the id), the exact
effect of every node operation on a cell, and the phases a cell goes through after a restart.
-/
import Kap.Proofs.C08Node
set_option linter.unusedSimpArgs false
set_option linter.unusedVariables false
namespace Kap.C08

/-! ### exact effect of `UpdateEvent` / `Collect` on the service state -/

theorem put_apply (s : Store) (T : String) (e : ES) (T' i : String) :
    (s.put T e) T' i = if T = T' ∧ e.id = i then some e else s T' i := rfl

theorem del_apply (s : Store) (T id T' i : String) :
    (s.del T id) T' i = if T = T' ∧ id = i then none else s T' i := rfl

theorem update_exact (s : Svc) (hp : s.persist = true) (T : String) (e : ES) :
    runMicros s (updateMicros T e) = { s with mem := s.mem.put T e, disk := s.disk.put T e } := by
  simp [updateMicros, runMicros, exec, hp]

theorem collect_exact (s : Svc) (hp : s.persist = true) (T : String) (e : ES)
    (hcl : s.closed T = true → ∀ i, s.mem T i = s.disk T i) :
    runMicros s (collectMicros T e) =
      { s with mem := s.mem.put T e, closed := setFlag s.closed T false,
               told := s.told ++ [{ topic := T, id := e.id, level := e.level, time := e.time }],
               disk := if e.level = 0 then s.disk.del T e.id else s.disk.put T e } := by
  by_cases hc : s.closed T = true
  · have hm : s.mem.loadTopic T s.disk = s.mem := by
      funext T' i
      unfold Store.loadTopic
      by_cases hT : T = T'
      · subst hT; simp [hcl hc i]
      · simp [hT]
    by_cases hl : e.level = 0 <;> simp [collectMicros, runMicros, exec, hp, hc, hl, hm]
  · have hf : setFlag s.closed T false = s.closed := by
      funext T'
      unfold setFlag
      by_cases hT : T = T'
      · subst hT; simpa using hc
      · simp [hT]
    by_cases hl : e.level = 0 <;> simp [collectMicros, runMicros, exec, hp, hc, hl, hf]

/-! ### the per-id cell of a world, for a node with anonymous topic `Ta` and named topic `Tn` -/

structure Cell where
  ma : Option ES        -- the id's state in memory on the anonymous topic
  da : Option ES        -- … on disk
  mn : Option ES        -- in memory on the named topic
  dn : Option ES        -- … on disk
  ta : Nat              -- the level the handlers of the anonymous topic were last told
  tn : Nat              -- … of the named topic
  g : Option Nat        -- the node's own state for the id

def svcCell (Ta Tn : String) (s : Svc) (id : String) (g : Option Nat) : Cell :=
  { ma := s.mem Ta id, da := s.disk Ta id, mn := s.mem Tn id, dn := s.disk Tn id,
    ta := lastTold s.told Ta id, tn := lastTold s.told Tn id, g := g }

def cellOf (Ta Tn : String) (w : World) (id : String) : Cell := svcCell Ta Tn w.svc id (w.groups id)

/-- what the exact-effect lemmas need of a service state (all of it holds after a restart and is kept) -/
structure SCoh (Ta Tn : String) (s : Svc) : Prop where
  persist : s.persist = true
  wkm : ∀ T i e, s.mem T i = some e → e.id = i
  wkd : ∀ T i e, s.disk T i = some e → e.id = i
  clA : s.closed Ta = true → ∀ i, s.mem Ta i = s.disk Ta i
  clN : s.closed Tn = false

/-! ### the cell machine: `restoreEvent`, `handleEvent`, `Point`, task restart on ONE id -/

def crestore (c : Cell) : Nat × Cell :=
  (if c.ma.isSome then optLevel c.ma else optLevel c.mn,
   if optLevel c.mn ≠ optLevel c.ma then
     match c.ma, c.mn with
     | some a, some _ => { c with mn := some a, dn := some a }
     | none, some n => { c with ma := some n, da := some n }
     | _, _ => c
   else c)

def cemit (id : String) (l : Nat) (t : Payload) (c : Cell) : Cell :=
  let e : ES := { id := id, level := l, time := t }
  { c with ma := some e, da := if l = 0 then none else some e, ta := l,
           mn := some e, dn := if l = 0 then none else some e, tn := l }

def cpoint (cfg : Cfg) (id : String) (c : Cell) (l : Nat) (t : Payload) : Cell :=
  let r := match c.g with
    | some x => (x, c)
    | none => crestore c
  if emits cfg r.1 l then cemit id l t { r.2 with g := some l } else { r.2 with g := some l }

def ctask (c : Cell) : Cell := { c with ma := c.da, g := none }

def cstep (cfg : Cfg) (id : String) (c : Cell) : NOp → Cell
  | .point i l t => if i = id then cpoint cfg id c l t else c
  | .taskRestart => ctask c

def crun (cfg : Cfg) (id : String) (c : Cell) (ops : List NOp) : Cell := ops.foldl (cstep cfg id) c

@[simp] theorem svcCell_g (Ta Tn : String) (s : Svc) (id : String) (g : Option Nat) : (svcCell Ta Tn s id g).g = g := rfl

theorem cpoint_none (cfg : Cfg) (id : String) (c : Cell) (l : Nat) (t : Payload) (h : c.g = none) :
    cpoint cfg id c l t = if emits cfg (crestore c).1 l then cemit id l t { (crestore c).2 with g := some l }
      else { (crestore c).2 with g := some l } := by
  simp only [cpoint, h]

theorem cpoint_some (cfg : Cfg) (id : String) (c : Cell) (l : Nat) (t : Payload) (x : Nat) (h : c.g = some x) :
    cpoint cfg id c l t = if emits cfg x l then cemit id l t { c with g := some l } else { c with g := some l } := by
  simp only [cpoint, h]

/-- `restoreEvent` of a two-topic node, on cells -/
theorem restore_sim (cfg : Cfg) (Ta Tn : String) (ha : cfg.anon = some Ta) (hn : cfg.named = some Tn)
    (hne : Ta ≠ Tn) (s : Svc) (h : SCoh Ta Tn s) (i : String) (g : Option Nat) :
    (restoreEvent cfg s i).1 = (crestore (svcCell Ta Tn s i g)).1 ∧
    SCoh Ta Tn (runMicros s (restoreEvent cfg s i).2) ∧
    (∀ id g', svcCell Ta Tn (runMicros s (restoreEvent cfg s i).2) id g' =
      if id = i then { (crestore (svcCell Ta Tn s i g)).2 with g := g' } else svcCell Ta Tn s id g') := by
  have hne' : Tn ≠ Ta := Ne.symm hne
  cases hma : s.mem Ta i with
  | none =>
    cases hmn : s.mem Tn i with
    | none =>
      refine ⟨by simp [restoreEvent, crestore, svcCell, ha, hn, hma, hmn, optLevel], ?_, ?_⟩
      · simpa [restoreEvent, ha, hn, hma, hmn, optLevel, runMicros] using h
      · intro id g'
        by_cases hid : id = i
        · subst hid; simp [restoreEvent, crestore, svcCell, ha, hn, hma, hmn, optLevel, runMicros]
        · simp [restoreEvent, ha, hn, hma, hmn, optLevel, runMicros, hid]
    | some n =>
      have hnid : n.id = i := h.wkm Tn i n hmn
      by_cases hl : n.level = 0
      · refine ⟨by simp [restoreEvent, crestore, svcCell, ha, hn, hma, hmn, optLevel, hl], ?_, ?_⟩
        · simpa [restoreEvent, ha, hn, hma, hmn, optLevel, runMicros, hl] using h
        · intro id g'
          by_cases hid : id = i
          · subst hid; simp [restoreEvent, crestore, svcCell, ha, hn, hma, hmn, optLevel, runMicros, hl]
          · simp [restoreEvent, ha, hn, hma, hmn, optLevel, runMicros, hid, hl]
      · have hfix : (restoreEvent cfg s i).2 = updateMicros Ta n := by
          simp [restoreEvent, ha, hn, hma, hmn, optLevel, hl]
        rw [hfix, update_exact s h.persist]
        refine ⟨by simp [restoreEvent, crestore, svcCell, ha, hn, hma, hmn, optLevel], ?_, ?_⟩
        · refine ⟨h.persist, ?_, ?_, ?_, h.clN⟩
          · intro T i' e he
            simp only [put_apply] at he
            split at he
            · cases he; rename_i hc; rw [← hc.2]
            · exact h.wkm T i' e he
          · intro T i' e he
            simp only [put_apply] at he
            split at he
            · cases he; rename_i hc; rw [← hc.2]
            · exact h.wkd T i' e he
          · intro hc i'
            simp only [put_apply, h.clA hc i']
        · intro id g'
          by_cases hid : id = i
          · subst hid
            simp [crestore, svcCell, put_apply, hma, hmn, optLevel, hl, hnid, hne]
          · have : ¬ n.id = id := by rw [hnid]; exact fun hh => hid hh.symm
            simp [svcCell, put_apply, hid, this]
  | some a =>
    have haid : a.id = i := h.wkm Ta i a hma
    cases hmn : s.mem Tn i with
    | none =>
      refine ⟨by simp [restoreEvent, crestore, svcCell, ha, hn, hma, hmn, optLevel], ?_, ?_⟩
      · have : (restoreEvent cfg s i).2 = [] := by
          simp [restoreEvent, ha, hn, hma, hmn, optLevel]
        rw [this]; simpa [runMicros] using h
      · intro id g'
        have : (restoreEvent cfg s i).2 = [] := by
          simp [restoreEvent, ha, hn, hma, hmn, optLevel]
        rw [this]
        by_cases hid : id = i
        · subst hid
          by_cases hl : a.level = 0 <;> simp [crestore, svcCell, hma, hmn, optLevel, runMicros, hl]
        · simp [runMicros, hid]
    | some n =>
      by_cases hl : n.level = a.level
      · have : (restoreEvent cfg s i).2 = [] := by
          simp [restoreEvent, ha, hn, hma, hmn, optLevel, hl]
        rw [this]
        refine ⟨by simp [restoreEvent, crestore, svcCell, ha, hn, hma, hmn, optLevel], by simpa [runMicros] using h, ?_⟩
        intro id g'
        by_cases hid : id = i
        · subst hid; simp [crestore, svcCell, hma, hmn, optLevel, runMicros, hl]
        · simp [runMicros, hid]
      · have hfix : (restoreEvent cfg s i).2 = updateMicros Tn a := by
          simp [restoreEvent, ha, hn, hma, hmn, optLevel, hl]
        rw [hfix, update_exact s h.persist]
        refine ⟨by simp [restoreEvent, crestore, svcCell, ha, hn, hma, hmn, optLevel], ?_, ?_⟩
        · refine ⟨h.persist, ?_, ?_, ?_, h.clN⟩
          · intro T i' e he
            simp only [put_apply] at he
            split at he
            · cases he; rename_i hc; rw [← hc.2]
            · exact h.wkm T i' e he
          · intro T i' e he
            simp only [put_apply] at he
            split at he
            · cases he; rename_i hc; rw [← hc.2]
            · exact h.wkd T i' e he
          · intro hc i'
            simp only [put_apply, hne', false_and, if_false]
            exact h.clA hc i'
        · intro id g'
          by_cases hid : id = i
          · subst hid
            simp [crestore, svcCell, put_apply, hma, hmn, optLevel, hl, haid, hne']
          · have : ¬ a.id = id := by rw [haid]; exact fun hh => hid hh.symm
            simp [svcCell, put_apply, hid, this]

theorem lastTold_snoc (told : List Ev) (e : Ev) (T id : String) :
    lastTold (told ++ [e]) T id = if e.topic = T ∧ e.id = id then e.level else lastTold told T id := by
  simp [lastTold, List.foldl_append]

/-- `handleEvent` of a two-topic node (Collect on the anonymous topic, then on the named topic), on cells -/
theorem emit_sim (cfg : Cfg) (Ta Tn : String) (ha : cfg.anon = some Ta) (hn : cfg.named = some Tn)
    (hne : Ta ≠ Tn) (s : Svc) (h : SCoh Ta Tn s) (i : String) (l : Nat) (t : Payload) :
    SCoh Ta Tn (runMicros s (emitMicros cfg { id := i, level := l, time := t })) ∧
    (∀ id g', svcCell Ta Tn (runMicros s (emitMicros cfg { id := i, level := l, time := t })) id g' =
      if id = i then cemit i l t (svcCell Ta Tn s i g') else svcCell Ta Tn s id g') := by
  have hne' : Tn ≠ Ta := Ne.symm hne
  have h1 := collect_exact s h.persist Ta { id := i, level := l, time := t } h.clA
  have hcl2 : (runMicros s (collectMicros Ta { id := i, level := l, time := t })).closed Tn = false := by
    rw [h1]; simp [setFlag, hne, h.clN]
  have hp2 : (runMicros s (collectMicros Ta { id := i, level := l, time := t })).persist = true := by
    rw [h1]; exact h.persist
  have h2 := collect_exact _ hp2 Tn { id := i, level := l, time := t } (fun hc => by rw [hcl2] at hc; cases hc)
  have hem : emitMicros cfg { id := i, level := l, time := t } =
      collectMicros Ta { id := i, level := l, time := t } ++ collectMicros Tn { id := i, level := l, time := t } := by
    simp [emitMicros, ha, hn]
  rw [hem, runMicros_append, h2, h1]
  refine ⟨⟨h.persist, ?_, ?_, ?_, ?_⟩, ?_⟩
  · intro T i' e he
    simp only [put_apply] at he
    split at he
    · cases he; rename_i hc; exact hc.2
    · split at he
      · cases he; rename_i hc; exact hc.2
      · exact h.wkm T i' e he
  · intro T i' e he
    by_cases hl : l = 0
    · simp only [hl, if_true, del_apply] at he
      split at he
      · cases he
      · split at he
        · cases he
        · exact h.wkd T i' e he
    · simp only [hl, if_false, put_apply] at he
      split at he
      · cases he; rename_i hc; exact hc.2
      · split at he
        · cases he; rename_i hc; exact hc.2
        · exact h.wkd T i' e he
  · intro hc
    simp [setFlag, hne'] at hc
  · simp [setFlag]
  · intro id g'
    by_cases hid : id = i
    · subst hid
      by_cases hl : l = 0 <;>
        simp [svcCell, cemit, put_apply, del_apply, lastTold_append, hne, hne', hl]
    · have hid' : ¬ i = id := fun hh => hid hh.symm
      by_cases hl : l = 0 <;>
        simp [svcCell, put_apply, del_apply, lastTold_append, hne, hne', hl, hid, hid']

def Coh (Ta Tn : String) (w : World) : Prop := SCoh Ta Tn w.svc

theorem nrunMicros_svc' (w : World) (ms : List Micro) :
    (nrunMicros w (ms.map .svc)).svc = runMicros w.svc ms ∧ (nrunMicros w (ms.map .svc)).groups = w.groups := by
  rw [nrunMicros_svc]; exact ⟨rfl, rfl⟩

theorem plan_shape_run (w : World) (fix em : List Micro) (i : String) (l : Nat) :
    (nrunMicros w (fix.map .svc ++ ([.setGroup i l] ++ em.map .svc))).svc = runMicros (runMicros w.svc fix) em ∧
    (nrunMicros w (fix.map .svc ++ ([.setGroup i l] ++ em.map .svc))).groups =
      fun i' => if i = i' then some l else w.groups i' := by
  rw [nrunMicros_append, nrunMicros_append, nrunMicros_svc, nrunMicros_svc]
  simp [nrunMicros, nexec]

theorem plan_shape (cfg : Cfg) (w : World) (i : String) (l : Nat) (t : Payload) :
    nplan cfg w (.point i l t) =
      (match w.groups i with | some _ => [] | none => (restoreEvent cfg w.svc i).2).map .svc ++
      ([.setGroup i l] ++
        (if emits cfg (match w.groups i with | some c => c | none => (restoreEvent cfg w.svc i).1) l
          then emitMicros cfg { id := i, level := l, time := t } else []).map .svc) := by
  cases hg : w.groups i <;> simp [nplan, plan, hg] <;> split <;> simp

/-- **Every node operation acts on each id's cell exactly as the cell machine says.** -/
theorem nstep_sim (cfg : Cfg) (Ta Tn : String) (ha : cfg.anon = some Ta) (hn : cfg.named = some Tn)
    (hne : Ta ≠ Tn) (w : World) (h : Coh Ta Tn w) (op : NOp) :
    Coh Ta Tn (nstep cfg w op) ∧ ∀ id, cellOf Ta Tn (nstep cfg w op) id = cstep cfg id (cellOf Ta Tn w id) op := by
  have hne' : Tn ≠ Ta := Ne.symm hne
  cases op with
  | taskRestart =>
    simp only [nstep, nplan, ha, nrunMicros, nexec, exec, List.cons_append, List.nil_append, List.foldl_cons,
      List.foldl_nil]
    refine ⟨⟨h.persist, ?_, h.wkd, ?_, ?_⟩, ?_⟩
    · intro T i e he
      simp only [Store.loadTopic, Store.dropTopic] at he
      by_cases hT : Ta = T
      · simp only [hT, if_true] at he; exact h.wkd T i e he
      · simp only [hT, if_false] at he; exact h.wkm T i e he
    · intro _ i; simp [Store.loadTopic]
    · simp [setFlag, hne, h.clN]
    · intro id
      simp [cellOf, svcCell, cstep, ctask, Store.loadTopic, Store.dropTopic, hne]
  | point i l t =>
    unfold nstep
    rw [plan_shape]
    obtain ⟨hsvc, hgrp⟩ := plan_shape_run w
      (match w.groups i with | some _ => [] | none => (restoreEvent cfg w.svc i).2)
      (if emits cfg (match w.groups i with | some c => c | none => (restoreEvent cfg w.svc i).1) l
          then emitMicros cfg { id := i, level := l, time := t } else []) i l
    unfold Coh cellOf
    rw [hsvc, hgrp]
    obtain ⟨hcur, hcoh1, hcell1⟩ := restore_sim cfg Ta Tn ha hn hne w.svc h i none
    cases hg : w.groups i with
    | some x =>
      simp only [runMicros, List.foldl_nil]
      by_cases hem : emits cfg x l = true
      · simp only [hem, if_true]
        obtain ⟨hc3, hcell3⟩ := emit_sim cfg Ta Tn ha hn hne w.svc h i l t
        refine ⟨hc3, fun id => ?_⟩
        have := hcell3 id (if i = id then some l else w.groups id)
        simp only [runMicros] at this
        rw [this]
        by_cases hid : id = i
        · subst hid; simp [cstep, cpoint, svcCell, hg, hem, cemit]
        · have hid' : ¬ i = id := fun hh => hid hh.symm
          simp [cstep, hid, hid']
      · simp only [hem, Bool.false_eq_true, if_false, List.foldl_nil]
        refine ⟨h, fun id => ?_⟩
        by_cases hid : id = i
        · subst hid; simp [cstep, cpoint, svcCell, hg, hem]
        · have hid' : ¬ i = id := fun hh => hid hh.symm
          simp [cstep, hid, hid']
    | none =>
      simp only []
      by_cases hem : emits cfg (restoreEvent cfg w.svc i).1 l = true
      · simp only [hem, if_true]
        obtain ⟨hc3, hcell3⟩ := emit_sim cfg Ta Tn ha hn hne _ hcoh1 i l t
        refine ⟨hc3, fun id => ?_⟩
        rw [hcell3, hcell1, hcell1]
        rw [hcur] at hem
        by_cases hid : id = i
        · subst hid
          simp only [cstep, if_true, hg]
          rw [cpoint_none cfg id _ l t rfl, if_pos hem]
        · have hid' : ¬ i = id := fun hh => hid hh.symm
          simp [cstep, hid, hid']
      · simp only [hem, Bool.false_eq_true, if_false]
        refine ⟨by simpa [runMicros] using hcoh1, fun id => ?_⟩
        have : runMicros (runMicros w.svc (restoreEvent cfg w.svc i).2) [] = runMicros w.svc (restoreEvent cfg w.svc i).2 := rfl
        rw [this, hcell1]
        rw [hcur] at hem
        by_cases hid : id = i
        · subst hid
          simp only [cstep, if_true, hg]
          rw [cpoint_none cfg id _ l t rfl, if_neg hem]
        · have hid' : ¬ i = id := fun hh => hid hh.symm
          simp [cstep, hid, hid']

theorem nrun_sim (cfg : Cfg) (Ta Tn : String) (ha : cfg.anon = some Ta) (hn : cfg.named = some Tn)
    (hne : Ta ≠ Tn) (w : World) (h : Coh Ta Tn w) (ops : List NOp) :
    Coh Ta Tn (nrun cfg w ops) ∧ ∀ id, cellOf Ta Tn (nrun cfg w ops) id = crun cfg id (cellOf Ta Tn w id) ops := by
  induction ops generalizing w with
  | nil => exact ⟨h, fun _ => rfl⟩
  | cons op rest ih =>
    obtain ⟨h1, hc1⟩ := nstep_sim cfg Ta Tn ha hn hne w h op
    obtain ⟨h2, hc2⟩ := ih (nstep cfg w op) h1
    simp only [nrun, crun, List.foldl_cons] at *
    exact ⟨h2, fun id => by rw [hc2 id, hc1 id]⟩

/-! ### phases of a cell -/

theorem emits_eq_announces (cfg : Cfg) (cur l : Nat) : emits cfg cur l = announces cfg.sco cfg.noRec cur l := by
  unfold emits announces
  by_cases h : cur = l <;> by_cases hl : l = 0 <;> cases cfg.sco <;> cases cfg.noRec <;> simp [h, hl]

theorem emits_false_cases (cfg : Cfg) (cur l : Nat) (h : emits cfg cur l = false) :
    (l = 0 ∧ cfg.noRec = true) ∨ cur = l := by
  rw [emits_eq_announces] at h
  unfold announces at h
  by_cases hc : cur = l
  · exact Or.inr hc
  · left; simpa [hc, and_comm] using h

theorem emits_true_not_supp (cfg : Cfg) (cur l : Nat) (h : emits cfg cur l = true) :
    ¬ (l = 0 ∧ cfg.noRec = true) := by
  rw [emits_eq_announces] at h
  unfold announces at h
  intro ⟨h0, hn⟩
  by_cases hc : cur = l <;> simp [hc, h0, hn] at h

/-- the node's own state for the id is the level its topics show, or the recovery `.noRecoveries()` kept quiet -/
def GOK (cfg : Cfg) (v : Nat) (g : Option Nat) : Prop := ∀ x, g = some x → x = v ∨ (cfg.noRec = true ∧ x = 0)

/-- NORMAL: both topics (memory and disk) and both handler groups agree on level `v` -/
structure Norm (cfg : Cfg) (v : Nat) (c : Cell) : Prop where
  ma : optLevel c.ma = v
  da : optLevel c.da = v
  mn : optLevel c.mn = v
  dn : optLevel c.dn = v
  ta : c.ta = v
  tn : c.tn = v
  g : GOK cfg v c.g

/-- QUIET: the topics show level `Lv` (the named topic possibly nothing at all while the anonymous topic holds a
non-OK state), `restoreEvent` has nothing to reconcile; what the handlers were told is not constrained -/
structure Quiet (cfg : Cfg) (Lv : Nat) (c : Cell) : Prop where
  ma : optLevel c.ma = Lv
  da : optLevel c.da = Lv
  mn : optLevel c.mn = Lv ∨ (c.mn = none ∧ Lv ≠ 0)
  g : GOK cfg Lv c.g

theorem Norm.quiet {cfg : Cfg} {v : Nat} {c : Cell} (h : Norm cfg v c) : Quiet cfg v c :=
  ⟨h.ma, h.da, Or.inl h.mn, h.g⟩

theorem quiet_restore (cfg : Cfg) (Lv : Nat) (c : Cell) (h : Quiet cfg Lv c) : crestore c = (Lv, c) := by
  obtain ⟨ma, da, mn, dn, ta, tn, g⟩ := c
  have h1 := h.ma; have h3 := h.mn
  simp only at h1 h3
  rcases h3 with h3 | ⟨h3, h4⟩
  · cases ma <;> cases mn <;> simp [crestore, optLevel] at h1 h3 ⊢ <;> simp_all
  · subst h3
    cases ma with
    | none => simp [optLevel] at h1; exact absurd h1.symm h4
    | some a => simp [crestore, optLevel] at h1 ⊢; simp [h1]

theorem cemit_norm (cfg : Cfg) (id : String) (l : Nat) (t : Payload) (c : Cell) (hg : c.g = some l) :
    Norm cfg l (cemit id l t c) := by
  refine ⟨rfl, ?_, rfl, ?_, rfl, rfl, ?_⟩
  · by_cases hl : l = 0 <;> simp [cemit, optLevel, hl]
  · by_cases hl : l = 0 <;> simp [cemit, optLevel, hl]
  · intro x hx
    simp only [cemit, hg, Option.some.injEq] at hx
    exact Or.inl hx.symm

/-- a point on a QUIET cell: announced → NORMAL at the new level; not announced → only the node's own state moves -/
theorem quiet_point (cfg : Cfg) (id : String) (Lv : Nat) (c : Cell) (h : Quiet cfg Lv c) (l : Nat) (t : Payload) :
    (emits cfg (c.g.getD Lv) l = true → Norm cfg l (cpoint cfg id c l t)) ∧
    (emits cfg (c.g.getD Lv) l = false →
      cpoint cfg id c l t = { c with g := some l } ∧ Quiet cfg Lv { c with g := some l }) := by
  have hgok : emits cfg (c.g.getD Lv) l = false → GOK cfg Lv (some l) := by
    intro hem x hx
    cases hx
    rcases emits_false_cases cfg _ _ hem with ⟨h0, hn⟩ | hc
    · exact Or.inr ⟨hn, h0⟩
    · cases hg : c.g with
      | none => rw [hg] at hc; exact Or.inl hc.symm
      | some y =>
        rw [hg] at hc
        rcases h.g y hg with h1 | ⟨h1, h2⟩
        · left; rw [← hc]; exact h1
        · right; exact ⟨h1, by rw [← hc]; exact h2⟩
  cases hg : c.g with
  | some x =>
    rw [cpoint_some cfg id c l t x hg]
    simp only [Option.getD_some]
    refine ⟨fun hem => ?_, fun hem => ?_⟩
    · rw [if_pos hem]; exact cemit_norm cfg id l t _ rfl
    · rw [hem]; simp only [Bool.false_eq_true, if_false]
      exact ⟨trivial, ⟨h.ma, h.da, h.mn, hgok (by rw [hg]; exact hem)⟩⟩
  | none =>
    rw [cpoint_none cfg id c l t hg, quiet_restore cfg Lv c h]
    simp only [Option.getD_none]
    refine ⟨fun hem => ?_, fun hem => ?_⟩
    · rw [if_pos hem]; exact cemit_norm cfg id l t _ rfl
    · rw [hem]; simp only [Bool.false_eq_true, if_false]
      exact ⟨trivial, ⟨h.ma, h.da, h.mn, hgok (by rw [hg]; exact hem)⟩⟩

theorem quiet_task (cfg : Cfg) (Lv : Nat) (c : Cell) (h : Quiet cfg Lv c) : Quiet cfg Lv (ctask c) :=
  ⟨h.da, h.da, h.mn, fun x hx => by cases hx⟩

/-- the level rule of the spec on one id -/
def stepV (noRec : Bool) (v l : Nat) : Nat := if l = 0 ∧ noRec = true then v else l

theorem norm_point (cfg : Cfg) (id : String) (v : Nat) (c : Cell) (h : Norm cfg v c) (l : Nat) (t : Payload) :
    Norm cfg (stepV cfg.noRec v l) (cpoint cfg id c l t) := by
  obtain ⟨h1, h2⟩ := quiet_point cfg id v c h.quiet l t
  by_cases hem : emits cfg (c.g.getD v) l = true
  · have : stepV cfg.noRec v l = l := by
      unfold stepV; rw [if_neg (emits_true_not_supp cfg _ _ hem)]
    rw [this]; exact h1 hem
  · have hem' : emits cfg (c.g.getD v) l = false := by simpa using hem
    obtain ⟨he, hq⟩ := h2 hem'
    rw [he]
    have hv : stepV cfg.noRec v l = v := by
      unfold stepV
      by_cases hz : l = 0 ∧ cfg.noRec = true
      · rw [if_pos hz]
      · rw [if_neg hz]
        rcases emits_false_cases cfg _ _ hem' with hh | hc
        · exact absurd hh hz
        · cases hg : c.g with
          | none => rw [hg] at hc; exact hc.symm
          | some y =>
            rw [hg] at hc
            rcases h.g y hg with h1 | ⟨h1, h2⟩
            · rw [← hc]; exact h1
            · exact absurd ⟨by rw [← hc]; exact h2, h1⟩ hz
    rw [hv]
    exact ⟨h.ma, h.da, h.mn, h.dn, h.ta, h.tn, hq.g⟩

theorem norm_task (cfg : Cfg) (v : Nat) (c : Cell) (h : Norm cfg v c) : Norm cfg v (ctask c) :=
  ⟨h.da, h.da, h.mn, h.dn, h.ta, h.tn, fun x hx => by cases hx⟩

theorem norm_run (cfg : Cfg) (id : String) (v : Nat) (c : Cell) (h : Norm cfg v c) (ops : List NOp) :
    Norm cfg (nodeLevelFrom cfg.noRec v ops id) (crun cfg id c ops) := by
  induction ops generalizing v c with
  | nil => exact h
  | cons op rest ih =>
    simp only [crun, List.foldl_cons, nodeLevelFrom] at *
    cases op with
    | point i l t =>
      by_cases hi : i = id
      · subst hi
        simp only [cstep, nodeLevelStep, if_true]
        exact ih _ _ (norm_point cfg i v c h l t)
      · simp only [cstep, nodeLevelStep, hi, if_false]
        exact ih _ _ h
    | taskRestart => exact ih _ _ (norm_task cfg v c h)

/-- **A QUIET cell stays as it is exactly as long as the node announces nothing for the id; the first
announcement makes it NORMAL.** -/
theorem quiet_run (cfg : Cfg) (id : String) (Lv : Nat) (c : Cell) (h : Quiet cfg Lv c) (ops : List NOp) :
    (quietFrom cfg.sco cfg.noRec Lv id c.g ops = true →
      Quiet cfg Lv (crun cfg id c ops) ∧ (crun cfg id c ops).mn = c.mn ∧ (crun cfg id c ops).dn = c.dn ∧
      (crun cfg id c ops).ta = c.ta ∧ (crun cfg id c ops).tn = c.tn) ∧
    (quietFrom cfg.sco cfg.noRec Lv id c.g ops = false → ∃ v, Norm cfg v (crun cfg id c ops)) := by
  induction ops generalizing c with
  | nil => exact ⟨fun _ => ⟨h, rfl, rfl, rfl, rfl⟩, fun hq => by simp [quietFrom] at hq⟩
  | cons op rest ih =>
    simp only [crun, List.foldl_cons] at *
    cases op with
    | point i l t =>
      by_cases hi : i = id
      · subst hi
        simp only [cstep, if_true, quietFrom]
        obtain ⟨h1, h2⟩ := quiet_point cfg i Lv c h l t
        rw [← emits_eq_announces]
        by_cases hem : emits cfg (c.g.getD Lv) l = true
        · simp only [hem, Bool.not_true, Bool.false_and, Bool.false_eq_true, false_imp_iff, true_and]
          intro _
          exact ⟨_, norm_run cfg i l _ (h1 hem) rest⟩
        · have hem' : emits cfg (c.g.getD Lv) l = false := by simpa using hem
          obtain ⟨he, hq⟩ := h2 hem'
          rw [he]
          simp only [hem', Bool.not_false, Bool.true_and]
          exact ih _ hq
      · simp only [cstep, hi, if_false, quietFrom]
        exact ih c h
    | taskRestart =>
      simp only [cstep, quietFrom]
      exact ih _ (quiet_task cfg Lv c h)

/-! ### the cell right after a process restart -/

/-- no OK record: a state that is present is not OK (true of the disk of a node: `Collect` deletes on OK) -/
def Faithful (o : Option ES) : Prop := ∀ e, o = some e → e.level ≠ 0

/-- RESTARTED: memory = disk on both topics, no OK records, the node has no state for the id yet -/
structure Fresh (c : Cell) : Prop where
  ma : c.ma = c.da
  mn : c.mn = c.dn
  fa : Faithful c.da
  fn : Faithful c.dn
  g : c.g = none

/-- the reconciliation at the first point after the restart, on a RESTARTED cell -/
theorem fresh_restore (cfg : Cfg) (c : Cell) (h : Fresh c) :
    let e := reconcile (optLevel c.da) (optLevel c.dn)
    let c1 := (crestore c).2
    (crestore c).1 = e.1 ∧ Quiet cfg e.1 c1 ∧ optLevel c1.mn = e.2 ∧ optLevel c1.dn = e.2 ∧
    c1.ta = c.ta ∧ c1.tn = c.tn ∧ c1.g = none ∧ c1.ma = c1.da := by
  obtain ⟨ma, da, mn, dn, ta, tn, g⟩ := c
  obtain ⟨h1, h2, h3, h4, h5⟩ := h
  simp only at h1 h2 h3 h4 h5
  subst h1 h2 h5
  have gok : ∀ v, GOK cfg v none := fun v x hx => by cases hx
  cases ma with
  | none =>
    cases mn with
    | none =>
      simp [crestore, reconcile, optLevel]
      exact ⟨rfl, rfl, Or.inl rfl, gok 0⟩
    | some n =>
      have hn0 : n.level ≠ 0 := h4 n rfl
      have hn0' : ¬ (0 = n.level) := fun hh => hn0 hh.symm
      simp [crestore, reconcile, optLevel, hn0, hn0']
      exact ⟨rfl, rfl, Or.inl rfl, gok _⟩
  | some a =>
    have ha0 : a.level ≠ 0 := h3 a rfl
    cases mn with
    | none =>
      have : ¬ (0 = a.level) := fun hh => ha0 hh.symm
      simp [crestore, reconcile, optLevel, ha0, this]
      exact ⟨rfl, rfl, Or.inr ⟨rfl, ha0⟩, gok _⟩
    | some n =>
      have hn0 : n.level ≠ 0 := h4 n rfl
      by_cases hl : n.level = a.level
      · simp [crestore, reconcile, optLevel, hl]
        exact ⟨rfl, rfl, Or.inl hl, gok _⟩
      · have hl' : ¬ a.level = n.level := fun hh => hl hh.symm
        simp [crestore, reconcile, optLevel, hl, hl', ha0, hn0]
        exact ⟨rfl, rfl, Or.inl rfl, gok _⟩

theorem hasPoint_cons (id : String) (op : NOp) (rest : List NOp) :
    hasPoint id (op :: rest) = ((match op with | .point i _ _ => i == id | .taskRestart => false) || hasPoint id rest) := by
  rfl

theorem quietFrom_no_point (sco noRec : Bool) (Lv : Nat) (id : String) (g : Option Nat) (ops : List NOp)
    (h : hasPoint id ops = false) : quietFrom sco noRec Lv id g ops = true := by
  induction ops generalizing g with
  | nil => rfl
  | cons op rest ih =>
    rw [hasPoint_cons] at h
    simp only [Bool.or_eq_false_iff] at h
    cases op with
    | point i l t =>
      have hi : ¬ i = id := by simpa using h.1
      simp only [quietFrom, hi, if_false]
      exact ih g h.2
    | taskRestart => simp only [quietFrom]; exact ih none h.2

/-- Until the first point of the id a RESTARTED cell does not move; that point acts as if the reconciliation
had already happened. -/
theorem fresh_run (cfg : Cfg) (id : String) (c : Cell) (h : Fresh c) (ops : List NOp) :
    (hasPoint id ops = false → crun cfg id c ops = c) ∧
    (hasPoint id ops = true → crun cfg id c ops = crun cfg id (crestore c).2 ops) := by
  obtain ⟨hr1, hq, _, _, _, _, hg1, hma1⟩ := fresh_restore cfg c h
  have htask : ctask c = c := by
    obtain ⟨ma, da, mn, dn, ta, tn, g⟩ := c
    have := h.ma; have := h.g
    simp_all [ctask]
  have htask1 : ctask (crestore c).2 = (crestore c).2 := by
    generalize (crestore c).2 = c1 at *
    obtain ⟨ma, da, mn, dn, ta, tn, g⟩ := c1
    simp_all [ctask]
  induction ops with
  | nil => exact ⟨fun _ => rfl, fun hh => by simp [hasPoint] at hh⟩
  | cons op rest ih =>
    rw [hasPoint_cons]
    simp only [crun, List.foldl_cons] at *
    cases op with
    | point i l t =>
      by_cases hi : i = id
      · subst hi
        simp only [beq_self_eq_true, Bool.true_or, Bool.true_eq_false, false_imp_iff, true_and, forall_const]
        simp only [cstep, if_true]
        congr 1
        rw [cpoint_none cfg i c l t h.g, cpoint_none cfg i _ l t hg1, quiet_restore cfg _ _ hq, hr1]
      · have hb : (i == id) = false := by simpa using hi
        simp only [hb, Bool.false_or, cstep, hi, if_false]
        exact ih
    | taskRestart =>
      simp only [Bool.false_or, cstep, htask, htask1]
      exact ih

/-- **Where the id of the point in flight ends.** From a RESTARTED cell: if the restarted node never announces the
id again, both topics end at the reconciled levels (`reconcile`, applied only if the id gets another point at
all) and the handlers' last word is what it was at the crash; otherwise the cell ends NORMAL. -/
theorem fresh_final (cfg : Cfg) (id : String) (c : Cell) (h : Fresh c) (ops : List NOp) :
    let e := if hasPoint id ops then reconcile (optLevel c.da) (optLevel c.dn) else (optLevel c.da, optLevel c.dn)
    let cf := crun cfg id c ops
    (quietFrom cfg.sco cfg.noRec e.1 id none ops = true →
      optLevel cf.ma = e.1 ∧ optLevel cf.da = e.1 ∧ optLevel cf.mn = e.2 ∧ optLevel cf.dn = e.2 ∧
      cf.ta = c.ta ∧ cf.tn = c.tn) ∧
    (quietFrom cfg.sco cfg.noRec e.1 id none ops = false → ∃ v, Norm cfg v cf) := by
  obtain ⟨hno, hyes⟩ := fresh_run cfg id c h ops
  by_cases hp : hasPoint id ops = true
  · simp only [hp, if_true]
    obtain ⟨_, hq, hmn, hdn, hta, htn, hg1, _⟩ := fresh_restore cfg c h
    obtain ⟨hA, hB⟩ := quiet_run cfg id _ _ hq ops
    rw [hg1] at hA hB
    rw [hyes hp]
    refine ⟨fun hqt => ?_, hB⟩
    obtain ⟨hq', e1, e2, e3, e4⟩ := hA hqt
    exact ⟨hq'.ma, hq'.da, by rw [e1]; exact hmn, by rw [e2]; exact hdn, by rw [e3]; exact hta, by rw [e4]; exact htn⟩
  · have hp' : hasPoint id ops = false := by simpa using hp
    simp only [hp', Bool.false_eq_true, if_false]
    rw [hno hp']
    refine ⟨fun _ => ⟨by rw [h.ma], rfl, by rw [h.mn], rfl, rfl, rfl⟩, fun hqf => ?_⟩
    rw [quietFrom_no_point _ _ _ _ _ _ hp'] at hqf
    cases hqf

/-! ### the uninterrupted run up to the point in flight, on cells -/

def emptyCell : Cell := { ma := none, da := none, mn := none, dn := none, ta := 0, tn := 0, g := none }

theorem cpoint_g (cfg : Cfg) (id : String) (c : Cell) (l : Nat) (t : Payload) : (cpoint cfg id c l t).g = some l := by
  cases hg : c.g with
  | some x => rw [cpoint_some cfg id c l t x hg]; split <;> rfl
  | none => rw [cpoint_none cfg id c l t hg]; split <;> rfl

theorem crun_g (cfg : Cfg) (id : String) (c : Cell) (ops : List NOp) :
    (crun cfg id c ops).g = ops.foldl (groupStep id) c.g := by
  induction ops generalizing c with
  | nil => rfl
  | cons op rest ih =>
    simp only [crun, List.foldl_cons] at *
    rw [ih]
    congr 1
    cases op with
    | point i l t =>
      by_cases hi : i = id
      · subst hi; simp [cstep, groupStep, cpoint_g]
      · simp [cstep, groupStep, hi]
    | taskRestart => rfl

theorem faithful_point (cfg : Cfg) (id : String) (v : Nat) (c : Cell) (h : Norm cfg v c)
    (fa : Faithful c.da) (fn : Faithful c.dn) (l : Nat) (t : Payload) :
    Faithful (cpoint cfg id c l t).da ∧ Faithful (cpoint cfg id c l t).dn := by
  have key : ∀ (b : Bool) (c' : Cell), c'.da = c.da → c'.dn = c.dn →
      Faithful (if b = true then cemit id l t c' else c').da ∧ Faithful (if b = true then cemit id l t c' else c').dn := by
    intro b c' h1 h2
    cases b
    · simp only [Bool.false_eq_true, if_false, h1, h2]; exact ⟨fa, fn⟩
    · simp only [if_true, cemit]
      by_cases hl : l = 0
      · simp only [hl, if_true]; exact ⟨(fun e he => by cases he), (fun e he => by cases he)⟩
      · simp only [hl, if_false]
        exact ⟨(fun e he => by cases he; exact hl), (fun e he => by cases he; exact hl)⟩
  cases hg : c.g with
  | some x => rw [cpoint_some cfg id c l t x hg]; exact key _ _ rfl rfl
  | none =>
    rw [cpoint_none cfg id c l t hg, quiet_restore cfg v c h.quiet]
    exact key _ _ rfl rfl

/-- without a crash every cell is NORMAL at the level of the spec, its disk holds no OK record, and the node's own
state is the level of the id's last point since the task started -/
theorem uninterrupted_cell (cfg : Cfg) (id : String) (ops : List NOp) :
    Norm cfg (nodeLevel cfg.noRec ops id) (crun cfg id emptyCell ops) ∧
    Faithful (crun cfg id emptyCell ops).da ∧ Faithful (crun cfg id emptyCell ops).dn ∧
    (crun cfg id emptyCell ops).g = groupLevel ops id := by
  have h0 : Norm cfg 0 emptyCell := ⟨rfl, rfl, rfl, rfl, rfl, rfl, fun x hx => by cases hx⟩
  refine ⟨norm_run cfg id 0 emptyCell h0 ops, ?_⟩
  rw [← and_assoc]
  refine ⟨?_, crun_g cfg id emptyCell ops⟩
  have : ∀ (v : Nat) (c : Cell), Norm cfg v c → Faithful c.da → Faithful c.dn →
      Faithful (crun cfg id c ops).da ∧ Faithful (crun cfg id c ops).dn := by
    induction ops with
    | nil => intro v c _ fa fn; exact ⟨fa, fn⟩
    | cons op rest ih =>
      intro v c hn fa fn
      simp only [crun, List.foldl_cons] at *
      cases op with
      | point i l t =>
        by_cases hi : i = id
        · subst hi
          simp only [cstep, if_true]
          obtain ⟨f1, f2⟩ := faithful_point cfg i v c hn fa fn l t
          exact ih _ _ (norm_point cfg i v c hn l t) f1 f2
        · simp only [cstep, hi, if_false]; exact ih v c hn fa fn
      | taskRestart => exact ih v _ (norm_task cfg v c hn) fa fn
  exact this 0 emptyCell h0 (fun e he => by cases he) (fun e he => by cases he)

theorem coh_init (Ta Tn : String) : Coh Ta Tn {} :=
  ⟨rfl, (fun _ _ _ he => by cases he), (fun _ _ _ he => by cases he), (fun hc => by cases hc), rfl⟩

theorem cellOf_init (Ta Tn : String) (id : String) : cellOf Ta Tn {} id = emptyCell := rfl

/-! ### the crash inside a point: what is on disk and what the handlers were told -/

/-- the record of event `e` reaches the bucket of topic `T` (or not: `b = false`) -/
def updIf (b : Bool) (T : String) (e : ES) (d : Store) : Store :=
  if b then (if e.level = 0 then d.del T e.id else d.put T e) else d

theorem collect_prefix (s : Svc) (hp : s.persist = true) (T : String) (e : ES) (m : Nat) :
    (runMicros s ((collectMicros T e).take m)).persist = true ∧
    (runMicros s ((collectMicros T e).take m)).disk = updIf (decide (4 ≤ m)) T e s.disk ∧
    (runMicros s ((collectMicros T e).take m)).told =
      s.told ++ (if 3 ≤ m then [{ topic := T, id := e.id, level := e.level, time := e.time }] else []) := by
  rcases m with _ | _ | _ | _ | m
  · simp [runMicros, updIf, hp]
  · by_cases hc : s.closed T = true <;> simp [collectMicros, runMicros, exec, updIf, hp, hc]
  · by_cases hc : s.closed T = true <;> simp [collectMicros, runMicros, exec, updIf, hp, hc]
  · by_cases hc : s.closed T = true <;> simp [collectMicros, runMicros, exec, updIf, hp, hc]
  · have : (collectMicros T e).take (m + 1 + 1 + 1 + 1) = collectMicros T e := by
      apply List.take_of_length_le; simp [collectMicros]
    rw [this]
    by_cases hc : s.closed T = true <;> by_cases hl : e.level = 0 <;>
      simp [collectMicros, runMicros, exec, updIf, hp, hc, hl]

theorem emit_prefix (s : Svc) (hp : s.persist = true) (Ta Tn : String) (e : ES) (m : Nat) :
    (runMicros s ((collectMicros Ta e ++ collectMicros Tn e).take m)).persist = true ∧
    (runMicros s ((collectMicros Ta e ++ collectMicros Tn e).take m)).disk =
      updIf (decide (8 ≤ m)) Tn e (updIf (decide (4 ≤ m)) Ta e s.disk) ∧
    (runMicros s ((collectMicros Ta e ++ collectMicros Tn e).take m)).told =
      s.told ++ (if 3 ≤ m then [{ topic := Ta, id := e.id, level := e.level, time := e.time }] else []) ++
        (if 7 ≤ m then [{ topic := Tn, id := e.id, level := e.level, time := e.time }] else []) := by
  have hlen : (collectMicros Ta e).length = 4 := by simp [collectMicros]
  rw [List.take_append, hlen, runMicros_append]
  obtain ⟨p1, d1, t1⟩ := collect_prefix s hp Ta e m
  obtain ⟨p2, d2, t2⟩ := collect_prefix _ p1 Tn e (m - 4)
  refine ⟨p2, ?_, ?_⟩
  · rw [d2, d1]
    have : decide (4 ≤ m - 4) = decide (8 ≤ m) := by
      by_cases h : 8 ≤ m
      · have : 4 ≤ m - 4 := by omega
        simp [h, this]
      · have : ¬ 4 ≤ m - 4 := by omega
        simp [h, this]
    rw [this]
  · rw [t2, t1]
    have : (3 ≤ m - 4) = (7 ≤ m) := by
      apply propext; constructor <;> intro h <;> omega
    simp only [this]

theorem updIf_cells (pA pN : Bool) (Ta Tn : String) (hne : Ta ≠ Tn) (i0 : String) (l : Nat) (t : Payload) (d : Store)
    (i : String) :
    (updIf pN Tn { id := i0, level := l, time := t } (updIf pA Ta { id := i0, level := l, time := t } d)) Ta i =
      (if pA = true ∧ i0 = i then (if l = 0 then none else some { id := i0, level := l, time := t }) else d Ta i) ∧
    (updIf pN Tn { id := i0, level := l, time := t } (updIf pA Ta { id := i0, level := l, time := t } d)) Tn i =
      (if pN = true ∧ i0 = i then (if l = 0 then none else some { id := i0, level := l, time := t }) else d Tn i) := by
  have hne' : Tn ≠ Ta := Ne.symm hne
  cases pA <;> cases pN <;> by_cases hl : l = 0 <;> by_cases hi : i0 = i <;>
    simp [updIf, put_apply, del_apply, hne, hne', hl, hi]

theorem updIf_wk (p : Bool) (T : String) (e : ES) (d : Store) (h : ∀ T i e', d T i = some e' → e'.id = i) :
    ∀ T' i e', (updIf p T e d) T' i = some e' → e'.id = i := by
  intro T' i e' he
  cases p
  · exact h T' i e' he
  · by_cases hl : e.level = 0
    · simp only [updIf, hl, if_true, del_apply] at he
      split at he
      · cases he
      · exact h T' i e' he
    · simp only [updIf, hl, if_true, if_false, put_apply] at he
      split at he
      · cases he; rename_i hc; exact hc.2
      · exact h T' i e' he

theorem told_cells (qA qN : Bool) (Ta Tn : String) (hne : Ta ≠ Tn) (i0 : String) (l : Nat) (t : Payload) (tl : List Ev)
    (i : String) :
    lastTold (tl ++ (if qA = true then [{ topic := Ta, id := i0, level := l, time := t }] else []) ++
        (if qN = true then [{ topic := Tn, id := i0, level := l, time := t }] else [])) Ta i =
      (if qA = true ∧ i0 = i then l else lastTold tl Ta i) ∧
    lastTold (tl ++ (if qA = true then [{ topic := Ta, id := i0, level := l, time := t }] else []) ++
        (if qN = true then [{ topic := Tn, id := i0, level := l, time := t }] else [])) Tn i =
      (if qN = true ∧ i0 = i then l else lastTold tl Tn i) := by
  have hne' : Tn ≠ Ta := Ne.symm hne
  cases qA <;> cases qN <;> by_cases hi : i0 = i <;>
    simp [lastTold_append, hne, hne', hi]

theorem restoreEvent_norm (cfg : Cfg) (Ta Tn : String) (ha : cfg.anon = some Ta) (hn : cfg.named = some Tn)
    (s : Svc) (i : String) (v : Nat) (h1 : optLevel (s.mem Ta i) = v) (h2 : optLevel (s.mem Tn i) = v) :
    restoreEvent cfg s i = (v, []) := by
  simp only [restoreEvent, ha, hn, Option.bind_some, h1, h2, ne_eq, not_true_eq_false, if_false]
  split <;> rfl

/-- **The process dies after `j` sub-steps of a point**: what is on disk and what the handlers were told, in terms
of how far the point got (`reached`). `b` is a world in which the two topics agree on the id (level `v`). -/
theorem crash_in_point (cfg : Cfg) (Ta Tn : String) (ha : cfg.anon = some Ta) (hn : cfg.named = some Tn)
    (b : World) (hp : b.svc.persist = true) (i0 : String) (l : Nat) (t : Payload) (v : Nat)
    (h1 : optLevel (b.svc.mem Ta i0) = v) (h2 : optLevel (b.svc.mem Tn i0) = v) (j : Nat) :
    let r := reached (emits cfg ((b.groups i0).getD v) l) j
    let e : ES := { id := i0, level := l, time := t }
    let c := nrunMicros b ((nplan cfg b (.point i0 l t)).take j)
    c.svc.persist = true ∧
    c.svc.disk = updIf r.diskN Tn e (updIf r.diskA Ta e b.svc.disk) ∧
    c.svc.told = b.svc.told ++ (if r.toldA = true then [{ topic := Ta, id := i0, level := l, time := t }] else []) ++
      (if r.toldN = true then [{ topic := Tn, id := i0, level := l, time := t }] else []) := by
  intro r e c
  have hcur : (match b.groups i0 with | some c => c | none => (restoreEvent cfg b.svc i0).1) = (b.groups i0).getD v := by
    cases b.groups i0 <;> simp [restoreEvent_norm cfg Ta Tn ha hn b.svc i0 v h1 h2]
  have hfix : (match b.groups i0 with | some _ => [] | none => (restoreEvent cfg b.svc i0).2) = ([] : List Micro) := by
    cases b.groups i0 <;> simp [restoreEvent_norm cfg Ta Tn ha hn b.svc i0 v h1 h2]
  have hplan : nplan cfg b (.point i0 l t) = NMicro.setGroup i0 l ::
      (if emits cfg ((b.groups i0).getD v) l = true then emitMicros cfg e else []).map .svc := by
    rw [plan_shape, hcur, hfix]; rfl
  have hsvc : c.svc = runMicros b.svc ((if emits cfg ((b.groups i0).getD v) l = true then emitMicros cfg e else []).take (j - 1)) := by
    show (nrunMicros b ((nplan cfg b (.point i0 l t)).take j)).svc = _
    rw [hplan]
    cases j with
    | zero => simp [nrunMicros, runMicros]
    | succ j' =>
      simp only [List.take_succ_cons, Nat.add_sub_cancel, ← List.map_take]
      have : nrunMicros b (NMicro.setGroup i0 l :: List.map NMicro.svc
          (List.take j' (if emits cfg ((b.groups i0).getD v) l = true then emitMicros cfg e else []))) =
          nrunMicros (nexec b (.setGroup i0 l)) (List.map NMicro.svc
          (List.take j' (if emits cfg ((b.groups i0).getD v) l = true then emitMicros cfg e else []))) := rfl
      rw [this, nrunMicros_svc]
      rfl
  rw [hsvc]
  by_cases hem : emits cfg ((b.groups i0).getD v) l = true
  · have hE : emitMicros cfg e = collectMicros Ta e ++ collectMicros Tn e := by simp [emitMicros, ha, hn]
    simp only [hem, if_true, hE]
    obtain ⟨p, d, tt⟩ := emit_prefix b.svc hp Ta Tn e (j - 1)
    refine ⟨p, ?_, ?_⟩
    · rw [d]
      have e1 : decide (8 ≤ j - 1) = r.diskN := by
        show _ = (emits cfg ((b.groups i0).getD v) l && decide (9 ≤ j))
        rw [hem]; simp only [Bool.true_and]
        by_cases h : 9 ≤ j
        · have : 8 ≤ j - 1 := by omega
          simp [h, this]
        · have : ¬ 8 ≤ j - 1 := by omega
          simp [h, this]
      have e2 : decide (4 ≤ j - 1) = r.diskA := by
        show _ = (emits cfg ((b.groups i0).getD v) l && decide (5 ≤ j))
        rw [hem]; simp only [Bool.true_and]
        by_cases h : 5 ≤ j
        · have : 4 ≤ j - 1 := by omega
          simp [h, this]
        · have : ¬ 4 ≤ j - 1 := by omega
          simp [h, this]
      rw [e1, e2]
    · rw [tt]
      have e1 : (3 ≤ j - 1) = (r.toldA = true) := by
        show _ = ((emits cfg ((b.groups i0).getD v) l && decide (4 ≤ j)) = true)
        rw [hem]; simp only [Bool.true_and, decide_eq_true_eq]
        apply propext; constructor <;> intro h <;> omega
      have e2 : (7 ≤ j - 1) = (r.toldN = true) := by
        show _ = ((emits cfg ((b.groups i0).getD v) l && decide (8 ≤ j)) = true)
        rw [hem]; simp only [Bool.true_and, decide_eq_true_eq]
        apply propext; constructor <;> intro h <;> omega
      simp only [e1, e2]
      rfl
  · have hem' : emits cfg ((b.groups i0).getD v) l = false := by simpa using hem
    have hr : r = { toldA := false, diskA := false, toldN := false, diskN := false } := by
      show reached _ j = _
      rw [hem']; simp [reached]
    rw [hr]
    simp [hem', runMicros, updIf, hp]

/-- a process death inside a graceful task restart, or with no operation in flight, changes neither disk nor log -/
theorem crash_elsewhere (cfg : Cfg) (Ta : String) (ha : cfg.anon = some Ta) (b : World) (j : Nat) :
    let c := nrunMicros b ((nplan cfg b .taskRestart).take j)
    c.svc.persist = b.svc.persist ∧ c.svc.disk = b.svc.disk ∧ c.svc.told = b.svc.told := by
  rcases j with _ | _ | _ | _ | j <;> simp [nplan, ha, nrunMicros, nexec, exec]

/-- process death + `Service.Open` + task start: every cell is RESTARTED from the disk as it stood -/
theorem restart_cells (cfg : Cfg) (Ta Tn : String) (ha : cfg.anon = some Ta) (c : World)
    (hp : c.svc.persist = true) (hwk : ∀ T i e, c.svc.disk T i = some e → e.id = i) :
    Coh Ta Tn (c.restart cfg) ∧
    ∀ i, cellOf Ta Tn (c.restart cfg) i =
      { ma := c.svc.disk Ta i, da := c.svc.disk Ta i, mn := c.svc.disk Tn i, dn := c.svc.disk Tn i,
        ta := lastTold c.svc.told Ta i, tn := lastTold c.svc.told Tn i, g := none } := by
  have hmem : (c.restart cfg).svc.mem = c.svc.disk := by
    simp only [World.restart, ha, exec, Svc.restart]
    funext T i
    simp [Store.loadTopic]
  have hdisk : (c.restart cfg).svc.disk = c.svc.disk := by simp [World.restart, ha, exec, Svc.restart]
  have htold : (c.restart cfg).svc.told = c.svc.told := by simp [World.restart, ha, exec, Svc.restart]
  have hclosed : (c.restart cfg).svc.closed = fun _ => false := by simp [World.restart, ha, exec, Svc.restart]
  have hpers : (c.restart cfg).svc.persist = true := by simp [World.restart, ha, exec, Svc.restart, hp]
  have hgr : (c.restart cfg).groups = fun _ => none := by simp [World.restart]
  refine ⟨⟨hpers, ?_, ?_, ?_, ?_⟩, fun i => ?_⟩
  · rw [hmem]; exact hwk
  · rw [hdisk]; exact hwk
  · rw [hclosed]; intro hc; cases hc
  · rw [hclosed]
  · simp only [cellOf, svcCell, hmem, hdisk, htold, hgr]

/-! ### assembly: the run up to the crash, the crash, the restart, the remaining points -/

theorem recover_cell (cfg : Cfg) (Ta Tn : String) (ha : cfg.anon = some Ta) (hn : cfg.named = some Tn)
    (hne : Ta ≠ Tn) (c : World) (hp : c.svc.persist = true) (hwk : ∀ T i e, c.svc.disk T i = some e → e.id = i)
    (rest : List NOp) (id : String) :
    cellOf Ta Tn (nrun cfg (c.restart cfg) rest) id =
      crun cfg id { ma := c.svc.disk Ta id, da := c.svc.disk Ta id, mn := c.svc.disk Tn id, dn := c.svc.disk Tn id,
                    ta := lastTold c.svc.told Ta id, tn := lastTold c.svc.told Tn id, g := none } rest := by
  obtain ⟨hc, hcell⟩ := restart_cells cfg Ta Tn ha c hp hwk
  rw [(nrun_sim cfg Ta Tn ha hn hne _ hc rest).2 id, hcell id]

/-- the world right before the operation in flight: coherent, every cell NORMAL at the level of the spec -/
theorem before_crash (cfg : Cfg) (Ta Tn : String) (ha : cfg.anon = some Ta) (hn : cfg.named = some Tn)
    (hne : Ta ≠ Tn) (pre : List NOp) :
    Coh Ta Tn (nrun cfg {} pre) ∧
    ∀ i, Norm cfg (nodeLevel cfg.noRec pre i) (cellOf Ta Tn (nrun cfg {} pre) i) ∧
      Faithful ((nrun cfg {} pre).svc.disk Ta i) ∧ Faithful ((nrun cfg {} pre).svc.disk Tn i) ∧
      (nrun cfg {} pre).groups i = groupLevel pre i := by
  obtain ⟨hc, hcell⟩ := nrun_sim cfg Ta Tn ha hn hne {} (coh_init Ta Tn) pre
  refine ⟨hc, fun i => ?_⟩
  have := uninterrupted_cell cfg i pre
  rw [← cellOf_init Ta Tn i, ← hcell i] at this
  exact this

/-- a cell RESTARTED from a disk and a log that agree with a NORMAL cell is NORMAL -/
theorem norm_restarted (cfg : Cfg) (v : Nat) (c : Cell) (h : Norm cfg v c) (da dn : Option ES) (ta tn : Nat)
    (h1 : da = c.da) (h2 : dn = c.dn) (h3 : ta = c.ta) (h4 : tn = c.tn) :
    Norm cfg v { ma := da, da := da, mn := dn, dn := dn, ta := ta, tn := tn, g := none } := by
  subst h1 h2 h3 h4
  exact ⟨h.da, h.da, h.dn, h.dn, h.ta, h.tn, fun x hx => by cases hx⟩

theorem crash_other_final (cfg : Cfg) (Ta Tn : String) (ha : cfg.anon = some Ta) (hn : cfg.named = some Tn)
    (hne : Ta ≠ Tn) (ops : List NOp) (k j : Nat) (hk : ∀ i l t, ops[k]? ≠ some (.point i l t)) (id : String) :
    ∃ v, Norm cfg v (cellOf Ta Tn (nrecover cfg {} ops k j) id) := by
  obtain ⟨hcoh, hb⟩ := before_crash cfg Ta Tn ha hn hne (ops.take k)
  have hcr : (ncrashAt cfg {} ops k j).svc.persist = true ∧
      (ncrashAt cfg {} ops k j).svc.disk = (nrun cfg {} (ops.take k)).svc.disk ∧
      (ncrashAt cfg {} ops k j).svc.told = (nrun cfg {} (ops.take k)).svc.told := by
    unfold ncrashAt
    cases hop : ops[k]? with
    | none => simp [nrunMicros, hcoh.persist]
    | some op =>
      cases op with
      | point i l t => exact absurd hop (hk i l t)
      | taskRestart =>
        simp only [Option.map_some, Option.getD_some]
        obtain ⟨p, d, tt⟩ := crash_elsewhere cfg Ta ha (nrun cfg {} (ops.take k)) j
        exact ⟨by rw [p]; exact hcoh.persist, d, tt⟩
  obtain ⟨p, d, tt⟩ := hcr
  unfold nrecover
  rw [recover_cell cfg Ta Tn ha hn hne _ p (by rw [d]; exact hcoh.wkd), d, tt]
  exact ⟨_, norm_run cfg id _ _ (norm_restarted cfg _ _ (hb id).1 _ _ _ _ rfl rfl rfl rfl) _⟩

/-- the record of a point of level `l` did (`p`) or did not reach a bucket that held `o` -/
def dsk (p : Bool) (l : Nat) (e : ES) (o : Option ES) : Option ES :=
  if p = true then (if l = 0 then none else some e) else o

theorem faithful_dsk (p : Bool) (l : Nat) (e : ES) (o : Option ES) (he : e.level = l) (h : Faithful o) :
    Faithful (dsk p l e o) := by
  intro e' he'
  unfold dsk at he'
  split at he'
  · split at he'
    · cases he'
    · cases he'; rw [he]; assumption
  · exact h e' he'

theorem optLevel_dsk (p : Bool) (l : Nat) (e : ES) (o : Option ES) (he : e.level = l) :
    optLevel (dsk p l e o) = if p = true then l else optLevel o := by
  unfold dsk
  split
  · split
    · rename_i h0; simp [optLevel, h0]
    · simp [optLevel, he]
  · rfl

theorem crash_point_final (cfg : Cfg) (Ta Tn : String) (ha : cfg.anon = some Ta) (hn : cfg.named = some Tn)
    (hne : Ta ≠ Tn) (ops : List NOp) (k j : Nat) (i0 : String) (l : Nat) (t : Payload)
    (hk : ops[k]? = some (.point i0 l t)) (id : String) :
    let L := nodeLevel cfg.noRec (ops.take k) i0
    let r := reached (announces cfg.sco cfg.noRec ((groupLevel (ops.take k) i0).getD L) l) j
    let dA := if r.diskA = true then l else L
    let dN := if r.diskN = true then l else L
    let e := if hasPoint i0 (ops.drop (k + 1)) = true then reconcile dA dN else (dA, dN)
    let cf := cellOf Ta Tn (nrecover cfg {} ops k j) id
    (id = i0 → quietFrom cfg.sco cfg.noRec e.1 i0 none (ops.drop (k + 1)) = true →
      optLevel cf.ma = e.1 ∧ optLevel cf.da = e.1 ∧ optLevel cf.mn = e.2 ∧ optLevel cf.dn = e.2 ∧
      cf.ta = (if r.toldA = true then l else L) ∧ cf.tn = (if r.toldN = true then l else L)) ∧
    (¬ (id = i0 ∧ quietFrom cfg.sco cfg.noRec e.1 i0 none (ops.drop (k + 1)) = true) → ∃ v, Norm cfg v cf) := by
  intro L r dA dN e cf
  obtain ⟨hcoh, hb⟩ := before_crash cfg Ta Tn ha hn hne (ops.take k)
  obtain ⟨hN0, hfa0, hfn0, hg0⟩ := hb i0
  generalize hbw : nrun cfg {} (ops.take k) = bw at hcoh hb hN0 hfa0 hfn0 hg0
  -- the crash
  have hcrash := crash_in_point cfg Ta Tn ha hn bw hcoh.persist i0 l t L hN0.ma hN0.mn j
  rw [hg0, emits_eq_announces] at hcrash
  have hc : ncrashAt cfg {} ops k j = nrunMicros bw ((nplan cfg bw (.point i0 l t)).take j) := by
    unfold ncrashAt; simp only [hk, Option.map_some, Option.getD_some, hbw]
  obtain ⟨p, d, tt⟩ := hcrash
  rw [← hc] at p d tt
  have hwk : ∀ T i e', (ncrashAt cfg {} ops k j).svc.disk T i = some e' → e'.id = i := by
    rw [d]; exact updIf_wk _ _ _ _ (updIf_wk _ _ _ _ hcoh.wkd)
  have hcf : cf = crun cfg id _ (ops.drop (k + 1)) := recover_cell cfg Ta Tn ha hn hne _ p hwk _ id
  rw [d, tt] at hcf
  obtain ⟨cA, cN⟩ := updIf_cells r.diskA r.diskN Ta Tn hne i0 l t bw.svc.disk id
  obtain ⟨uA, uN⟩ := told_cells r.toldA r.toldN Ta Tn hne i0 l t bw.svc.told id
  rw [cA, cN, uA, uN] at hcf
  by_cases hid : id = i0
  · subst hid
    simp only [and_true] at hcf
    -- the RESTARTED cell of the id in flight
    have hcf' : cf = crun cfg id
        { ma := dsk r.diskA l { id := id, level := l, time := t } (bw.svc.disk Ta id),
          da := dsk r.diskA l { id := id, level := l, time := t } (bw.svc.disk Ta id),
          mn := dsk r.diskN l { id := id, level := l, time := t } (bw.svc.disk Tn id),
          dn := dsk r.diskN l { id := id, level := l, time := t } (bw.svc.disk Tn id),
          ta := (if r.toldA = true then l else lastTold bw.svc.told Ta id),
          tn := (if r.toldN = true then l else lastTold bw.svc.told Tn id), g := none } (ops.drop (k + 1)) := hcf
    have hfin := fresh_final cfg id _
      (⟨rfl, rfl, faithful_dsk _ _ _ _ rfl hfa0, faithful_dsk _ _ _ _ rfl hfn0, rfl⟩ : Fresh
        { ma := dsk r.diskA l { id := id, level := l, time := t } (bw.svc.disk Ta id),
          da := dsk r.diskA l { id := id, level := l, time := t } (bw.svc.disk Ta id),
          mn := dsk r.diskN l { id := id, level := l, time := t } (bw.svc.disk Tn id),
          dn := dsk r.diskN l { id := id, level := l, time := t } (bw.svc.disk Tn id),
          ta := (if r.toldA = true then l else lastTold bw.svc.told Ta id),
          tn := (if r.toldN = true then l else lastTold bw.svc.told Tn id), g := none }) (ops.drop (k + 1))
    have hdA : optLevel (dsk r.diskA l { id := id, level := l, time := t } (bw.svc.disk Ta id)) = dA := by
      rw [optLevel_dsk r.diskA l { id := id, level := l, time := t } _ rfl, show optLevel (bw.svc.disk Ta id) = L from hN0.da]
    have hdN : optLevel (dsk r.diskN l { id := id, level := l, time := t } (bw.svc.disk Tn id)) = dN := by
      rw [optLevel_dsk r.diskN l { id := id, level := l, time := t } _ rfl, show optLevel (bw.svc.disk Tn id) = L from hN0.dn]
    simp only [hdA, hdN] at hfin
    rw [← hcf'] at hfin
    obtain ⟨hq, hnq⟩ := hfin
    refine ⟨fun _ hqt => ?_, fun hn' => ?_⟩
    · obtain ⟨a1, a2, a3, a4, a5, a6⟩ := hq hqt
      refine ⟨a1, a2, a3, a4, ?_, ?_⟩
      · rw [a5]; show (if r.toldA = true then l else _) = _
        rw [show lastTold bw.svc.told Ta id = L from hN0.ta]
      · rw [a6]; show (if r.toldN = true then l else _) = _
        rw [show lastTold bw.svc.told Tn id = L from hN0.tn]
    · have : quietFrom cfg.sco cfg.noRec e.1 id none (ops.drop (k + 1)) = false := by
        cases hqq : quietFrom cfg.sco cfg.noRec e.1 id none (ops.drop (k + 1))
        · rfl
        · exact absurd ⟨rfl, hqq⟩ hn'
      exact hnq this
  · have hid' : ¬ i0 = id := fun hh => hid hh.symm
    simp only [hid', and_false, if_false] at hcf
    refine ⟨fun h => absurd h hid, fun _ => ?_⟩
    rw [hcf]
    exact ⟨_, norm_run cfg id _ _ (norm_restarted cfg _ _ (hb id).1 _ _ _ _ rfl rfl rfl rfl) _⟩

/-- `crash_point_final` in the vocabulary of the specification (`nodeCrashEnd`) -/
theorem crash_point_end (cfg : Cfg) (Ta Tn : String) (ha : cfg.anon = some Ta) (hn : cfg.named = some Tn)
    (hne : Ta ≠ Tn) (ops : List NOp) (k j : Nat) (i0 : String) (l : Nat) (t : Payload)
    (hk : ops[k]? = some (.point i0 l t)) (id : String) :
    ∃ q e, nodeCrashEnd cfg.sco cfg.noRec ops k j = some (i0, q, e) ∧
      (id = i0 → q = true →
        optLevel (cellOf Ta Tn (nrecover cfg {} ops k j) id).ma = e.lvA ∧
        optLevel (cellOf Ta Tn (nrecover cfg {} ops k j) id).da = e.lvA ∧
        optLevel (cellOf Ta Tn (nrecover cfg {} ops k j) id).mn = e.lvN ∧
        optLevel (cellOf Ta Tn (nrecover cfg {} ops k j) id).dn = e.lvN ∧
        (cellOf Ta Tn (nrecover cfg {} ops k j) id).ta = e.tA ∧
        (cellOf Ta Tn (nrecover cfg {} ops k j) id).tn = e.tN) ∧
      (¬ (id = i0 ∧ q = true) → ∃ v, Norm cfg v (cellOf Ta Tn (nrecover cfg {} ops k j) id)) := by
  obtain ⟨h1, h2⟩ := crash_point_final cfg Ta Tn ha hn hne ops k j i0 l t hk id
  let L := nodeLevel cfg.noRec (ops.take k) i0
  let r := reached (announces cfg.sco cfg.noRec ((groupLevel (ops.take k) i0).getD L) l) j
  let dA := if r.diskA = true then l else L
  let dN := if r.diskN = true then l else L
  let e := if hasPoint i0 (ops.drop (k + 1)) = true then reconcile dA dN else (dA, dN)
  exact ⟨quietFrom cfg.sco cfg.noRec e.1 i0 none (ops.drop (k + 1)),
    { lvA := e.1, tA := if r.toldA = true then l else L, lvN := e.2, tN := if r.toldN = true then l else L },
    by simp only [nodeCrashEnd, hk]; rfl, h1, h2⟩

end Kap.C08
