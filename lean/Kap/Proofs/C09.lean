/-
Helper lemmas for C09 (order properties of `less`, Go's insertion sort, the topic invariant).
-/
import Kap.Spec.C09
namespace Kap.C09

theorem str_trichotomy {a b : String} (h1 : ¬ a < b) (h2 : ¬ b < a) : a = b :=
  String.le_antisymm (String.not_lt.mp h2) (String.not_lt.mp h1)

theorem less_iff (a b : ES) :
    less a b = true ↔ (a.level > b.level ∨ (a.level = b.level ∧ a.id < b.id)) := by
  unfold less
  by_cases h : a.level = b.level
  · simp [h]
  · simp [h]

theorem less_irrefl (a : ES) : less a a = false := by
  cases h : less a a with
  | false => rfl
  | true =>
    rw [less_iff] at h
    rcases h with h | ⟨_, h⟩
    · omega
    · exact absurd h (String.lt_irrefl _)

theorem less_asymm {a b : ES} (h : less a b = true) : less b a = false := by
  cases h' : less b a with
  | false => rfl
  | true =>
    rw [less_iff] at h h'
    rcases h with h | ⟨e, h⟩ <;> rcases h' with h' | ⟨e', h'⟩
    · omega
    · omega
    · omega
    · exact absurd h' (String.lt_asymm h)

theorem less_trans {a b c : ES} (h1 : less a b = true) (h2 : less b c = true) : less a c = true := by
  rw [less_iff] at *
  rcases h1 with h1 | ⟨e1, h1⟩ <;> rcases h2 with h2 | ⟨e2, h2⟩
  · left; omega
  · left; omega
  · left; omega
  · right; exact ⟨by omega, String.lt_trans h1 h2⟩

/-- Totality on states with different ids — the only situation the sorted slice ever compares. -/
theorem less_total {a b : ES} (h : a.id ≠ b.id) : less a b = true ∨ less b a = true := by
  rw [less_iff, less_iff]
  by_cases h1 : a.level > b.level
  · left; left; exact h1
  · by_cases h2 : b.level > a.level
    · right; left; exact h2
    · have e : a.level = b.level := by omega
      by_cases h3 : a.id < b.id
      · left; right; exact ⟨e, h3⟩
      · right; right
        refine ⟨e.symm, ?_⟩
        by_cases h4 : b.id < a.id
        · exact h4
        · exact absurd (str_trichotomy h3 h4) h

/-- ids of a list of states -/
def ids (l : List ES) : List String := l.map (·.id)

/-- Sorted in the order of `less` (strictly: `Pairwise`). -/
def Sorted (l : List ES) : Prop := l.Pairwise (fun a b => less a b = true)
/-- Reverse-sorted (the accumulator of `goSort`). -/
def RSorted (l : List ES) : Prop := l.Pairwise (fun a b => less b a = true)

theorem insRev_perm (x : ES) (l : List ES) : (insRev less x l).Perm (x :: l) := by
  induction l with
  | nil => simp [insRev]
  | cons y ys ih =>
    unfold insRev
    split
    · exact ((ih.cons y).trans (List.Perm.swap x y ys))
    · exact List.Perm.refl _

theorem insRev_rsorted (x : ES) (l : List ES) (hs : RSorted l) (hx : ∀ y ∈ l, x.id ≠ y.id) :
    RSorted (insRev less x l) := by
  induction l with
  | nil => simp [insRev, RSorted]
  | cons y ys ih =>
    unfold insRev
    have hs' := List.pairwise_cons.mp hs
    split
    · rename_i hlt
      -- y stays in front, x is inserted further right
      refine List.pairwise_cons.mpr ⟨?_, ih hs'.2 (fun z hz => hx z (List.mem_cons_of_mem _ hz))⟩
      intro z hz
      have : z ∈ x :: ys := (insRev_perm x ys).subset hz
      rcases List.mem_cons.mp this with rfl | hz'
      · exact hlt
      · exact hs'.1 z hz'
    · rename_i hnlt
      have hyx : less y x = true := by
        rcases less_total (hx y List.mem_cons_self) with h | h
        · exact absurd h hnlt
        · exact h
      refine List.pairwise_cons.mpr ⟨?_, hs⟩
      intro z hz
      rcases List.mem_cons.mp hz with rfl | hz'
      · exact hyx
      · exact less_trans (hs'.1 z hz') hyx

theorem foldl_insRev_perm (l acc : List ES) :
    (l.foldl (fun acc x => insRev less x acc) acc).Perm (l.reverse ++ acc) := by
  induction l generalizing acc with
  | nil => simp
  | cons x xs ih =>
    simp only [List.foldl_cons, List.reverse_cons, List.append_assoc, List.singleton_append]
    exact (ih _).trans ((insRev_perm x acc).append_left _)

theorem foldl_insRev_rsorted (l acc : List ES) (hacc : RSorted acc)
    (hnd : (ids (l ++ acc)).Nodup) :
    RSorted (l.foldl (fun acc x => insRev less x acc) acc) := by
  induction l generalizing acc with
  | nil => simpa using hacc
  | cons x xs ih =>
    simp only [List.foldl_cons]
    have hnd' : (ids (x :: (xs ++ acc))).Nodup := by simpa [ids] using hnd
    have hx : ∀ y ∈ acc, x.id ≠ y.id := by
      intro y hy e
      have h1 := (List.nodup_cons.mp hnd').1
      apply h1
      simp only [List.map_append, List.mem_append, List.mem_map]
      exact Or.inr ⟨y, hy, e.symm⟩
    apply ih
    · exact insRev_rsorted x acc hacc hx
    · have hp : (ids (xs ++ insRev less x acc)).Perm (ids (x :: (xs ++ acc))) := by
        unfold ids
        apply List.Perm.map
        exact ((insRev_perm x acc).append_left xs).trans List.perm_middle
      exact hp.nodup_iff.mpr hnd'

theorem goSort_perm (l : List ES) : (goSort l).Perm l := by
  unfold goSort goSortWith
  have h := foldl_insRev_perm l []
  simp only [List.append_nil] at h
  exact (List.reverse_perm _).trans (h.trans (List.reverse_perm _))

theorem goSort_sorted (l : List ES) (hnd : (ids l).Nodup) : Sorted (goSort l) := by
  unfold goSort goSortWith Sorted
  have h := foldl_insRev_rsorted l [] (by simp [RSorted]) (by simpa using hnd)
  exact List.pairwise_reverse.mpr h

/-- Any two sorted arrangements of the same states coincide: the result of `sort.Sort` does not depend on
the sorting algorithm. -/
theorem sorted_unique' {l₁ l₂ : List ES} (h₁ : Sorted l₁) (h₂ : Sorted l₂) (hp : l₁.Perm l₂) : l₁ = l₂ := by
  refine List.Perm.eq_of_pairwise (le := fun a b => less a b = true) ?_ h₁ h₂ hp
  intro a b _ _ hab hba
  rw [less_asymm hab] at hba
  exact absurd hba (by simp)

end Kap.C09
