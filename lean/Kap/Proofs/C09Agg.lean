/- C09 aggregate handler: the transcribed loop computes maximum level, latest time, count. -/
import Kap.Spec.C09Agg
namespace Kap.C09.Agg

theorem fold_count (evs : List In) (a : Out) : (evs.foldl loopStep a).count = a.count := by
  induction evs generalizing a with
  | nil => rfl
  | cons e evs ih => rw [List.foldl_cons, ih]; rfl

theorem fold_level (evs : List In) (a : Out) :
    a.level ≤ (evs.foldl loopStep a).level ∧ (∀ e ∈ evs, e.level ≤ (evs.foldl loopStep a).level) ∧
    ((evs.foldl loopStep a).level = a.level ∨ ∃ e ∈ evs, e.level = (evs.foldl loopStep a).level) := by
  induction evs generalizing a with
  | nil => exact ⟨Nat.le_refl _, (by intro e h; cases h), Or.inl rfl⟩
  | cons e evs ih =>
    rw [List.foldl_cons]
    obtain ⟨h1, h2, h3⟩ := ih (loopStep a e)
    have hs : (loopStep a e).level = if e.level > a.level then e.level else a.level := rfl
    refine ⟨?_, ?_, ?_⟩
    · rw [hs] at h1; split at h1 <;> omega
    · intro x hx
      rcases List.mem_cons.mp hx with rfl | hx
      · rw [hs] at h1; split at h1 <;> omega
      · exact h2 x hx
    · rcases h3 with h3 | ⟨x, hx, h3⟩
      · rw [hs] at h3
        by_cases hc : e.level > a.level
        · rw [if_pos hc] at h3; exact Or.inr ⟨e, List.mem_cons_self, h3.symm⟩
        · rw [if_neg hc] at h3; exact Or.inl h3
      · exact Or.inr ⟨x, List.mem_cons_of_mem _ hx, h3⟩

theorem fold_time_some (evs : List In) (a : Out) (t0 : Int) (h : a.time = some t0) :
    ∃ rt, (evs.foldl loopStep a).time = some rt ∧ t0 ≤ rt ∧ (∀ e ∈ evs, e.time ≤ rt) ∧
      (rt = t0 ∨ ∃ e ∈ evs, e.time = rt) := by
  induction evs generalizing a t0 with
  | nil => exact ⟨t0, h, Int.le_refl _, (by intro e he; cases he), Or.inl rfl⟩
  | cons e evs ih =>
    rw [List.foldl_cons]
    by_cases hc : e.time > t0
    · have hs : (loopStep a e).time = some e.time := by unfold loopStep; simp only [h]; rw [if_pos hc]
      obtain ⟨rt, r1, r2, r3, r4⟩ := ih (loopStep a e) e.time hs
      refine ⟨rt, r1, by omega, ?_, ?_⟩
      · intro x hx
        rcases List.mem_cons.mp hx with rfl | hx
        · exact r2
        · exact r3 x hx
      · rcases r4 with r4 | ⟨x, hx, r4⟩
        · exact Or.inr ⟨e, List.mem_cons_self, r4.symm⟩
        · exact Or.inr ⟨x, List.mem_cons_of_mem _ hx, r4⟩
    · have hs : (loopStep a e).time = some t0 := by unfold loopStep; simp only [h]; rw [if_neg hc]
      obtain ⟨rt, r1, r2, r3, r4⟩ := ih (loopStep a e) t0 hs
      refine ⟨rt, r1, r2, ?_, ?_⟩
      · intro x hx
        rcases List.mem_cons.mp hx with rfl | hx
        · omega
        · exact r3 x hx
      · rcases r4 with r4 | ⟨x, hx, r4⟩
        · exact Or.inl r4
        · exact Or.inr ⟨x, List.mem_cons_of_mem _ hx, r4⟩

theorem fold_time_none (e : In) (evs : List In) (a : Out) (h : a.time = none) :
    ∃ rt, ((e :: evs).foldl loopStep a).time = some rt ∧ (∀ x ∈ e :: evs, x.time ≤ rt) ∧
      ∃ x ∈ e :: evs, x.time = rt := by
  rw [List.foldl_cons]
  have hs : (loopStep a e).time = some e.time := by unfold loopStep; simp only [h]
  obtain ⟨rt, r1, r2, r3, r4⟩ := fold_time_some evs (loopStep a e) e.time hs
  refine ⟨rt, r1, ?_, ?_⟩
  · intro x hx
    rcases List.mem_cons.mp hx with rfl | hx
    · exact r2
    · exact r3 x hx
  · rcases r4 with r4 | ⟨x, hx, r4⟩
    · exact ⟨e, List.mem_cons_self, r4.symm⟩
    · exact ⟨x, List.mem_cons_of_mem _ hx, r4⟩

end Kap.C09.Agg
