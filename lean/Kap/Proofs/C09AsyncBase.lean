/-
C09 asynchronous model — basic facts shared by all proofs: what each step leaves alone (frame lemmas), the
well-formedness invariant `WF` (handler keys are unique, a handler that is not registered has no queue) and the
unfolding of the recursion along the topic order (`along_unfold`).
-/
import Kap.Spec.C09Async
namespace Kap.C09.AsyncProofs
open Kap.C09 Kap.C09.Svc Kap.C09.SvcSpec Kap.C09.Async Kap.C09.AsyncSpec

/-! ### generic -/

theorem iter_preserves {α : Type} (P : α → Prop) (f : α → α) (hf : ∀ a, P a → P (f a)) :
    ∀ (n : Nat) (a : α), P a → P (iter f n a)
  | 0, _, h => h
  | n + 1, a, h => iter_preserves P f hf n (f a) (hf a h)

theorem foldl_preserves {α β : Type} (P : α → Prop) (f : α → β → α) (hf : ∀ a b, P a → P (f a b)) :
    ∀ (l : List β) (a : α), P a → P (l.foldl f a)
  | [], _, h => h
  | b :: l, a, h => foldl_preserves P f hf l (f a b) (hf a b h)

/-! ### frame lemmas -/

@[simp] theorem collectOn_specs (s : ASt) (T : String) (it : Item) : (collectOn s T it).specs = s.specs := rfl
@[simp] theorem collectOn_recs (s : ASt) (T : String) (it : Item) : (collectOn s T it).recs = s.recs := rfl
@[simp] theorem collectOn_ncol (s : ASt) (T : String) (it : Item) : (collectOn s T it).ncol = s.ncol := rfl
@[simp] theorem collectOn_got (s : ASt) (T : String) (it : Item) : (collectOn s T it).got = s.got := rfl
@[simp] theorem collectOn_done (s : ASt) (T : String) (it : Item) : (collectOn s T it).done = s.done := rfl

theorem collectOn_hq (s : ASt) (T : String) (it : Item) (k : Key) :
    (collectOn s T it).hq k =
      if k.1 = T ∧ s.isSpec k = true then s.hq k ++ [{ it with ev := seen s.last T it.ev }] else s.hq k := rfl

theorem collectOn_rq (s : ASt) (T : String) (it : Item) (r : Key) :
    (collectOn s T it).rq r =
      if r.1 = T ∧ r ∈ s.recs then s.rq r ++ [{ it with ev := seen s.last T it.ev }] else s.rq r := rfl

theorem collectOn_arr (s : ASt) (T : String) (it : Item) (Y : String) :
    (collectOn s T it).arr Y =
      if Y = T then { it with ev := seen s.last T it.ev } :: s.arr Y else s.arr Y := rfl

theorem collectOn_last (s : ASt) (T : String) (it : Item) (Y i : String) :
    (collectOn s T it).last Y i = if Y = T ∧ i = it.ev.id then some it.ev.level else s.last Y i := rfl

theorem isSpec_congr {s s' : ASt} (h : s'.specs = s.specs) (k : Key) : s'.isSpec k = s.isSpec k := by
  unfold ASt.isSpec; rw [h]
theorem specOf_congr {s s' : ASt} (h : s'.specs = s.specs) (k : Key) : s'.specOf k = s.specOf k := by
  unfold ASt.specOf; rw [h]

/-- a property of the state that one `collectOn` preserves is preserved by `publish` -/
theorem publish_preserves (P : ASt → Prop) (hP : ∀ a t it, P a → P (collectOn a t it)) (s : ASt) (sp : Spec)
    (it : Item) (h : P s) : P (publish s sp it) := by
  unfold publish
  exact foldl_preserves P _ (fun a t ha => hP a t _ ha) _ _ h

theorem publish_specs (s : ASt) (sp : Spec) (it : Item) : (publish s sp it).specs = s.specs :=
  publish_preserves (fun a => a.specs = s.specs) (fun _ _ _ h => h) s sp it rfl
theorem publish_recs (s : ASt) (sp : Spec) (it : Item) : (publish s sp it).recs = s.recs :=
  publish_preserves (fun a => a.recs = s.recs) (fun _ _ _ h => h) s sp it rfl
theorem publish_ncol (s : ASt) (sp : Spec) (it : Item) : (publish s sp it).ncol = s.ncol :=
  publish_preserves (fun a => a.ncol = s.ncol) (fun _ _ _ h => h) s sp it rfl
theorem publish_got (s : ASt) (sp : Spec) (it : Item) : (publish s sp it).got = s.got :=
  publish_preserves (fun a => a.got = s.got) (fun _ _ _ h => h) s sp it rfl
theorem publish_done (s : ASt) (sp : Spec) (it : Item) : (publish s sp it).done = s.done :=
  publish_preserves (fun a => a.done = s.done) (fun _ _ _ h => h) s sp it rfl

/-- `runH` spelled out: either nothing happens, or the head of the queue is taken and (if the match holds)
published -/
theorem runH_cases (s : ASt) (k : Key) :
    runH s k = s ∨
    ∃ sp it rest, s.specOf k = some sp ∧ s.hq k = it :: rest ∧
      runH s k =
        (let s1 : ASt := { s with hq := fun k' => if k' = k then rest else s.hq k',
                                  done := fun k' => if k' = k then s.done k ++ [it] else s.done k' }
         if holds sp it.ev then publish s1 sp it else s1) := by
  unfold runH
  cases h1 : s.specOf k with
  | none => left; rfl
  | some sp =>
    cases h2 : s.hq k with
    | nil => left; rfl
    | cons it rest => right; exact ⟨sp, it, rest, rfl, rfl, rfl⟩

/-- a property of the state preserved by `collectOn` and by taking the head of a queue is preserved by `runH` -/
theorem runH_preserves (P : ASt → Prop) (hP : ∀ a t it, P a → P (collectOn a t it))
    (hpop : ∀ (a : ASt) (k : Key) (it : Item) (rest : List Item), a.hq k = it :: rest → P a →
      P { a with hq := fun k' => if k' = k then rest else a.hq k',
                 done := fun k' => if k' = k then a.done k ++ [it] else a.done k' })
    (s : ASt) (k : Key) (h : P s) : P (runH s k) := by
  rcases runH_cases s k with e | ⟨sp, it, rest, _, h2, e⟩
  · rw [e]; exact h
  · rw [e]
    simp only
    split
    · exact publish_preserves P hP _ _ _ (hpop s k it rest h2 h)
    · exact hpop s k it rest h2 h

theorem runH_specs (s : ASt) (k : Key) : (runH s k).specs = s.specs :=
  runH_preserves (fun a => a.specs = s.specs) (fun _ _ _ h => h) (fun _ _ _ _ _ h => h) s k rfl
theorem runH_recs (s : ASt) (k : Key) : (runH s k).recs = s.recs :=
  runH_preserves (fun a => a.recs = s.recs) (fun _ _ _ h => h) (fun _ _ _ _ _ h => h) s k rfl
theorem runH_ncol (s : ASt) (k : Key) : (runH s k).ncol = s.ncol :=
  runH_preserves (fun a => a.ncol = s.ncol) (fun _ _ _ h => h) (fun _ _ _ _ _ h => h) s k rfl
theorem runH_got (s : ASt) (k : Key) : (runH s k).got = s.got :=
  runH_preserves (fun a => a.got = s.got) (fun _ _ _ h => h) (fun _ _ _ _ _ h => h) s k rfl

theorem runR_cases (s : ASt) (r : Key) :
    runR s r = s ∨
    ∃ it rest, s.rq r = it :: rest ∧
      runR s r = { s with rq := fun r' => if r' = r then rest else s.rq r',
                          got := fun r' => if r' = r then s.got r ++ [it] else s.got r' } := by
  unfold runR
  cases h : s.rq r with
  | nil => left; rfl
  | cons it rest => right; exact ⟨it, rest, rfl, rfl⟩

theorem runR_specs (s : ASt) (r : Key) : (runR s r).specs = s.specs := by
  rcases runR_cases s r with e | ⟨_, _, _, e⟩ <;> rw [e]
theorem runR_recs (s : ASt) (r : Key) : (runR s r).recs = s.recs := by
  rcases runR_cases s r with e | ⟨_, _, _, e⟩ <;> rw [e]
theorem runR_ncol (s : ASt) (r : Key) : (runR s r).ncol = s.ncol := by
  rcases runR_cases s r with e | ⟨_, _, _, e⟩ <;> rw [e]
theorem runR_hq (s : ASt) (r : Key) : (runR s r).hq = s.hq := by
  rcases runR_cases s r with e | ⟨_, _, _, e⟩ <;> rw [e]
theorem runR_last (s : ASt) (r : Key) : (runR s r).last = s.last := by
  rcases runR_cases s r with e | ⟨_, _, _, e⟩ <;> rw [e]
theorem runR_arr (s : ASt) (r : Key) : (runR s r).arr = s.arr := by
  rcases runR_cases s r with e | ⟨_, _, _, e⟩ <;> rw [e]

theorem drainH_preserves (P : ASt → Prop) (k : Key) (hP : ∀ a, P a → P (runH a k)) (s : ASt) (h : P s) :
    P (drainH s k) := by
  unfold drainH
  exact iter_preserves P _ hP _ _ h

theorem drainH_specs (s : ASt) (k : Key) : (drainH s k).specs = s.specs :=
  drainH_preserves (fun a => a.specs = s.specs) k (fun a h => (runH_specs a k).trans h) s rfl
theorem drainH_recs (s : ASt) (k : Key) : (drainH s k).recs = s.recs :=
  drainH_preserves (fun a => a.recs = s.recs) k (fun a h => (runH_recs a k).trans h) s rfl
theorem drainH_ncol (s : ASt) (k : Key) : (drainH s k).ncol = s.ncol :=
  drainH_preserves (fun a => a.ncol = s.ncol) k (fun a h => (runH_ncol a k).trans h) s rfl

/-- a property preserved by the three kinds of elementary change and by the configuration changes is preserved by
every step, hence along every schedule -/
theorem exec_preserves (P : ASt → Prop)
    (hrunH : ∀ a k, P a → P (runH a k)) (hrunR : ∀ a r, P a → P (runR a r))
    (hop : ∀ a op, P a → P (execOp a op)) (s : ASt) (st : Step) (h : P s) : P (exec s st) := by
  cases st with
  | ext op => exact hop s op h
  | runH k => exact hrunH s k h
  | runR r => exact hrunR s r h

theorem execAll_preserves (P : ASt → Prop) (hstep : ∀ a st, P a → P (exec a st)) (sched : List Step) (s : ASt)
    (h : P s) : P (execAll sched s) := by
  unfold execAll
  exact foldl_preserves P _ hstep _ _ h

/-! ### recursion along the order -/

theorem after_cons (o : String) (rest : List String) (T : String) :
    after (o :: rest) T = if o == T then rest else after rest T := rfl

theorem after_subset : ∀ (ord : List String) (T t : String), t ∈ after ord T → t ∈ ord
  | [], _, _, h => by cases h
  | o :: rest, T, t, h => by
    rw [after_cons] at h
    split at h
    · exact List.mem_cons_of_mem _ h
    · exact List.mem_cons_of_mem _ (after_subset rest T t h)

/-- **Unfolding along the order.** If the level function at `T` only looks at the values of topics after `T`
(`hloc`), the recursion along a duplicate-free order satisfies its defining equation with ITSELF below. -/
theorem along_unfold {β : Type} (lvl : (String → β) → String → β) (z : String → β) :
    ∀ (ord : List String), ord.Nodup → ∀ (T : String),
      (∀ b b' : String → β, (∀ t ∈ after ord T, b t = b' t) → lvl b T = lvl b' T) →
      along lvl z ord T = lvl (along lvl z ord) T
  | [], _, T, hloc => by
    show lvl z T = lvl (along lvl z []) T
    exact hloc _ _ (fun t ht => by cases ht)
  | o :: rest, hnd, T, hloc => by
    have hno : o ∉ rest := (List.nodup_cons.mp hnd).1
    have hnr : rest.Nodup := (List.nodup_cons.mp hnd).2
    by_cases hoT : o = T
    · have e1 : along lvl z (o :: rest) T = lvl (along lvl z rest) T := by
        show (if o = T then lvl (along lvl z rest) T else along lvl z rest T) = _
        rw [if_pos hoT]
      rw [e1]
      apply hloc
      intro t ht
      have ht' : t ∈ rest := by
        rw [after_cons] at ht
        have : (o == T) = true := by simp [hoT]
        rw [if_pos this] at ht; exact ht
      have hne : o ≠ t := fun e => hno (e ▸ ht')
      show along lvl z rest t = (if o = t then lvl (along lvl z rest) t else along lvl z rest t)
      rw [if_neg hne]
    · have e1 : along lvl z (o :: rest) T = along lvl z rest T := by
        show (if o = T then lvl (along lvl z rest) T else along lvl z rest T) = _
        rw [if_neg hoT]
      have haft : after (o :: rest) T = after rest T := by
        rw [after_cons]
        have : (o == T) = false := by simp [hoT]
        rw [this]; rfl
      rw [e1, along_unfold lvl z rest hnr T (by rw [← haft]; exact hloc)]
      apply hloc
      intro t ht
      rw [haft] at ht
      have ht' : t ∈ rest := after_subset rest T t ht
      have hne : o ≠ t := fun e => hno (e ▸ ht')
      show along lvl z rest t = (if o = t then lvl (along lvl z rest) t else along lvl z rest t)
      rw [if_neg hne]

theorem fwd_mem {ord : List String} {specs : List Spec} (h : fwd ord specs = true) {sp : Spec} (hsp : sp ∈ specs)
    {t : String} (ht : t ∈ sp.targets) : t ∈ after ord sp.topic := by
  unfold fwd at h
  have := List.all_eq_true.mp (List.all_eq_true.mp h sp hsp) t ht
  simpa using this

/-! ### well-formedness -/

structure WF (s : ASt) : Prop where
  keys : (s.specs.map Spec.key).Nodup
  recs : s.recs.Nodup
  hq : ∀ k, s.isSpec k = false → s.hq k = []
  rq : ∀ r, r ∉ s.recs → s.rq r = [] ∧ s.got r = []

theorem isSpec_iff (s : ASt) (k : Key) : s.isSpec k = true ↔ ∃ sp ∈ s.specs, sp.key = k := by
  unfold ASt.isSpec
  rw [List.any_eq_true]
  constructor
  · rintro ⟨sp, h1, h2⟩
    refine ⟨sp, h1, ?_⟩
    simp only [Bool.and_eq_true, beq_iff_eq] at h2
    exact Prod.ext h2.1 h2.2
  · rintro ⟨sp, h1, rfl⟩
    exact ⟨sp, h1, by simp [Spec.key]⟩

theorem wf_init : WF ({} : ASt) :=
  ⟨List.nodup_nil, List.nodup_nil, fun _ _ => rfl, fun _ _ => ⟨rfl, rfl⟩⟩

theorem wf_collectOn (s : ASt) (T : String) (it : Item) (h : WF s) : WF (collectOn s T it) := by
  refine ⟨h.keys, h.recs, ?_, ?_⟩
  · intro k hk
    have hk' : s.isSpec k = false := hk
    rw [collectOn_hq, if_neg (by intro hh; rw [hh.2] at hk'; cases hk')]
    exact h.hq k hk'
  · intro r hr
    have hr' : r ∉ s.recs := hr
    rw [collectOn_rq, if_neg (fun hh => hr' hh.2)]
    exact h.rq r hr'

theorem wf_runH (s : ASt) (k : Key) (h : WF s) : WF (runH s k) := by
  refine runH_preserves WF (fun a t it ha => wf_collectOn a t it ha) ?_ s k h
  intro a k it rest hq ha
  refine ⟨ha.keys, ha.recs, ?_, ha.rq⟩
  intro k' hk'
  show (if k' = k then rest else a.hq k') = []
  have hk'' : a.isSpec k' = false := hk'
  by_cases e : k' = k
  · subst e; rw [ha.hq k' hk''] at hq; cases hq
  · rw [if_neg e]; exact ha.hq k' hk''

theorem wf_runR (s : ASt) (r : Key) (h : WF s) : WF (runR s r) := by
  rcases runR_cases s r with e | ⟨it, rest, hq, e⟩
  · rw [e]; exact h
  · rw [e]
    refine ⟨h.keys, h.recs, h.hq, ?_⟩
    intro r' hr'
    have hr'' : r' ∉ s.recs := hr'
    have hne : r' ≠ r := by
      intro e'; subst e'; rw [(h.rq r' hr'').1] at hq; cases hq
    show (if r' = r then rest else s.rq r') = [] ∧ (if r' = r then s.got r ++ [it] else s.got r') = []
    rw [if_neg hne, if_neg hne]; exact h.rq r' hr''

theorem filter_keys_nodup (specs : List Spec) (p : Spec → Bool) (h : (specs.map Spec.key).Nodup) :
    ((specs.filter p).map Spec.key).Nodup :=
  List.Sublist.nodup (List.Sublist.map _ List.filter_sublist) h

theorem wf_removeSpec (s : ASt) (k : Key) (h : WF s) : WF (removeSpec s k) := by
  refine ⟨filter_keys_nodup _ _ h.keys, h.recs, ?_, h.rq⟩
  intro k' hk'
  show (if k' = k then [] else s.hq k') = []
  by_cases e : k' = k
  · rw [if_pos e]
  · rw [if_neg e]
    apply h.hq
    cases hs : s.isSpec k' with
    | false => rfl
    | true =>
      obtain ⟨sp, h1, h2⟩ := (isSpec_iff s k').mp hs
      have : (removeSpec s k).isSpec k' = true := by
        apply (isSpec_iff _ k').mpr
        refine ⟨sp, ?_, h2⟩
        show sp ∈ s.specs.filter _
        refine List.mem_filter.mpr ⟨h1, ?_⟩
        have hne : ¬ (sp.topic = k.1 ∧ sp.hid = k.2) := by
          intro hh; apply e; rw [← h2]; exact Prod.ext hh.1 hh.2
        simp only [Bool.not_eq_true', Bool.and_eq_false_iff, beq_eq_false_iff_ne, ne_eq]
        by_cases h3 : sp.topic = k.1
        · right; exact fun h4 => hne ⟨h3, h4⟩
        · left; exact h3
      rw [this] at hk'; cases hk'

theorem removeSpec_not_isSpec (s : ASt) (k : Key) : (removeSpec s k).isSpec k = false := by
  cases hs : (removeSpec s k).isSpec k with
  | false => rfl
  | true =>
    obtain ⟨sp, h1, h2⟩ := (isSpec_iff _ k).mp hs
    have := (List.mem_filter.mp h1).2
    rw [← h2] at this
    simp [Spec.key] at this

theorem wf_addSpec (s : ASt) (sp : Spec) (h : WF s) (hn : s.isSpec sp.key = false) :
    WF { s with specs := s.specs ++ [sp] } := by
  refine ⟨?_, h.recs, ?_, h.rq⟩
  · show ((s.specs ++ [sp]).map Spec.key).Nodup
    rw [List.map_append, List.nodup_append]
    refine ⟨h.keys, by simp, ?_⟩
    intro a ha b hb
    simp only [List.map_cons, List.map_nil, List.mem_singleton] at hb
    subst hb
    intro e; subst e
    obtain ⟨sp', h1, h2⟩ := List.mem_map.mp ha
    have : s.isSpec sp.key = true := (isSpec_iff s _).mpr ⟨sp', h1, h2⟩
    rw [this] at hn; cases hn
  · intro k hk
    apply h.hq
    cases hs : s.isSpec k with
    | false => rfl
    | true =>
      obtain ⟨sp', h1, h2⟩ := (isSpec_iff s k).mp hs
      have : ASt.isSpec { s with specs := s.specs ++ [sp] } k = true :=
        (isSpec_iff _ k).mpr ⟨sp', List.mem_append_left _ h1, h2⟩
      rw [this] at hk; cases hk

theorem wf_drainH (s : ASt) (k : Key) (h : WF s) : WF (drainH s k) :=
  drainH_preserves WF k (fun a ha => wf_runH a k ha) s h

theorem wf_execOp (s : ASt) (op : Svc.Op) (h : WF s) : WF (execOp s op) := by
  cases op with
  | recorder T n =>
    show WF (if (T, n) ∈ s.recs then s else { s with recs := s.recs ++ [(T, n)] })
    split
    · exact h
    · rename_i hn
      refine ⟨h.keys, ?_, h.hq, ?_⟩
      · show (s.recs ++ [(T, n)]).Nodup
        rw [List.nodup_append]
        refine ⟨h.recs, by simp, ?_⟩
        intro a ha b hb
        simp only [List.mem_singleton] at hb
        subst hb; intro e; subst e; exact hn ha
      · intro r hr
        exact h.rq r (fun hh => hr (List.mem_append_left _ hh))
  | reg sp =>
    show WF (if s.isSpec sp.key then s else { s with specs := s.specs ++ [sp] })
    split
    · exact h
    · rename_i hn
      exact wf_addSpec s sp h (by simpa using hn)
  | dereg T hid => exact wf_removeSpec _ _ (wf_drainH _ _ h)
  | upd T old sp =>
    show WF (if s.isSpec (T, old) = true ∧ (sp.key = (T, old) ∨ s.isSpec sp.key = false) then _ else s)
    split
    · rename_i hc
      apply wf_addSpec _ sp (wf_removeSpec _ _ (wf_drainH _ _ h))
      rcases hc.2 with e | e
      · rw [e]; exact removeSpec_not_isSpec _ _
      · cases hs : (removeSpec (drainH s (T, old)) (T, old)).isSpec sp.key with
        | false => rfl
        | true =>
          obtain ⟨sp', h1, h2⟩ := (isSpec_iff _ _).mp hs
          have h1' : sp' ∈ (drainH s (T, old)).specs := (List.mem_filter.mp h1).1
          rw [drainH_specs] at h1'
          have : s.isSpec sp.key = true := (isSpec_iff _ _).mpr ⟨sp', h1', h2⟩
          rw [this] at e; cases e
    · exact h
  | collect T ev => exact wf_collectOn _ _ _ ⟨h.keys, h.recs, h.hq, h.rq⟩

/-- **every schedule keeps the state well-formed** -/
theorem wf_execAll (sched : List Step) (s : ASt) (h : WF s) : WF (execAll sched s) :=
  execAll_preserves WF (fun a st ha => exec_preserves WF wf_runH wf_runR wf_execOp a st ha) sched s h

end Kap.C09.AsyncProofs
