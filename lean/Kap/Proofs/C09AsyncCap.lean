/-
C09 asynchronous model with bounded queues (Kap/Model/C09AsyncCap.lean):
A. `cap = none` is the unbounded model of Kap/Model/C09Async.lean, step by step and along every schedule;
B. overflow is local: whatever the capacity, `Topic.collect` stores the state and logs the arrival, a handler gets
   the event iff its OWN queue is not full, every target topic of a publish handler stores the event, and handlers
   of topics that are not targets keep their queues.
C. the same for one step of a spec handler's goroutine.
Core Lean only.
-/
import Kap.Model.C09AsyncCap
import Kap.Proofs.C09AsyncBase
namespace Kap.C09.AsyncProofs.Cap
open Kap.C09 Kap.C09.Svc Kap.C09.SvcSpec Kap.C09.Async Kap.C09.AsyncProofs

/-- a schedule run with capacity `cap` -/
def execAllC (cap : Option Nat) (sched : List Step) (s : ASt) : ASt := sched.foldl (execC cap) s

/-! ### A. unbounded = the old model -/

theorem full_none (q : List Item) : full none q = false := rfl

theorem enqOnlyC_none (s : ASt) (T : String) (it' : Item) : enqOnlyC none s T it' = enqOnly s T it' := by
  have h1 : (fun k : Key => if k.1 = T ∧ s.isSpec k = true ∧ full none (s.hq k) = false then s.hq k ++ [it']
        else s.hq k) = (fun k : Key => if k.1 = T ∧ s.isSpec k = true then s.hq k ++ [it'] else s.hq k) := by
    funext k
    by_cases h : k.1 = T ∧ s.isSpec k = true
    · rw [if_pos h, if_pos ⟨h.1, h.2, rfl⟩]
    · rw [if_neg h, if_neg (fun hh => h ⟨hh.1, hh.2.1⟩)]
  have h2 : (fun r : Key => if r.1 = T ∧ r ∈ s.recs ∧ full none (s.rq r) = false then s.rq r ++ [it']
        else s.rq r) = (fun r : Key => if r.1 = T ∧ r ∈ s.recs then s.rq r ++ [it'] else s.rq r) := by
    funext r
    by_cases h : r.1 = T ∧ r ∈ s.recs
    · rw [if_pos h, if_pos ⟨h.1, h.2, rfl⟩]
    · rw [if_neg h, if_neg (fun hh => h ⟨hh.1, hh.2.1⟩)]
  unfold enqOnlyC enqOnly
  rw [h1, h2]

theorem collectOnC_none (s : ASt) (T : String) (it : Item) : collectOnC none s T it = collectOn s T it := by
  unfold collectOnC collectOn
  exact enqOnlyC_none _ _ _

theorem publishC_none (s : ASt) (sp : Spec) (it : Item) : publishC none s sp it = publish s sp it := by
  have h : (fun (acc : ASt) (t : String) => collectOnC none acc t (it.ext sp.key)) =
      (fun (acc : ASt) (t : String) => collectOn acc t (it.ext sp.key)) := by
    funext acc t; exact collectOnC_none _ _ _
  unfold publishC publish
  rw [h]

theorem runHC_none (s : ASt) (k : Key) : runHC none s k = runH s k := by
  unfold runHC runH
  cases h1 : s.specOf k with
  | none => rfl
  | some sp =>
    cases h2 : s.hq k with
    | nil => rfl
    | cons it rest =>
      simp only
      rw [publishC_none]

theorem runHC_none_fun (k : Key) : (fun a : ASt => runHC none a k) = (fun a : ASt => runH a k) := by
  funext a; exact runHC_none a k

theorem drainHC_none (s : ASt) (k : Key) : drainHC none s k = drainH s k := by
  unfold drainHC drainH
  rw [runHC_none_fun]

theorem execOpC_none (s : ASt) (op : Svc.Op) : execOpC none s op = execOp s op := by
  cases op with
  | recorder T n => rfl
  | reg sp => rfl
  | dereg T hid =>
    show removeSpec (drainHC none s (T, hid)) (T, hid) = removeSpec (drainH s (T, hid)) (T, hid)
    rw [drainHC_none]
  | upd T old sp =>
    unfold execOpC execOp
    simp only
    rw [drainHC_none]
  | collect T ev =>
    unfold execOpC execOp
    simp only
    rw [collectOnC_none]

theorem execC_none (s : ASt) (st : Step) : execC none s st = exec s st := by
  cases st with
  | ext op => exact execOpC_none s op
  | runH k => exact runHC_none s k
  | runR r => rfl

theorem execC_none_fun : execC none = exec := by
  funext s st; exact execC_none s st

/-- **every theorem about `execAll` is a theorem about the model with unbounded queues** -/
theorem execAllC_none (sched : List Step) (s : ASt) : execAllC none sched s = execAll sched s := by
  unfold execAllC execAll
  rw [execC_none_fun]

/-! ### B. overflow is local -/

/-- the topic's state is stored whatever happens to the queues -/
theorem collectOnC_last (cap : Option Nat) (s : ASt) (T : String) (it : Item) :
    (collectOnC cap s T it).last = (collectOn s T it).last := rfl

/-- the arrival is logged whatever happens to the queues -/
theorem collectOnC_arr (cap : Option Nat) (s : ASt) (T : String) (it : Item) :
    (collectOnC cap s T it).arr = (collectOn s T it).arr := rfl

theorem collectOnC_specs (cap : Option Nat) (s : ASt) (T : String) (it : Item) :
    (collectOnC cap s T it).specs = s.specs := rfl
theorem collectOnC_recs (cap : Option Nat) (s : ASt) (T : String) (it : Item) :
    (collectOnC cap s T it).recs = s.recs := rfl
theorem collectOnC_got (cap : Option Nat) (s : ASt) (T : String) (it : Item) :
    (collectOnC cap s T it).got = s.got := rfl
theorem collectOnC_done (cap : Option Nat) (s : ASt) (T : String) (it : Item) :
    (collectOnC cap s T it).done = s.done := rfl
theorem collectOnC_ncol (cap : Option Nat) (s : ASt) (T : String) (it : Item) :
    (collectOnC cap s T it).ncol = s.ncol := rfl

/-- `collectOnC` on a spec handler's queue, spelled out -/
theorem collectOnC_hq_raw (cap : Option Nat) (s : ASt) (T : String) (it : Item) (k : Key) :
    (collectOnC cap s T it).hq k =
      if k.1 = T ∧ s.isSpec k = true ∧ full cap (s.hq k) = false then
        s.hq k ++ [{ it with ev := seen s.last T it.ev }] else s.hq k := rfl

theorem collectOnC_rq_raw (cap : Option Nat) (s : ASt) (T : String) (it : Item) (r : Key) :
    (collectOnC cap s T it).rq r =
      if r.1 = T ∧ r ∈ s.recs ∧ full cap (s.rq r) = false then
        s.rq r ++ [{ it with ev := seen s.last T it.ev }] else s.rq r := rfl

/-- **a handler gets the event iff its OWN queue is not full** — the queues of the other handlers do not matter -/
theorem collectOnC_hq (cap : Option Nat) (s : ASt) (T : String) (it : Item) (k : Key) :
    (collectOnC cap s T it).hq k = if full cap (s.hq k) = true then s.hq k else (collectOn s T it).hq k := by
  rw [collectOnC_hq_raw, collectOn_hq]
  cases hf : full cap (s.hq k) with
  | true =>
    rw [if_neg (fun hh => by cases hh.2.2), if_pos rfl]
  | false =>
    rw [if_neg (fun (h : false = true) => by cases h)]
    by_cases h : k.1 = T ∧ s.isSpec k = true
    · rw [if_pos h, if_pos ⟨h.1, h.2, rfl⟩]
    · rw [if_neg h, if_neg (fun hh => h ⟨hh.1, hh.2.1⟩)]

theorem collectOnC_rq (cap : Option Nat) (s : ASt) (T : String) (it : Item) (r : Key) :
    (collectOnC cap s T it).rq r = if full cap (s.rq r) = true then s.rq r else (collectOn s T it).rq r := by
  rw [collectOnC_rq_raw, collectOn_rq]
  cases hf : full cap (s.rq r) with
  | true =>
    rw [if_neg (fun hh => by cases hh.2.2), if_pos rfl]
  | false =>
    rw [if_neg (fun (h : false = true) => by cases h)]
    by_cases h : r.1 = T ∧ r ∈ s.recs
    · rw [if_pos h, if_pos ⟨h.1, h.2, rfl⟩]
    · rw [if_neg h, if_neg (fun hh => h ⟨hh.1, hh.2.1⟩)]

/-- one collect from two states that agree on the topics' states -/
theorem collectOnC_last_of (cap : Option Nat) (s1 s2 : ASt) (T : String) (it : Item) (h : s1.last = s2.last) :
    (collectOnC cap s1 T it).last = (collectOn s2 T it).last := by
  show (fun Y i => if Y = T ∧ i = it.ev.id then some it.ev.level else s1.last Y i) =
    (fun Y i => if Y = T ∧ i = it.ev.id then some it.ev.level else s2.last Y i)
  rw [h]

theorem collectOnC_arr_of (cap : Option Nat) (s1 s2 : ASt) (T : String) (it : Item) (h : s1.last = s2.last)
    (ha : s1.arr = s2.arr) : (collectOnC cap s1 T it).arr = (collectOn s2 T it).arr := by
  show (fun Y => if Y = T then ({ it with ev := seen s1.last T it.ev } : Item) :: s1.arr Y else s1.arr Y) =
    (fun Y => if Y = T then ({ it with ev := seen s2.last T it.ev } : Item) :: s2.arr Y else s2.arr Y)
  rw [h, ha]

theorem foldl_collectOnC_last_arr (cap : Option Nat) (it : Item) :
    ∀ (ts : List String) (s1 s2 : ASt), s1.last = s2.last → s1.arr = s2.arr →
      (ts.foldl (fun acc t => collectOnC cap acc t it) s1).last =
        (ts.foldl (fun acc t => collectOn acc t it) s2).last ∧
      (ts.foldl (fun acc t => collectOnC cap acc t it) s1).arr =
        (ts.foldl (fun acc t => collectOn acc t it) s2).arr
  | [], _, _, h, ha => ⟨h, ha⟩
  | t :: ts, s1, s2, h, ha =>
    foldl_collectOnC_last_arr cap it ts (collectOnC cap s1 t it) (collectOn s2 t it)
      (collectOnC_last_of cap s1 s2 t it h) (collectOnC_arr_of cap s1 s2 t it h ha)

/-- **every target topic of a publish handler stores the event and logs its arrival**, whatever overflows on other
targets or handlers: states and arrival logs are those of the unbounded model -/
theorem publishC_last_arr_of (cap : Option Nat) (s1 s2 : ASt) (sp : Spec) (it : Item) (h : s1.last = s2.last)
    (ha : s1.arr = s2.arr) :
    (publishC cap s1 sp it).last = (publish s2 sp it).last ∧ (publishC cap s1 sp it).arr = (publish s2 sp it).arr := by
  unfold publishC publish
  exact foldl_collectOnC_last_arr cap _ sp.targets s1 s2 h ha

theorem publishC_last_arr (cap : Option Nat) (s : ASt) (sp : Spec) (it : Item) :
    (publishC cap s sp it).last = (publish s sp it).last ∧ (publishC cap s sp it).arr = (publish s sp it).arr :=
  publishC_last_arr_of cap s s sp it rfl rfl

theorem collectOnC_hq_other (cap : Option Nat) (s : ASt) (T : String) (it : Item) (k : Key) (h : k.1 ≠ T) :
    (collectOnC cap s T it).hq k = s.hq k := by
  rw [collectOnC_hq_raw, if_neg (fun hh => h hh.1)]

theorem collectOnC_rq_other (cap : Option Nat) (s : ASt) (T : String) (it : Item) (r : Key) (h : r.1 ≠ T) :
    (collectOnC cap s T it).rq r = s.rq r := by
  rw [collectOnC_rq_raw, if_neg (fun hh => h hh.1)]

theorem foldl_collectOnC_hq_other (cap : Option Nat) (it : Item) (k : Key) :
    ∀ (ts : List String) (s : ASt), k.1 ∉ ts → (ts.foldl (fun acc t => collectOnC cap acc t it) s).hq k = s.hq k
  | [], _, _ => rfl
  | t :: ts, s, h => by
    have h1 : k.1 ≠ t := fun e => h (e ▸ List.mem_cons_self)
    have h2 : k.1 ∉ ts := fun e => h (List.mem_cons_of_mem _ e)
    show (ts.foldl (fun acc t => collectOnC cap acc t it) (collectOnC cap s t it)).hq k = s.hq k
    rw [foldl_collectOnC_hq_other cap it k ts _ h2, collectOnC_hq_other cap s t it k h1]

theorem foldl_collectOnC_rq_other (cap : Option Nat) (it : Item) (r : Key) :
    ∀ (ts : List String) (s : ASt), r.1 ∉ ts → (ts.foldl (fun acc t => collectOnC cap acc t it) s).rq r = s.rq r
  | [], _, _ => rfl
  | t :: ts, s, h => by
    have h1 : r.1 ≠ t := fun e => h (e ▸ List.mem_cons_self)
    have h2 : r.1 ∉ ts := fun e => h (List.mem_cons_of_mem _ e)
    show (ts.foldl (fun acc t => collectOnC cap acc t it) (collectOnC cap s t it)).rq r = s.rq r
    rw [foldl_collectOnC_rq_other cap it r ts _ h2, collectOnC_rq_other cap s t it r h1]

/-- a handler whose topic is not a target of the publish handler keeps its queue -/
theorem publishC_hq_other (cap : Option Nat) (s : ASt) (sp : Spec) (it : Item) (k : Key) (h : k.1 ∉ sp.targets) :
    (publishC cap s sp it).hq k = s.hq k := by
  unfold publishC
  exact foldl_collectOnC_hq_other cap _ k sp.targets s h

theorem publishC_rq_other (cap : Option Nat) (s : ASt) (sp : Spec) (it : Item) (r : Key) (h : r.1 ∉ sp.targets) :
    (publishC cap s sp it).rq r = s.rq r := by
  unfold publishC
  exact foldl_collectOnC_rq_other cap _ r sp.targets s h

/-! ### C. one step of a spec handler's goroutine -/

/-- the topics' states and arrival logs after a handler's step are those of the unbounded model -/
theorem runHC_last_arr (cap : Option Nat) (s : ASt) (k : Key) (sp : Spec) (it : Item) (rest : List Item)
    (h1 : s.specOf k = some sp) (h2 : s.hq k = it :: rest) :
    (runHC cap s k).last = (runH s k).last ∧ (runHC cap s k).arr = (runH s k).arr := by
  unfold runHC runH
  rw [h1, h2]
  simp only
  split
  · exact publishC_last_arr cap _ sp it
  · exact ⟨rfl, rfl⟩

end Kap.C09.AsyncProofs.Cap
