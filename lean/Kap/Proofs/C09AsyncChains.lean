/-
C09, service layer — the driver's chain enumeration (`chains3`, three-valued match evaluation) agrees with the
proved specification (`fut`) whenever no registered match expression mentions `changed()`:

* `eval3_eq` / `holds3_eq` — without `changed()` the three-valued evaluation is the two-valued one, always decided;
* `chains3_unfold`        — `chains3` satisfies its defining equation with itself below (forward edges, no dups);
* `fut_eq_chains3`        — `fut` = the chains of `chains3`, each handed to the recorders of its end topic, in the
                            SAME order (equality of lists, no forward / nodup hypothesis needed);
* `chains3_certain`       — every chain `chains3` lists is then certain.
Core Lean only.
-/
import Kap.Proofs.C09AsyncCons
namespace Kap.C09.AsyncProofs.Chains
open Kap.C09 Kap.C09.Svc Kap.C09.SvcSpec Kap.C09.Async Kap.C09.AsyncSpec Kap.C09.AsyncProofs Kap.C09.AsyncProofs.Cons

/-! ### 1. three-valued evaluation without `changed()` -/

theorem eval3_and (e : SEv) (a b : M) :
    eval3 e (.and a b) =
      (match eval3 e a, eval3 e b with
       | some false, _ => some false
       | _, some false => some false
       | some true, some true => some true
       | _, _ => none) := rfl

theorem eval3_or (e : SEv) (a b : M) :
    eval3 e (.or a b) =
      (match eval3 e a, eval3 e b with
       | some true, _ => some true
       | _, some true => some true
       | some false, some false => some false
       | _, _ => none) := rfl

theorem eval3_eq (e : SEv) : ∀ (m : M), noChangedM m = true → eval3 e m = some (m.evalCore e)
  | .all, _ => rfl
  | .levelGe _, _ => rfl
  | .levelEq _, _ => rfl
  | .changed _, h => by simp [noChangedM] at h
  | .tagEq _ _, _ => rfl
  | .and a b, h => by
    have h' : noChangedM a = true ∧ noChangedM b = true := by simpa [noChangedM] using h
    rw [eval3_and, eval3_eq e a h'.1, eval3_eq e b h'.2]
    show _ = some (a.evalCore e && b.evalCore e)
    cases a.evalCore e <;> cases b.evalCore e <;> rfl
  | .or a b, h => by
    have h' : noChangedM a = true ∧ noChangedM b = true := by simpa [noChangedM] using h
    rw [eval3_or, eval3_eq e a h'.1, eval3_eq e b h'.2]
    show _ = some (a.evalCore e || b.evalCore e)
    cases a.evalCore e <;> cases b.evalCore e <;> rfl

/-- **without `changed()` the driver's three-valued verdict is the specification's `holds`, always decided** -/
theorem holds3_eq (sp : Spec) (h : noChangedM (matchTable.getD sp.midx .all) = true) (e : SEv) :
    holds3 sp e = some (holds sp e) := by
  show (if (matchTable.getD sp.midx .all).vars.all (fun t => (tagOf e t).isSome) then
          eval3 e (matchTable.getD sp.midx .all) else some false) =
       some ((if (matchTable.getD sp.midx .all).vars.all (fun t => (tagOf e t).isSome) then
          some ((matchTable.getD sp.midx .all).evalCore e) else none) == some true)
  by_cases hv : (matchTable.getD sp.midx .all).vars.all (fun t => (tagOf e t).isSome) = true
  · rw [if_pos hv, if_pos hv, eval3_eq e _ h]
    cases (matchTable.getD sp.midx .all).evalCore e <;> rfl
  · rw [if_neg hv, if_neg hv]
    rfl

/-! ### 2. `chains3` satisfies its defining equation -/

theorem chains3Level_local (ord : List String) (specs : List Spec) (e : SEv) (hf : fwd ord specs = true)
    (T : String) (b b' : String → List (String × List Key × Bool)) (h : ∀ t ∈ after ord T, b t = b' t) :
    chains3Level specs e b T = chains3Level specs e b' T := by
  unfold chains3Level
  congr 1
  apply flatMap_congr'
  intro sp hsp
  have h1 := List.mem_filter.mp hsp
  have hT : sp.topic = T := by simpa using h1.2
  split
  · rfl
  · apply flatMap_congr'
    intro t ht
    have := fwd_mem hf h1.1 ht
    rw [hT] at this
    rw [h t this]

/-- **`chains3` unfolds with itself below** (publish edges forward along a duplicate-free order) -/
theorem chains3_unfold (ord : List String) (hnd : ord.Nodup) (specs : List Spec) (hf : fwd ord specs = true)
    (e : SEv) (T : String) :
    chains3 specs e ord T = chains3Level specs e (chains3 specs e ord) T :=
  along_unfold (chains3Level specs e) (fun _ => []) ord hnd T
    (fun b b' h => chains3Level_local ord specs e hf T b b' h)

/-! ### 3. `fut` is `chains3` handed to the recorders -/

/-- the entries one chain stands for: the recorders of its end topic, with the chain appended to the path so far -/
def toEntries (recs : List Key) (c : Nat) (p : List Key) (ch : String × List Key × Bool) : List Entry :=
  (recs.filter (fun r => r.1 == ch.1)).map (fun r => (r, c, p ++ ch.2.1))

/-- the relation between the two "below" functions -/
def Rel (recs : List Key) (e : SEv) (b : String → Nat → List Key → SEv → List Entry)
    (b' : String → List (String × List Key × Bool)) : Prop :=
  ∀ (t : String) (c : Nat) (p : List Key), b t c p e = (b' t).flatMap (toEntries recs c p)

theorem toEntries_ext (recs : List Key) (c : Nat) (p : List Key) (k : Key) (v : Bool)
    (ch : String × List Key × Bool) :
    toEntries recs c p (ch.1, k :: ch.2.1, v) = toEntries recs c (p ++ [k]) ch := by
  unfold toEntries
  show (recs.filter (fun r => r.1 == ch.1)).map (fun r => (r, c, p ++ (k :: ch.2.1))) = _
  have : p ++ (k :: ch.2.1) = (p ++ [k]) ++ ch.2.1 := by
    rw [List.append_assoc, List.singleton_append]
  rw [this]

/-- **one level**: if the functions below are related, so are the levels built on them -/
theorem level_rel (specs : List Spec) (recs : List Key) (hnc : noChanged specs = true) (e : SEv)
    (b : String → Nat → List Key → SEv → List Entry) (b' : String → List (String × List Key × Bool))
    (h : Rel recs e b b') (T : String) (c : Nat) (p : List Key) :
    futLevel specs recs b T c p e = (chains3Level specs e b' T).flatMap (toEntries recs c p) := by
  unfold futLevel chains3Level
  rw [List.flatMap_cons, List.flatMap_assoc]
  have hhead : toEntries recs c p (T, [], true) = (recs.filter (fun r => r.1 == T)).map (fun r => (r, c, p)) := by
    unfold toEntries
    show (recs.filter (fun r => r.1 == T)).map (fun r => (r, c, p ++ [])) = _
    rw [List.append_nil]
  rw [hhead]
  congr 1
  apply flatMap_congr'
  intro sp hsp
  have h1 := List.mem_filter.mp hsp
  rw [holds3_eq sp (noChanged_mem hnc h1.1) e]
  cases hh : holds sp e
  · rfl
  · show sp.targets.flatMap (fun t => b t c (p ++ [sp.key]) e) =
      (sp.targets.flatMap (fun t => (b' t).map (fun c' => (c'.1, sp.key :: c'.2.1, c'.2.2 && some true == some true)))).flatMap
        (toEntries recs c p)
    rw [List.flatMap_assoc]
    apply flatMap_congr'
    intro t _
    rw [h t c (p ++ [sp.key]), List.flatMap_map]
    apply flatMap_congr'
    intro ch _
    exact (toEntries_ext recs c p sp.key _ ch).symm

theorem along_rel (specs : List Spec) (recs : List Key) (hnc : noChanged specs = true) (e : SEv) :
    ∀ (ord : List String),
      Rel recs e (along (futLevel specs recs) (fun _ _ _ _ => []) ord)
        (along (chains3Level specs e) (fun _ => []) ord)
  | [] => by
    intro T c p
    show futLevel specs recs (fun _ _ _ _ => []) T c p e =
      (chains3Level specs e (fun _ => []) T).flatMap (toEntries recs c p)
    exact level_rel specs recs hnc e _ _ (fun _ _ _ => rfl) T c p
  | o :: rest => by
    have ih := along_rel specs recs hnc e rest
    intro T c p
    show (if o = T then futLevel specs recs (along (futLevel specs recs) (fun _ _ _ _ => []) rest) T
            else along (futLevel specs recs) (fun _ _ _ _ => []) rest T) c p e =
      (if o = T then chains3Level specs e (along (chains3Level specs e) (fun _ => []) rest) T
            else along (chains3Level specs e) (fun _ => []) rest T).flatMap (toEntries recs c p)
    by_cases hoT : o = T
    · rw [if_pos hoT, if_pos hoT]
      exact level_rel specs recs hnc e _ _ ih T c p
    · rw [if_neg hoT, if_neg hoT]
      exact ih T c p

/-- **The driver's chain enumeration is the specification.** When no registered match expression mentions
`changed()`, what the arrival of `e` on `T` leads to (`fut`) is: every chain `chains3` lists from `T`, handed to the
recorders of its end topic — as lists, in the same order. (Neither `fwd` nor `Nodup` is needed: both sides are the
same recursion along `ord`.) -/
theorem fut_eq_chains3 (ord : List String) (specs : List Spec) (recs : List Key)
    (hnc : noChanged specs = true) (e : SEv) :
    ∀ (T : String) (c : Nat) (p : List Key),
      fut specs recs ord T c p e =
        (chains3 specs e ord T).flatMap
          (fun ch => (recs.filter (fun r => r.1 == ch.1)).map (fun r => (r, c, p ++ ch.2.1))) :=
  fun T c p => along_rel specs recs hnc e ord T c p

/-! ### 4. every chain is certain -/

theorem level_certain (specs : List Spec) (hnc : noChanged specs = true) (e : SEv)
    (b' : String → List (String × List Key × Bool)) (h : ∀ t, ∀ ch ∈ b' t, ch.2.2 = true) (T : String) :
    ∀ ch ∈ chains3Level specs e b' T, ch.2.2 = true := by
  intro ch hch
  unfold chains3Level at hch
  rcases List.mem_cons.mp hch with h0 | h1
  · rw [h0]
  · obtain ⟨sp, hsp, hin⟩ := List.mem_flatMap.mp h1
    have hs := List.mem_filter.mp hsp
    rw [holds3_eq sp (noChanged_mem hnc hs.1) e] at hin
    cases hh : holds sp e
    · rw [hh] at hin
      cases hin
    · rw [hh] at hin
      have hin' : ch ∈ sp.targets.flatMap (fun t =>
          (b' t).map (fun c' => (c'.1, sp.key :: c'.2.1, c'.2.2 && some true == some true))) := hin
      obtain ⟨t, _, htin⟩ := List.mem_flatMap.mp hin'
      obtain ⟨c', hc', hce⟩ := List.mem_map.mp htin
      rw [← hce]
      show (c'.2.2 && some true == some true) = true
      rw [h t c' hc']
      rfl

/-- **without `changed()` every chain the driver enumerates is certain** -/
theorem chains3_certain (specs : List Spec) (hnc : noChanged specs = true) (e : SEv) :
    ∀ (ord : List String) (T : String), ∀ ch ∈ chains3 specs e ord T, ch.2.2 = true
  | [] => by
    intro T
    show ∀ ch ∈ chains3Level specs e (fun _ => []) T, ch.2.2 = true
    exact level_certain specs hnc e _ (fun _ _ hc => by cases hc) T
  | o :: rest => by
    have ih := chains3_certain specs hnc e rest
    intro T
    show ∀ ch ∈ (if o = T then chains3Level specs e (along (chains3Level specs e) (fun _ => []) rest) T
            else along (chains3Level specs e) (fun _ => []) rest T), ch.2.2 = true
    by_cases hoT : o = T
    · rw [if_pos hoT]
      exact level_certain specs hnc e _ ih T
    · rw [if_neg hoT]
      exact ih T

end Kap.C09.AsyncProofs.Chains
