/-
C09 asynchronous model — CONFLUENCE: when every topic has a single way in (no topic is the target of two publish
handlers), the order in which the handler goroutines take their events does not matter.

Part B (generic): local commutation + a decreasing measure ⇒ every two complete enabled runs end in the same state.
Part A: local commutation of two different enabled handler steps under the single-entry hypothesis.
-/
import Kap.Proofs.C09AsyncBase
namespace Kap.C09.AsyncProofs.Confl
open Kap.C09.AsyncProofs
open Kap.C09 Kap.C09.Svc Kap.C09.SvcSpec Kap.C09.Async Kap.C09.AsyncSpec

/-- the step would take an event: the handler exists and its queue is not empty (external operations are not
part of the runs considered here) -/
def enabledC (s : ASt) : Step → Bool
  | .runH k => s.isSpec k && !(s.hq k).isEmpty
  | .runR r => s.recs.contains r && !(s.rq r).isEmpty
  | .ext _ => false

/-- a run all of whose steps are enabled when they are taken -/
def EnabledRunsC : List Step → ASt → Prop
  | [], _ => True
  | st :: rest, s => enabledC s st = true ∧ EnabledRunsC rest (exec s st)

theorem execAll_cons (st : Step) (l : List Step) (s : ASt) : execAll (st :: l) s = execAll l (exec s st) := rfl
theorem execAll_nil (s : ASt) : execAll [] s = s := rfl

/-! ### Part B — unique result, generically -/

/-- with a decreasing measure, a complete enabled run exists from every state -/
theorem exists_complete_run (μ : ASt → Nat) (Inv : ASt → Prop)
    (hInv : ∀ s st, Inv s → enabledC s st = true → Inv (exec s st))
    (hμ : ∀ s st, Inv s → enabledC s st = true → μ (exec s st) < μ s) :
    ∀ (n : Nat) (s : ASt), Inv s → μ s < n →
      ∃ l, EnabledRunsC l s ∧ ∀ st, enabledC (execAll l s) st = false
  | 0, _, _, h => absurd h (Nat.not_lt_zero _)
  | n + 1, s, hi, h => by
    rcases Classical.em (∃ st, enabledC s st = true) with ⟨st, hst⟩ | hno
    · have hlt : μ (exec s st) < n := Nat.lt_of_lt_of_le (hμ s st hi hst) (Nat.le_of_lt_succ h)
      obtain ⟨l, hl1, hl2⟩ := exists_complete_run μ Inv hInv hμ n (exec s st) (hInv s st hi hst) hlt
      exact ⟨st :: l, ⟨hst, hl1⟩, hl2⟩
    · refine ⟨[], trivial, ?_⟩
      intro st
      cases hc : enabledC s st with
      | false => exact hc
      | true => exact absurd ⟨st, hc⟩ hno

theorem confluent_aux (μ : ASt → Nat) (Inv : ASt → Prop)
    (hInv : ∀ s st, Inv s → enabledC s st = true → Inv (exec s st))
    (hμ : ∀ s st, Inv s → enabledC s st = true → μ (exec s st) < μ s)
    (hcomm : ∀ s a b, Inv s → a ≠ b → enabledC s a = true → enabledC s b = true →
        exec (exec s a) b = exec (exec s b) a ∧ enabledC (exec s a) b = true ∧ enabledC (exec s b) a = true) :
    ∀ (n : Nat) (s : ASt), Inv s → μ s < n → ∀ (l1 l2 : List Step), EnabledRunsC l1 s → EnabledRunsC l2 s →
      (∀ st, enabledC (execAll l1 s) st = false) → (∀ st, enabledC (execAll l2 s) st = false) →
      execAll l1 s = execAll l2 s
  | 0, _, _, h => absurd h (Nat.not_lt_zero _)
  | n + 1, s, hi, h => by
    intro l1 l2 h1 h2 q1 q2
    cases l1 with
    | nil =>
      cases l2 with
      | nil => rfl
      | cons b r2 =>
        have := q1 b
        rw [execAll_nil, h2.1] at this
        cases this
    | cons a r1 =>
      cases l2 with
      | nil =>
        have := q2 a
        rw [execAll_nil, h1.1] at this
        cases this
      | cons b r2 =>
        have ha : enabledC s a = true := h1.1
        have hb : enabledC s b = true := h2.1
        have hlta : μ (exec s a) < n := Nat.lt_of_lt_of_le (hμ s a hi ha) (Nat.le_of_lt_succ h)
        have hltb : μ (exec s b) < n := Nat.lt_of_lt_of_le (hμ s b hi hb) (Nat.le_of_lt_succ h)
        have hia : Inv (exec s a) := hInv s a hi ha
        have hib : Inv (exec s b) := hInv s b hi hb
        rw [execAll_cons, execAll_cons]
        rw [execAll_cons] at q1 q2
        rcases Classical.em (a = b) with e | hne
        · subst e
          exact confluent_aux μ Inv hInv hμ hcomm n (exec s a) hia hlta r1 r2 h1.2 h2.2 q1 q2
        · obtain ⟨hc, hba, hab⟩ := hcomm s a b hi hne ha hb
          have hit : Inv (exec (exec s a) b) := hInv _ b hia hba
          obtain ⟨l, hl1, hl2⟩ :=
            exists_complete_run μ Inv hInv hμ (μ (exec (exec s a) b) + 1) _ hit (Nat.lt_succ_self _)
          have e1 : execAll r1 (exec s a) = execAll (b :: l) (exec s a) :=
            confluent_aux μ Inv hInv hμ hcomm n (exec s a) hia hlta r1 (b :: l) h1.2 ⟨hba, hl1⟩ q1
              (by rw [execAll_cons]; exact hl2)
          have e2 : execAll r2 (exec s b) = execAll (a :: l) (exec s b) :=
            confluent_aux μ Inv hInv hμ hcomm n (exec s b) hib hltb r2 (a :: l) h2.2
              ⟨hab, by rw [← hc]; exact hl1⟩ q2 (by rw [execAll_cons, ← hc]; exact hl2)
          rw [e1, e2, execAll_cons, execAll_cons, hc]

/-- **Confluence from local commutation.** If enabled steps decrease a measure and two different enabled steps
commute (each staying enabled after the other), all complete enabled runs from a state end in the same state. -/
theorem confluent_of_measure (μ : ASt → Nat) (Inv : ASt → Prop)
    (hInv : ∀ s st, Inv s → enabledC s st = true → Inv (exec s st))
    (hμ : ∀ s st, Inv s → enabledC s st = true → μ (exec s st) < μ s)
    (hcomm : ∀ s a b, Inv s → a ≠ b → enabledC s a = true → enabledC s b = true →
        exec (exec s a) b = exec (exec s b) a ∧ enabledC (exec s a) b = true ∧ enabledC (exec s b) a = true) :
    ∀ (s : ASt), Inv s → ∀ (l1 l2 : List Step), EnabledRunsC l1 s → EnabledRunsC l2 s →
      (∀ st, enabledC (execAll l1 s) st = false) → (∀ st, enabledC (execAll l2 s) st = false) →
      execAll l1 s = execAll l2 s :=
  fun s hi => confluent_aux μ Inv hInv hμ hcomm (μ s + 1) s hi (Nat.lt_succ_self _)

/-! ### Part A — local commutation -/

theorem ast_ext {a b : ASt} (h1 : a.specs = b.specs) (h2 : a.recs = b.recs) (h3 : a.last = b.last)
    (h4 : a.hq = b.hq) (h5 : a.rq = b.rq) (h6 : a.got = b.got) (h7 : a.arr = b.arr) (h8 : a.done = b.done)
    (h9 : a.ncol = b.ncol) : a = b := by
  cases a; cases b
  simp only at h1 h2 h3 h4 h5 h6 h7 h8 h9
  subst h1 h2 h3 h4 h5 h6 h7 h8 h9
  rfl

/-- spec handler `k` takes the head of its queue (no publishing yet) -/
def popH (s : ASt) (k : Key) : ASt :=
  { s with hq := fun k' => if k' = k then (s.hq k).tail else s.hq k',
           done := fun k' => if k' = k then s.done k ++ (s.hq k).take 1 else s.done k' }

/-- recorder `r` takes the head of its queue -/
def popR (s : ASt) (r : Key) : ASt :=
  { s with rq := fun r' => if r' = r then (s.rq r).tail else s.rq r',
           got := fun r' => if r' = r then s.got r ++ (s.rq r).take 1 else s.got r' }

/-- publish when the match holds -/
def pubIf (s : ASt) (sp : Spec) (it : Item) : ASt := if holds sp it.ev then publish s sp it else s

theorem runH_eq_pubIf (s : ASt) (k : Key) (sp : Spec) (it : Item) (rest : List Item) (h1 : s.specOf k = some sp)
    (h2 : s.hq k = it :: rest) : runH s k = pubIf (popH s k) sp it := by
  unfold runH pubIf popH
  rw [h1, h2]
  rfl

theorem runR_eq_popR (s : ASt) (r : Key) (it : Item) (rest : List Item) (h : s.rq r = it :: rest) :
    runR s r = popR s r := by
  unfold runR popR
  rw [h]
  rfl

theorem tail_append_ne {α : Type} (q : List α) (x : List α) (h : q ≠ []) : (q ++ x).tail = q.tail ++ x := by
  cases q with
  | nil => exact absurd rfl h
  | cons a q => rfl

theorem take1_append_ne {α : Type} (q : List α) (x : List α) (h : q ≠ []) : (q ++ x).take 1 = q.take 1 := by
  cases q with
  | nil => exact absurd rfl h
  | cons a q => rfl

/-! #### pops commute with each other -/

theorem popH_popH (s : ASt) (k1 k2 : Key) (hne : k1 ≠ k2) : popH (popH s k1) k2 = popH (popH s k2) k1 := by
  have hne' : k2 ≠ k1 := fun e => hne e.symm
  apply ast_ext <;> try rfl
  · funext k'
    show (if k' = k2 then (if k2 = k1 then _ else s.hq k2).tail else if k' = k1 then _ else s.hq k') =
         (if k' = k1 then (if k1 = k2 then _ else s.hq k1).tail else if k' = k2 then _ else s.hq k')
    rw [if_neg hne, if_neg hne']
    by_cases e1 : k' = k1
    · subst e1; rw [if_neg hne, if_pos rfl, if_pos rfl]
    · rw [if_neg e1, if_neg e1]
  · funext k'
    show (if k' = k2 then (if k2 = k1 then _ else s.done k2) ++ (if k2 = k1 then _ else s.hq k2).take 1
            else if k' = k1 then _ else s.done k') =
         (if k' = k1 then (if k1 = k2 then _ else s.done k1) ++ (if k1 = k2 then _ else s.hq k1).take 1
            else if k' = k2 then _ else s.done k')
    rw [if_neg hne, if_neg hne', if_neg hne, if_neg hne']
    by_cases e1 : k' = k1
    · subst e1; rw [if_neg hne, if_pos rfl, if_pos rfl]
    · rw [if_neg e1, if_neg e1]

theorem popR_popR (s : ASt) (r1 r2 : Key) (hne : r1 ≠ r2) : popR (popR s r1) r2 = popR (popR s r2) r1 := by
  have hne' : r2 ≠ r1 := fun e => hne e.symm
  apply ast_ext <;> try rfl
  · funext k'
    show (if k' = r2 then (if r2 = r1 then _ else s.rq r2).tail else if k' = r1 then _ else s.rq k') =
         (if k' = r1 then (if r1 = r2 then _ else s.rq r1).tail else if k' = r2 then _ else s.rq k')
    rw [if_neg hne, if_neg hne']
    by_cases e1 : k' = r1
    · subst e1; rw [if_neg hne, if_pos rfl, if_pos rfl]
    · rw [if_neg e1, if_neg e1]
  · funext k'
    show (if k' = r2 then (if r2 = r1 then _ else s.got r2) ++ (if r2 = r1 then _ else s.rq r2).take 1
            else if k' = r1 then _ else s.got k') =
         (if k' = r1 then (if r1 = r2 then _ else s.got r1) ++ (if r1 = r2 then _ else s.rq r1).take 1
            else if k' = r2 then _ else s.got k')
    rw [if_neg hne, if_neg hne', if_neg hne, if_neg hne']
    by_cases e1 : k' = r1
    · subst e1; rw [if_neg hne, if_pos rfl, if_pos rfl]
    · rw [if_neg e1, if_neg e1]

theorem popH_popR (s : ASt) (k r : Key) : popH (popR s r) k = popR (popH s k) r := rfl

/-! #### `collectOn` commutes with a pop of a non-empty queue -/

theorem collectOn_isSpec (s : ASt) (T : String) (it : Item) (k : Key) : (collectOn s T it).isSpec k = s.isSpec k := rfl
theorem popH_isSpec (s : ASt) (k k' : Key) : (popH s k).isSpec k' = s.isSpec k' := rfl
theorem popR_isSpec (s : ASt) (k k' : Key) : (popR s k).isSpec k' = s.isSpec k' := rfl

theorem popH_collectOn (s : ASt) (k : Key) (t : String) (i : Item) (hq : s.hq k ≠ []) :
    popH (collectOn s t i) k = collectOn (popH s k) t i := by
  apply ast_ext <;> try rfl
  · funext k'
    show (if k' = k then ((collectOn s t i).hq k).tail else (collectOn s t i).hq k') =
         (if k'.1 = t ∧ s.isSpec k' = true then
            (if k' = k then (s.hq k).tail else s.hq k') ++ [{ i with ev := seen s.last t i.ev }]
          else (if k' = k then (s.hq k).tail else s.hq k'))
    rw [collectOn_hq, collectOn_hq]
    by_cases e : k' = k
    · subst e
      rw [if_pos rfl, if_pos rfl]
      by_cases c : k'.1 = t ∧ s.isSpec k' = true
      · rw [if_pos c, if_pos c, tail_append_ne _ _ hq]
      · rw [if_neg c, if_neg c]
    · rw [if_neg e, if_neg e]
  · funext k'
    show (if k' = k then s.done k ++ ((collectOn s t i).hq k).take 1 else s.done k') =
         (if k' = k then s.done k ++ (s.hq k).take 1 else s.done k')
    rw [collectOn_hq]
    by_cases c : k.1 = t ∧ s.isSpec k = true
    · rw [if_pos c, take1_append_ne _ _ hq]
    · rw [if_neg c]

theorem popR_collectOn (s : ASt) (r : Key) (t : String) (i : Item) (hq : s.rq r ≠ []) :
    popR (collectOn s t i) r = collectOn (popR s r) t i := by
  apply ast_ext <;> try rfl
  · funext k'
    show (if k' = r then ((collectOn s t i).rq r).tail else (collectOn s t i).rq k') =
         (if k'.1 = t ∧ k' ∈ s.recs then
            (if k' = r then (s.rq r).tail else s.rq k') ++ [{ i with ev := seen s.last t i.ev }]
          else (if k' = r then (s.rq r).tail else s.rq k'))
    rw [collectOn_rq, collectOn_rq]
    by_cases e : k' = r
    · subst e
      rw [if_pos rfl, if_pos rfl]
      by_cases c : k'.1 = t ∧ k' ∈ s.recs
      · rw [if_pos c, if_pos c, tail_append_ne _ _ hq]
      · rw [if_neg c, if_neg c]
    · rw [if_neg e, if_neg e]
  · funext k'
    show (if k' = r then s.got r ++ ((collectOn s t i).rq r).take 1 else s.got k') =
         (if k' = r then s.got r ++ (s.rq r).take 1 else s.got k')
    rw [collectOn_rq]
    by_cases c : r.1 = t ∧ r ∈ s.recs
    · rw [if_pos c, take1_append_ne _ _ hq]
    · rw [if_neg c]

/-- a queue that is not empty stays so, with the same head -/
theorem collectOn_hq_head (s : ASt) (t : String) (i : Item) (k : Key) (it : Item) (rest : List Item)
    (h : s.hq k = it :: rest) : ∃ rest', (collectOn s t i).hq k = it :: rest' := by
  rw [collectOn_hq, h]
  split
  · exact ⟨_, rfl⟩
  · exact ⟨_, rfl⟩

theorem collectOn_rq_head (s : ASt) (t : String) (i : Item) (r : Key) (it : Item) (rest : List Item)
    (h : s.rq r = it :: rest) : ∃ rest', (collectOn s t i).rq r = it :: rest' := by
  rw [collectOn_rq, h]
  split
  · exact ⟨_, rfl⟩
  · exact ⟨_, rfl⟩

/-! #### `collectOn` on two different topics commute -/

theorem seen_collectOn_ne (s : ASt) (t1 t2 : String) (i1 : Item) (e : SEv) (hne : t1 ≠ t2) :
    seen (collectOn s t1 i1).last t2 e = seen s.last t2 e := by
  unfold seen
  rw [collectOn_last, if_neg (fun h => hne h.1.symm)]

theorem collectOn_collectOn (s : ASt) (t1 t2 : String) (i1 i2 : Item) (hne : t1 ≠ t2) :
    collectOn (collectOn s t1 i1) t2 i2 = collectOn (collectOn s t2 i2) t1 i1 := by
  have hne' : t2 ≠ t1 := fun e => hne e.symm
  apply ast_ext <;> try rfl
  · funext Y i
    rw [collectOn_last, collectOn_last, collectOn_last, collectOn_last]
    by_cases c1 : Y = t1 ∧ i = i1.ev.id
    · have c2 : ¬ (Y = t2 ∧ i = i2.ev.id) := fun h => hne (c1.1.symm.trans h.1)
      simp only [if_pos c1, if_neg c2]
    · rw [if_neg c1, if_neg c1]
  · funext k
    rw [collectOn_hq, collectOn_hq, collectOn_hq, collectOn_hq, seen_collectOn_ne _ _ _ _ _ hne,
      seen_collectOn_ne _ _ _ _ _ hne', collectOn_isSpec, collectOn_isSpec]
    by_cases c1 : k.1 = t1 ∧ s.isSpec k = true
    · have c2 : ¬ (k.1 = t2 ∧ s.isSpec k = true) := fun h => hne (c1.1.symm.trans h.1)
      simp only [if_pos c1, if_neg c2]
    · rw [if_neg c1, if_neg c1]
  · funext k
    rw [collectOn_rq, collectOn_rq, collectOn_rq, collectOn_rq, seen_collectOn_ne _ _ _ _ _ hne,
      seen_collectOn_ne _ _ _ _ _ hne', collectOn_recs, collectOn_recs]
    by_cases c1 : k.1 = t1 ∧ k ∈ s.recs
    · have c2 : ¬ (k.1 = t2 ∧ k ∈ s.recs) := fun h => hne (c1.1.symm.trans h.1)
      simp only [if_pos c1, if_neg c2]
    · rw [if_neg c1, if_neg c1]
  · funext Y
    rw [collectOn_arr, collectOn_arr, collectOn_arr, collectOn_arr, seen_collectOn_ne _ _ _ _ _ hne,
      seen_collectOn_ne _ _ _ _ _ hne']
    by_cases c1 : Y = t1
    · have c2 : ¬ (Y = t2) := fun h => hne (c1.symm.trans h)
      simp only [if_pos c1, if_neg c2]
    · rw [if_neg c1, if_neg c1]

/-! #### lifting to `publish` -/

/-- the same item collected on a list of topics, in order (`publish` is this) -/
def cfold (ts : List String) (x : Item) (s : ASt) : ASt := ts.foldl (fun acc t => collectOn acc t x) s

theorem cfold_cons (t : String) (ts : List String) (x : Item) (s : ASt) :
    cfold (t :: ts) x s = cfold ts x (collectOn s t x) := rfl

theorem publish_eq_cfold (s : ASt) (sp : Spec) (it : Item) : publish s sp it = cfold sp.targets (it.ext sp.key) s := rfl

theorem cfold_hq_head (x : Item) (k : Key) (it : Item) :
    ∀ (ts : List String) (s : ASt) (rest : List Item), s.hq k = it :: rest → ∃ rest', (cfold ts x s).hq k = it :: rest'
  | [], _, rest, h => ⟨rest, h⟩
  | t :: ts, s, rest, h => by
    obtain ⟨r1, h1⟩ := collectOn_hq_head s t x k it rest h
    rw [cfold_cons]
    exact cfold_hq_head x k it ts _ r1 h1

theorem cfold_rq_head (x : Item) (r : Key) (it : Item) :
    ∀ (ts : List String) (s : ASt) (rest : List Item), s.rq r = it :: rest → ∃ rest', (cfold ts x s).rq r = it :: rest'
  | [], _, rest, h => ⟨rest, h⟩
  | t :: ts, s, rest, h => by
    obtain ⟨r1, h1⟩ := collectOn_rq_head s t x r it rest h
    rw [cfold_cons]
    exact cfold_rq_head x r it ts _ r1 h1

theorem popH_cfold (x : Item) (k : Key) (it : Item) :
    ∀ (ts : List String) (s : ASt) (rest : List Item), s.hq k = it :: rest →
      popH (cfold ts x s) k = cfold ts x (popH s k)
  | [], _, _, _ => rfl
  | t :: ts, s, rest, h => by
    obtain ⟨r1, h1⟩ := collectOn_hq_head s t x k it rest h
    rw [cfold_cons, cfold_cons, popH_cfold x k it ts _ r1 h1,
      popH_collectOn s k t x (by rw [h]; exact List.cons_ne_nil _ _)]

theorem popR_cfold (x : Item) (r : Key) (it : Item) :
    ∀ (ts : List String) (s : ASt) (rest : List Item), s.rq r = it :: rest →
      popR (cfold ts x s) r = cfold ts x (popR s r)
  | [], _, _, _ => rfl
  | t :: ts, s, rest, h => by
    obtain ⟨r1, h1⟩ := collectOn_rq_head s t x r it rest h
    rw [cfold_cons, cfold_cons, popR_cfold x r it ts _ r1 h1,
      popR_collectOn s r t x (by rw [h]; exact List.cons_ne_nil _ _)]

theorem collectOn_cfold (x i : Item) (t : String) :
    ∀ (ts : List String) (s : ASt), t ∉ ts → collectOn (cfold ts x s) t i = cfold ts x (collectOn s t i)
  | [], _, _ => rfl
  | t' :: ts, s, h => by
    have hne : t' ≠ t := fun e => h (e ▸ List.mem_cons_self)
    have hni : t ∉ ts := fun hh => h (List.mem_cons_of_mem _ hh)
    rw [cfold_cons, cfold_cons, collectOn_cfold x i t ts _ hni, collectOn_collectOn s t' t x i hne]

theorem cfold_cfold (x1 x2 : Item) (ts2 : List String) :
    ∀ (ts1 : List String) (s : ASt), (∀ t ∈ ts1, t ∉ ts2) →
      cfold ts2 x2 (cfold ts1 x1 s) = cfold ts1 x1 (cfold ts2 x2 s)
  | [], _, _ => rfl
  | t :: ts1, s, h => by
    have h1 : t ∉ ts2 := h t List.mem_cons_self
    have h2 : ∀ t' ∈ ts1, t' ∉ ts2 := fun t' ht' => h t' (List.mem_cons_of_mem _ ht')
    rw [cfold_cons, cfold_cons, cfold_cfold x1 x2 ts2 ts1 _ h2, collectOn_cfold x2 x1 t ts2 s h1]

/-! #### … and to the conditional publish -/

theorem pubIf_specs (s : ASt) (sp : Spec) (it : Item) : (pubIf s sp it).specs = s.specs := by
  unfold pubIf; split
  · exact publish_specs s sp it
  · rfl

theorem pubIf_recs (s : ASt) (sp : Spec) (it : Item) : (pubIf s sp it).recs = s.recs := by
  unfold pubIf; split
  · exact publish_recs s sp it
  · rfl

theorem pubIf_hq_head (s : ASt) (sp : Spec) (x : Item) (k : Key) (it : Item) (rest : List Item)
    (h : s.hq k = it :: rest) : ∃ rest', (pubIf s sp x).hq k = it :: rest' := by
  unfold pubIf; split
  · rw [publish_eq_cfold]; exact cfold_hq_head _ k it _ s rest h
  · exact ⟨rest, h⟩

theorem pubIf_rq_head (s : ASt) (sp : Spec) (x : Item) (r : Key) (it : Item) (rest : List Item)
    (h : s.rq r = it :: rest) : ∃ rest', (pubIf s sp x).rq r = it :: rest' := by
  unfold pubIf; split
  · rw [publish_eq_cfold]; exact cfold_rq_head _ r it _ s rest h
  · exact ⟨rest, h⟩

theorem popH_pubIf (s : ASt) (sp : Spec) (x : Item) (k : Key) (it : Item) (rest : List Item)
    (h : s.hq k = it :: rest) : popH (pubIf s sp x) k = pubIf (popH s k) sp x := by
  unfold pubIf; split
  · rw [publish_eq_cfold, publish_eq_cfold]; exact popH_cfold _ k it _ s rest h
  · rfl

theorem popR_pubIf (s : ASt) (sp : Spec) (x : Item) (r : Key) (it : Item) (rest : List Item)
    (h : s.rq r = it :: rest) : popR (pubIf s sp x) r = pubIf (popR s r) sp x := by
  unfold pubIf; split
  · rw [publish_eq_cfold, publish_eq_cfold]; exact popR_cfold _ r it _ s rest h
  · rfl

theorem pubIf_pubIf (s : ASt) (sp1 sp2 : Spec) (x1 x2 : Item) (hd : ∀ t ∈ sp1.targets, t ∉ sp2.targets) :
    pubIf (pubIf s sp1 x1) sp2 x2 = pubIf (pubIf s sp2 x2) sp1 x1 := by
  unfold pubIf
  by_cases c1 : holds sp1 x1.ev = true
  · by_cases c2 : holds sp2 x2.ev = true
    · rw [if_pos c1, if_pos c2, if_pos c2, if_pos c1]
      rw [publish_eq_cfold, publish_eq_cfold, publish_eq_cfold, publish_eq_cfold]
      exact cfold_cfold _ _ _ _ s hd
    · simp only [if_pos c1, if_neg c2]
  · by_cases c2 : holds sp2 x2.ev = true
    · simp only [if_neg c1, if_pos c2]
    · simp only [if_neg c1, if_neg c2]

/-! #### assembling the three cases -/

theorem enabledC_runR (s : ASt) (r : Key) : enabledC s (.runR r) = true ↔ r ∈ s.recs ∧ s.rq r ≠ [] := by
  simp [enabledC]

theorem enabledC_runH (s : ASt) (k : Key) : enabledC s (.runH k) = true ↔ s.isSpec k = true ∧ s.hq k ≠ [] := by
  simp [enabledC]

theorem specOf_mem_of_isSpec (s : ASt) (k : Key) (h : s.isSpec k = true) :
    ∃ sp, s.specOf k = some sp ∧ sp ∈ s.specs ∧ sp.key = k := by
  unfold ASt.specOf
  cases hf : s.specs.find? (fun sp => sp.topic == k.1 && sp.hid == k.2) with
  | none =>
    unfold ASt.isSpec at h
    obtain ⟨sp, h1, h2⟩ := List.any_eq_true.mp h
    have := List.find?_eq_none.mp hf sp h1
    exact absurd h2 this
  | some sp =>
    refine ⟨sp, rfl, List.mem_of_find?_eq_some hf, ?_⟩
    have := List.find?_some hf
    simp only [Bool.and_eq_true, beq_iff_eq] at this
    exact Prod.ext this.1 this.2

theorem targets_disjoint : ∀ (l : List Spec), (l.flatMap (·.targets)).Nodup → ∀ (a b : Spec), a ∈ l → b ∈ l →
    a.key ≠ b.key → ∀ t ∈ a.targets, t ∉ b.targets
  | [], _, _, _, ha, _, _, _, _ => by cases ha
  | x :: l, hnd, a, b, ha, hb, hab, t, hta => by
    rw [List.flatMap_cons, List.nodup_append] at hnd
    obtain ⟨_, h2, h3⟩ := hnd
    intro htb
    rcases List.mem_cons.mp ha with e1 | ha'
    · rcases List.mem_cons.mp hb with e2 | hb'
      · exact hab (by rw [e1, e2])
      · subst e1
        exact h3 t hta t (List.mem_flatMap.mpr ⟨b, hb', htb⟩) rfl
    · rcases List.mem_cons.mp hb with e2 | hb'
      · subst e2
        exact h3 t htb t (List.mem_flatMap.mpr ⟨a, ha', hta⟩) rfl
      · exact targets_disjoint l h2 a b ha' hb' hab t hta htb

theorem comm_RR (s : ASt) (r1 r2 : Key) (hne : r1 ≠ r2) (h1 : enabledC s (.runR r1) = true)
    (h2 : enabledC s (.runR r2) = true) :
    runR (runR s r1) r2 = runR (runR s r2) r1 ∧ enabledC (runR s r1) (.runR r2) = true ∧
      enabledC (runR s r2) (.runR r1) = true := by
  have hne' : r2 ≠ r1 := fun e => hne e.symm
  obtain ⟨m1, n1⟩ := (enabledC_runR s r1).mp h1
  obtain ⟨m2, n2⟩ := (enabledC_runR s r2).mp h2
  obtain ⟨a1, q1, e1⟩ := List.exists_cons_of_ne_nil n1
  obtain ⟨a2, q2, e2⟩ := List.exists_cons_of_ne_nil n2
  have f1 : (popR s r1).rq r2 = a2 :: q2 := by
    show (if r2 = r1 then _ else s.rq r2) = _
    rw [if_neg hne', e2]
  have f2 : (popR s r2).rq r1 = a1 :: q1 := by
    show (if r1 = r2 then _ else s.rq r1) = _
    rw [if_neg hne, e1]
  rw [runR_eq_popR s r1 a1 q1 e1, runR_eq_popR s r2 a2 q2 e2]
  refine ⟨?_, ?_, ?_⟩
  · rw [runR_eq_popR _ r2 a2 q2 f1, runR_eq_popR _ r1 a1 q1 f2]
    exact popR_popR s r1 r2 hne
  · exact (enabledC_runR _ r2).mpr ⟨m2, by rw [f1]; exact List.cons_ne_nil _ _⟩
  · exact (enabledC_runR _ r1).mpr ⟨m1, by rw [f2]; exact List.cons_ne_nil _ _⟩

theorem comm_RH (s : ASt) (r k : Key) (h1 : enabledC s (.runR r) = true) (h2 : enabledC s (.runH k) = true) :
    runH (runR s r) k = runR (runH s k) r ∧ enabledC (runR s r) (.runH k) = true ∧
      enabledC (runH s k) (.runR r) = true := by
  obtain ⟨m1, n1⟩ := (enabledC_runR s r).mp h1
  obtain ⟨m2, n2⟩ := (enabledC_runH s k).mp h2
  obtain ⟨a, q, e1⟩ := List.exists_cons_of_ne_nil n1
  obtain ⟨it, rest, e2⟩ := List.exists_cons_of_ne_nil n2
  obtain ⟨sp, hsp, _, _⟩ := specOf_mem_of_isSpec s k m2
  have f1 : (popR s r).hq k = it :: rest := e2
  have f2 : (popR s r).specOf k = some sp := hsp
  have f3 : (popH s k).rq r = a :: q := e1
  obtain ⟨q', f4⟩ := pubIf_rq_head (popH s k) sp it r a q f3
  rw [runR_eq_popR s r a q e1, runH_eq_pubIf s k sp it rest hsp e2]
  refine ⟨?_, ?_, ?_⟩
  · rw [runH_eq_pubIf _ k sp it rest f2 f1, runR_eq_popR _ r a q' f4, popR_pubIf _ sp it r a q f3, popH_popR]
  · exact (enabledC_runH _ k).mpr ⟨m2, by rw [f1]; exact List.cons_ne_nil _ _⟩
  · refine (enabledC_runR _ r).mpr ⟨?_, by rw [f4]; exact List.cons_ne_nil _ _⟩
    rw [pubIf_recs]; exact m1

theorem runH_after_runH (s : ASt) (k1 k2 : Key) (sp1 sp2 : Spec) (it1 it2 : Item) (rest1 rest2 : List Item)
    (hne : k1 ≠ k2) (hs1 : s.specOf k1 = some sp1) (hs2 : s.specOf k2 = some sp2) (m2 : s.isSpec k2 = true)
    (e1 : s.hq k1 = it1 :: rest1) (e2 : s.hq k2 = it2 :: rest2) :
    runH (runH s k1) k2 = pubIf (pubIf (popH (popH s k1) k2) sp1 it1) sp2 it2 ∧
      enabledC (runH s k1) (.runH k2) = true := by
  have hne' : k2 ≠ k1 := fun e => hne e.symm
  have f1 : (popH s k1).hq k2 = it2 :: rest2 := by
    show (if k2 = k1 then _ else s.hq k2) = _
    rw [if_neg hne', e2]
  obtain ⟨q', f2⟩ := pubIf_hq_head (popH s k1) sp1 it1 k2 it2 rest2 f1
  have f3 : (pubIf (popH s k1) sp1 it1).specOf k2 = some sp2 := by
    rw [specOf_congr (pubIf_specs _ _ _) k2]; exact hs2
  have f4 : (pubIf (popH s k1) sp1 it1).isSpec k2 = true := by
    rw [isSpec_congr (pubIf_specs _ _ _) k2]; exact m2
  rw [runH_eq_pubIf s k1 sp1 it1 rest1 hs1 e1]
  refine ⟨?_, ?_⟩
  · rw [runH_eq_pubIf _ k2 sp2 it2 q' f3 f2, popH_pubIf _ sp1 it1 k2 it2 rest2 f1]
  · exact (enabledC_runH _ k2).mpr ⟨f4, by rw [f2]; exact List.cons_ne_nil _ _⟩

theorem comm_HH (s : ASt) (hse : (s.specs.flatMap (·.targets)).Nodup) (k1 k2 : Key) (hne : k1 ≠ k2)
    (h1 : enabledC s (.runH k1) = true) (h2 : enabledC s (.runH k2) = true) :
    runH (runH s k1) k2 = runH (runH s k2) k1 ∧ enabledC (runH s k1) (.runH k2) = true ∧
      enabledC (runH s k2) (.runH k1) = true := by
  obtain ⟨m1, n1⟩ := (enabledC_runH s k1).mp h1
  obtain ⟨m2, n2⟩ := (enabledC_runH s k2).mp h2
  obtain ⟨it1, rest1, e1⟩ := List.exists_cons_of_ne_nil n1
  obtain ⟨it2, rest2, e2⟩ := List.exists_cons_of_ne_nil n2
  obtain ⟨sp1, hs1, hm1, hk1⟩ := specOf_mem_of_isSpec s k1 m1
  obtain ⟨sp2, hs2, hm2, hk2⟩ := specOf_mem_of_isSpec s k2 m2
  obtain ⟨c1, d1⟩ := runH_after_runH s k1 k2 sp1 sp2 it1 it2 rest1 rest2 hne hs1 hs2 m2 e1 e2
  obtain ⟨c2, d2⟩ := runH_after_runH s k2 k1 sp2 sp1 it2 it1 rest2 rest1 (fun e => hne e.symm) hs2 hs1 m1 e2 e1
  refine ⟨?_, d1, d2⟩
  have hd : ∀ t ∈ sp1.targets, t ∉ sp2.targets :=
    targets_disjoint s.specs hse sp1 sp2 hm1 hm2 (by rw [hk1, hk2]; exact hne)
  rw [c1, c2, popH_popH s k1 k2 hne, pubIf_pubIf _ sp1 sp2 it1 it2 hd]

/-- **Local commutation.** When no topic is the target of two publish handlers, two different enabled handler
steps commute, and each stays enabled after the other. (Neither uniqueness of the handler keys nor the absence of
self loops `sp.topic ∉ sp.targets` is needed for this: two different keys have two different specs, whose target
lists are disjoint; a handler publishing onto its own topic only appends behind what it has just taken.) -/
theorem comm_step (s : ASt) (hse : (s.specs.flatMap (·.targets)).Nodup) (a b : Step) (hne : a ≠ b)
    (ha : enabledC s a = true) (hb : enabledC s b = true) :
    exec (exec s a) b = exec (exec s b) a ∧ enabledC (exec s a) b = true ∧ enabledC (exec s b) a = true := by
  cases a with
  | ext op => cases ha
  | runH k1 =>
    cases b with
    | ext op => cases hb
    | runH k2 => exact comm_HH s hse k1 k2 (fun e => hne (by rw [e])) ha hb
    | runR r =>
      obtain ⟨c, d1, d2⟩ := comm_RH s r k1 hb ha
      exact ⟨c.symm, d2, d1⟩
  | runR r1 =>
    cases b with
    | ext op => cases hb
    | runH k => exact comm_RH s r1 k ha hb
    | runR r2 => exact comm_RR s r1 r2 (fun e => hne (by rw [e])) ha hb

/-! ### the two parts together -/

/-- an enabled step is a handler step: the configuration stays, well-formedness stays -/
theorem enabledC_exec_cfg (s : ASt) (st : Step) (h : enabledC s st = true) :
    (exec s st).specs = s.specs ∧ (exec s st).recs = s.recs ∧ (exec s st).ncol = s.ncol ∧
      (WF s → WF (exec s st)) := by
  cases st with
  | ext op => cases h
  | runH k => exact ⟨runH_specs s k, runH_recs s k, runH_ncol s k, wf_runH s k⟩
  | runR r => exact ⟨runR_specs s r, runR_recs s r, runR_ncol s r, wf_runR s r⟩

/-- nothing is enabled = all queues of registered handlers are empty -/
theorem none_enabled_iff_quiet (s : ASt) : (∀ st, enabledC s st = false) ↔ s.quiet = true := by
  unfold ASt.quiet
  rw [Bool.and_eq_true, List.all_eq_true, List.all_eq_true]
  constructor
  · intro h
    refine ⟨fun sp hsp => ?_, fun r hr => ?_⟩
    · cases hq : (s.hq sp.key).isEmpty with
      | true => rfl
      | false =>
        have hn : s.hq sp.key ≠ [] := by intro e; rw [e] at hq; cases hq
        have := (enabledC_runH s sp.key).mpr ⟨(isSpec_iff s _).mpr ⟨sp, hsp, rfl⟩, hn⟩
        rw [h] at this; cases this
    · cases hq : (s.rq r).isEmpty with
      | true => rfl
      | false =>
        have hn : s.rq r ≠ [] := by intro e; rw [e] at hq; cases hq
        have := (enabledC_runR s r).mpr ⟨hr, hn⟩
        rw [h] at this; cases this
  · rintro ⟨h1, h2⟩ st
    cases hc : enabledC s st with
    | false => rfl
    | true =>
      cases st with
      | ext op => cases hc
      | runH k =>
        obtain ⟨m, n⟩ := (enabledC_runH s k).mp hc
        obtain ⟨sp, hsp, rfl⟩ := (isSpec_iff s k).mp m
        exact absurd (List.isEmpty_iff.mp (h1 sp hsp)) n
      | runR r =>
        obtain ⟨m, n⟩ := (enabledC_runR s r).mp hc
        exact absurd (List.isEmpty_iff.mp (h2 r m)) n

/-- **Confluence under single entry.** In a configuration in which no topic is the target of two publish handlers
(nor twice of one), all complete runs of the handler goroutines from a state end in the SAME state, whatever the
schedule — provided some measure decreases with every enabled handler step on the states with this configuration
(termination: the hypothesis `hμ`, the only thing left open here). -/
theorem async_confluent_single_entry (s : ASt) (hwf : WF s) (hse : (s.specs.flatMap (·.targets)).Nodup)
    (μ : ASt → Nat)
    (hμ : ∀ s' st, WF s' → s'.specs = s.specs → s'.recs = s.recs → enabledC s' st = true →
      μ (exec s' st) < μ s')
    (l1 l2 : List Step) (h1 : EnabledRunsC l1 s) (h2 : EnabledRunsC l2 s)
    (q1 : ∀ st, enabledC (execAll l1 s) st = false) (q2 : ∀ st, enabledC (execAll l2 s) st = false) :
    execAll l1 s = execAll l2 s := by
  refine confluent_of_measure μ (fun s' => WF s' ∧ s'.specs = s.specs ∧ s'.recs = s.recs) ?_ ?_ ?_ s
    ⟨hwf, rfl, rfl⟩ l1 l2 h1 h2 q1 q2
  · intro s' st ⟨w, e1, e2⟩ hen
    obtain ⟨c1, c2, _, c4⟩ := enabledC_exec_cfg s' st hen
    exact ⟨c4 w, c1.trans e1, c2.trans e2⟩
  · intro s' st ⟨w, e1, e2⟩ hen
    exact hμ s' st w e1 e2 hen
  · intro s' a b ⟨_, e1, _⟩ hne ha hb
    exact comm_step s' (by rw [e1]; exact hse) a b hne ha hb

/-- the same, the ends of the runs described by `quiet`; in particular every recorder has received the same -/
theorem async_confluent_quiet (s : ASt) (hwf : WF s) (hse : (s.specs.flatMap (·.targets)).Nodup)
    (μ : ASt → Nat)
    (hμ : ∀ s' st, WF s' → s'.specs = s.specs → s'.recs = s.recs → enabledC s' st = true →
      μ (exec s' st) < μ s')
    (l1 l2 : List Step) (h1 : EnabledRunsC l1 s) (h2 : EnabledRunsC l2 s)
    (q1 : (execAll l1 s).quiet = true) (q2 : (execAll l2 s).quiet = true) :
    execAll l1 s = execAll l2 s ∧
      ∀ name X, (execAll l1 s).received name X = (execAll l2 s).received name X := by
  have e := async_confluent_single_entry s hwf hse μ hμ l1 l2 h1 h2
    ((none_enabled_iff_quiet _).mpr q1) ((none_enabled_iff_quiet _).mpr q2)
  exact ⟨e, fun name X => by rw [e]⟩

end Kap.C09.AsyncProofs.Confl
