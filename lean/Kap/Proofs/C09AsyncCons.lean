/-
C09 asynchronous model — NO LOSS / NO DUPLICATION PER CHAIN, FOR EVERY SCHEDULE.

The potential `held s ++ pending ord s` (the entries the recorders hold or have queued, plus what the events queued
on spec handlers still lead to according to the declarative `fut`) only changes — up to `List.Perm` — at the external
collects, where it grows by `fut … T c [] (norm ev)`. Hence when all queues are empty the recorders hold exactly
`expected`, which is computed from the external operations alone (`conservation`, `no_loss_no_dup`).
Core Lean only.
-/
import Kap.Proofs.C09AsyncBase
namespace Kap.C09.AsyncProofs.Cons
open Kap.C09.AsyncProofs
open Kap.C09 Kap.C09.Svc Kap.C09.SvcSpec Kap.C09.Async Kap.C09.AsyncSpec

/-! ### generic list facts -/

theorem flatMap_congr' {α β : Type} (f g : α → List β) :
    ∀ (l : List α), (∀ x ∈ l, f x = g x) → l.flatMap f = l.flatMap g
  | [], _ => rfl
  | a :: l, h => by
    rw [List.flatMap_cons, List.flatMap_cons, h a List.mem_cons_self,
      flatMap_congr' f g l (fun x hx => h x (List.mem_cons_of_mem _ hx))]

theorem flatMap_append_perm {α β : Type} (f g : α → List β) :
    ∀ (l : List α), (l.flatMap (fun x => f x ++ g x)).Perm (l.flatMap f ++ l.flatMap g)
  | [] => List.Perm.refl _
  | a :: l => by
    have ih := flatMap_append_perm f g l
    simp only [List.flatMap_cons, List.append_assoc]
    apply List.Perm.append_left
    exact (List.Perm.append_left _ ih).trans (List.perm_append_comm_assoc _ _ _)

theorem flatMap_ite_filter {α β : Type} (q : α → Bool) (g : α → List β) :
    ∀ (l : List α), l.flatMap (fun x => if q x = true then g x else []) = (l.filter q).flatMap g
  | [] => rfl
  | a :: l => by
    simp only [List.flatMap_cons, List.filter_cons]
    rw [flatMap_ite_filter q g l]
    by_cases h : q a = true
    · rw [if_pos h, if_pos h, List.flatMap_cons]
    · rw [if_neg h, if_neg h, List.nil_append]

theorem flatMap_ite_map {α β : Type} (q : α → Bool) (f : α → β) :
    ∀ (l : List α), l.flatMap (fun x => if q x = true then [f x] else []) = (l.filter q).map f
  | [] => rfl
  | a :: l => by
    simp only [List.flatMap_cons, List.filter_cons]
    rw [flatMap_ite_map q f l]
    by_cases h : q a = true
    · rw [if_pos h, if_pos h, List.map_cons]; rfl
    · rw [if_neg h, if_neg h, List.nil_append]

theorem perm_four {α : Type} (H A P B : List α) : ((H ++ A) ++ (P ++ B)).Perm ((H ++ P) ++ (A ++ B)) := by
  rw [List.append_assoc, List.append_assoc]
  exact List.Perm.append_left _ (List.perm_append_comm_assoc _ _ _)

/-! ### 1. match expressions without `changed()` do not look at the previous level -/

theorem tagOf_norm (e : SEv) (t : String) : tagOf (norm e) t = tagOf e t := rfl

theorem evalCore_norm : ∀ (m : M), noChangedM m = true → ∀ e, m.evalCore (norm e) = m.evalCore e
  | .all, _, _ => rfl
  | .levelGe _, _, _ => rfl
  | .levelEq _, _, _ => rfl
  | .changed _, h, _ => by simp [noChangedM] at h
  | .tagEq _ _, _, _ => rfl
  | .and a b, h, e => by
    have h' : noChangedM a = true ∧ noChangedM b = true := by simpa [noChangedM] using h
    show (a.evalCore (norm e) && b.evalCore (norm e)) = (a.evalCore e && b.evalCore e)
    rw [evalCore_norm a h'.1, evalCore_norm b h'.2]
  | .or a b, h, e => by
    have h' : noChangedM a = true ∧ noChangedM b = true := by simpa [noChangedM] using h
    show (a.evalCore (norm e) || b.evalCore (norm e)) = (a.evalCore e || b.evalCore e)
    rw [evalCore_norm a h'.1, evalCore_norm b h'.2]

theorem eval_norm (m : M) (h : noChangedM m = true) (e : SEv) : m.eval e = m.eval (norm e) := by
  show _ = (if m.vars.all (fun t => (tagOf e t).isSome) then some (m.evalCore (norm e)) else none)
  rw [evalCore_norm m h e]
  rfl

/-- **a spec whose match expression does not mention `changed()` decides on the blanked event** -/
theorem holds_norm (sp : Spec) (h : noChangedM (matchTable.getD sp.midx .all) = true) (e : SEv) :
    holds sp e = holds sp (norm e) := by
  unfold holds
  rw [eval_norm _ h e]

theorem norm_seen (last : String → String → Option Nat) (T : String) (e : SEv) : norm (seen last T e) = norm e := rfl
theorem norm_norm (e : SEv) : norm (norm e) = norm e := rfl

theorem noChanged_mem {specs : List Spec} (h : noChanged specs = true) {sp : Spec} (hsp : sp ∈ specs) :
    noChangedM (matchTable.getD sp.midx .all) = true := by
  unfold noChanged at h
  exact List.all_eq_true.mp h sp hsp

/-! ### 2. `fut` satisfies its defining equation -/

theorem futLevel_local (ord : List String) (specs : List Spec) (recs : List Key) (hf : fwd ord specs = true)
    (T : String) (b b' : String → Nat → List Key → SEv → List Entry) (h : ∀ t ∈ after ord T, b t = b' t) :
    futLevel specs recs b T = futLevel specs recs b' T := by
  funext c p e
  unfold futLevel
  congr 1
  apply flatMap_congr'
  intro sp hsp
  have h1 := List.mem_filter.mp hsp
  have hT : sp.topic = T := by simpa using h1.2
  split
  · apply flatMap_congr'
    intro t ht
    have := fwd_mem hf h1.1 ht
    rw [hT] at this
    rw [h t this]
  · rfl

/-- **`fut` unfolds with itself below** (publish edges forward along a duplicate-free order) -/
theorem fut_unfold (ord : List String) (hnd : ord.Nodup) (specs : List Spec) (recs : List Key)
    (hf : fwd ord specs = true) (T : String) (c : Nat) (p : List Key) (e : SEv) :
    fut specs recs ord T c p e = futLevel specs recs (fut specs recs ord) T c p e := by
  have := along_unfold (futLevel specs recs) (fun _ _ _ _ => []) ord hnd T
    (fun b b' h => futLevel_local ord specs recs hf T b b' h)
  exact congrFun (congrFun (congrFun this c) p) e

/-! ### 3. one `collectOn` -/

theorem futH_seen (specs : List Spec) (recs : List Key) (ord : List String) (sp : Spec) (it : Item)
    (last : String → String → Option Nat) (T : String) :
    futH specs recs ord sp { it with ev := seen last T it.ev } = futH specs recs ord sp it := rfl

theorem held_collectOn (s : ASt) (T : String) (it : Item) :
    (held (collectOn s T it)).Perm
      (held s ++ (s.recs.filter (fun r => r.1 == T)).map (fun r => ((r, it.cid, it.path) : Entry))) := by
  have e : held (collectOn s T it) =
      s.recs.flatMap (fun r => (s.got r ++ s.rq r).map (fun j => ((r, j.cid, j.path) : Entry)) ++
        (if (r.1 == T) = true then [((r, it.cid, it.path) : Entry)] else [])) := by
    show s.recs.flatMap (fun r => ((collectOn s T it).got r ++ (collectOn s T it).rq r).map
      (fun j => ((r, j.cid, j.path) : Entry))) = _
    apply flatMap_congr'
    intro r hr
    rw [collectOn_got, collectOn_rq]
    by_cases h : r.1 = T
    · rw [if_pos ⟨h, hr⟩, if_pos (by simp [h]), ← List.append_assoc, List.map_append]
      rfl
    · rw [if_neg (fun hh => h hh.1), if_neg (by simp [h]), List.append_nil]
  rw [e]
  refine (flatMap_append_perm _ _ _).trans ?_
  rw [flatMap_ite_map]
  exact List.Perm.refl _

theorem pending_collectOn (ord : List String) (s : ASt) (T : String) (it : Item) :
    (pending ord (collectOn s T it)).Perm
      (pending ord s ++ (s.specs.filter (fun sp => sp.topic == T)).flatMap
        (fun sp => futH s.specs s.recs ord sp it)) := by
  have e : pending ord (collectOn s T it) =
      s.specs.flatMap (fun sp => (s.hq sp.key).flatMap (fun j => futH s.specs s.recs ord sp j) ++
        (if (sp.topic == T) = true then futH s.specs s.recs ord sp it else [])) := by
    show s.specs.flatMap (fun sp => ((collectOn s T it).hq sp.key).flatMap
      (fun j => futH s.specs s.recs ord sp j)) = _
    apply flatMap_congr'
    intro sp hsp
    have his : s.isSpec sp.key = true := (isSpec_iff s _).mpr ⟨sp, hsp, rfl⟩
    rw [collectOn_hq]
    by_cases h : sp.topic = T
    · rw [if_pos ⟨h, his⟩, if_pos (by simp [h]), List.flatMap_append, List.flatMap_singleton]
      rfl
    · rw [if_neg (fun hh => h hh.1), if_neg (by simp [h]), List.append_nil]
  rw [e]
  refine (flatMap_append_perm _ _ _).trans ?_
  rw [flatMap_ite_filter]
  exact List.Perm.refl _

/-- **one arrival**: the potential grows by exactly what the declarative semantics says the arrival leads to -/
theorem phi_collectOn (ord : List String) (hnd : ord.Nodup) (s : ASt) (hf : fwd ord s.specs = true)
    (T : String) (it : Item) :
    (held (collectOn s T it) ++ pending ord (collectOn s T it)).Perm
      ((held s ++ pending ord s) ++ fut s.specs s.recs ord T it.cid it.path (norm it.ev)) := by
  rw [fut_unfold ord hnd s.specs s.recs hf]
  exact ((held_collectOn s T it).append (pending_collectOn ord s T it)).trans (perm_four _ _ _ _)

/-! ### 4. a recorder takes one event -/

theorem held_runR (s : ASt) (r : Key) : held (runR s r) = held s := by
  rcases runR_cases s r with e | ⟨it, rest, hq, e⟩
  · rw [e]
  · rw [e]
    show s.recs.flatMap (fun r' => ((if r' = r then s.got r ++ [it] else s.got r') ++
      (if r' = r then rest else s.rq r')).map (fun j => ((r', j.cid, j.path) : Entry))) = _
    apply flatMap_congr'
    intro r' _
    by_cases h : r' = r
    · subst h
      rw [if_pos rfl, if_pos rfl, hq, List.append_assoc]
      rfl
    · rw [if_neg h, if_neg h]

theorem pending_runR (ord : List String) (s : ASt) (r : Key) : pending ord (runR s r) = pending ord s := by
  rcases runR_cases s r with e | ⟨it, rest, _, e⟩
  · rw [e]
  · rw [e]; rfl

/-! ### 5. a spec handler takes one event -/

theorem specOf_some {s : ASt} {k : Key} {sp : Spec} (h : s.specOf k = some sp) : sp ∈ s.specs ∧ sp.key = k := by
  unfold ASt.specOf at h
  refine ⟨List.mem_of_find?_eq_some h, ?_⟩
  have := List.find?_some h
  simp only [Bool.and_eq_true, beq_iff_eq] at this
  exact Prod.ext this.1 this.2

theorem flatMap_key_single {β : Type} (k : Key) (extra : Spec → List β) :
    ∀ (l : List Spec), (l.map Spec.key).Nodup → ∀ sp, sp ∈ l → sp.key = k →
      l.flatMap (fun x => if x.key = k then extra x else []) = extra sp
  | [], _, _, h, _ => by cases h
  | x :: l, hnd, sp, hsp, hk => by
    rw [List.map_cons, List.nodup_cons] at hnd
    rw [List.flatMap_cons]
    rcases List.mem_cons.mp hsp with e | hin
    · subst e
      have : l.flatMap (fun x => if x.key = k then extra x else []) = [] := by
        rw [List.flatMap_eq_nil_iff]
        intro y hy
        rw [if_neg]
        intro hyk
        exact hnd.1 (List.mem_map.mpr ⟨y, hy, hyk.trans hk.symm⟩)
      rw [this, List.append_nil]
      exact if_pos hk
    · have hne : x.key ≠ k := by
        intro e; apply hnd.1; rw [e, ← hk]; exact List.mem_map.mpr ⟨sp, hin, rfl⟩
      rw [flatMap_key_single k extra l hnd.2 sp hin hk]
      show (if x.key = k then extra x else []) ++ extra sp = extra sp
      rw [if_neg hne, List.nil_append]

/-- taking the head `it` of the queue of spec handler `sp` removes `futH sp it` from `pending` -/
theorem pending_pop (ord : List String) (s : ASt) (hw : WF s) (k : Key) (sp : Spec) (it : Item) (rest : List Item)
    (hsp : sp ∈ s.specs) (hk : sp.key = k) (hq : s.hq k = it :: rest) (d : Key → List Item) :
    (pending ord s).Perm
      (futH s.specs s.recs ord sp it ++
        pending ord { s with hq := fun k' => if k' = k then rest else s.hq k', done := d }) := by
  have e : pending ord s =
      s.specs.flatMap (fun x => (if x.key = k then futH s.specs s.recs ord x it else []) ++
        (if x.key = k then rest else s.hq x.key).flatMap (fun j => futH s.specs s.recs ord x j)) := by
    show s.specs.flatMap (fun x => (s.hq x.key).flatMap (fun j => futH s.specs s.recs ord x j)) = _
    apply flatMap_congr'
    intro x _
    by_cases h : x.key = k
    · rw [if_pos h, if_pos h, h, hq, List.flatMap_cons]
    · rw [if_neg h, if_neg h, List.nil_append]
  rw [e]
  refine (flatMap_append_perm _ _ _).trans ?_
  rw [flatMap_key_single k (fun x => futH s.specs s.recs ord x it) s.specs hw.keys sp hsp hk]
  exact List.Perm.refl _

theorem phi_fold_collectOn (ord : List String) (hnd : ord.Nodup) (j : Item) :
    ∀ (ts : List String) (a : ASt), fwd ord a.specs = true →
      (held (ts.foldl (fun acc t => collectOn acc t j) a) ++
        pending ord (ts.foldl (fun acc t => collectOn acc t j) a)).Perm
        ((held a ++ pending ord a) ++ ts.flatMap (fun t => fut a.specs a.recs ord t j.cid j.path (norm j.ev)))
  | [], a, _ => by
    show (held a ++ pending ord a).Perm ((held a ++ pending ord a) ++ [])
    rw [List.append_nil]
  | t :: ts, a, hf => by
    have ih := phi_fold_collectOn ord hnd j ts (collectOn a t j) hf
    have h1 := phi_collectOn ord hnd a hf t j
    rw [List.foldl_cons, List.flatMap_cons, ← List.append_assoc]
    exact ih.trans (List.Perm.append_right _ h1)

/-- **a spec handler's step leaves the potential alone**: what it takes from its queue is what it publishes -/
theorem phi_runH (ord : List String) (hnd : ord.Nodup) (s : ASt) (hw : WF s) (hf : fwd ord s.specs = true)
    (hnc : noChanged s.specs = true) (k : Key) :
    (held (runH s k) ++ pending ord (runH s k)).Perm (held s ++ pending ord s) := by
  rcases runH_cases s k with e | ⟨sp, it, rest, hso, hq, e⟩
  · rw [e]
  · obtain ⟨hsp, hk⟩ := specOf_some hso
    have hpop := pending_pop ord s hw k sp it rest hsp hk hq
      (fun k' => if k' = k then s.done k ++ [it] else s.done k')
    have hn := holds_norm sp (noChanged_mem hnc hsp) it.ev
    rw [e]
    simp only
    -- Φ s ~ Φ s1 ++ futH sp it
    have hs : (held s ++ pending ord s).Perm
        ((held s ++ pending ord { s with hq := fun k' => if k' = k then rest else s.hq k',
                                           done := fun k' => if k' = k then s.done k ++ [it] else s.done k' }) ++
          futH s.specs s.recs ord sp it) := by
      rw [List.append_assoc]
      exact List.Perm.append_left _ (hpop.trans List.perm_append_comm)
    split
    · rename_i hh
      have hfut : futH s.specs s.recs ord sp it =
          sp.targets.flatMap (fun t => fut s.specs s.recs ord t it.cid (it.path ++ [sp.key]) (norm it.ev)) := by
        unfold futH
        rw [← hn, if_pos hh]
      rw [hfut] at hs
      have hfold := phi_fold_collectOn ord hnd (it.ext sp.key) sp.targets
        { s with hq := fun k' => if k' = k then rest else s.hq k',
                 done := fun k' => if k' = k then s.done k ++ [it] else s.done k' } hf
      exact hfold.trans hs.symm
    · rename_i hh
      have hfut : futH s.specs s.recs ord sp it = [] := by
        unfold futH
        rw [← hn, if_neg hh]
      rw [hfut, List.append_nil] at hs
      exact hs.symm

/-! ### 6. configuration operations -/

theorem cfgOf_runH (s : ASt) (k : Key) : cfgOf (runH s k) = cfgOf s := by
  unfold cfgOf; rw [runH_specs, runH_recs, runH_ncol]
theorem cfgOf_runR (s : ASt) (r : Key) : cfgOf (runR s r) = cfgOf s := by
  unfold cfgOf; rw [runR_specs, runR_recs, runR_ncol]

theorem cfgOf_removeSpec_drainH (s : ASt) (k : Key) :
    cfgOf (removeSpec (drainH s k) k) =
      { cfgOf s with specs := s.specs.filter (fun x => !(x.topic == k.1 && x.hid == k.2)) } := by
  show ({ specs := (drainH s k).specs.filter (fun x => !(x.topic == k.1 && x.hid == k.2)),
          recs := (drainH s k).recs, ncol := (drainH s k).ncol } : Cfg) = _
  rw [drainH_specs, drainH_recs, drainH_ncol]
  rfl

/-- **the configuration of the state is the configuration the external operations alone determine** -/
theorem cfgOf_execOp (s : ASt) (op : Svc.Op) : cfgOf (execOp s op) = (cfgOf s).step op := by
  cases op with
  | recorder T n =>
    show cfgOf (if (T, n) ∈ s.recs then s else { s with recs := s.recs ++ [(T, n)] }) =
      (if (T, n) ∈ s.recs then cfgOf s else { cfgOf s with recs := s.recs ++ [(T, n)] })
    split <;> rfl
  | reg sp =>
    show cfgOf (if s.isSpec sp.key then s else { s with specs := s.specs ++ [sp] }) =
      (if s.isSpec sp.key then cfgOf s else { cfgOf s with specs := s.specs ++ [sp] })
    split <;> rfl
  | dereg T hid => exact cfgOf_removeSpec_drainH s (T, hid)
  | upd T old sp =>
    show cfgOf (if s.isSpec (T, old) = true ∧ (sp.key = (T, old) ∨ s.isSpec sp.key = false) then
        { removeSpec (drainH s (T, old)) (T, old) with
            specs := (removeSpec (drainH s (T, old)) (T, old)).specs ++ [sp] } else s) =
      (if s.isSpec (T, old) = true ∧ (sp.key = (T, old) ∨ s.isSpec sp.key = false) then
        { cfgOf s with specs := s.specs.filter (fun x => !(x.topic == T && x.hid == old)) ++ [sp] } else cfgOf s)
    split
    · have := cfgOf_removeSpec_drainH s (T, old)
      show ({ specs := (removeSpec (drainH s (T, old)) (T, old)).specs ++ [sp],
              recs := (removeSpec (drainH s (T, old)) (T, old)).recs,
              ncol := (removeSpec (drainH s (T, old)) (T, old)).ncol } : Cfg) = _
      have h1 := congrArg Cfg.specs this
      have h2 := congrArg Cfg.recs this
      have h3 := congrArg Cfg.ncol this
      simp only [cfgOf] at h1 h2 h3
      rw [h1, h2, h3]
      rfl
    · rfl
  | collect T ev => rfl

theorem quiet_iff (s : ASt) :
    s.quiet = true ↔ (∀ sp ∈ s.specs, s.hq sp.key = []) ∧ (∀ r ∈ s.recs, s.rq r = []) := by
  unfold ASt.quiet
  simp only [Bool.and_eq_true, List.all_eq_true, List.isEmpty_iff]

/-- well-formed and quiet: NO handler key has anything queued -/
theorem hq_all_nil (s : ASt) (hw : WF s) (hq : s.quiet = true) (k : Key) : s.hq k = [] := by
  cases hs : s.isSpec k with
  | false => exact hw.hq k hs
  | true =>
    obtain ⟨sp, h1, h2⟩ := (isSpec_iff s k).mp hs
    rw [← h2]
    exact ((quiet_iff s).mp hq).1 sp h1

theorem pending_nil (ord : List String) (s : ASt) (h : ∀ sp ∈ s.specs, s.hq sp.key = []) : pending ord s = [] := by
  unfold pending
  rw [List.flatMap_eq_nil_iff]
  intro sp hsp
  rw [h sp hsp]
  rfl

theorem drainH_nil (s : ASt) (k : Key) (h : s.hq k = []) : drainH s k = s := by
  unfold drainH
  rw [h]
  rfl

/-- **a configuration operation on a quiet state**: nothing is pending before or after, the recorders hold the
same -/
theorem phi_cfgOp (ord : List String) (s : ASt) (hw : WF s) (hq : s.quiet = true) (op : Svc.Op)
    (hop : ∀ T ev, op ≠ .collect T ev) :
    held (execOp s op) = held s ∧ pending ord (execOp s op) = [] ∧ pending ord s = [] := by
  have hall := hq_all_nil s hw hq
  have hp : pending ord s = [] := pending_nil ord s (fun sp _ => hall sp.key)
  cases op with
  | recorder T n =>
    show held (if (T, n) ∈ s.recs then s else { s with recs := s.recs ++ [(T, n)] }) = held s ∧
      pending ord (if (T, n) ∈ s.recs then s else { s with recs := s.recs ++ [(T, n)] }) = [] ∧ _
    split
    · exact ⟨rfl, hp, hp⟩
    · rename_i hn
      refine ⟨?_, pending_nil ord _ (fun sp _ => hall sp.key), hp⟩
      show (s.recs ++ [(T, n)]).flatMap (fun r => (s.got r ++ s.rq r).map
        (fun j => ((r, j.cid, j.path) : Entry))) = held s
      rw [List.flatMap_append, List.flatMap_singleton, (hw.rq (T, n) hn).1, (hw.rq (T, n) hn).2]
      exact List.append_nil _
  | reg sp =>
    show held (if s.isSpec sp.key then s else { s with specs := s.specs ++ [sp] }) = held s ∧
      pending ord (if s.isSpec sp.key then s else { s with specs := s.specs ++ [sp] }) = [] ∧ _
    split
    · exact ⟨rfl, hp, hp⟩
    · exact ⟨rfl, pending_nil ord _ (fun sp' _ => hall sp'.key), hp⟩
  | dereg T hid =>
    show held (removeSpec (drainH s (T, hid)) (T, hid)) = held s ∧
      pending ord (removeSpec (drainH s (T, hid)) (T, hid)) = [] ∧ _
    rw [drainH_nil s _ (hall _)]
    refine ⟨rfl, pending_nil ord _ ?_, hp⟩
    intro sp' _
    show (if sp'.key = (T, hid) then [] else s.hq sp'.key) = []
    split
    · rfl
    · exact hall _
  | upd T old sp =>
    show held (if s.isSpec (T, old) = true ∧ (sp.key = (T, old) ∨ s.isSpec sp.key = false) then
        { removeSpec (drainH s (T, old)) (T, old) with
            specs := (removeSpec (drainH s (T, old)) (T, old)).specs ++ [sp] } else s) = held s ∧
      pending ord (if s.isSpec (T, old) = true ∧ (sp.key = (T, old) ∨ s.isSpec sp.key = false) then
        { removeSpec (drainH s (T, old)) (T, old) with
            specs := (removeSpec (drainH s (T, old)) (T, old)).specs ++ [sp] } else s) = [] ∧ _
    split
    · rw [drainH_nil s _ (hall _)]
      refine ⟨rfl, pending_nil ord _ ?_, hp⟩
      intro sp' _
      show (if sp'.key = (T, old) then [] else s.hq sp'.key) = []
      split
      · rfl
      · exact hall _
    · exact ⟨rfl, hp, hp⟩
  | collect T ev => exact absurd rfl (hop T ev)

/-! ### 7. every schedule -/

theorem extOps_ext (op : Svc.Op) (rest : List Step) : extOps (.ext op :: rest) = op :: extOps rest := rfl
theorem extOps_runH (k : Key) (rest : List Step) : extOps (.runH k :: rest) = extOps rest := rfl
theorem extOps_runR (r : Key) (rest : List Step) : extOps (.runR r :: rest) = extOps rest := rfl

/-- one step of a schedule: the potential grows by what `expected` counts for the step, the configuration follows
`Cfg.step` -/
theorem phi_exec (ord : List String) (hnd : ord.Nodup) (s : ASt) (hw : WF s) (hf : fwd ord s.specs = true)
    (hnc : noChanged s.specs = true) (st : Step)
    (hq : match st with
          | .ext (.collect _ _) => True
          | .ext _ => s.quiet = true
          | _ => True) (ops : List Svc.Op) :
    ((held (exec s st) ++ pending ord (exec s st)) ++ expected ord (cfgOf (exec s st)) ops).Perm
      ((held s ++ pending ord s) ++ expected ord (cfgOf s) (extOps [st] ++ ops)) := by
  cases st with
  | runH k =>
    show ((held (runH s k) ++ pending ord (runH s k)) ++ expected ord (cfgOf (runH s k)) ops).Perm
      ((held s ++ pending ord s) ++ expected ord (cfgOf s) ops)
    rw [cfgOf_runH]
    exact List.Perm.append_right _ (phi_runH ord hnd s hw hf hnc k)
  | runR r =>
    show ((held (runR s r) ++ pending ord (runR s r)) ++ expected ord (cfgOf (runR s r)) ops).Perm
      ((held s ++ pending ord s) ++ expected ord (cfgOf s) ops)
    rw [cfgOf_runR, held_runR, pending_runR]
  | ext op =>
    show ((held (execOp s op) ++ pending ord (execOp s op)) ++ expected ord (cfgOf (execOp s op)) ops).Perm
      ((held s ++ pending ord s) ++ expected ord (cfgOf s) (op :: ops))
    rw [cfgOf_execOp]
    cases op with
    | collect T ev =>
      show List.Perm _ ((held s ++ pending ord s) ++
        (fut s.specs s.recs ord T s.ncol [] (norm ev) ++ expected ord ((cfgOf s).step (.collect T ev)) ops))
      rw [← List.append_assoc]
      apply List.Perm.append_right
      exact phi_collectOn ord hnd { s with ncol := s.ncol + 1 } hf T
        { cid := s.ncol, path := [], ev := { ev with prev := 0 } }
    | recorder T n =>
      obtain ⟨h1, h2, h3⟩ := phi_cfgOp ord s hw hq (.recorder T n) (fun _ _ h => by cases h)
      rw [h1, h2, h3]
      exact List.Perm.refl _
    | reg sp =>
      obtain ⟨h1, h2, h3⟩ := phi_cfgOp ord s hw hq (.reg sp) (fun _ _ h => by cases h)
      rw [h1, h2, h3]
      exact List.Perm.refl _
    | dereg T hid =>
      obtain ⟨h1, h2, h3⟩ := phi_cfgOp ord s hw hq (.dereg T hid) (fun _ _ h => by cases h)
      rw [h1, h2, h3]
      exact List.Perm.refl _
    | upd T old sp =>
      obtain ⟨h1, h2, h3⟩ := phi_cfgOp ord s hw hq (.upd T old sp) (fun _ _ h => by cases h)
      rw [h1, h2, h3]
      exact List.Perm.refl _

/-- **Conservation, for every schedule.** Whatever the interleaving of the handlers' goroutines: what the recorders
hold or have queued, plus what the queued events still lead to, is — as a multiset — what was there at the start plus
`expected`, the chains of the external collects (computed from the external operations alone). -/
theorem conservation (ord : List String) (hnd : ord.Nodup) : ∀ (sched : List Step) (s : ASt), WF s →
    Always (fun a => fwd ord a.specs = true ∧ noChanged a.specs = true) sched s → CfgWhenQuiet sched s →
    (held (execAll sched s) ++ pending ord (execAll sched s)).Perm
      ((held s ++ pending ord s) ++ expected ord (cfgOf s) (extOps sched))
  | [], s, _, _, _ => by
    show (held s ++ pending ord s).Perm ((held s ++ pending ord s) ++ [])
    rw [List.append_nil]
  | st :: rest, s, hw, ha, hc => by
    have hw' : WF (exec s st) := exec_preserves WF wf_runH wf_runR wf_execOp s st hw
    have ih := conservation ord hnd rest (exec s st) hw' ha.2 hc.2
    have h1 := phi_exec ord hnd s hw ha.1.1 ha.1.2 st hc.1 (extOps rest)
    have e : extOps (st :: rest) = extOps [st] ++ extOps rest := by
      cases st <;> rfl
    rw [e]
    exact ih.trans h1

/-- **No loss, no duplication, per chain, for every schedule**: once all queues are empty the recorders hold — as a
multiset of (recorder, collect number, chain of publish handlers) — exactly `expected`. -/
theorem no_loss_no_dup (ord : List String) (hnd : ord.Nodup) (sched : List Step)
    (h1 : Always (fun a => fwd ord a.specs = true ∧ noChanged a.specs = true) sched {}) (h2 : CfgWhenQuiet sched {})
    (hq : (execAll sched {}).quiet = true) :
    ((execAll sched {}).recs.flatMap (fun r => ((execAll sched {}).got r).map (fun it => (r, it.cid, it.path)))).Perm
      (expected ord {} (extOps sched)) := by
  have hc := conservation ord hnd sched {} wf_init h1 h2
  have hw := wf_execAll sched {} wf_init
  have hp : pending ord (execAll sched {}) = [] :=
    pending_nil ord _ (fun sp _ => hq_all_nil _ hw hq sp.key)
  have hh : held (execAll sched {}) =
      (execAll sched {}).recs.flatMap (fun r => ((execAll sched {}).got r).map
        (fun it => ((r, it.cid, it.path) : Entry))) := by
    unfold held
    apply flatMap_congr'
    intro r hr
    rw [((quiet_iff _).mp hq).2 r hr, List.append_nil]
  rw [hp, List.append_nil, hh] at hc
  exact hc

end Kap.C09.AsyncProofs.Cons
