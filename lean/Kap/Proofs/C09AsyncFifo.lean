/-
C09 asynchronous model — PER-PATH FIFO, for every schedule: the copies of two collects that travel over the SAME
chain of publish handlers reach a recorder in collect order (`per_path_fifo`).

Invariant `Inv` (over the ghost histories `hist` = what a handler has taken ++ what it still has queued):
* root: in every history the items that came in directly (path `[]`) carry strictly increasing collect numbers,
  all below `ncol`;
* sub: in every history the collect numbers of the items that came in over `p0 ++ [k']` form a SUBLIST of the collect
  numbers of the items with path `p0` that handler `k'` has taken (`done k'`), in the order it took them.
The only hypothesis: no spec lists the same target topic twice (otherwise one event is delivered twice over one
path). Core Lean only.
-/
import Kap.Proofs.C09AsyncBase
namespace Kap.C09.AsyncProofs.Fifo
open Kap.C09.AsyncProofs
open Kap.C09 Kap.C09.Svc Kap.C09.SvcSpec Kap.C09.Async Kap.C09.AsyncSpec

/-- the collect numbers of the items of `l` that travelled along `p`, in the order of `l` -/
def cidsAt (l : List Item) (p : List Key) : List Nat := (l.filter (fun it => it.path == p)).map (·.cid)

/-- history of a handler: `true` = spec handler (taken ++ queued), `false` = recorder (got ++ queued) -/
def hist (s : ASt) : Bool → Key → List Item
  | true, x => s.done x ++ s.hq x
  | false, x => s.got x ++ s.rq x

theorem hist_true (s : ASt) (x : Key) : hist s true x = s.done x ++ s.hq x := rfl
theorem hist_false (s : ASt) (x : Key) : hist s false x = s.got x ++ s.rq x := rfl

theorem hist_congr {s s' : ASt} (hd : s'.done = s.done) (hh : s'.hq = s.hq) (hg : s'.got = s.got)
    (hr : s'.rq = s.rq) (b : Bool) (x : Key) : hist s' b x = hist s b x := by
  cases b with
  | true => rw [hist_true, hist_true, hd, hh]
  | false => rw [hist_false, hist_false, hg, hr]

theorem cidsAt_append (l1 l2 : List Item) (p : List Key) :
    cidsAt (l1 ++ l2) p = cidsAt l1 p ++ cidsAt l2 p := by
  unfold cidsAt; rw [List.filter_append, List.map_append]

theorem cidsAt_single_pos (it : Item) (p : List Key) (h : it.path = p) : cidsAt [it] p = [it.cid] := by
  unfold cidsAt
  rw [List.filter_cons, if_pos (by simp [h])]; rfl

theorem cidsAt_single_neg (it : Item) (p : List Key) (h : it.path ≠ p) : cidsAt [it] p = [] := by
  unfold cidsAt
  rw [List.filter_cons, if_neg (by simp [h])]; rfl

theorem cidsAt_sublist {l1 l2 : List Item} (h : l1.Sublist l2) (p : List Key) :
    (cidsAt l1 p).Sublist (cidsAt l2 p) :=
  (h.filter _).map _

/-! ### what one `collectOn` does to a history -/

theorem collectOn_hist (s : ASt) (T : String) (it : Item) (b : Bool) (x : Key) :
    hist (collectOn s T it) b x = hist s b x ∨
    (x.1 = T ∧ ∃ it' : Item, it'.cid = it.cid ∧ it'.path = it.path ∧
      hist (collectOn s T it) b x = hist s b x ++ [it']) := by
  cases b with
  | true =>
    rw [hist_true, hist_true, collectOn_hq, collectOn_done]
    split
    · rename_i hc
      right
      exact ⟨hc.1, { it with ev := seen s.last T it.ev }, rfl, rfl, (List.append_assoc _ _ _).symm⟩
    · left; rfl
  | false =>
    rw [hist_false, hist_false, collectOn_rq, collectOn_got]
    split
    · rename_i hc
      right
      exact ⟨hc.1, { it with ev := seen s.last T it.ev }, rfl, rfl, (List.append_assoc _ _ _).symm⟩
    · left; rfl

theorem collectOn_cids (s : ASt) (T : String) (it : Item) (b : Bool) (x : Key) (p : List Key) :
    cidsAt (hist (collectOn s T it) b x) p = cidsAt (hist s b x) p ∨
    (x.1 = T ∧ it.path = p ∧
      cidsAt (hist (collectOn s T it) b x) p = cidsAt (hist s b x) p ++ [it.cid]) := by
  rcases collectOn_hist s T it b x with e | ⟨hx, it', hc, hp, e⟩
  · left; rw [e]
  · rw [e, cidsAt_append]
    by_cases hq : it.path = p
    · right
      refine ⟨hx, hq, ?_⟩
      rw [cidsAt_single_pos it' p (hp.trans hq), hc]
    · left
      rw [cidsAt_single_neg it' p (by rw [hp]; exact hq), List.append_nil]

/-! ### the invariant -/

structure Inv (s : ASt) : Prop where
  rootPw : ∀ b x, (cidsAt (hist s b x) []).Pairwise (· < ·)
  rootLt : ∀ b x c, c ∈ cidsAt (hist s b x) [] → c < s.ncol
  sub : ∀ b x k' p0, (cidsAt (hist s b x) (p0 ++ [k'])).Sublist (cidsAt (s.done k') p0)

theorem hist_init (b : Bool) (x : Key) : hist ({} : ASt) b x = [] := by
  cases b <;> rfl

theorem inv_init : Inv ({} : ASt) where
  rootPw b x := by rw [hist_init]; exact List.Pairwise.nil
  rootLt b x c hc := by rw [hist_init] at hc; cases hc
  sub b x k' p0 := by rw [hist_init]; exact List.nil_sublist _

/-- histories may lose elements, `done` may gain elements, `ncol` may grow -/
theorem inv_mono {s s' : ASt} (h : Inv s)
    (hd : ∀ k' p0, (cidsAt (s.done k') p0).Sublist (cidsAt (s'.done k') p0))
    (hn : s.ncol ≤ s'.ncol)
    (hh : ∀ b x, (hist s' b x).Sublist (hist s b x)) : Inv s' where
  rootPw b x := (h.rootPw b x).sublist (cidsAt_sublist (hh b x) [])
  rootLt b x c hc := Nat.lt_of_lt_of_le (h.rootLt b x c ((cidsAt_sublist (hh b x) []).subset hc)) hn
  sub b x k' p0 := ((cidsAt_sublist (hh b x) _).trans (h.sub b x k' p0)).trans (hd k' p0)

/-- only the configuration changed -/
theorem inv_same {s s' : ASt} (h : Inv s) (hd : s'.done = s.done) (hh : s'.hq = s.hq) (hg : s'.got = s.got)
    (hr : s'.rq = s.rq) (hn : s'.ncol = s.ncol) : Inv s' :=
  inv_mono h (fun k' p0 => by rw [hd]; exact List.Sublist.refl _) (by rw [hn]; exact Nat.le_refl _)
    (fun b x => by rw [hist_congr hd hh hg hr]; exact List.Sublist.refl _)

/-! ### publishing -/

theorem ext_path_ne_nil (it : Item) (k : Key) : (it.ext k).path ≠ [] := by
  show it.path ++ [k] ≠ []
  intro h
  have := congrArg List.length h
  simp at this

/-- one `Service.Collect` of the publish fold of handler `k` for the taken item `it`; `D` = the collect numbers
handler `k` had taken over `it.path` BEFORE `it` -/
theorem inv_collectOn_ext (a : ASt) (k : Key) (it : Item) (t : String) (D : List Nat) (h : Inv a)
    (hD : cidsAt (a.done k) it.path = D ++ [it.cid])
    (hx : ∀ b x, x.1 = t → (cidsAt (hist a b x) (it.path ++ [k])).Sublist D) :
    Inv (collectOn a t (it.ext k)) where
  rootPw b x := by
    rcases collectOn_cids a t (it.ext k) b x [] with e | ⟨_, hp, _⟩
    · rw [e]; exact h.rootPw b x
    · exact absurd hp (ext_path_ne_nil it k)
  rootLt b x c hc := by
    rcases collectOn_cids a t (it.ext k) b x [] with e | ⟨_, hp, _⟩
    · rw [e] at hc; exact h.rootLt b x c hc
    · exact absurd hp (ext_path_ne_nil it k)
  sub b x k' p0 := by
    rw [collectOn_done]
    rcases collectOn_cids a t (it.ext k) b x (p0 ++ [k']) with e | ⟨hxt, hp, e⟩
    · rw [e]; exact h.sub b x k' p0
    · have hp' : it.path ++ [k] = p0 ++ [k'] := hp
      obtain ⟨h1, h2⟩ := List.append_inj' hp' rfl
      have h3 : k = k' := by injection h2
      subst h1; subst h3
      rw [e, hD]
      exact (hx b x hxt).append (List.Sublist.refl _)

/-- the publish fold over a duplicate-free target list -/
theorem inv_publish_fold (k : Key) (it : Item) (D : List Nat) :
    ∀ (ts : List String) (a : ASt), ts.Nodup → Inv a →
      cidsAt (a.done k) it.path = D ++ [it.cid] →
      (∀ b x, x.1 ∈ ts → (cidsAt (hist a b x) (it.path ++ [k])).Sublist D) →
      Inv (ts.foldl (fun acc t => collectOn acc t (it.ext k)) a)
  | [], _, _, h, _, _ => h
  | t :: ts, a, hnd, h, hD, hx => by
    have hnd' := List.nodup_cons.mp hnd
    refine inv_publish_fold k it D ts (collectOn a t (it.ext k)) hnd'.2
      (inv_collectOn_ext a k it t D h hD (fun b x e => hx b x (by rw [e]; exact List.mem_cons_self)))
      (by rw [collectOn_done]; exact hD) ?_
    intro b x hxm
    rcases collectOn_cids a t (it.ext k) b x (it.path ++ [k]) with e | ⟨hxt, _, _⟩
    · rw [e]; exact hx b x (List.mem_cons_of_mem _ hxm)
    · exact absurd (hxt ▸ hxm) hnd'.1

/-! ### taking the head of a queue -/

/-- the state after spec handler `k` took `it` from its queue (before publishing) -/
def pop (s : ASt) (k : Key) (it : Item) (rest : List Item) : ASt :=
  { s with hq := fun k' => if k' = k then rest else s.hq k',
           done := fun k' => if k' = k then s.done k ++ [it] else s.done k' }

theorem pop_hist (s : ASt) (k : Key) (it : Item) (rest : List Item) (hq : s.hq k = it :: rest) (b : Bool)
    (x : Key) : hist (pop s k it rest) b x = hist s b x := by
  cases b with
  | false => rfl
  | true =>
    show (if x = k then s.done k ++ [it] else s.done x) ++ (if x = k then rest else s.hq x) = s.done x ++ s.hq x
    by_cases e : x = k
    · subst e; rw [if_pos rfl, if_pos rfl, hq, List.append_assoc]; rfl
    · rw [if_neg e, if_neg e]

theorem pop_done_self (s : ASt) (k : Key) (it : Item) (rest : List Item) (p : List Key) :
    cidsAt ((pop s k it rest).done k) p = cidsAt (s.done k) p ++ cidsAt [it] p := by
  show cidsAt (if k = k then s.done k ++ [it] else s.done k) p = _
  rw [if_pos rfl, cidsAt_append]

theorem pop_done_sub (s : ASt) (k : Key) (it : Item) (rest : List Item) (k' : Key) (p0 : List Key) :
    (cidsAt (s.done k') p0).Sublist (cidsAt ((pop s k it rest).done k') p0) := by
  show List.Sublist _ (cidsAt (if k' = k then s.done k ++ [it] else s.done k') p0)
  by_cases e : k' = k
  · subst e; rw [if_pos rfl, cidsAt_append]; exact List.sublist_append_left _ _
  · rw [if_neg e]; exact List.Sublist.refl _

theorem inv_pop (s : ASt) (k : Key) (it : Item) (rest : List Item) (hq : s.hq k = it :: rest) (h : Inv s) :
    Inv (pop s k it rest) :=
  inv_mono h (pop_done_sub s k it rest) (Nat.le_refl _)
    (fun b x => by rw [pop_hist s k it rest hq]; exact List.Sublist.refl _)

theorem specOf_some {s : ASt} {k : Key} {sp : Spec} (h : s.specOf k = some sp) : sp ∈ s.specs ∧ sp.key = k := by
  unfold ASt.specOf at h
  refine ⟨List.mem_of_find?_eq_some h, ?_⟩
  have := List.find?_some h
  simp only [Bool.and_eq_true, beq_iff_eq] at this
  exact Prod.ext this.1 this.2

/-- the hypothesis of the theorem: no spec lists the same target twice -/
def TargetsNodup (a : ASt) : Prop := ∀ sp ∈ a.specs, sp.targets.Nodup

theorem inv_runH (s : ASt) (k : Key) (hN : TargetsNodup s) (h : Inv s) : Inv (runH s k) := by
  rcases runH_cases s k with e | ⟨sp, it, rest, h1, h2, e⟩
  · rw [e]; exact h
  · rw [e]
    show Inv (if holds sp it.ev then publish (pop s k it rest) sp it else pop s k it rest)
    obtain ⟨hm, hk⟩ := specOf_some h1
    split
    · unfold publish
      rw [hk]
      refine inv_publish_fold k it (cidsAt (s.done k) it.path) sp.targets _ (hN sp hm)
        (inv_pop s k it rest h2 h) ?_ ?_
      · rw [pop_done_self, cidsAt_single_pos it _ rfl]
      · intro b x _
        rw [pop_hist s k it rest h2]
        exact h.sub b x k it.path
    · exact inv_pop s k it rest h2 h

theorem inv_runR (s : ASt) (r : Key) (h : Inv s) : Inv (runR s r) := by
  rcases runR_cases s r with e | ⟨it, rest, hq, e⟩
  · rw [e]; exact h
  · rw [e]
    refine inv_mono h (fun k' p0 => List.Sublist.refl _) (Nat.le_refl _) ?_
    intro b x
    cases b with
    | true => exact List.Sublist.refl _
    | false =>
      show List.Sublist ((if x = r then s.got r ++ [it] else s.got x) ++ (if x = r then rest else s.rq x))
        (s.got x ++ s.rq x)
      by_cases e' : x = r
      · subst e'
        rw [if_pos rfl, if_pos rfl, hq, List.append_assoc]; exact List.Sublist.refl _
      · rw [if_neg e', if_neg e']; exact List.Sublist.refl _

/-! ### the external operations -/

theorem inv_removeSpec (s : ASt) (k : Key) (h : Inv s) : Inv (removeSpec s k) := by
  refine inv_mono h (fun k' p0 => List.Sublist.refl _) (Nat.le_refl _) ?_
  intro b x
  cases b with
  | false => exact List.Sublist.refl _
  | true =>
    show List.Sublist (s.done x ++ (if x = k then [] else s.hq x)) (s.done x ++ s.hq x)
    by_cases e : x = k
    · rw [if_pos e]; exact (List.Sublist.refl _).append (List.nil_sublist _)
    · rw [if_neg e]; exact List.Sublist.refl _

theorem inv_drainH (s : ASt) (k : Key) (hN : TargetsNodup s) (h : Inv s) : Inv (drainH s k) := by
  have := drainH_preserves (fun a => a.specs = s.specs ∧ Inv a) k
    (fun a ha => ⟨(runH_specs a k).trans ha.1, inv_runH a k (by unfold TargetsNodup; rw [ha.1]; exact hN) ha.2⟩)
    s ⟨rfl, h⟩
  exact this.2

theorem inv_collect (s : ASt) (T : String) (ev : SEv) (h : Inv s) :
    Inv (collectOn { s with ncol := s.ncol + 1 } T { cid := s.ncol, path := [], ev := ev }) := by
  have h0 : ∀ b x, hist { s with ncol := s.ncol + 1 } b x = hist s b x :=
    fun b x => hist_congr rfl rfl rfl rfl b x
  refine ⟨?_, ?_, ?_⟩
  · intro b x
    rcases collectOn_cids { s with ncol := s.ncol + 1 } T { cid := s.ncol, path := [], ev := ev } b x []
      with e | ⟨_, _, e⟩
    · rw [e, h0]; exact h.rootPw b x
    · rw [e, h0]
      refine List.pairwise_append.mpr ⟨h.rootPw b x, List.pairwise_singleton _ _, ?_⟩
      intro c hc d hd
      rw [List.mem_singleton.mp hd]
      exact h.rootLt b x c hc
  · intro b x c hc
    show c < s.ncol + 1
    rcases collectOn_cids { s with ncol := s.ncol + 1 } T { cid := s.ncol, path := [], ev := ev } b x []
      with e | ⟨_, _, e⟩
    · rw [e, h0] at hc; exact Nat.lt_succ_of_lt (h.rootLt b x c hc)
    · rw [e, h0] at hc
      rcases List.mem_append.mp hc with hc | hc
      · exact Nat.lt_succ_of_lt (h.rootLt b x c hc)
      · rw [List.mem_singleton.mp hc]; exact Nat.lt_succ_self _
  · intro b x k' p0
    rw [collectOn_done]
    rcases collectOn_cids { s with ncol := s.ncol + 1 } T { cid := s.ncol, path := [], ev := ev } b x
      (p0 ++ [k']) with e | ⟨_, hp, _⟩
    · rw [e, h0]; exact h.sub b x k' p0
    · have hp' : ([] : List Key) = p0 ++ [k'] := hp
      have := congrArg List.length hp'
      simp at this

theorem inv_execOp (s : ASt) (op : Svc.Op) (hN : TargetsNodup s) (h : Inv s) : Inv (execOp s op) := by
  cases op with
  | recorder T n =>
    show Inv (if (T, n) ∈ s.recs then s else { s with recs := s.recs ++ [(T, n)] })
    split
    · exact h
    · exact inv_same h rfl rfl rfl rfl rfl
  | reg sp =>
    show Inv (if s.isSpec sp.key then s else { s with specs := s.specs ++ [sp] })
    split
    · exact h
    · exact inv_same h rfl rfl rfl rfl rfl
  | dereg T hid => exact inv_removeSpec _ _ (inv_drainH s _ hN h)
  | upd T old sp =>
    show Inv (if s.isSpec (T, old) = true ∧ (sp.key = (T, old) ∨ s.isSpec sp.key = false) then _ else s)
    split
    · exact inv_same (inv_removeSpec _ (T, old) (inv_drainH s (T, old) hN h)) rfl rfl rfl rfl rfl
    · exact h
  | collect T ev => exact inv_collect s T _ h

theorem inv_exec (s : ASt) (st : Step) (hN : TargetsNodup s) (h : Inv s) : Inv (exec s st) := by
  cases st with
  | ext op => exact inv_execOp s op hN h
  | runH k => exact inv_runH s k hN h
  | runR r => exact inv_runR s r h

/-- **the invariant holds along every schedule** whose specs never list a target twice -/
theorem inv_execAll : ∀ (sched : List Step) (s : ASt), Always TargetsNodup sched s → Inv s →
    Inv (execAll sched s)
  | [], _, _, h => h
  | st :: rest, s, hA, h => inv_execAll rest (exec s st) hA.2 (inv_exec s st hA.1 h)

/-! ### from the invariant to FIFO per path -/

/-- in every history the items of one path carry strictly increasing collect numbers (induction on the path from
its end) -/
theorem inv_pairwise_rev {s : ASt} (h : Inv s) :
    ∀ (q : List Key) (b : Bool) (x : Key), (cidsAt (hist s b x) q.reverse).Pairwise (· < ·)
  | [], b, x => h.rootPw b x
  | k' :: q, b, x => by
    rw [List.reverse_cons]
    have h1 := h.sub b x k' q.reverse
    have h2 : (cidsAt (s.done k') q.reverse).Sublist (cidsAt (hist s true k') q.reverse) :=
      cidsAt_sublist (List.sublist_append_left _ _) _
    exact (inv_pairwise_rev h q true k').sublist (h1.trans h2)

theorem inv_pairwise {s : ASt} (h : Inv s) (p : List Key) (b : Bool) (x : Key) :
    (cidsAt (hist s b x) p).Pairwise (· < ·) := by
  have := inv_pairwise_rev h p.reverse b x
  rw [List.reverse_reverse] at this
  exact this

/-- **Per-path FIFO, for every schedule.** Whatever the interleaving of the handlers' goroutines and of the external
operations, what a recorder has got over one chain of publish handlers is in collect order (strictly: no collect
twice), provided no spec lists the same target topic twice. -/
theorem per_path_fifo (sched : List Step)
    (hT : Always (fun a => ∀ sp ∈ a.specs, sp.targets.Nodup) sched {}) (r : Key) (p : List Key) :
    ((((execAll sched {}).got r).filter (fun it => it.path == p)).map (·.cid)).Pairwise (· < ·) := by
  have hI : Inv (execAll sched {}) := inv_execAll sched {} hT inv_init
  have h1 := inv_pairwise hI p false r
  exact h1.sublist (cidsAt_sublist (List.sublist_append_left _ _) p)

/-- the same for what is still queued: got ++ queue of a recorder, taken ++ queue of a spec handler -/
theorem per_path_fifo_hist (sched : List Step)
    (hT : Always (fun a => ∀ sp ∈ a.specs, sp.targets.Nodup) sched {}) (b : Bool) (x : Key) (p : List Key) :
    (cidsAt (hist (execAll sched {}) b x) p).Pairwise (· < ·) :=
  inv_pairwise (inv_execAll sched {} hT inv_init) p b x

/-- the hypothesis is needed: a spec that lists a target twice delivers one collect twice over one path -/
theorem targets_nodup_needed :
    let sched : List Step :=
      [.ext (.recorder "p0" "r"), .ext (.reg { topic := "t0", hid := "h", midx := 0, targets := ["p0", "p0"] }),
       .ext (.collect "t0" { id := "a", level := 1, time := 0, prev := 0, tags := [] }),
       .runH ("t0", "h"), .runR ("p0", "r"), .runR ("p0", "r")]
    (((execAll sched {}).got ("p0", "r")).filter (fun it => it.path == [("t0", "h")])).map (·.cid) = [0, 0] := by
  decide

end Kap.C09.AsyncProofs.Fifo
