/-
C09 asynchronous model — local consistency of previous levels, for EVERY schedule.

`PrevInv`: on every topic the stored level of an id is the level of the id's latest arrival (`last`), the arrival
sequence of every topic is locally consistent (`ok`: an event whose id arrived before carries the level of that
preceding arrival), and what a registered recorder has got or has queued is, in order, a segment of the arrival
sequence of its topic ending at the newest arrival (`suffix`). It holds after every schedule (`prevInv_execAll`).
Consequences: what a recorder has got is locally consistent (`recorder_prev_consistent`), and two recorders of one
topic whose queues are empty hold logs one of which is a suffix of the other (`recorders_same_order`).
-/
import Kap.Proofs.C09AsyncBase
namespace Kap.C09.AsyncProofs.Prev
open Kap.C09.AsyncProofs
open Kap.C09 Kap.C09.Svc Kap.C09.SvcSpec Kap.C09.Async Kap.C09.AsyncSpec

structure PrevInv (s : ASt) : Prop where
  last : ∀ Y id, s.last Y id = lastNF ((s.arr Y).map (·.ev)) id
  ok : ∀ Y, prevOKb ((s.arr Y).map (·.ev)) = true
  suffix : ∀ r ∈ s.recs, ∃ older, s.arr r.1 = (s.got r ++ s.rq r).reverse ++ older

/-! ### the two recursions -/

theorem lastNF_nil (id : String) : lastNF [] id = none := rfl

theorem lastNF_cons (e : SEv) (l : List SEv) (id : String) :
    lastNF (e :: l) id = if e.id = id then some e.level else lastNF l id := by
  unfold lastNF
  rw [List.find?_cons]
  by_cases h : e.id = id
  · have : (e.id == id) = true := by simp [h]
    rw [this, if_pos h]; rfl
  · have : (e.id == id) = false := by simp [h]
    rw [this, if_neg h]

theorem prevOKb_cons (e : SEv) (l : List SEv) :
    prevOKb (e :: l) =
      ((match lastNF l e.id with
        | some x => e.prev == x
        | none => true) && prevOKb l) := rfl

theorem seen_id (last : String → String → Option Nat) (T : String) (e : SEv) : (seen last T e).id = e.id := rfl
theorem seen_level (last : String → String → Option Nat) (T : String) (e : SEv) :
    (seen last T e).level = e.level := rfl
theorem seen_prev (last : String → String → Option Nat) (T : String) (e : SEv) :
    (seen last T e).prev = (last T e.id).getD e.prev := rfl

theorem lastNF_seen_cons (last : String → String → Option Nat) (T : String) (e : SEv) (l : List SEv) (i : String) :
    lastNF (seen last T e :: l) i = if i = e.id then some e.level else lastNF l i := by
  rw [lastNF_cons, seen_id, seen_level]
  by_cases hi : i = e.id
  · rw [if_pos hi, if_pos hi.symm]
  · rw [if_neg hi, if_neg (fun hh => hi hh.symm)]

theorem prevOKb_seen_cons (last : String → String → Option Nat) (T : String) (e : SEv) (l : List SEv)
    (hl : last T e.id = lastNF l e.id) (hok : prevOKb l = true) : prevOKb (seen last T e :: l) = true := by
  rw [prevOKb_cons, hok, Bool.and_true, seen_id, seen_prev, hl]
  cases lastNF l e.id with
  | none => rfl
  | some x => simp

/-! ### preservation -/

theorem prevInv_init : PrevInv ({} : ASt) :=
  ⟨fun _ _ => rfl, fun _ => rfl, fun _ hr => by cases hr⟩

theorem prevInv_collectOn (s : ASt) (T : String) (it : Item) (h : PrevInv s) : PrevInv (collectOn s T it) := by
  refine ⟨?_, ?_, ?_⟩
  · intro Y i
    rw [collectOn_last, collectOn_arr]
    by_cases hY : Y = T
    · subst hY
      rw [if_pos rfl, List.map_cons, lastNF_seen_cons]
      by_cases hi : i = it.ev.id
      · rw [if_pos ⟨rfl, hi⟩, if_pos hi]
      · rw [if_neg (fun hh => hi hh.2), if_neg hi]; exact h.last Y i
    · rw [if_neg hY, if_neg (fun hh => hY hh.1)]; exact h.last Y i
  · intro Y
    rw [collectOn_arr]
    by_cases hY : Y = T
    · subst hY
      rw [if_pos rfl, List.map_cons]
      exact prevOKb_seen_cons s.last Y it.ev _ (h.last Y it.ev.id) (h.ok Y)
    · rw [if_neg hY]; exact h.ok Y
  · intro r hr
    have hr' : r ∈ s.recs := hr
    obtain ⟨older, ho⟩ := h.suffix r hr'
    rw [collectOn_arr, collectOn_rq, collectOn_got]
    by_cases hT : r.1 = T
    · rw [if_pos hT, if_pos ⟨hT, hr'⟩]
      refine ⟨older, ?_⟩
      rw [ho, ← List.append_assoc, List.reverse_append (as := s.got r ++ s.rq r)]
      rfl
    · rw [if_neg hT, if_neg (fun hh => hT hh.1)]; exact ⟨older, ho⟩

theorem prevInv_runH (s : ASt) (k : Key) (h : PrevInv s) : PrevInv (runH s k) :=
  runH_preserves PrevInv prevInv_collectOn (fun _ _ _ _ _ ha => ⟨ha.last, ha.ok, ha.suffix⟩) s k h

theorem prevInv_runR (s : ASt) (r : Key) (h : PrevInv s) : PrevInv (runR s r) := by
  rcases runR_cases s r with e | ⟨it, rest, hq, e⟩
  · rw [e]; exact h
  · rw [e]
    refine ⟨h.last, h.ok, ?_⟩
    intro r' hr'
    have hr'' : r' ∈ s.recs := hr'
    obtain ⟨older, ho⟩ := h.suffix r' hr''
    refine ⟨older, ?_⟩
    show s.arr r'.1 = ((if r' = r then s.got r ++ [it] else s.got r') ++ (if r' = r then rest else s.rq r')).reverse
      ++ older
    by_cases e' : r' = r
    · subst e'
      rw [if_pos rfl, if_pos rfl, ho, hq, List.append_assoc]
      rfl
    · rw [if_neg e', if_neg e']; exact ho

theorem prevInv_drainH (s : ASt) (k : Key) (h : PrevInv s) : PrevInv (drainH s k) :=
  drainH_preserves PrevInv k (fun a ha => prevInv_runH a k ha) s h

theorem prevInv_removeSpec (s : ASt) (k : Key) (h : PrevInv s) : PrevInv (removeSpec s k) :=
  ⟨h.last, h.ok, h.suffix⟩

theorem prevInv_execOp (s : ASt) (op : Svc.Op) (hw : WF s) (h : PrevInv s) : PrevInv (execOp s op) := by
  cases op with
  | recorder T n =>
    show PrevInv (if (T, n) ∈ s.recs then s else { s with recs := s.recs ++ [(T, n)] })
    split
    · exact h
    · rename_i hn
      refine ⟨h.last, h.ok, ?_⟩
      intro r hr
      have hr' : r ∈ s.recs ++ [(T, n)] := hr
      show ∃ older, s.arr r.1 = (s.got r ++ s.rq r).reverse ++ older
      rcases List.mem_append.mp hr' with h1 | h1
      · exact h.suffix r h1
      · have e : r = (T, n) := List.mem_singleton.mp h1
        subst e
        obtain ⟨q, g⟩ := hw.rq (T, n) hn
        rw [q, g]
        exact ⟨s.arr (T, n).1, rfl⟩
  | reg sp =>
    show PrevInv (if s.isSpec sp.key then s else { s with specs := s.specs ++ [sp] })
    split
    · exact h
    · exact ⟨h.last, h.ok, h.suffix⟩
  | dereg T hid => exact prevInv_removeSpec _ _ (prevInv_drainH _ _ h)
  | upd T old sp =>
    show PrevInv (if s.isSpec (T, old) = true ∧ (sp.key = (T, old) ∨ s.isSpec sp.key = false) then _ else s)
    split
    · have h1 := prevInv_removeSpec _ (T, old) (prevInv_drainH _ (T, old) h)
      exact ⟨h1.last, h1.ok, h1.suffix⟩
    · exact h
  | collect T ev => exact prevInv_collectOn _ _ _ ⟨h.last, h.ok, h.suffix⟩

/-- **the invariant holds after every schedule** (from any well-formed state satisfying it) -/
theorem prevInv_execAll_from (sched : List Step) (s : ASt) (hw : WF s) (h : PrevInv s) :
    PrevInv (execAll sched s) :=
  (execAll_preserves (fun a => WF a ∧ PrevInv a)
    (fun a st ha => exec_preserves (fun a => WF a ∧ PrevInv a)
      (fun a k ha => ⟨wf_runH a k ha.1, prevInv_runH a k ha.2⟩)
      (fun a r ha => ⟨wf_runR a r ha.1, prevInv_runR a r ha.2⟩)
      (fun a op ha => ⟨wf_execOp a op ha.1, prevInv_execOp a op ha.1 ha.2⟩) a st ha)
    sched s ⟨hw, h⟩).2

theorem prevInv_execAll (sched : List Step) : PrevInv (execAll sched {}) :=
  prevInv_execAll_from sched {} wf_init prevInv_init

/-! ### segments of a consistent sequence are consistent -/

theorem lastNF_append_some : ∀ (b c : List SEv) (id : String) (l : Nat),
    lastNF b id = some l → lastNF (b ++ c) id = some l
  | [], _, _, _, h => by cases h
  | e :: b, c, id, l, h => by
    rw [List.cons_append, lastNF_cons]
    rw [lastNF_cons] at h
    by_cases hi : e.id = id
    · rw [if_pos hi] at h ⊢; exact h
    · rw [if_neg hi] at h ⊢; exact lastNF_append_some b c id l h

theorem prevOKb_drop_prefix : ∀ (a b : List SEv), prevOKb (a ++ b) = true → prevOKb b = true
  | [], _, h => h
  | e :: a, b, h => by
    rw [List.cons_append, prevOKb_cons, Bool.and_eq_true] at h
    exact prevOKb_drop_prefix a b h.2

theorem prevOKb_drop_suffix : ∀ (b c : List SEv), prevOKb (b ++ c) = true → prevOKb b = true
  | [], _, _ => rfl
  | e :: b, c, h => by
    rw [List.cons_append, prevOKb_cons, Bool.and_eq_true] at h
    rw [prevOKb_cons, Bool.and_eq_true]
    refine ⟨?_, prevOKb_drop_suffix b c h.2⟩
    cases hl : lastNF b e.id with
    | none => rfl
    | some l =>
      have h1 := h.1
      rw [lastNF_append_some b c e.id l hl] at h1
      exact h1

theorem prevOKb_segment (a b c : List SEv) : prevOKb (a ++ (b ++ c)) = true → prevOKb b = true :=
  fun h => prevOKb_drop_suffix b c (prevOKb_drop_prefix a (b ++ c) h)

/-! ### what the recorders hold -/

/-- **what a recorder has got, read newest first, is locally consistent**: every event whose id the recorder has
seen before carries the level of that preceding event — whatever the schedule -/
theorem recorder_prev_consistent (sched : List Step) (r : Key) (hr : r ∈ (execAll sched {}).recs) :
    prevOKb ((((execAll sched {}).got r).reverse).map (·.ev)) = true := by
  have hinv := prevInv_execAll sched
  obtain ⟨older, ho⟩ := hinv.suffix r hr
  have hok := hinv.ok r.1
  rw [ho, List.reverse_append, List.append_assoc, List.map_append, List.map_append] at hok
  exact prevOKb_segment _ _ _ hok

theorem append_eq_append_prefix {α : Type} (a b c d : List α) (h : a ++ b = c ++ d) :
    (∃ p, a = c ++ p) ∨ (∃ p, c = a ++ p) := by
  rcases List.append_eq_append_iff.mp h with ⟨p, h1, _⟩ | ⟨p, h1, _⟩
  · exact Or.inr ⟨p, h1⟩
  · exact Or.inl ⟨p, h1⟩

/-- **two recorders of one topic hold the same arrival order**: with empty queues, one log is a suffix of the
other -/
theorem recorders_same_order (sched : List Step) (r1 r2 : Key) (h1 : r1 ∈ (execAll sched {}).recs)
    (h2 : r2 ∈ (execAll sched {}).recs) (ht : r1.1 = r2.1)
    (q1 : (execAll sched {}).rq r1 = []) (q2 : (execAll sched {}).rq r2 = []) :
    (∃ pre, (execAll sched {}).got r1 = pre ++ (execAll sched {}).got r2) ∨
    (∃ pre, (execAll sched {}).got r2 = pre ++ (execAll sched {}).got r1) := by
  have hinv := prevInv_execAll sched
  obtain ⟨o1, e1⟩ := hinv.suffix r1 h1
  obtain ⟨o2, e2⟩ := hinv.suffix r2 h2
  rw [q1, List.append_nil] at e1
  rw [q2, List.append_nil, ← ht, e1] at e2
  rcases append_eq_append_prefix _ _ _ _ e2 with ⟨p, hp⟩ | ⟨p, hp⟩
  · left
    refine ⟨p.reverse, ?_⟩
    have := congrArg List.reverse hp
    rw [List.reverse_reverse, List.reverse_append, List.reverse_reverse] at this
    exact this
  · right
    refine ⟨p.reverse, ?_⟩
    have := congrArg List.reverse hp
    rw [List.reverse_reverse, List.reverse_append, List.reverse_reverse] at this
    exact this

/-! ### non-vacuity: a registered recorder that has got two events of one id, the second carrying the level of the
first -/

def prevDemoSched : List Step :=
  [.ext (.recorder "t0" "r"),
   .ext (.collect "t0" { id := "a", level := 2, time := 1, prev := 0, tags := [] }),
   .ext (.collect "t0" { id := "a", level := 3, time := 2, prev := 0, tags := [] }),
   .runR ("t0", "r"), .runR ("t0", "r")]

example : ("t0", "r") ∈ (execAll prevDemoSched {}).recs ∧
    (((execAll prevDemoSched {}).got ("t0", "r")).map (fun it => (it.ev.level, it.ev.prev))) = [(2, 0), (3, 2)] := by
  decide

/-- `prevOKb` does reject a sequence (newest first) whose head does not carry the preceding level -/
example : prevOKb [{ id := "a", level := 3, time := 2, prev := 1, tags := [] },
                   { id := "a", level := 2, time := 1, prev := 0, tags := [] }] = false := by
  decide

end Kap.C09.AsyncProofs.Prev
