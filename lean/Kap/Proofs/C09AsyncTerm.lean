/-
C09 asynchronous model — QUIESCENCE: from any well-formed state whose publish edges go forward along a
duplicate-free topic order, running handler goroutines until all queues are empty terminates. The measure
(`AsyncSpec.measure`): every queued event counted with the number of handler steps it can still cause.
Every enabled handler step lowers it by at least one; it is zero exactly in the quiet states.
-/
import Kap.Proofs.C09AsyncBase
namespace Kap.C09.AsyncProofs.Term
open Kap.C09.AsyncProofs
open Kap.C09 Kap.C09.Svc Kap.C09.SvcSpec Kap.C09.Async Kap.C09.AsyncSpec

/-! ### sums -/

theorem sum_map_eq_zero {α : Type} (f : α → Nat) :
    ∀ (l : List α), (l.map f).sum = 0 ↔ ∀ x ∈ l, f x = 0
  | [] => by simp
  | a :: l => by
    have ih := sum_map_eq_zero f l
    simp only [List.map_cons, List.sum_cons, List.mem_cons, forall_eq_or_imp]
    constructor
    · intro h
      exact ⟨by omega, ih.mp (by omega)⟩
    · intro h
      have := ih.mpr h.2
      omega

theorem sum_map_le {α : Type} (f g : α → Nat) :
    ∀ (l : List α), (∀ x ∈ l, f x ≤ g x) → (l.map f).sum ≤ (l.map g).sum
  | [], _ => Nat.le_refl _
  | a :: l, h => by
    have ih := sum_map_le f g l (fun x hx => h x (List.mem_cons_of_mem _ hx))
    have ha := h a (List.mem_cons_self ..)
    simp only [List.map_cons, List.sum_cons]
    omega

/-- if one member's term drops by `d` and no term grows, the sum drops by at least `d` -/
theorem sum_map_drop {α : Type} (f g : α → Nat) (d : Nat) :
    ∀ (l : List α), (∀ x ∈ l, f x ≤ g x) → (∃ x ∈ l, f x + d ≤ g x) → (l.map f).sum + d ≤ (l.map g).sum
  | [], _, h => by obtain ⟨x, hx, _⟩ := h; cases hx
  | a :: l, h, hex => by
    have hl : ∀ x ∈ l, f x ≤ g x := fun x hx => h x (List.mem_cons_of_mem _ hx)
    have ha := h a (List.mem_cons_self ..)
    simp only [List.map_cons, List.sum_cons]
    obtain ⟨x, hx, hd⟩ := hex
    rcases List.mem_cons.mp hx with e | hx'
    · subst e
      have := sum_map_le f g l hl
      omega
    · have := sum_map_drop f g d l hl ⟨x, hx', hd⟩
      omega

/-- every term grows by a weight when the member satisfies `p`, else stays: the sum grows by the weights of the
members satisfying `p` -/
theorem sum_map_grow {α : Type} (f g w : α → Nat) (p : α → Bool) :
    ∀ (l : List α), (∀ x ∈ l, f x = g x + (if p x = true then w x else 0)) →
      (l.map f).sum = (l.map g).sum + ((l.filter p).map w).sum
  | [], _ => rfl
  | a :: l, h => by
    have ih := sum_map_grow f g w p l (fun x hx => h x (List.mem_cons_of_mem _ hx))
    have ha := h a (List.mem_cons_self ..)
    simp only [List.map_cons, List.sum_cons, List.filter_cons]
    by_cases hp : p a = true
    · rw [if_pos hp] at ha
      rw [if_pos hp]
      simp only [List.map_cons, List.sum_cons]
      omega
    · rw [if_neg hp] at ha
      rw [if_neg hp]
      omega

theorem sum_map_one {α : Type} : ∀ (l : List α), (l.map (fun _ => 1)).sum = l.length
  | [] => rfl
  | _ :: l => by
    simp only [List.map_cons, List.sum_cons, List.length_cons, sum_map_one l]
    omega

/-! ### 1. the weight satisfies its defining equation -/

theorem wLevel_local (specs : List Spec) (recs : List Key) (ord : List String) (hf : fwd ord specs = true)
    (T : String) (b b' : String → Nat) (h : ∀ t ∈ after ord T, b t = b' t) :
    wLevel specs recs b T = wLevel specs recs b' T := by
  unfold wLevel
  congr 2
  apply List.map_congr_left
  intro sp hsp
  have hm := List.mem_filter.mp hsp
  have hT : sp.topic = T := by simpa using hm.2
  congr 2
  apply List.map_congr_left
  intro t ht
  apply h
  rw [← hT]
  exact fwd_mem hf hm.1 ht

/-- **the weight of a topic, unfolded**: the recorders on it, and for every spec on it one step plus the weights of
its targets -/
theorem weight_unfold (specs : List Spec) (recs : List Key) (ord : List String) (hnd : ord.Nodup)
    (hf : fwd ord specs = true) (T : String) :
    weight specs recs ord T = wLevel specs recs (weight specs recs ord) T := by
  unfold weight
  exact along_unfold (wLevel specs recs) (fun _ => 0) ord hnd T
    (fun b b' h => wLevel_local specs recs ord hf T b b' h)

theorem weight_eq (specs : List Spec) (recs : List Key) (ord : List String) (hnd : ord.Nodup)
    (hf : fwd ord specs = true) (T : String) :
    weight specs recs ord T =
      (recs.filter (fun r => r.1 == T)).length +
      ((specs.filter (fun sp => sp.topic == T)).map (wSpec specs recs ord)).sum := by
  rw [weight_unfold specs recs ord hnd hf T]
  rfl

theorem wSpec_pos (specs : List Spec) (recs : List Key) (ord : List String) (sp : Spec) :
    1 ≤ wSpec specs recs ord sp := by
  unfold wSpec; omega

/-! ### 2. one collect on a topic adds the topic's weight -/

theorem measure_collectOn (ord : List String) (hnd : ord.Nodup) (s : ASt) (hf : fwd ord s.specs = true)
    (T : String) (it : Item) :
    AsyncSpec.measure ord (collectOn s T it) = AsyncSpec.measure ord s + weight s.specs s.recs ord T := by
  rw [weight_eq s.specs s.recs ord hnd hf T]
  unfold AsyncSpec.measure
  simp only [collectOn_specs, collectOn_recs]
  have h1 := sum_map_grow
    (fun sp => ((collectOn s T it).hq sp.key).length * wSpec s.specs s.recs ord sp)
    (fun sp => (s.hq sp.key).length * wSpec s.specs s.recs ord sp)
    (wSpec s.specs s.recs ord) (fun sp => sp.topic == T) s.specs (by
      intro sp hsp
      have hs : s.isSpec sp.key = true := (isSpec_iff s sp.key).mpr ⟨sp, hsp, rfl⟩
      show ((collectOn s T it).hq sp.key).length * _ = _
      rw [collectOn_hq]
      by_cases hT : sp.topic = T
      · have hc : sp.key.1 = T ∧ s.isSpec sp.key = true := ⟨hT, hs⟩
        have hb : (sp.topic == T) = true := by simp [hT]
        rw [if_pos hc, if_pos hb, List.length_append, List.length_singleton, Nat.succ_mul]
      · have hc : ¬ (sp.key.1 = T ∧ s.isSpec sp.key = true) := fun hh => hT hh.1
        have hb : ¬ (sp.topic == T) = true := by simp [hT]
        rw [if_neg hc, if_neg hb]; rfl)
  have h2 := sum_map_grow
    (fun r => ((collectOn s T it).rq r).length)
    (fun r => (s.rq r).length)
    (fun _ => 1) (fun r => r.1 == T) s.recs (by
      intro r hr
      show ((collectOn s T it).rq r).length = _
      rw [collectOn_rq]
      by_cases hT : r.1 = T
      · have hc : r.1 = T ∧ r ∈ s.recs := ⟨hT, hr⟩
        have hb : (r.1 == T) = true := by simp [hT]
        rw [if_pos hc, if_pos hb, List.length_append, List.length_singleton]
      · have hc : ¬ (r.1 = T ∧ r ∈ s.recs) := fun hh => hT hh.1
        have hb : ¬ (r.1 == T) = true := by simp [hT]
        rw [if_neg hc, if_neg hb]; rfl)
  rw [sum_map_one] at h2
  rw [h1, h2]
  omega

theorem measure_collects (ord : List String) (hnd : ord.Nodup) (it : Item) :
    ∀ (ts : List String) (s : ASt), fwd ord s.specs = true →
      AsyncSpec.measure ord (ts.foldl (fun acc t => collectOn acc t it) s) =
        AsyncSpec.measure ord s + (ts.map (weight s.specs s.recs ord)).sum
  | [], _, _ => rfl
  | t :: ts, s, hf => by
    have ih := measure_collects ord hnd it ts (collectOn s t it) hf
    rw [measure_collectOn ord hnd s hf t it] at ih
    simp only [collectOn_specs, collectOn_recs] at ih
    simp only [List.foldl_cons, List.map_cons, List.sum_cons]
    omega

/-- publishing through a spec adds the weights of its targets -/
theorem measure_publish (ord : List String) (hnd : ord.Nodup) (s : ASt) (hf : fwd ord s.specs = true)
    (sp : Spec) (it : Item) :
    AsyncSpec.measure ord (publish s sp it) =
      AsyncSpec.measure ord s + (sp.targets.map (weight s.specs s.recs ord)).sum := by
  unfold publish
  exact measure_collects ord hnd (it.ext sp.key) sp.targets s hf

/-! ### 3. a handler step lowers the measure -/

theorem specOf_of_isSpec (s : ASt) (k : Key) (h : s.isSpec k = true) :
    ∃ sp, s.specOf k = some sp ∧ sp ∈ s.specs ∧ sp.key = k := by
  unfold ASt.specOf
  cases hfd : s.specs.find? (fun sp => sp.topic == k.1 && sp.hid == k.2) with
  | none =>
    exfalso
    obtain ⟨sp, h1, h2⟩ := (isSpec_iff s k).mp h
    have := List.find?_eq_none.mp hfd sp h1
    apply this
    rw [← h2]
    simp [Spec.key]
  | some sp =>
    refine ⟨sp, rfl, List.mem_of_find?_eq_some hfd, ?_⟩
    have := List.find?_some hfd
    simp only [Bool.and_eq_true, beq_iff_eq] at this
    exact Prod.ext this.1 this.2

theorem runH_eq (s : ASt) (k : Key) (sp : Spec) (it : Item) (rest : List Item)
    (h1 : s.specOf k = some sp) (h2 : s.hq k = it :: rest) :
    runH s k =
      (let s1 : ASt := { s with hq := fun k' => if k' = k then rest else s.hq k',
                                done := fun k' => if k' = k then s.done k ++ [it] else s.done k' }
       if holds sp it.ev then publish s1 sp it else s1) := by
  unfold runH
  split
  · rename_i sp' it' rest' e1 e2
    rw [h1] at e1; rw [h2] at e2
    cases e1; cases e2; rfl
  · rename_i hno
    exact (hno sp it rest h1 h2).elim

/-- taking the head of the queue of spec handler `sp` removes the steps that event could still cause -/
theorem measure_pop (ord : List String) (s : ASt) (k : Key) (sp : Spec) (it : Item) (rest : List Item)
    (dn : Key → List Item) (hsp : sp ∈ s.specs) (hk : sp.key = k) (h2 : s.hq k = it :: rest) :
    AsyncSpec.measure ord { s with hq := fun k' => if k' = k then rest else s.hq k', done := dn } +
      wSpec s.specs s.recs ord sp ≤ AsyncSpec.measure ord s := by
  unfold AsyncSpec.measure
  have h := sum_map_drop
    (fun sp' => (if sp'.key = k then rest else s.hq sp'.key).length * wSpec s.specs s.recs ord sp')
    (fun sp' => (s.hq sp'.key).length * wSpec s.specs s.recs ord sp')
    (wSpec s.specs s.recs ord sp) s.specs (by
      intro x _
      show (if x.key = k then rest else s.hq x.key).length * _ ≤ (s.hq x.key).length * _
      by_cases e : x.key = k
      · rw [if_pos e, e, h2]
        exact Nat.mul_le_mul_right _ (by simp)
      · rw [if_neg e]
        exact Nat.le_refl _)
    ⟨sp, hsp, by
      show (if sp.key = k then rest else s.hq sp.key).length * _ + _ ≤ (s.hq sp.key).length * _
      rw [if_pos hk, hk, h2, List.length_cons, Nat.succ_mul]
      exact Nat.le_refl _⟩
  show (s.specs.map (fun sp' => (if sp'.key = k then rest else s.hq sp'.key).length *
      wSpec s.specs s.recs ord sp')).sum + (s.recs.map (fun r => (s.rq r).length)).sum + _ ≤ _
  omega

/-- **a step of a spec handler with a non-empty queue lowers the measure** -/
theorem measure_runH_lt (ord : List String) (s : ASt) (_hwf : WF s) (hnd : ord.Nodup)
    (hf : fwd ord s.specs = true) (k : Key) (hk : s.isSpec k = true) (hq : s.hq k ≠ []) :
    AsyncSpec.measure ord (runH s k) < AsyncSpec.measure ord s := by
  obtain ⟨sp, h1, hsp, hkey⟩ := specOf_of_isSpec s k hk
  cases h2 : s.hq k with
  | nil => exact absurd h2 hq
  | cons it rest =>
    rw [runH_eq s k sp it rest h1 h2]
    have hpop := measure_pop ord s k sp it rest (fun k' => if k' = k then s.done k ++ [it] else s.done k')
      hsp hkey h2
    have hw : wSpec s.specs s.recs ord sp = 1 + (sp.targets.map (weight s.specs s.recs ord)).sum := rfl
    simp only
    split
    · have hm := measure_publish ord hnd
        { s with hq := fun k' => if k' = k then rest else s.hq k',
                 done := fun k' => if k' = k then s.done k ++ [it] else s.done k' } hf sp it
      rw [hm]
      show _ + (sp.targets.map (weight s.specs s.recs ord)).sum < _
      omega
    · omega

/-- **a step of a recorder with a non-empty queue lowers the measure** -/
theorem measure_runR_lt (ord : List String) (s : ASt) (_hwf : WF s) (r : Key) (hr : r ∈ s.recs)
    (hq : s.rq r ≠ []) : AsyncSpec.measure ord (runR s r) < AsyncSpec.measure ord s := by
  unfold runR
  cases h2 : s.rq r with
  | nil => exact absurd h2 hq
  | cons it rest =>
    simp only
    unfold AsyncSpec.measure
    have h := sum_map_drop
      (fun r' => (if r' = r then rest else s.rq r').length)
      (fun r' => (s.rq r').length) 1 s.recs (by
        intro x _
        show (if x = r then rest else s.rq x).length ≤ (s.rq x).length
        by_cases e : x = r
        · rw [if_pos e, e, h2]; simp
        · rw [if_neg e]; exact Nat.le_refl _)
      ⟨r, hr, by
        show (if r = r then rest else s.rq r).length + 1 ≤ (s.rq r).length
        rw [if_pos rfl, h2]; simp⟩
    show (s.specs.map (fun sp => (s.hq sp.key).length * wSpec s.specs s.recs ord sp)).sum +
      (s.recs.map (fun r' => (if r' = r then rest else s.rq r').length)).sum < _
    omega

/-! ### 4. the measure is zero exactly in the quiet states -/

theorem measure_zero_iff_quiet (ord : List String) (s : ASt) :
    AsyncSpec.measure ord s = 0 ↔ s.quiet = true := by
  unfold AsyncSpec.measure ASt.quiet
  rw [Bool.and_eq_true, List.all_eq_true, List.all_eq_true, Nat.add_eq_zero_iff, sum_map_eq_zero,
    sum_map_eq_zero]
  constructor
  · rintro ⟨h1, h2⟩
    refine ⟨fun sp hsp => ?_, fun r hr => ?_⟩
    · have h := h1 sp hsp
      have hw := wSpec_pos s.specs s.recs ord sp
      rcases Nat.mul_eq_zero.mp h with h0 | h0
      · exact List.isEmpty_iff.mpr (List.length_eq_zero_iff.mp h0)
      · omega
    · exact List.isEmpty_iff.mpr (List.length_eq_zero_iff.mp (h2 r hr))
  · rintro ⟨h1, h2⟩
    refine ⟨fun sp hsp => ?_, fun r hr => ?_⟩
    · rw [List.isEmpty_iff.mp (h1 sp hsp)]; simp
    · rw [List.isEmpty_iff.mp (h2 r hr)]; rfl

theorem quiet_of_measure_zero (ord : List String) (s : ASt) (h : AsyncSpec.measure ord s = 0) :
    s.quiet = true := (measure_zero_iff_quiet ord s).mp h

theorem measure_zero_of_quiet (ord : List String) (s : ASt) (h : s.quiet = true) :
    AsyncSpec.measure ord s = 0 := (measure_zero_iff_quiet ord s).mpr h

/-! ### 5. termination -/

/-- a step that a handler goroutine can take now -/
def enabled (s : ASt) : Step → Bool
  | .runH k => s.isSpec k && !(s.hq k).isEmpty
  | .runR r => s.recs.contains r && !(s.rq r).isEmpty
  | .ext _ => false

/-- a schedule of handler steps each of which is enabled when taken -/
def EnabledRuns : List Step → ASt → Prop
  | [], _ => True
  | st :: rest, s => enabled s st = true ∧ EnabledRuns rest (exec s st)

theorem nonempty_of_not_isEmpty {α : Type} (l : List α) (h : (!l.isEmpty) = true) : l ≠ [] := by
  intro e; subst e; cases h

/-- an enabled step lowers the measure and keeps the hypotheses -/
theorem enabled_step (ord : List String) (hnd : ord.Nodup) (s : ASt) (st : Step) (hwf : WF s)
    (hf : fwd ord s.specs = true) (he : enabled s st = true) :
    AsyncSpec.measure ord (exec s st) < AsyncSpec.measure ord s ∧ WF (exec s st) ∧
      fwd ord (exec s st).specs = true := by
  cases st with
  | ext op => cases he
  | runH k =>
    have he' : (s.isSpec k && !(s.hq k).isEmpty) = true := he
    rw [Bool.and_eq_true] at he'
    refine ⟨measure_runH_lt ord s hwf hnd hf k he'.1 (nonempty_of_not_isEmpty _ he'.2), wf_runH s k hwf, ?_⟩
    show fwd ord (runH s k).specs = true
    rw [runH_specs]; exact hf
  | runR r =>
    have he' : (s.recs.contains r && !(s.rq r).isEmpty) = true := he
    rw [Bool.and_eq_true] at he'
    have hr : r ∈ s.recs := by simpa using he'.1
    refine ⟨measure_runR_lt ord s hwf r hr (nonempty_of_not_isEmpty _ he'.2), wf_runR s r hwf, ?_⟩
    show fwd ord (runR s r).specs = true
    rw [runR_specs]; exact hf

/-- **every schedule of enabled handler steps is at most as long as the measure allows** -/
theorem runs_bounded (ord : List String) (hnd : ord.Nodup) :
    ∀ (sched : List Step) (s : ASt), WF s → fwd ord s.specs = true → EnabledRuns sched s →
      sched.length + AsyncSpec.measure ord (execAll sched s) ≤ AsyncSpec.measure ord s
  | [], s, _, _, _ => by
    show 0 + AsyncSpec.measure ord s ≤ _
    omega
  | st :: rest, s, hwf, hf, hr => by
    obtain ⟨h1, h2, h3⟩ := enabled_step ord hnd s st hwf hf hr.1
    have ih := runs_bounded ord hnd rest (exec s st) h2 h3 hr.2
    have e : execAll (st :: rest) s = execAll rest (exec s st) := rfl
    rw [e, List.length_cons]
    omega

/-- **as long as some queue is not empty some handler can take a step** -/
theorem not_quiet_enabled (s : ASt) (h : s.quiet = false) : ∃ st, enabled s st = true := by
  unfold ASt.quiet at h
  rw [Bool.and_eq_false_iff] at h
  rcases h with h | h
  · rw [List.all_eq_false] at h
    obtain ⟨sp, hsp, hne⟩ := h
    refine ⟨.runH sp.key, ?_⟩
    show (s.isSpec sp.key && !(s.hq sp.key).isEmpty) = true
    rw [(isSpec_iff s sp.key).mpr ⟨sp, hsp, rfl⟩]
    simpa using hne
  · rw [List.all_eq_false] at h
    obtain ⟨r, hr, hne⟩ := h
    refine ⟨.runR r, ?_⟩
    show (s.recs.contains r && !(s.rq r).isEmpty) = true
    have : s.recs.contains r = true := by simpa using hr
    rw [this]
    simpa using hne

theorem quiescence_aux (ord : List String) (hnd : ord.Nodup) :
    ∀ (n : Nat) (s : ASt), AsyncSpec.measure ord s ≤ n → WF s → fwd ord s.specs = true →
      ∃ sched, EnabledRuns sched s ∧ (execAll sched s).quiet = true ∧
        sched.length ≤ AsyncSpec.measure ord s
  | 0, s, hn, _, _ =>
    ⟨[], trivial, quiet_of_measure_zero ord s (by omega), Nat.zero_le _⟩
  | n + 1, s, hn, hwf, hf => by
    cases hq : s.quiet with
    | true => exact ⟨[], trivial, hq, Nat.zero_le _⟩
    | false =>
      obtain ⟨st, he⟩ := not_quiet_enabled s hq
      obtain ⟨h1, h2, h3⟩ := enabled_step ord hnd s st hwf hf he
      obtain ⟨sched, r1, r2, r3⟩ := quiescence_aux ord hnd n (exec s st) (by omega) h2 h3
      refine ⟨st :: sched, ⟨he, r1⟩, r2, ?_⟩
      rw [List.length_cons]
      omega

/-- **Quiescence**: from any well-formed state whose publish edges go forward along a duplicate-free order there is
a schedule of enabled handler steps, no longer than the measure, after which all queues are empty; and by
`runs_bounded` EVERY schedule of enabled handler steps stops within that bound. -/
theorem quiescence (ord : List String) (hnd : ord.Nodup) (s : ASt) (hwf : WF s) (hf : fwd ord s.specs = true) :
    ∃ sched, EnabledRuns sched s ∧ (execAll sched s).quiet = true ∧ sched.length ≤ AsyncSpec.measure ord s :=
  quiescence_aux ord hnd _ s (Nat.le_refl _) hwf hf

/-- a maximal schedule of enabled handler steps (one that cannot be extended) ends in a quiet state -/
theorem maximal_run_quiet (sched : List Step) (s : ASt)
    (hmax : ∀ st, enabled (execAll sched s) st = false) : (execAll sched s).quiet = true := by
  cases hq : (execAll sched s).quiet with
  | true => rfl
  | false =>
    obtain ⟨st, he⟩ := not_quiet_enabled _ hq
    rw [hmax st] at he; cases he

end Kap.C09.AsyncProofs.Term
