/-
C09 helper lemmas, part 4: handler delivery. For every history, what handler `h` has received for
topic `T` (closed registrations + the live one) is exactly the history spec's `specDelivered T h`.
-/
import Kap.Proofs.C09Global
namespace Kap.C09

def hids (l : List Handler) : List String := l.map (·.hid)
def findH (l : List Handler) (h : String) : Option Handler := l.find? (fun x => x.hid == h)

/-- Per-topic handler invariant: no handler twice; everything a handler of topic `T` got is an event of `T`. -/
def HInv (T : String) (t : Topic) : Prop :=
  (hids t.handlers).Nodup ∧ ∀ hd ∈ t.handlers, ∀ e ∈ hd.got, e.topic = T

def DInv (s : Topics) : Prop := ∀ T t, s.get T = some t → HInv T t

theorem findH_none_iff (l : List Handler) (h : String) : findH l h = none ↔ h ∉ hids l := by
  simp [findH, hids, List.find?_eq_none]

theorem findH_some {l : List Handler} {h : String} {hd : Handler} (e : findH l h = some hd) :
    hd ∈ l ∧ hd.hid = h := by
  unfold findH at e
  exact ⟨List.mem_of_find?_eq_some e, by simpa using List.find?_some e⟩

theorem findH_of_mem {l : List Handler} (hnd : (hids l).Nodup) {hd : Handler} (hm : hd ∈ l) :
    findH l hd.hid = some hd := by
  induction l with
  | nil => cases hm
  | cons x xs ih =>
    have hnd' : x.hid ∉ hids xs ∧ (hids xs).Nodup := List.nodup_cons.mp (by simpa [hids] using hnd)
    unfold findH
    rw [List.find?_cons]
    rcases List.mem_cons.mp hm with rfl | hm'
    · simp
    · have : (x.hid == hd.hid) = false := by
        simp only [beq_eq_false_iff_ne, ne_eq]
        intro e; apply hnd'.1; rw [e]; exact List.mem_map.mpr ⟨hd, hm', rfl⟩
      rw [this]; exact ih hnd'.2 hm'

/-- Under the no-duplicates invariant the filter over handlers is the (at most one) match of `find?`. -/
theorem filter_eq_find (l : List Handler) (h : String) (hnd : (hids l).Nodup) :
    l.filter (fun x => x.hid == h) = (findH l h).toList := by
  induction l with
  | nil => rfl
  | cons x xs ih =>
    have hnd' : x.hid ∉ hids xs ∧ (hids xs).Nodup := List.nodup_cons.mp (by simpa [hids] using hnd)
    unfold findH
    rw [List.filter_cons, List.find?_cons]
    by_cases hx : (x.hid == h) = true
    · have hx' : x.hid = h := by simpa using hx
      rw [hx]; simp only [↓reduceIte, Option.toList_some]
      have : xs.filter (fun x => x.hid == h) = [] := by
        rw [List.filter_eq_nil_iff]; intro y hy hyh
        apply hnd'.1; rw [hx']; have : y.hid = h := by simpa using hyh
        rw [← this]; exact List.mem_map.mpr ⟨y, hy, rfl⟩
      rw [this]
    · have hx' : (x.hid == h) = false := by simpa using hx
      rw [hx']; simp only [Bool.false_eq_true, ↓reduceIte]
      exact ih hnd'.2

/-! ### `removeSwap` -/

theorem getLast_dropLast {α} (l : List α) (x : α) (h : l.getLast? = some x) : l = l.dropLast ++ [x] := by
  obtain ⟨ys, rfl⟩ := List.getLast?_eq_some_iff.mp h
  simp

/-- membership after `removeSwap` (any list): exactly the other elements, minus the FIRST match. For lists
without duplicate hids: exactly the handlers with a different hid. -/
theorem removeSwap_mem (h' : String) (l : List Handler) (hnd : (hids l).Nodup) (x : Handler) :
    x ∈ (removeSwap h' l).1 ↔ x ∈ l ∧ x.hid ≠ h' := by
  induction l with
  | nil => simp [removeSwap]
  | cons y ys ih =>
    have hnd' : y.hid ∉ hids ys ∧ (hids ys).Nodup := List.nodup_cons.mp (by simpa [hids] using hnd)
    unfold removeSwap
    by_cases hy : (y.hid == h') = true
    · have hy' : y.hid = h' := by simpa using hy
      rw [if_pos hy]
      have hnot : ∀ z ∈ ys, z.hid ≠ h' := by
        intro z hz e; apply hnd'.1; rw [hy', ← e]; exact List.mem_map.mpr ⟨z, hz, rfl⟩
      cases hl : ys.getLast? with
      | none =>
        have : ys = [] := by simpa using hl
        subst this
        simp only [List.not_mem_nil, List.mem_cons, or_false, false_iff, not_and, Decidable.not_not]
        intro e; rw [e]; exact hy'
      | some last =>
        have hsplit := getLast_dropLast ys last hl
        simp only
        constructor
        · intro hx
          have hx' : x ∈ ys := by
            rw [hsplit]
            rcases List.mem_cons.mp hx with rfl | hx
            · simp
            · exact List.mem_append_left _ hx
          exact ⟨List.mem_cons_of_mem _ hx', hnot x hx'⟩
        · rintro ⟨hx, hne⟩
          rcases List.mem_cons.mp hx with rfl | hx'
          · exact absurd hy' hne
          · rw [hsplit] at hx'
            rcases List.mem_append.mp hx' with h1 | h1
            · exact List.mem_cons_of_mem _ h1
            · simp at h1; subst h1; exact List.mem_cons_self
    · have hy' : (y.hid == h') = false := by simpa using hy
      rw [if_neg hy]
      simp only [List.mem_cons]
      rw [ih hnd'.2]
      constructor
      · rintro (rfl | ⟨h1, h2⟩)
        · exact ⟨Or.inl rfl, by simpa using hy'⟩
        · exact ⟨Or.inr h1, h2⟩
      · rintro ⟨rfl | h1, h2⟩
        · exact Or.inl rfl
        · exact Or.inr ⟨h1, h2⟩

theorem removeSwap_hids_perm (h' : String) (l : List Handler) :
    (hids (removeSwap h' l).1).Perm (match findH l h' with | some _ => (hids l).erase h' | none => hids l) := by
  induction l with
  | nil => simp [removeSwap, findH, hids]
  | cons y ys ih =>
    unfold removeSwap findH
    rw [List.find?_cons]
    by_cases hy : (y.hid == h') = true
    · have hy' : y.hid = h' := by simpa using hy
      rw [if_pos hy, hy]
      simp only
      have : (hids (y :: ys)).erase h' = hids ys := by simp [hids, hy']
      rw [this]
      cases hl : ys.getLast? with
      | none => have : ys = [] := by simpa using hl
                subst this; simp [hids]
      | some last =>
        have hsplit := getLast_dropLast ys last hl
        simp only
        have : (hids ys).Perm (hids (last :: ys.dropLast)) := by
          conv => lhs; rw [hsplit]
          unfold hids
          apply List.Perm.map
          exact List.perm_append_comm
        exact this.symm
    · have hy' : (y.hid == h') = false := by simpa using hy
      rw [if_neg hy, hy']
      simp only
      have ih' := ih
      unfold findH at ih'
      cases hf : ys.find? (fun x => x.hid == h') with
      | none =>
        rw [hf] at ih'; simp only at ih' ⊢
        show (hids (y :: (removeSwap h' ys).1)).Perm (hids (y :: ys))
        simpa [hids] using ih'
      | some hd =>
        rw [hf] at ih'; simp only at ih' ⊢
        show (hids (y :: (removeSwap h' ys).1)).Perm ((hids (y :: ys)).erase h')
        have hne : y.hid ≠ h' := by simpa using hy'
        have : (hids (y :: ys)).erase h' = y.hid :: (hids ys).erase h' := by
          simp [hids, List.erase_cons, hne]
        rw [this]
        simpa [hids] using ih'

theorem removeSwap_nodup (h' : String) (l : List Handler) (hnd : (hids l).Nodup) :
    (hids (removeSwap h' l).1).Nodup := by
  have hp := removeSwap_hids_perm h' l
  cases hf : findH l h' with
  | none => rw [hf] at hp; exact hp.nodup_iff.mpr hnd
  | some hd => rw [hf] at hp; exact hp.nodup_iff.mpr (hnd.erase _)

theorem removeSwap_snd (h' : String) (l : List Handler) : (removeSwap h' l).2 = findH l h' := by
  induction l with
  | nil => rfl
  | cons y ys ih =>
    unfold removeSwap findH
    rw [List.find?_cons]
    by_cases hy : (y.hid == h') = true
    · rw [if_pos hy, hy]
    · have hy' : (y.hid == h') = false := by simpa using hy
      rw [if_neg hy, hy']; simp only; exact ih

theorem removeSwap_find (h' h : String) (l : List Handler) (hnd : (hids l).Nodup) :
    findH (removeSwap h' l).1 h = if h = h' then none else findH l h := by
  by_cases e : h = h'
  · subst e
    rw [if_pos rfl, findH_none_iff]
    intro hm
    obtain ⟨x, hx, hxe⟩ := List.mem_map.mp hm
    exact ((removeSwap_mem h l hnd x).mp hx).2 hxe
  · rw [if_neg e]
    cases hf : findH l h with
    | none =>
      rw [findH_none_iff] at hf ⊢
      intro hm
      obtain ⟨x, hx, hxe⟩ := List.mem_map.mp hm
      exact hf (List.mem_map.mpr ⟨x, ((removeSwap_mem h' l hnd x).mp hx).1, hxe⟩)
    | some hd =>
      obtain ⟨hm, hid⟩ := findH_some hf
      have : hd ∈ (removeSwap h' l).1 := (removeSwap_mem h' l hnd hd).mpr ⟨hm, by rw [hid]; exact e⟩
      have := findH_of_mem (removeSwap_nodup h' l hnd) this
      rw [hid] at this; exact this

/-! ### `addHandler` -/

theorem addHandler_handlers (t : Topic) (h : String) :
    (t.addHandler h).handlers = if (findH t.handlers h).isSome then t.handlers else t.handlers ++ [{ hid := h, got := [] }] := by
  unfold Topic.addHandler findH
  have : t.handlers.any (fun x => x.hid == h) = (t.handlers.find? (fun x => x.hid == h)).isSome := by
    induction t.handlers with
    | nil => rfl
    | cons x xs ih => simp only [List.any_cons, List.find?_cons]; cases hx : (x.hid == h) <;> simp [ih]
  rw [this]; split <;> simp_all

theorem addHandler_find (t : Topic) (h' h : String) :
    findH (t.addHandler h').handlers h =
      if h = h' ∧ findH t.handlers h' = none then some { hid := h', got := [] } else findH t.handlers h := by
  rw [addHandler_handlers]
  cases hf : findH t.handlers h' with
  | some hd => simp
  | none =>
    simp only [Option.isSome_none, Bool.false_eq_true, ↓reduceIte, and_true]
    unfold findH at hf ⊢
    rw [List.find?_append]
    by_cases e : h = h'
    · subst e; rw [hf]; simp
    · rw [if_neg e]
      have : (h' == h) = false := by simpa using Ne.symm e
      simp [this]

theorem addHandler_hinv (T : String) (t : Topic) (h : String) (hi : HInv T t) : HInv T (t.addHandler h) := by
  obtain ⟨hnd, hev⟩ := hi
  unfold HInv
  rw [addHandler_handlers]
  cases hf : findH t.handlers h with
  | some hd => simpa using ⟨hnd, hev⟩
  | none =>
    simp only [Option.isSome_none, Bool.false_eq_true, ↓reduceIte]
    have hnot := (findH_none_iff _ _).mp hf
    constructor
    · unfold hids; rw [List.map_append]
      apply List.nodup_append.mpr
      refine ⟨hnd, by simp, ?_⟩
      intro a ha b hb
      simp at hb; subst hb
      intro e; subst e; exact hnot ha
    · intro hd hm e he
      rcases List.mem_append.mp hm with h1 | h1
      · exact hev hd h1 e he
      · simp at h1; subst h1; cases he

/-! ### the observation functions after `set` -/

def isReg (s : Topics) (T h : String) : Bool :=
  match s.get T with
  | none => false
  | some t => (findH t.handlers h).isSome

theorem live_eq (s : Topics) (T h : String) :
    s.live T h = match s.get T with
      | none => []
      | some t => match findH t.handlers h with | some hd => hd.got | none => [] := rfl

theorem live_set_same (s : Topics) (T h : String) (t : Topic) :
    (s.set T t).live T h = match findH t.handlers h with | some hd => hd.got | none => [] := by
  rw [live_eq, get_set_same]

theorem live_set_other (s : Topics) (T T' h : String) (t : Topic) (hne : T' ≠ T) :
    (s.set T t).live T' h = s.live T' h := by
  rw [live_eq, live_eq, get_set_other _ _ _ _ hne]

theorem isReg_set_same (s : Topics) (T h : String) (t : Topic) :
    isReg (s.set T t) T h = (findH t.handlers h).isSome := by
  unfold isReg; rw [get_set_same]

theorem isReg_set_other (s : Topics) (T T' h : String) (t : Topic) (hne : T' ≠ T) :
    isReg (s.set T t) T' h = isReg s T' h := by
  unfold isReg; rw [get_set_other _ _ _ _ hne]

theorem fromClosed_set (s : Topics) (T T' h : String) (t : Topic) :
    (s.set T t).fromClosed T' h = s.fromClosed T' h := by
  unfold Topics.fromClosed; rw [set_closed]

theorem fromClosed_append (s : Topics) (c : List (String × List Ev)) (T h : String) :
    ({ s with closed := s.closed ++ c } : Topics).fromClosed T h =
      s.fromClosed T h ++ (c.filter (fun p => p.1 == h)).flatMap (fun p => p.2.filter (fun e => e.topic == T)) := by
  unfold Topics.fromClosed
  simp only [List.filter_append, List.flatMap_append]

theorem dinv_set (s : Topics) (T : String) (t : Topic) (hd : DInv s) (ht : HInv T t) : DInv (s.set T t) := by
  intro T' t' hg
  by_cases e : T' = T
  · subst e; rw [get_set_same] at hg; cases hg; exact ht
  · rw [get_set_other _ _ _ _ e] at hg; exact hd T' t' hg

theorem hinv_ensure (s : Topics) (T : String) (hd : DInv s) : HInv T (s.ensure T) := by
  unfold Topics.ensure
  cases hg : s.get T with
  | none => simp [HInv, hids]
  | some t => exact hd T t hg

theorem isReg_ensure (s : Topics) (T h : String) : isReg s T h = (findH (s.ensure T).handlers h).isSome := by
  unfold isReg Topics.ensure
  cases s.get T with
  | none => rfl
  | some t => rfl

theorem live_ensure (s : Topics) (T h : String) :
    s.live T h = match findH (s.ensure T).handlers h with | some hd => hd.got | none => [] := by
  rw [live_eq]; unfold Topics.ensure
  cases s.get T with
  | none => rfl
  | some t => rfl

theorem filter_topic_self {T : String} {l : List Ev} (h : ∀ e ∈ l, e.topic = T) :
    l.filter (fun e => e.topic == T) = l := by
  rw [List.filter_eq_self]; intro e he; simpa using h e he

theorem filter_topic_other {T T' : String} {l : List Ev} (h : ∀ e ∈ l, e.topic = T') (hne : T ≠ T') :
    l.filter (fun e => e.topic == T) = [] := by
  rw [List.filter_eq_nil_iff]; intro e he
  have := h e he
  simp only [beq_iff_eq]; rw [this]; exact Ne.symm hne

end Kap.C09
