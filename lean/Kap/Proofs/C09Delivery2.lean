/-
C09 helper lemmas, part 5: the step-by-step simulation for handler delivery.
-/
import Kap.Proofs.C09Delivery
namespace Kap.C09

theorem updateEvent_handlers (t : Topic) (e : ES) : (t.updateEventWith less e).1.handlers = t.handlers := by
  unfold Topic.updateEventWith; split <;> rfl

def mkEv (T : String) (t : Topic) (e : ES) : Ev :=
  { topic := T, id := e.id, level := e.level, time := e.time,
    prev := match t.find e.id with | some p => p.level | none => 0 }

def addEv (ev : Ev) (h : Handler) : Handler := { h with got := h.got ++ [ev] }

theorem collect_handlers (T : String) (t : Topic) (e : ES) :
    (t.collectWith less T e).handlers = t.handlers.map (addEv (mkEv T t e)) := by
  unfold Topic.collectWith mkEv addEv
  simp only [updateEvent_handlers]
  have : (t.updateEventWith less e).2 = t.find e.id := by
    unfold Topic.updateEventWith; split <;> simp_all
  rw [this]
  apply List.map_congr_left
  intro x _
  cases t.find e.id <;> rfl

theorem findH_map (l : List Handler) (h : String) (g : Handler → Handler) (hg : ∀ x, (g x).hid = x.hid) :
    findH (l.map g) h = (findH l h).map g := by
  unfold findH
  induction l with
  | nil => rfl
  | cons x xs ih =>
    simp only [List.map_cons, List.find?_cons, hg]
    cases hx : (x.hid == h) <;> simp [ih]

theorem hids_map (l : List Handler) (g : Handler → Handler) (hg : ∀ x, (g x).hid = x.hid) :
    hids (l.map g) = hids l := by
  unfold hids; rw [List.map_map]; apply List.map_congr_left; intro x _; exact hg x

theorem find_perm {l₁ l₂ : List ES} (hp : l₁.Perm l₂) (hnd : (ids l₁).Nodup) (id : String) :
    l₁.find? (fun e => e.id == id) = l₂.find? (fun e => e.id == id) := by
  have hnd2 : (ids l₂).Nodup := (hp.map _).nodup_iff.mp hnd
  cases h1 : l₁.find? (fun e => e.id == id) with
  | none =>
    have := (find_none_iff l₁ id).mp h1
    symm; rw [find_none_iff]
    intro hm; apply this
    exact (hp.map (·.id)).mem_iff.mpr hm
  | some c =>
    obtain ⟨hc, hid⟩ := find_some_mem h1
    have hc2 : c ∈ l₂ := hp.mem_iff.mp hc
    cases h2 : l₂.find? (fun e => e.id == id) with
    | none =>
      have := (find_none_iff l₂ id).mp h2
      exact absurd (List.mem_map.mpr ⟨c, hc2, hid⟩) this
    | some d =>
      obtain ⟨hd, hid2⟩ := find_some_mem h2
      rw [eq_of_id_eq hnd2 hc2 hd (by rw [hid, hid2])]

theorem lookupLevel_eq (s : Topics) (T : String) (cur : List ES) (id : String)
    (hi : TInv (s.ensure T)) (hp : (s.ensure T).sorted.Perm cur) :
    lookupLevel cur id = match (s.ensure T).find id with | some p => p.level | none => 0 := by
  unfold lookupLevel Topic.find
  rw [find_perm hp hi.2 id]
  cases List.find? (fun e => e.id == id) cur <;> rfl

/-- What the simulation maintains for a fixed (topic, handler) pair. -/
structure DRel (s : Topics) (st : SpecSt) (T h : String) : Prop where
  reg : isReg s T h = st.registered
  got : s.delivered T h = st.got

theorem delivered_eq (s : Topics) (T h : String) : s.delivered T h = s.fromClosed T h ++ s.live T h := rfl

/-- When `h` is not registered on `T`, nothing is live. -/
theorem live_of_not_reg (s : Topics) (T h : String) (hr : isReg s T h = false) : s.live T h = [] := by
  rw [live_ensure]; rw [isReg_ensure] at hr
  cases hf : findH (s.ensure T).handlers h with
  | none => rfl
  | some hd => rw [hf] at hr; simp at hr

section steps
variable (s : Topics) (st : SpecSt) (T h : String)

theorem drel_collect (T' id : String) (level : Nat) (time : Int) (hd : DInv s)
    (hi : TInv (s.ensure T)) (hp : (s.ensure T).sorted.Perm st.cur) (r : DRel s st T h) :
    DInv (step s (.collect T' id level time)) ∧
    DRel (step s (.collect T' id level time)) (specStep T h st (.collect T' id level time)) T h := by
  simp only [step, stepWith]
  have hin := hinv_ensure s T' hd
  constructor
  · apply dinv_set _ _ _ hd
    unfold HInv
    rw [collect_handlers, hids_map _ (addEv _) (fun _ => rfl)]
    refine ⟨hin.1, ?_⟩
    intro x hx e he
    obtain ⟨y, hy, rfl⟩ := List.mem_map.mp hx
    rcases List.mem_append.mp he with h1 | h1
    · exact hin.2 y hy e h1
    · simp at h1; subst h1; rfl
  · by_cases e : T' = T
    · subst e
      constructor
      · rw [isReg_set_same, collect_handlers, findH_map _ _ (addEv _) (fun _ => rfl)]
        simp only [Option.isSome_map, specStep, regStep]
        rw [← isReg_ensure]; exact r.reg
      · rw [delivered_eq, fromClosed_set, live_set_same, collect_handlers, findH_map _ _ (addEv _) (fun _ => rfl)]
        have hreg := r.reg; have hgot := r.got
        rw [delivered_eq, live_ensure] at hgot
        rw [isReg_ensure] at hreg
        simp only [specStep, beq_self_eq_true, Bool.true_and]
        have hev : mkEv T' (s.ensure T') { id := id, level := level, time := time } =
            { topic := T', id := id, level := level, time := time, prev := lookupLevel st.cur id } := by
          unfold mkEv; simp only; rw [lookupLevel_eq s T' st.cur id hi hp]
        cases hf : findH (s.ensure T').handlers h with
        | none =>
          rw [hf] at hreg hgot
          simp only [Option.isSome_none] at hreg
          simp only [Option.map_none]
          rw [← hreg]; simpa using hgot
        | some x =>
          rw [hf] at hreg hgot
          simp only [Option.isSome_some] at hreg
          simp only [Option.map_some]
          rw [← hreg, hev]
          simp only [↓reduceIte]
          rw [← hgot, List.append_assoc]
          rfl
    · have hne : T ≠ T' := Ne.symm e
      constructor
      · rw [isReg_set_other _ _ _ _ _ hne]
        simp only [specStep, regStep]; exact r.reg
      · rw [delivered_eq, fromClosed_set, live_set_other _ _ _ _ _ hne, ← delivered_eq]
        have : (T' == T) = false := by simpa using e
        simp only [specStep, this, Bool.false_and, Bool.false_eq_true, ↓reduceIte]
        exact r.got

theorem drel_same_handlers (T' : String) (t' : Topic) (op : Op)
    (ht : t'.handlers = (s.ensure T').handlers) (hd : DInv s) (r : DRel s st T h)
    (hreg : regStep T h st.registered op = st.registered)
    (hgot : (specStep T h st op).got = st.got) :
    DInv (s.set T' t') ∧ DRel (s.set T' t') (specStep T h st op) T h := by
  have hin := hinv_ensure s T' hd
  constructor
  · apply dinv_set _ _ _ hd
    unfold HInv at hin ⊢; rw [ht]; exact hin
  · by_cases e : T' = T
    · subst e
      constructor
      · rw [isReg_set_same, ht, ← isReg_ensure]
        show _ = regStep T' h st.registered op
        rw [hreg]; exact r.reg
      · rw [delivered_eq, fromClosed_set, live_set_same, ht, ← live_ensure, ← delivered_eq, hgot]; exact r.got
    · have hne : T ≠ T' := Ne.symm e
      constructor
      · rw [isReg_set_other _ _ _ _ _ hne]
        show _ = regStep T h st.registered op
        rw [hreg]; exact r.reg
      · rw [delivered_eq, fromClosed_set, live_set_other _ _ _ _ _ hne, ← delivered_eq, hgot]; exact r.got

end steps
end Kap.C09
