/-
C09 helper lemmas, part 6: remove / add / delete steps and the induction over histories.
-/
import Kap.Proofs.C09Delivery2
namespace Kap.C09

theorem dinv_closed (s : Topics) (cl : List (String × List Ev)) (hd : DInv s) : DInv { s with closed := cl } :=
  fun T t hg => hd T t hg

theorem isReg_closed (s : Topics) (cl : List (String × List Ev)) (T h : String) :
    isReg { s with closed := cl } T h = isReg s T h := rfl

theorem live_closed (s : Topics) (cl : List (String × List Ev)) (T h : String) :
    ({ s with closed := cl } : Topics).live T h = s.live T h := rfl

/-- `removeHandler`: the handler (if registered) moves to the closed log with everything it received. -/
theorem remove_step (s : Topics) (T' h' T h : String) (hd : DInv s) :
    DInv (s.removeHandler T' h') ∧
    isReg (s.removeHandler T' h') T h = (if T' = T ∧ h = h' then false else isReg s T h) ∧
    (s.removeHandler T' h').delivered T h = s.delivered T h := by
  have hin := hinv_ensure s T' hd
  have hnd' := removeSwap_nodup h' (s.ensure T').handlers hin.1
  have hin' : HInv T' { (s.ensure T') with handlers := (removeSwap h' (s.ensure T').handlers).1 } := by
    refine ⟨hnd', ?_⟩
    intro x hx e he
    exact hin.2 x ((removeSwap_mem h' _ hin.1 x).mp hx).1 e he
  have hsnd := removeSwap_snd h' (s.ensure T').handlers
  have hfind := removeSwap_find h' h (s.ensure T').handlers hin.1
  unfold Topics.removeHandler
  simp only
  cases hrm : (removeSwap h' (s.ensure T').handlers).2 with
  | none =>
    rw [hsnd] at hrm
    simp only
    refine ⟨dinv_set _ _ _ hd hin', ?_, ?_⟩
    · by_cases e : T' = T
      · subst e
        rw [isReg_set_same, hfind, isReg_ensure]
        by_cases e2 : h = h'
        · subst e2; simp [hrm]
        · simp [e2]
      · rw [isReg_set_other _ _ _ _ _ (Ne.symm e)]; simp [e]
    · rw [delivered_eq, delivered_eq, fromClosed_set]
      congr 1
      by_cases e : T' = T
      · subst e
        rw [live_set_same, hfind, live_ensure]
        by_cases e2 : h = h'
        · subst e2; simp [hrm]
        · simp [e2]
      · rw [live_set_other _ _ _ _ _ (Ne.symm e)]
  | some x =>
    rw [hsnd] at hrm
    obtain ⟨hxm, hxid⟩ := findH_some hrm
    simp only
    refine ⟨dinv_closed _ _ (dinv_set _ _ _ hd hin'), ?_, ?_⟩
    · rw [isReg_closed]
      by_cases e : T' = T
      · subst e
        rw [isReg_set_same, hfind, isReg_ensure]
        by_cases e2 : h = h'
        · subst e2; simp
        · simp [e2]
      · rw [isReg_set_other _ _ _ _ _ (Ne.symm e)]; simp [e]
    · rw [delivered_eq, delivered_eq, live_closed, fromClosed_append, fromClosed_set]
      by_cases e : T' = T
      · subst e
        rw [live_set_same, hfind, live_ensure]
        by_cases e2 : h = h'
        · subst e2
          rw [hrm]
          simp only [↓reduceIte, List.append_nil, hxid, beq_self_eq_true, List.filter_cons_of_pos,
            List.filter_nil, List.flatMap_cons, List.flatMap_nil]
          rw [filter_topic_self (hin.2 x hxm)]
        · have : (x.hid == h) = false := by rw [hxid]; simpa using Ne.symm e2
          simp [e2, this]
      · rw [live_set_other _ _ _ _ _ (Ne.symm e)]
        have : (([(x.hid, x.got)] : List (String × List Ev)).filter (fun p => p.1 == h)).flatMap
            (fun p => p.2.filter (fun ev => ev.topic == T)) = [] := by
          by_cases e3 : (x.hid == h) = true
          · simp only [e3, List.filter_cons_of_pos, List.filter_nil, List.flatMap_cons, List.flatMap_nil,
              List.append_nil]
            exact filter_topic_other (hin.2 x hxm) (Ne.symm e)
          · have : (x.hid == h) = false := by simpa using e3
            simp [this]
        rw [this, List.append_nil]

/-- `addHandler`: a fresh registration has received nothing yet. -/
theorem add_step (s : Topics) (T' h' T h : String) (hd : DInv s) :
    DInv (s.addHandler T' h') ∧
    isReg (s.addHandler T' h') T h = (if T' = T ∧ h = h' then true else isReg s T h) ∧
    (s.addHandler T' h').delivered T h = s.delivered T h := by
  have hin := hinv_ensure s T' hd
  unfold Topics.addHandler
  refine ⟨dinv_set _ _ _ hd (addHandler_hinv T' _ h' hin), ?_, ?_⟩
  · by_cases e : T' = T
    · subst e
      rw [isReg_set_same, addHandler_find, isReg_ensure]
      by_cases e2 : h = h'
      · subst e2
        cases hf : findH (s.ensure T').handlers h <;> simp
      · simp [e2]
    · rw [isReg_set_other _ _ _ _ _ (Ne.symm e)]; simp [e]
  · rw [delivered_eq, delivered_eq, fromClosed_set]
    congr 1
    by_cases e : T' = T
    · subst e
      rw [live_set_same, addHandler_find, live_ensure]
      by_cases e2 : h = h'
      · subst e2
        cases hf : findH (s.ensure T').handlers h <;> simp
      · simp [e2]
    · rw [live_set_other _ _ _ _ _ (Ne.symm e)]

theorem get_ensure {s : Topics} {T : String} (hg : s.get T = none) : s.ensure T = {} := by
  unfold Topics.ensure; rw [hg]; rfl

/-- `DeleteTopic`: every handler of the topic is closed. -/
theorem deltopic_step (s : Topics) (T' T h : String) (hd : DInv s) :
    DInv (step s (.deltopic T')) ∧
    isReg (step s (.deltopic T')) T h = (if T' = T then false else isReg s T h) ∧
    (step s (.deltopic T')).delivered T h = s.delivered T h := by
  simp only [step, stepWith]
  cases hg : s.get T' with
  | none =>
    simp only
    refine ⟨hd, ?_, ?_⟩
    · by_cases e : T' = T
      · subst e; simp [isReg, hg]
      · simp [e]
    · first | rfl | trivial
  | some t =>
    simp only
    have hin := hd T' t hg
    refine ⟨?_, ?_, ?_⟩
    · intro T2 t2 hg2
      by_cases e : T2 = T'
      · subst e; rw [get_filter_same] at hg2; cases hg2
      · rw [get_filter_other _ _ _ _ e] at hg2; exact hd T2 t2 hg2
    · unfold isReg
      by_cases e : T' = T
      · subst e; rw [get_filter_same]; simp
      · rw [get_filter_other _ _ _ _ (Ne.symm e)]; simp [e]
    · rw [delivered_eq, delivered_eq]
      have hfc : ({ topics := s.topics.filter (fun p => p.1 != T'),
                    closed := s.closed ++ t.handlers.map (fun h => (h.hid, h.got)) } : Topics).fromClosed T h =
          s.fromClosed T h ++ ((t.handlers.map (fun h => (h.hid, h.got))).filter (fun p => p.1 == h)).flatMap
            (fun p => p.2.filter (fun e => e.topic == T)) := by
        unfold Topics.fromClosed
        simp only [List.filter_append, List.flatMap_append]
      rw [hfc]
      have hfl : ((t.handlers.map (fun h => (h.hid, h.got))).filter (fun p => p.1 == h)) =
          (t.handlers.filter (fun x => x.hid == h)).map (fun h => (h.hid, h.got)) := by
        rw [List.filter_map]; rfl
      rw [hfl, filter_eq_find _ _ hin.1]
      by_cases e : T' = T
      · subst e
        have hl : ({ topics := s.topics.filter (fun p => p.1 != T'),
                     closed := s.closed ++ t.handlers.map (fun h => (h.hid, h.got)) } : Topics).live T' h = [] := by
          rw [live_eq, get_filter_same]
        rw [hl, live_eq, hg, List.append_nil]
        cases hf : findH t.handlers h with
        | none => simp [hf]
        | some x =>
          simp only [hf, Option.toList_some, List.map_cons, List.map_nil, List.flatMap_cons, List.flatMap_nil,
            List.append_nil]
          rw [filter_topic_self (hin.2 x (findH_some hf).1)]
      · have hl : ({ topics := s.topics.filter (fun p => p.1 != T'),
                     closed := s.closed ++ t.handlers.map (fun h => (h.hid, h.got)) } : Topics).live T h = s.live T h := by
          rw [live_eq, live_eq, get_filter_other _ _ _ _ (Ne.symm e)]
        rw [hl]
        cases hf : findH t.handlers h with
        | none => simp
        | some x =>
          simp only [Option.toList_some, List.map_cons, List.map_nil, List.flatMap_cons, List.flatMap_nil,
            List.append_nil]
          rw [filter_topic_other (hin.2 x (findH_some hf).1) (Ne.symm e), List.append_nil]

/-- One step of the simulation, any operation. -/
theorem drel_step (s : Topics) (st : SpecSt) (T h : String) (op : Op) (hd : DInv s)
    (hi : TInv (s.ensure T)) (hp : (s.ensure T).sorted.Perm st.cur) (r : DRel s st T h) :
    DInv (step s op) ∧ DRel (step s op) (specStep T h st op) T h := by
  cases op with
  | collect T' id level time => exact drel_collect s st T h T' id level time hd hi hp r
  | update T' id level time =>
    simp only [step, stepWith]
    exact drel_same_handlers s st T h T' _ (.update T' id level time) (updateEvent_handlers _ _) hd r rfl rfl
  | restore T' states =>
    simp only [step, stepWith]
    exact drel_same_handlers s st T h T' _ (.restore T' states) rfl hd r rfl rfl
  | reg T' h' =>
    simp only [step, stepWith]
    obtain ⟨h1, h2, h3⟩ := add_step s T' h' T h hd
    refine ⟨h1, ⟨?_, ?_⟩⟩
    · rw [h2, r.reg]; simp only [specStep, regStep]
      by_cases e : T' = T
      · by_cases e2 : h' = h
        · subst e2; simp [e]
        · have e2s : ¬ h = h' := fun x => e2 x.symm
          simp [e, e2, e2s]
      · simp [e]
    · rw [h3]; exact r.got
  | dereg T' h' =>
    simp only [step, stepWith]
    cases hg : s.get T' with
    | none =>
      simp only
      refine ⟨hd, ⟨?_, r.got⟩⟩
      simp only [specStep, regStep]
      by_cases e : T' = T
      · subst e
        have : isReg s T' h = false := by simp [isReg, hg]
        rw [← r.reg, this]; simp
      · rw [r.reg]; simp [e]
    | some t =>
      simp only
      obtain ⟨h1, h2, h3⟩ := remove_step s T' h' T h hd
      refine ⟨h1, ⟨?_, ?_⟩⟩
      · rw [h2, r.reg]; simp only [specStep, regStep]
        by_cases e : T' = T
        · by_cases e2 : h' = h
          · subst e2; simp [e]
          · have e2s : ¬ h = h' := fun x => e2 x.symm
            simp [e, e2, e2s]
        · simp [e]
      · rw [h3]; exact r.got
  | replace T' old new =>
    simp only [step, stepWith]
    obtain ⟨h1, h2, h3⟩ := remove_step s T' old T h hd
    obtain ⟨k1, k2, k3⟩ := add_step (s.removeHandler T' old) T' new T h h1
    refine ⟨k1, ⟨?_, ?_⟩⟩
    · rw [k2, h2, r.reg]; simp only [specStep, regStep]
      by_cases e : T' = T
      · by_cases e2 : new = h
        · subst e2; simp [e]
        · have e2s : ¬ h = new := fun x => e2 x.symm
          by_cases e3 : old = h
          · subst e3; simp [e, e2, e2s]
          · have e3s : ¬ h = old := fun x => e3 x.symm
            simp [e, e2, e2s, e3, e3s]
      · simp [e]
    · rw [k3, h3]; exact r.got
  | deltopic T' =>
    obtain ⟨h1, h2, h3⟩ := deltopic_step s T' T h hd
    refine ⟨h1, ⟨?_, ?_⟩⟩
    · rw [h2, r.reg]; simp only [specStep, regStep]
      by_cases e : T' = T <;> simp [e]
    · rw [h3]; exact r.got

theorem specStep_cur (T h : String) (st : SpecSt) (op : Op) : (specStep T h st op).cur = curStep T st.cur op := rfl

theorem drel_foldl (ops : List Op) (hwf : ∀ op ∈ ops, op.wf = true) (s : Topics) (c : String → List ES)
    (st : SpecSt) (T h : String) (hd : DInv s) (hr : Rel s c) (hc : st.cur = c T) (r : DRel s st T h) :
    DRel (ops.foldl step s) (ops.foldl (specStep T h) st) T h := by
  induction ops generalizing s c st with
  | nil => simpa using r
  | cons op ops ih =>
    simp only [List.foldl_cons]
    have hrel := hr T
    rw [← hc] at hrel
    obtain ⟨h1, h2⟩ := drel_step s st T h op hd hrel.1 hrel.2 r
    exact ih (fun o ho => hwf o (List.mem_cons_of_mem _ ho)) _ (fun T => curStep T (c T) op) _ h1
      (rel_step s c op (hwf op List.mem_cons_self) hr) (by rw [specStep_cur, hc]) h2

theorem dinv_init : DInv {} := by
  intro T t hg; simp [Topics.get] at hg

theorem drel_init (T h : String) : DRel {} {} T h := ⟨rfl, rfl⟩

theorem drel_run (ops : List Op) (hwf : ∀ op ∈ ops, op.wf = true) (T h : String) :
    DRel (run ops) (specRun T h ops) T h :=
  drel_foldl ops hwf {} (fun _ => []) {} T h dinv_init rel_init rfl (drel_init T h)

end Kap.C09
