/-
Helper lemmas for Kap/Props/C09Drain.lean: the invariant of the concurrent model (one registration per handler and
topic, live or closing; what a handler has entered followed by what is still queued for it is what the sequential
history specification delivers along the linearisation `hist`; the log of its calls is bracketed) and its
preservation by every step of the locked model.
-/
import Kap.Model.C09Drain
namespace Kap.C09.Drain
open Kap.C09

/-! ### lists of registrations -/

/-- the queue of `r` if it is a registration of `h` -/
def pq (h : String) (r : Reg) : List Ev := if r.hid == h then r.queue else []

theorem pendingOf_eq (t : Top) (h : String) : pendingOf t h = (t.closing ++ t.regs).flatMap (pq h) := by
  unfold pendingOf
  generalize t.closing ++ t.regs = l
  induction l with
  | nil => rfl
  | cons r rest ih =>
    by_cases hr : r.hid == h
    · simp [List.filter_cons, hr, pq, ih]
    · simp [List.filter_cons, hr, pq, ih]

def hids (l : List Reg) : List String := l.map (·.hid)

theorem pq_nil_of_not_mem (h : String) (l : List Reg) (hn : h ∉ hids l) : l.flatMap (pq h) = [] := by
  induction l with
  | nil => rfl
  | cons r rest ih =>
    have h1 : r.hid ≠ h := fun e => hn (by simp [hids, ← e])
    have h2 : h ∉ hids rest := fun m => hn (by simp [hids] at m ⊢; exact Or.inr m)
    simp [pq, h1, ih h2]

theorem any_iff_mem (h : String) (l : List Reg) : l.any (fun r => r.hid == h) = true ↔ h ∈ hids l := by
  simp [hids, List.any_eq_true]

/-- queueing an event on every registration: handler `h` gets it iff it is registered -/
theorem pq_enqueue (h : String) (ev : Ev) (l : List Reg) (hnd : (hids l).Nodup) :
    (l.map (fun r => { r with queue := r.queue ++ [ev] })).flatMap (pq h)
      = l.flatMap (pq h) ++ (if l.any (fun r => r.hid == h) then [ev] else []) := by
  induction l with
  | nil => simp
  | cons r rest ih =>
    have hnd' : (hids rest).Nodup := by simp [hids] at hnd ⊢; exact hnd.2
    have hnot : r.hid ∉ hids rest := by simp [hids] at hnd ⊢; exact hnd.1
    by_cases hr : r.hid = h
    · subst hr
      have e1 : rest.flatMap (pq r.hid) = [] := pq_nil_of_not_mem _ _ hnot
      have e2 : (rest.map (fun r => { r with queue := r.queue ++ [ev] })).flatMap (pq r.hid) = [] := by
        apply pq_nil_of_not_mem
        simpa [hids, List.map_map, Function.comp_def] using hnot
      simp [pq, e1, e2]
    · have hr' : (r.hid == h) = false := by simpa using hr
      simp only [List.map_cons, List.flatMap_cons, List.any_cons, pq, hr', Bool.false_or, List.nil_append]
      exact ih hnd'
      all_goals simp

theorem hids_enqueue (ev : Ev) (l : List Reg) :
    hids (l.map (fun r => { r with queue := r.queue ++ [ev] })) = hids l := by
  simp [hids, List.map_map, Function.comp_def]

theorem any_enqueue (h : String) (ev : Ev) (l : List Reg) :
    (l.map (fun r => { r with queue := r.queue ++ [ev] })).any (fun r => r.hid == h) = l.any (fun r => r.hid == h) := by
  simp [List.any_map, Function.comp_def]

/-- removing the registrations of another handler changes nothing for `h` -/
theorem pq_filter_other (h h' : String) (hne : h ≠ h') (l : List Reg) :
    (l.filter (fun x => !(x.hid == h'))).flatMap (pq h) = l.flatMap (pq h) := by
  induction l with
  | nil => rfl
  | cons r rest ih =>
    by_cases hr : r.hid = h'
    · have e : pq h r = [] := by
        have : r.hid ≠ h := fun e => hne (e ▸ hr)
        simp [pq, this]
      rw [List.filter_cons_of_neg (by simp [hr]), List.flatMap_cons, e, ih]; rfl
    · rw [List.filter_cons_of_pos (by simp [hr]), List.flatMap_cons, List.flatMap_cons, ih]

theorem pq_filter_same (h : String) (l : List Reg) :
    (l.filter (fun x => !(x.hid == h))).flatMap (pq h) = [] := by
  apply pq_nil_of_not_mem
  simp [hids]

theorem pq_unique (h : String) (l : List Reg) (hnd : (hids l).Nodup) (r : Reg)
    (hf : l.find? (fun x => x.hid == h) = some r) : l.flatMap (pq h) = r.queue := by
  induction l with
  | nil => simp at hf
  | cons x rest ih =>
    have hnd' : (hids rest).Nodup := by simp [hids] at hnd ⊢; exact hnd.2
    have hnot : x.hid ∉ hids rest := by simp [hids] at hnd ⊢; exact hnd.1
    by_cases hx : x.hid = h
    · subst hx
      simp [List.find?_cons] at hf
      subst hf
      simp [pq, pq_nil_of_not_mem _ _ hnot]
    · have hx' : (x.hid == h) = false := by simpa using hx
      simp [List.find?_cons, hx'] at hf
      simp [pq, hx', ih hnd' hf]

theorem find_none_iff (h : String) (l : List Reg) : l.find? (fun x => x.hid == h) = none ↔ h ∉ hids l := by
  simp [hids, List.find?_eq_none]

theorem find_some_hid (h : String) (l : List Reg) (r : Reg) (hf : l.find? (fun x => x.hid == h) = some r) :
    r.hid = h ∧ r ∈ l := by
  have := List.find?_some hf
  exact ⟨by simpa using this, List.mem_of_find?_eq_some hf⟩

/-- closing registrations that are drained carry nothing -/
theorem pq_filter_idle (h h' : String) (l : List Reg) :
    (l.filter (fun r => !(r.hid == h' && r.idle))).flatMap (pq h) = l.flatMap (pq h) := by
  induction l with
  | nil => rfl
  | cons r rest ih =>
    by_cases hr : (r.hid == h' && r.idle) = true
    · have hq : r.queue = [] := by
        simp [Reg.idle] at hr
        exact hr.2.1
      have e : pq h r = [] := by simp [pq, hq]
      rw [List.filter_cons_of_neg (by simp [hr]), List.flatMap_cons, e, ih]; rfl
    · have hr' : (r.hid == h' && r.idle) = false := by simpa using hr
      rw [List.filter_cons_of_pos (by simp [hr']), List.flatMap_cons, List.flatMap_cons, ih]

theorem hids_modFirst (p : Reg → Bool) (f : Reg → Reg) (hf : ∀ r, (f r).hid = r.hid) (l : List Reg) :
    hids (modFirst p f l) = hids l := by
  induction l with
  | nil => rfl
  | cons r rest ih =>
    unfold modFirst
    by_cases hp : p r
    · simp [hp, hids, hf]
    · simp only [hp]
      simp only [hids, List.map_cons] at ih ⊢
      simp [ih]

theorem any_modFirst (h : String) (p : Reg → Bool) (f : Reg → Reg) (hf : ∀ r, (f r).hid = r.hid) (l : List Reg) :
    (modFirst p f l).any (fun r => r.hid == h) = l.any (fun r => r.hid == h) := by
  have := hids_modFirst p f hf l
  have e1 : ∀ l : List Reg, l.any (fun r => r.hid == h) = (hids l).any (fun x => x == h) := by
    intro l; simp [hids, List.any_map, Function.comp_def]
  rw [e1, e1, this]

/-- a step of another handler's goroutine changes nothing for `h` -/
theorem pq_modFirst_other (h h' : String) (hne : h ≠ h') (f : Reg → Reg) (hf : ∀ r, (f r).hid = r.hid) (l : List Reg) :
    (modFirst (fun x => x.hid == h') f l).flatMap (pq h) = l.flatMap (pq h) := by
  induction l with
  | nil => rfl
  | cons r rest ih =>
    unfold modFirst
    by_cases hp : r.hid = h'
    · have h1 : (r.hid == h) = false := by
        have : r.hid ≠ h := fun e => hne (e ▸ hp)
        simpa using this
      have h2 : ((f r).hid == h) = false := by rw [hf]; exact h1
      have hp' : (r.hid == h') = true := by simpa using hp
      simp only [hp', if_true, List.flatMap_cons, pq, h1, h2]
      simp
    · have hp' : (r.hid == h') = false := by simpa using hp
      simp only [hp', Bool.false_eq_true, if_false, List.flatMap_cons, ih]

/-- a step that leaves the queue alone changes nothing -/
theorem pq_modFirst_keep (h : String) (p : Reg → Bool) (f : Reg → Reg) (hf : ∀ r, (f r).hid = r.hid)
    (hq : ∀ r, (f r).queue = r.queue) (l : List Reg) :
    (modFirst p f l).flatMap (pq h) = l.flatMap (pq h) := by
  induction l with
  | nil => rfl
  | cons r rest ih =>
    unfold modFirst
    by_cases hp : p r
    · simp [hp, pq, hf, hq]
    · simp [hp, ih]

/-- the goroutine of `h`'s registration takes the head of its queue -/
theorem pq_modFirst_take (h : String) (l : List Reg) (r : Reg) (ev : Ev) (rest : List Ev) (b : Option Ev)
    (hf : l.find? (fun x => x.hid == h) = some r) (hq : r.queue = ev :: rest) :
    l.flatMap (pq h) = ev :: (modFirst (fun x => x.hid == h) (fun x => { x with queue := rest, busy := b }) l).flatMap (pq h) := by
  induction l with
  | nil => simp at hf
  | cons x xs ih =>
    unfold modFirst
    by_cases hx : x.hid = h
    · have hx' : (x.hid == h) = true := by simpa using hx
      simp [List.find?_cons, hx'] at hf
      subst hf
      simp [hx', pq, hq]
    · have hx' : (x.hid == h) = false := by simpa using hx
      simp [List.find?_cons, hx'] at hf
      simp [hx', pq, ih hf]

/-! ### the call a handler is inside of -/

/-- the event the (first) registration of `h` in `l` is inside `Handle` with -/
def bz (h : String) (l : List Reg) : Option Ev := (l.find? (fun x => x.hid == h)).bind (·.busy)

def busyOf (t : Top) (h : String) : Option Ev := bz h (t.closing ++ t.regs)

theorem bz_nil_of_not_mem (h : String) (l : List Reg) (hn : h ∉ hids l) : bz h l = none := by
  simp [bz, (find_none_iff h l).mpr hn]

theorem bz_enqueue (h : String) (ev : Ev) (l : List Reg) :
    bz h (l.map (fun r => { r with queue := r.queue ++ [ev] })) = bz h l := by
  induction l with
  | nil => rfl
  | cons r rest ih =>
    by_cases hr : (r.hid == h) = true
    · simp [bz, List.find?_cons, hr]
    · have hr' : (r.hid == h) = false := by simpa using hr
      simp only [bz, List.map_cons, List.find?_cons, hr'] at ih ⊢
      exact ih

theorem bz_append_new (h : String) (l : List Reg) (n : Reg) (hb : n.busy = none) : bz h (l ++ [n]) = bz h l := by
  induction l with
  | nil => by_cases hn : (n.hid == h) = true <;> simp [bz, List.find?_cons, hn, hb]
  | cons r rest ih =>
    by_cases hr : (r.hid == h) = true
    · simp [bz, List.find?_cons, hr]
    · have hr' : (r.hid == h) = false := by simpa using hr
      simp only [bz, List.cons_append, List.find?_cons, hr'] at ih ⊢
      exact ih

theorem bz_filter_other (h h' : String) (hne : h ≠ h') (l : List Reg) :
    bz h (l.filter (fun x => !(x.hid == h'))) = bz h l := by
  induction l with
  | nil => rfl
  | cons r rest ih =>
    by_cases hr : r.hid = h'
    · have h1 : (r.hid == h) = false := by
        have : r.hid ≠ h := fun e => hne (e ▸ hr)
        simpa using this
      rw [List.filter_cons_of_neg (by simp [hr])]
      simp only [bz, List.find?_cons, h1] at ih ⊢
      exact ih
    · rw [List.filter_cons_of_pos (by simp [hr])]
      by_cases h1 : (r.hid == h) = true
      · simp [bz, List.find?_cons, h1]
      · have h1' : (r.hid == h) = false := by simpa using h1
        simp only [bz, List.find?_cons, h1'] at ih ⊢
        exact ih

/-- dropping registrations that are inside no call, from the front part of a list with one registration per handler -/
theorem bz_filter_front (h : String) (keep : Reg → Bool) (l1 l2 : List Reg) (hnd : (hids (l1 ++ l2)).Nodup)
    (hdrop : ∀ r ∈ l1, keep r = false → r.busy = none) :
    bz h (l1.filter keep ++ l2) = bz h (l1 ++ l2) := by
  induction l1 with
  | nil => rfl
  | cons x xs ih =>
    have hnd' : (hids (xs ++ l2)).Nodup := by simp [hids] at hnd ⊢; exact hnd.2
    have hnot : x.hid ∉ hids (xs ++ l2) := by
      simp only [hids, List.cons_append, List.map_cons, List.nodup_cons] at hnd ⊢; exact hnd.1
    have ih' := ih hnd' (fun r hr => hdrop r (List.mem_cons_of_mem _ hr))
    by_cases hk : keep x = true
    · rw [List.filter_cons_of_pos hk]
      by_cases hx : (x.hid == h) = true
      · simp [bz, List.find?_cons, hx]
      · have hx' : (x.hid == h) = false := by simpa using hx
        simp only [bz, List.cons_append, List.find?_cons, hx'] at ih' ⊢
        exact ih'
    · have hk' : keep x = false := by simpa using hk
      rw [List.filter_cons_of_neg hk]
      by_cases hx : x.hid = h
      · have hb := hdrop x (List.mem_cons_self) hk'
        have hx' : (x.hid == h) = true := by simpa using hx
        have hn1 : h ∉ hids (xs.filter keep ++ l2) := by
          intro hm
          apply hnot
          rw [hx]
          simp only [hids, List.map_append, List.mem_append, List.mem_map] at hm ⊢
          rcases hm with ⟨r, hr, e⟩ | hm
          · exact Or.inl ⟨r, (List.mem_filter.mp hr).1, e⟩
          · exact Or.inr hm
        rw [bz_nil_of_not_mem _ _ hn1]
        simp [bz, List.find?_cons, hx', hb]
      · have hx' : (x.hid == h) = false := by simpa using hx
        simp only [bz, List.cons_append, List.find?_cons, hx'] at ih' ⊢
        exact ih'

theorem find_modFirst (h : String) (f : Reg → Reg) (hf : ∀ r, (f r).hid = r.hid) (l : List Reg) :
    (modFirst (fun x => x.hid == h) f l).find? (fun x => x.hid == h) = (l.find? (fun x => x.hid == h)).map f := by
  induction l with
  | nil => rfl
  | cons r rest ih =>
    unfold modFirst
    by_cases hr : (r.hid == h) = true
    · have : ((f r).hid == h) = true := by rw [hf]; exact hr
      simp [hr, List.find?_cons, this]
    · have hr' : (r.hid == h) = false := by simpa using hr
      simp only [hr', Bool.false_eq_true, if_false, List.find?_cons, ih]

theorem find_modFirst_other (h h' : String) (hne : h ≠ h') (f : Reg → Reg) (hf : ∀ r, (f r).hid = r.hid) (l : List Reg) :
    bz h (modFirst (fun x => x.hid == h') f l) = bz h l := by
  induction l with
  | nil => rfl
  | cons r rest ih =>
    unfold modFirst
    by_cases hr : r.hid = h'
    · have h1 : (r.hid == h) = false := by
        have : r.hid ≠ h := fun e => hne (e ▸ hr)
        simpa using this
      have h2 : ((f r).hid == h) = false := by rw [hf]; exact h1
      have hr' : (r.hid == h') = true := by simpa using hr
      simp [hr', bz, List.find?_cons, h1, h2]
    · have hr' : (r.hid == h') = false := by simpa using hr
      simp only [hr', Bool.false_eq_true, if_false]
      by_cases h1 : (r.hid == h) = true
      · simp [bz, List.find?_cons, h1]
      · have h1' : (r.hid == h) = false := by simpa using h1
        simp only [bz, List.find?_cons, h1'] at ih ⊢
        exact ih

theorem bz_append (h : String) (l1 l2 : List Reg) :
    bz h (l1 ++ l2) = match l1.find? (fun x => x.hid == h) with
      | some r => r.busy
      | none => bz h l2 := by
  unfold bz
  rw [List.find?_append]
  cases l1.find? (fun x => x.hid == h) <;> simp

/-! ### the bracket check as a fold -/

def brStep (T h : String) (cur : Option Ev) : LogE → Option (Option Ev)
  | .enter T' h' ev => if T' = T ∧ h' = h then (if cur.isNone then some (some ev) else none) else some cur
  | .exit T' h' ev => if T' = T ∧ h' = h then (if cur == some ev then some none else none) else some cur

def brState (T h : String) (cur : Option Ev) : List LogE → Option (Option Ev)
  | [] => some cur
  | e :: rest => (brStep T h cur e).bind (fun c => brState T h c rest)

theorem bracketedFrom_eq (T h : String) (log : List LogE) (cur : Option Ev) :
    bracketedFrom T h cur log = (brState T h cur log).isSome := by
  induction log generalizing cur with
  | nil => rfl
  | cons e rest ih =>
    cases e with
    | enter T' h' ev =>
      by_cases hc : T' = T ∧ h' = h
      · cases cur <;> simp [bracketedFrom, brState, brStep, hc, ih]
      · simp [bracketedFrom, brState, brStep, hc, ih]
    | exit T' h' ev =>
      by_cases hc : T' = T ∧ h' = h
      · by_cases he : cur = some ev
        · simp [bracketedFrom, brState, brStep, hc, ih, he]
        · have : (cur == some ev) = false := by simpa using he
          simp [bracketedFrom, brState, brStep, hc, this]
      · simp [bracketedFrom, brState, brStep, hc, ih]

theorem brState_snoc (T h : String) (log : List LogE) (e : LogE) (cur : Option Ev) :
    brState T h cur (log ++ [e]) = (brState T h cur log).bind (fun c => brStep T h c e) := by
  induction log generalizing cur with
  | nil => simp [brState]
  | cons x rest ih =>
    simp only [List.cons_append, brState]
    cases brStep T h cur x with
    | none => rfl
    | some c => simp [ih]

theorem entered_snoc_enter (log : List LogE) (T h T' h' : String) (ev : Ev) :
    entered (log ++ [.enter T' h' ev]) T h = entered log T h ++ (if T' = T ∧ h' = h then [ev] else []) := by
  unfold entered
  rw [List.filterMap_append]
  by_cases hc : T' = T ∧ h' = h <;> simp [hc]

theorem entered_snoc_exit (log : List LogE) (T h T' h' : String) (ev : Ev) :
    entered (log ++ [.exit T' h' ev]) T h = entered log T h := by
  unfold entered
  rw [List.filterMap_append]
  simp

/-! ### the sequential specification along a growing history -/

theorem specRun_snoc (T h : String) (ops : List Op) (op : Op) :
    specRun T h (ops ++ [op]) = specStep T h (specRun T h ops) op := by
  simp [specRun, List.foldl_append]

/-! ### the invariant -/

structure Inv (s : St) : Prop where
  /-- one registration per handler and topic, live or closing -/
  nodup : ∀ T, (hids ((s.top T).closing ++ (s.top T).regs)).Nodup
  cur : ∀ T h, (specRun T h s.hist).cur = (s.top T).cur
  reg : ∀ T h, (s.top T).regs.any (fun r => r.hid == h) = (specRun T h s.hist).registered
  /-- entered, then queued = delivered by the specification along the linearisation -/
  got : ∀ T h, entered s.log T h ++ ((s.top T).closing ++ (s.top T).regs).flatMap (pq h) = (specRun T h s.hist).got
  /-- the log is bracketed and the open call is the one the registration is busy with -/
  brk : ∀ T h, brState T h none s.log = some (busyOf (s.top T) h)

theorem inv_init (f : String → Bool) : Inv { free := f } := by
  constructor <;> intros <;> simp [hids, specRun, entered, brState, busyOf, bz]
  all_goals rfl

/-- steps that touch neither topics, log nor history -/
theorem inv_frame {s s' : St} (ht : s'.top = s.top) (hl : s'.log = s.log) (hh : s'.hist = s.hist) (hi : Inv s) : Inv s' := by
  constructor
  · intro T; rw [ht]; exact hi.nodup T
  · intro T h; rw [ht, hh]; exact hi.cur T h
  · intro T h; rw [ht, hh]; exact hi.reg T h
  · intro T h; rw [ht, hh, hl]; exact hi.got T h
  · intro T h; rw [ht, hl]; exact hi.brk T h

theorem closing_nil_of_free {t : Top} (h : tmuFree true t = true) : t.closing = [] := by
  simpa [tmuFree] using h

theorem setTop_same (s : St) (T : String) (t : Top) : (s.setTop T t).top T = t := by simp [St.setTop]
theorem setTop_other (s : St) (T T' : String) (t : Top) (h : T' ≠ T) : (s.setTop T t).top T' = s.top T' := by
  simp [St.setTop, h]

theorem doCollect_top_same (s : St) (T id : String) (level : Nat) (time : Int) :
    (doCollect s T id level time).top T =
      { s.top T with cur := upsert (s.top T).cur { id := id, level := level, time := time },
                     regs := (s.top T).regs.map (fun r => { r with queue := r.queue ++
                       [{ topic := T, id := id, level := level, time := time, prev := lookupLevel (s.top T).cur id }] }) } := by
  simp [doCollect, St.setTop]
theorem doCollect_top_other (s : St) (T T' id : String) (level : Nat) (time : Int) (h : T' ≠ T) :
    (doCollect s T id level time).top T' = s.top T' := by simp [doCollect, St.setTop, h]
theorem doCollect_log (s : St) (T id : String) (level : Nat) (time : Int) : (doCollect s T id level time).log = s.log := rfl
theorem doCollect_hist (s : St) (T id : String) (level : Nat) (time : Int) :
    (doCollect s T id level time).hist = s.hist ++ [.collect T id level time] := rfl

theorem specStep_collect_other (T T' h id : String) (level : Nat) (time : Int) (st : SpecSt) (hT : T' ≠ T) :
    specStep T' h st (.collect T id level time) = st := by
  have : (T == T') = false := by simpa using (fun e => hT e.symm)
  simp [specStep, curStep, regStep, this]
theorem specStep_reg_other (T T' h h' : String) (st : SpecSt) (hT : T' ≠ T) : specStep T' h st (.reg T h') = st := by
  have : (T == T') = false := by simpa using (fun e => hT e.symm)
  simp [specStep, curStep, regStep, this]
theorem specStep_dereg_other (T T' h h' : String) (st : SpecSt) (hT : T' ≠ T) : specStep T' h st (.dereg T h') = st := by
  have : (T == T') = false := by simpa using (fun e => hT e.symm)
  simp [specStep, curStep, regStep, this]

theorem inv_doCollect {s : St} (T id : String) (level : Nat) (time : Int) (hfree : tmuFree true (s.top T) = true)
    (hi : Inv s) : Inv (doCollect s T id level time) := by
  have hc := closing_nil_of_free hfree
  have hnd : (hids (s.top T).regs).Nodup := by have := hi.nodup T; rwa [hc] at this
  constructor
  · intro T'
    by_cases hT : T' = T
    · subst hT; rw [doCollect_top_same]; simp only [hc, List.nil_append, hids_enqueue]; exact hnd
    · rw [doCollect_top_other _ _ _ _ _ _ hT]; exact hi.nodup T'
  · intro T' h
    rw [doCollect_hist, specRun_snoc]
    by_cases hT : T' = T
    · subst hT; rw [doCollect_top_same]; simp [specStep, curStep, hi.cur]
    · rw [doCollect_top_other _ _ _ _ _ _ hT, specStep_collect_other _ _ _ _ _ _ _ hT]; exact hi.cur T' h
  · intro T' h
    rw [doCollect_hist, specRun_snoc]
    by_cases hT : T' = T
    · subst hT; rw [doCollect_top_same]
      simp only [specStep, regStep]
      rw [any_enqueue]; exact hi.reg T' h
    · rw [doCollect_top_other _ _ _ _ _ _ hT, specStep_collect_other _ _ _ _ _ _ _ hT]; exact hi.reg T' h
  · intro T' h
    rw [doCollect_hist, specRun_snoc, doCollect_log]
    by_cases hT : T' = T
    · subst hT; rw [doCollect_top_same]
      simp only [hc, List.nil_append, specStep, beq_self_eq_true, Bool.true_and]
      rw [pq_enqueue h _ _ hnd, ← hi.reg, ← hi.got, hc, hi.cur]
      by_cases hr : (s.top T').regs.any (fun r => r.hid == h) = true
      · simp [hr]
      · have : (s.top T').regs.any (fun r => r.hid == h) = false := by simpa using hr
        simp [this]
    · rw [doCollect_top_other _ _ _ _ _ _ hT, specStep_collect_other _ _ _ _ _ _ _ hT]; exact hi.got T' h
  · intro T' h
    rw [doCollect_log]
    by_cases hT : T' = T
    · subst hT; rw [doCollect_top_same]
      simp only [busyOf, hc, List.nil_append, bz_enqueue]
      have := hi.brk T' h
      simpa [busyOf, hc] using this
    · rw [doCollect_top_other _ _ _ _ _ _ hT]; exact hi.brk T' h

/-! #### addHandler -/

theorem doAdd_top_other (s : St) (T T' h : String) (hT : T' ≠ T) : (doAdd s T h).top T' = s.top T' := by
  unfold doAdd; by_cases ha : (s.top T).regs.any (fun r => r.hid == h) = true <;> simp [ha, St.setTop, hT]
theorem doAdd_top_dup (s : St) (T h : String) (ha : (s.top T).regs.any (fun r => r.hid == h) = true) :
    (doAdd s T h).top T = s.top T := by simp [doAdd, ha]
theorem doAdd_top_new (s : St) (T h : String) (ha : (s.top T).regs.any (fun r => r.hid == h) = false) :
    (doAdd s T h).top T = { s.top T with regs := (s.top T).regs ++ [{ hid := h }] } := by simp [doAdd, ha, St.setTop]
theorem doAdd_log (s : St) (T h : String) : (doAdd s T h).log = s.log := by
  unfold doAdd; by_cases ha : (s.top T).regs.any (fun r => r.hid == h) = true <;> simp [ha, St.setTop]
theorem doAdd_hist (s : St) (T h : String) : (doAdd s T h).hist = s.hist ++ [.reg T h] := rfl

theorem specStep_reg_same (T h h' : String) (st : SpecSt) :
    specStep T h st (.reg T h') = { st with registered := if h' = h then true else st.registered } := by
  by_cases e : h' = h <;> simp [specStep, curStep, regStep, e]

theorem specStep_dereg_same (T h h' : String) (st : SpecSt) :
    specStep T h st (.dereg T h') = { st with registered := if h' = h then false else st.registered } := by
  by_cases e : h' = h <;> simp [specStep, curStep, regStep, e]

theorem inv_doAdd {s : St} (T h' : String) (hfree : tmuFree true (s.top T) = true) (hi : Inv s) : Inv (doAdd s T h') := by
  have hc := closing_nil_of_free hfree
  have hnd : (hids (s.top T).regs).Nodup := by have := hi.nodup T; rwa [hc] at this
  by_cases ha : (s.top T).regs.any (fun r => r.hid == h') = true
  · -- already registered: nothing changes but the history
    constructor
    · intro T'
      by_cases hT : T' = T
      · subst hT; rw [doAdd_top_dup _ _ _ ha]; exact hi.nodup T'
      · rw [doAdd_top_other _ _ _ _ hT]; exact hi.nodup T'
    · intro T' h
      rw [doAdd_hist, specRun_snoc]
      by_cases hT : T' = T
      · subst hT; rw [doAdd_top_dup _ _ _ ha, specStep_reg_same]; exact hi.cur T' h
      · rw [doAdd_top_other _ _ _ _ hT, specStep_reg_other _ _ _ _ _ hT]; exact hi.cur T' h
    · intro T' h
      rw [doAdd_hist, specRun_snoc]
      by_cases hT : T' = T
      · subst hT; rw [doAdd_top_dup _ _ _ ha, specStep_reg_same]
        by_cases e : h' = h
        · subst e; simp [ha]
        · simp [e]; exact hi.reg T' h
      · rw [doAdd_top_other _ _ _ _ hT, specStep_reg_other _ _ _ _ _ hT]; exact hi.reg T' h
    · intro T' h
      rw [doAdd_hist, specRun_snoc, doAdd_log]
      by_cases hT : T' = T
      · subst hT; rw [doAdd_top_dup _ _ _ ha, specStep_reg_same]; exact hi.got T' h
      · rw [doAdd_top_other _ _ _ _ hT, specStep_reg_other _ _ _ _ _ hT]; exact hi.got T' h
    · intro T' h
      rw [doAdd_log]
      by_cases hT : T' = T
      · subst hT; rw [doAdd_top_dup _ _ _ ha]; exact hi.brk T' h
      · rw [doAdd_top_other _ _ _ _ hT]; exact hi.brk T' h
  · have ha' : (s.top T).regs.any (fun r => r.hid == h') = false := by simpa using ha
    have hnm : h' ∉ hids (s.top T).regs := fun m => ha ((any_iff_mem _ _).mpr m)
    constructor
    · intro T'
      by_cases hT : T' = T
      · subst hT; rw [doAdd_top_new _ _ _ ha']
        simp only [hc, List.nil_append, hids, List.map_append, List.map_cons, List.map_nil]
        rw [List.nodup_append]
        refine ⟨hnd, by simp, ?_⟩
        intro a ha1 b hb1
        simp only [List.mem_singleton] at hb1
        subst hb1
        exact fun e => hnm (e ▸ ha1)
      · rw [doAdd_top_other _ _ _ _ hT]; exact hi.nodup T'
    · intro T' h
      rw [doAdd_hist, specRun_snoc]
      by_cases hT : T' = T
      · subst hT; rw [doAdd_top_new _ _ _ ha', specStep_reg_same]; exact hi.cur T' h
      · rw [doAdd_top_other _ _ _ _ hT, specStep_reg_other _ _ _ _ _ hT]; exact hi.cur T' h
    · intro T' h
      rw [doAdd_hist, specRun_snoc]
      by_cases hT : T' = T
      · subst hT; rw [doAdd_top_new _ _ _ ha', specStep_reg_same]
        simp only [List.any_append, List.any_cons, List.any_nil, Bool.or_false]
        rw [hi.reg]
        by_cases e : h' = h
        · simp [e]
        · have : (h' == h) = false := by simpa using e
          simp [e, this]
      · rw [doAdd_top_other _ _ _ _ hT, specStep_reg_other _ _ _ _ _ hT]; exact hi.reg T' h
    · intro T' h
      rw [doAdd_hist, specRun_snoc, doAdd_log]
      by_cases hT : T' = T
      · subst hT; rw [doAdd_top_new _ _ _ ha', specStep_reg_same]
        have := hi.got T' h
        simp only [← List.append_assoc, List.flatMap_append, List.flatMap_cons, List.flatMap_nil, pq] at this ⊢
        simpa using this
      · rw [doAdd_top_other _ _ _ _ hT, specStep_reg_other _ _ _ _ _ hT]; exact hi.got T' h
    · intro T' h
      rw [doAdd_log]
      by_cases hT : T' = T
      · subst hT; rw [doAdd_top_new _ _ _ ha']
        have := hi.brk T' h
        simp only [busyOf, ← List.append_assoc] at this ⊢
        rw [bz_append_new _ _ _ rfl]; exact this
      · rw [doAdd_top_other _ _ _ _ hT]; exact hi.brk T' h

/-! #### removeHandler: detach -/

theorem doDetach_top_other (s : St) (T T' h : String) (hT : T' ≠ T) : (doDetach s T h).top T' = s.top T' := by
  cases hf : (s.top T).regs.find? (fun r => r.hid == h) <;> simp [doDetach, hf, St.setTop, hT]
theorem doDetach_top_none (s : St) (T h : String) (hf : (s.top T).regs.find? (fun r => r.hid == h) = none) :
    (doDetach s T h).top T = s.top T := by simp [doDetach, hf]
theorem doDetach_top_some (s : St) (T h : String) (r : Reg) (hf : (s.top T).regs.find? (fun r => r.hid == h) = some r) :
    (doDetach s T h).top T = { s.top T with regs := (s.top T).regs.filter (fun x => !(x.hid == h)),
                                            closing := (s.top T).closing ++ [r] } := by
  simp [doDetach, hf, St.setTop]
theorem doDetach_log (s : St) (T h : String) : (doDetach s T h).log = s.log := by
  cases hf : (s.top T).regs.find? (fun r => r.hid == h) <;> simp [doDetach, hf, St.setTop]
theorem doDetach_hist (s : St) (T h : String) : (doDetach s T h).hist = s.hist ++ [.dereg T h] := rfl

theorem any_filter_ne (h h' : String) (l : List Reg) :
    (l.filter (fun x => !(x.hid == h'))).any (fun r => r.hid == h) = if h' = h then false else l.any (fun r => r.hid == h) := by
  induction l with
  | nil => simp
  | cons r rest ih =>
    by_cases hr : r.hid = h'
    · rw [List.filter_cons_of_neg (by simp [hr]), ih]
      by_cases e : h' = h
      · simp [e]
      · have : (r.hid == h) = false := by simpa [hr] using e
        simp [e, this]
    · rw [List.filter_cons_of_pos (by simp [hr]), List.any_cons, ih]
      by_cases e : h' = h
      · have : (r.hid == h) = false := by simpa [← e] using hr
        simp [e, this]
      · simp [e]

theorem hids_filter_sub (p : Reg → Bool) (l : List Reg) (hnd : (hids l).Nodup) : (hids (l.filter p)).Nodup :=
  List.Nodup.sublist (List.Sublist.map _ List.filter_sublist) hnd

theorem inv_doDetach {s : St} (T h' : String) (hfree : tmuFree true (s.top T) = true) (hi : Inv s) : Inv (doDetach s T h') := by
  have hc := closing_nil_of_free hfree
  have hnd : (hids (s.top T).regs).Nodup := by have := hi.nodup T; rwa [hc] at this
  cases hf : (s.top T).regs.find? (fun r => r.hid == h') with
  | none =>
    have hnm : h' ∉ hids (s.top T).regs := (find_none_iff _ _).mp hf
    have ha : (s.top T).regs.any (fun r => r.hid == h') = false := by
      cases hx : (s.top T).regs.any (fun r => r.hid == h') with
      | false => rfl
      | true => exact absurd ((any_iff_mem _ _).mp hx) hnm
    constructor
    · intro T'
      by_cases hT : T' = T
      · subst hT; rw [doDetach_top_none _ _ _ hf]; exact hi.nodup T'
      · rw [doDetach_top_other _ _ _ _ hT]; exact hi.nodup T'
    · intro T' h
      rw [doDetach_hist, specRun_snoc]
      by_cases hT : T' = T
      · subst hT; rw [doDetach_top_none _ _ _ hf, specStep_dereg_same]; exact hi.cur T' h
      · rw [doDetach_top_other _ _ _ _ hT, specStep_dereg_other _ _ _ _ _ hT]; exact hi.cur T' h
    · intro T' h
      rw [doDetach_hist, specRun_snoc]
      by_cases hT : T' = T
      · subst hT; rw [doDetach_top_none _ _ _ hf, specStep_dereg_same]
        by_cases e : h' = h
        · subst e; simp [ha]
        · simp [e]; exact hi.reg T' h
      · rw [doDetach_top_other _ _ _ _ hT, specStep_dereg_other _ _ _ _ _ hT]; exact hi.reg T' h
    · intro T' h
      rw [doDetach_hist, specRun_snoc, doDetach_log]
      by_cases hT : T' = T
      · subst hT; rw [doDetach_top_none _ _ _ hf, specStep_dereg_same]; exact hi.got T' h
      · rw [doDetach_top_other _ _ _ _ hT, specStep_dereg_other _ _ _ _ _ hT]; exact hi.got T' h
    · intro T' h
      rw [doDetach_log]
      by_cases hT : T' = T
      · subst hT; rw [doDetach_top_none _ _ _ hf]; exact hi.brk T' h
      · rw [doDetach_top_other _ _ _ _ hT]; exact hi.brk T' h
  | some r =>
    obtain ⟨hrh, _⟩ := find_some_hid _ _ _ hf
    constructor
    · intro T'
      by_cases hT : T' = T
      · subst hT; rw [doDetach_top_some _ _ _ _ hf]
        simp only [hc, List.nil_append, hids, List.cons_append, List.map_cons, List.nodup_cons]
        refine ⟨?_, hids_filter_sub _ _ hnd⟩
        rw [hrh]; simp
      · rw [doDetach_top_other _ _ _ _ hT]; exact hi.nodup T'
    · intro T' h
      rw [doDetach_hist, specRun_snoc]
      by_cases hT : T' = T
      · subst hT; rw [doDetach_top_some _ _ _ _ hf, specStep_dereg_same]; exact hi.cur T' h
      · rw [doDetach_top_other _ _ _ _ hT, specStep_dereg_other _ _ _ _ _ hT]; exact hi.cur T' h
    · intro T' h
      rw [doDetach_hist, specRun_snoc]
      by_cases hT : T' = T
      · subst hT; rw [doDetach_top_some _ _ _ _ hf, specStep_dereg_same]
        simp only [any_filter_ne]
        by_cases e : h' = h
        · simp [e]
        · simp [e]; exact hi.reg T' h
      · rw [doDetach_top_other _ _ _ _ hT, specStep_dereg_other _ _ _ _ _ hT]; exact hi.reg T' h
    · intro T' h
      rw [doDetach_hist, specRun_snoc, doDetach_log]
      by_cases hT : T' = T
      · subst hT; rw [doDetach_top_some _ _ _ _ hf, specStep_dereg_same]
        have hg := hi.got T' h
        rw [hc, List.nil_append] at hg
        simp only [hc, List.nil_append, List.cons_append, List.flatMap_cons]
        by_cases e : h' = h
        · subst e
          rw [pq_filter_same, ← hg, pq_unique _ _ hnd r hf]
          simp [pq, hrh]
        · have e' : h ≠ h' := fun x => e x.symm
          have : pq h r = [] := by
            have : r.hid ≠ h := by rw [hrh]; exact e
            simp [pq, this]
          rw [pq_filter_other _ _ e', this, List.nil_append]; exact hg
      · rw [doDetach_top_other _ _ _ _ hT, specStep_dereg_other _ _ _ _ _ hT]; exact hi.got T' h
    · intro T' h
      rw [doDetach_log]
      by_cases hT : T' = T
      · subst hT; rw [doDetach_top_some _ _ _ _ hf]
        have hb := hi.brk T' h
        simp only [busyOf, hc, List.nil_append] at hb ⊢
        rw [hb]
        by_cases e : h' = h
        · subst e
          have : (r.hid == h') = true := by simpa using hrh
          simp [bz, List.find?_cons, this, hf]
        · have e' : h ≠ h' := fun x => e x.symm
          have : (r.hid == h) = false := by rw [hrh]; simpa using e
          have h2 := bz_filter_other h h' e' (s.top T').regs
          simp only [bz, List.cons_append, List.find?_cons, this, List.nil_append] at h2 ⊢
          rw [h2]
      · rw [doDetach_top_other _ _ _ _ hT]; exact hi.brk T' h

/-! #### removeHandler: Close returns -/

theorem doClosed_top_same (s : St) (T h : String) :
    (doClosed s T h).top T = { s.top T with closing := (s.top T).closing.filter (fun r => !(r.hid == h && r.idle)) } := by
  simp [doClosed, St.setTop]
theorem doClosed_top_other (s : St) (T T' h : String) (hT : T' ≠ T) : (doClosed s T h).top T' = s.top T' := by
  simp [doClosed, St.setTop, hT]
theorem doClosed_log (s : St) (T h : String) : (doClosed s T h).log = s.log := rfl
theorem doClosed_hist (s : St) (T h : String) : (doClosed s T h).hist = s.hist := rfl

theorem inv_doClosed {s : St} (T h' : String) (hi : Inv s) : Inv (doClosed s T h') := by
  constructor
  · intro T'
    by_cases hT : T' = T
    · subst hT; rw [doClosed_top_same]
      exact List.Nodup.sublist (List.Sublist.map _ (List.Sublist.append List.filter_sublist (List.Sublist.refl _))) (hi.nodup T')
    · rw [doClosed_top_other _ _ _ _ hT]; exact hi.nodup T'
  · intro T' h
    rw [doClosed_hist]
    by_cases hT : T' = T
    · subst hT; rw [doClosed_top_same]; exact hi.cur T' h
    · rw [doClosed_top_other _ _ _ _ hT]; exact hi.cur T' h
  · intro T' h
    rw [doClosed_hist]
    by_cases hT : T' = T
    · subst hT; rw [doClosed_top_same]; exact hi.reg T' h
    · rw [doClosed_top_other _ _ _ _ hT]; exact hi.reg T' h
  · intro T' h
    rw [doClosed_hist, doClosed_log]
    by_cases hT : T' = T
    · subst hT; rw [doClosed_top_same]
      have := hi.got T' h
      simp only [List.flatMap_append, pq_filter_idle] at this ⊢
      exact this
    · rw [doClosed_top_other _ _ _ _ hT]; exact hi.got T' h
  · intro T' h
    rw [doClosed_log]
    by_cases hT : T' = T
    · subst hT; rw [doClosed_top_same]
      simp only [busyOf]
      rw [bz_filter_front h _ _ _ (hi.nodup T')]
      · exact hi.brk T' h
      · intro r _ hk
        simp [Reg.idle] at hk
        exact hk.2.2
    · rw [doClosed_top_other _ _ _ _ hT]; exact hi.brk T' h

/-! #### the handler goroutines -/

theorem modFirst_append_left (p : Reg → Bool) (f : Reg → Reg) (l1 l2 : List Reg) (r : Reg) (h : l1.find? p = some r) :
    modFirst p f l1 ++ l2 = modFirst p f (l1 ++ l2) := by
  induction l1 with
  | nil => simp at h
  | cons x xs ih =>
    by_cases hp : p x = true
    · simp [modFirst, hp]
    · have hp' : p x = false := by simpa using hp
      simp only [List.find?_cons, hp'] at h
      simp [modFirst, hp', ih h]

theorem modFirst_append_right (p : Reg → Bool) (f : Reg → Reg) (l1 l2 : List Reg) (h : l1.find? p = none) :
    l1 ++ modFirst p f l2 = modFirst p f (l1 ++ l2) := by
  induction l1 with
  | nil => rfl
  | cons x xs ih =>
    by_cases hp : p x = true
    · simp [List.find?_cons, hp] at h
    · have hp' : p x = false := by simpa using hp
      simp only [List.find?_cons, hp'] at h
      simp [modFirst, hp', ih h]

/-- a registration found on one side is THE registration of the handler on the topic -/
theorem side_find (t : Top) (c : Bool) (h : String) (r : Reg) (hnd : (hids (t.closing ++ t.regs)).Nodup)
    (hf : (t.side c).find? (fun x => x.hid == h) = some r) :
    (t.closing ++ t.regs).find? (fun x => x.hid == h) = some r ∧
    ∀ f : Reg → Reg, (t.setSide c (modFirst (fun x => x.hid == h) f (t.side c))).closing ++
        (t.setSide c (modFirst (fun x => x.hid == h) f (t.side c))).regs
      = modFirst (fun x => x.hid == h) f (t.closing ++ t.regs) := by
  cases c with
  | true =>
    simp only [Top.side, if_true] at hf
    refine ⟨by rw [List.find?_append, hf]; rfl, fun f => ?_⟩
    simp only [Top.side, Top.setSide, if_true]
    exact modFirst_append_left _ _ _ _ _ hf
  | false =>
    simp only [Top.side, Bool.false_eq_true, if_false] at hf
    obtain ⟨hrh, hrm⟩ := find_some_hid _ _ _ hf
    have hcn : t.closing.find? (fun x => x.hid == h) = none := by
      rw [find_none_iff]
      intro hm
      simp only [hids, List.map_append] at hnd
      have := (List.nodup_append.mp hnd).2.2 h hm h (by rw [← hrh]; exact List.mem_map_of_mem hrm)
      exact this rfl
    refine ⟨by rw [List.find?_append, hcn, hf]; rfl, fun f => ?_⟩
    simp only [Top.side, Top.setSide, Bool.false_eq_true, if_false]
    exact modFirst_append_right _ _ _ _ hcn

theorem regs_any_setSide (t : Top) (c : Bool) (h h' : String) (f : Reg → Reg) (hf : ∀ r, (f r).hid = r.hid) :
    (t.setSide c (modFirst (fun x => x.hid == h') f (t.side c))).regs.any (fun r => r.hid == h)
      = t.regs.any (fun r => r.hid == h) := by
  cases c with
  | true => simp [Top.setSide]
  | false => simp only [Top.setSide, Top.side, Bool.false_eq_true, if_false]; exact any_modFirst _ _ _ hf _

theorem cur_setSide (t : Top) (c : Bool) (l : List Reg) : (t.setSide c l).cur = t.cur := by
  cases c <;> simp [Top.setSide]

/-- what `doTake` does when it does something -/
theorem doTake_cases (s : St) (T h : String) (c : Bool) :
    doTake s T h c = s ∨ ∃ r ev rest, ((s.top T).side c).find? (fun x => x.hid == h) = some r ∧ r.busy = none ∧
      r.queue = ev :: rest ∧
      doTake s T h c = { (s.setTop T ((s.top T).setSide c (modFirst (fun x => x.hid == h)
        (fun x => { x with queue := rest, busy := some ev }) ((s.top T).side c)))) with log := s.log ++ [.enter T h ev] } := by
  cases hf : ((s.top T).side c).find? (fun x => x.hid == h) with
  | none => left; simp only [doTake, hf]
  | some r =>
    cases hb : r.busy with
    | some b => left; simp only [doTake, hf, hb]
    | none =>
      cases hq : r.queue with
      | nil => left; simp only [doTake, hf, hb, hq]
      | cons ev rest => right; exact ⟨r, ev, rest, rfl, hb, hq, by simp only [doTake, hf, hb, hq]⟩

theorem doFin_cases (s : St) (T h : String) (c : Bool) :
    doFin s T h c = s ∨ ∃ r ev tk, ((s.top T).side c).find? (fun x => x.hid == h) = some r ∧ r.busy = some ev ∧
      doFin s T h c = { (s.setTop T ((s.top T).setSide c (modFirst (fun x => x.hid == h)
        (fun x => { x with busy := none }) ((s.top T).side c)))) with log := s.log ++ [.exit T h ev], tokens := tk } := by
  cases hf : ((s.top T).side c).find? (fun x => x.hid == h) with
  | none => left; simp only [doFin, hf]
  | some r =>
    cases hb : r.busy with
    | none => left; simp only [doFin, hf, hb]
    | some ev =>
      by_cases hg : (s.opened || s.free h || decide (s.tokens T h > 0)) = true
      · right
        refine ⟨r, ev, (if s.opened || s.free h then s.tokens
          else fun Y g => if Y = T ∧ g = h then s.tokens T h - 1 else s.tokens Y g), rfl, hb, ?_⟩
        simp only [doFin, hf, hb, hg, if_true]
      · left; simp only [doFin, hf, hb, hg]; rfl

theorem inv_doTake {s : St} (T h' : String) (c : Bool) (hi : Inv s) : Inv (doTake s T h' c) := by
  rcases doTake_cases s T h' c with e | ⟨r, ev, rest, hf, hb, hq, e⟩
  · rw [e]; exact hi
  · rw [e]
    obtain ⟨hfL, hL⟩ := side_find (s.top T) c h' r (hi.nodup T) hf
    have hfid : ∀ x : Reg, ({ x with queue := rest, busy := some ev } : Reg).hid = x.hid := fun _ => rfl
    constructor
    · intro T'
      by_cases hT : T' = T
      · subst hT; show (hids (((s.setTop T' _).top T').closing ++ ((s.setTop T' _).top T').regs)).Nodup
        rw [setTop_same, hL, hids_modFirst _ _ hfid]; exact hi.nodup T'
      · show (hids (((s.setTop T _).top T').closing ++ ((s.setTop T _).top T').regs)).Nodup
        rw [setTop_other _ _ _ _ hT]; exact hi.nodup T'
    · intro T' h
      show (specRun T' h s.hist).cur = ((s.setTop T _).top T').cur
      by_cases hT : T' = T
      · subst hT; rw [setTop_same, cur_setSide]; exact hi.cur T' h
      · rw [setTop_other _ _ _ _ hT]; exact hi.cur T' h
    · intro T' h
      show ((s.setTop T _).top T').regs.any (fun r => r.hid == h) = (specRun T' h s.hist).registered
      by_cases hT : T' = T
      · subst hT; rw [setTop_same, regs_any_setSide _ _ _ _ _ hfid]; exact hi.reg T' h
      · rw [setTop_other _ _ _ _ hT]; exact hi.reg T' h
    · intro T' h
      show entered (s.log ++ [.enter T h' ev]) T' h ++
        (((s.setTop T _).top T').closing ++ ((s.setTop T _).top T').regs).flatMap (pq h) = (specRun T' h s.hist).got
      rw [entered_snoc_enter]
      by_cases hT : T' = T
      · subst hT; rw [setTop_same, hL]
        by_cases hh : h' = h
        · subst hh
          have := pq_modFirst_take h' _ r ev rest (some ev) hfL hq
          simp only [true_and, if_true, List.append_assoc, List.singleton_append]
          rw [← this]; exact hi.got T' h'
        · have hne : h ≠ h' := fun x => hh x.symm
          simp only [hh, and_false, if_false, List.append_nil]
          rw [pq_modFirst_other _ _ hne _ hfid]; exact hi.got T' h
      · have : ¬ (T = T' ∧ h' = h) := fun x => hT x.1.symm
        simp only [this, if_false, List.append_nil]
        rw [setTop_other _ _ _ _ hT]; exact hi.got T' h
    · intro T' h
      show brState T' h none (s.log ++ [.enter T h' ev]) = some (busyOf ((s.setTop T _).top T') h)
      rw [brState_snoc, hi.brk T' h]
      by_cases hT : T' = T
      · subst hT; rw [setTop_same]
        simp only [busyOf, hL]
        by_cases hh : h' = h
        · subst hh
          simp only [bz, hfL, find_modFirst _ _ hfid, Option.bind_some, brStep, true_and, if_true, hb, Option.map_some]
          rfl
        · have hne : h ≠ h' := fun x => hh x.symm
          rw [find_modFirst_other _ _ hne _ hfid]
          simp [brStep, hh]
      · have : ¬ (T = T' ∧ h' = h) := fun x => hT x.1.symm
        rw [setTop_other _ _ _ _ hT]
        simp [brStep, this]

theorem inv_doFin {s : St} (T h' : String) (c : Bool) (hi : Inv s) : Inv (doFin s T h' c) := by
  rcases doFin_cases s T h' c with e | ⟨r, ev, tk, hf, hb, e⟩
  · rw [e]; exact hi
  · rw [e]
    obtain ⟨hfL, hL⟩ := side_find (s.top T) c h' r (hi.nodup T) hf
    have hfid : ∀ x : Reg, ({ x with busy := none } : Reg).hid = x.hid := fun _ => rfl
    have hfq : ∀ x : Reg, ({ x with busy := none } : Reg).queue = x.queue := fun _ => rfl
    constructor
    · intro T'
      by_cases hT : T' = T
      · subst hT; show (hids (((s.setTop T' _).top T').closing ++ ((s.setTop T' _).top T').regs)).Nodup
        rw [setTop_same, hL, hids_modFirst _ _ hfid]; exact hi.nodup T'
      · show (hids (((s.setTop T _).top T').closing ++ ((s.setTop T _).top T').regs)).Nodup
        rw [setTop_other _ _ _ _ hT]; exact hi.nodup T'
    · intro T' h
      show (specRun T' h s.hist).cur = ((s.setTop T _).top T').cur
      by_cases hT : T' = T
      · subst hT; rw [setTop_same, cur_setSide]; exact hi.cur T' h
      · rw [setTop_other _ _ _ _ hT]; exact hi.cur T' h
    · intro T' h
      show ((s.setTop T _).top T').regs.any (fun r => r.hid == h) = (specRun T' h s.hist).registered
      by_cases hT : T' = T
      · subst hT; rw [setTop_same, regs_any_setSide _ _ _ _ _ hfid]; exact hi.reg T' h
      · rw [setTop_other _ _ _ _ hT]; exact hi.reg T' h
    · intro T' h
      show entered (s.log ++ [.exit T h' ev]) T' h ++
        (((s.setTop T _).top T').closing ++ ((s.setTop T _).top T').regs).flatMap (pq h) = (specRun T' h s.hist).got
      rw [entered_snoc_exit]
      by_cases hT : T' = T
      · subst hT; rw [setTop_same, hL, pq_modFirst_keep _ _ _ hfid hfq]; exact hi.got T' h
      · rw [setTop_other _ _ _ _ hT]; exact hi.got T' h
    · intro T' h
      show brState T' h none (s.log ++ [.exit T h' ev]) = some (busyOf ((s.setTop T _).top T') h)
      rw [brState_snoc, hi.brk T' h]
      by_cases hT : T' = T
      · subst hT; rw [setTop_same]
        simp only [busyOf, hL]
        by_cases hh : h' = h
        · subst hh
          simp [bz, hfL, find_modFirst _ _ hfid, brStep, hb]
        · have hne : h ≠ h' := fun x => hh x.symm
          rw [find_modFirst_other _ _ hne _ hfid]
          simp [brStep, hh]
      · have : ¬ (T = T' ∧ h' = h) := fun x => hT x.1.symm
        rw [setTop_other _ _ _ _ hT]
        simp [brStep, this]

/-! ### every step of the locked model preserves the invariant -/

theorem inv_cstep {s : St} (c : CStep) (hi : Inv s) : Inv (cstep true s c) := by
  cases c with
  | collect T id level time =>
    simp only [cstep]; split
    · exact inv_doCollect T id level time (by assumption) hi
    · exact hi
  | add T h =>
    simp only [cstep]; split
    · exact inv_doAdd T h (by assumption) hi
    · exact hi
  | detach T h =>
    simp only [cstep]; split
    · exact inv_doDetach T h (by assumption) hi
    · exact hi
  | closed T h => exact inv_doClosed T h hi
  | take T h c => exact inv_doTake T h c hi
  | fin T h c => exact inv_doFin T h c hi
  | tok T h n => exact inv_frame (s := s) rfl rfl rfl hi
  | openAll => exact inv_frame (s := s) rfl rfl rfl hi

theorem inv_advance {s s' : St} {p : Pend} {p' : Option Pend} (h : advance true s p = some (s', p')) (hi : Inv s) :
    Inv s' := by
  unfold advance at h
  split at h
  all_goals (try (split at h))
  all_goals (try (simp only [Option.some.injEq, Prod.mk.injEq, reduceCtorEq] at h))
  all_goals (try (obtain ⟨rfl, _⟩ := h))
  all_goals (first
    | exact hi
    | exact inv_frame (s := s) rfl rfl rfl hi
    | exact inv_doCollect _ _ _ _ (by assumption) hi
    | exact inv_frame (s := doAdd s _ _) rfl rfl rfl (inv_doAdd _ _ (by assumption) hi)
    | exact inv_doAdd _ _ (by assumption) hi
    | exact inv_doDetach _ _ (by assumption) hi
    | exact inv_doClosed _ _ hi
    | (split at h
       · exact absurd h (by simp)
       · simp only [Option.some.injEq, Prod.mk.injEq] at h
         obtain ⟨rfl, _⟩ := h
         exact inv_doClosed _ _ hi))

theorem inv_adv {s : St} (lab : String) (hi : Inv s) : Inv (adv true s lab) := by
  unfold adv
  split
  · split
    · rename_i s' p' heq
      exact inv_frame (s := s') rfl rfl rfl (inv_advance heq hi)
    · rename_i s' heq
      exact inv_frame (s := s') rfl rfl rfl (inv_advance heq hi)
    · exact hi
  · exact hi

theorem inv_step {s : St} (st : Step) (hi : Inv s) : Inv (step true s st) := by
  cases st with
  | core c => exact inv_cstep c hi
  | invoke lab c => exact inv_frame (s := s) rfl rfl rfl hi
  | adv lab => exact inv_adv lab hi

theorem inv_run (sched : List Step) {s : St} (hi : Inv s) : Inv (run true sched s) := by
  induction sched generalizing s with
  | nil => exact hi
  | cons st rest ih => exact ih (inv_step st hi)

end Kap.C09.Drain
