/-
C09 helper lemmas, part 3: the `Topics` registry (association list) and the refinement
"model state ≈ history spec" for the event states of every topic.
-/
import Kap.Proofs.C09Topic
namespace Kap.C09

theorem find_map_same (l : List (String × Topic)) (T : String) (t : Topic)
    (h : l.any (fun p => p.1 == T) = true) :
    (l.map (fun p => if p.1 == T then (T, t) else p)).find? (fun p => p.1 == T) = some (T, t) := by
  induction l with
  | nil => simp at h
  | cons p ps ih =>
    rw [List.map_cons, List.find?_cons]
    by_cases hp : (p.1 == T) = true
    · simp [hp]
    · have hp' : (p.1 == T) = false := by simpa using hp
      rw [List.any_cons, hp', Bool.false_or] at h
      simp only [hp', Bool.false_eq_true, ↓reduceIte]
      exact ih h

theorem find_map_other (l : List (String × Topic)) (T T' : String) (t : Topic) (hne : T' ≠ T) :
    (l.map (fun p => if p.1 == T then (T, t) else p)).find? (fun p => p.1 == T') =
      l.find? (fun p => p.1 == T') := by
  induction l with
  | nil => rfl
  | cons p ps ih =>
    rw [List.map_cons, List.find?_cons, List.find?_cons, ih]
    by_cases hp : (p.1 == T) = true
    · have hp' : p.1 = T := by simpa using hp
      have h1 : (p.1 == T') = false := by rw [hp']; simpa using Ne.symm hne
      have h2 : (T == T') = false := by simpa using Ne.symm hne
      simp [hp, h1, h2]
    · have hp' : (p.1 == T) = false := by simpa using hp
      simp [hp']

theorem get_set_same (s : Topics) (T : String) (t : Topic) : (s.set T t).get T = some t := by
  unfold Topics.set Topics.get
  split
  · rename_i h
    simp only
    rw [find_map_same _ _ _ h]; rfl
  · rename_i h
    simp only
    rw [List.find?_append]
    have : s.topics.find? (fun p => p.1 == T) = none := by
      rw [List.find?_eq_none]; intro x hx
      have h' : s.topics.any (fun p => p.1 == T) = false := Bool.eq_false_iff.mpr h
      rw [List.any_eq_false] at h'
      exact h' x hx
    simp [this]

theorem get_set_other (s : Topics) (T T' : String) (t : Topic) (hne : T' ≠ T) :
    (s.set T t).get T' = s.get T' := by
  unfold Topics.set Topics.get
  split
  · simp only
    rw [find_map_other _ _ _ _ hne]
  · simp only
    rw [List.find?_append]
    have : ([(T, t)] : List (String × Topic)).find? (fun p => p.1 == T') = none := by
      simp [Ne.symm hne]
    rw [this]; simp

theorem ensure_set_same (s : Topics) (T : String) (t : Topic) : (s.set T t).ensure T = t := by
  unfold Topics.ensure; rw [get_set_same]; rfl

theorem ensure_set_other (s : Topics) (T T' : String) (t : Topic) (hne : T' ≠ T) :
    (s.set T t).ensure T' = s.ensure T' := by
  unfold Topics.ensure; rw [get_set_other _ _ _ _ hne]

theorem set_closed (s : Topics) (T : String) (t : Topic) : (s.set T t).closed = s.closed := by
  unfold Topics.set; split <;> rfl

theorem get_filter_same (s : Topics) (T : String) (c : List (String × List Ev)) :
    ({ topics := s.topics.filter (fun p => p.1 != T), closed := c } : Topics).get T = none := by
  unfold Topics.get
  simp only [Option.map_eq_none_iff]
  rw [List.find?_eq_none]
  intro x hx
  have := (List.mem_filter.mp hx).2
  simpa using this

theorem get_filter_other (s : Topics) (T T' : String) (c : List (String × List Ev)) (hne : T' ≠ T) :
    ({ topics := s.topics.filter (fun p => p.1 != T), closed := c } : Topics).get T' = s.get T' := by
  unfold Topics.get
  simp only
  congr 1
  induction s.topics with
  | nil => rfl
  | cons p ps ih =>
    rw [List.filter_cons, List.find?_cons]
    by_cases hp : p.1 = T
    · have h1 : (p.1 == T') = false := by rw [hp]; simpa using Ne.symm hne
      have h2 : (p.1 != T) = false := by simp [hp]
      rw [h1, h2]; simpa using ih
    · have h2 : (p.1 != T) = true := by simp [hp]
      rw [h2]; simp only [↓reduceIte, List.find?_cons]
      rw [ih]

theorem collect_sorted (T : String) (t : Topic) (s : ES) :
    (t.collectWith less T s).sorted = (t.updateEvent s).1.sorted := by
  unfold Topic.collectWith Topic.updateEvent; rfl

theorem addHandler_sorted (t : Topic) (h : String) : (t.addHandler h).sorted = t.sorted := by
  unfold Topic.addHandler; split <;> rfl

theorem upsert_perm {l₁ l₂ : List ES} (hp : l₁.Perm l₂) (s : ES) : (upsert l₁ s).Perm (upsert l₂ s) := by
  unfold upsert
  have : l₁.any (fun e => e.id == s.id) = l₂.any (fun e => e.id == s.id) := by
    rw [Bool.eq_iff_iff]; simp only [List.any_eq_true]
    constructor
    · rintro ⟨x, hx, h⟩; exact ⟨x, hp.mem_iff.mp hx, h⟩
    · rintro ⟨x, hx, h⟩; exact ⟨x, hp.mem_iff.mpr hx, h⟩
  rw [this]
  split
  · exact hp.map _
  · exact hp.append_right _

/-- The relation between the model registry and the per-topic history spec. -/
def Rel (s : Topics) (c : String → List ES) : Prop :=
  ∀ T, TInv (s.ensure T) ∧ (s.ensure T).sorted.Perm (c T)

theorem TInv_empty : TInv ({} : Topic) := by
  unfold TInv Sorted ids; simp

theorem rel_init : Rel {} (fun _ => []) := by
  intro T
  have : (({} : Topics).ensure T) = ({} : Topic) := rfl
  rw [this]; exact ⟨TInv_empty, List.Perm.refl _⟩

theorem rel_upd (s : Topics) (c : String → List ES) (h : Rel s c) (T id : String) (level : Nat)
    (time : Int) (t' : Topic)
    (ht' : t'.sorted = ((s.ensure T).updateEvent { id := id, level := level, time := time }).1.sorted) :
    Rel (s.set T t') (fun T' => if T == T' then upsert (c T') { id := id, level := level, time := time } else c T') := by
  intro T'
  by_cases e : T' = T
  · subst e
    rw [ensure_set_same]
    simp only [beq_self_eq_true, ↓reduceIte]
    obtain ⟨hi, hp⟩ := h T'
    have hu := updateEvent_inv _ { id := id, level := level, time := time } hi
    have hr := (updateEvent_refines (s.ensure T') { id := id, level := level, time := time }).1
    unfold TInv at hu ⊢
    rw [ht']
    exact ⟨hu, hr.trans (upsert_perm hp _)⟩
  · rw [ensure_set_other _ _ _ _ e]
    have : (T == T') = false := by simp [Ne.symm e]
    simp only [this, Bool.false_eq_true, ↓reduceIte]
    exact h T'

theorem rel_same_sorted (s : Topics) (c : String → List ES) (h : Rel s c) (T : String) (t' : Topic)
    (ht' : t'.sorted = (s.ensure T).sorted) : Rel (s.set T t') c := by
  intro T'
  by_cases e : T' = T
  · subst e
    rw [ensure_set_same]
    obtain ⟨hi, hp⟩ := h T'
    unfold TInv at hi ⊢
    rw [ht']; exact ⟨hi, hp⟩
  · rw [ensure_set_other _ _ _ _ e]; exact h T'

theorem rel_closed (s : Topics) (c : String → List ES) (cl : List (String × List Ev)) (h : Rel s c) :
    Rel { s with closed := cl } c := fun T => h T

theorem rel_removeHandler (s : Topics) (c : String → List ES) (T hid : String) (h : Rel s c) :
    Rel (s.removeHandler T hid) c := by
  unfold Topics.removeHandler
  have hr := rel_same_sorted s c h T { (s.ensure T) with handlers := (removeSwap hid (s.ensure T).handlers).1 } rfl
  simp only
  split
  · exact rel_closed _ _ _ hr
  · exact hr

theorem ensure_of_get {s : Topics} {T : String} {t : Topic} (h : s.get T = some t) : s.ensure T = t := by
  unfold Topics.ensure; rw [h]; rfl

theorem rel_step (s : Topics) (c : String → List ES) (op : Op) (hwf : op.wf = true) (h : Rel s c) :
    Rel (step s op) (fun T => curStep T (c T) op) := by
  cases op with
  | collect T id level time =>
    have := rel_upd s c h T id level time _ (collect_sorted T (s.ensure T) { id := id, level := level, time := time })
    simpa [step, stepWith, curStep] using this
  | update T id level time =>
    have := rel_upd s c h T id level time ((s.ensure T).updateEventWith less { id := id, level := level, time := time }).1 rfl
    simpa [step, stepWith, curStep] using this
  | reg T hid =>
    have := rel_same_sorted s c h T _ (addHandler_sorted (s.ensure T) hid)
    simpa [step, stepWith, curStep, Topics.addHandler] using this
  | dereg T hid =>
    simp only [step, stepWith, curStep]
    split
    · exact h
    · exact rel_removeHandler s c T hid h
  | replace T old new =>
    simp only [step, stepWith, curStep]
    have h1 := rel_removeHandler s c T old h
    exact rel_same_sorted _ c h1 T _ (addHandler_sorted _ new)
  | deltopic T =>
    simp only [step, stepWith, curStep]
    split
    · rename_i hg
      intro T'
      by_cases e : T' = T
      · subst e
        have : s.ensure T' = ({} : Topic) := by unfold Topics.ensure; rw [hg]; rfl
        obtain ⟨hi, hp⟩ := h T'
        rw [this] at hi hp
        simp only [beq_self_eq_true, ↓reduceIte]
        have hnil : c T' = [] := by
          have : ([] : List ES).Perm (c T') := hp
          exact (List.nil_perm.mp this)
        rw [this]
        exact ⟨TInv_empty, by simp⟩
      · have : (T == T') = false := by simp [Ne.symm e]
        simp only [this, Bool.false_eq_true, ↓reduceIte]
        exact h T'
    · rename_i t hg
      intro T'
      by_cases e : T' = T
      · subst e
        simp only [beq_self_eq_true, ↓reduceIte]
        unfold Topics.ensure
        rw [get_filter_same]
        exact ⟨TInv_empty, List.Perm.refl _⟩
      · have : (T == T') = false := by simp [Ne.symm e]
        simp only [this, Bool.false_eq_true, ↓reduceIte]
        unfold Topics.ensure
        rw [get_filter_other _ _ _ _ e]
        exact h T'
  | restore T states =>
    simp only [step, stepWith, curStep]
    have hnd : (ids states).Nodup := by simpa [Op.wf, ids] using hwf
    intro T'
    by_cases e : T' = T
    · subst e
      rw [ensure_set_same]
      simp only [beq_self_eq_true, ↓reduceIte]
      exact ⟨⟨goSort_sorted _ hnd, ((goSort_perm _).map _).nodup_iff.mpr hnd⟩, goSort_perm _⟩
    · rw [ensure_set_other _ _ _ _ e]
      have : (T == T') = false := by simp [Ne.symm e]
      simp only [this, Bool.false_eq_true, ↓reduceIte]
      exact h T'

theorem rel_foldl (ops : List Op) (hwf : ∀ op ∈ ops, op.wf = true) (s : Topics) (c : String → List ES)
    (h : Rel s c) : Rel (ops.foldl step s) (fun T => ops.foldl (curStep T) (c T)) := by
  induction ops generalizing s c with
  | nil => simpa using h
  | cons op ops ih =>
    simp only [List.foldl_cons]
    exact ih (fun o ho => hwf o (List.mem_cons_of_mem _ ho)) _ _
      (rel_step s c op (hwf op List.mem_cons_self) h)

theorem rel_run (ops : List Op) (hwf : ∀ op ∈ ops, op.wf = true) :
    Rel (run ops) (fun T => specCur T ops) := rel_foldl ops hwf {} _ rel_init

/-- `foldl max` computes the maximum level. -/
theorem foldl_max_ge (l : List ES) (m : Nat) :
    m ≤ l.foldl (fun m e => max m e.level) m ∧ ∀ e ∈ l, e.level ≤ l.foldl (fun m e => max m e.level) m := by
  induction l generalizing m with
  | nil => simp
  | cons x xs ih =>
    simp only [List.foldl_cons]
    obtain ⟨h1, h2⟩ := ih (max m x.level)
    refine ⟨by omega, ?_⟩
    intro e he
    rcases List.mem_cons.mp he with rfl | he'
    · omega
    · exact h2 e he'

theorem foldl_max_attained (l : List ES) (m : Nat) :
    l.foldl (fun m e => max m e.level) m = m ∨ ∃ e ∈ l, e.level = l.foldl (fun m e => max m e.level) m := by
  induction l generalizing m with
  | nil => left; rfl
  | cons x xs ih =>
    simp only [List.foldl_cons]
    rcases ih (max m x.level) with h | ⟨e, he, h⟩
    · rw [h]
      by_cases hm : x.level ≤ m
      · left; omega
      · right; exact ⟨x, List.mem_cons_self, by omega⟩
    · right; exact ⟨e, List.mem_cons_of_mem _ he, h⟩

end Kap.C09
