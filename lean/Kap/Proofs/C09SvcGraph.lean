/-
C09 service layer, proofs part 1 (no model state): the handler graph under the single-entry and forward-only
hypotheses. `visits` is the list of (topic, event as seen) a depth-first walk produces WITHOUT threading any
state; it is related to the declarative chain `Arrives`, to the executable `pull`, and shown to visit every
topic at most once.
-/
import Kap.Spec.C09Svc
namespace Kap.C09.SvcProofs
open Kap.C09 Kap.C09.Svc Kap.C09.SvcSpec

/-- the topics the matching specs of `T` republish to, in handler order -/
def kids (specs : List Spec) (T : String) (e : SEv) : List String :=
  ((specs.filter (fun sp => sp.topic == T)).filter (fun sp => holds sp e)).flatMap (·.targets)

def visits (specs : List Spec) (last : String → String → Option Nat) : Nat → String → SEv → List (String × SEv)
  | 0, _, _ => []
  | n + 1, T, e =>
    (T, seen last T e) :: (kids specs T (seen last T e)).flatMap (fun t => visits specs last n t (seen last T e))

/-- what the theorems assume of the configuration at the moment of a collect on `T0` -/
structure Good (specs : List Spec) (rank : String → Nat) (T0 : String) : Prop where
  nodup : (specs.flatMap (·.targets)).Nodup
  root : T0 ∉ specs.flatMap (·.targets)
  fwd : ∀ sp ∈ specs, ∀ t ∈ sp.targets, rank sp.topic < rank t

theorem mem_kids {specs : List Spec} {T : String} {e : SEv} {k : String} :
    k ∈ kids specs T e ↔ ∃ sp ∈ specs, sp.topic = T ∧ holds sp e = true ∧ k ∈ sp.targets := by
  unfold kids
  simp only [List.mem_flatMap, List.mem_filter, beq_iff_eq]
  constructor
  · rintro ⟨sp, ⟨⟨h1, h2⟩, h3⟩, h4⟩; exact ⟨sp, h1, h2, h3, h4⟩
  · rintro ⟨sp, h1, h2, h3, h4⟩; exact ⟨sp, ⟨⟨h1, h2⟩, h3⟩, h4⟩

theorem uniq_spec : ∀ (specs : List Spec), (specs.flatMap (·.targets)).Nodup →
    ∀ (sp sp' : Spec) (t : String), sp ∈ specs → sp' ∈ specs → t ∈ sp.targets → t ∈ sp'.targets → sp = sp'
  | [], _ => by intro sp _ _ h; cases h
  | a :: l, h => by
    rw [List.flatMap_cons, List.nodup_append] at h
    obtain ⟨_, hl, hd⟩ := h
    intro sp sp' t h1 h2 h3 h4
    rcases List.mem_cons.mp h1 with e1 | m1
    · rcases List.mem_cons.mp h2 with e2 | m2
      · rw [e1, e2]
      · rw [e1] at h3; exact absurd rfl (hd t h3 t (List.mem_flatMap.mpr ⟨sp', m2, h4⟩))
    · rcases List.mem_cons.mp h2 with e2 | m2
      · rw [e2] at h4; exact absurd rfl (hd t h4 t (List.mem_flatMap.mpr ⟨sp, m1, h3⟩))
      · exact uniq_spec l hl sp sp' t m1 m2 h3 h4

theorem pred_eq {specs : List Spec} (hn : (specs.flatMap (·.targets)).Nodup) {sp : Spec} {t : String}
    (h1 : sp ∈ specs) (h2 : t ∈ sp.targets) : pred specs t = some sp := by
  unfold pred
  cases hp : specs.find? (fun sp => sp.targets.contains t) with
  | none =>
    have := List.find?_eq_none.mp hp sp h1
    simp [h2] at this
  | some sp' =>
    have hc := List.find?_some hp
    have hm := List.mem_of_find?_eq_some hp
    have : t ∈ sp'.targets := by simpa using hc
    rw [uniq_spec specs hn sp sp' t h1 hm h2 this]

theorem pred_some {specs : List Spec} {X : String} {sp : Spec} (h : pred specs X = some sp) :
    sp ∈ specs ∧ X ∈ sp.targets := by
  unfold pred at h
  exact ⟨List.mem_of_find?_eq_some h, by simpa using List.find?_some h⟩

/-! ### counting specs: fuel bounds -/

theorem filter_length_le {α : Type} (p q : α → Bool) (hpq : ∀ x, p x = true → q x = true) (l : List α) :
    (l.filter p).length ≤ (l.filter q).length := by
  induction l with
  | nil => simp
  | cons x l ih =>
    rw [List.filter_cons, List.filter_cons]
    by_cases hp : p x = true
    · rw [if_pos hp, if_pos (hpq x hp)]; simp only [List.length_cons]; omega
    · rw [if_neg hp]
      by_cases hq : q x = true
      · rw [if_pos hq]; simp only [List.length_cons]; omega
      · rw [if_neg hq]; exact ih

theorem filter_length_lt {α : Type} (p q : α → Bool) (hpq : ∀ x, p x = true → q x = true) (l : List α)
    (a : α) (ha : a ∈ l) (hq : q a = true) (hp : ¬ p a = true) :
    (l.filter p).length < (l.filter q).length := by
  induction l with
  | nil => cases ha
  | cons x l ih =>
    rw [List.filter_cons, List.filter_cons]
    rcases List.mem_cons.mp ha with e | ha'
    · subst e
      rw [if_neg hp, if_pos hq]
      have := filter_length_le p q hpq l
      simp only [List.length_cons]; omega
    · have := ih ha'
      by_cases hp' : p x = true
      · rw [if_pos hp', if_pos (hpq x hp')]; simp only [List.length_cons]; omega
      · rw [if_neg hp']
        by_cases hq' : q x = true
        · rw [if_pos hq']; simp only [List.length_cons]; omega
        · rw [if_neg hq']; exact this

/-- number of specs sitting on a topic of rank ≥ r: bounds how deep a walk starting at rank r can go -/
def cntGe (rank : String → Nat) (specs : List Spec) (r : Nat) : Nat :=
  (specs.filter (fun sp => decide (r ≤ rank sp.topic))).length
/-- number of specs sitting on a topic of rank < r: bounds how long a chain ending at rank r can be -/
def cntLt (rank : String → Nat) (specs : List Spec) (r : Nat) : Nat :=
  (specs.filter (fun sp => decide (rank sp.topic < r))).length

theorem cntGe_le (rank : String → Nat) (specs : List Spec) (r : Nat) : cntGe rank specs r ≤ specs.length :=
  List.length_filter_le _ _
theorem cntLt_le (rank : String → Nat) (specs : List Spec) (r : Nat) : cntLt rank specs r ≤ specs.length :=
  List.length_filter_le _ _

theorem cntGe_step {rank : String → Nat} {specs : List Spec} {sp : Spec} (h : sp ∈ specs) {r' : Nat}
    (hlt : rank sp.topic < r') : cntGe rank specs r' + 1 ≤ cntGe rank specs (rank sp.topic) := by
  unfold cntGe
  have := filter_length_lt (fun sp => decide (r' ≤ rank sp.topic)) (fun x => decide (rank sp.topic ≤ rank x.topic))
    (by intro x hx; simp only [decide_eq_true_eq] at hx ⊢; omega) specs sp h (by simp) (by simp; omega)
  omega

theorem cntLt_step {rank : String → Nat} {specs : List Spec} {sp : Spec} (h : sp ∈ specs) {r' : Nat}
    (hlt : rank sp.topic < r') : cntLt rank specs (rank sp.topic) + 1 ≤ cntLt rank specs r' := by
  unfold cntLt
  have := filter_length_lt (fun x => decide (rank x.topic < rank sp.topic)) (fun x => decide (rank x.topic < r'))
    (by intro x hx; simp only [decide_eq_true_eq] at hx ⊢; omega) specs sp h (by simp; omega) (by simp)
  omega

/-! ### visits ⊆ chain ⊆ visits -/

section
variable {specs : List Spec} {last : String → String → Option Nat} {T0 : String} {e0 : SEv}

theorem visits_arrives : ∀ (n : Nat) (T : String) (e : SEv), Arrives specs last T0 e0 T (seen last T e) →
    ∀ w ∈ visits specs last n T e, Arrives specs last T0 e0 w.1 w.2
  | 0, _, _, _ => by intro w hw; cases hw
  | n + 1, T, e, ha => by
    intro w hw
    unfold visits at hw
    rcases List.mem_cons.mp hw with e1 | hw
    · subst e1; exact ha
    · obtain ⟨k, hk, hw⟩ := List.mem_flatMap.mp hw
      obtain ⟨sp, h1, h2, h3, h4⟩ := mem_kids.mp hk
      exact visits_arrives n k _ (Arrives.hop ha h1 h2 h3 h4) w hw

/-- a walk with enough fuel is closed under "matching handler republishes" -/
theorem visits_closed {rank : String → Nat} (hf : ∀ sp ∈ specs, ∀ t ∈ sp.targets, rank sp.topic < rank t) :
    ∀ (n : Nat) (R : String) (eR : SEv), cntGe rank specs (rank R) + 1 ≤ n →
    ∀ (T : String) (e : SEv), (T, e) ∈ visits specs last n R eR → ∀ k ∈ kids specs T e,
      (k, seen last k e) ∈ visits specs last n R eR
  | 0, _, _, hn => by omega
  | n + 1, R, eR, hn => by
    intro T e hw k hk
    unfold visits at hw ⊢
    have adequate : ∀ k' ∈ kids specs R (seen last R eR), cntGe rank specs (rank k') + 1 ≤ n := by
      intro k' hk'
      obtain ⟨sp, h1, h2, _, h4⟩ := mem_kids.mp hk'
      have := cntGe_step (rank := rank) h1 (hf sp h1 k' h4)
      rw [h2] at this; omega
    rcases List.mem_cons.mp hw with e1 | hw
    · cases e1
      apply List.mem_cons_of_mem
      refine List.mem_flatMap.mpr ⟨k, hk, ?_⟩
      have := adequate k hk
      obtain ⟨m, rfl⟩ : ∃ m, n = m + 1 := ⟨n - 1, by omega⟩
      unfold visits; exact List.mem_cons_self
    · obtain ⟨k', hk', hw⟩ := List.mem_flatMap.mp hw
      apply List.mem_cons_of_mem
      exact List.mem_flatMap.mpr ⟨k', hk', visits_closed hf n k' _ (adequate k' hk') T e hw k hk⟩

theorem arrives_visits {rank : String → Nat} (hf : ∀ sp ∈ specs, ∀ t ∈ sp.targets, rank sp.topic < rank t)
    (n : Nat) (hn : cntGe rank specs (rank T0) + 1 ≤ n) {X : String} {e : SEv}
    (h : Arrives specs last T0 e0 X e) : (X, e) ∈ visits specs last n T0 e0 := by
  induction h with
  | root =>
    obtain ⟨m, rfl⟩ : ∃ m, n = m + 1 := ⟨n - 1, by omega⟩
    unfold visits; exact List.mem_cons_self
  | hop _ h1 h2 h3 h4 ih =>
    exact visits_closed hf n T0 e0 hn _ _ ih _ (mem_kids.mpr ⟨_, h1, h2, h3, h4⟩)

/-! ### pull ⊆ chain ⊆ pull -/

theorem pull_arrives : ∀ (n : Nat) (X : String) (e : SEv), pull specs last T0 e0 n X = some e →
    Arrives specs last T0 e0 X e
  | 0, _, _, h => by simp [pull] at h
  | n + 1, X, e, h => by
    unfold pull at h
    by_cases hx : (X == T0) = true
    · rw [if_pos hx] at h
      have : X = T0 := by simpa using hx
      subst this; cases h; exact Arrives.root
    · rw [if_neg hx] at h
      cases hp : pred specs X with
      | none => rw [hp] at h; cases h
      | some sp =>
        rw [hp] at h
        simp only at h
        cases hq : pull specs last T0 e0 n sp.topic with
        | none => rw [hq] at h; cases h
        | some e1 =>
          rw [hq] at h
          simp only at h
          by_cases hh : holds sp e1 = true
          · rw [if_pos hh] at h; cases h
            obtain ⟨hm, ht⟩ := pred_some hp
            exact Arrives.hop (pull_arrives n sp.topic e1 hq) hm rfl hh ht
          · rw [if_neg hh] at h; cases h

theorem arrives_pull {rank : String → Nat} (hg : Good specs rank T0) {X : String} {e : SEv}
    (h : Arrives specs last T0 e0 X e) :
    ∀ n, cntLt rank specs (rank X) + 1 ≤ n → pull specs last T0 e0 n X = some e := by
  induction h with
  | root =>
    intro n hn
    obtain ⟨m, rfl⟩ : ∃ m, n = m + 1 := ⟨n - 1, by omega⟩
    unfold pull; simp
  | @hop T e sp t _ h1 h2 h3 h4 ih =>
    intro n hn
    obtain ⟨m, rfl⟩ : ∃ m, n = m + 1 := ⟨n - 1, by omega⟩
    have hne : ¬ (t == T0) = true := by
      intro hc
      have : t = T0 := by simpa using hc
      exact hg.root (this ▸ List.mem_flatMap.mpr ⟨sp, h1, h4⟩)
    have hstep := cntLt_step (rank := rank) h1 (hg.fwd sp h1 t h4)
    have := ih m (by rw [← h2]; omega)
    unfold pull
    rw [if_neg hne, pred_eq hg.nodup h1 h4]
    simp only
    rw [h2, this]
    simp only
    rw [if_pos h3]

end

/-! ### every topic is visited at most once -/

/-- `Desc specs R Y`: `Y` is reachable from `R` along registered publish edges (matches ignored) -/
inductive Desc (specs : List Spec) (R : String) : String → Prop
  | refl : Desc specs R R
  | step {T t : String} {sp : Spec} : Desc specs R T → sp ∈ specs → sp.topic = T → t ∈ sp.targets → Desc specs R t

section
variable {specs : List Spec} {rank : String → Nat}

theorem desc_rank (hf : ∀ sp ∈ specs, ∀ t ∈ sp.targets, rank sp.topic < rank t) {R Y : String}
    (h : Desc specs R Y) : rank R ≤ rank Y := by
  induction h with
  | refl => exact Nat.le_refl _
  | step _ h1 h2 h3 ih => have := hf _ h1 _ h3; rw [h2] at this; omega

theorem desc_cases {R Y : String} (h : Desc specs R Y) :
    R = Y ∨ ∃ sp ∈ specs, Y ∈ sp.targets ∧ Desc specs R sp.topic := by
  cases h with
  | refl => exact Or.inl rfl
  | step h0 h1 h2 h3 => exact Or.inr ⟨_, h1, h3, h2 ▸ h0⟩

theorem desc_linear (hn : (specs.flatMap (·.targets)).Nodup) {A Y : String} (h : Desc specs A Y) :
    ∀ {B : String}, Desc specs B Y → Desc specs A B ∨ Desc specs B A := by
  induction h with
  | refl => intro B hb; exact Or.inr hb
  | @step T t sp h0 h1 h2 h3 ih =>
    intro B hb
    cases hb with
    | refl => exact Or.inl (Desc.step h0 h1 h2 h3)
    | @step T' _ sp' g0 g1 g2 g3 =>
      have : sp = sp' := uniq_spec specs hn sp sp' t h1 g1 h3 g3
      subst this
      rw [← g2, h2] at g0
      exact ih g0

/-- two children of one topic have disjoint sets of descendants -/
theorem kids_disjoint (hn : (specs.flatMap (·.targets)).Nodup)
    (hf : ∀ sp ∈ specs, ∀ t ∈ sp.targets, rank sp.topic < rank t) {R k1 k2 Y : String} {sp1 sp2 : Spec}
    (a1 : sp1 ∈ specs) (a2 : sp1.topic = R) (a3 : k1 ∈ sp1.targets)
    (b1 : sp2 ∈ specs) (b2 : sp2.topic = R) (b3 : k2 ∈ sp2.targets)
    (d1 : Desc specs k1 Y) (d2 : Desc specs k2 Y) : k1 = k2 := by
  have key : ∀ {ka kb : String} {spa spb : Spec}, spa ∈ specs → spa.topic = R → ka ∈ spa.targets →
      spb ∈ specs → spb.topic = R → kb ∈ spb.targets → Desc specs ka kb → ka = kb := by
    intro ka kb spa spb c1 c2 c3 e1 e2 e3 d
    rcases desc_cases d with h | ⟨sp, s1, s2, s3⟩
    · exact h
    · have : sp = spb := uniq_spec specs hn sp spb kb s1 e1 s2 e3
      subst this
      have r1 := desc_rank hf s3
      have r2 := hf spa c1 ka c3
      rw [c2] at r2; rw [e2] at r1
      omega
  rcases desc_linear hn d1 d2 with h | h
  · exact key a1 a2 a3 b1 b2 b3 h
  · exact (key b1 b2 b3 a1 a2 a3 h).symm

theorem desc_trans {R T Y : String} (h1 : Desc specs R T) (h2 : Desc specs T Y) : Desc specs R Y := by
  induction h2 with
  | refl => exact h1
  | step _ g1 g2 g3 ih => exact Desc.step ih g1 g2 g3

theorem visits_desc {last : String → String → Option Nat} : ∀ (n : Nat) (T : String) (e : SEv),
    ∀ w ∈ visits specs last n T e, Desc specs T w.1
  | 0, _, _ => by intro w hw; cases hw
  | n + 1, T, e => by
    intro w hw
    unfold visits at hw
    rcases List.mem_cons.mp hw with e1 | hw
    · subst e1; exact Desc.refl
    · obtain ⟨k, hk, hw⟩ := List.mem_flatMap.mp hw
      obtain ⟨sp, h1, h2, _, h4⟩ := mem_kids.mp hk
      exact desc_trans (Desc.step Desc.refl h1 h2 h4) (visits_desc n k _ w hw)

theorem kids_nodup (hn : (specs.flatMap (·.targets)).Nodup) (T : String) (e : SEv) : (kids specs T e).Nodup := by
  unfold kids
  have : ∀ (l l' : List Spec), List.Sublist l l' → (l'.flatMap (·.targets)).Nodup → (l.flatMap (·.targets)).Nodup := by
    intro l l' hs
    induction hs with
    | slnil => intro h; exact h
    | cons a _ ih =>
      intro h; rw [List.flatMap_cons, List.nodup_append] at h; exact ih h.2.1
    | cons_cons a hs ih =>
      intro h
      rw [List.flatMap_cons, List.nodup_append] at h ⊢
      refine ⟨h.1, ih h.2.1, ?_⟩
      intro x hx y hy
      obtain ⟨sp, h1, h2⟩ := List.mem_flatMap.mp hy
      exact h.2.2 x hx y (List.mem_flatMap.mpr ⟨sp, hs.subset h1, h2⟩)
  exact this _ _ ((List.filter_sublist).trans List.filter_sublist) hn

/-- **at most once**: the walk never comes to a topic twice -/
theorem visits_nodup {last : String → String → Option Nat} (hn : (specs.flatMap (·.targets)).Nodup)
    (hf : ∀ sp ∈ specs, ∀ t ∈ sp.targets, rank sp.topic < rank t) :
    ∀ (n : Nat) (T : String) (e : SEv), ((visits specs last n T e).map (·.1)).Nodup
  | 0, _, _ => by simp [visits]
  | n + 1, T, e => by
    unfold visits
    rw [List.map_cons, List.nodup_cons, List.map_flatMap]
    constructor
    · intro hmem
      obtain ⟨k, hk, hy⟩ := List.mem_flatMap.mp hmem
      obtain ⟨w, hw, e1⟩ := List.mem_map.mp hy
      obtain ⟨sp, h1, h2, _, h4⟩ := mem_kids.mp hk
      have r1 := desc_rank hf (visits_desc n k _ w hw)
      have r2 := hf sp h1 k h4
      rw [h2] at r2; rw [e1] at r1
      simp only at r1; omega
    · unfold List.Nodup
      rw [List.pairwise_flatMap]
      constructor
      · intro k _; exact visits_nodup hn hf n k _
      · refine List.Pairwise.imp_of_mem ?_ (kids_nodup hn T (seen last T e))
        intro k1 k2 hk1 hk2 hne x hx y hy hxy
        obtain ⟨w1, hw1, e1⟩ := List.mem_map.mp hx
        obtain ⟨w2, hw2, e2⟩ := List.mem_map.mp hy
        obtain ⟨sp1, a1, a2, _, a4⟩ := mem_kids.mp hk1
        obtain ⟨sp2, b1, b2, _, b4⟩ := mem_kids.mp hk2
        have d1 := visits_desc n k1 _ w1 hw1
        have d2 := visits_desc n k2 _ w2 hw2
        rw [e1] at d1; rw [e2, ← hxy] at d2
        exact hne (kids_disjoint hn hf a1 a2 a4 b1 b2 b4 d1 d2)

end

end Kap.C09.SvcProofs
