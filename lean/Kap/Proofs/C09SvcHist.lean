/-
C09 service layer, proofs part 3: induction over histories. The invariant ties the model state to the
specification's own output (registered specs, recorders, last arrivals per topic and id, received sequences).
-/
import Kap.Proofs.C09SvcState
namespace Kap.C09.SvcProofs
open Kap.C09 Kap.C09.Svc Kap.C09.SvcSpec

structure Inv (hr : List Svc.Op) (s : St) : Prop where
  specs : s.specs = specsR hr
  recsNodup : s.recs.Nodup
  recs : ∀ X name, (X, name) ∈ s.recs ↔ registeredR hr name X = true
  last : ∀ Y id, lastOf s Y id = lastLevel (arrivalsR hr Y) id
  recv : ∀ name X, s.received name X = receivedR hr name X
  ovf : s.overflow = false

theorem filter_pair_nodup : ∀ (l : List (String × String)), l.Nodup → ∀ (X name : String) (e : SEv),
    (l.filter (fun r => r.1 == X && r.2 == name)).map (fun _ => e) = if (X, name) ∈ l then [e] else []
  | [], _, _, _, _ => by simp
  | r :: l, hnd, X, name, e => by
    rw [List.nodup_cons] at hnd
    have ih := filter_pair_nodup l hnd.2 X name e
    rw [List.filter_cons]
    by_cases h : (r.1 == X && r.2 == name) = true
    · have hr : r = (X, name) := by
        simp only [Bool.and_eq_true, beq_iff_eq] at h
        exact Prod.ext h.1 h.2
      rw [if_pos h, List.map_cons, ih, hr]
      have : (X, name) ∉ l := hr ▸ hnd.1
      simp [this]
    · rw [if_neg h, ih]
      have hne : (X, name) ≠ r := by
        intro hc; apply h; rw [← hc]; simp
      simp only [List.mem_cons, hne, false_or]

theorem toList_flatMap_recs (o : Option SEv) (recs : List (String × String)) (hnd : recs.Nodup) (X name : String) :
    o.toList.flatMap (fun e => (recs.filter (fun r => r.1 == X && r.2 == name)).map (fun _ => e)) =
      if (X, name) ∈ recs then o.toList else [] := by
  cases o with
  | none => simp
  | some e =>
    simp only [Option.toList_some, List.flatMap_cons, List.flatMap_nil, List.append_nil]
    exact filter_pair_nodup recs hnd X name e

/-- one collect, given the hypotheses on the configuration at that moment -/
theorem inv_collect {hr : List Svc.Op} {s : St} (inv : Inv hr s) (rank : String → Nat) (T : String) (ev : SEv)
    (hg : Good s.specs rank T) : Inv (.collect T ev :: hr) (Svc.step s (.collect T ev)).1 := by
  have hfun : lastOf s = fun Y id => lastLevel (arrivalsR hr Y) id :=
    funext fun Y => funext fun id => inv.last Y id
  have hd : (Svc.step s (.collect T ev)).1 =
      recAll s (visits s.specs (lastOf s) (fuelFor s) T { ev with prev := 0 }) := by
    show deliver (fuelFor s) s T { ev with prev := 0 } = _
    apply deliver_eq_recAll (rank := rank) s.specs (lastOf s) hg.nodup hg.fwd _ s T _ rfl
    · have := cntGe_le rank s.specs (rank T); unfold fuelFor; omega
    · intro w _ id; rfl
  have hK := fun X => visits_filter_eq_pull hg (lastOf s) { ev with prev := 0 } (fuelFor s)
    (by unfold fuelFor; omega) X
  rw [hd]
  constructor
  · rw [recAll_specs]; exact inv.specs
  · rw [recAll_recs]; exact inv.recsNodup
  · intro X name; rw [recAll_recs]; exact inv.recs X name
  · intro Y id
    rw [lastOf_recAll, hK Y]
    show _ = lastLevel (arrivalsR hr Y ++ _) id
    rw [lastLevel_append, inv.last Y id, ← inv.specs, ← hfun]
  · intro name X
    rw [received_recAll, hK X, toList_flatMap_recs _ _ inv.recsNodup, inv.recv name X]
    show _ = receivedR hr name X ++ _
    congr 1
    rw [← inv.specs, ← hfun]
    by_cases hreg : registeredR hr name X = true
    · rw [if_pos ((inv.recs X name).mpr hreg), if_pos hreg]
    · rw [if_neg (fun h => hreg ((inv.recs X name).mp h)), if_neg hreg]
  · rw [recAll_overflow]; exact inv.ovf

/-- the operations that do not deliver anything -/
theorem inv_other {hr : List Svc.Op} {s : St} (inv : Inv hr s) (op : Svc.Op)
    (hop : ∀ T ev, op ≠ .collect T ev) : Inv (op :: hr) (Svc.step s op).1 := by
  cases op with
  | collect T ev => exact absurd rfl (hop T ev)
  | recorder T n =>
    simp only [Svc.step]
    by_cases hc : s.recs.contains (T, n) = true
    · rw [if_pos hc]
      have hm : (T, n) ∈ s.recs := by simpa using hc
      refine ⟨inv.specs, inv.recsNodup, ?_, inv.last, inv.recv, inv.ovf⟩
      intro X name
      show _ ↔ ((T == X && n == name) || registeredR hr name X) = true
      rw [inv.recs X name]
      constructor
      · intro h; rw [h]; simp
      · intro h
        rcases Bool.or_eq_true _ _ |>.mp h with h1 | h1
        · simp only [Bool.and_eq_true, beq_iff_eq] at h1
          rw [← h1.1, ← h1.2]; exact (inv.recs T n).mp hm
        · exact h1
    · rw [if_neg hc]
      have hm : (T, n) ∉ s.recs := by simpa using hc
      refine ⟨inv.specs, ?_, ?_, inv.last, inv.recv, inv.ovf⟩
      · show (s.recs ++ [(T, n)]).Nodup
        rw [List.nodup_append]
        refine ⟨inv.recsNodup, by simp, ?_⟩
        intro a ha b hb
        have : b = (T, n) := by simpa using hb
        rw [this]; intro e; exact hm (e ▸ ha)
      · intro X name
        show (X, name) ∈ s.recs ++ [(T, n)] ↔ ((T == X && n == name) || registeredR hr name X) = true
        rw [List.mem_append, inv.recs X name, Bool.or_eq_true]
        constructor
        · rintro (h | h)
          · exact Or.inr h
          · have : (X, name) = (T, n) := by simpa using h
            cases this; exact Or.inl (by simp)
        · rintro (h | h)
          · simp only [Bool.and_eq_true, beq_iff_eq] at h
            right; rw [← h.1, ← h.2]; simp
          · exact Or.inl h
  | reg sp =>
    simp only [Svc.step]
    by_cases hc : s.specs.any (fun x => x.topic == sp.topic && x.hid == sp.hid) = true
    · rw [if_pos hc]
      refine ⟨?_, inv.recsNodup, inv.recs, inv.last, inv.recv, inv.ovf⟩
      show s.specs = if (specsR hr).any (fun x => x.topic == sp.topic && x.hid == sp.hid) then specsR hr else specsR hr ++ [sp]
      rw [← inv.specs, if_pos hc]
    · rw [if_neg hc]
      refine ⟨?_, inv.recsNodup, inv.recs, inv.last, inv.recv, inv.ovf⟩
      show s.specs ++ [sp] = if (specsR hr).any (fun x => x.topic == sp.topic && x.hid == sp.hid) then specsR hr else specsR hr ++ [sp]
      rw [← inv.specs, if_neg hc]
  | dereg T hid =>
    refine ⟨?_, inv.recsNodup, inv.recs, inv.last, inv.recv, inv.ovf⟩
    show s.specs.filter _ = (specsR hr).filter _
    rw [← inv.specs]
  | upd T old sp =>
    refine ⟨?_, inv.recsNodup, inv.recs, inv.last, inv.recv, inv.ovf⟩
    show s.specs.filter _ ++ [sp] = (specsR hr).filter _ ++ [sp]
    rw [← inv.specs]

theorem inv_init : Inv [] ({} : St) :=
  ⟨rfl, List.nodup_nil, by intro X name; simp [registeredR], by intro Y id; rfl, by intro n X; rfl, rfl⟩

/-! ### from the decidable hypotheses to `Good` -/

theorem nodup_of_filter_le_one : ∀ (l : List String), (∀ t ∈ l, (l.filter (· == t)).length ≤ 1) → l.Nodup := by
  intro l h
  rw [List.nodup_iff_count]
  intro a
  by_cases ha : a ∈ l
  · rw [List.count_eq_length_filter]; exact h a ha
  · rw [List.count_eq_zero_of_not_mem ha]; omega

theorem good_of_checks {s : St} {direct : List String} {order : List String} {T : String}
    (h1 : singleEntry s direct = true) (hT : T ∈ direct) (h2 : forwardOnly order s.specs = true) :
    Good s.specs order.idxOf T := by
  unfold singleEntry at h1
  simp only at h1
  have h1' := List.all_eq_true.mp h1
  refine ⟨?_, ?_, ?_⟩
  · apply nodup_of_filter_le_one
    intro t ht
    have := h1' t ht
    simp only [Bool.and_eq_true, decide_eq_true_eq] at this
    exact this.1
  · intro hc
    have := h1' T hc
    simp only [Bool.and_eq_true, Bool.not_eq_true', List.contains_eq_mem, decide_eq_false_iff_not] at this
    exact this.2 hT
  · intro sp hsp t ht
    unfold forwardOnly at h2
    have := List.all_eq_true.mp (List.all_eq_true.mp h2 sp hsp) t ht
    simpa using this

theorem run_snoc (ops : List Svc.Op) (op : Svc.Op) : Svc.run (ops ++ [op]) = (Svc.step (Svc.run ops) op).1 := by
  unfold Svc.run; rw [List.foldl_append]; rfl

theorem directs_snoc_collect (ops : List Svc.Op) (T : String) (ev : SEv) : T ∈ Svc.directs (ops ++ [.collect T ev]) := by
  unfold Svc.directs; rw [List.filterMap_append]; simp

/-- the invariant holds after every history that satisfies the two decidable hypotheses at every step -/
theorem inv_run (order : List String) : ∀ (hr : List Svc.Op),
    (∀ k, k ≤ hr.length → singleEntry (Svc.run (hr.reverse.take k)) (Svc.directs (hr.reverse.take k)) = true) →
    (∀ k, k ≤ hr.length → forwardOnly order (Svc.run (hr.reverse.take k)).specs = true) →
    Inv hr (Svc.run hr.reverse)
  | [], _, _ => inv_init
  | op :: hr, h1, h2 => by
    have hlen : hr.reverse.length = hr.length := List.length_reverse
    have ih := inv_run order hr
      (by intro k hk
          have := h1 k (by simp only [List.length_cons]; omega)
          rwa [List.reverse_cons, List.take_append_of_le_length (by omega)] at this)
      (by intro k hk
          have := h2 k (by simp only [List.length_cons]; omega)
          rwa [List.reverse_cons, List.take_append_of_le_length (by omega)] at this)
    rw [List.reverse_cons, run_snoc]
    by_cases hop : ∀ T ev, op ≠ .collect T ev
    · exact inv_other ih op hop
    · have : ∃ T ev, op = .collect T ev := by
        cases op with
        | collect T ev => exact ⟨T, ev, rfl⟩
        | recorder _ _ => exact absurd (by intro _ _ h; cases h) hop
        | reg _ => exact absurd (by intro _ _ h; cases h) hop
        | dereg _ _ => exact absurd (by intro _ _ h; cases h) hop
        | upd _ _ _ => exact absurd (by intro _ _ h; cases h) hop
      obtain ⟨T, ev, rfl⟩ := this
      have e1 := h1 (hr.length + 1) (by simp)
      have e2 := h2 (hr.length + 1) (by simp)
      rw [List.take_of_length_le (by simp), List.reverse_cons] at e1 e2
      have hsp : (Svc.run (hr.reverse ++ [.collect T ev])).specs = (Svc.run hr.reverse).specs := by
        rw [run_snoc]; exact deliver_specs _ _ _ _
      have hg : Good (Svc.run hr.reverse).specs order.idxOf T := by
        rw [← hsp]
        exact good_of_checks e1 (directs_snoc_collect _ _ _) e2
      exact inv_collect ih order.idxOf T ev hg

end Kap.C09.SvcProofs
