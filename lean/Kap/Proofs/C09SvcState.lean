/-
C09 service layer, proofs part 2: the model state. `record` / `recAll` (a sequence of topic collections),
the depth-first `deliver` equals `recAll` over the state-free walk `visits` when no topic is visited twice
and the fuel is adequate, and what that does to `lastOf` (previous levels) and `St.received`.
-/
import Kap.Proofs.C09SvcGraph
namespace Kap.C09.SvcProofs
open Kap.C09 Kap.C09.Svc Kap.C09.SvcSpec

/-! ### association lists -/

theorem assoc_find_map_same {β : Type} (l : List (String × β)) (T : String) (t : β)
    (h : l.any (fun p => p.1 == T) = true) :
    (l.map (fun p => if p.1 == T then (T, t) else p)).find? (fun p => p.1 == T) = some (T, t) := by
  induction l with
  | nil => simp at h
  | cons p ps ih =>
    rw [List.map_cons, List.find?_cons]
    by_cases hp : (p.1 == T) = true
    · simp [hp]
    · have hp' : (p.1 == T) = false := by simpa using hp
      rw [List.any_cons, hp', Bool.false_or] at h
      simp only [hp', Bool.false_eq_true, ↓reduceIte]
      exact ih h

theorem assoc_find_map_other {β : Type} (l : List (String × β)) (T T' : String) (t : β) (hne : T' ≠ T) :
    (l.map (fun p => if p.1 == T then (T, t) else p)).find? (fun p => p.1 == T') =
      l.find? (fun p => p.1 == T') := by
  induction l with
  | nil => rfl
  | cons p ps ih =>
    rw [List.map_cons, List.find?_cons, List.find?_cons, ih]
    by_cases hp : (p.1 == T) = true
    · have hp' : p.1 = T := by simpa using hp
      have h1 : (T == T') = false := by simpa using (fun h => hne h.symm)
      simp [hp', h1]
    · have hp' : (p.1 == T) = false := by simpa using hp
      simp [hp']

theorem find_none_of_not_any {β : Type} (l : List (String × β)) (T : String)
    (h : ¬ l.any (fun p => p.1 == T) = true) : l.find? (fun p => p.1 == T) = none := by
  apply List.find?_eq_none.mpr
  intro x hx hc
  exact h (List.any_eq_true.mpr ⟨x, hx, hc⟩)

theorem cur_setCur_same (s : St) (T : String) (l : List ES) : (s.setCur T l).cur T = l := by
  unfold St.setCur St.cur
  by_cases h : s.states.any (fun p => p.1 == T) = true
  · rw [if_pos h]; simp only; rw [assoc_find_map_same _ _ _ h]; rfl
  · rw [if_neg h]; simp only
    rw [List.find?_append, find_none_of_not_any _ _ h]
    simp

theorem cur_setCur_other (s : St) (T Y : String) (l : List ES) (hne : Y ≠ T) :
    (s.setCur T l).cur Y = s.cur Y := by
  unfold St.setCur St.cur
  by_cases h : s.states.any (fun p => p.1 == T) = true
  · rw [if_pos h]; simp only; rw [assoc_find_map_other _ _ _ _ hne]
  · rw [if_neg h]; simp only
    rw [List.find?_append]
    have : (T == Y) = false := by simpa using (fun h => hne h.symm)
    simp [this]

theorem setCur_specs (s : St) (T : String) (l : List ES) : (s.setCur T l).specs = s.specs := by
  unfold St.setCur; split <;> rfl
theorem setCur_recs' (s : St) (T : String) (l : List ES) : (s.setCur T l).recs = s.recs := by
  unfold St.setCur; split <;> rfl
theorem setCur_log' (s : St) (T : String) (l : List ES) : (s.setCur T l).log = s.log := by
  unfold St.setCur; split <;> rfl
theorem setCur_overflow (s : St) (T : String) (l : List ES) : (s.setCur T l).overflow = s.overflow := by
  unfold St.setCur; split <;> rfl

theorem find_upsertES (l : List ES) (x : ES) (id : String) :
    (upsertES l x).find? (fun y => y.id == id) = if x.id == id then some x else l.find? (fun y => y.id == id) := by
  unfold upsertES
  by_cases h : l.any (fun y => y.id == x.id) = true
  · rw [if_pos h]
    induction l with
    | nil => simp at h
    | cons y ys ih =>
      rw [List.map_cons, List.find?_cons, List.find?_cons]
      by_cases hy : (y.id == x.id) = true
      · have hy' : y.id = x.id := by simpa using hy
        rw [if_pos hy]
        by_cases hx : (x.id == id) = true
        · simp [hx]
        · have : (y.id == id) = false := by rw [hy']; simpa using hx
          simp only [hx, this, Bool.false_eq_true, ↓reduceIte]
          have hx' : ¬ x.id = id := by simpa using hx
          -- below the head nothing with id `id` changes
          clear ih h
          induction ys with
          | nil => rfl
          | cons z zs ihz =>
            rw [List.map_cons, List.find?_cons, List.find?_cons, ihz]
            by_cases hz : (z.id == x.id) = true
            · have hz' : z.id = x.id := by simpa using hz
              have : (z.id == id) = false := by rw [hz']; simpa using hx'
              simp [hz, hx, this]
            · simp [hz]
      · have hy'' : (y.id == x.id) = false := by simpa using hy
        rw [List.any_cons, hy'', Bool.false_or] at h
        simp only [hy'', Bool.false_eq_true, ↓reduceIte]
        rw [ih h]
        by_cases hx : (x.id == id) = true
        · have hx' : x.id = id := by simpa using hx
          have : (y.id == id) = false := by rw [← hx']; exact hy''
          simp [hx, this]
        · simp [hx]
  · rw [if_neg h, List.find?_append]
    by_cases hx : (x.id == id) = true
    · have hx' : x.id = id := by simpa using hx
      have : l.find? (fun y => y.id == id) = none := by
        apply List.find?_eq_none.mpr
        intro y hy hc
        exact h (List.any_eq_true.mpr ⟨y, hy, by rw [hx']; exact hc⟩)
      simp [hx, this]
    · simp [hx]

/-! ### `record`, `lastOf` -/

/-- level of the id's current state on topic `Y` -/
def lastOf (s : St) (Y id : String) : Option Nat := ((s.cur Y).find? (fun x => x.id == id)).map (·.level)

theorem evAt_eq_seen (s : St) (T : String) (ev : SEv) : evAt s T ev = seen (lastOf s) T ev := by
  unfold evAt seen lastOf
  cases (s.cur T).find? (fun x => x.id == ev.id) <;> rfl

theorem record_specs (s : St) (T : String) (e : SEv) : (record s T e).specs = s.specs := by
  unfold record; exact setCur_specs _ _ _
theorem record_recs (s : St) (T : String) (e : SEv) : (record s T e).recs = s.recs := by
  unfold record; exact setCur_recs' _ _ _
theorem record_overflow (s : St) (T : String) (e : SEv) : (record s T e).overflow = s.overflow := by
  unfold record; exact setCur_overflow _ _ _
theorem record_log (s : St) (T : String) (e : SEv) :
    (record s T e).log = s.log ++ (s.recs.filter (fun r => r.1 == T)).map (fun r => (r.2, T, e)) := by
  unfold record; simp only [setCur_log', setCur_recs']
theorem record_cur_same (s : St) (T : String) (e : SEv) :
    (record s T e).cur T = upsertES (s.cur T) { id := e.id, level := e.level, time := e.time } := by
  unfold record; exact cur_setCur_same _ _ _
theorem record_cur_other (s : St) (T Y : String) (e : SEv) (h : Y ≠ T) : (record s T e).cur Y = s.cur Y := by
  unfold record; exact cur_setCur_other _ _ _ _ h

/-- the one-event update of "last level of `id`" -/
def bump (id : String) (acc : Option Nat) (e : SEv) : Option Nat := if e.id == id then some e.level else acc

theorem lastOf_record (s : St) (T Y id : String) (e : SEv) :
    lastOf (record s T e) Y id = if Y == T then bump id (lastOf s T id) e else lastOf s Y id := by
  unfold lastOf
  by_cases h : (Y == T) = true
  · have : Y = T := by simpa using h
    subst this
    rw [if_pos h, record_cur_same, find_upsertES]
    unfold bump
    simp only
    split <;> rfl
  · rw [if_neg h, record_cur_other _ _ _ _ (by simpa using h)]

/-- a sequence of topic collections -/
def recAll (s : St) (vs : List (String × SEv)) : St := vs.foldl (fun a v => record a v.1 v.2) s

theorem recAll_nil (s : St) : recAll s [] = s := rfl
theorem recAll_cons (s : St) (v : String × SEv) (vs : List (String × SEv)) :
    recAll s (v :: vs) = recAll (record s v.1 v.2) vs := rfl
theorem recAll_append (s : St) (a b : List (String × SEv)) : recAll s (a ++ b) = recAll (recAll s a) b := by
  unfold recAll; rw [List.foldl_append]

theorem recAll_specs (s : St) (vs : List (String × SEv)) : (recAll s vs).specs = s.specs := by
  induction vs generalizing s with
  | nil => rfl
  | cons v vs ih => rw [recAll_cons, ih, record_specs]
theorem recAll_recs (s : St) (vs : List (String × SEv)) : (recAll s vs).recs = s.recs := by
  induction vs generalizing s with
  | nil => rfl
  | cons v vs ih => rw [recAll_cons, ih, record_recs]
theorem recAll_overflow (s : St) (vs : List (String × SEv)) : (recAll s vs).overflow = s.overflow := by
  induction vs generalizing s with
  | nil => rfl
  | cons v vs ih => rw [recAll_cons, ih, record_overflow]

theorem lastOf_recAll (s : St) (vs : List (String × SEv)) (X id : String) :
    lastOf (recAll s vs) X id = ((vs.filter (fun v => v.1 == X)).map (·.2)).foldl (bump id) (lastOf s X id) := by
  induction vs generalizing s with
  | nil => rfl
  | cons v vs ih =>
    rw [recAll_cons, ih, lastOf_record, List.filter_cons]
    by_cases h : (v.1 == X) = true
    · have h' : v.1 = X := by simpa using h
      have h2 : (X == v.1) = true := by simpa using h'.symm
      rw [if_pos h, if_pos h2, List.map_cons, List.foldl_cons, h']
    · have h2 : ¬ (X == v.1) = true := by
        intro hc; apply h; simpa using (by simpa using hc : X = v.1).symm
      rw [if_neg h, if_neg h2]

theorem lastOf_recAll_not_mem (s : St) (vs : List (String × SEv)) (X id : String)
    (h : ∀ v ∈ vs, v.1 ≠ X) : lastOf (recAll s vs) X id = lastOf s X id := by
  rw [lastOf_recAll]
  have : vs.filter (fun v => v.1 == X) = [] := by
    apply List.filter_eq_nil_iff.mpr
    intro v hv; simpa using h v hv
  rw [this]; rfl

theorem lastLevel_append (arr l : List SEv) (id : String) :
    lastLevel (arr ++ l) id = l.foldl (bump id) (lastLevel arr id) := by
  induction l generalizing arr with
  | nil => simp
  | cons e l ih =>
    have : arr ++ e :: l = (arr ++ [e]) ++ l := by simp
    rw [this, ih, List.foldl_cons]
    congr 1
    unfold lastLevel bump
    rw [List.reverse_append]
    simp only [List.reverse_cons, List.reverse_nil, List.nil_append, List.singleton_append, List.find?_cons]
    by_cases h : (e.id == id) = true
    · simp [h]
    · simp [h]

/-! ### what a recorder receives -/

theorem received_record (s : St) (T : String) (e : SEv) (name X : String) :
    (record s T e).received name X =
      s.received name X ++ (if T == X then (s.recs.filter (fun r => r.1 == X && r.2 == name)).map (fun _ => e) else []) := by
  unfold St.received
  rw [record_log, List.filter_append, List.map_append]
  congr 1
  by_cases h : (T == X) = true
  · have h' : T = X := by simpa using h
    subst h'
    rw [if_pos h, List.filter_map, List.map_map, List.filter_filter]
    have : (fun r : String × String => ((fun e_1 : String × String × SEv => e_1.1 == name && e_1.2.1 == T) ∘ fun r => (r.2, T, e)) r && r.1 == T)
         = (fun r : String × String => r.1 == T && r.2 == name) := by
      funext r
      simp only [Function.comp, beq_self_eq_true, Bool.and_true]
      exact Bool.and_comm _ _
    rw [this]
    rfl
  · rw [if_neg h]
    have : ((s.recs.filter (fun r => r.1 == T)).map (fun r => (r.2, T, e))).filter
        (fun e_1 : String × String × SEv => e_1.1 == name && e_1.2.1 == X) = [] := by
      apply List.filter_eq_nil_iff.mpr
      intro x hx
      obtain ⟨r, _, rfl⟩ := List.mem_map.mp hx
      simp only [Bool.and_eq_true, not_and]
      intro _; exact h
    rw [this]; rfl

theorem received_recAll (s : St) (vs : List (String × SEv)) (name X : String) :
    (recAll s vs).received name X =
      s.received name X ++ ((vs.filter (fun v => v.1 == X)).map (·.2)).flatMap
        (fun e => (s.recs.filter (fun r => r.1 == X && r.2 == name)).map (fun _ => e)) := by
  induction vs generalizing s with
  | nil => simp [recAll_nil]
  | cons v vs ih =>
    rw [recAll_cons, ih, received_record, record_recs, List.filter_cons]
    by_cases h : (v.1 == X) = true
    · rw [if_pos h, if_pos h, List.map_cons, List.flatMap_cons, List.append_assoc]
    · rw [if_neg h, if_neg h, List.append_nil]

/-! ### `deliver` is `recAll` over the state-free walk -/

theorem pubFold_eq (f : St → String → St) (e' : SEv) : ∀ (L : List Spec) (s : St),
    pubFold f e' L s = ((L.filter (fun sp => holds sp e')).flatMap (·.targets)).foldl f s
  | [], s => rfl
  | sp :: L, s => by
    have ih := pubFold_eq f e' L
    unfold pubFold at ih ⊢
    rw [List.foldl_cons, List.filter_cons]
    unfold holds
    cases hm : (matchTable.getD sp.midx .all).eval e' with
    | none => simp only [reduceCtorEq, beq_iff_eq, ↓reduceIte]; exact ih _
    | some b =>
      cases b with
      | false => simp only [Option.some.injEq, Bool.false_eq_true, beq_iff_eq, ↓reduceIte]; exact ih _
      | true =>
        simp only [beq_self_eq_true, ↓reduceIte, List.flatMap_cons, List.foldl_append]
        exact ih _

theorem deliver_specs (fuel : Nat) (s : St) (T : String) (ev : SEv) : (deliver fuel s T ev).specs = s.specs := by
  induction fuel generalizing s T ev with
  | zero => rfl
  | succ n ih =>
    unfold deliver
    simp only
    have h2 : (record s T (evAt s T ev)).specs = s.specs := record_specs _ _ _
    rw [pubFold_eq]
    generalize ((List.filter (fun sp => holds sp (evAt s T ev))
      (List.filter (fun sp => sp.topic == T) (record s T (evAt s T ev)).specs)).flatMap (·.targets)) = ks
    generalize record s T (evAt s T ev) = s2 at h2
    induction ks generalizing s2 with
    | nil => exact h2
    | cons k ks ihk => rw [List.foldl_cons]; exact ihk _ ((ih _ _ _).trans h2)

theorem deliver_eq_recAll {rank : String → Nat} (specs : List Spec) (last : String → String → Option Nat)
    (hn : (specs.flatMap (·.targets)).Nodup)
    (hf : ∀ sp ∈ specs, ∀ t ∈ sp.targets, rank sp.topic < rank t) :
    ∀ (n : Nat) (s : St) (T : String) (e : SEv), s.specs = specs → cntGe rank specs (rank T) + 1 ≤ n →
      (∀ w ∈ visits specs last n T e, ∀ id, lastOf s w.1 id = last w.1 id) →
      deliver n s T e = recAll s (visits specs last n T e)
  | 0, _, _, _, _, h, _ => by omega
  | n + 1, s, T, e, hs, hfuel, hlast => by
    have hnd := visits_nodup (last := last) hn hf (n + 1) T e
    unfold visits at hlast hnd ⊢
    unfold deliver
    simp only
    have hsee : evAt s T e = seen last T e := by
      rw [evAt_eq_seen]
      unfold seen
      rw [hlast (T, seen last T e) List.mem_cons_self e.id]
    rw [hsee, pubFold_eq, record_specs, hs, recAll_cons]
    simp only
    rw [List.map_cons, List.nodup_cons, List.map_flatMap] at hnd
    obtain ⟨hroot, hnd⟩ := hnd
    -- the fold over the children
    have adequate : ∀ k ∈ kids specs T (seen last T e), cntGe rank specs (rank k) + 1 ≤ n := by
      intro k hk
      obtain ⟨sp, h1, h2, _, h4⟩ := mem_kids.mp hk
      have := cntGe_step (rank := rank) h1 (hf sp h1 k h4)
      rw [h2] at this; omega
    have hl2 : ∀ k ∈ kids specs T (seen last T e), ∀ w ∈ visits specs last n k (seen last T e),
        ∀ id, lastOf (record s T (seen last T e)) w.1 id = last w.1 id := by
      intro k hk w hw id
      have hmem : w ∈ (kids specs T (seen last T e)).flatMap (fun t => visits specs last n t (seen last T e)) :=
        List.mem_flatMap.mpr ⟨k, hk, hw⟩
      have hne : w.1 ≠ T := by
        intro hc
        apply hroot
        rw [← List.map_flatMap]
        exact List.mem_map.mpr ⟨w, hmem, hc⟩
      have hne' : ¬ (w.1 == T) = true := by simpa using hne
      rw [lastOf_record, if_neg hne']
      exact hlast w (List.mem_cons_of_mem _ hmem) id
    have hs2 : (record s T (seen last T e)).specs = specs := by rw [record_specs, hs]
    change List.foldl (fun acc t => deliver n acc t (seen last T e)) (record s T (seen last T e))
      (kids specs T (seen last T e)) = _
    generalize record s T (seen last T e) = s2 at hl2 hs2 ⊢
    generalize kids specs T (seen last T e) = ks at adequate hl2 hnd ⊢
    induction ks generalizing s2 with
    | nil => rfl
    | cons k ks ihk =>
      rw [List.foldl_cons, List.flatMap_cons, recAll_append]
      rw [List.flatMap_cons, List.nodup_append] at hnd
      obtain ⟨_, hnd2, hdis⟩ := hnd
      have hk := deliver_eq_recAll specs last hn hf n s2 k (seen last T e) hs2
        (adequate k List.mem_cons_self) (hl2 k List.mem_cons_self)
      rw [hk]
      apply ihk
      · rw [recAll_specs, hs2]
      · intro k' hk'; exact adequate k' (List.mem_cons_of_mem _ hk')
      · intro k' hk' w hw id
        rw [lastOf_recAll_not_mem]
        · exact hl2 k' (List.mem_cons_of_mem _ hk') w hw id
        · intro v hv hc
          refine hdis v.1 (List.mem_map.mpr ⟨v, hv, rfl⟩) w.1 ?_ hc
          exact List.mem_flatMap.mpr ⟨k', hk', List.mem_map.mpr ⟨w, hw, rfl⟩⟩
      · exact hnd2

/-! ### one collect -/

theorem filter_of_nodup_mem : ∀ (vs : List (String × SEv)), (vs.map (·.1)).Nodup → ∀ (X : String) (e : SEv),
    (X, e) ∈ vs → vs.filter (fun v => v.1 == X) = [(X, e)]
  | [], _, _, _, h => by cases h
  | v :: vs, hnd, X, e, h => by
    rw [List.map_cons, List.nodup_cons] at hnd
    rw [List.filter_cons]
    rcases List.mem_cons.mp h with e1 | h'
    · subst e1
      simp only [beq_self_eq_true, ↓reduceIte, List.cons.injEq, true_and]
      apply List.filter_eq_nil_iff.mpr
      intro w hw hc
      have : w.1 = X := by simpa using hc
      exact hnd.1 (List.mem_map.mpr ⟨w, hw, this⟩)
    · have : ¬ (v.1 == X) = true := by
        intro hc
        have : v.1 = X := by simpa using hc
        exact hnd.1 (List.mem_map.mpr ⟨(X, e), h', this.symm⟩)
      rw [if_neg this]
      exact filter_of_nodup_mem vs hnd.2 X e h'

/-- **The walk is the pull**, topic by topic. -/
theorem visits_filter_eq_pull {specs : List Spec} {rank : String → Nat} {T0 : String}
    (hg : Good specs rank T0) (last : String → String → Option Nat) (e0 : SEv) (n : Nat)
    (hn : specs.length + 1 ≤ n) (X : String) :
    ((visits specs last n T0 e0).filter (fun v => v.1 == X)).map (·.2) =
      (pull specs last T0 e0 (specs.length + 1) X).toList := by
  have hcg := cntGe_le rank specs (rank T0)
  cases hp : pull specs last T0 e0 (specs.length + 1) X with
  | some e =>
    have hm := arrives_visits (last := last) hg.fwd n (by omega) (pull_arrives _ _ _ hp)
    rw [filter_of_nodup_mem _ (visits_nodup hg.nodup hg.fwd n T0 e0) X e hm]
    rfl
  | none =>
    have : (visits specs last n T0 e0).filter (fun v => v.1 == X) = [] := by
      apply List.filter_eq_nil_iff.mpr
      intro w hw hc
      have hx : w.1 = X := by simpa using hc
      have ha := visits_arrives (specs := specs) (last := last) (T0 := T0) (e0 := e0) n T0 e0 Arrives.root w hw
      have := arrives_pull hg ha (specs.length + 1) (by have := cntLt_le rank specs (rank w.1); omega)
      rw [hx, hp] at this
      cases this
    rw [this]; rfl

end Kap.C09.SvcProofs
