/-
C09 service layer, proofs part 4: the incremental table the driver evaluates (`SvcSpec.Tbl`) computes exactly
the specification (`arrivalsR`, `receivedR`) — for every history, no hypotheses.
-/
import Kap.Proofs.C09SvcHist
namespace Kap.C09.SvcProofs
open Kap.C09 Kap.C09.Svc Kap.C09.SvcSpec

theorem mem_dedup : ∀ (l : List String) (a : String), a ∈ dedup l ↔ a ∈ l
  | [], _ => by simp [dedup]
  | b :: l, a => by
    unfold dedup
    have ih := mem_dedup l
    by_cases h : (dedup l).contains b = true
    · rw [if_pos h, List.mem_cons, ih a]
      have hb : b ∈ l := (ih b).mp (by simpa using h)
      constructor
      · intro x; exact Or.inr x
      · rintro (x | x)
        · rw [x]; exact hb
        · exact x
    · rw [if_neg h, List.mem_cons, List.mem_cons, ih a]

theorem nodup_dedup : ∀ (l : List String), (dedup l).Nodup
  | [] => by simp [dedup]
  | b :: l => by
    unfold dedup
    by_cases h : (dedup l).contains b = true
    · rw [if_pos h]; exact nodup_dedup l
    · rw [if_neg h, List.nodup_cons]
      exact ⟨by simpa using h, nodup_dedup l⟩

theorem pull_none_of_not_candidate (specs : List Spec) (last : String → String → Option Nat) (T : String)
    (e0 : SEv) (n : Nat) (X : String) (h : X ∉ candidates specs T) : pull specs last T e0 n X = none := by
  have h' : ¬ (X = T ∨ X ∈ specs.flatMap (·.targets)) := by
    intro hc; apply h; unfold candidates; rw [mem_dedup, List.mem_cons]; exact hc
  cases n with
  | zero => rfl
  | succ n =>
    unfold pull
    have h1 : ¬ (X == T) = true := by intro hc; exact h' (Or.inl (by simpa using hc))
    rw [if_neg h1]
    cases hp : pred specs X with
    | none => rfl
    | some sp =>
      obtain ⟨hm, ht⟩ := pred_some hp
      exact absurd (Or.inr (List.mem_flatMap.mpr ⟨sp, hm, ht⟩)) h'

theorem hits_filter (g : String → Option SEv) : ∀ (cands : List String), cands.Nodup → ∀ (X : String),
    ((cands.filterMap (fun Y => (g Y).map (fun e => (Y, e)))).filter (fun v => v.1 == X)).map (·.2) =
      if X ∈ cands then (g X).toList else []
  | [], _, _ => by simp
  | c :: cands, hnd, X => by
    rw [List.nodup_cons] at hnd
    have ih := hits_filter g cands hnd.2 X
    rw [List.filterMap_cons]
    by_cases hc : c = X
    · subst hc
      have hnot : c ∉ cands := hnd.1
      rw [if_neg hnot] at ih
      cases hg : g c with
      | none => simp only [Option.map_none]; rw [ih]; simp
      | some e =>
        simp only [Option.map_some, List.filter_cons, beq_self_eq_true, ↓reduceIte, List.map_cons, ih]
        simp
    · have hmem : X ∈ c :: cands ↔ X ∈ cands := by
        rw [List.mem_cons]; constructor
        · rintro (h | h)
          · exact absurd h.symm hc
          · exact h
        · exact Or.inr
      have hb : ¬ (c == X) = true := by simpa using hc
      cases hg : g c with
      | none => simp only [Option.map_none]; rw [ih]; simp only [hmem]
      | some e =>
        simp only [Option.map_some, List.filter_cons, hb, Bool.false_eq_true, ↓reduceIte]
        rw [ih]; simp only [hmem]

theorem recAll_log (s : St) (vs : List (String × SEv)) :
    (recAll s vs).log = s.log ++ vs.flatMap (fun v => (s.recs.filter (fun r => r.1 == v.1)).map (fun r => (r.2, v.1, v.2))) := by
  induction vs generalizing s with
  | nil => simp [recAll_nil]
  | cons v vs ih => rw [recAll_cons, ih, record_log, record_recs, List.flatMap_cons, List.append_assoc]

structure TInv (hr : List Svc.Op) (t : Tbl) : Prop where
  specs : t.specs = specsR hr
  regsNodup : t.regs.Nodup
  regs : ∀ X name, (X, name) ∈ t.regs ↔ registeredR hr name X = true
  arr : ∀ X, t.arrOf X = arrivalsR hr X
  got : ∀ name X, t.gotOf name X = receivedR hr name X

theorem tinv_step {hr : List Svc.Op} {t : Tbl} (inv : TInv hr t) (op : Svc.Op) : TInv (op :: hr) (t.step op) := by
  cases op with
  | collect T ev =>
    have hfun : (fun Y id => lastLevel (t.arrOf Y) id) = fun Y id => lastLevel (arrivalsR hr Y) id :=
      funext fun Y => funext fun id => by rw [inv.arr Y]
    have hH : ∀ X, ((t.hits T ev).filter (fun v => v.1 == X)).map (·.2) =
        (pull (specsR hr) (fun Y id => lastLevel (arrivalsR hr Y) id) T { ev with prev := 0 }
          ((specsR hr).length + 1) X).toList := by
      intro X
      have := hits_filter (fun X => pull t.specs (fun Y id => lastLevel (t.arrOf Y) id) T { ev with prev := 0 }
        (t.specs.length + 1) X) (candidates t.specs T) (nodup_dedup _) X
      unfold Tbl.hits
      rw [this, hfun, inv.specs]
      by_cases hc : X ∈ candidates (specsR hr) T
      · rw [if_pos hc]
      · rw [if_neg hc, pull_none_of_not_candidate _ _ _ _ _ _ hc]; rfl
    have e1 : ∀ X, (t.step (.collect T ev)).arrOf X =
        t.arrOf X ++ ((t.hits T ev).filter (fun v => v.1 == X)).map (·.2) := by
      intro X; simp only [Tbl.step, Tbl.arrOf, List.filter_append, List.map_append]
    have e2 : ∀ name X, (t.step (.collect T ev)).gotOf name X = t.gotOf name X ++
        (((t.hits T ev).flatMap (fun h => (t.regs.filter (fun r => r.1 == h.1)).map (fun r => (r.2, h.1, h.2)))).filter
          (fun p => p.1 == name && p.2.1 == X)).map (·.2.2) := by
      intro name X; simp only [Tbl.step, Tbl.gotOf, List.filter_append, List.map_append]
    refine ⟨inv.specs, inv.regsNodup, inv.regs, ?_, ?_⟩
    · intro X
      rw [e1, hH X, inv.arr X]; rfl
    · intro name X
      rw [e2, inv.got name X]
      show _ = receivedR hr name X ++ _
      congr 1
      -- the new entries are the log of `recAll` on a state that only has the recorders
      have hlog := recAll_log ({ recs := t.regs } : St) (t.hits T ev)
      have hrec := received_recAll ({ recs := t.regs } : St) (t.hits T ev) name X
      unfold St.received at hrec
      rw [hlog] at hrec
      simp only [List.nil_append, List.filter_nil, List.map_nil] at hrec
      rw [hrec, hH X, toList_flatMap_recs _ _ inv.regsNodup]
      by_cases hreg : registeredR hr name X = true
      · rw [if_pos ((inv.regs X name).mpr hreg), if_pos hreg]
      · rw [if_neg (fun h => hreg ((inv.regs X name).mp h)), if_neg hreg]
  | recorder T n =>
    simp only [Tbl.step]
    by_cases hc : t.regs.contains (T, n) = true
    · rw [if_pos hc]
      have hm : (T, n) ∈ t.regs := by simpa using hc
      refine ⟨inv.specs, inv.regsNodup, ?_, inv.arr, inv.got⟩
      intro X name
      show _ ↔ ((T == X && n == name) || registeredR hr name X) = true
      rw [inv.regs X name]
      constructor
      · intro h; rw [h]; simp
      · intro h
        rcases Bool.or_eq_true _ _ |>.mp h with h1 | h1
        · simp only [Bool.and_eq_true, beq_iff_eq] at h1
          rw [← h1.1, ← h1.2]; exact (inv.regs T n).mp hm
        · exact h1
    · rw [if_neg hc]
      have hm : (T, n) ∉ t.regs := by simpa using hc
      refine ⟨inv.specs, ?_, ?_, inv.arr, inv.got⟩
      · show (t.regs ++ [(T, n)]).Nodup
        rw [List.nodup_append]
        refine ⟨inv.regsNodup, by simp, ?_⟩
        intro a ha b hb
        have : b = (T, n) := by simpa using hb
        rw [this]; intro e; exact hm (e ▸ ha)
      · intro X name
        show (X, name) ∈ t.regs ++ [(T, n)] ↔ ((T == X && n == name) || registeredR hr name X) = true
        rw [List.mem_append, inv.regs X name, Bool.or_eq_true]
        constructor
        · rintro (h | h)
          · exact Or.inr h
          · have : (X, name) = (T, n) := by simpa using h
            cases this; exact Or.inl (by simp)
        · rintro (h | h)
          · simp only [Bool.and_eq_true, beq_iff_eq] at h
            right; rw [← h.1, ← h.2]; simp
          · exact Or.inl h
  | reg sp =>
    simp only [Tbl.step]
    by_cases hc : t.specs.any (fun x => x.topic == sp.topic && x.hid == sp.hid) = true
    · rw [if_pos hc]
      refine ⟨?_, inv.regsNodup, inv.regs, inv.arr, inv.got⟩
      show t.specs = if (specsR hr).any (fun x => x.topic == sp.topic && x.hid == sp.hid) then specsR hr else specsR hr ++ [sp]
      rw [← inv.specs, if_pos hc]
    · rw [if_neg hc]
      refine ⟨?_, inv.regsNodup, inv.regs, inv.arr, inv.got⟩
      show t.specs ++ [sp] = if (specsR hr).any (fun x => x.topic == sp.topic && x.hid == sp.hid) then specsR hr else specsR hr ++ [sp]
      rw [← inv.specs, if_neg hc]
  | dereg T hid =>
    refine ⟨?_, inv.regsNodup, inv.regs, inv.arr, inv.got⟩
    show t.specs.filter _ = (specsR hr).filter _
    rw [← inv.specs]
  | upd T old sp =>
    refine ⟨?_, inv.regsNodup, inv.regs, inv.arr, inv.got⟩
    show t.specs.filter _ ++ [sp] = (specsR hr).filter _ ++ [sp]
    rw [← inv.specs]

theorem tinv_run : ∀ (hr : List Svc.Op), TInv hr (Tbl.run hr.reverse)
  | [] => ⟨rfl, List.nodup_nil, by intro X name; simp [Tbl.run, registeredR], by intro X; rfl, by intro n X; rfl⟩
  | op :: hr => by
    have : Tbl.run (op :: hr).reverse = (Tbl.run hr.reverse).step op := by
      unfold Tbl.run; rw [List.reverse_cons, List.foldl_append]; rfl
    rw [this]
    exact tinv_step (tinv_run hr) op

end Kap.C09.SvcProofs
