/-
C09 helper lemmas, part 2: the per-topic invariant and what `updateEvent` does to it.
-/
import Kap.Proofs.C09
namespace Kap.C09

/-- The invariant of `Topic.sorted`: sorted by `less`, one entry per id. -/
def TInv (t : Topic) : Prop := Sorted t.sorted ∧ (ids t.sorted).Nodup

theorem eq_of_id_eq {l : List ES} (hnd : (ids l).Nodup) {a b : ES} (ha : a ∈ l) (hb : b ∈ l)
    (h : a.id = b.id) : a = b := by
  induction l with
  | nil => cases ha
  | cons x xs ih =>
    have hnd' : x.id ∉ ids xs ∧ (ids xs).Nodup := List.nodup_cons.mp (by unfold ids at hnd ⊢; rw [List.map_cons] at hnd; exact hnd)
    rcases List.mem_cons.mp ha with rfl | ha' <;> rcases List.mem_cons.mp hb with rfl | hb'
    · rfl
    · exact absurd (List.mem_map.mpr ⟨b, hb', h.symm⟩) hnd'.1
    · exact absurd (List.mem_map.mpr ⟨a, ha', h⟩) hnd'.1
    · exact ih hnd'.2 ha' hb'

theorem find_none_iff (l : List ES) (id : String) :
    l.find? (fun e => e.id == id) = none ↔ id ∉ ids l := by
  simp [List.find?_eq_none, ids]

theorem find_some_mem {l : List ES} {id : String} {c : ES}
    (h : l.find? (fun e => e.id == id) = some c) : c ∈ l ∧ c.id = id := by
  have h1 := List.mem_of_find?_eq_some h
  have h2 := List.find?_some h
  exact ⟨h1, by simpa using h2⟩

/-- the in-place overwrite of `updateEvent` -/
def repl (l : List ES) (s : ES) : List ES := l.map (fun e => if e.id == s.id then s else e)

theorem ids_repl (l : List ES) (s : ES) : ids (repl l s) = ids l := by
  unfold ids repl
  rw [List.map_map]
  apply List.map_congr_left
  intro e _
  simp only [Function.comp]
  split
  · rename_i h; simpa using (by simpa using h : e.id = s.id).symm
  · rfl

theorem repl_sorted_same_level {l : List ES} {s c : ES} (hs : Sorted l) (hnd : (ids l).Nodup)
    (hc : c ∈ l) (hid : c.id = s.id) (hl : c.level = s.level) : Sorted (repl l s) := by
  unfold Sorted repl
  rw [List.pairwise_map]
  refine List.Pairwise.imp_of_mem ?_ hs
  intro a b ha hb hab
  have key : ∀ e ∈ l, less (if e.id == s.id then s else e) = less e := by
    intro e he
    split
    · rename_i h
      have : e = c := eq_of_id_eq hnd he hc (by rw [hid]; simpa using h)
      subst this
      funext x; unfold less; simp [hl, hid]
    · rfl
  have key2 : ∀ e ∈ l, ∀ x, less x (if e.id == s.id then s else e) = less x e := by
    intro e he x
    split
    · rename_i h
      have : e = c := eq_of_id_eq hnd he hc (by rw [hid]; simpa using h)
      subst this
      unfold less; simp [hl, hid]
    · rfl
  rw [key a ha, key2 b hb]
  exact hab

theorem updateEvent_inv (t : Topic) (s : ES) (h : TInv t) : TInv (t.updateEvent s).1 := by
  obtain ⟨hs, hnd⟩ := h
  unfold Topic.updateEvent Topic.updateEventWith Topic.find
  split
  · rename_i hf
    have hnot : s.id ∉ ids t.sorted := (find_none_iff _ _).mp hf
    have hnd' : (ids (t.sorted ++ [s])).Nodup := by
      unfold ids; rw [List.map_append]
      apply List.nodup_append.mpr
      refine ⟨hnd, by simp, ?_⟩
      intro a ha b hb
      simp at hb; subst hb
      intro e; subst e; exact hnot ha
    refine ⟨goSort_sorted _ hnd', ?_⟩
    exact ((goSort_perm _).map _).nodup_iff.mpr hnd'
  · rename_i c hf
    obtain ⟨hc, hid⟩ := find_some_mem hf
    have hnd' : (ids (repl t.sorted s)).Nodup := by rw [ids_repl]; exact hnd
    show TInv { t with sorted := if c.level ≠ s.level then goSortWith less (repl t.sorted s) else repl t.sorted s }
    unfold TInv
    split
    · exact ⟨goSort_sorted _ hnd', ((goSort_perm _).map _).nodup_iff.mpr hnd'⟩
    · rename_i hl
      have hl' : c.level = s.level := by simpa using hl
      exact ⟨repl_sorted_same_level hs hnd hc hid hl', hnd'⟩

theorem any_eq_find (l : List ES) (id : String) :
    l.any (fun e => e.id == id) = (l.find? (fun e => e.id == id)).isSome := by
  induction l with
  | nil => rfl
  | cons x xs ih =>
    simp only [List.any_cons, List.find?_cons]
    cases h : (x.id == id) <;> simp [ih]

/-- `updateEvent` stores what the history spec's `upsert` stores (up to the order of the slice) and returns
the state that was current for the id before. -/
theorem updateEvent_refines (t : Topic) (s : ES) :
    (t.updateEvent s).1.sorted.Perm (upsert t.sorted s) ∧
    (t.updateEvent s).2 = t.sorted.find? (fun e => e.id == s.id) := by
  unfold Topic.updateEvent Topic.updateEventWith Topic.find upsert
  rw [any_eq_find]
  split
  · rename_i hf; rw [hf]; exact ⟨goSort_perm _, rfl⟩
  · rename_i c hf; rw [hf]
    refine ⟨?_, rfl⟩
    show (if c.level ≠ s.level then goSortWith less (repl t.sorted s) else repl t.sorted s).Perm (repl t.sorted s)
    split
    · exact goSort_perm _
    · exact List.Perm.refl _

theorem maxLevel_ge (t : Topic) (h : TInv t) : ∀ e ∈ t.sorted, e.level ≤ t.maxLevel := by
  intro e he
  unfold Topic.maxLevel
  cases hl : t.sorted with
  | nil => rw [hl] at he; cases he
  | cons x xs =>
    rw [hl] at he
    rcases List.mem_cons.mp he with rfl | he'
    · exact Nat.le_refl _
    · have hs := h.1; unfold Sorted at hs; rw [hl] at hs
      have := (List.pairwise_cons.mp hs).1 e he'
      rw [less_iff] at this
      simp only
      omega

theorem maxLevel_attained (t : Topic) : t.maxLevel = 0 ∨ ∃ e ∈ t.sorted, e.level = t.maxLevel := by
  unfold Topic.maxLevel
  cases t.sorted with
  | nil => left; rfl
  | cons x xs => right; exact ⟨x, List.mem_cons_self, rfl⟩

theorem takeWhile_eq_filter_of_sorted (l : List ES) (min : Nat) (hs : Sorted l) :
    l.takeWhile (fun e => decide (e.level ≥ min)) = l.filter (fun e => decide (e.level ≥ min)) := by
  induction l with
  | nil => rfl
  | cons x xs ih =>
    have hs' := List.pairwise_cons.mp hs
    by_cases hx : x.level ≥ min
    · simp only [List.takeWhile_cons, List.filter_cons, hx, decide_true, if_true]
      rw [ih hs'.2]
    · simp only [List.takeWhile_cons, List.filter_cons, hx, decide_false]
      symm
      simp only [Bool.false_eq_true, ↓reduceIte]
      apply List.filter_eq_nil_iff.mpr
      intro e he
      have := hs'.1 e he
      rw [less_iff] at this
      simp; omega

end Kap.C09
