/-
C10 — helper lemmas: association lists, the generic refinement of the group table (`runGrouped`) to "the earlier points
of the same group" (`perGroup`), and the closed forms of the per-group states of the stateful nodes.
Core Lean only.
-/
import Kap.Spec.C10
set_option linter.unusedSimpArgs false
set_option linter.unusedVariables false
namespace Kap.C10

/-! ### association lists -/

theorem aget_append {α : Type} (l₁ l₂ : List (String × α)) (k : String) :
    aget (l₁ ++ l₂) k = match aget l₁ k with | some v => some v | none => aget l₂ k := by
  induction l₁ with
  | nil => simp [aget]
  | cons e r ih =>
    obtain ⟨k', v⟩ := e
    simp only [List.cons_append, aget]
    split <;> simp_all

theorem aget_map_set {α : Type} (l : List (String × α)) (k : String) (v : α) (k' : String) :
    aget (l.map (fun e => if e.1 = k then (k, v) else e)) k' = if k' = k then (aget l k).map (fun _ => v) else aget l k' := by
  induction l with
  | nil => simp [aget]
  | cons e r ih =>
    obtain ⟨a, b⟩ := e
    simp only [List.map_cons, aget]
    by_cases h1 : a = k
    · subst h1
      by_cases h2 : k' = a
      · subst h2; simp [aget]
      · have : ¬ a = k' := fun h => h2 h.symm
        simp [aget, this, h2, ih]
    · by_cases h2 : k' = k
      · subst h2
        have : ¬ a = k' := h1
        simp [aget, h1, ih]
      · by_cases h3 : a = k'
        · subst h3; simp [aget, h1, h2]
        · simp [aget, h1, h2, h3, ih]

/-- Go map write, read back. -/
theorem aget_aset {α : Type} (l : List (String × α)) (k : String) (v : α) (k' : String) :
    aget (aset l k v) k' = if k' = k then some v else aget l k' := by
  unfold aset
  by_cases h : (aget l k).isSome
  · rw [if_pos h, aget_map_set]
    by_cases h2 : k' = k
    · subst h2
      obtain ⟨x, hx⟩ := Option.isSome_iff_exists.mp h
      simp [hx]
    · simp [h2]
  · rw [if_neg h, aget_append]
    by_cases h2 : k' = k
    · subst h2
      have : aget l k' = none := by simpa using h
      simp [this, aget]
    · have : ¬ k = k' := fun h => h2 h.symm
      cases hh : aget l k' <;> simp [aget, h2, this]

/-- Go `delete(m, k)`, read back. -/
theorem aget_aerase {α : Type} (l : List (String × α)) (k k' : String) :
    aget (aerase l k) k' = if k' = k then none else aget l k' := by
  unfold aerase
  induction l with
  | nil => simp [aget]
  | cons e r ih =>
    obtain ⟨a, b⟩ := e
    simp only [ne_eq, decide_not] at ih
    by_cases h1 : a = k
    · subst h1
      by_cases h2 : k' = a
      · subst h2; simp [List.filter, aget, ih]
      · have : ¬ a = k' := fun h => h2 h.symm
        simp [List.filter, aget, ih, h2, this]
    · by_cases h2 : k' = k
      · subst h2
        simp [List.filter, aget, h1, ih]
      · by_cases h3 : a = k'
        · subst h3; simp [List.filter, aget, h1, h2]
        · simp [List.filter, aget, h1, h2, h3, ih]

/-! ### the group table refines "earlier points of the same group" -/

/-- The state of a group after its own history (none: the group does not exist yet). -/
def foldG {σ : Type} (init : Point → σ) (step : σ → Point → σ × List Point) (h : List Point) : Option σ :=
  h.foldl (fun o q => some (step (o.getD (init q)) q).1) none

theorem foldG_snoc {σ : Type} (init : Point → σ) (step : σ → Point → σ × List Point) (h : List Point) (q : Point) :
    foldG init step (h ++ [q]) = some (step ((foldG init step h).getD (init q)) q).1 := by
  simp [foldG, List.foldl_append]

theorem runGrouped_inv {σ : Type} (init : Point → σ) (step : σ → Point → σ × List Point) (ps : List Point) :
    ∀ (st : List (String × σ)) (hist : List Point),
      (∀ g, aget st g = foldG init step (hist.filter (fun q => q.gid = g))) →
      runGrouped init step st ps =
        perGroup (fun h p => (step ((foldG init step h).getD (init p)) p).2) hist ps := by
  induction ps with
  | nil => intro st hist _; simp [runGrouped, perGroup]
  | cons p ps ih =>
    intro st hist hinv
    simp only [runGrouped, perGroup, groupHistory]
    rw [hinv p.gid]
    congr 1
    apply ih
    intro g
    rw [aget_aset, List.filter_append]
    by_cases hg : g = p.gid
    · subst hg
      simp only [if_true, List.filter_cons, List.filter_nil, decide_true]
      rw [foldG_snoc]
    · have : ¬ p.gid = g := fun h => hg h.symm
      simp [hg, this, hinv g]

/-- **Group isolation of every grouped node**: running the group table over a stream is the same as giving each
point the state reached by the earlier points of ITS OWN group. -/
theorem runGrouped_eq_perGroup {σ : Type} (init : Point → σ) (step : σ → Point → σ × List Point) (ps : List Point) :
    runGrouped init step [] ps = perGroup (fun h p => (step ((foldG init step h).getD (init p)) p).2) [] ps := by
  apply runGrouped_inv
  intro g; simp [aget, foldG]

theorem perGroup_congr (f g : List Point → Point → List Point) (hfg : ∀ h p, f h p = g h p) (hist ps : List Point) :
    perGroup f hist ps = perGroup g hist ps := by
  induction ps generalizing hist with
  | nil => simp [perGroup]
  | cons p ps ih => simp [perGroup, hfg, ih]

/-! ### maps compared as lookup functions -/

theorem mapEqB_of_forall {α : Type} [DecidableEq α] (a b : List (String × α)) (h : ∀ k, aget a k = aget b k) : mapEqB a b = true := by
  unfold mapEqB
  rw [List.all_eq_true]
  intro k _
  simp [h k]

theorem aget_none_of_not_mem {α : Type} (l : List (String × α)) (k : String) (h : k ∉ akeys l) : aget l k = none := by
  induction l with
  | nil => rfl
  | cons e r ih =>
    obtain ⟨a, b⟩ := e
    simp only [akeys, List.map_cons, List.mem_cons, not_or] at h
    have : ¬ a = k := fun hh => h.1 hh.symm
    simp only [aget, this, if_false]
    exact ih h.2

theorem mem_akeys_of_aget {α : Type} (l : List (String × α)) (k : String) (v : α) (h : aget l k = some v) : k ∈ akeys l := by
  refine Classical.byContradiction fun hn => ?_
  rw [aget_none_of_not_mem l k hn] at h
  cases h

/-- `mapEqB` decides equality as lookup functions. -/
theorem mapEqB_iff {α : Type} [DecidableEq α] (a b : List (String × α)) : mapEqB a b = true ↔ ∀ k, aget a k = aget b k := by
  constructor
  · intro h k
    unfold mapEqB at h
    rw [List.all_eq_true] at h
    by_cases hk : k ∈ akeys a ++ akeys b
    · simpa using h k hk
    · simp only [List.mem_append, not_or] at hk
      rw [aget_none_of_not_mem a k hk.1, aget_none_of_not_mem b k hk.2]
  · exact mapEqB_of_forall a b

theorem aget_tabulate {α : Type} (keys : List String) (f : String → Option α) (k : String) :
    aget (tabulate keys f) k = if k ∈ keys then f k else none := by
  unfold tabulate
  induction keys with
  | nil => simp [aget]
  | cons a r ih =>
    rw [List.filterMap_cons]
    cases hf : f a with
    | none =>
      simp only [Option.map_none, ih, List.mem_cons]
      by_cases h : k = a
      · subst h; simp [hf]
      · simp [h]
    | some v =>
      simp only [Option.map_some, aget, List.mem_cons]
      by_cases h : a = k
      · subst h; simp [hf]
      · have : ¬ k = a := fun hh => h hh.symm
        simp [h, this, ih]

/-! ### default / delete -/

theorem defaultFields_fold (fields : Fields) (cfg : Fields) (hnd : (akeys cfg).Nodup) (acc : Fields) (k : String) :
    aget (cfg.foldl (fun nf kv => if (aget fields kv.1).isNone then aset nf kv.1 kv.2 else nf) acc) k =
      if (aget fields k).isNone then (match aget cfg k with | some v => some v | none => aget acc k) else aget acc k := by
  induction cfg generalizing acc with
  | nil => simp [aget]
  | cons e r ih =>
    obtain ⟨a, b⟩ := e
    simp only [akeys, List.map_cons, List.nodup_cons] at hnd
    rw [List.foldl_cons, ih hnd.2]
    by_cases hk : a = k
    · subst hk
      have hr : aget r a = none := aget_none_of_not_mem r a hnd.1
      by_cases hf : (aget fields a).isNone
      · simp [hf, hr, aget, aget_aset]
      · simp [hf]
    · have hk' : ¬ k = a := fun hh => hk hh.symm
      by_cases hf : (aget fields a).isNone
      · simp [hf, aget, hk, hk', aget_aset]
      · simp [hf, aget, hk]

theorem defaultFields_lookup (cf fields : Fields) (hnd : (akeys cf).Nodup) (k : String) :
    aget (defaultFields cf fields) k = specDefaultField cf fields k := by
  unfold defaultFields specDefaultField
  rw [defaultFields_fold fields cf hnd]
  cases h : aget fields k <;> simp
  cases aget cf k <;> simp

theorem defaultTags_fold (tags : Tags) (cfg : Tags) (hnd : (akeys cfg).Nodup) (acc : Tags) (k : String) :
    aget (cfg.foldl (fun nt kv => if tagOr tags kv.1 = "" then aset nt kv.1 kv.2 else nt) acc) k =
      if tagOr tags k = "" then (match aget cfg k with | some v => some v | none => aget acc k) else aget acc k := by
  induction cfg generalizing acc with
  | nil => simp [aget]
  | cons e r ih =>
    obtain ⟨a, b⟩ := e
    simp only [akeys, List.map_cons, List.nodup_cons] at hnd
    rw [List.foldl_cons, ih hnd.2]
    by_cases hk : a = k
    · subst hk
      have hr : aget r a = none := aget_none_of_not_mem r a hnd.1
      by_cases hf : tagOr tags a = ""
      · simp [hf, hr, aget, aget_aset]
      · simp [hf]
    · have hk' : ¬ k = a := fun hh => hk hh.symm
      by_cases hf : tagOr tags a = ""
      · simp [hf, aget, hk, hk', aget_aset]
      · simp [hf, aget, hk]

theorem defaultTags_lookup (ct tags : Tags) (hnd : (akeys ct).Nodup) (k : String) :
    aget (defaultTags ct tags) k = specDefaultTag ct tags k := by
  unfold defaultTags specDefaultTag
  rw [defaultTags_fold tags ct hnd]
  cases h : aget ct k with
  | none => simp
  | some d => by_cases ht : tagOr tags k = "" <;> simp [ht]

theorem deleteKeys_fold {α : Type} (m : List (String × α)) (ks : List String) (acc : List (String × α)) (k : String) :
    aget (ks.foldl (fun nm k' => if (aget m k').isSome then aerase nm k' else nm) acc) k =
      if k ∈ ks ∧ (aget m k).isSome then none else aget acc k := by
  induction ks generalizing acc with
  | nil => simp
  | cons a r ih =>
    rw [List.foldl_cons, ih]
    by_cases hk : k = a
    · subst hk
      by_cases hm : (aget m k).isSome
      · simp [hm, aget_aerase]
      · simp [hm]
    · by_cases hm : (aget m a).isSome
      · simp [hm, hk, aget_aerase]
      · simp [hm, hk]

theorem deleteKeys_lookup {α : Type} (ks : List String) (m : List (String × α)) (k : String) :
    aget (deleteKeys ks m) k = specDeleteAt ks m k := by
  unfold deleteKeys specDeleteAt
  rw [deleteKeys_fold]
  by_cases hk : k ∈ ks
  · cases h : aget m k <;> simp [hk, h]
  · simp [hk]

theorem filter_eq_self_of_not_any {α : Type} (l : List α) (p : α → Bool) (h : l.any p = false) : l.filter (fun d => !p d) = l := by
  induction l with
  | nil => rfl
  | cons a r ih =>
    simp only [List.any_cons, Bool.or_eq_false_iff] at h
    simp [List.filter_cons, h.1, ih h.2]

end Kap.C10
