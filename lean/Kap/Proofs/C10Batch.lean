/-
C10 — batch edges: a per-group node on a batch computes what its stream form computes on the points of the batch taken
as ONE group with a fresh state (BeginBatch resets the group's state).
-/
import Kap.Proofs.C10Hist
set_option linter.unusedSimpArgs false
set_option linter.unusedVariables false
namespace Kap.C10

/-- A batch point seen as a stream point of the (single) nil group. -/
def toPt (name : String) (p : BPoint) : Point := { name := name, tags := p.tags, fields := p.fields, time := p.time }

theorem toPt_gid (name : String) (p : BPoint) : (toPt name p).gid = "" := by
  simp [toPt, Point.gid, toGroupID]

theorem ofPoint_toPt (name : String) (p : BPoint) : BPoint.ofPoint (toPt name p) = p := by
  cases p; rfl

/-- One receiver, explicit state. -/
def runSingle {σ : Type} (step : σ → Point → σ × List Point) : σ → List Point → List Point
  | _, [] => []
  | s, p :: ps => (step s p).2 ++ runSingle step (step s p).1 ps

theorem runGrouped_single {σ : Type} (step : σ → Point → σ × List Point) (s0 : σ) (g : String) (ps : List Point)
    (hg : ∀ p ∈ ps, p.gid = g) :
    ∀ (st : List (String × σ)) (s : σ), (aget st g).getD s0 = s → runGrouped (fun _ => s0) step st ps = runSingle step s ps := by
  induction ps with
  | nil => intro st s _; simp [runGrouped, runSingle]
  | cons p ps ih =>
    intro st s hs
    have hp : p.gid = g := hg p (by simp)
    simp only [runGrouped, runSingle, hp, hs]
    congr 1
    apply ih (fun q hq => hg q (by simp [hq]))
    simp [aget_aset]

theorem runGrouped_batch {σ : Type} (step : σ → Point → σ × List Point) (s0 : σ) (name : String) (pts : List BPoint) :
    runGrouped (fun _ => s0) step [] (pts.map (toPt name)) = runSingle step s0 (pts.map (toPt name)) := by
  apply runGrouped_single step s0 ""
  · intro p hp
    obtain ⟨q, _, rfl⟩ := List.mem_map.mp hp
    exact toPt_gid name q
  · simp [aget]

theorem sample_batch_single (n dur : Int) (name : String) (pts : List BPoint) (c : Int) :
    sampleBPoints n dur c pts = (runSingle (sampleStep n dur) c (pts.map (toPt name))).map BPoint.ofPoint := by
  induction pts generalizing c with
  | nil => simp [sampleBPoints, runSingle]
  | cons p r ih =>
    simp only [sampleBPoints, List.map_cons, runSingle, sampleStep, List.map_append, ← ih]
    congr 1
    by_cases h : shouldKeep n dur c p.time = true <;> simp [h, toPt, BPoint.ofPoint]

theorem deriv_batch_single (c : DerivCfg) (name : String) (pts : List BPoint) (s : Option (Fields × Int)) :
    derivBPoints c s pts = (runSingle (derivStep c) s (pts.map (toPt name))).map BPoint.ofPoint := by
  induction pts generalizing s with
  | nil => simp [derivBPoints, runSingle]
  | cons p r ih =>
    simp only [derivBPoints, List.map_cons, runSingle, derivStep, List.map_append]
    rw [ih]
    congr 1
    simp only [toPt]
    split <;> simp_all [BPoint.ofPoint]

theorem change_batch_single (fs : List String) (name : String) (pts : List BPoint) (s : Option Fields) :
    changeBPoints fs s pts = (runSingle (changeStep fs) s (pts.map (toPt name))).map BPoint.ofPoint := by
  induction pts generalizing s with
  | nil => simp [changeBPoints, runSingle]
  | cons p r ih =>
    simp only [changeBPoints, List.map_cons, runSingle, changeStep, toPt]
    split
    · simp only [List.map_append, List.map_cons, List.map_nil, List.singleton_append, ih (some p.fields)]
      simp [BPoint.ofPoint, toPt]
    · simp [ih s, toPt]

theorem count_batch_single (e : Expr) (as : String) (name : String) (pts : List BPoint) (s : Int) :
    countBPoints e as s pts = (runSingle (countStep e as) s (pts.map (toPt name))).map BPoint.ofPoint := by
  induction pts generalizing s with
  | nil => simp [countBPoints, runSingle]
  | cons p r ih =>
    simp only [countBPoints, List.map_cons, runSingle, countStep, List.map_append]
    rw [ih]
    congr 1
    simp only [toPt]
    split <;> simp_all [BPoint.ofPoint]

theorem dur_batch_single (e : Expr) (as : String) (unit : Int) (name : String) (pts : List BPoint) (s : Option Int) :
    durBPoints e as unit s pts = (runSingle (durStep e as unit) s (pts.map (toPt name))).map BPoint.ofPoint := by
  induction pts generalizing s with
  | nil => simp [durBPoints, runSingle]
  | cons p r ih =>
    simp only [durBPoints, List.map_cons, runSingle, durStep, List.map_append]
    rw [ih]
    congr 1
    simp only [toPt]
    split <;> simp_all [BPoint.ofPoint]

end Kap.C10
