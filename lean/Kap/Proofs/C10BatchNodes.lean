/-
C10 — batch edges of default, delete and flatten against the documented functions.
-/
import Kap.Proofs.C10Flat
set_option linter.unusedSimpArgs false
set_option linter.unusedVariables false
namespace Kap.C10

theorem listEquivB_map {α β : Type} (f : β → β → Bool) (g h : α → β) (l : List α) (hh : ∀ x, f (g x) (h x) = true) :
    listEquivB f (l.map g) (l.map h) = true := by
  induction l with
  | nil => rfl
  | cons a r ih => simp [listEquivB, hh a, ih]

theorem defaultFields_mapEq (cf : Fields) (hf : (akeys cf).Nodup) (fields : Fields) :
    mapEqB (defaultFields cf fields) (tabulate (akeys fields ++ akeys cf) (specDefaultField cf fields)) = true := by
  apply mapEqB_of_forall
  intro k
  rw [defaultFields_lookup cf fields hf, aget_tabulate]
  by_cases hk : k ∈ akeys fields ++ akeys cf
  · simp [hk]
  · simp only [List.mem_append, not_or] at hk
    simp [hk, specDefaultField, aget_none_of_not_mem _ _ hk.1, aget_none_of_not_mem _ _ hk.2]

theorem defaultTags_mapEq (ct : Tags) (ht : (akeys ct).Nodup) (tags : Tags) :
    mapEqB (defaultTags ct tags) (tabulate (akeys tags ++ akeys ct) (specDefaultTag ct tags)) = true := by
  apply mapEqB_of_forall
  intro k
  rw [defaultTags_lookup ct tags ht, aget_tabulate]
  by_cases hk : k ∈ akeys tags ++ akeys ct
  · simp [hk]
  · simp only [List.mem_append, not_or] at hk
    simp [hk, specDefaultTag, aget_none_of_not_mem _ _ hk.1, aget_none_of_not_mem _ _ hk.2]

theorem defaultBatch_spec (cf : Fields) (ct : Tags) (hf : (akeys cf).Nodup) (ht : (akeys ct).Nodup) (b : Batch) :
    (defaultBatch cf ct b).equivB (specDefaultBatch cf ct b) = true := by
  have hp : listEquivB BPoint.equivB (b.points.map (defaultBPoint cf ct))
      (b.points.map (fun p => let r := specDefaultFT cf ct p.fields p.tags; { p with fields := r.1, tags := r.2 })) = true := by
    apply listEquivB_map
    intro p
    simp [BPoint.equivB, defaultBPoint, specDefaultFT, defaultFields_mapEq cf hf, defaultTags_mapEq ct ht]
  simp only [specDefaultFT] at hp
  simp [Batch.equivB, defaultBatch, specDefaultBatch, specDefaultFT, hp, defaultTags_mapEq ct ht]

theorem deleteKeys_mapEq {α : Type} [DecidableEq α] (ks : List String) (m : List (String × α)) :
    mapEqB (deleteKeys ks m) (tabulate (akeys m) (specDeleteAt ks m)) = true := by
  apply mapEqB_of_forall
  intro k
  rw [deleteKeys_lookup, aget_tabulate]
  by_cases hk : k ∈ akeys m
  · simp [hk]
  · simp [hk, specDeleteAt, aget_none_of_not_mem _ _ hk]

theorem deleteBatch_spec (df dt : List String) (b : Batch) :
    (deleteBatch df dt b).equivB (specDeleteBatch df dt b) = true := by
  have hp : listEquivB BPoint.equivB (b.points.map (deleteBPoint df dt))
      (b.points.map (fun p => { p with fields := tabulate (akeys p.fields) (specDeleteAt df p.fields),
                                       tags := tabulate (akeys p.tags) (specDeleteAt dt p.tags) })) = true := by
    apply listEquivB_map
    intro p
    simp [BPoint.equivB, deleteBPoint, deleteKeys_mapEq]
  simp [Batch.equivB, deleteBatch, specDeleteBatch, hp, deleteKeys_mapEq]

/-! ### flatten on a batch -/

def rnd (tol : Int) (p : BPoint) : BPoint := { p with time := roundTo p.time tol }

theorem specFlatFields_map_rnd (c : FlattenCfg) (tol : Int) (l : List BPoint) :
    specFlatFields c (l.map (rnd tol)) = specFlatFields c l := by
  unfold specFlatFields
  rw [List.foldl_map]
  rfl

/-- The buffer while a batch is being read: the current run, with rounded times; its time is the run's rounded time. -/
structure FlatRel (c : FlattenCfg) (s : FlatSt) (cur : List BPoint) : Prop where
  pts : s.points = cur.map (rnd c.tol)
  time : ∀ q, cur.head? = some q → s.time = some (roundTo q.time c.tol)
  none : cur = [] → s.time = none

theorem flatBPoints_spec (c : FlattenCfg) (gtags : Tags) (pts : List BPoint) :
    ∀ (s : FlatSt) (cur : List BPoint), FlatRel c s cur →
      flatBPoints c gtags s pts = specFlatBuckets c gtags (bucketsGo c.tol cur pts) := by
  induction pts with
  | nil =>
    intro s cur hrel
    simp only [flatBPoints, bucketsGo]
    cases hc : cur with
    | nil => simp [hrel.pts, hc, specFlatBuckets]
    | cons q r =>
      have ht := hrel.time q (by simp [hc])
      simp only [hrel.pts, hc, List.map_cons, ne_eq, reduceCtorEq, not_false_eq_true, if_true, if_false, specFlatBuckets,
        specFlatPoint, List.head?_cons, Option.map_some, Option.getD_some, ht]
      rw [flattenFields_eq, ← List.map_cons, specFlatFields_map_rnd]
  | cons p ps ih =>
    intro s cur hrel
    simp only [flatBPoints, bucketsGo]
    cases hc : cur with
    | nil =>
      have hn := hrel.none hc
      have hp := hrel.pts
      rw [hc] at hp
      simp only [List.map_nil] at hp
      simp only [List.head?_nil, flatAdd, hn, hp, ne_eq, reduceCtorEq, not_false_eq_true, if_true, not_true_eq_false, if_false,
        List.nil_append]
      apply ih
      exact ⟨by simp [rnd], by intro q hq; simp at hq; subst hq; rfl, by simp⟩
    | cons q r =>
      have ht := hrel.time q (by simp [hc])
      have hp := hrel.pts
      rw [hc] at hp
      simp only [List.head?_cons]
      by_cases heq : roundTo p.time c.tol = roundTo q.time c.tol
      · simp only [heq, if_true, flatAdd, ht, ne_eq, not_true_eq_false, if_false, List.nil_append]
        apply ih
        refine ⟨by simp [hp, rnd, heq], ?_, by simp⟩
        intro q' hq'
        simp at hq'; subst hq'; simp [ht]
      · have hne : ¬ (some (roundTo q.time c.tol) = some (roundTo p.time c.tol)) := by
          intro h; apply heq; simpa using h.symm
        have hnil : s.points ≠ [] := by rw [hp]; simp
        simp only [heq, if_false, flatAdd, ht, ne_eq, hne, not_false_eq_true, if_true, hnil, Option.getD_some]
        have hrest : flatBPoints c gtags { s with time := some (roundTo p.time c.tol), points := [{ p with time := roundTo p.time c.tol }] } ps =
            specFlatBuckets c gtags (bucketsGo c.tol [p] ps) := by
          apply ih
          exact ⟨by simp [rnd], by intro q' hq'; simp at hq'; subst hq'; rfl, by simp⟩
        rw [hrest]
        have hfields : flattenFields c s.points = specFlatFields c (q :: r) := by
          rw [flattenFields_eq, hp, specFlatFields_map_rnd]
        -- the closed bucket is never the last one: bucketsGo [p] ps is not empty
        have hne2 : bucketsGo c.tol [p] ps ≠ [] := by
          cases ps with
          | nil => simp [bucketsGo]
          | cons x xs =>
            simp only [bucketsGo, List.head?_cons]
            split
            · intro h
              -- bucketsGo of a non-empty current run is never empty
              have : ∀ (l cur : List BPoint), cur ≠ [] → bucketsGo c.tol cur l ≠ [] := by
                intro l
                induction l with
                | nil => intro cur hcur; simp [bucketsGo, hcur]
                | cons y ys ihh =>
                  intro cur hcur
                  cases hcu : cur with
                  | nil => exact absurd hcu hcur
                  | cons z zs =>
                    simp only [bucketsGo, List.head?_cons]
                    split
                    · exact ihh _ (by simp)
                    · simp
              exact this xs ([p] ++ [x]) (by simp) h
            · simp
        cases hb : bucketsGo c.tol [p] ps with
        | nil => exact absurd hb hne2
        | cons b1 brest =>
          simp only [specFlatBuckets, hfields, specFlatPoint, List.head?_cons, Option.map_some, Option.getD_some]

theorem flattenBatch_eq (c : FlattenCfg) (b : Batch) : flattenBatch c b = specFlattenBatch c b := by
  unfold flattenBatch specFlattenBatch buckets
  congr 1
  apply flatBPoints_spec
  exact ⟨by simp, by intro q hq; simp at hq, by intro _; rfl⟩

end Kap.C10
