/-
C10, re-buffering half — lemmas about `Kap.C10.Buf` (edge.BatchBuffer over a heap of slices):
with a fresh slice per batch (`goodProg`) nothing that has been emitted is ever written again.
Core Lean only.
-/
import Kap.Spec.C10
namespace Kap.C10.Buf

variable {α β : Type}

/-- what the state stands for: `r.begin`, and `r.points` holds `cur`; every emitted message lives in an allocated array and,
when that is the array `r.points` still uses, ends before the position the next append writes to -/
structure Inv (st : St α β) (b : Option β) (cur : List α) : Prop where
  hb : st.begin = b
  harr : st.pts.arr < st.next
  hlen : st.pts.len = cur.length
  hcur : ∀ i, i < cur.length → st.cell st.pts.arr i = cur[i]?
  hout : ∀ m, m ∈ st.out → m.sl.arr < st.next ∧ (m.sl.arr = st.pts.arr → m.sl.len ≤ st.pts.len)

theorem step_begin (g : Nat → Nat) (st : St α β) (b : β) (h : Nat) :
    step goodProg g st (.begin b h) = { st with begin := some b, next := st.next + 1, pts := { arr := st.next, len := 0, cap := h } } := by
  simp [step, goodProg, execList, exec]

theorem step_point (g : Nat → Nat) (st : St α β) (x : α) : step goodProg g st (.point x) = goAppend g st x := by
  simp [step, goodProg, execList, exec]

theorem step_end (g : Nat → Nat) (st : St α β) :
    step goodProg g st .end_ = { st with out := st.out ++ [{ begin := st.begin, sl := st.pts }] } := by
  simp [step, goodProg, execList, exec]

/-- a step writes only to the position behind `r.points` or into a new array -/
theorem cell_stable (g : Nat → Nat) (st : St α β) (op : Op α β) (a i : Nat) (ha : a < st.next)
    (hi : a = st.pts.arr → i < st.pts.len) : (step goodProg g st op).cell a i = st.cell a i := by
  cases op with
  | begin b h => rw [step_begin]
  | end_ => rw [step_end]
  | point x =>
    rw [step_point]; unfold goAppend
    split
    · simp only [upd]
      split
      · rename_i hc; have := hi hc.1; omega
      · rfl
    · simp only
      split
      · omega
      · rfl

theorem read_stable (g : Nat → Nat) (st : St α β) (b : Option β) (cur : List α) (hI : Inv st b cur) (op : Op α β)
    (m : Msg β) (hm : m ∈ st.out) : read (step goodProg g st op) m = read st m := by
  unfold read
  apply List.map_congr_left
  intro i hi
  have hi' : i < m.sl.len := by simpa using hi
  have := hI.hout m hm
  exact cell_stable g st op _ _ this.1 (fun h => by have := this.2 h; omega)

/-- reading `r.points` gives `cur` -/
theorem read_cur (st : St α β) (b : Option β) (cur : List α) (hI : Inv st b cur) :
    read st { begin := st.begin, sl := st.pts } = cur.map some := by
  unfold read
  apply List.ext_getElem
  · simp [hI.hlen]
  · intro i h1 h2
    simp only [List.getElem_map, List.getElem_range]
    have hi : i < cur.length := by simpa using h2
    rw [hI.hcur i hi]; simp [hi]

def specNext (b : Option β) (cur : List α) : Op α β → Option β × List α
  | .begin b' _ => (some b', [])
  | .point x => (b, cur ++ [x])
  | .end_ => (b, cur)

theorem inv_step (g : Nat → Nat) (st : St α β) (b : Option β) (cur : List α) (hI : Inv st b cur) (op : Op α β) :
    Inv (step goodProg g st op) (specNext b cur op).1 (specNext b cur op).2 := by
  cases op with
  | begin b' h =>
    rw [step_begin]
    refine ⟨rfl, by simp, rfl, by simp [specNext], ?_⟩
    intro m hm
    have := hI.hout m hm
    refine ⟨by simp; omega, ?_⟩
    intro h; simp at h; omega
  | end_ =>
    rw [step_end]
    refine ⟨hI.hb, hI.harr, hI.hlen, hI.hcur, ?_⟩
    intro m hm
    simp only [List.mem_append, List.mem_singleton] at hm
    rcases hm with hm | hm
    · exact hI.hout m hm
    · subst hm; exact ⟨hI.harr, fun _ => Nat.le_refl _⟩
  | point x =>
    rw [step_point]
    have hlen := hI.hlen
    unfold goAppend
    split
    · -- in place
      refine ⟨hI.hb, hI.harr, by simp [specNext, hlen], ?_, ?_⟩
      · intro i hi
        simp only [specNext, List.length_append, List.length_singleton] at hi
        simp only [upd, specNext]
        by_cases hc : i = st.pts.len
        · subst hc; simp [hlen]
        · have hi' : i < cur.length := by omega
          simp [hc, hI.hcur i hi', List.getElem?_append_left hi']
      · intro m hm
        have := hI.hout m hm
        exact ⟨this.1, fun h => by have := this.2 h; simp; omega⟩
    · -- reallocated
      refine ⟨hI.hb, by simp, by simp [specNext, hlen], ?_, ?_⟩
      · intro i hi
        simp only [specNext, List.length_append, List.length_singleton] at hi
        simp only [specNext, if_true]
        by_cases hc : i = st.pts.len
        · subst hc; simp [hlen]
        · have hi' : i < cur.length := by omega
          have hlt : i < st.pts.len := by omega
          simp [hc, hlt, hI.hcur i hi', List.getElem?_append_left hi']
      · intro m hm
        have := hI.hout m hm
        refine ⟨by simp; omega, ?_⟩
        intro h; simp at h; omega

theorem out_step (g : Nat → Nat) (st : St α β) (op : Op α β) :
    (step goodProg g st op).out = st.out ++ (match op with | .end_ => [{ begin := st.begin, sl := st.pts }] | _ => []) := by
  cases op with
  | begin b h => rw [step_begin]; simp
  | end_ => rw [step_end]
  | point x => rw [step_point]; unfold goAppend; split <;> simp

/-- The late reading of everything emitted = what was emitted so far (read now) followed by the documented batches of the
rest of the input. -/
theorem observeLate_runFrom (g : Nat → Nat) (ops : List (Op α β)) :
    ∀ (st : St α β) (b : Option β) (cur : List α), Inv st b cur →
      observeLate (runFrom goodProg g st ops) = observeLate st ++ (specGo b cur ops).map (fun r => (r.1, r.2.map some)) := by
  induction ops with
  | nil => intro st b cur _; simp [runFrom, specGo]
  | cons op r ih =>
    intro st b cur hI
    have hI' := inv_step g st b cur hI op
    have := ih (step goodProg g st op) _ _ hI'
    simp only [runFrom, List.foldl_cons] at this ⊢
    rw [this]
    have hold : (st.out.map fun m => (m.begin, read (step goodProg g st op) m)) = st.out.map fun m => (m.begin, read st m) :=
      List.map_congr_left (fun m hm => by rw [read_stable g st b cur hI op m hm])
    cases op with
    | begin b' h =>
      simp only [observeLate, out_step, List.append_nil, specGo, specNext] at hold ⊢
      rw [hold]
    | point x =>
      simp only [observeLate, out_step, List.append_nil, specGo, specNext] at hold ⊢
      rw [hold]
    | end_ =>
      simp only [observeLate, out_step, List.map_append, List.map_cons, List.map_nil, specGo, specNext, List.append_assoc,
        List.cons_append, List.nil_append] at hold ⊢
      rw [hold]
      congr 2
      have hr := read_cur (step goodProg g st .end_) b cur hI'
      rw [step_end] at hr ⊢
      simp only [hI.hb] at hr ⊢
      simpa [read] using hr

theorem inv_init : Inv ({} : St α β) none [] :=
  ⟨rfl, by simp [Slice.nil], rfl, by intro i hi; simp at hi, by intro m hm; simp at hm⟩

theorem specGo_append (ops more : List (Op α β)) : ∀ (b : Option β) (cur : List α),
    ∃ rest, specGo b cur (ops ++ more) = specGo b cur ops ++ rest := by
  induction ops with
  | nil => intro b cur; exact ⟨specGo b cur more, by simp [specGo]⟩
  | cons op r ih =>
    intro b cur
    cases op with
    | begin b' h => simpa [specGo] using ih (some b') []
    | point x => simpa [specGo] using ih b (cur ++ [x])
    | end_ => obtain ⟨rest, h⟩ := ih b cur; exact ⟨rest, by simp [specGo, h]⟩

end Kap.C10.Buf
