/-
C10 — combine: which candidate sets are walked (`choose` = the k-element sublists, by position), and the bucketing: on a
batch the maximal runs of equal rounded time, on a stream the open bucket of the group's history, closed by the first
point with another rounded time.
-/
import Kap.Proofs.C10FlatStream
import Kap.Proofs.C10BatchNodes
set_option linter.unusedSimpArgs false
set_option linter.unusedVariables false
namespace Kap.C10

/-! ### the candidate sets -/

theorem mem_choose {α : Type} (k : Nat) (l s : List α) : s ∈ choose k l ↔ s.Sublist l ∧ s.length = k := by
  induction l generalizing k s with
  | nil =>
    cases k with
    | zero => simp [choose]
    | succ k =>
      simp only [choose, List.not_mem_nil, List.sublist_nil, false_iff, not_and]
      intro h; subst h; simp
  | cons x xs ih =>
    cases k with
    | zero =>
      simp only [choose, List.mem_singleton]
      constructor
      · intro h; subst h; simp
      · intro h; exact List.eq_nil_of_length_eq_zero h.2
    | succ k =>
      simp only [choose, List.mem_append, List.mem_map, ih]
      constructor
      · rintro (⟨t, ⟨hs, hl⟩, rfl⟩ | ⟨hs, hl⟩)
        · exact ⟨hs.cons_cons x, by simp [hl]⟩
        · exact ⟨hs.cons x, hl⟩
      · rintro ⟨hs, hl⟩
        cases hs with
        | cons _ h => exact Or.inr ⟨h, hl⟩
        | cons_cons _ h =>
          rename_i t
          exact Or.inl ⟨t, ⟨h, by simpa using hl⟩, rfl⟩

/-! ### the assignment of lambdas to members -/

theorem head?_flatMap_firstSome {β : Type} (g : Nat → List β) (is : List Nat) :
    (is.flatMap g).head? = firstSome (fun i => (g i).head?) is := by
  induction is with
  | nil => rfl
  | cons i r ih =>
    simp only [List.flatMap_cons, firstSome]
    cases hg : g i with
    | nil => simpa using ih
    | cons x xs => simp

/-- The backtracking walk returns the FIRST of all injective assignments (in the order in which members are tried) —
in particular it finds one whenever one exists. -/
theorem assignBT_eq_head (m : Nat → BPoint → Bool) (l : Nat) :
    ∀ (s : Nat) (rest : List BPoint), assignBT m l s rest = (assignments m l s rest).head? := by
  induction l with
  | zero => intro s rest; simp [assignBT, assignments]
  | succ l ih =>
    intro s rest
    simp only [assignBT, assignments]
    rw [head?_flatMap_firstSome]
    congr 1
    funext i
    cases nth? rest i with
    | none => rfl
    | some x =>
      simp only
      by_cases hm : m s x = true
      · simp only [hm, if_true, ih, List.head?_map]
      · simp [hm]

theorem assignBT_isSome_iff (m : Nat → BPoint → Bool) (l s : Nat) (rest : List BPoint) :
    (assignBT m l s rest).isSome = true ↔ assignments m l s rest ≠ [] := by
  rw [assignBT_eq_head]
  cases assignments m l s rest <;> simp

theorem assignBT_mem (m : Nat → BPoint → Bool) (l s : Nat) (rest sel : List BPoint) (h : assignBT m l s rest = some sel) :
    sel ∈ assignments m l s rest := by
  rw [assignBT_eq_head] at h
  exact List.mem_of_mem_head? (by rw [h]; simp)

/-! ### buckets fit -/

/-- the number of candidate sets of a bucket of n points does not exceed `.max()` -/
def combFits (c : CombineCfg) (n : Nat) : Prop := combCount n c.exprs.length ≤ c.max

theorem combineBucket_isSome (c : CombineCfg) (name : String) (dims : List String) (byName : Bool) (pts : List BPoint)
    (h : combFits c pts.length) : ∃ out, combineBucket c name dims byName pts = some out := by
  unfold combineBucket
  by_cases hp : pts = []
  · exact ⟨[], by simp [hp]⟩
  · have : ¬ combCount pts.length c.exprs.length > c.max := by unfold combFits at h; omega
    simp only [hp, if_false, this]
    split
    · exact ⟨_, rfl⟩
    · exact ⟨_, rfl⟩

/-! ### batch edges -/

structure CombRel (c : CombineCfg) (s : CombSt) (cur : List BPoint) : Prop where
  pts : s.points = cur.map (rnd c.tol)
  time : ∀ q, cur.head? = some q → s.time = some (roundTo q.time c.tol)
  none : cur = [] → s.time = none
  alive : s.dead = false

theorem combBPoints_spec (c : CombineCfg) (N : Nat) (hfit : ∀ n, n ≤ N → combFits c n) (pts : List BPoint) :
    ∀ (s : CombSt) (cur : List BPoint), CombRel c s cur → cur.length + pts.length ≤ N →
      combBPoints c s pts =
        (bucketsGo c.tol cur pts).flatMap (fun bk => (combineBucket c s.name s.dims s.byName (bk.map (rnd c.tol))).getD []) := by
  induction pts with
  | nil =>
    intro s cur hrel hlen
    simp only [combBPoints, hrel.alive, Bool.false_eq_true, if_false, bucketsGo]
    by_cases hc : cur = []
    · subst hc
      have : s.points = [] := by simpa using hrel.pts
      simp [this, combineBucket]
    · simp [hc, hrel.pts]
  | cons p ps ih =>
    intro s cur hrel hlen
    simp only [combBPoints, bucketsGo]
    have hp := hrel.pts
    cases hc : cur with
    | nil =>
      have hn := hrel.none hc
      rw [hc] at hp
      simp only [List.map_nil] at hp
      have hb : combineBucket c s.name s.dims s.byName [] = some [] := by simp [combineBucket]
      simp only [List.head?_nil, combAdd, hrel.alive, Bool.false_eq_true, if_false, hn, reduceCtorEq, hp, hb, List.nil_append]
      have := ih { s with time := some (roundTo p.time c.tol), points := [{ p with time := roundTo p.time c.tol }] } [p]
        ⟨by simp [rnd], by intro q hq; simp at hq; subst hq; rfl, by simp, hrel.alive⟩ (by simp at hlen ⊢; omega)
      simp only [hrel.alive] at this
      simpa using this
    | cons q r =>
      have ht := hrel.time q (by simp [hc])
      rw [hc] at hp
      simp only [List.head?_cons]
      by_cases heq : roundTo p.time c.tol = roundTo q.time c.tol
      · simp only [heq, if_true, combAdd, hrel.alive, Bool.false_eq_true, if_false, ht, List.nil_append]
        have := ih { s with points := s.points ++ [{ p with time := roundTo q.time c.tol }] } ((q :: r) ++ [p])
          ⟨by simp [hp, rnd, heq], by intro q' hq'; simp at hq'; subst hq'; simp [ht], by simp, hrel.alive⟩
          (by rw [hc] at hlen; simp at hlen ⊢; omega)
        simp only [hrel.alive, ht] at this
        simpa using this
      · have hne : ¬ (some (roundTo q.time c.tol) = some (roundTo p.time c.tol)) := by
          intro h; apply heq; simpa using h.symm
        have hl : s.points.length ≤ N := by
          rw [hp]; simp only [List.length_map, List.length_cons]
          rw [hc] at hlen; simp only [List.length_cons] at hlen; omega
        obtain ⟨out, hout⟩ := combineBucket_isSome c s.name s.dims s.byName s.points (hfit _ hl)
        simp only [heq, if_false, combAdd, hrel.alive, Bool.false_eq_true, ht, hne, hout, List.flatMap_cons]
        have := ih { s with time := some (roundTo p.time c.tol), points := [{ p with time := roundTo p.time c.tol }] } [p]
          ⟨by simp [rnd], by intro q' hq'; simp at hq'; subst hq'; rfl, by simp, hrel.alive⟩
          (by rw [hc] at hlen; simp at hlen ⊢; omega)
        simp only [hrel.alive] at this
        rw [this, ← hp, hout]
        rfl

/-- combine on a batch: one call of `combineBucket` per maximal run of equal rounded time, in order. -/
theorem combineBatch_eq (c : CombineCfg) (b : Batch) (hfit : ∀ n, n ≤ b.points.length → combFits c n) :
    combineBatch c b =
      (buckets c.tol b.points).flatMap (fun bk => (combineBucket c b.name b.dims b.byName (bk.map (rnd c.tol))).getD []) := by
  unfold combineBatch buckets
  exact combBPoints_spec c b.points.length hfit b.points _ [] ⟨by simp, by intro q hq; simp at hq, by intro _; rfl, rfl⟩ (by simp)

/-! ### stream edges -/

theorem combStep_same (c : CombineCfg) (s : CombSt) (q : Point) (hd : s.dead = false) (hs : s.time = some (roundTo q.time c.tol)) :
    combStep c s q = ({ s with points := s.points ++ [bufPt c.tol q] }, []) := by
  simp [combStep, combAdd, hd, hs, bufPt, BPoint.ofPoint]

theorem combStep_diff (c : CombineCfg) (s : CombSt) (q : Point) (out : List Point) (hd : s.dead = false)
    (hs : s.time ≠ some (roundTo q.time c.tol)) (hout : combineBucket c s.name s.dims s.byName s.points = some out) :
    combStep c s q = ({ s with time := some (roundTo q.time c.tol), points := [bufPt c.tol q] }, out) := by
  simp [combStep, combAdd, hd, hs, hout, bufPt, BPoint.ofPoint]

def combClosed (c : CombineCfg) (h : List Point) : Option CombSt :=
  match h.head?, h.getLast? with
  | some first, some l =>
    some { time := some (roundTo l.time c.tol), name := first.name, dims := first.dims, byName := first.byName,
           points := (openBucket c.tol h).map (bufPt c.tol) }
  | _, _ => none

theorem openBucket_length_le (tol : Int) (h : List Point) : (openBucket tol h).length ≤ h.length := by
  unfold openBucket
  cases h.getLast? with
  | none => simp
  | some l =>
    simp only [List.length_reverse]
    have := (List.takeWhile_sublist (fun q => decide (roundTo q.time tol = roundTo l.time tol)) (l := h.reverse)).length_le
    simpa using this

theorem comb_state (c : CombineCfg) (N : Nat) (hfit : ∀ n, n ≤ N → combFits c n) (h : List Point) (hlen : h.length ≤ N) :
    foldG combInit (combStep c) h = combClosed c h := by
  induction h using snoc_induction with
  | nil => simp [foldG, combClosed]
  | snoc h q ih =>
    have hlen' : h.length ≤ N := by simp at hlen; omega
    rw [foldG_snoc, ih hlen']
    cases hh : h with
    | nil =>
      simp only [combClosed, List.head?_nil, Option.getD_none, List.nil_append, List.head?_cons, List.getLast?_singleton]
      by_cases ha : q.time = roundTo q.time c.tol
      · rw [combStep_same c (combInit q) q rfl (by simp [combInit, ← ha])]
        simp [combInit, openBucket, ← ha]
      · rw [combStep_diff c (combInit q) q [] rfl (by simp [combInit, ha]) (by simp [combInit, combineBucket])]
        simp [combInit, openBucket]
    | cons first r =>
      obtain ⟨l, hl⟩ : ∃ l, (first :: r).getLast? = some l := by
        cases hx : (first :: r).getLast? with
        | none => simp at hx
        | some l => exact ⟨l, rfl⟩
      have hq : (first :: (r ++ [q])).getLast? = some q := by
        have : first :: (r ++ [q]) = (first :: r) ++ [q] := rfl
        rw [this, List.getLast?_append]; simp
      simp only [combClosed, List.head?_cons, hl, Option.getD_some, List.cons_append, hq]
      by_cases heq : roundTo q.time c.tol = roundTo l.time c.tol
      · rw [combStep_same _ _ _ rfl (by simp [heq])]
        have := openBucket_snoc_same c.tol (first :: r) l q hl heq
        simp only [List.cons_append] at this
        simp [this, heq]
      · have hne : (some (roundTo l.time c.tol) : Option Int) ≠ some (roundTo q.time c.tol) := by
          intro hx; apply heq; simpa using hx.symm
        obtain ⟨out, hout⟩ := combineBucket_isSome c first.name first.dims first.byName ((openBucket c.tol (first :: r)).map (bufPt c.tol))
          (hfit _ (by
            simp only [List.length_map]
            have := openBucket_length_le c.tol (first :: r)
            rw [hh] at hlen'; omega))
        rw [combStep_diff c _ q out rfl hne hout]
        have := openBucket_snoc_diff c.tol (first :: r) l q hl heq
        simp only [List.cons_append] at this
        simp [this]

/-- What combine emits for a point, from the history of its group. -/
def specCombinePoint (c : CombineCfg) (h : List Point) (p : Point) : List Point :=
  match h.head?, h.getLast? with
  | some first, some l =>
    if roundTo p.time c.tol = roundTo l.time c.tol then []
    else (combineBucket c first.name first.dims first.byName ((openBucket c.tol h).map (bufPt c.tol))).getD []
  | _, _ => []

theorem comb_point (c : CombineCfg) (N : Nat) (hfit : ∀ n, n ≤ N → combFits c n) (h : List Point) (hlen : h.length ≤ N) (p : Point) :
    (combStep c ((foldG combInit (combStep c) h).getD (combInit p)) p).2 = specCombinePoint c h p := by
  rw [comb_state c N hfit h hlen]
  unfold specCombinePoint
  cases hh : h with
  | nil =>
    simp only [combClosed, List.head?_nil, Option.getD_none]
    by_cases ha : p.time = roundTo p.time c.tol
    · rw [combStep_same c (combInit p) p rfl (by simp [combInit, ← ha])]
    · rw [combStep_diff c (combInit p) p [] rfl (by simp [combInit, ha]) (by simp [combInit, combineBucket])]
  | cons first r =>
    obtain ⟨l, hl⟩ : ∃ l, (first :: r).getLast? = some l := by
      cases hx : (first :: r).getLast? with
      | none => simp at hx
      | some l => exact ⟨l, rfl⟩
    simp only [combClosed, List.head?_cons, hl, Option.getD_some]
    by_cases heq : roundTo p.time c.tol = roundTo l.time c.tol
    · rw [combStep_same _ _ _ rfl (by simp [heq])]
      simp [heq]
    · have hne : (some (roundTo l.time c.tol) : Option Int) ≠ some (roundTo p.time c.tol) := by
        intro hx; apply heq; simpa using hx.symm
      obtain ⟨out, hout⟩ := combineBucket_isSome c first.name first.dims first.byName ((openBucket c.tol (first :: r)).map (bufPt c.tol))
        (hfit _ (by
          simp only [List.length_map]
          have := openBucket_length_le c.tol (first :: r)
          rw [hh] at hlen; omega))
      rw [combStep_diff c _ p out rfl hne hout]
      simp [heq, hout]

theorem groupHistory_length_le (hist : List Point) (p : Point) : (groupHistory hist p).length ≤ hist.length := by
  unfold groupHistory
  exact List.length_filter_le _ _

/-- combine on a stream (any order of times): the buffer of a group is the open bucket of its history; the first point
with another rounded time closes it and `combineBucket` runs on it; the last bucket stays buffered. -/
theorem combineStream_eq (c : CombineCfg) (ps : List Point) (hfit : ∀ n, n ≤ ps.length → combFits c n) :
    combineStream c ps = perGroup (specCombinePoint c) [] ps := by
  unfold combineStream
  rw [runGrouped_eq_perGroup]
  apply perGroup_congr_on
  intro ps1 p ps2 hps
  simp only [List.nil_append]
  apply comb_point c ps.length hfit
  have := groupHistory_length_le ps1 p
  rw [hps]; simp; omega

end Kap.C10
