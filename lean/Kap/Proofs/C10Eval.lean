/-
C10 — eval: the scope threaded through the expression loop of `EvalNode.eval` computes the documented results and the
documented output, as long as no result is shadowed (recorded finding `eval-result-shadowed`).
-/
import Kap.Proofs.C10
set_option linter.unusedSimpArgs false
set_option linter.unusedVariables false
namespace Kap.C10

theorem rec_snoc {α : Type} {P : List α → Prop} (nil : P []) (snoc : ∀ l a, P l → P (l ++ [a])) : ∀ l, P l := by
  have h : ∀ l : List α, P l.reverse := by
    intro l
    induction l with
    | nil => simpa using nil
    | cons a r ih => simpa using snoc _ a ih
  intro l
  simpa using h l.reverse

/-! ### evaluation only looks at the referenced names -/

theorem eval_congr (sc1 sc2 : Scope) (e : Expr) (h : ∀ r ∈ e.refs, aget sc1 r = aget sc2 r) :
    typeOf sc1 e = typeOf sc2 e ∧ eval sc1 e = eval sc2 e := by
  induction e with
  | lit v => simp [typeOf, eval]
  | ref n =>
    have := h n (by simp [Expr.refs])
    simp [typeOf, eval, this]
  | bin op a b iha ihb =>
    have ha := iha (fun r hr => h r (by simp [Expr.refs, hr]))
    have hb := ihb (fun r hr => h r (by simp [Expr.refs, hr]))
    simp [typeOf, eval, ha.1, ha.2, hb.1, hb.2]

/-! ### fillScope -/

/-- field value, else tag value as a string, else nothing -/
def baseVal (fields : Fields) (tags : Tags) (r : String) : Option Val :=
  match aget fields r, aget tags r with
  | some v, _ => some v
  | none, some t => some (.str t)
  | none, none => none

def collides (fields : Fields) (tags : Tags) (r : String) : Bool := (aget fields r).isSome && (aget tags r).isSome

def fillOne (fields : Fields) (tags : Tags) (sc : Scope) (r : String) : Option Scope :=
  match aget fields r, aget tags r with
  | some _, some _ => none
  | some v, none => some (aset sc r v)
  | none, some t => some (aset sc r (.str t))
  | none, none => if (aget sc r).isSome then some sc else some (aset sc r .missing)

theorem foldl_none_fill (fields : Fields) (tags : Tags) (rs : List String) :
    rs.foldl (fun acc r => match acc with | none => none | some sc => fillOne fields tags sc r) none = none := by
  induction rs with
  | nil => rfl
  | cons r rs ih => simpa using ih

theorem fillScope_eq (fields : Fields) (tags : Tags) (sc : Scope) (rs : List String) :
    fillScope sc rs fields tags = rs.foldl (fun acc r => match acc with | none => none | some sc => fillOne fields tags sc r) (some sc) := by
  unfold fillScope
  congr 1

theorem fillScope_cons (fields : Fields) (tags : Tags) (sc : Scope) (r : String) (rs : List String) :
    fillScope sc (r :: rs) fields tags =
      match fillOne fields tags sc r with
      | none => none
      | some sc1 => fillScope sc1 rs fields tags := by
  rw [fillScope_eq, List.foldl_cons]
  cases h : fillOne fields tags sc r with
  | none => simp only [h]; exact foldl_none_fill fields tags rs
  | some sc1 => simp only [h]; rw [fillScope_eq]

theorem fillOne_lookup (fields : Fields) (tags : Tags) (sc sc1 : Scope) (r : String) (h : fillOne fields tags sc r = some sc1) (k : String) :
    aget sc1 k = if k = r then (match baseVal fields tags r with | some v => some v | none => some ((aget sc r).getD .missing)) else aget sc k := by
  unfold fillOne at h
  unfold baseVal
  cases hf : aget fields r with
  | some v =>
    cases ht : aget tags r with
    | some t => simp [hf, ht] at h
    | none =>
      simp only [hf, ht, Option.some.injEq] at h
      subst h
      rw [aget_aset]
  | none =>
    cases ht : aget tags r with
    | some t =>
      simp only [hf, ht, Option.some.injEq] at h
      subst h
      rw [aget_aset]
    | none =>
      simp only [hf, ht] at h
      by_cases hs : (aget sc r).isSome
      · rw [if_pos hs] at h
        simp only [Option.some.injEq] at h
        subst h
        by_cases hk : k = r
        · subst hk
          obtain ⟨x, hx⟩ := Option.isSome_iff_exists.mp hs
          simp [hx]
        · simp [hk]
      · rw [if_neg hs] at h
        simp only [Option.some.injEq] at h
        subst h
        rw [aget_aset]
        have : aget sc r = none := by simpa using hs
        by_cases hk : k = r <;> simp [hk, this]

theorem fillOne_none (fields : Fields) (tags : Tags) (sc : Scope) (r : String) :
    fillOne fields tags sc r = none ↔ collides fields tags r = true := by
  unfold fillOne collides
  cases aget fields r <;> cases aget tags r <;> simp
  split <;> simp

/-- A failing fill is a field/tag collision on one of the references. -/
theorem fillScope_none (fields : Fields) (tags : Tags) (rs : List String) :
    ∀ sc, fillScope sc rs fields tags = none ↔ ∃ r ∈ rs, collides fields tags r = true := by
  induction rs with
  | nil => intro sc; simp [fillScope]
  | cons r rs ih =>
    intro sc
    rw [fillScope_cons]
    cases h : fillOne fields tags sc r with
    | none =>
      have := (fillOne_none fields tags sc r).mp h
      simp [this]
    | some sc1 =>
      have hn : ¬ collides fields tags r = true := by
        intro hc
        rw [(fillOne_none fields tags sc r).mpr hc] at h
        cases h
      simp only [ih sc1, List.mem_cons, exists_eq_or_imp]
      simp [hn]

/-- After a successful fill every reference is bound to the field, else the tag, else what the scope had, else missing. -/
theorem fillScope_lookup (fields : Fields) (tags : Tags) (rs : List String) :
    ∀ sc sc', fillScope sc rs fields tags = some sc' → ∀ k,
      aget sc' k = if k ∈ rs then (match baseVal fields tags k with | some v => some v | none => some ((aget sc k).getD .missing)) else aget sc k := by
  induction rs with
  | nil => intro sc sc' h k; simp [fillScope] at h; simp [h]
  | cons r rs ih =>
    intro sc sc' h k
    rw [fillScope_cons] at h
    cases h1 : fillOne fields tags sc r with
    | none => simp [h1] at h
    | some sc1 =>
      simp only [h1] at h
      rw [ih sc1 sc' h k]
      have hl := fillOne_lookup fields tags sc sc1 r h1
      by_cases hk : k ∈ rs
      · simp only [hk, if_true, List.mem_cons, or_true]
        cases hb : baseVal fields tags k with
        | some v => rfl
        | none =>
          simp only
          rw [hl k]
          by_cases hkr : k = r
          · subst hkr; simp [hb]
          · simp [hkr]
      · simp only [hk, if_false, List.mem_cons, or_false]
        rw [hl k]
        by_cases hkr : k = r
        · subst hkr; simp
        · simp [hkr]

/-! ### results -/

theorem latest_snoc (acc : List (String × Val)) (a : String) (v : Val) (k : String) :
    latest (acc ++ [(a, v)]) k = if a = k then some v else latest acc k := by
  unfold latest
  by_cases h : a = k <;> simp [List.find?_cons, h]

theorem latest_isSome (acc : List (String × Val)) (k : String) : (latest acc k).isSome = (akeys acc).contains k := by
  induction acc using Kap.C10.rec_snoc with
  | nil => simp [latest, akeys]
  | snoc acc e ih =>
    obtain ⟨a, v⟩ := e
    rw [latest_snoc]
    by_cases h : a = k
    · subst h; simp [akeys]
    · have : ¬ k = a := fun hh => h hh.symm
      simp [h, ih, akeys, this]

theorem specEnv_eq (fields : Fields) (tags : Tags) (acc : List (String × Val)) (r : String) :
    specEnv fields tags acc r =
      match latest acc r with
      | some v => some v
      | none => if collides fields tags r then none else some ((baseVal fields tags r).getD .missing) := by
  unfold specEnv collides baseVal
  cases latest acc r with
  | some v => rfl
  | none => cases aget fields r <;> cases aget tags r <;> simp

/-- What the threaded scope has to do with the results so far: a name that is a result is bound to the LATEST result of
that name; any other name is unbound unless some expression referenced it, in which case it holds the field, else the tag,
else "missing". -/
structure EvInv (fields : Fields) (tags : Tags) (sc : Scope) (acc : List (String × Val)) (seen : List String) : Prop where
  res : ∀ k v, latest acc k = some v → aget sc k = some v
  other : ∀ k, latest acc k = none → aget sc k = if k ∈ seen then some ((baseVal fields tags k).getD .missing) else none

/-- the references of an expression that are not results yet -/
def freshRefs (e : Expr) (acc : List (String × Val)) : List String := e.refs.filter (fun r => !(akeys acc).contains r)

theorem mem_freshRefs (e : Expr) (acc : List (String × Val)) (r : String) :
    r ∈ freshRefs e acc ↔ r ∈ e.refs ∧ latest acc r = none := by
  unfold freshRefs
  rw [List.mem_filter]
  have : (!(akeys acc).contains r) = true ↔ latest acc r = none := by
    rw [← latest_isSome]; cases latest acc r <;> simp
  rw [this]

theorem specEvalResults_cons (fields : Fields) (tags : Tags) (e : Expr) (es : List Expr) (a : String) (as : List String)
    (acc : List (String × Val)) :
    specEvalResults fields tags (e :: es) (a :: as) acc =
      if ((freshRefs e acc).any (fun r => collides fields tags r)) then none else
      match typeOf (tabulate e.refs (specEnv fields tags acc)) e, eval (tabulate e.refs (specEnv fields tags acc)) e with
      | some _, some v => specEvalResults fields tags es as (acc ++ [(a, v)])
      | _, _ => none := by
  simp only [specEvalResults]
  have h1 : (e.refs.map (fun r => (r, specEnv fields tags acc r))).any (fun kv => kv.2.isNone) = (freshRefs e acc).any (fun r => collides fields tags r) := by
    rw [List.any_map]
    apply Bool.eq_iff_iff.mpr
    simp only [List.any_eq_true, Function.comp]
    constructor
    · rintro ⟨r, hr, hn⟩
      rw [specEnv_eq] at hn
      cases hl : latest acc r with
      | some v => simp [hl] at hn
      | none =>
        refine ⟨r, (mem_freshRefs e acc r).mpr ⟨hr, hl⟩, ?_⟩
        simp only [hl] at hn
        by_cases hc : collides fields tags r = true
        · exact hc
        · simp [hc] at hn
    · rintro ⟨r, hr, hc⟩
      obtain ⟨hr1, hl⟩ := (mem_freshRefs e acc r).mp hr
      exact ⟨r, hr1, by rw [specEnv_eq, hl]; simp [hc]⟩
  have h2 : (e.refs.map (fun r => (r, specEnv fields tags acc r))).filterMap (fun kv => kv.2.map (fun v => (kv.1, v))) =
      tabulate e.refs (specEnv fields tags acc) := by
    unfold tabulate
    rw [List.filterMap_map]
    rfl
  rw [h1, h2]
  rfl

theorem evalLoop_cons (fields : Fields) (tags : Tags) (e : Expr) (es : List Expr) (a : String) (as earlier : List String) (sc : Scope) :
    evalLoop (e :: es) (a :: as) earlier sc fields tags =
      match fillScope sc (e.refs.filter (fun r => !earlier.contains r)) fields tags with
      | none => none
      | some sc1 =>
        match typeOf sc1 e, eval sc1 e with
        | some _, some v => evalLoop es as (earlier ++ [a]) (aset sc1 a v) fields tags
        | _, _ => none := by
  simp only [evalLoop]
  cases fillScope sc (e.refs.filter (fun r => !earlier.contains r)) fields tags with
  | none => rfl
  | some sc1 =>
    simp only
    cases typeOf sc1 e <;> cases eval sc1 e <;> rfl

/-- The expression loop: the threaded scope and the documented results go together. -/
theorem evalLoop_spec (fields : Fields) (tags : Tags) (es : List Expr) :
    ∀ (as : List String) (sc : Scope) (acc : List (String × Val)) (seen : List String),
      EvInv fields tags sc acc seen →
      match evalLoop es as (akeys acc) sc fields tags, specEvalResults fields tags es as acc with
      | none, none => True
      | some sc', some res => EvInv fields tags sc' res (seen ++ es.flatMap Expr.refs) ∧ akeys res = akeys acc ++ as.take es.length
      | _, _ => False := by
  induction es with
  | nil =>
    intro as sc acc seen hinv
    simp only [evalLoop, specEvalResults, List.flatMap_nil, List.append_nil, List.length_nil, List.take_zero]
    exact ⟨hinv, by simp⟩
  | cons e es ih =>
    intro as sc acc seen hinv
    cases as with
    | nil => simp [evalLoop, specEvalResults]
    | cons a as =>
      rw [evalLoop_cons, specEvalResults_cons]
      have hfr : e.refs.filter (fun r => !(akeys acc).contains r) = freshRefs e acc := rfl
      rw [hfr]
      by_cases hcol : (freshRefs e acc).any (fun r => collides fields tags r) = true
      · have : fillScope sc (freshRefs e acc) fields tags = none := by
          rw [fillScope_none]
          simpa using hcol
        simp [this, hcol]
      · have hsome : ∃ sc1, fillScope sc (freshRefs e acc) fields tags = some sc1 := by
          cases hf : fillScope sc (freshRefs e acc) fields tags with
          | none =>
            rw [fillScope_none] at hf
            exact absurd (by simpa using hf) hcol
          | some sc1 => exact ⟨sc1, rfl⟩
        obtain ⟨sc1, hfill⟩ := hsome
        have hlook := fillScope_lookup fields tags (freshRefs e acc) sc sc1 hfill
        simp only [hfill, hcol, Bool.false_eq_true, if_false]
        have hagree : ∀ r ∈ e.refs, aget sc1 r = aget (tabulate e.refs (specEnv fields tags acc)) r := by
          intro r hr
          rw [aget_tabulate, hlook r, specEnv_eq]
          simp only [hr, if_true]
          cases hl : latest acc r with
          | some v =>
            have hnf : r ∉ freshRefs e acc := by rw [mem_freshRefs]; simp [hl]
            simp [hnf, hinv.res r v hl]
          | none =>
            have hf : r ∈ freshRefs e acc := (mem_freshRefs e acc r).mpr ⟨hr, hl⟩
            have hnc : ¬ collides fields tags r = true := by
              intro hc; apply hcol; simp only [List.any_eq_true]; exact ⟨r, hf, hc⟩
            simp only [hf, if_true, hnc, Bool.false_eq_true, if_false]
            cases hb : baseVal fields tags r with
            | some v => rfl
            | none =>
              simp only
              rw [hinv.other r hl]
              by_cases hs : r ∈ seen <;> simp [hs, hb]
        have hc := eval_congr sc1 (tabulate e.refs (specEnv fields tags acc)) e hagree
        rw [← hc.1, ← hc.2]
        cases hty : typeOf sc1 e with
        | none => simp
        | some ty =>
          cases hev : eval sc1 e with
          | none => simp
          | some v =>
            simp only
            have hinv' : EvInv fields tags (aset sc1 a v) (acc ++ [(a, v)]) (seen ++ e.refs) := by
              constructor
              · intro k w hk
                rw [latest_snoc] at hk
                rw [aget_aset]
                by_cases hak : a = k
                · subst hak; simp at hk; simp [hk]
                · have hka : ¬ k = a := fun hh => hak hh.symm
                  simp only [hak, if_false] at hk
                  simp only [hka, if_false]
                  rw [hlook k]
                  have hnf : k ∉ freshRefs e acc := by rw [mem_freshRefs]; simp [hk]
                  simp [hnf, hinv.res k w hk]
              · intro k hk
                rw [latest_snoc] at hk
                by_cases hak : a = k
                · simp [hak] at hk
                · have hka : ¬ k = a := fun hh => hak hh.symm
                  simp only [hak, if_false] at hk
                  rw [aget_aset]
                  simp only [hka, if_false]
                  rw [hlook k, hinv.other k hk]
                  by_cases hkr : k ∈ e.refs
                  · have hf : k ∈ freshRefs e acc := (mem_freshRefs e acc k).mpr ⟨hkr, hk⟩
                    cases hb : baseVal fields tags k with
                    | some x => simp [hkr, hf, hb]
                    | none => by_cases hs : k ∈ seen <;> simp [hkr, hf, hb, hs]
                  · have hf : k ∉ freshRefs e acc := by rw [mem_freshRefs]; simp [hkr]
                    by_cases hs : k ∈ seen <;> simp [hkr, hf, hs]
            have hk2 : akeys acc ++ [a] = akeys (acc ++ [(a, v)]) := by simp [akeys]
            rw [hk2]
            have := ih as (aset sc1 a v) (acc ++ [(a, v)]) (seen ++ e.refs) hinv'
            cases h1 : evalLoop es as (akeys (acc ++ [(a, v)])) (aset sc1 a v) fields tags with
            | none =>
              cases h2 : specEvalResults fields tags es as (acc ++ [(a, v)]) with
              | none => simp
              | some res => simp [h1, h2] at this
            | some sc' =>
              cases h2 : specEvalResults fields tags es as (acc ++ [(a, v)]) with
              | none => simp [h1, h2] at this
              | some res =>
                simp only [h1, h2] at this
                simp only
                refine ⟨by simpa [List.flatMap_cons, List.append_assoc] using this.1, ?_⟩
                rw [this.2]
                simp [akeys, List.append_assoc]

/-! ### the output loops -/

theorem optFold_foldl_none {β : Type} (get : String → Option (Option β)) (keys : List String) :
    keys.foldl (fun acc k =>
      match acc with
      | none => none
      | some m =>
        match get k with
        | none => none
        | some none => some m
        | some (some v) => some (aset m k v)) (none : Option (List (String × β))) = none := by
  induction keys with
  | nil => rfl
  | cons k r ih => simpa using ih

theorem optFold_cons {β : Type} (get : String → Option (Option β)) (a : String) (r : List String) (init : List (String × β)) :
    optFold get (a :: r) init =
      match get a with
      | none => none
      | some none => optFold get r init
      | some (some v) => optFold get r (aset init a v) := by
  unfold optFold
  rw [List.foldl_cons]
  cases h : get a with
  | none => simp only [h]; exact optFold_foldl_none get r
  | some o => cases o <;> simp [h]

theorem optFold_none {β : Type} (get : String → Option (Option β)) (keys : List String) :
    ∀ init, optFold get keys init = none ↔ ∃ k ∈ keys, get k = none := by
  induction keys with
  | nil => intro init; simp [optFold]
  | cons a r ih =>
    intro init
    rw [optFold_cons]
    cases h : get a with
    | none => simp [h]
    | some o =>
      cases o with
      | none => simp [ih, h]
      | some v => simp [ih, h]

theorem optFold_lookup {β : Type} (get : String → Option (Option β)) (keys : List String) :
    ∀ init m, optFold get keys init = some m → ∀ k,
      aget m k = if k ∈ keys then (match get k with | some (some v) => some v | _ => aget init k) else aget init k := by
  induction keys with
  | nil => intro init m h k; simp [optFold] at h; simp [h]
  | cons a r ih =>
    intro init m h k
    rw [optFold_cons] at h
    cases hg : get a with
    | none => simp [hg] at h
    | some o =>
      cases o with
      | none =>
        simp only [hg] at h
        rw [ih init m h k]
        by_cases hk : k ∈ r
        · simp [hk]
        · by_cases hka : k = a
          · subst hka; simp [hk, hg]
          · simp [hk, hka]
      | some v =>
        simp only [hg] at h
        rw [ih _ m h k, aget_aset]
        by_cases hka : k = a
        · subst hka
          by_cases hk : k ∈ r <;> simp [hk, hg]
        · by_cases hk : k ∈ r <;> simp [hk, hka]

/-! ### tags and fields against the documented output -/

theorem latest_some_of_mem (res : List (String × Val)) (k : String) (h : k ∈ akeys res) : ∃ v, latest res k = some v := by
  have : (latest res k).isSome = true := by rw [latest_isSome]; simpa using h
  exact Option.isSome_iff_exists.mp this

theorem latest_none_of_not_mem (res : List (String × Val)) (k : String) (h : k ∉ akeys res) : latest res k = none := by
  have : (latest res k).isSome = false := by rw [latest_isSome]; simpa using h
  simpa using this

theorem evalTags_spec (c : EvalCfg) (fields : Fields) (tags : Tags) (sc : Scope) (res : List (String × Val)) (seen : List String)
    (hinv : EvInv fields tags sc res seen) (hkeys : akeys res = c.as) (htags : ∀ t ∈ c.tags, t ∈ c.as) :
    match evalTags c sc tags, specEvalTags c res tags with
    | none, none => True
    | some m, some m' => ∀ k, aget m k = aget m' k
    | _, _ => False := by
  have hget : ∀ t ∈ c.tags, tagGet sc t = (strResult res t).map some := by
    intro t ht
    obtain ⟨v, hv⟩ := latest_some_of_mem res t (by rw [hkeys]; exact htags t ht)
    unfold tagGet scopeGet strResult
    rw [hv, hinv.res t v hv]
    cases v <;> rfl
  unfold specEvalTags
  by_cases hbad : c.tags.any (fun t => (strResult res t).isNone) = true
  · -- some listed result is not a string: both drop the point
    have : evalTags c sc tags = none := by
      unfold evalTags
      rw [optFold_none]
      rw [List.any_eq_true] at hbad
      obtain ⟨t, ht, hb⟩ := hbad
      refine ⟨t, ht, ?_⟩
      rw [hget t ht]
      have : strResult res t = none := by simpa using hb
      rw [this]; rfl
    rw [this, if_pos hbad]
    trivial
  · rw [if_neg hbad]
    have hall : ∀ t ∈ c.tags, ∃ s, strResult res t = some s := by
      intro t ht
      cases hx : strResult res t with
      | none => exfalso; apply hbad; rw [List.any_eq_true]; exact ⟨t, ht, by simp [hx]⟩
      | some s => exact ⟨s, rfl⟩
    cases hm : evalTags c sc tags with
    | none =>
      unfold evalTags at hm
      rw [optFold_none] at hm
      obtain ⟨t, ht, hb⟩ := hm
      obtain ⟨s, hs⟩ := hall t ht
      rw [hget t ht, hs] at hb
      cases hb
    | some m =>
      simp only
      intro k
      unfold evalTags at hm
      rw [optFold_lookup _ _ _ _ hm k, aget_tabulate]
      by_cases hk : k ∈ c.tags
      · obtain ⟨s, hs⟩ := hall k hk
        have hc : c.tags.contains k = true := by simpa using hk
        rw [if_pos hk, hget k hk, hs, if_pos (by simp [hk]), if_pos hc]
        rfl
      · have hc : ¬ c.tags.contains k = true := by simpa using hk
        rw [if_neg hk, if_neg hc]
        by_cases hkt : k ∈ akeys tags
        · simp [hkt]
        · simp [hkt, hk, aget_none_of_not_mem tags k hkt]

theorem keepListGet_is_keepAt (c : EvalCfg) (fields : Fields) (tags : Tags) (sc : Scope) (res : List (String × Val))
    (hinv : EvInv fields tags sc res (c.exprs.flatMap Expr.refs)) (k : String) :
    keepListGet sc fields k = (specKeepAt c fields tags res k).map some := by
  unfold specKeepAt keepListGet scopeGet
  cases hl : latest res k with
  | some v => simp [hinv.res k v hl]
  | none =>
    rw [hinv.other k hl]
    by_cases hs : k ∈ c.exprs.flatMap Expr.refs
    · have : (c.exprs.flatMap Expr.refs).contains k = true := by simpa using hs
      simp only [hs, if_true, this, baseVal]
      cases aget fields k <;> cases aget tags k <;> rfl
    · have : (c.exprs.flatMap Expr.refs).contains k = false := by simpa using hs
      simp only [hs, if_false, this, Bool.false_eq_true]

theorem evalFields_spec (c : EvalCfg) (fields : Fields) (tags : Tags) (sc : Scope) (res : List (String × Val))
    (hinv : EvInv fields tags sc res (c.exprs.flatMap Expr.refs)) (hkeys : akeys res = c.as) :
    match evalFields c sc fields, specEvalFields c res fields tags with
    | none, none => True
    | some m, some m' => ∀ k, aget m k = aget m' k
    | _, _ => False := by
  have hres : ∀ f ∈ c.as, ∃ v, latest res f = some v ∧ scopeGet sc f = some v := by
    intro f hf
    obtain ⟨v, hv⟩ := latest_some_of_mem res f (by rw [hkeys]; exact hf)
    exact ⟨v, hv, by rw [scopeGet, hinv.res f v hv]⟩
  unfold evalFields specEvalFields
  by_cases hkeep : c.keep = true
  · rw [if_pos hkeep, if_pos hkeep]
    by_cases hlist : c.keepList ≠ []
    · rw [if_pos hlist, if_pos hlist]
      have hget := keepListGet_is_keepAt c fields tags sc res hinv
      by_cases hbad : c.keepList.any (fun k => (specKeepAt c fields tags res k).isNone) = true
      · have : optFold (keepListGet sc fields) c.keepList [] = none := by
          rw [optFold_none]
          rw [List.any_eq_true] at hbad
          obtain ⟨k, hk, hb⟩ := hbad
          refine ⟨k, hk, ?_⟩
          rw [hget k]
          have : specKeepAt c fields tags res k = none := by simpa using hb
          rw [this]; rfl
        rw [this, if_pos hbad]
        trivial
      · rw [if_neg hbad]
        cases hm : optFold (keepListGet sc fields) c.keepList [] with
        | none =>
          rw [optFold_none] at hm
          obtain ⟨k, hk, hb⟩ := hm
          rw [hget k] at hb
          exfalso
          apply hbad
          rw [List.any_eq_true]
          refine ⟨k, hk, ?_⟩
          cases hx : specKeepAt c fields tags res k with
          | none => rfl
          | some v => rw [hx] at hb; cases hb
        | some m =>
          simp only
          intro k
          rw [optFold_lookup _ _ _ _ hm k, aget_tabulate, hget k]
          by_cases hk : k ∈ c.keepList
          · rw [if_pos hk, if_pos hk]
            cases hx : specKeepAt c fields tags res k with
            | none =>
              exfalso; apply hbad; rw [List.any_eq_true]; exact ⟨k, hk, by simp [hx]⟩
            | some v => rfl
          · rw [if_neg hk, if_neg hk]; rfl
    · rw [if_neg hlist, if_neg hlist]
      cases hm : optFold (keepAllGet sc) c.as fields with
      | none =>
        rw [optFold_none] at hm
        obtain ⟨k, hk, hb⟩ := hm
        obtain ⟨v, _, hv⟩ := hres k hk
        rw [keepAllGet, hv] at hb
        cases hb
      | some m =>
        simp only
        intro k
        rw [optFold_lookup _ _ _ _ hm k, aget_tabulate]
        by_cases hk : k ∈ c.as
        · obtain ⟨v, hl, hv⟩ := hres k hk
          rw [if_pos hk, keepAllGet, hv, if_pos (by simp [hk]), hl]
          rfl
        · have hn : latest res k = none := latest_none_of_not_mem res k (by rw [hkeys]; exact hk)
          rw [if_neg hk, hn]
          by_cases hkf : k ∈ akeys fields
          · simp [hkf]
          · simp [hkf, hk, aget_none_of_not_mem fields k hkf]
  · rw [if_neg hkeep, if_neg hkeep]
    cases hm : optFold (noKeepGet c sc) c.as [] with
    | none =>
      rw [optFold_none] at hm
      obtain ⟨k, hk, hb⟩ := hm
      obtain ⟨v, _, hv⟩ := hres k hk
      unfold noKeepGet at hb
      by_cases ht : c.tags.contains k = true
      · rw [if_pos ht] at hb; cases hb
      · rw [if_neg ht, hv] at hb; cases hb
    | some m =>
      simp only
      intro k
      rw [optFold_lookup _ _ _ _ hm k, aget_tabulate]
      by_cases hk : k ∈ c.as
      · obtain ⟨v, hl, hv⟩ := hres k hk
        rw [if_pos hk, if_pos hk]
        unfold noKeepGet
        by_cases ht : c.tags.contains k = true
        · rw [if_pos ht, if_pos ht]; rfl
        · rw [if_neg ht, if_neg ht, hv, hl]; rfl
      · rw [if_neg hk, if_neg hk]; rfl

/-- **eval computes its documented output** — for configurations the pipeline accepts (as many names as expressions,
`.tags()` ⊆ `.as()`). -/
theorem evalFT_spec (c : EvalCfg) (fields : Fields) (tags : Tags)
    (hlen : c.as.length = c.exprs.length) (htags : ∀ t ∈ c.tags, t ∈ c.as) :
    match evalFT c fields tags, specEvalFT c fields tags with
    | none, none => True
    | some (f, t), some (f', t') => mapEqB f f' = true ∧ mapEqB t t' = true
    | _, _ => False := by
  have hinv0 : EvInv fields tags [] [] [] := ⟨by intro k v h; simp [latest] at h, by intro k _; simp [aget]⟩
  have hloop := evalLoop_spec fields tags c.exprs c.as [] [] [] hinv0
  have hk0 : akeys ([] : List (String × Val)) = [] := rfl
  rw [hk0] at hloop
  unfold evalFT specEvalFT
  cases h1 : evalLoop c.exprs c.as [] [] fields tags with
  | none =>
    cases h2 : specEvalResults fields tags c.exprs c.as [] with
    | none => simp
    | some res => simp [h1, h2] at hloop
  | some sc =>
    cases h2 : specEvalResults fields tags c.exprs c.as [] with
    | none => simp [h1, h2] at hloop
    | some res =>
      simp only [h1, h2] at hloop
      obtain ⟨hinv, hkeys⟩ := hloop
      have hkeys' : akeys res = c.as := by
        rw [hkeys, ← hlen]; simp [akeys]
      simp only [List.nil_append] at hinv
      have ht := evalTags_spec c fields tags sc res _ hinv hkeys' htags
      have hf := evalFields_spec c fields tags sc res hinv hkeys'
      simp only
      cases h3 : evalTags c sc tags with
      | none =>
        cases h4 : specEvalTags c res tags with
        | none => simp
        | some nt' => simp [h3, h4] at ht
      | some nt =>
        cases h4 : specEvalTags c res tags with
        | none => simp [h3, h4] at ht
        | some nt' =>
          simp only [h3, h4] at ht
          simp only
          cases h5 : evalFields c sc fields with
          | none =>
            cases h6 : specEvalFields c res fields tags with
            | none => simp
            | some nf' => simp [h5, h6] at hf
          | some nf =>
            cases h6 : specEvalFields c res fields tags with
            | none => simp [h5, h6] at hf
            | some nf' =>
              simp only [h5, h6] at hf
              simp only
              exact ⟨mapEqB_of_forall _ _ hf, mapEqB_of_forall _ _ ht⟩

end Kap.C10
