/-
C10 — flatten: the field names produced with the (repaired) shared prefix buffer are the documented names.
-/
import Kap.Proofs.C10
set_option linter.unusedSimpArgs false
set_option linter.unusedVariables false
namespace Kap.C10

theorem flattenPrefix_go (on : List String) (delim : String) (tags : Tags) (ts : List String) :
    ∀ (pre : String) (i : Nat), i > 0 →
      (flattenPrefix on delim tags pre i ts).1 =
        if ts.all (fun t => (aget tags t).isSome) then some ((ts.map (tagOr tags)).foldl (fun acc x => acc ++ delim ++ x) pre) else none := by
  induction ts with
  | nil => intro pre i _; simp [flattenPrefix]
  | cons t r ih =>
    intro pre i hi
    simp only [flattenPrefix]
    cases ht : aget tags t with
    | none => simp [ht]
    | some v =>
      have hi' : i > 0 := hi
      simp only [hi', if_true, List.all_cons, ht, Option.isSome_some, Bool.true_and, List.map_cons, tagOr, Option.getD_some,
        List.foldl_cons]
      exact ih _ (i + 1) (by omega)

theorem flattenPrefix_spec (on : List String) (delim : String) (tags : Tags) (ts : List String) :
    (flattenPrefix on delim tags "" 0 ts).1 =
      if ts.all (fun t => (aget tags t).isSome) then some (joinWith delim (ts.map (tagOr tags))) else none := by
  cases ts with
  | nil => simp [flattenPrefix, joinWith]
  | cons t r =>
    simp only [flattenPrefix]
    cases ht : aget tags t with
    | none => simp [ht]
    | some v =>
      simp only [List.all_cons, ht, Option.isSome_some, Bool.true_and, List.map_cons, tagOr, Option.getD_some, joinWith]
      have := flattenPrefix_go on delim tags r ("" ++ (if 0 > 0 then delim else "") ++ v) 1 (by omega)
      simpa using this

theorem flatName_spec (c : FlattenCfg) (tags : Tags) (fname : String) :
    (match (flattenPrefix c.on c.delim tags "" 0 c.on).1 with
      | some pre => some (flatName c pre fname)
      | none => none) = specFlatName c tags fname := by
  rw [flattenPrefix_spec]
  unfold specFlatName flatName
  by_cases h : c.on.all (fun t => (aget tags t).isSome) = true
  · simp only [h, if_true]
  · simp [h]

theorem foldl_const {α β : Type} (l : List β) (a : α) : l.foldl (fun a _ => a) a = a := by
  induction l with
  | nil => rfl
  | cons _ r ih => simpa using ih

theorem flattenGo_eq (c : FlattenCfg) (pts : List BPoint) (acc : Fields) :
    flattenGo true c "" pts acc =
      pts.foldl (fun acc p => p.fields.foldl (fun a kv =>
        match specFlatName c p.tags kv.1 with
        | some n => aset a n kv.2
        | none => a) acc) acc := by
  induction pts generalizing acc with
  | nil => simp [flattenGo]
  | cons p r ih =>
    simp only [flattenGo, List.foldl_cons]
    have hn := fun f => flatName_spec c p.tags f
    cases hp : flattenPrefix c.on c.delim p.tags "" 0 c.on with
    | mk o left =>
      cases o with
      | none =>
        simp only [if_true]
        rw [ih]
        congr 1
        have : ∀ f, specFlatName c p.tags f = none := by intro f; rw [← hn f, hp]
        simp [this, foldl_const]
      | some pre =>
        simp only
        rw [ih]
        congr 1
        have : ∀ f, specFlatName c p.tags f = some (flatName c pre f) := by intro f; rw [← hn f, hp]
        simp [this]

/-- The fields of a closed bucket are the documented ones. -/
theorem flattenFields_eq (c : FlattenCfg) (pts : List BPoint) : flattenFields c pts = specFlatFields c pts := by
  unfold flattenFields specFlatFields
  exact flattenGo_eq c pts []

end Kap.C10
