/-
C10 — flatten on a stream: when the rounded times do not decrease within a group, the buffer kept per group is "the open
bucket of the group's history" and a point with a different rounded time closes it.
-/
import Kap.Proofs.C10Hist
import Kap.Proofs.C10Flat
set_option linter.unusedSimpArgs false
set_option linter.unusedVariables false
namespace Kap.C10

/-- a buffered point: tags and fields of the point, time rounded to the tolerance -/
def bufPt (tol : Int) (q : Point) : BPoint := { tags := q.tags, fields := q.fields, time := roundTo q.time tol }

theorem specFlatFields_map (c : FlattenCfg) (f : Point → BPoint) (g : Point → BPoint) (l : List Point)
    (h : ∀ q, (f q).tags = (g q).tags ∧ (f q).fields = (g q).fields) :
    specFlatFields c (l.map f) = specFlatFields c (l.map g) := by
  unfold specFlatFields
  rw [List.foldl_map, List.foldl_map]
  congr 1
  funext acc q
  rw [(h q).1, (h q).2]

theorem openBucket_snoc_same (tol : Int) (h : List Point) (l q : Point) (hl : h.getLast? = some l)
    (heq : roundTo q.time tol = roundTo l.time tol) : openBucket tol (h ++ [q]) = openBucket tol h ++ [q] := by
  unfold openBucket
  simp only [List.getLast?_append, List.getLast?_singleton, Option.or_some, Option.some_or, hl, List.reverse_append,
    List.reverse_cons, List.reverse_nil, List.nil_append, List.singleton_append, List.takeWhile_cons, decide_true, if_true,
    heq]
  simp [heq]

theorem openBucket_snoc_diff (tol : Int) (h : List Point) (l q : Point) (hl : h.getLast? = some l)
    (hne : roundTo q.time tol ≠ roundTo l.time tol) : openBucket tol (h ++ [q]) = [q] := by
  unfold openBucket
  have hr : h.reverse = l :: (h.reverse.tail) := by
    have := List.getLast?_eq_head?_reverse (xs := h)
    rw [hl] at this
    cases hh : h.reverse with
    | nil => simp [hh] at this
    | cons a r => simp [hh] at this; simp [this]
  simp only [List.getLast?_append, List.getLast?_singleton, Option.or_some, Option.some_or, List.reverse_append,
    List.reverse_cons, List.reverse_nil, List.nil_append, List.singleton_append, List.takeWhile_cons, decide_true, if_true]
  rw [hr]
  have : ¬ roundTo l.time tol = roundTo q.time tol := fun hh => hne hh.symm
  simp [List.takeWhile_cons, this]

theorem openBucket_ne_nil (tol : Int) (h : List Point) (l : Point) (hl : h.getLast? = some l) : openBucket tol h ≠ [] := by
  unfold openBucket
  have hr : h.reverse = l :: (h.reverse.tail) := by
    have := List.getLast?_eq_head?_reverse (xs := h)
    rw [hl] at this
    cases hh : h.reverse with
    | nil => simp [hh] at this
    | cons a r => simp [hh] at this; simp [this]
  simp only [hl]
  rw [hr]
  simp [List.takeWhile_cons]

/-! ### the two cases of `flattenBuffer.Point` -/

theorem flatStep_same (c : FlattenCfg) (s : FlatSt) (q : Point) (hs : s.time = some (roundTo q.time c.tol)) :
    flatStep c s q = ({ s with points := s.points ++ [bufPt c.tol q] }, []) := by
  simp [flatStep, flatAdd, hs, bufPt]

theorem flatStep_diff (c : FlattenCfg) (s : FlatSt) (q : Point) (tl : Int) (hs : s.time = some tl)
    (hne : tl ≠ roundTo q.time c.tol) (hle : tl ≤ roundTo q.time c.tol) (hp : s.points ≠ []) :
    flatStep c s q =
      ({ s with time := some (roundTo q.time c.tol), points := [bufPt c.tol q] },
       if flattenFields c s.points = [] then []
       else [{ name := s.name, tags := s.gtags, fields := flattenFields c s.points, time := tl, dims := s.dims, byName := s.byName }]) := by
  have h1 : ¬ (some tl = some (roundTo q.time c.tol)) := by simpa using hne
  have h2 : ¬ tl > roundTo q.time c.tol := by omega
  by_cases hf : flattenFields c s.points = []
  · simp [flatStep, flatAdd, hs, h1, hp, hf, bufPt]
  · simp [flatStep, flatAdd, hs, h1, hp, hf, bufPt, h2]

/-! ### non-decreasing rounded times -/

theorem nonDecreasing_snoc (tol : Int) (l : List Int) (a : Int) :
    nonDecreasing tol (l ++ [a]) = true ↔
      nonDecreasing tol l = true ∧ (∀ x, l.getLast? = some x → roundTo x tol ≤ roundTo a tol) := by
  induction l with
  | nil => simp [nonDecreasing]
  | cons x r ih =>
    cases r with
    | nil => simp [nonDecreasing]
    | cons y r' =>
      have : (x :: y :: r') ++ [a] = x :: (y :: (r' ++ [a])) := by simp
      rw [this]
      simp only [nonDecreasing, Bool.and_eq_true, decide_eq_true_eq]
      have ih' := ih
      simp only [List.cons_append] at ih'
      rw [ih']
      simp only [List.getLast?_cons_cons]
      constructor
      · rintro ⟨h1, h2, h3⟩; exact ⟨⟨h1, h2⟩, h3⟩
      · rintro ⟨⟨h1, h2⟩, h3⟩; exact ⟨h1, h2, h3⟩

/-! ### the buffer of a group is the open bucket of its history -/

def flatClosed (c : FlattenCfg) (h : List Point) : Option FlatSt :=
  match h.head?, h.getLast? with
  | some first, some l =>
    some { time := some (roundTo l.time c.tol), name := first.name, gtags := first.groupTags, dims := first.dims,
           byName := first.byName, points := (openBucket c.tol h).map (bufPt c.tol) }
  | _, _ => none

theorem flat_state (c : FlattenCfg) (h : List Point) (hord : nonDecreasing c.tol (h.map (·.time)) = true) :
    foldG (flatInit c) (flatStep c) h = flatClosed c h := by
  induction h using snoc_induction with
  | nil => simp [foldG, flatClosed]
  | snoc h q ih =>
    rw [List.map_append, List.map_cons, List.map_nil, nonDecreasing_snoc] at hord
    rw [foldG_snoc, ih hord.1]
    cases hh : h with
    | nil =>
      simp only [flatClosed, List.head?_nil, Option.getD_none, List.nil_append, List.head?_cons, List.getLast?_singleton]
      rw [flatStep_same c (flatInit c q) q (by simp [flatInit])]
      simp [flatInit, openBucket, bufPt]
    | cons first r =>
      obtain ⟨l, hl⟩ : ∃ l, (first :: r).getLast? = some l := by
        cases hx : (first :: r).getLast? with
        | none => simp at hx
        | some l => exact ⟨l, rfl⟩
      have hle : roundTo l.time c.tol ≤ roundTo q.time c.tol := by
        apply hord.2
        rw [hh, List.getLast?_map, hl]; rfl
      have hq : (first :: (r ++ [q])).getLast? = some q := by
        have : first :: (r ++ [q]) = (first :: r) ++ [q] := rfl
        rw [this, List.getLast?_append]; simp
      simp only [flatClosed, List.head?_cons, hl, Option.getD_some, List.cons_append, List.getLast?_append,
        List.getLast?_singleton, Option.or_some, Option.some_or]
      by_cases heq : roundTo q.time c.tol = roundTo l.time c.tol
      · rw [flatStep_same _ _ _ (by simp [heq])]
        have := openBucket_snoc_same c.tol (first :: r) l q hl heq
        simp only [List.cons_append] at this
        simp [this, heq, hq]
      · have hne : roundTo l.time c.tol ≠ roundTo q.time c.tol := fun hx => heq hx.symm
        have hnil : (openBucket c.tol (first :: r)).map (bufPt c.tol) ≠ [] := by
          simpa using openBucket_ne_nil c.tol (first :: r) l hl
        rw [flatStep_diff c _ q (roundTo l.time c.tol) rfl hne hle hnil]
        have := openBucket_snoc_diff c.tol (first :: r) l q hl heq
        simp only [List.cons_append] at this
        simp [this, hq]

/-! ### the stream statement -/

theorem perGroup_congr_on (f g : List Point → Point → List Point) (ps : List Point) :
    ∀ (hist : List Point),
      (∀ ps1 p ps2, ps = ps1 ++ p :: ps2 → f (groupHistory (hist ++ ps1) p) p = g (groupHistory (hist ++ ps1) p) p) →
      perGroup f hist ps = perGroup g hist ps := by
  induction ps with
  | nil => intro hist _; simp [perGroup]
  | cons p ps ih =>
    intro hist H
    simp only [perGroup]
    have h0 := H [] p ps rfl
    simp only [List.append_nil] at h0
    rw [h0]
    congr 1
    apply ih
    intro ps1 p' ps2 hps
    have := H (p :: ps1) p' ps2 (by simp [hps])
    simpa using this

theorem nonDecreasing_append_left (tol : Int) (a b : List Int) (h : nonDecreasing tol (a ++ b) = true) : nonDecreasing tol a = true := by
  induction b using snoc_induction with
  | nil => simpa using h
  | snoc b x ih =>
    rw [← List.append_assoc, nonDecreasing_snoc] at h
    exact ih h.1

theorem flat_point (c : FlattenCfg) (h : List Point) (p : Point)
    (hord : nonDecreasing c.tol ((h ++ [p]).map (·.time)) = true) :
    (flatStep c ((foldG (flatInit c) (flatStep c) h).getD (flatInit c p)) p).2 =
      (match h.head?, h.getLast? with
      | some first, some l =>
        if roundTo p.time c.tol = roundTo l.time c.tol then [] else
        let fields := specFlatFields c ((openBucket c.tol h).map BPoint.ofPoint)
        if fields = [] then [] else
        [{ name := first.name, tags := first.groupTags, fields := fields, time := roundTo l.time c.tol, dims := first.dims, byName := first.byName }]
      | _, _ => []) := by
  rw [List.map_append, List.map_cons, List.map_nil, nonDecreasing_snoc] at hord
  rw [flat_state c h hord.1]
  cases hh : h with
  | nil =>
    simp only [flatClosed, List.head?_nil, Option.getD_none]
    rw [flatStep_same c (flatInit c p) p (by simp [flatInit])]
  | cons first r =>
    obtain ⟨l, hl⟩ : ∃ l, (first :: r).getLast? = some l := by
      cases hx : (first :: r).getLast? with
      | none => simp at hx
      | some l => exact ⟨l, rfl⟩
    have hle : roundTo l.time c.tol ≤ roundTo p.time c.tol := by
      apply hord.2
      rw [hh, List.getLast?_map, hl]; rfl
    have hfields : flattenFields c ((openBucket c.tol (first :: r)).map (bufPt c.tol)) =
        specFlatFields c ((openBucket c.tol (first :: r)).map BPoint.ofPoint) := by
      rw [flattenFields_eq]
      exact specFlatFields_map c _ _ _ (fun q => ⟨rfl, rfl⟩)
    simp only [flatClosed, List.head?_cons, hl, Option.getD_some]
    by_cases heq : roundTo p.time c.tol = roundTo l.time c.tol
    · rw [flatStep_same _ _ _ (by simp [heq])]
      simp [heq]
    · have hne : roundTo l.time c.tol ≠ roundTo p.time c.tol := fun hx => heq hx.symm
      have hnil : (openBucket c.tol (first :: r)).map (bufPt c.tol) ≠ [] := by
        simpa using openBucket_ne_nil c.tol (first :: r) l hl
      rw [flatStep_diff c _ p (roundTo l.time c.tol) rfl hne hle hnil]
      simp only [heq, if_false, hfields]

theorem filter_split (ps1 ps2 : List Point) (p : Point) :
    (ps1 ++ p :: ps2).filter (fun q => q.gid = p.gid) =
      (groupHistory ps1 p ++ [p]) ++ ps2.filter (fun q => q.gid = p.gid) := by
  simp [groupHistory, List.filter_append, List.filter_cons]

/-- flatten on a stream whose rounded times do not decrease within a group. -/
theorem flattenStream_eq (c : FlattenCfg) (ps : List Point) (hord : groupTimesOrdered c.tol ps = true) :
    flattenStream c ps = specFlatten c ps := by
  unfold flattenStream specFlatten
  rw [runGrouped_eq_perGroup]
  apply perGroup_congr_on
  intro ps1 p ps2 hps
  simp only [List.nil_append]
  apply flat_point
  unfold groupTimesOrdered at hord
  rw [List.all_eq_true] at hord
  have hp := hord p (by rw [hps]; simp)
  rw [hps, filter_split, List.map_append] at hp
  exact nonDecreasing_append_left _ _ _ hp

end Kap.C10
