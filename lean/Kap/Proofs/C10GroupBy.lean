/-
C10 — groupBy on batch edges: every incoming point lands in exactly the group of its id (created from it when new), the
buffered groups are emitted — sorted by time, nothing lost, nothing invented — exactly when the end time of the incoming
batch differs from the last one seen, and the buffer is empty afterwards.
-/
import Kap.Proofs.C10Sort
import Kap.Proofs.C10
set_option linter.unusedSimpArgs false
set_option linter.unusedVariables false
namespace Kap.C10

/-! ### the sort -/

theorem insertByTime_perm (p : BPoint) (l : List BPoint) : (insertByTime p l).Perm (p :: l) := by
  induction l with
  | nil => simp [insertByTime]
  | cons x r ih =>
    simp only [insertByTime]
    split
    · exact List.Perm.refl _
    · exact (List.Perm.cons x ih).trans (List.Perm.swap p x r)

theorem sortByTime_fold_perm (l acc : List BPoint) :
    (l.foldl (fun acc p => insertByTime p acc) acc).Perm (acc ++ l) := by
  induction l generalizing acc with
  | nil => simp
  | cons p r ih =>
    simp only [List.foldl_cons]
    refine (ih _).trans ?_
    have h1 : (insertByTime p acc ++ r).Perm ((p :: acc) ++ r) := List.Perm.append_right r (insertByTime_perm p acc)
    refine h1.trans ?_
    simp only [List.cons_append]
    exact (List.perm_middle).symm

/-- the emitted points are exactly the buffered ones -/
theorem sortByTime_perm (l : List BPoint) : (sortByTime l).Perm l := by
  have := sortByTime_fold_perm l []
  simpa [sortByTime] using this

theorem mem_insertByTime (p : BPoint) (l : List BPoint) (y : BPoint) : y ∈ insertByTime p l ↔ y = p ∨ y ∈ l := by
  rw [(insertByTime_perm p l).mem_iff]; simp

theorem insertByTime_sorted (p : BPoint) (l : List BPoint) (h : l.Pairwise (fun a b => a.time ≤ b.time)) :
    (insertByTime p l).Pairwise (fun a b => a.time ≤ b.time) := by
  induction l with
  | nil => simp [insertByTime]
  | cons x r ih =>
    simp only [List.pairwise_cons] at h
    simp only [insertByTime]
    split
    · rename_i hlt
      simp only [List.pairwise_cons, List.mem_cons]
      refine ⟨?_, h.1, h.2⟩
      rintro y (rfl | hy)
      · omega
      · have := h.1 y hy; omega
    · rename_i hnlt
      simp only [List.pairwise_cons]
      refine ⟨?_, ih h.2⟩
      intro y hy
      rcases (mem_insertByTime p r y).mp hy with rfl | hy
      · omega
      · exact h.1 y hy

/-- … and they are sorted by time -/
theorem sortByTime_sorted (l : List BPoint) : (sortByTime l).Pairwise (fun a b => a.time ≤ b.time) := by
  have : ∀ (l acc : List BPoint), acc.Pairwise (fun a b => a.time ≤ b.time) →
      (l.foldl (fun acc p => insertByTime p acc) acc).Pairwise (fun a b => a.time ≤ b.time) := by
    intro l
    induction l with
    | nil => intro acc h; simpa using h
    | cons p r ih => intro acc h; exact ih _ (insertByTime_sorted p acc h)
  exact this l [] (by simp)

/-! ### one point -/

/-- the identity the regrouping gives a point of the current batch -/
def gbId (c : GroupByCfg) (s : GbSt) (p : BPoint) : String := toGroupID s.name p.tags (gbTagNames c p.tags) s.byName

/-- A point is appended to the group of its id; a group that does not exist yet is created from it: name, measurement
flag and end time of the current batch, tags = the point's values of the (documented) dimensions. No other group changes,
nothing else of the state changes. -/
theorem gbBatchPoint_spec (c : GroupByCfg) (s : GbSt) (p : BPoint) :
    aget (gbBatchPoint c s p).groups (gbId c s p) =
      some (match aget s.groups (gbId c s p) with
        | some g => { g with points := g.points ++ [p] }
        | none => { name := s.name, tags := restrictTags p.tags (specGroupByDims c p.tags), byName := s.byName, tmax := s.tmax, points := [p] }) ∧
    (∀ id, id ≠ gbId c s p → aget (gbBatchPoint c s p).groups id = aget s.groups id) ∧
    (gbBatchPoint c s p).lastTime = s.lastTime ∧ (gbBatchPoint c s p).name = s.name ∧
    (gbBatchPoint c s p).byName = s.byName ∧ (gbBatchPoint c s p).tmax = s.tmax := by
  unfold gbBatchPoint gbId
  simp only
  cases hg : aget s.groups (toGroupID s.name p.tags (gbTagNames c p.tags) s.byName) with
  | some g =>
    refine ⟨by simp [aget_aset], ?_, rfl, rfl, rfl, rfl⟩
    intro id hid
    simp [aget_aset, hid]
  | none =>
    refine ⟨?_, ?_, rfl, rfl, rfl, rfl⟩
    · simp [aget_append, hg, aget]
      simp [gbTagNames_eq]
    · intro id hid
      have : ¬ toGroupID s.name p.tags (gbTagNames c p.tags) s.byName = id := fun h => hid h.symm
      rw [aget_append]
      cases aget s.groups id <;> simp [aget, this]

/-! ### the points of a batch -/

def groupPoints (G : List (String × Batch)) (id : String) : List BPoint := ((aget G id).map (·.points)).getD []

theorem gbId_congr (c : GroupByCfg) (s s' : GbSt) (p : BPoint) (hn : s'.name = s.name) (hb : s'.byName = s.byName) :
    gbId c s' p = gbId c s p := by
  simp [gbId, hn, hb]

/-- Regrouping the points of a batch: afterwards the group of every id holds what it held before followed by exactly the
points of that id, in arrival order — no point is lost, none lands in two groups. -/
theorem gb_fold_points (c : GroupByCfg) (pts : List BPoint) :
    ∀ (s : GbSt) (id : String),
      groupPoints (pts.foldl (gbBatchPoint c) s).groups id =
        groupPoints s.groups id ++ pts.filter (fun p => gbId c s p = id) := by
  induction pts with
  | nil => intro s id; simp
  | cons p r ih =>
    intro s id
    obtain ⟨h1, h2, _, hn, hb, _⟩ := gbBatchPoint_spec c s p
    rw [List.foldl_cons, ih]
    have hcongr : ∀ q, gbId c (gbBatchPoint c s p) q = gbId c s q := fun q => gbId_congr c s _ q hn hb
    simp only [hcongr, List.filter_cons]
    by_cases hid : gbId c s p = id
    · subst hid
      simp only [decide_true, if_true]
      unfold groupPoints
      rw [h1]
      cases aget s.groups (gbId c s p) <;> simp
    · have : id ≠ gbId c s p := fun h => hid h.symm
      simp only [hid, decide_false, Bool.false_eq_true, if_false]
      unfold groupPoints
      rw [h2 id this]

/-! ### one batch -/

/-- Emission: exactly when the end time of the incoming batch differs from the last one seen, ALL buffered groups are
emitted (points sorted by time, a permutation of what was buffered, headers untouched) and the buffer restarts empty;
otherwise nothing is emitted and the incoming points join the buffered groups. -/
theorem gbBatch_emit (c : GroupByCfg) (s : GbSt) (b : Batch) :
    (b.tmax ≠ s.lastTime →
      (gbBatch c s b).2.length = s.groups.length ∧
      (∀ i (h : i < s.groups.length),
        ∃ o, (gbBatch c s b).2[i]? = some o ∧ o.name = (s.groups[i]).2.name ∧ o.tags = (s.groups[i]).2.tags ∧
          o.byName = (s.groups[i]).2.byName ∧ o.tmax = (s.groups[i]).2.tmax ∧
          o.points.Perm (s.groups[i]).2.points ∧ o.points.Pairwise (fun a b => a.time ≤ b.time)) ∧
      (gbBatch c s b).1 = b.points.foldl (gbBatchPoint c)
        { lastTime := b.tmax, name := b.name, byName := b.byName || c.byName, tmax := b.tmax, groups := [] }) ∧
    (b.tmax = s.lastTime →
      (gbBatch c s b).2 = [] ∧
      (gbBatch c s b).1 = b.points.foldl (gbBatchPoint c)
        { s with name := b.name, byName := b.byName || c.byName, tmax := b.tmax }) := by
  constructor
  · intro hne
    have hout : (gbBatch c s b).2 = s.groups.map (fun g => { g.2 with points := sortByTime g.2.points }) := by
      unfold gbBatch; simp [hne]
    have hst : (gbBatch c s b).1 = b.points.foldl (gbBatchPoint c)
        { lastTime := b.tmax, name := b.name, byName := b.byName || c.byName, tmax := b.tmax, groups := [] } := by
      unfold gbBatch; simp [hne]
    refine ⟨by rw [hout]; simp, ?_, hst⟩
    intro i hi
    rw [hout]
    refine ⟨{ (s.groups[i]).2 with points := sortByTime (s.groups[i]).2.points }, by simp [hi], rfl, rfl, rfl, rfl, ?_, ?_⟩
    · exact sortByTime_perm _
    · exact sortByTime_sorted _
  · intro heq
    unfold gbBatch
    simp [heq]

end Kap.C10
