/-
C10 — the history statements of the stateful nodes: the per-group state kept by the code is a function of the group's
own history (closed forms), hence the stream functions equal the documented history functions.
-/
import Kap.Proofs.C10
set_option linter.unusedSimpArgs false
set_option linter.unusedVariables false
namespace Kap.C10

theorem snoc_induction {α : Type} {P : List α → Prop} (nil : P []) (snoc : ∀ l a, P l → P (l ++ [a])) : ∀ l, P l := by
  have h : ∀ l : List α, P l.reverse := by
    intro l
    induction l with
    | nil => simpa using nil
    | cons a r ih => simpa using snoc _ a ih
  intro l
  simpa using h l.reverse

/-! ### sample -/

theorem sample_fold (n dur : Int) (h : List Point) (o : Option Int) :
    (h.foldl (fun o q => some (sampleStep n dur (o.getD 0) q).1) o).getD 0 = o.getD 0 + h.length := by
  induction h generalizing o with
  | nil => simp
  | cons q r ih =>
    rw [List.foldl_cons, ih]
    simp only [sampleStep, Option.getD_some, List.length_cons]
    omega

theorem sample_state (n dur : Int) (h : List Point) :
    (foldG (fun _ => (0 : Int)) (sampleStep n dur) h).getD 0 = h.length := by
  have := sample_fold n dur h none
  simpa [foldG] using this

/-- `t.Equal(t.Truncate(d))` says "t is a multiple of d counted from Go's zero time". -/
theorem truncate_fixed_iff (t d : Int) : (Kap.C16.goTruncate t d == t) = onGoBoundary t d := by
  unfold Kap.C16.goTruncate onGoBoundary
  by_cases hd : d ≤ 0
  · simp [hd]
  · simp only [hd, if_false, decide_false, Bool.false_or]
    by_cases hm : (t + Kap.C16.zeroOff) % d = 0
    · show ((t - (t + Kap.C16.zeroOff) % d == t) = ((t + Kap.C16.zeroOff) % d == 0))
      rw [hm]; simp
    · have : t - (t + Kap.C16.zeroOff) % d ≠ t := by omega
      rw [beq_eq_false_iff_ne.mpr this, beq_eq_false_iff_ne.mpr hm]

theorem sampleStream_eq (n dur : Int) (ps : List Point) : sampleStream n dur ps = specSample n dur ps := by
  unfold sampleStream specSample
  rw [runGrouped_eq_perGroup]
  apply perGroup_congr
  intro h p
  simp only [sample_state, sampleStep, shouldKeep, truncate_fixed_iff]

/-! ### stateCount / stateDuration -/

theorem currentRun_snoc (e : Expr) (h : List Point) (q : Point) :
    currentRun e (h ++ [q]) =
      match evalPred e q.fields q.tags with
      | none => currentRun e h
      | some true => currentRun e h ++ [q]
      | some false => [] := by
  unfold currentRun
  cases hq : evalPred e q.fields q.tags with
  | none => simp [List.filter_append, List.filter_cons, hq]
  | some b =>
    cases b with
    | true => simp [List.filter_append, List.filter_cons, hq, List.takeWhile_cons]
    | false => simp [List.filter_append, List.filter_cons, hq, List.takeWhile_cons]

theorem count_state (e : Expr) (as : String) (h : List Point) :
    (foldG (fun _ => (0 : Int)) (countStep e as) h).getD 0 = (currentRun e h).length := by
  induction h using snoc_induction with
  | nil => simp [foldG, currentRun]
  | snoc h q ih =>
    rw [foldG_snoc, currentRun_snoc]
    simp only [Option.getD_some, countStep, countFT]
    cases hq : evalPred e q.fields q.tags with
    | none => simp [ih]
    | some b => cases b <;> simp [countTrack, ih]

theorem countStream_eq (e : Expr) (as : String) (ps : List Point) : countStream e as ps = specStateCount e as ps := by
  unfold countStream specStateCount
  rw [runGrouped_eq_perGroup]
  apply perGroup_congr
  intro h p
  simp only [count_state, countStep, countFT]
  cases hp : evalPred e p.fields p.tags with
  | none => simp
  | some b => cases b <;> simp [countTrack]

theorem dur_state (e : Expr) (as : String) (unit : Int) (h : List Point) :
    (foldG (fun _ => (none : Option Int)) (durStep e as unit) h).getD none = (currentRun e h).head?.map (·.time) := by
  induction h using snoc_induction with
  | nil => simp [foldG, currentRun]
  | snoc h q ih =>
    rw [foldG_snoc, currentRun_snoc]
    simp only [Option.getD_some, durStep, durFT]
    cases hq : evalPred e q.fields q.tags with
    | none => simp [ih]
    | some b =>
      cases b with
      | false => simp [durTrack]
      | true =>
        simp only [durTrack, ih]
        cases hr : currentRun e h with
        | nil => simp
        | cons x r => simp

theorem durStream_eq (e : Expr) (as : String) (unit : Int) (ps : List Point) :
    durStream e as unit ps = specStateDuration e as unit ps := by
  unfold durStream specStateDuration
  rw [runGrouped_eq_perGroup]
  apply perGroup_congr
  intro h p
  simp only [dur_state, durStep, durFT]
  cases hp : evalPred e p.fields p.tags with
  | none => simp
  | some b =>
    cases b with
    | false => simp [durTrack]
    | true =>
      simp only [durTrack]
      cases hr : (currentRun e h).head? <;> simp

/-! ### changeDetect -/

theorem emittedOf_snoc (fs : List String) (h : List Point) (q : Point) :
    emittedOf fs (h ++ [q]) =
      if changed fs ((emittedOf fs h).getLast?.map (·.fields)) q.fields then emittedOf fs h ++ [q] else emittedOf fs h := by
  unfold emittedOf
  rw [List.foldl_append]
  rfl

theorem change_state (fs : List String) (h : List Point) :
    (foldG (fun _ => (none : Option Fields)) (changeStep fs) h).getD none = (emittedOf fs h).getLast?.map (·.fields) := by
  induction h using snoc_induction with
  | nil => simp [foldG, emittedOf]
  | snoc h q ih =>
    rw [foldG_snoc, emittedOf_snoc]
    simp only [Option.getD_some, changeStep, ih]
    split <;> simp

theorem changeStream_eq (fs : List String) (ps : List Point) : changeStream fs ps = specChangeDetect fs ps := by
  unfold changeStream specChangeDetect
  rw [runGrouped_eq_perGroup]
  apply perGroup_congr
  intro h p
  simp only [change_state, changeStep]
  split <;> simp

/-! ### derivative -/

theorem lastNumeric_snoc (f : String) (h : List Point) (q : Point) :
    lastNumeric f (h ++ [q]) = if isNumeric (aget q.fields f) then some q else lastNumeric f h := by
  simp [lastNumeric, List.find?_cons]
  split <;> simp_all

theorem isNumeric_iff (v : Option Val) : isNumeric v = (numToFloat v).isSome := by
  cases v with
  | none => rfl
  | some x => cases x <;> rfl

/-- a point is stored exactly when its field is numeric — whatever else happens -/
theorem derivative_store (c : DerivCfg) (prev : Option (Fields × Int)) (fields : Fields) (t : Int) :
    (derivative c prev fields t).2 = isNumeric (aget fields c.field) := by
  unfold derivative
  rw [isNumeric_iff]
  cases h1 : numToFloat (aget fields c.field) with
  | none => simp
  | some f1 =>
    cases prev with
    | none => simp
    | some pr =>
      obtain ⟨pf, pt⟩ := pr
      simp only
      cases h0 : numToFloat (aget pf c.field) with
      | none => simp
      | some f0 =>
        simp only
        split
        · simp
        · split <;> simp

theorem deriv_state (c : DerivCfg) (h : List Point) :
    (foldG (fun _ => (none : Option (Fields × Int))) (derivStep c) h).getD none =
      (lastNumeric c.field h).map (fun q => (q.fields, q.time)) := by
  induction h using snoc_induction with
  | nil => simp [foldG, lastNumeric]
  | snoc h q ih =>
    rw [foldG_snoc, lastNumeric_snoc]
    simp only [Option.getD_some, derivStep, derivFT, derivative_store, ih]
    split <;> simp

theorem derivStream_eq (c : DerivCfg) (ps : List Point) : derivStream c ps = specDerivative c ps := by
  unfold derivStream specDerivative
  rw [runGrouped_eq_perGroup]
  apply perGroup_congr
  intro h p
  simp only [deriv_state, derivStep, derivFT]
  rw [isNumeric_iff]
  unfold derivative
  cases h1 : numToFloat (aget p.fields c.field) with
  | none => simp
  | some f1 =>
    cases hl : lastNumeric c.field h with
    | none => simp
    | some prev =>
      simp only [Option.map_some, Option.isSome_some, Bool.not_true, Bool.false_eq_true, if_false, specDerivValue, h1]
      cases h0 : numToFloat (aget prev.fields c.field) with
      | none => simp
      | some f0 =>
        simp only
        by_cases ht : p.time - prev.time = 0
        · have : p.time = prev.time := by omega
          simp [ht, this]
        · have : ¬ p.time = prev.time := by omega
          simp only [ht, this, if_false]
          by_cases hn : (c.nonNeg && decide (f1 - f0 < 0)) = true
          · simp [hn]
          · simp [hn]

end Kap.C10
