/-
C10 — proofs of the property theorems restated in Kap/Props/C10.lean. They live here so that the equation lemmas which
`simp` / `unfold` realise on the way are not stored in (and counted as obligations of) the Props module.
-/
import Kap.Proofs.C10Batch
import Kap.Proofs.C10Flat
import Kap.Proofs.C10Sort
import Kap.Proofs.C10FlatStream
import Kap.Proofs.C10Eval
import Kap.Proofs.C10Combine
import Kap.Proofs.C10GroupBy
set_option linter.unusedSimpArgs false
namespace Kap.C10.Main
open Kap.C10

theorem pipeline_compositional (a b : List Node) (e : Edge) : runChain (a ++ b) e = runChain b (runChain a e) := by
  simp [runChain, List.foldl_append]

theorem fork_children_independent (n : Node) (c : Pipe) (cs : List Pipe) (e : Edge) :
    (Pipe.node n (c :: cs)).outputs e = n.run e :: (c.outputs (n.run e) ++ ((Pipe.node n cs).outputs e).tail) := by
  simp [Pipe.outputs, Pipe.outputs.outputsList]

theorem where_spec (e : Expr) (ps : List Point) : whereStream e ps = specWhere e ps := by
  unfold whereStream specWhere wherePass
  congr 1; funext p
  by_cases h : evalPred e p.fields p.tags = some true <;> simp [h]

theorem default_spec (cf : Fields) (ct : Tags) (hf : (akeys cf).Nodup) (ht : (akeys ct).Nodup) (p : Point) :
    (defaultPoint cf ct p).equivB (specDefault cf ct p) = true := by
  have h1 : mapEqB (defaultTags ct p.tags) (tabulate (akeys p.tags ++ akeys ct) (specDefaultTag ct p.tags)) = true := by
    apply mapEqB_of_forall
    intro k
    rw [defaultTags_lookup ct p.tags ht, aget_tabulate]
    by_cases hk : k ∈ akeys p.tags ++ akeys ct
    · simp [hk]
    · simp only [List.mem_append, not_or] at hk
      simp [hk, specDefaultTag, aget_none_of_not_mem _ _ hk.1, aget_none_of_not_mem _ _ hk.2]
  have h2 : mapEqB (defaultFields cf p.fields) (tabulate (akeys p.fields ++ akeys cf) (specDefaultField cf p.fields)) = true := by
    apply mapEqB_of_forall
    intro k
    rw [defaultFields_lookup cf p.fields hf, aget_tabulate]
    by_cases hk : k ∈ akeys p.fields ++ akeys cf
    · simp [hk]
    · simp only [List.mem_append, not_or] at hk
      simp [hk, specDefaultField, aget_none_of_not_mem _ _ hk.1, aget_none_of_not_mem _ _ hk.2]
  simp [Point.equivB, defaultPoint, specDefault, specDefaultFT, h1, h2]

theorem delete_spec (df dt : List String) (p : Point) : (deletePoint df dt p).equivB (specDelete df dt p) = true := by
  have h1 : mapEqB (deleteKeys dt p.tags) (tabulate (akeys p.tags) (specDeleteAt dt p.tags)) = true := by
    apply mapEqB_of_forall
    intro k
    rw [deleteKeys_lookup, aget_tabulate]
    by_cases hk : k ∈ akeys p.tags
    · simp [hk]
    · simp [hk, specDeleteAt, aget_none_of_not_mem _ _ hk]
  have h2 : mapEqB (deleteKeys df p.fields) (tabulate (akeys p.fields) (specDeleteAt df p.fields)) = true := by
    apply mapEqB_of_forall
    intro k
    rw [deleteKeys_lookup, aget_tabulate]
    by_cases hk : k ∈ akeys p.fields
    · simp [hk]
    · simp [hk, specDeleteAt, aget_none_of_not_mem _ _ hk]
  have key : deletePoint df dt p =
      { name := p.name, tags := deleteKeys dt p.tags, fields := deleteKeys df p.fields, time := p.time,
        dims := p.dims.filter (fun d => !dt.contains d), byName := p.byName } := by
    unfold deletePoint
    by_cases hany : p.dims.any (fun d => dt.contains d) = true
    · rw [if_pos hany]
    · have hf : p.dims.filter (fun d => !dt.contains d) = p.dims :=
        filter_eq_self_of_not_any p.dims (fun d => dt.contains d) (by simpa using hany)
      rw [if_neg hany, hf]
  rw [key]
  simp [Point.equivB, specDelete, h1, h2]

theorem batch_stream_agree_sample (n dur : Int) (b : Batch) :
    (sampleBatch n dur b).points = (sampleStream n dur (b.points.map (toPt b.name))).map BPoint.ofPoint := by
  simp only [sampleBatch, sampleStream, runGrouped_batch]
  exact sample_batch_single n dur b.name b.points 0

theorem batch_stream_agree_derivative (c : DerivCfg) (b : Batch) :
    (derivBatch c b).points = (derivStream c (b.points.map (toPt b.name))).map BPoint.ofPoint := by
  simp only [derivBatch, derivStream, runGrouped_batch]
  exact deriv_batch_single c b.name b.points none

theorem batch_stream_agree_changeDetect (fs : List String) (b : Batch) :
    (changeBatch fs b).points = (changeStream fs (b.points.map (toPt b.name))).map BPoint.ofPoint := by
  simp only [changeBatch, changeStream, runGrouped_batch]
  exact change_batch_single fs b.name b.points none

theorem batch_stream_agree_stateCount (e : Expr) (as : String) (b : Batch) :
    (countBatch e as b).points = (countStream e as (b.points.map (toPt b.name))).map BPoint.ofPoint := by
  simp only [countBatch, countStream, runGrouped_batch]
  exact count_batch_single e as b.name b.points 0

theorem batch_stream_agree_stateDuration (e : Expr) (as : String) (unit : Int) (b : Batch) :
    (durBatch e as unit b).points = (durStream e as unit (b.points.map (toPt b.name))).map BPoint.ofPoint := by
  simp only [durBatch, durStream, runGrouped_batch]
  exact dur_batch_single e as unit b.name b.points none

theorem batch_stream_agree_pointwise (e : Expr) (c : EvalCfg) (df dt : List String) (d : Int) (b : Batch) :
    (whereBatch e b).points = ((whereStream e (b.points.map (toPt b.name))).map BPoint.ofPoint) ∧
    (evalBatch c b).points = ((evalStream c (b.points.map (toPt b.name))).map BPoint.ofPoint) ∧
    (deleteBatch df dt b).points = ((b.points.map (toPt b.name)).map (deletePoint df dt)).map BPoint.ofPoint ∧
    (shiftBatch d b).points = ((b.points.map (toPt b.name)).map (shiftPoint d)).map BPoint.ofPoint := by
  refine ⟨?_, ?_, ?_, ?_⟩
  · simp only [whereBatch, whereStream, List.filter_map, List.map_map]
    have : (BPoint.ofPoint ∘ toPt b.name) = id := by funext p; simp [ofPoint_toPt]
    simp [this, Function.comp_def, toPt]
  · simp only [evalBatch, evalStream]
    induction b.points with
    | nil => simp
    | cons p r ih =>
      simp only [List.filterMap_cons, List.map_cons, evalBPoint, evalPoint, toPt]
      cases evalFT c p.fields p.tags <;> simp_all [BPoint.ofPoint, toPt, evalBPoint, evalPoint]
  · simp [deleteBatch, deleteBPoint, deletePoint, toPt, BPoint.ofPoint, List.map_map, Function.comp_def]
  · simp [shiftBatch, shiftPoint, toPt, BPoint.ofPoint, List.map_map, Function.comp_def]

theorem combine_old_panics :
    combAddOldPanics 1000000000 (some 1000400000000) 0 1000400000000 = true ∧ (∀ tol t, combAddOldPanics tol none 0 t = true) := by
  refine ⟨by decide, ?_⟩
  intro tol t
  simp [combAddOldPanics]

theorem equivB_is_map_equality (a b : Point) :
    a.equivB b = true ↔ (a.name = b.name ∧ a.time = b.time ∧ a.dims = b.dims ∧ a.byName = b.byName ∧
      (∀ k, aget a.tags k = aget b.tags k) ∧ (∀ k, aget a.fields k = aget b.fields k)) := by
  unfold Point.equivB
  simp only [Bool.and_eq_true, beq_iff_eq, mapEqB_iff]
  constructor
  · rintro ⟨⟨⟨⟨⟨h1, h2⟩, h3⟩, h4⟩, h5⟩, h6⟩; exact ⟨h1, h2, h3, h4, h5, h6⟩
  · rintro ⟨h1, h2, h3, h4, h5, h6⟩; exact ⟨⟨⟨⟨⟨h1, h2⟩, h3⟩, h4⟩, h5⟩, h6⟩

theorem find_first {α : Type} (p : α → Bool) (rest : List α) (x : α) (h : rest.find? p = some x) :
    ∃ i, i < rest.length ∧ nth? rest i = some x ∧ p x = true ∧ rest.eraseP p = rest.eraseIdx i := by
  induction rest with
  | nil => simp at h
  | cons y ys ih =>
    by_cases hy : p y = true
    · simp only [List.find?_cons, hy] at h
      cases h
      exact ⟨0, by simp, by simp [nth?], hy, by simp [List.eraseP_cons, hy]⟩
    · have hy' : p y = false := by simpa using hy
      simp only [List.find?_cons, hy'] at h
      obtain ⟨i, hi, hn, hp, he⟩ := ih h
      exact ⟨i + 1, by simp; omega, by simp [nth?, hn], hp, by simp [List.eraseP_cons, hy', he]⟩

theorem assign_mem_assignments {α : Type} (m : Nat → α → Bool) (l : Nat) :
    ∀ (s : Nat) (rest sel : List α), assign m l s rest = some sel → sel ∈ assignments m l s rest := by
  induction l with
  | zero => intro s rest sel h; simp [assign] at h; simp [assignments, h]
  | succ l ih =>
    intro s rest sel h
    simp only [assign] at h
    cases hf : rest.find? (m s) with
    | none => simp [hf] at h
    | some x =>
      simp only [hf] at h
      cases ha : assign m l (s + 1) (rest.eraseP (m s)) with
      | none => simp [ha] at h
      | some r =>
        simp only [ha, Option.some.injEq] at h
        subst h
        obtain ⟨i, hi, hn, hp, he⟩ := find_first (m s) rest x hf
        simp only [assignments, List.mem_flatMap, List.mem_range]
        refine ⟨i, hi, ?_⟩
        simp only [hn, hp, if_true, List.mem_map]
        exact ⟨r, by rw [← he]; exact ih _ _ _ ha, rfl⟩

theorem groupBy_spec (c : GroupByCfg) (p : Point) : groupByPoint c p = specGroupBy c p := by
  simp [groupByPoint, specGroupBy, gbTagNames_eq]

end Kap.C10.Main
