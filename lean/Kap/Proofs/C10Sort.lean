/-
C10 — groupBy: sorting the tag names and dropping the excluded ones commute (the code sorts first, the documented
function filters first).
-/
import Kap.Spec.C10
set_option linter.unusedSimpArgs false
set_option linter.unusedVariables false
namespace Kap.C10

theorem mem_insertStr (a : String) (l : List String) (y : String) : y ∈ insertStr a l ↔ y = a ∨ y ∈ l := by
  induction l with
  | nil => simp [insertStr]
  | cons x r ih =>
    simp only [insertStr]
    split
    · simp
    · simp only [List.mem_cons, ih]
      constructor
      · rintro (h | h | h) <;> simp [h]
      · rintro (h | h | h) <;> simp [h]

theorem insertStr_pairwise (a : String) (l : List String) (h : l.Pairwise (· ≤ ·)) : (insertStr a l).Pairwise (· ≤ ·) := by
  induction l with
  | nil => simp [insertStr]
  | cons x r ih =>
    simp only [List.pairwise_cons] at h
    simp only [insertStr]
    split
    · rename_i hax
      simp only [List.pairwise_cons, List.mem_cons]
      refine ⟨?_, h.1, h.2⟩
      rintro y (rfl | hy)
      · exact hax
      · exact String.le_trans hax (h.1 y hy)
    · rename_i hax
      have hxa : x ≤ a := (String.le_total a x).resolve_left hax
      simp only [List.pairwise_cons]
      refine ⟨?_, ih h.2⟩
      intro y hy
      rcases (mem_insertStr a r y).mp hy with rfl | hy
      · exact hxa
      · exact h.1 y hy

theorem sortStrs_pairwise (l : List String) : (sortStrs l).Pairwise (· ≤ ·) := by
  induction l with
  | nil => simp [sortStrs]
  | cons a r ih => simpa [sortStrs] using insertStr_pairwise a _ ih

theorem insertStr_of_le_all (a : String) (l : List String) (h : ∀ y ∈ l, a ≤ y) : insertStr a l = a :: l := by
  cases l with
  | nil => rfl
  | cons x r => simp [insertStr, h x (by simp)]

theorem filter_insertStr (p : String → Bool) (a : String) (l : List String) (h : l.Pairwise (· ≤ ·)) :
    (insertStr a l).filter p = if p a then insertStr a (l.filter p) else l.filter p := by
  induction l with
  | nil => by_cases hp : p a <;> simp [insertStr, hp]
  | cons x r ih =>
    simp only [List.pairwise_cons] at h
    simp only [insertStr]
    by_cases hax : a ≤ x
    · simp only [hax, if_true]
      by_cases hp : p a = true
      · have hall : ∀ y ∈ (x :: r).filter p, a ≤ y := by
          intro y hy
          have hy' : y ∈ x :: r := (List.mem_filter.mp hy).1
          rcases List.mem_cons.mp hy' with rfl | hy'
          · exact hax
          · exact String.le_trans hax (h.1 y hy')
        rw [insertStr_of_le_all a _ hall]
        simp [List.filter_cons, hp]
      · simp [List.filter_cons, hp]
    · simp only [hax, if_false]
      rw [List.filter_cons, ih h.2]
      by_cases hp : p a = true <;> by_cases hx : p x = true <;> simp [hp, hx, List.filter_cons, insertStr, hax]

theorem filter_sortStrs (p : String → Bool) (l : List String) : (sortStrs l).filter p = sortStrs (l.filter p) := by
  induction l with
  | nil => simp [sortStrs]
  | cons a r ih =>
    have : sortStrs (a :: r) = insertStr a (sortStrs r) := by simp [sortStrs]
    rw [this, filter_insertStr p a _ (sortStrs_pairwise r), ih]
    by_cases hp : p a = true
    · simp [hp, List.filter_cons, sortStrs]
    · simp [hp, List.filter_cons]

theorem gbTagNames_eq (c : GroupByCfg) (tags : Tags) : gbTagNames c tags = specGroupByDims c tags := by
  unfold gbTagNames specGroupByDims filterExcluded sortedKeys
  by_cases h : c.all = true
  · simp only [h, if_true]; exact filter_sortStrs _ _
  · simp only [h]; exact filter_sortStrs _ _

/-- the dimensions groupBy computes are sorted -/
theorem gbTagNames_sorted (c : GroupByCfg) (tags : Tags) : (gbTagNames c tags).Pairwise (· ≤ ·) := by
  rw [gbTagNames_eq]
  exact sortStrs_pairwise _

end Kap.C10
