/-
C11 — helper lemmas: the node-wide creator cache is transparent (today's code), and the kapacitor emitters
(`emitOut` over what a reducer returns, ZeroTime convention) package a value exactly as the spec says.
-/
import Kap.Spec.C11
namespace Kap.C11
open Kap.C11.Spec

/-- The cache invariant of today's `getCreateFn`: a cached creator was built for the current kind, and the
function supports that kind. -/
def CacheInv (cfg : Cfg) (n : NodeSt) : Prop :=
  ∀ k, n.createFn = some k → n.currentKind = some k ∧ supported cfg.fn k = true

theorem cacheInv_init (cfg : Cfg) : CacheInv cfg {} := by
  intro k h; simp at h

theorem getCreateFn_current (cfg : Cfg) (n : NodeSt) (kind : Kind) (h : CacheInv cfg n) :
    (getCreateFn {} cfg n kind).2 = (if supported cfg.fn kind then some kind else none) ∧
    CacheInv cfg (getCreateFn {} cfg n kind).1 ∧ (getCreateFn {} cfg n kind).1.groups = n.groups := by
  unfold getCreateFn
  by_cases hk : n.currentKind = some kind
  · cases hc : n.createFn with
    | none =>
      by_cases hs : supported cfg.fn kind = true
      · simp [hk, hs, CacheInv]
      · simp [hk, hs, CacheInv]
    | some k =>
      obtain ⟨h1, h2⟩ := h k hc
      have : k = kind := by rw [hk] at h1; exact (Option.some.inj h1).symm
      subst this
      simp [hk, h2]
      exact h
  · by_cases hs : supported cfg.fn kind = true
    · simp [hk, hs, CacheInv]
    · simp [hk, hs, CacheInv]

/-! ### what the emitters make of a reducer's result = what the spec packages -/

theorem emitTime_none (pt : Bool) (t : Int) (v : Val) (tags : Tags) (sel : Option (Tags × Fields)) :
    emitTime pt t { time := none, val := v, tags := tags, sel := sel } = t := by
  unfold emitTime; cases pt <;> simp

theorem emitTime_some (pt : Bool) (t pt' : Int) (v : Val) (tags : Tags) (sel : Option (Tags × Fields)) :
    emitTime pt t { time := some pt', val := v, tags := tags, sel := sel } = if pt then pt' else t := by
  unfold emitTime; cases pt <;> simp

theorem medianOf_single (x : QP) : medianOf [x] = x.val.toF := by
  simp [medianOf, sortedByVal, sortBy, insSorted]

theorem modeOf_single (x : QP) : modeOf [x] = some x.val := by
  simp only [modeOf, sortedByVal, sortBy, List.foldl, insSorted]
  cases x.val.eqv x.val <;> simp

theorem insSorted_length {α : Type} (lt : α → α → Bool) (x : α) (l : List α) :
    (insSorted lt x l).length = l.length + 1 := by
  induction l with
  | nil => rfl
  | cons y ys ih => simp only [insSorted]; split <;> simp [ih]

theorem sortBy_length {α : Type} (lt : α → α → Bool) (l : List α) : (sortBy lt l).length = l.length := by
  unfold sortBy
  suffices h : ∀ acc : List α, (l.foldl (fun acc x => insSorted lt x acc) acc).length = acc.length + l.length by
    simpa using h []
  induction l with
  | nil => intro acc; simp
  | cons x r ih => intro acc; simp only [List.foldl, ih, insSorted_length, List.length_cons]; omega

theorem modeOf_ne_none (xs : List QP) (hne : xs ≠ []) : ∃ v, modeOf xs = some v := by
  unfold modeOf
  have hl := sortBy_length (fun a b : QP => a.val.lt b.val) xs
  cases hs : sortedByVal xs with
  | nil =>
    unfold sortedByVal at hs; rw [hs] at hl
    cases xs with
    | nil => exact absurd rfl hne
    | cons _ _ => simp at hl
  | cons a r => exact ⟨_, rfl⟩

theorem mergeTags_nil (g : Tags) : mergeTags g [] = g := rfl

theorem select_ne_none (fn : Fn) (xs : List QP) (hne : xs ≠ []) : ∃ p, select fn xs = some p := by
  cases xs with
  | nil => exact absurd rfl hne
  | cons x r => exact ⟨_, rfl⟩

theorem tmax_fold_eq (pts : List OutPt) (t : Int) :
    pts.foldl (fun m p => if p.time > m then p.time else m) t = pts.foldl (fun m p => max m p.time) t := by
  induction pts generalizing t with
  | nil => rfl
  | cons p r ih =>
    simp only [List.foldl]
    have : (if p.time > t then p.time else t) = max t p.time := by
      rw [Int.max_def]; split <;> split <;> omega
    rw [this]; exact ih _

theorem emit_eq_package (cfg : Cfg) (gtags : Tags) (t : Int) (k : Kind) (xs : List QP) (hne : xs ≠ [])
    (hT : cfg.fn.isTransformation = false) :
    emitOut cfg gtags t (reduce {} cfg k xs) = package cfg gtags t (meaning cfg k xs) := by
  cases hfn : cfg.fn
  case count => simp [reduce, meaning, emitOut, hfn, Fn.emitsBatch, emitPoint, Fn.isSimpleSelector, package, emitTime_none]
  case sum => simp [reduce, meaning, emitOut, hfn, Fn.emitsBatch, emitPoint, Fn.isSimpleSelector, package, emitTime_none]
  case mean => simp [reduce, meaning, emitOut, hfn, Fn.emitsBatch, emitPoint, Fn.isSimpleSelector, package, emitTime_none]
  case stddev => simp [reduce, meaning, emitOut, hfn, Fn.emitsBatch, emitPoint, Fn.isSimpleSelector, package, emitTime_none]
  case median =>
    match xs, hne with
    | [x], _ => simp [reduce, meaning, emitOut, hfn, Fn.emitsBatch, emitPoint, Fn.isSimpleSelector, package, emitTime_none, medianOf_single]
    | x :: y :: r, _ => simp [reduce, meaning, emitOut, hfn, Fn.emitsBatch, emitPoint, Fn.isSimpleSelector, package, emitTime_none]
  case mode =>
    match xs, hne with
    | [x], _ => simp [reduce, meaning, emitOut, hfn, Fn.emitsBatch, emitPoint, Fn.isSimpleSelector, package, emitTime_none, modeOf_single]
    | x :: y :: r, _ =>
      obtain ⟨v, hv⟩ := modeOf_ne_none (x :: y :: r) (by simp)
      simp [reduce, meaning, hfn, hv, emitOut, Fn.emitsBatch, emitPoint, Fn.isSimpleSelector, package, emitTime_none]
  case spread =>
    match xs, hne with
    | x :: r, _ => simp [reduce, meaning, emitOut, hfn, Fn.emitsBatch, emitPoint, Fn.isSimpleSelector, package, emitTime_none, minVal, maxVal]
  case min =>
    obtain ⟨p, hp⟩ := select_ne_none .min xs hne
    simp [reduce, meaning, emitOut, hfn, hp, Fn.emitsBatch, emitPoint, Fn.isSimpleSelector, package, emitTime_some, renamed]
    by_cases h : cfg.as_ = cfg.field
    · simp [h]
    · simp [h]; cases lookup cfg.field p.fields <;> rfl
  case max =>
    obtain ⟨p, hp⟩ := select_ne_none .max xs hne
    simp [reduce, meaning, emitOut, hfn, hp, Fn.emitsBatch, emitPoint, Fn.isSimpleSelector, package, emitTime_some, renamed]
    by_cases h : cfg.as_ = cfg.field
    · simp [h]
    · simp [h]; cases lookup cfg.field p.fields <;> rfl
  case first =>
    obtain ⟨p, hp⟩ := select_ne_none .first xs hne
    simp [reduce, meaning, emitOut, hfn, hp, Fn.emitsBatch, emitPoint, Fn.isSimpleSelector, package, emitTime_some, renamed]
    by_cases h : cfg.as_ = cfg.field
    · simp [h]
    · simp [h]; cases lookup cfg.field p.fields <;> rfl
  case last =>
    obtain ⟨p, hp⟩ := select_ne_none .last xs hne
    simp [reduce, meaning, emitOut, hfn, hp, Fn.emitsBatch, emitPoint, Fn.isSimpleSelector, package, emitTime_some, renamed]
    by_cases h : cfg.as_ = cfg.field
    · simp [h]
    · simp [h]; cases lookup cfg.field p.fields <;> rfl
  case percentile =>
    cases hi : pctIndex xs.length cfg.pct with
    | none => simp [reduce, meaning, hfn, hi, emitOut, Fn.emitsBatch, emitPoint, package]
    | some i =>
      cases hq : (sortedByVal xs)[i]? with
      | none => simp [reduce, meaning, hfn, hi, hq, emitOut, Fn.emitsBatch, emitPoint, package]
      | some p =>
        simp [reduce, meaning, hfn, hi, hq, emitOut, Fn.emitsBatch, emitPoint, Fn.isSimpleSelector, package, emitTime_some, renamed]
        by_cases h : cfg.as_ = cfg.field
        · simp [h]
        · simp [h]; cases lookup cfg.field p.fields <;> rfl
  case distinct =>
    simp [reduce, meaning, emitOut, hfn, Fn.emitsBatch, emitBatch, package, emitTime_some, tmax_fold_eq, mergeTags_nil, List.map_map, Function.comp_def]
  case top =>
    have hm : ∀ x : Tags, (if x = [] then gtags else mergeTags gtags x) = mergeTags gtags x := by
      intro x; cases x <;> simp [mergeTags]
    simp [hm, reduce, meaning, emitOut, hfn, Fn.emitsBatch, emitBatch, package, emitTime_some, tmax_fold_eq, List.map_map, Function.comp_def]
  case bottom =>
    have hm : ∀ x : Tags, (if x = [] then gtags else mergeTags gtags x) = mergeTags gtags x := by
      intro x; cases x <;> simp [mergeTags]
    simp [hm, reduce, meaning, emitOut, hfn, Fn.emitsBatch, emitBatch, package, emitTime_some, tmax_fold_eq, List.map_map, Function.comp_def]
  all_goals (simp [Fn.isTransformation, hfn] at hT)
end Kap.C11
