/-
C11 — one batch through BeginBatch / BatchPoint* / EndBatch equals the stateless spec of that batch,
whatever the node went through before (cache invariant), for the aggregating functions.
-/
import Kap.Proofs.C11
namespace Kap.C11
open Kap.C11.Spec

theorem tAgg_id (cfg : Cfg) (hT : cfg.fn.isTransformation = false) (s : TState) (p : QP) : tAgg cfg s p = s := by
  unfold tAgg
  cases hfn : cfg.fn <;> simp [Fn.isTransformation, hfn] at hT <;> rfl

/-- the context a list of points realises, starting without one -/
def realised (cfg : Cfg) (t : Int) (pts : List Pt) : Option RC :=
  (batchKind cfg pts).map (fun k => { kind := k, time := t, pts := valuesOf cfg k pts })

theorem aggregate_nonT (cfg : Cfg) (hT : cfg.fn.isTransformation = false) (rc : RC) (p : Pt) :
    (rc.aggregate cfg p).1 = { rc with pts := rc.pts ++ (convert cfg rc.kind p).toList } := by
  unfold RC.aggregate
  cases h : convert cfg rc.kind p with
  | none => simp
  | some qp => simp [tAgg_id cfg hT]

theorem realizeFromFields_current (cfg : Cfg) (n : NodeSt) (t : Int) (p : Pt) (h : CacheInv cfg n) :
    (realizeFromFields {} cfg n t p.fields).2 = (usableKind cfg p).map (fun k => { kind := k, time := t }) ∧
    CacheInv cfg (realizeFromFields {} cfg n t p.fields).1 ∧
    (realizeFromFields {} cfg n t p.fields).1.groups = n.groups := by
  unfold realizeFromFields usableKind
  cases hl : lookup cfg.field p.fields with
  | none => simp [h]
  | some v =>
    obtain ⟨h1, h2, h3⟩ := getCreateFn_current cfg n v.kind h
    simp only [realize]
    cases hg : getCreateFn {} cfg n v.kind with
    | mk n' o =>
      rw [hg] at h1 h2 h3
      simp only at h1 h2 h3
      subst h1
      by_cases hs : supported cfg.fn v.kind = true
      · simp [hs, h2, h3]
      · simp [hs, h2, h3]

theorem convert_of_usable (cfg : Cfg) (p : Pt) (k : Kind) (h : usableKind cfg p = some k) :
    ∃ qp, convert cfg k p = some qp := by
  unfold usableKind at h
  unfold convert
  cases hl : lookup cfg.field p.fields with
  | none => simp [hl] at h
  | some v =>
    simp only [hl] at h
    split at h
    · have : v.kind = k := Option.some.inj h
      simp [this]
    · simp at h

theorem convert_none_of_unusable (cfg : Cfg) (p : Pt) (k : Kind) (h : usableKind cfg p = none)
    (hk : supported cfg.fn k = true) : convert cfg k p = none := by
  unfold usableKind at h
  unfold convert
  cases hl : lookup cfg.field p.fields with
  | none => rfl
  | some v =>
    simp only [hl] at h
    split at h
    · simp at h
    · rename_i hs
      have : v.kind ≠ k := by intro e; rw [e] at hs; exact hs hk
      simp [this]

theorem usable_supported (cfg : Cfg) (p : Pt) (k : Kind) (h : usableKind cfg p = some k) :
    supported cfg.fn k = true := by
  unfold usableKind at h
  cases hl : lookup cfg.field p.fields with
  | none => simp [hl] at h
  | some v =>
    simp only [hl] at h
    split at h
    · rename_i hs; have : v.kind = k := Option.some.inj h; rw [← this]; exact hs
    · simp at h

/-- phase B: with a context, every point is aggregated (or skipped) and counted; the node is untouched -/
theorem fold_batchPoint_some (cfg : Cfg) (hT : cfg.fn.isTransformation = false) (pts : List Pt) :
    ∀ (n : NodeSt) (g : GroupSt) (r : RC), g.rc = some r →
    pts.foldl (fun (acc : NodeSt × GroupSt) p => batchPoint {} cfg acc.1 acc.2 p) (n, g) =
      (n, { g with rc := some { r with pts := r.pts ++ pts.filterMap (convert cfg r.kind) },
                   batchSize := g.batchSize + pts.length }) := by
  induction pts with
  | nil => intro n g r h; cases g; simp_all
  | cons p rest ih =>
    intro n g r h
    simp only [List.foldl]
    have hb : batchPoint {} cfg n g p =
        (n, { g with rc := some { r with pts := r.pts ++ (convert cfg r.kind p).toList }, batchSize := g.batchSize + 1 }) := by
      unfold batchPoint; simp [h, aggregate_nonT cfg hT]
    rw [hb, ih n _ _ rfl]
    cases hc : convert cfg r.kind p <;> simp [hc, Nat.add_assoc, Nat.add_comm 1]

/-- phase A: without a context, points are ignored until the first usable one realises it -/
theorem fold_batchPoint_none (cfg : Cfg) (hT : cfg.fn.isTransformation = false) (pts : List Pt) :
    ∀ (n : NodeSt) (g : GroupSt), CacheInv cfg n → g.rc = none → g.batchSize = 0 →
    ∃ n' g', pts.foldl (fun (acc : NodeSt × GroupSt) p => batchPoint {} cfg acc.1 acc.2 p) (n, g) = (n', g') ∧
      CacheInv cfg n' ∧ n'.groups = n.groups ∧ g'.time = g.time ∧ g'.rc = realised cfg g.time pts ∧
      (g'.batchSize = 0 ↔ g'.rc = none) := by
  induction pts with
  | nil => intro n g hc hr hb; exact ⟨n, g, rfl, hc, rfl, rfl, by simp [realised, batchKind, hr], by simp [hr, hb]⟩
  | cons p rest ih =>
    intro n g hc hr hb
    simp only [List.foldl]
    obtain ⟨h1, h2, h3⟩ := realizeFromFields_current cfg n g.time p hc
    cases hu : usableKind cfg p with
    | none =>
      have hbp : batchPoint {} cfg n g p = ((realizeFromFields {} cfg n g.time p.fields).1, g) := by
        unfold batchPoint
        cases hrf : realizeFromFields {} cfg n g.time p.fields with
        | mk n' o => rw [hrf] at h1; simp only at h1; simp [hr, h1, hu]
      rw [hbp]
      obtain ⟨n', g', e, c1, c2, c3, c4, c5⟩ := ih _ g h2 hr hb
      refine ⟨n', g', e, c1, c2.trans h3, c3, ?_, c5⟩
      rw [c4]
      unfold realised batchKind
      simp only [List.findSome?, hu]
      cases hk : List.findSome? (usableKind cfg) rest with
      | none => rfl
      | some k =>
        simp only [Option.map]
        have hsup : supported cfg.fn k = true := by
          obtain ⟨q, _, hq⟩ := List.exists_of_findSome?_eq_some hk
          exact usable_supported cfg q k hq
        simp [valuesOf, convert_none_of_unusable cfg p k hu hsup]
    | some k =>
      obtain ⟨qp, hqp⟩ := convert_of_usable cfg p k hu
      have hbp : batchPoint {} cfg n g p = ((realizeFromFields {} cfg n g.time p.fields).1,
          { g with rc := some { kind := k, time := g.time, pts := [qp] }, batchSize := g.batchSize + 1 }) := by
        unfold batchPoint
        cases hrf : realizeFromFields {} cfg n g.time p.fields with
        | mk n' o =>
          rw [hrf] at h1; simp only at h1
          simp [hr, h1, hu, aggregate_nonT cfg hT, hqp]
      rw [hbp, fold_batchPoint_some cfg hT rest _ _ _ rfl]
      refine ⟨_, _, rfl, h2, h3, rfl, ?_, by simp⟩
      simp [realised, batchKind, List.findSome?, hu, valuesOf, List.filterMap_cons, hqp]

theorem valuesOf_ne_nil (cfg : Cfg) (pts : List Pt) (k : Kind) (h : batchKind cfg pts = some k) :
    valuesOf cfg k pts ≠ [] := by
  obtain ⟨q, hq, hu⟩ := List.exists_of_findSome?_eq_some h
  obtain ⟨qp, hqp⟩ := convert_of_usable cfg q k hu
  intro he
  have : qp ∈ valuesOf cfg k pts := List.mem_filterMap.mpr ⟨q, hq, hqp⟩
  rw [he] at this; simp at this

theorem realize_float_emptyOK (cfg : Cfg) (n : NodeSt) (t : Int) (hc : CacheInv cfg n) (he : cfg.fn.isEmptyOK = true) :
    (realize {} cfg n t .float).2 = some { kind := .float, time := t } ∧ CacheInv cfg (realize {} cfg n t .float).1 ∧
    (realize {} cfg n t .float).1.groups = n.groups := by
  obtain ⟨h1, h2, h3⟩ := getCreateFn_current cfg n .float hc
  have hs : supported cfg.fn .float = true := by
    cases hfn : cfg.fn <;> simp [Fn.isEmptyOK, hfn] at he <;> simp [supported, outKind]
  unfold realize
  cases hg : getCreateFn {} cfg n .float with
  | mk n' o =>
    rw [hg] at h1 h2 h3; simp only at h1 h2 h3
    subst h1
    simp [hs, h2, h3]

theorem endBatch_eq_spec (cfg : Cfg) (hT : cfg.fn.isTransformation = false) (n : NodeSt) (gtags : Tags) (g : GroupSt)
    (pts : List Pt) (hc : CacheInv cfg n) (hr : g.rc = realised cfg g.time pts) (hb : g.batchSize = 0 ↔ g.rc = none) :
    (endBatch {} cfg n gtags g).2 = specAgg cfg gtags g.time pts true ∧ CacheInv cfg (endBatch {} cfg n gtags g).1 ∧
    (endBatch {} cfg n gtags g).1.groups = n.groups := by
  unfold endBatch specAgg
  cases hk : batchKind cfg pts with
  | some k =>
    have hrc : g.rc = some { kind := k, time := g.time, pts := valuesOf cfg k pts } := by rw [hr]; simp [realised, hk]
    have hbs : g.batchSize ≠ 0 := by intro h0; rw [hb.mp h0] at hrc; simp at hrc
    simp [hbs, hrc, emit_eq_package cfg gtags g.time k _ (valuesOf_ne_nil cfg pts k hk) hT, hc]
  | none =>
    have hrc : g.rc = none := by rw [hr]; simp [realised, hk]
    have hbs : g.batchSize = 0 := hb.mpr hrc
    by_cases he : cfg.fn.isEmptyOK = true
    · obtain ⟨r1, r2, r3⟩ := realize_float_emptyOK cfg n g.time hc he
      cases hre : realize {} cfg n g.time .float with
      | mk n' o =>
        rw [hre] at r1 r2 r3; simp only at r1 r2 r3; subst r1
        simp only [hbs, he, hrc]
        refine ⟨?_, r2, r3⟩
        cases hfn : cfg.fn <;> simp [Fn.isEmptyOK, hfn] at he
        · simp [reduce, hfn, emitOut, Fn.emitsBatch, emitPoint, Fn.isSimpleSelector, package, emitTime_none]; decide
        · simp [reduce, hfn, emitOut, Fn.emitsBatch, emitPoint, Fn.isSimpleSelector, package, emitTime_none, sumVals, zeroOf]
    · simp [hbs, he, hc]

theorem setGroup_cacheInv (cfg : Cfg) (n : NodeSt) (gt : Tags) (g : GroupSt) (h : CacheInv cfg n) :
    CacheInv cfg (n.setGroup gt g) := by
  unfold NodeSt.setGroup; split <;> exact h

theorem stepBatch_eq_spec (cfg : Cfg) (hT : cfg.fn.isTransformation = false) (n : NodeSt) (b : Batch)
    (hc : CacheInv cfg n) :
    (stepBatch {} cfg n b).2 = specBatch cfg b ∧ CacheInv cfg (stepBatch {} cfg n b).1 := by
  unfold stepBatch specBatch
  simp only [hT, Bool.false_eq_true, if_false]
  obtain ⟨n', g', e, c1, _, c3, c4, c5⟩ := fold_batchPoint_none cfg hT b.pts n
    (beginBatch ((n.group b.gtags).getD { time := b.tmax }) b.tmax) hc rfl rfl
  rw [e]
  have ht : g'.time = b.tmax := c3
  obtain ⟨e1, e2, _⟩ := endBatch_eq_spec cfg hT n' b.gtags g' b.pts c1 (by rw [c4, ht]; rfl) c5
  simp only
  cases he : endBatch {} cfg n' b.gtags g' with
  | mk n'' outs =>
    rw [he] at e1 e2; simp only at e1 e2
    rw [ht] at e1
    exact ⟨e1, setGroup_cacheInv cfg _ _ _ e2⟩

def allBatches (ms : List Msg) : Prop := ∀ m ∈ ms, ∃ b, m = Msg.batch b

theorem runFrom_batches (cfg : Cfg) (hT : cfg.fn.isTransformation = false) (ms : List Msg) (hb : allBatches ms) :
    ∀ (n : NodeSt) (before : List Msg), CacheInv cfg n → (runFrom {} cfg n ms).2 = specFrom cfg before ms := by
  induction ms with
  | nil => intro n before _; rfl
  | cons m rest ih =>
    intro n before hc
    obtain ⟨b, rfl⟩ := hb m (by simp)
    obtain ⟨e1, e2⟩ := stepBatch_eq_spec cfg hT n b hc
    simp only [runFrom, specFrom, step, specAt]
    cases hs : stepBatch {} cfg n b with
    | mk n' o =>
      rw [hs] at e1 e2; simp only at e1 e2
      have := ih (fun m hm => hb m (by simp [hm])) n' (before ++ [Msg.batch b]) e2
      cases hr : runFrom {} cfg n' rest with
      | mk n'' os => rw [hr] at this; simp only at this; simp [e1, this]

end Kap.C11
