/-
C11 — facts about the definitions of the functions (over int64 values as `Int` with wrap-around):
order-independence of sum / min / max / spread, what a selector selects, typing ("int stays int").
-/
import Kap.Spec.C11
namespace Kap.C11
open Kap.C11.Spec

def intVal (x : QP) : Int := match x.val with | .int i => i | _ => 0
def AllInt (xs : List QP) : Prop := ∀ x ∈ xs, ∃ i, x.val = .int i

theorem wrap64_id (x : Int) (h1 : -9223372036854775808 ≤ x) (h2 : x < 9223372036854775808) : wrap64 x = x := by
  unfold wrap64; omega

theorem wrap64_add_wrap (a b : Int) : wrap64 (wrap64 a + b) = wrap64 (a + b) := by
  unfold wrap64; omega

theorem wrap64_add_comm3 (a i j : Int) : wrap64 (wrap64 (a + i) + j) = wrap64 (wrap64 (a + j) + i) := by
  unfold wrap64; omega

theorem add_kind (a b : Val) : (a.add b).kind = a.kind := by
  cases a <;> cases b <;> rfl

theorem sub_kind (a b : Val) : (a.sub b).kind = a.kind := by
  cases a <;> cases b <;> rfl

/-! ### sum -/

theorem add_int_comm (z : Val) (i j : Int) : (z.add (.int i)).add (.int j) = (z.add (.int j)).add (.int i) := by
  cases z <;> simp [Val.add, wrap64_add_comm3]

theorem sumVals_perm_int (xs ys : List QP) (h : AllInt xs) (p : xs.Perm ys) (k : Kind) :
    sumVals k xs = sumVals k ys := by
  unfold sumVals
  apply List.Perm.foldl_eq' p
  intro x hx y hy z
  obtain ⟨i, hi⟩ := h x hx
  obtain ⟨j, hj⟩ := h y hy
  rw [hi, hj]; exact add_int_comm z i j

theorem sumVals_int_fold (xs : List QP) (h : AllInt xs) (a : Int) :
    xs.foldl (fun (acc : Val) (x : QP) => acc.add x.val) (Val.int a) = Val.int (wrap64 (a + (xs.map intVal).sum)) ∨ xs = [] := by
  induction xs generalizing a with
  | nil => right; rfl
  | cons x r ih =>
    left
    obtain ⟨i, hi⟩ := h x (by simp)
    have hr : AllInt r := fun y hy => h y (by simp [hy])
    simp only [List.foldl, hi, List.map_cons, List.sum_cons]
    have hadd : (Val.int a).add (Val.int i) = Val.int (wrap64 (a + i)) := rfl
    rw [hadd]
    have hiv : intVal x = i := by simp [intVal, hi]
    rcases ih hr (wrap64 (a + i)) with e | e
    · rw [e, hiv, wrap64_add_wrap, Int.add_assoc]
    · subst e; simp [hiv]

/-- sum of int64 values = the mathematical sum, reduced to the int64 range -/
theorem sumVals_int_closed (xs : List QP) (h : AllInt xs) : sumVals .int xs = .int (wrap64 ((xs.map intVal).sum)) := by
  unfold sumVals zeroOf
  rcases sumVals_int_fold xs h 0 with e | e
  · simpa using e
  · subst e; simp [wrap64]

/-! ### min / max / spread -/

theorem minFold_int (r : List QP) (h : AllInt r) (m : Int) :
    ∃ m', r.foldl (fun m y => if y.val.lt m then y.val else m) (.int m) = .int m' ∧ m' ≤ m ∧
      (∀ y ∈ r, m' ≤ intVal y) ∧ (m' = m ∨ ∃ y ∈ r, intVal y = m') := by
  induction r generalizing m with
  | nil => exact ⟨m, rfl, Int.le_refl _, by simp, Or.inl rfl⟩
  | cons y r ih =>
    obtain ⟨i, hi⟩ := h y (by simp)
    have hr : AllInt r := fun z hz => h z (by simp [hz])
    simp only [List.foldl, hi, Val.lt]
    by_cases hlt : i < m
    · obtain ⟨m', e, l1, l2, l3⟩ := ih hr i
      simp only [hlt, decide_true, if_true]
      refine ⟨m', e, by omega, ?_, ?_⟩
      · intro z hz; simp only [List.mem_cons] at hz
        rcases hz with rfl | hz
        · simp [intVal, hi]; exact l1
        · exact l2 z hz
      · rcases l3 with rfl | ⟨z, hz, e2⟩
        · right; exact ⟨y, by simp, by simp [intVal, hi]⟩
        · right; exact ⟨z, by simp [hz], e2⟩
    · obtain ⟨m', e, l1, l2, l3⟩ := ih hr m
      simp only [hlt, decide_false, Bool.false_eq_true, if_false]
      refine ⟨m', e, l1, ?_, ?_⟩
      · intro z hz; simp only [List.mem_cons] at hz
        rcases hz with rfl | hz
        · simp [intVal, hi]; omega
        · exact l2 z hz
      · rcases l3 with rfl | ⟨z, hz, e2⟩
        · left; rfl
        · right; exact ⟨z, by simp [hz], e2⟩

theorem maxFold_int (r : List QP) (h : AllInt r) (m : Int) :
    ∃ m', r.foldl (fun m y => if m.lt y.val then y.val else m) (.int m) = .int m' ∧ m ≤ m' ∧
      (∀ y ∈ r, intVal y ≤ m') ∧ (m' = m ∨ ∃ y ∈ r, intVal y = m') := by
  induction r generalizing m with
  | nil => exact ⟨m, rfl, Int.le_refl _, by simp, Or.inl rfl⟩
  | cons y r ih =>
    obtain ⟨i, hi⟩ := h y (by simp)
    have hr : AllInt r := fun z hz => h z (by simp [hz])
    simp only [List.foldl, hi, Val.lt]
    by_cases hlt : m < i
    · obtain ⟨m', e, l1, l2, l3⟩ := ih hr i
      simp only [hlt, decide_true, if_true]
      refine ⟨m', e, by omega, ?_, ?_⟩
      · intro z hz; simp only [List.mem_cons] at hz
        rcases hz with rfl | hz
        · simp [intVal, hi]; exact l1
        · exact l2 z hz
      · rcases l3 with rfl | ⟨z, hz, e2⟩
        · right; exact ⟨y, by simp, by simp [intVal, hi]⟩
        · right; exact ⟨z, by simp [hz], e2⟩
    · obtain ⟨m', e, l1, l2, l3⟩ := ih hr m
      simp only [hlt, decide_false, Bool.false_eq_true, if_false]
      refine ⟨m', e, l1, ?_, ?_⟩
      · intro z hz; simp only [List.mem_cons] at hz
        rcases hz with rfl | hz
        · simp [intVal, hi]; omega
        · exact l2 z hz
      · rcases l3 with rfl | ⟨z, hz, e2⟩
        · left; rfl
        · right; exact ⟨z, by simp [hz], e2⟩

/-- min of int64 values is THE least value of the list -/
theorem minVal_int (xs : List QP) (h : AllInt xs) (hne : xs ≠ []) :
    ∃ m, minVal xs = some (.int m) ∧ (∃ x ∈ xs, intVal x = m) ∧ ∀ x ∈ xs, m ≤ intVal x := by
  cases xs with
  | nil => exact absurd rfl hne
  | cons x r =>
    obtain ⟨i, hi⟩ := h x (by simp)
    obtain ⟨m', e, l1, l2, l3⟩ := minFold_int r (fun z hz => h z (by simp [hz])) i
    refine ⟨m', by simp [minVal, hi, e], ?_, ?_⟩
    · rcases l3 with rfl | ⟨z, hz, e2⟩
      · exact ⟨x, by simp, by simp [intVal, hi]⟩
      · exact ⟨z, by simp [hz], e2⟩
    · intro z hz; simp only [List.mem_cons] at hz
      rcases hz with rfl | hz
      · simp [intVal, hi]; exact l1
      · exact l2 z hz

theorem maxVal_int (xs : List QP) (h : AllInt xs) (hne : xs ≠ []) :
    ∃ m, maxVal xs = some (.int m) ∧ (∃ x ∈ xs, intVal x = m) ∧ ∀ x ∈ xs, intVal x ≤ m := by
  cases xs with
  | nil => exact absurd rfl hne
  | cons x r =>
    obtain ⟨i, hi⟩ := h x (by simp)
    obtain ⟨m', e, l1, l2, l3⟩ := maxFold_int r (fun z hz => h z (by simp [hz])) i
    refine ⟨m', by simp [maxVal, hi, e], ?_, ?_⟩
    · rcases l3 with rfl | ⟨z, hz, e2⟩
      · exact ⟨x, by simp, by simp [intVal, hi]⟩
      · exact ⟨z, by simp [hz], e2⟩
    · intro z hz; simp only [List.mem_cons] at hz
      rcases hz with rfl | hz
      · simp [intVal, hi]; exact l1
      · exact l2 z hz

theorem minVal_perm_int (xs ys : List QP) (h : AllInt xs) (hne : xs ≠ []) (p : xs.Perm ys) : minVal xs = minVal ys := by
  have hy : AllInt ys := fun y hy => h y (p.mem_iff.mpr hy)
  have hney : ys ≠ [] := by intro e; subst e; exact hne (List.Perm.eq_nil p)
  obtain ⟨m, e, ⟨x, hx, ex⟩, l⟩ := minVal_int xs h hne
  obtain ⟨m2, e2, ⟨y, hyy, ey⟩, l2⟩ := minVal_int ys hy hney
  have a := l y (p.mem_iff.mpr hyy)
  have b := l2 x (p.mem_iff.mp hx)
  have : m = m2 := by omega
  rw [e, e2, this]

theorem maxVal_perm_int (xs ys : List QP) (h : AllInt xs) (hne : xs ≠ []) (p : xs.Perm ys) : maxVal xs = maxVal ys := by
  have hy : AllInt ys := fun y hy => h y (p.mem_iff.mpr hy)
  have hney : ys ≠ [] := by intro e; subst e; exact hne (List.Perm.eq_nil p)
  obtain ⟨m, e, ⟨x, hx, ex⟩, l⟩ := maxVal_int xs h hne
  obtain ⟨m2, e2, ⟨y, hyy, ey⟩, l2⟩ := maxVal_int ys hy hney
  have a := l y (p.mem_iff.mpr hyy)
  have b := l2 x (p.mem_iff.mp hx)
  have : m = m2 := by omega
  rw [e, e2, this]

/-! ### membership: what a function returns is one of the input points / values -/

theorem mem_insSorted {α : Type} (lt : α → α → Bool) (x a : α) (l : List α) : a ∈ insSorted lt x l ↔ a = x ∨ a ∈ l := by
  induction l with
  | nil => simp [insSorted]
  | cons y ys ih =>
    simp only [insSorted]
    split
    · simp
    · simp only [List.mem_cons, ih]
      constructor
      · rintro (h | h | h) <;> simp [h]
      · rintro (h | h | h) <;> simp [h]

theorem mem_sortBy {α : Type} (lt : α → α → Bool) (a : α) (l : List α) : a ∈ sortBy lt l ↔ a ∈ l := by
  unfold sortBy
  suffices h : ∀ acc : List α, a ∈ l.foldl (fun acc x => insSorted lt x acc) acc ↔ a ∈ acc ∨ a ∈ l by simpa using h []
  induction l with
  | nil => intro acc; simp
  | cons x r ih =>
    intro acc
    simp only [List.foldl, ih, mem_insSorted, List.mem_cons]
    constructor
    · rintro ((h | h) | h) <;> simp [h]
    · rintro (h | h | h) <;> simp [h]

theorem select_mem (fn : Fn) (xs : List QP) (p : QP) (h : select fn xs = some p) : p ∈ xs := by
  cases xs with
  | nil => simp [select] at h
  | cons x r =>
    simp only [select, Option.some.injEq] at h
    subst h
    suffices hh : ∀ (r : List QP) (b : QP), r.foldl (fun best c => if better fn c best then c else best) b = b ∨
        r.foldl (fun best c => if better fn c best then c else best) b ∈ r by
      rcases hh r x with e | e
      · rw [e]; simp
      · simp [e]
    intro r
    induction r with
    | nil => intro b; left; rfl
    | cons c r ih =>
      intro b
      simp only [List.foldl]
      by_cases hb : better fn c b = true
      · simp only [hb, if_true]
        rcases ih c with e | e
        · right; rw [e]; simp
        · right; simp [e]
      · simp only [hb, Bool.false_eq_true, if_false]
        rcases ih b with e | e
        · left; exact e
        · right; simp [e]

theorem maxVal_mem (xs : List QP) (v : Val) (h : maxVal xs = some v) : ∃ x ∈ xs, x.val = v := by
  cases xs with
  | nil => simp [maxVal] at h
  | cons x r =>
    simp only [maxVal, Option.some.injEq] at h
    subst h
    suffices hh : ∀ (r : List QP) (m : Val), r.foldl (fun m y => if m.lt y.val then y.val else m) m = m ∨
        ∃ y ∈ r, y.val = r.foldl (fun m y => if m.lt y.val then y.val else m) m by
      rcases hh r x.val with e | ⟨y, hy, e⟩
      · exact ⟨x, by simp, e.symm⟩
      · exact ⟨y, by simp [hy], e⟩
    intro r
    induction r with
    | nil => intro m; left; rfl
    | cons c r ih =>
      intro m
      simp only [List.foldl]
      by_cases hb : m.lt c.val = true
      · simp only [hb, if_true]
        rcases ih c.val with e | ⟨y, hy, e⟩
        · right; exact ⟨c, by simp, e.symm⟩
        · right; exact ⟨y, by simp [hy], e⟩
      · simp only [hb, Bool.false_eq_true, if_false]
        rcases ih m with e | ⟨y, hy, e⟩
        · left; exact e
        · right; exact ⟨y, by simp [hy], e⟩

theorem sumVals_kind (k : Kind) (xs : List QP) : (sumVals k xs).kind = (zeroOf k).kind := by
  unfold sumVals
  suffices h : ∀ (z : Val), (xs.foldl (fun acc x => acc.add x.val) z).kind = z.kind from h _
  induction xs with
  | nil => intro z; rfl
  | cons x r ih => intro z; simp only [List.foldl, ih, add_kind]

theorem distinctOf_mem (xs : List QP) (p : QP) (h : p ∈ distinctOf xs) : p ∈ xs := by
  unfold distinctOf at h
  rw [mem_sortBy] at h
  suffices hh : ∀ (l acc : List QP), p ∈ l.foldl (fun (acc : List QP) x => if acc.any (fun y => y.val == x.val) then acc else acc ++ [x]) acc →
      p ∈ acc ∨ p ∈ l by
    rcases hh xs [] h with e | e
    · simp at e
    · exact e
  intro l
  induction l with
  | nil => intro acc h; left; exact h
  | cons x r ih =>
    intro acc h
    simp only [List.foldl] at h
    split at h
    · rcases ih acc h with e | e
      · left; exact e
      · right; simp [e]
    · rcases ih _ h with e | e
      · simp only [List.mem_append, List.mem_singleton] at e
        rcases e with e | e
        · left; exact e
        · right; simp [e]
      · right; simp [e]

theorem topOf_mem (lt : QP → QP → Bool) (n : Nat) (xs : List QP) (p : QP) (h : p ∈ topOf lt n xs) : p ∈ xs := by
  unfold topOf at h
  have := List.mem_of_mem_take h
  rw [List.mem_reverse, mem_sortBy] at this
  exact this


theorem modeOf_mem (xs : List QP) (v : Val) (h : modeOf xs = some v) : ∃ x ∈ xs, x.val = v := by
  unfold modeOf at h
  cases hs : sortedByVal xs with
  | nil => simp [hs] at h
  | cons a0 rest =>
    simp only [hs, Option.some.injEq] at h
    have hsub : ∀ p ∈ a0 :: rest, p ∈ xs := by
      intro p hp; rw [← hs] at hp; unfold sortedByVal at hp; exact (mem_sortBy _ _ _).mp hp
    subst h
    suffices hh : ∀ (l : List QP) (st : ModeSt), (∀ p ∈ l, p ∈ xs) → (∃ x ∈ xs, x.val = st.mostMode) →
        ∃ x ∈ xs, x.val = (l.foldl (fun (st : ModeSt) (p : QP) =>
          if !(p.val.eqv st.currMode) then { st with currFreq := 1, currMode := p.val, currTime := p.time }
          else
            let st := { st with currFreq := st.currFreq + 1 }
            if st.mostFreq > st.currFreq || (st.mostFreq == st.currFreq && decide (st.currTime > st.mostTime)) then st
            else { st with mostFreq := st.currFreq, mostMode := p.val, mostTime := p.time }) st).mostMode by
      exact hh (a0 :: rest) _ hsub ⟨a0, hsub a0 (by simp), rfl⟩
    intro l
    induction l with
    | nil => intro st _ h; exact h
    | cons p r ih =>
      intro st hl hst
      simp only [List.foldl]
      apply ih _ (fun q hq => hl q (by simp [hq]))
      split
      · exact hst
      · split
        · exact hst
        · exact ⟨p, hl p (by simp), rfl⟩

def Spec.Meaning.kinds : Meaning → List Kind
  | .value v => [v.kind]
  | .selected p => [p.val.kind]
  | .many ps => ps.map (fun q => q.2.1.kind)
  | .nothing => []

theorem typing' (cfg : Cfg) (k : Kind) (xs : List QP) (hk : ∀ x ∈ xs, x.val.kind = k)
    (hs : supported cfg.fn k = true) :
    ∀ k' ∈ (meaning cfg k xs).kinds, outKind cfg.fn k = some k' := by
  intro k' hk'
  unfold meaning at hk'
  cases hfn : cfg.fn <;> simp only [hfn] at hk' hs
  case count => simp [Meaning.kinds, Val.kind] at hk'; subst hk'; simp [outKind]
  case sum =>
    simp only [Meaning.kinds, List.mem_singleton, sumVals_kind] at hk'
    subst hk'; cases k <;> simp [supported, outKind] at hs <;> simp [outKind, zeroOf, Val.kind]
  case mean =>
    simp [Meaning.kinds, Val.kind] at hk'; subst hk'
    cases k <;> simp [supported, outKind] at hs <;> simp [outKind]
  case median =>
    simp [Meaning.kinds, Val.kind] at hk'; subst hk'
    cases k <;> simp [supported, outKind] at hs <;> simp [outKind]
  case stddev =>
    simp [Meaning.kinds, Val.kind] at hk'; subst hk'
    cases k <;> simp [supported, outKind] at hs <;> simp [outKind]
  case mode =>
    cases hm : modeOf xs with
    | none => simp [hm, Meaning.kinds] at hk'
    | some v =>
      obtain ⟨x, hx, e⟩ := modeOf_mem xs v hm
      simp only [hm, Meaning.kinds, List.mem_singleton] at hk'
      subst hk'; rw [← e, hk x hx]
      cases k <;> simp [supported, outKind] at hs <;> simp [outKind]
  case spread =>
    cases hlo : minVal xs with
    | none => simp [hlo, Meaning.kinds] at hk'
    | some lo =>
      cases hhi : maxVal xs with
      | none => simp [hlo, hhi, Meaning.kinds] at hk'
      | some hi =>
        obtain ⟨x, hx, e⟩ := maxVal_mem xs hi hhi
        simp only [hlo, hhi, Meaning.kinds, List.mem_singleton, sub_kind] at hk'
        subst hk'; rw [← e, hk x hx]
        cases k <;> simp [supported, outKind] at hs <;> simp [outKind]
  case min =>
    cases hsel : select .min xs with
    | none => simp [hsel, Meaning.kinds] at hk'
    | some p =>
      simp only [hsel, Meaning.kinds, List.mem_singleton] at hk'
      subst hk'; rw [hk p (select_mem _ _ _ hsel)]
      cases k <;> simp [supported, outKind] at hs <;> simp [outKind]
  case max =>
    cases hsel : select .max xs with
    | none => simp [hsel, Meaning.kinds] at hk'
    | some p =>
      simp only [hsel, Meaning.kinds, List.mem_singleton] at hk'
      subst hk'; rw [hk p (select_mem _ _ _ hsel)]
      cases k <;> simp [supported, outKind] at hs <;> simp [outKind]
  case first =>
    cases hsel : select .first xs with
    | none => simp [hsel, Meaning.kinds] at hk'
    | some p =>
      simp only [hsel, Meaning.kinds, List.mem_singleton] at hk'
      subst hk'; rw [hk p (select_mem _ _ _ hsel)]
      cases k <;> simp [outKind]
  case last =>
    cases hsel : select .last xs with
    | none => simp [hsel, Meaning.kinds] at hk'
    | some p =>
      simp only [hsel, Meaning.kinds, List.mem_singleton] at hk'
      subst hk'; rw [hk p (select_mem _ _ _ hsel)]
      cases k <;> simp [outKind]
  case percentile =>
    cases hi : pctIndex xs.length cfg.pct with
    | none => simp [hi, Meaning.kinds] at hk'
    | some i =>
      cases hq : (sortedByVal xs)[i]? with
      | none => simp [hi, hq, Meaning.kinds] at hk'
      | some p =>
        have hp : p ∈ xs := by
          have := List.mem_of_getElem? hq
          unfold sortedByVal at this; exact (mem_sortBy _ _ _).mp this
        simp only [hi, hq, Meaning.kinds, List.mem_singleton] at hk'
        subst hk'; rw [hk p hp]
        cases k <;> simp [supported, outKind] at hs <;> simp [outKind]
  case distinct =>
    simp only [Meaning.kinds, List.map_map, List.mem_map, Function.comp] at hk'
    obtain ⟨p, hp, e⟩ := hk'
    subst e; rw [hk p (distinctOf_mem xs p hp)]
    cases k <;> simp [outKind]
  case top =>
    simp only [Meaning.kinds, List.map_map, List.mem_map, Function.comp] at hk'
    obtain ⟨p, hp, e⟩ := hk'
    subst e; rw [hk p (topOf_mem _ _ xs p hp)]
    cases k <;> simp [supported, outKind] at hs <;> simp [outKind]
  case bottom =>
    simp only [Meaning.kinds, List.map_map, List.mem_map, Function.comp] at hk'
    obtain ⟨p, hp, e⟩ := hk'
    subst e; rw [hk p (topOf_mem _ _ xs p hp)]
    cases k <;> simp [supported, outKind] at hs <;> simp [outKind]
  all_goals (simp [Meaning.kinds] at hk')

/-! ### streaming transformations: the reducer state machine against the definition -/

/-- one point through a transformation reducer: `AggregateX` then `Emit` -/
def tStep (cfg : Cfg) (s : TState) (p : QP) : TState × List RP := tEmit cfg (tAgg cfg s p)

/-- the reducer state after a list of points (each followed by its `Emit`) -/
def tRun (cfg : Cfg) (s : TState) (xs : List QP) : TState := xs.foldl (fun s p => (tStep cfg s p).1) s

theorem cumsum_emit_state (cfg : Cfg) (hf : cfg.fn = .cumulativeSum) (s : TState) : (tEmit cfg s).1 = s := by
  simp only [tEmit, hf]; split <;> rfl

theorem cumsum_run (cfg : Cfg) (hf : cfg.fn = .cumulativeSum) (k : Kind) (xs : List QP)
    (hk : ∀ x ∈ xs, x.val.kind = k) :
    ∀ (s : TState), (tRun cfg s xs).sum =
      match xs.getLast? with
      | none => s.sum
      | some b => some (b.time, xs.foldl (fun (acc : Val) (x : QP) => acc.add x.val)
          (match s.sum with | some (_, v) => v | none => zeroOf k)) := by
  induction xs with
  | nil => intro s; rfl
  | cons x r ih =>
    intro s
    have hx : x.val.kind = k := hk x (by simp)
    have hstep : (tStep cfg s x).1.sum =
        some (x.time, (match s.sum with | some (_, v) => v | none => zeroOf k).add x.val) := by
      simp only [tStep, cumsum_emit_state cfg hf, tAgg, hf]
      cases s.sum with
      | none => simp [hx]
      | some tv => simp
    simp only [tRun, List.foldl] at ih ⊢
    rw [ih (fun y hy => hk y (by simp [hy])) (tStep cfg s x).1, hstep]
    cases hr : r.getLast? with
    | none =>
      have : r = [] := by cases r with | nil => rfl | cons a t => simp [List.getLast?_cons] at hr
      subst this; simp
    | some b => simp [List.getLast?_cons, hr]

/-- **cumulativeSum emits the prefix sums**: after the points `xs` (all of one kind) the reducer emits, for
one more point `p`, that point's time and the sum of all values so far. -/
theorem cumsum_emits_prefix_sum' (cfg : Cfg) (hf : cfg.fn = .cumulativeSum) (k : Kind) (xs : List QP) (p : QP)
    (hk : ∀ x ∈ xs ++ [p], x.val.kind = k) :
    (tStep cfg (tRun cfg {} xs) p).2 = [{ time := some p.time, val := sumVals k (xs ++ [p]) }] := by
  have h := cumsum_run cfg hf k (xs ++ [p]) hk {}
  simp only [tRun, List.foldl_append, List.foldl, List.getLast?_append, List.getLast?_singleton, Option.some_or] at h
  have hs := cumsum_emit_state cfg hf (tAgg cfg (tRun cfg {} xs) p)
  simp only [tStep, tRun] at h hs ⊢
  rw [hs] at h
  generalize tAgg cfg (List.foldl (fun s p => (tEmit cfg (tAgg cfg s p)).1) {} xs) p = S at h ⊢
  simp only [tEmit, hf, h, sumVals, List.foldl_append, List.foldl]


/-! ### what min / max select -/

theorem better_min_int (c b : QP) (i j : Int) (hc : c.val = .int i) (hb : b.val = .int j) :
    better .min c b = true ↔ (i < j ∨ (i = j ∧ c.time < b.time)) := by
  simp only [better, hc, hb, Val.lt, Val.eqv, Bool.or_eq_true, Bool.and_eq_true, decide_eq_true_eq,
    Bool.not_eq_true', decide_eq_false_iff_not]
  omega

theorem better_max_int (c b : QP) (i j : Int) (hc : c.val = .int i) (hb : b.val = .int j) :
    better .max c b = true ↔ (j < i ∨ (i = j ∧ c.time < b.time)) := by
  simp only [better, hc, hb, Val.lt, Val.eqv, Bool.or_eq_true, Bool.and_eq_true, decide_eq_true_eq,
    Bool.not_eq_true', decide_eq_false_iff_not]
  omega

/-- `b` is at least as good a minimum as `x`: smaller value, or equal value and not later -/
def MinLe (b x : QP) : Prop := intVal b < intVal x ∨ (intVal b = intVal x ∧ b.time ≤ x.time)
def MaxLe (b x : QP) : Prop := intVal b > intVal x ∨ (intVal b = intVal x ∧ b.time ≤ x.time)

theorem selectFold_min (r : List QP) (h : AllInt r) : ∀ (best : QP), (∃ j, best.val = .int j) →
    (∀ x ∈ r, MinLe (r.foldl (fun best c => if better .min c best then c else best) best) x) ∧
    MinLe (r.foldl (fun best c => if better .min c best then c else best) best) best := by
  induction r with
  | nil => intro best _; exact ⟨by simp, Or.inr ⟨rfl, Int.le_refl _⟩⟩
  | cons c r ih =>
    intro best ⟨j, hj⟩
    obtain ⟨i, hi⟩ := h c (by simp)
    have hr : AllInt r := fun z hz => h z (by simp [hz])
    simp only [List.foldl]
    have hbi := better_min_int c best i j hi hj
    have vi : intVal c = i := by simp [intVal, hi]
    have vj : intVal best = j := by simp [intVal, hj]
    by_cases hb : better .min c best = true
    · simp only [hb, if_true]
      obtain ⟨a1, a2⟩ := ih hr c ⟨i, hi⟩
      have hlt := hbi.mp hb
      refine ⟨?_, ?_⟩
      · intro x hx; simp only [List.mem_cons] at hx
        rcases hx with rfl | hx
        · exact a2
        · exact a1 x hx
      · unfold MinLe at a2 ⊢; omega
    · have hb' : better .min c best = false := by simpa using hb
      simp only [hb', Bool.false_eq_true, if_false]
      obtain ⟨a1, a2⟩ := ih hr best ⟨j, hj⟩
      have hnlt : ¬ (i < j ∨ (i = j ∧ c.time < best.time)) := fun e => hb (hbi.mpr e)
      refine ⟨?_, a2⟩
      intro x hx; simp only [List.mem_cons] at hx
      rcases hx with rfl | hx
      · unfold MinLe at a2 ⊢; omega
      · exact a1 x hx

theorem selectFold_max (r : List QP) (h : AllInt r) : ∀ (best : QP), (∃ j, best.val = .int j) →
    (∀ x ∈ r, MaxLe (r.foldl (fun best c => if better .max c best then c else best) best) x) ∧
    MaxLe (r.foldl (fun best c => if better .max c best then c else best) best) best := by
  induction r with
  | nil => intro best _; exact ⟨by simp, Or.inr ⟨rfl, Int.le_refl _⟩⟩
  | cons c r ih =>
    intro best ⟨j, hj⟩
    obtain ⟨i, hi⟩ := h c (by simp)
    have hr : AllInt r := fun z hz => h z (by simp [hz])
    simp only [List.foldl]
    have hbi := better_max_int c best i j hi hj
    have vi : intVal c = i := by simp [intVal, hi]
    have vj : intVal best = j := by simp [intVal, hj]
    by_cases hb : better .max c best = true
    · simp only [hb, if_true]
      obtain ⟨a1, a2⟩ := ih hr c ⟨i, hi⟩
      have hlt := hbi.mp hb
      refine ⟨?_, ?_⟩
      · intro x hx; simp only [List.mem_cons] at hx
        rcases hx with rfl | hx
        · exact a2
        · exact a1 x hx
      · unfold MaxLe at a2 ⊢; omega
    · have hb' : better .max c best = false := by simpa using hb
      simp only [hb', Bool.false_eq_true, if_false]
      obtain ⟨a1, a2⟩ := ih hr best ⟨j, hj⟩
      have hnlt : ¬ (j < i ∨ (i = j ∧ c.time < best.time)) := fun e => hb (hbi.mpr e)
      refine ⟨?_, a2⟩
      intro x hx; simp only [List.mem_cons] at hx
      rcases hx with rfl | hx
      · unfold MaxLe at a2 ⊢; omega
      · exact a1 x hx

/-- min selects a point with THE least value and, among those, the earliest time -/
theorem select_min_int (xs : List QP) (h : AllInt xs) (p : QP) (hs : select .min xs = some p) :
    p ∈ xs ∧ ∀ x ∈ xs, MinLe p x := by
  refine ⟨select_mem _ _ _ hs, ?_⟩
  cases xs with
  | nil => simp [select] at hs
  | cons a r =>
    simp only [select, Option.some.injEq] at hs
    obtain ⟨a1, a2⟩ := selectFold_min r (fun z hz => h z (by simp [hz])) a (h a (by simp))
    rw [hs] at a1 a2
    intro x hx; simp only [List.mem_cons] at hx
    rcases hx with rfl | hx
    · exact a2
    · exact a1 x hx

theorem select_max_int (xs : List QP) (h : AllInt xs) (p : QP) (hs : select .max xs = some p) :
    p ∈ xs ∧ ∀ x ∈ xs, MaxLe p x := by
  refine ⟨select_mem _ _ _ hs, ?_⟩
  cases xs with
  | nil => simp [select] at hs
  | cons a r =>
    simp only [select, Option.some.injEq] at hs
    obtain ⟨a1, a2⟩ := selectFold_max r (fun z hz => h z (by simp [hz])) a (h a (by simp))
    rw [hs] at a1 a2
    intro x hx; simp only [List.mem_cons] at hx
    rcases hx with rfl | hx
    · exact a2
    · exact a1 x hx


theorem elapsed_emit_state (cfg : Cfg) (hf : cfg.fn = .elapsed) (s : TState) : (tEmit cfg s).1 = s := by
  simp only [tEmit, hf]; split <;> rfl

/-- **elapsed emits the time difference to the previous point**, in units of `cfg.n` nanoseconds, truncated
toward zero, at the later point's time — whatever came before the two points. -/
theorem elapsed_emits_time_difference' (cfg : Cfg) (hf : cfg.fn = .elapsed) (xs : List QP) (a b : QP) :
    (tStep cfg (tRun cfg {} (xs ++ [a])) b).2 =
      [{ time := some b.time, val := .int (wrap64 ((b.time - a.time).tdiv cfg.n)) }] := by
  have h1 : tRun cfg {} (xs ++ [a]) = tAgg cfg (tRun cfg {} xs) a := by
    simp only [tRun, List.foldl_append, List.foldl, tStep, elapsed_emit_state cfg hf]
  rw [h1]
  generalize tRun cfg {} xs = S
  simp [tStep, tAgg, tEmit, hf]

/-- … and nothing for the very first point. -/
theorem elapsed_first_point_silent' (cfg : Cfg) (hf : cfg.fn = .elapsed) (a : QP) :
    (tStep cfg {} a).2 = [] := by
  simp [tStep, tAgg, tEmit, hf]


end Kap.C11
