/-
C11 — the transcribed incremental `FuncReducer` (Kap/Model/C11Func.lean) computes the list definitions.
-/
import Kap.Model.C11Func
import Kap.Proofs.C11Defs
namespace Kap.C11
open Kap.C11.Spec

theorem ite_ofCurr (b : Bool) (c best : QP) :
    (if b = true then FPoint.ofCurr c else FPoint.ofCurr best) = FPoint.ofCurr (if b = true then c else best) := by
  cases b <;> rfl

theorem reduceFn_selector (fn : Fn) (hs : fn = .min ∨ fn = .max ∨ fn = .first ∨ fn = .last) (best c : QP) :
    reduceFn fn (some (FPoint.ofCurr best)) c = FPoint.ofCurr (if better fn c best then c else best) := by
  rcases hs with rfl | rfl | rfl | rfl
  · simp only [reduceFn, better]; exact ite_ofCurr _ c best
  · simp only [reduceFn, better]; exact ite_ofCurr _ c best
  · simp only [reduceFn, better]; exact ite_ofCurr _ c best
  · simp only [reduceFn, better]; exact ite_ofCurr _ c best

theorem reduceFn_selector_nil (fn : Fn) (hs : fn = .min ∨ fn = .max ∨ fn = .first ∨ fn = .last) (c : QP) :
    reduceFn fn none c = FPoint.ofCurr c := by
  rcases hs with rfl | rfl | rfl | rfl <;> rfl

theorem func_selector_fold (fn : Fn) (hs : fn = .min ∨ fn = .max ∨ fn = .first ∨ fn = .last) (r : List QP) :
    ∀ best : QP, r.foldl (FuncReducer.aggregate fn) { prev := some (FPoint.ofCurr best) } =
      { prev := some (FPoint.ofCurr (r.foldl (fun best c => if better fn c best then c else best) best)) } := by
  induction r with
  | nil => intro best; rfl
  | cons c r ih =>
    intro best
    simp only [List.foldl, FuncReducer.aggregate, reduceFn_selector fn hs]
    exact ih _

theorem func_count_fold (r : List QP) : ∀ (a : Nat),
    r.foldl (FuncReducer.aggregate .count) { prev := some { time := none, val := .int (wrap64 a), aux := none } } =
      { prev := some { time := none, val := .int (wrap64 ((a + r.length : Nat) : Int)), aux := none } } := by
  induction r with
  | nil => intro a; simp
  | cons c r ih =>
    intro a
    simp only [List.foldl, FuncReducer.aggregate, reduceFn, Val.add]
    have : wrap64 (wrap64 (a : Int) + 1) = wrap64 (((a + 1 : Nat) : Int)) := by
      rw [wrap64_add_wrap]; congr 1
    rw [this, ih (a + 1)]
    have e : a + 1 + r.length = a + (r.length + 1) := by omega
    rw [List.length_cons, e]

theorem func_sum_fold (r : List QP) : ∀ (t : Option Int) (v : Val),
    r.foldl (FuncReducer.aggregate .sum) { prev := some { time := t, val := v, aux := none } } =
      { prev := some { time := t, val := r.foldl (fun acc x => acc.add x.val) v, aux := none } } := by
  induction r with
  | nil => intro t v; rfl
  | cons c r ih =>
    intro t v
    simp only [List.foldl, FuncReducer.aggregate, reduceFn]
    exact ih t _

/-- **The incremental FuncReducer computes the list definitions**: seed, one `AggregateX` per point and `Emit`
give exactly `reduce` — count = length, sum = Σ from the seed, min/max/first/last = `select`; for the seedless
selectors an empty list is the nil dereference (`none`) on both sides. -/
theorem funcReducerRun_eq_reduce (q : Quirks) (cfg : Cfg) (k : Kind) (xs : List QP)
    (hu : cfg.fn.usesFuncReducer = true) : funcReducerRun q cfg.fn k xs = reduce q cfg k xs := by
  unfold funcReducerRun
  cases hf : cfg.fn <;> simp [Fn.usesFuncReducer, hf] at hu
  case count =>
    cases xs with
    | nil => simp [funcSeed, FuncReducer.emit, reduce, hf, wrap64]
    | cons x r =>
      have h := func_count_fold r 1
      have h1 : wrap64 ((1 : Nat) : Int) = 1 := by unfold wrap64; omega
      rw [h1] at h
      simp only [funcSeed, List.foldl, FuncReducer.aggregate, reduceFn, Val.add]
      have h0 : wrap64 (0 + 1) = 1 := by unfold wrap64; omega
      rw [h0, h]
      have e : 1 + r.length = (x :: r).length := by simp; omega
      rw [e]
      simp [FuncReducer.emit, reduce, hf]
  case sum =>
    simp only [funcSeed, func_sum_fold, FuncReducer.emit, reduce, hf, sumVals, Option.map_some]
  case min =>
    cases xs with
    | nil => simp [funcSeed, FuncReducer.emit, reduce, hf, select]
    | cons x r =>
      simp only [funcSeed, List.foldl, FuncReducer.aggregate, reduceFn_selector_nil .min (Or.inl rfl),
        func_selector_fold .min (Or.inl rfl)]
      simp [FuncReducer.emit, reduce, hf, select, FPoint.ofCurr]
  case max =>
    cases xs with
    | nil => simp [funcSeed, FuncReducer.emit, reduce, hf, select]
    | cons x r =>
      simp only [funcSeed, List.foldl, FuncReducer.aggregate, reduceFn_selector_nil .max (Or.inr (Or.inl rfl)),
        func_selector_fold .max (Or.inr (Or.inl rfl))]
      simp [FuncReducer.emit, reduce, hf, select, FPoint.ofCurr]
  case first =>
    cases xs with
    | nil => simp [funcSeed, FuncReducer.emit, reduce, hf, select]
    | cons x r =>
      simp only [funcSeed, List.foldl, FuncReducer.aggregate, reduceFn_selector_nil .first (Or.inr (Or.inr (Or.inl rfl))),
        func_selector_fold .first (Or.inr (Or.inr (Or.inl rfl)))]
      simp [FuncReducer.emit, reduce, hf, select, FPoint.ofCurr]
  case last =>
    cases xs with
    | nil => simp [funcSeed, FuncReducer.emit, reduce, hf, select]
    | cons x r =>
      simp only [funcSeed, List.foldl, FuncReducer.aggregate, reduceFn_selector_nil .last (Or.inr (Or.inr (Or.inr rfl))),
        func_selector_fold .last (Or.inr (Or.inr (Or.inr rfl)))]
      simp [FuncReducer.emit, reduce, hf, select, FPoint.ofCurr]


end Kap.C11
