/-
C11 — order-independence of min / max / spread / sum over an ABSTRACT ordered domain: whenever `Val.lt` is a
strict total order on the batch's values (proved for int64; the IEEE contract for NaN-free floats) and
addition commutes on them.
-/
import Kap.Proofs.C11Defs
namespace Kap.C11
open Kap.C11.Spec

/-- `Val.lt` is a strict total order on the values `S` (true of int64, string and bool values; of float64
values without NaN and with a single zero — there it is the IEEE contract, which Lean cannot see). -/
structure StrictTotalOn (S : List Val) : Prop where
  irrefl : ∀ a ∈ S, a.lt a = false
  trans : ∀ a ∈ S, ∀ b ∈ S, ∀ c ∈ S, a.lt b = true → b.lt c = true → a.lt c = true
  tri : ∀ a ∈ S, ∀ b ∈ S, a.lt b = true ∨ a = b ∨ b.lt a = true

theorem minFold_gen (S : List Val) (hS : StrictTotalOn S) (r : List QP) : ∀ (m : Val), m ∈ S → (∀ y ∈ r, y.val ∈ S) →
    let res := r.foldl (fun m y => if y.val.lt m then y.val else m) m
    res ∈ S ∧ (res = m ∨ ∃ y ∈ r, y.val = res) ∧ (∀ y ∈ r, y.val.lt res = false) ∧ m.lt res = false := by
  induction r with
  | nil => intro m hm _; exact ⟨hm, Or.inl rfl, by simp, hS.irrefl m hm⟩
  | cons y r ih =>
    intro m hm hr
    have hy : y.val ∈ S := hr y (by simp)
    have hr' : ∀ z ∈ r, z.val ∈ S := fun z hz => hr z (by simp [hz])
    simp only [List.foldl]
    by_cases hlt : y.val.lt m = true
    · simp only [hlt, if_true]
      obtain ⟨i1, i2, i3, i4⟩ := ih y.val hy hr'
      refine ⟨i1, ?_, ?_, ?_⟩
      · rcases i2 with e | ⟨z, hz, e⟩
        · right; exact ⟨y, by simp, e.symm⟩
        · right; exact ⟨z, by simp [hz], e⟩
      · intro z hz; simp only [List.mem_cons] at hz
        rcases hz with rfl | hz
        · exact i4
        · exact i3 z hz
      · cases hc : m.lt (List.foldl (fun m y => if y.val.lt m = true then y.val else m) y.val r) with
        | false => rfl
        | true =>
          have := hS.trans y.val hy m hm _ i1 hlt hc
          rw [i4] at this; exact absurd this (by simp)
    · have hlt' : y.val.lt m = false := by simpa using hlt
      simp only [hlt', Bool.false_eq_true, if_false]
      obtain ⟨i1, i2, i3, i4⟩ := ih m hm hr'
      refine ⟨i1, ?_, ?_, i4⟩
      · rcases i2 with e | ⟨z, hz, e⟩
        · left; exact e
        · right; exact ⟨z, by simp [hz], e⟩
      · intro z hz; simp only [List.mem_cons] at hz
        rcases hz with rfl | hz
        · cases hc : z.val.lt (List.foldl (fun m y => if y.val.lt m = true then y.val else m) m r) with
          | false => rfl
          | true =>
            rcases hS.tri _ i1 m hm with h | h | h
            · have := hS.trans z.val hy _ i1 m hm hc h
              rw [hlt'] at this; exact absurd this (by simp)
            · rw [h] at hc; rw [hlt'] at hc; exact absurd hc (by simp)
            · rw [i4] at h; exact absurd h (by simp)
        · exact i3 z hz

/-- min over any strictly totally ordered values: a least element of the batch -/
theorem minVal_gen (xs : List QP) (hS : StrictTotalOn (xs.map (·.val))) (hne : xs ≠ []) :
    ∃ m, minVal xs = some m ∧ m ∈ xs.map (·.val) ∧ ∀ x ∈ xs, x.val.lt m = false := by
  cases xs with
  | nil => exact absurd rfl hne
  | cons x r =>
    obtain ⟨i1, _, i3, i4⟩ := minFold_gen _ hS r x.val (by simp) (fun y hy => by simp; right; exact ⟨y, hy, rfl⟩)
    refine ⟨_, rfl, i1, ?_⟩
    intro z hz; simp only [List.mem_cons] at hz
    rcases hz with rfl | hz
    · exact i4
    · exact i3 z hz

theorem strictTotalOn_perm (S T : List Val) (h : StrictTotalOn S) (p : S.Perm T) : StrictTotalOn T :=
  ⟨fun a ha => h.irrefl a (p.mem_iff.mpr ha),
   fun a ha b hb c hc => h.trans a (p.mem_iff.mpr ha) b (p.mem_iff.mpr hb) c (p.mem_iff.mpr hc),
   fun a ha b hb => h.tri a (p.mem_iff.mpr ha) b (p.mem_iff.mpr hb)⟩

/-- **min does not depend on the arrival order**, for any strictly totally ordered values -/
theorem minVal_perm_gen (xs ys : List QP) (hS : StrictTotalOn (xs.map (·.val))) (hne : xs ≠ []) (p : xs.Perm ys) :
    minVal xs = minVal ys := by
  have hT := strictTotalOn_perm _ _ hS (p.map (·.val))
  have hney : ys ≠ [] := by intro e; subst e; exact hne (List.Perm.eq_nil p)
  obtain ⟨m1, e1, mem1, l1⟩ := minVal_gen xs hS hne
  obtain ⟨m2, e2, mem2, l2⟩ := minVal_gen ys hT hney
  rw [e1, e2]; congr 1
  obtain ⟨x2, hx2, ex2⟩ := List.mem_map.mp mem2
  obtain ⟨x1, hx1, ex1⟩ := List.mem_map.mp mem1
  have a := l1 x2 (p.mem_iff.mpr hx2)
  have b := l2 x1 (p.mem_iff.mp hx1)
  rw [ex2] at a; rw [ex1] at b
  rcases hS.tri m1 mem1 m2 ((p.map (·.val)).mem_iff.mpr mem2) with h | h | h
  · rw [b] at h; exact absurd h (by simp)
  · exact h
  · rw [a] at h; exact absurd h (by simp)

theorem maxFold_gen (S : List Val) (hS : StrictTotalOn S) (r : List QP) : ∀ (m : Val), m ∈ S → (∀ y ∈ r, y.val ∈ S) →
    let res := r.foldl (fun m y => if m.lt y.val then y.val else m) m
    res ∈ S ∧ (res = m ∨ ∃ y ∈ r, y.val = res) ∧ (∀ y ∈ r, res.lt y.val = false) ∧ res.lt m = false := by
  induction r with
  | nil => intro m hm _; exact ⟨hm, Or.inl rfl, by simp, hS.irrefl m hm⟩
  | cons y r ih =>
    intro m hm hr
    have hy : y.val ∈ S := hr y (by simp)
    have hr' : ∀ z ∈ r, z.val ∈ S := fun z hz => hr z (by simp [hz])
    simp only [List.foldl]
    by_cases hlt : m.lt y.val = true
    · simp only [hlt, if_true]
      obtain ⟨i1, i2, i3, i4⟩ := ih y.val hy hr'
      refine ⟨i1, ?_, ?_, ?_⟩
      · rcases i2 with e | ⟨z, hz, e⟩
        · right; exact ⟨y, by simp, e.symm⟩
        · right; exact ⟨z, by simp [hz], e⟩
      · intro z hz; simp only [List.mem_cons] at hz
        rcases hz with rfl | hz
        · exact i4
        · exact i3 z hz
      · cases hc : (List.foldl (fun m y => if m.lt y.val = true then y.val else m) y.val r).lt m with
        | false => rfl
        | true =>
          have := hS.trans _ i1 m hm y.val hy hc hlt
          rw [i4] at this; exact absurd this (by simp)
    · have hlt' : m.lt y.val = false := by simpa using hlt
      simp only [hlt', Bool.false_eq_true, if_false]
      obtain ⟨i1, i2, i3, i4⟩ := ih m hm hr'
      refine ⟨i1, ?_, ?_, i4⟩
      · rcases i2 with e | ⟨z, hz, e⟩
        · left; exact e
        · right; exact ⟨z, by simp [hz], e⟩
      · intro z hz; simp only [List.mem_cons] at hz
        rcases hz with rfl | hz
        · cases hc : (List.foldl (fun m y => if m.lt y.val = true then y.val else m) m r).lt z.val with
          | false => rfl
          | true =>
            rcases hS.tri m hm _ i1 with h | h | h
            · have := hS.trans m hm _ i1 z.val hy h hc
              rw [hlt'] at this; exact absurd this (by simp)
            · rw [← h] at hc; rw [hlt'] at hc; exact absurd hc (by simp)
            · rw [i4] at h; exact absurd h (by simp)
        · exact i3 z hz

theorem maxVal_gen (xs : List QP) (hS : StrictTotalOn (xs.map (·.val))) (hne : xs ≠ []) :
    ∃ m, maxVal xs = some m ∧ m ∈ xs.map (·.val) ∧ ∀ x ∈ xs, m.lt x.val = false := by
  cases xs with
  | nil => exact absurd rfl hne
  | cons x r =>
    obtain ⟨i1, _, i3, i4⟩ := maxFold_gen _ hS r x.val (by simp) (fun y hy => by simp; right; exact ⟨y, hy, rfl⟩)
    refine ⟨_, rfl, i1, ?_⟩
    intro z hz; simp only [List.mem_cons] at hz
    rcases hz with rfl | hz
    · exact i4
    · exact i3 z hz

theorem maxVal_perm_gen (xs ys : List QP) (hS : StrictTotalOn (xs.map (·.val))) (hne : xs ≠ []) (p : xs.Perm ys) :
    maxVal xs = maxVal ys := by
  have hT := strictTotalOn_perm _ _ hS (p.map (·.val))
  have hney : ys ≠ [] := by intro e; subst e; exact hne (List.Perm.eq_nil p)
  obtain ⟨m1, e1, mem1, l1⟩ := maxVal_gen xs hS hne
  obtain ⟨m2, e2, mem2, l2⟩ := maxVal_gen ys hT hney
  rw [e1, e2]; congr 1
  obtain ⟨x2, hx2, ex2⟩ := List.mem_map.mp mem2
  obtain ⟨x1, hx1, ex1⟩ := List.mem_map.mp mem1
  have a := l1 x2 (p.mem_iff.mpr hx2)
  have b := l2 x1 (p.mem_iff.mp hx1)
  rw [ex2] at a; rw [ex1] at b
  rcases hS.tri m1 mem1 m2 ((p.map (·.val)).mem_iff.mpr mem2) with h | h | h
  · rw [a] at h; exact absurd h (by simp)
  · exact h
  · rw [b] at h; exact absurd h (by simp)

/-- int64 values are strictly totally ordered -/
theorem strictTotalOn_int (S : List Val) (h : ∀ v ∈ S, ∃ i, v = .int i) : StrictTotalOn S := by
  refine ⟨?_, ?_, ?_⟩
  · intro a ha; obtain ⟨i, rfl⟩ := h a ha; simp [Val.lt]
  · intro a ha b hb c hc
    obtain ⟨i, rfl⟩ := h a ha; obtain ⟨j, rfl⟩ := h b hb; obtain ⟨l, rfl⟩ := h c hc
    simp only [Val.lt, decide_eq_true_eq]; omega
  · intro a ha b hb
    obtain ⟨i, rfl⟩ := h a ha; obtain ⟨j, rfl⟩ := h b hb
    simp only [Val.lt, decide_eq_true_eq, Val.int.injEq]; omega

/-- **sum does not depend on the arrival order** whenever addition commutes on the batch's values (int64:
always, `add_int_comm`; float64: when no rounding occurs, e.g. small dyadic values) -/
theorem sumVals_perm_gen (k : Kind) (xs ys : List QP)
    (hc : ∀ x ∈ xs, ∀ y ∈ xs, ∀ z : Val, (z.add x.val).add y.val = (z.add y.val).add x.val) (p : xs.Perm ys) :
    sumVals k xs = sumVals k ys := by
  unfold sumVals
  exact List.Perm.foldl_eq' p (fun x hx y hy z => hc x hx y hy z) _


end Kap.C11
