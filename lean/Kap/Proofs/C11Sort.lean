/-
C11 — the sorted order that median, mode, percentile, top and bottom read: insertion sort returns a sorted
permutation for every comparator that is asymmetric and negatively transitive on the points at hand (proved
for int64 values: by value, and the top / bottom rankings); top n = the n best; distinct = every value once.
-/
import Kap.Proofs.C11Defs
namespace Kap.C11
open Kap.C11.Spec

/-! ### insertion sort: a sorted permutation (for any comparator that is asymmetric and negatively transitive) -/

/-- `a` may stand before `b`: `b` is not strictly less than `a` -/
def leOf {α : Type} (lt : α → α → Bool) (a b : α) : Prop := lt b a = false

structure WeakOrderOn {α : Type} (S : α → Prop) (lt : α → α → Bool) : Prop where
  asymm : ∀ a b, S a → S b → lt a b = true → lt b a = false
  ntrans : ∀ a b c, S a → S b → S c → lt b a = false → lt c b = false → lt c a = false

theorem insSorted_perm {α : Type} (lt : α → α → Bool) (x : α) (l : List α) : (insSorted lt x l).Perm (x :: l) := by
  induction l with
  | nil => exact List.Perm.refl _
  | cons y ys ih =>
    simp only [insSorted]
    split
    · exact List.Perm.refl _
    · exact (List.Perm.cons y ih).trans (List.Perm.swap x y ys)

theorem sortBy_perm {α : Type} (lt : α → α → Bool) (l : List α) : (sortBy lt l).Perm l := by
  unfold sortBy
  suffices h : ∀ acc : List α, (l.foldl (fun acc x => insSorted lt x acc) acc).Perm (l.reverse ++ acc) by
    have := h []; simp only [List.append_nil] at this; exact this.trans (List.reverse_perm l)
  induction l with
  | nil => intro acc; exact List.Perm.refl _
  | cons x r ih =>
    intro acc
    simp only [List.foldl, List.reverse_cons, List.append_assoc, List.singleton_append]
    exact (ih _).trans (List.Perm.append_left _ (insSorted_perm lt x acc))

theorem insSorted_sorted {α : Type} (S : α → Prop) (lt : α → α → Bool) (h : WeakOrderOn S lt) (x : α) (l : List α)
    (hx : S x) (hl : ∀ y ∈ l, S y) (hs : l.Pairwise (leOf lt)) : (insSorted lt x l).Pairwise (leOf lt) := by
  induction l with
  | nil => simp [insSorted]
  | cons y ys ih =>
    rw [List.pairwise_cons] at hs
    obtain ⟨hy, hys⟩ := hs
    have sy : S y := hl y (by simp)
    have sys : ∀ z ∈ ys, S z := fun z hz => hl z (by simp [hz])
    simp only [insSorted]
    split
    · rename_i hlt
      have hxy : leOf lt x y := h.asymm x y hx sy hlt
      refine List.pairwise_cons.mpr ⟨?_, List.pairwise_cons.mpr ⟨hy, hys⟩⟩
      intro z hz; simp only [List.mem_cons] at hz
      rcases hz with rfl | hz
      · exact hxy
      · exact h.ntrans x y z hx sy (sys z hz) hxy (hy z hz)
    · rename_i hlt
      have hyx : leOf lt y x := by simpa [leOf] using hlt
      refine List.pairwise_cons.mpr ⟨?_, ih sys hys⟩
      intro z hz
      rcases (mem_insSorted lt x z ys).mp hz with rfl | hz
      · exact hyx
      · exact hy z hz

theorem sortBy_sorted {α : Type} (S : α → Prop) (lt : α → α → Bool) (h : WeakOrderOn S lt) (l : List α)
    (hl : ∀ y ∈ l, S y) : (sortBy lt l).Pairwise (leOf lt) := by
  unfold sortBy
  suffices hh : ∀ (r acc : List α), (∀ y ∈ r, S y) → (∀ y ∈ acc, S y) → acc.Pairwise (leOf lt) →
      (r.foldl (fun acc x => insSorted lt x acc) acc).Pairwise (leOf lt) from
    hh l [] hl (by simp) List.Pairwise.nil
  intro r
  induction r with
  | nil => intro acc _ _ ha; exact ha
  | cons x r ih =>
    intro acc hr hacc ha
    refine ih _ (fun y hy => hr y (by simp [hy])) ?_ (insSorted_sorted S lt h x acc (hr x (by simp)) hacc ha)
    intro y hy
    rcases (mem_insSorted lt x y acc).mp hy with rfl | hy
    · exact hr y (by simp)
    · exact hacc y hy

/-! ### int64 values -/

def IsInt (x : QP) : Prop := ∃ i, x.val = .int i

theorem weakOrder_val_int : WeakOrderOn IsInt (fun a b : QP => a.val.lt b.val) := by
  refine ⟨?_, ?_⟩
  · rintro a b ⟨i, hi⟩ ⟨j, hj⟩; simp only [hi, hj, Val.lt, decide_eq_true_eq, decide_eq_false_iff_not]; omega
  · rintro a b c ⟨i, hi⟩ ⟨j, hj⟩ ⟨l, hl⟩
    simp only [hi, hj, hl, Val.lt, decide_eq_false_iff_not]; omega

theorem weakOrder_top_int : WeakOrderOn IsInt topLt := by
  refine ⟨?_, ?_⟩
  · rintro a b ⟨i, hi⟩ ⟨j, hj⟩
    simp only [topLt, hi, hj, Val.eqv, Val.lt]
    by_cases h1 : i < j <;> by_cases h2 : j < i <;> simp [h1, h2] <;> omega
  · rintro a b c ⟨i, hi⟩ ⟨j, hj⟩ ⟨l, hl⟩
    simp only [topLt, hi, hj, hl, Val.eqv, Val.lt]
    by_cases h1 : i < j <;> by_cases h2 : j < i <;> by_cases h3 : j < l <;> by_cases h4 : l < j <;>
      by_cases h5 : i < l <;> by_cases h6 : l < i <;> simp [h1, h2, h3, h4, h5, h6] <;> omega

theorem weakOrder_bottom_int : WeakOrderOn IsInt bottomLt := by
  refine ⟨?_, ?_⟩
  · rintro a b ⟨i, hi⟩ ⟨j, hj⟩
    simp only [bottomLt, hi, hj, Val.eqv, Val.lt]
    by_cases h1 : i < j <;> by_cases h2 : j < i <;> simp [h1, h2] <;> omega
  · rintro a b c ⟨i, hi⟩ ⟨j, hj⟩ ⟨l, hl⟩
    simp only [bottomLt, hi, hj, hl, Val.eqv, Val.lt]
    by_cases h1 : i < j <;> by_cases h2 : j < i <;> by_cases h3 : j < l <;> by_cases h4 : l < j <;>
      by_cases h5 : i < l <;> by_cases h6 : l < i <;> simp [h1, h2, h3, h4, h5, h6] <;> omega

/-- the value-sorted points are THE batch's points in ascending value order -/
theorem sortedByVal_int (xs : List QP) (h : AllInt xs) :
    (sortedByVal xs).Perm xs ∧ (sortedByVal xs).Pairwise (fun a b => intVal a ≤ intVal b) := by
  refine ⟨sortBy_perm _ xs, ?_⟩
  have hs := sortBy_sorted IsInt _ weakOrder_val_int xs h
  have hmem : ∀ y ∈ sortedByVal xs, IsInt y := fun y hy => h y ((mem_sortBy _ y xs).mp hy)
  unfold sortedByVal at hmem ⊢
  refine List.Pairwise.imp_of_mem ?_ hs
  intro a b ha hb hab
  obtain ⟨i, hi⟩ := hmem a ha
  obtain ⟨j, hj⟩ := hmem b hb
  simp only [leOf, hi, hj, Val.lt, decide_eq_false_iff_not] at hab
  simp only [intVal, hi, hj]; omega


/-- top `n`: the first `n` of the batch's points arranged best-first (`topLt a b = false` for `a` before `b`) -/
theorem topOf_int (lt : QP → QP → Bool) (hw : WeakOrderOn IsInt lt) (xs : List QP) (h : AllInt xs) (n : Nat) :
    ∃ rest, (topOf lt n xs ++ rest).Perm xs ∧ (topOf lt n xs).length = min n xs.length ∧
      (topOf lt n xs ++ rest).Pairwise (fun a b => lt a b = false) := by
  refine ⟨((sortBy lt xs).reverse).drop n, ?_, ?_, ?_⟩
  · unfold topOf; rw [List.take_append_drop]
    exact (List.reverse_perm _).trans (sortBy_perm lt xs)
  · unfold topOf; simp [(sortBy_perm lt xs).length_eq]
  · unfold topOf; rw [List.take_append_drop, List.pairwise_reverse]
    exact sortBy_sorted IsInt lt hw xs h

/-! ### distinct -/

theorem distinct_firsts (xs : List QP) : ∀ acc : List QP, (acc.map (·.val)).Nodup →
    let f := xs.foldl (fun (acc : List QP) x => if acc.any (fun y => y.val == x.val) then acc else acc ++ [x]) acc
    (f.map (·.val)).Nodup ∧ (∀ x ∈ xs, x.val ∈ f.map (·.val)) ∧ (∀ a ∈ acc, a.val ∈ f.map (·.val)) := by
  induction xs with
  | nil => intro acc h; exact ⟨h, by simp, fun a ha => List.mem_map.mpr ⟨a, ha, rfl⟩⟩
  | cons x r ih =>
    intro acc h
    simp only [List.foldl]
    by_cases hany : acc.any (fun y => y.val == x.val) = true
    · simp only [hany, if_true]
      obtain ⟨i1, i2, i3⟩ := ih acc h
      refine ⟨i1, ?_, i3⟩
      intro z hz; simp only [List.mem_cons] at hz
      rcases hz with rfl | hz
      · simp only [List.any_eq_true, beq_iff_eq] at hany
        obtain ⟨y, hy, e⟩ := hany
        rw [← e]; exact i3 y hy
      · exact i2 z hz
    · have hany' : acc.any (fun y => y.val == x.val) = false := by simpa using hany
      simp only [hany', Bool.false_eq_true, if_false]
      have hnd : ((acc ++ [x]).map (·.val)).Nodup := by
        simp only [List.map_append, List.map_cons, List.map_nil]
        rw [List.nodup_append]
        refine ⟨h, by simp, ?_⟩
        intro a ha b hb
        simp only [List.mem_singleton] at hb; subst hb
        intro e
        obtain ⟨y, hy, e2⟩ := List.mem_map.mp ha
        simp only [List.any_eq_false, beq_iff_eq] at hany'
        exact hany' y hy (e2.trans e)
      obtain ⟨i1, i2, i3⟩ := ih (acc ++ [x]) hnd
      refine ⟨i1, ?_, fun a ha => i3 a (by simp [ha])⟩
      intro z hz; simp only [List.mem_cons] at hz
      rcases hz with rfl | hz
      · exact i3 z (by simp)
      · exact i2 z hz

/-- distinct: every value of the batch exactly once -/
theorem distinctOf_values (xs : List QP) :
    ((distinctOf xs).map (·.val)).Nodup ∧ ∀ x ∈ xs, x.val ∈ (distinctOf xs).map (·.val) := by
  obtain ⟨i1, i2, _⟩ := distinct_firsts xs [] (by simp)
  unfold distinctOf
  have hp := sortBy_perm (fun a b : QP => if a.time != b.time then decide (a.time < b.time) else a.val.lt b.val)
    (xs.foldl (fun (acc : List QP) x => if acc.any (fun y => y.val == x.val) then acc else acc ++ [x]) [])
  refine ⟨(hp.map (·.val)).nodup_iff.mpr i1, ?_⟩
  intro x hx
  exact (hp.map (·.val)).mem_iff.mpr (i2 x hx)


end Kap.C11
