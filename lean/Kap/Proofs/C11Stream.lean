/-
C11 — stream mode: the node's per-group state after any history is (time of the group's last point, context
realised over the group's last maximal run of equal-time points); hence emissions = the spec's.
-/
import Kap.Proofs.C11Batch
namespace Kap.C11
open Kap.C11.Spec

/-! ### list facts -/

theorem lastRun_append (l : List Pt) (p : Pt) :
    lastRun (l ++ [p]) = (match l.getLast? with
      | some q => if q.time == p.time then lastRun l ++ [p] else [p]
      | none => [p]) := by
  unfold lastRun
  simp only [List.getLast?_append, List.getLast?_singleton, Option.some_or, List.reverse_append, List.reverse_cons,
    List.reverse_nil, List.nil_append, List.singleton_append, List.takeWhile_cons, beq_self_eq_true, if_true]
  cases hq : l.getLast? with
  | none =>
    have : l = [] := by cases l with | nil => rfl | cons a r => simp [List.getLast?_cons] at hq
    subst this; simp
  | some q =>
    have hr : ∃ r, l.reverse = q :: r := by
      have := List.getLast?_eq_head?_reverse (xs := l)
      rw [hq] at this
      cases hl : l.reverse with
      | nil => rw [hl] at this; simp at this
      | cons a r => rw [hl] at this; simp at this; exact ⟨r, by rw [this]⟩
    obtain ⟨r, hr⟩ := hr
    by_cases ht : q.time = p.time
    · simp [ht]
    · have : (q.time == p.time) = false := by simp [ht]
      simp [this, hr, List.takeWhile_cons]

theorem earlier_append (g : Tags) (before : List Msg) (g' : Tags) (p : Pt) :
    earlier g (before ++ [Msg.point g' p]) = if g' = g then earlier g before ++ [p] else earlier g before := by
  unfold earlier
  by_cases h : g' = g <;> simp [List.filterMap_append, h]

/-! ### the group table -/

theorem lookupG_map_ne (gt gt' : Tags) (s : GroupSt) (l : List (Tags × GroupSt)) (h : gt ≠ gt') :
    NodeSt.group.lookupG gt' (l.map (fun p => if p.1 == gt then (gt, s) else p)) = NodeSt.group.lookupG gt' l := by
  induction l with
  | nil => rfl
  | cons a r ih =>
    simp only [List.map_cons, NodeSt.group.lookupG]
    by_cases ha : a.1 = gt
    · have hag : a.1 ≠ gt' := by rw [ha]; exact h
      simp_all
    · simp only [beq_iff_eq] at ih ⊢
      simp only [ha, if_false, ih]

theorem lookupG_append_ne (gt gt' : Tags) (s : GroupSt) (l : List (Tags × GroupSt)) (h : gt ≠ gt') :
    NodeSt.group.lookupG gt' (l ++ [(gt, s)]) = NodeSt.group.lookupG gt' l := by
  induction l with
  | nil => simp [NodeSt.group.lookupG, h]
  | cons a r ih => simp only [List.cons_append, NodeSt.group.lookupG, ih]

theorem group_setGroup_ne (n : NodeSt) (gt gt' : Tags) (s : GroupSt) (h : gt ≠ gt') :
    (n.setGroup gt s).group gt' = n.group gt' := by
  unfold NodeSt.setGroup NodeSt.group
  split
  · exact lookupG_map_ne gt gt' s n.groups h
  · exact lookupG_append_ne gt gt' s n.groups h

theorem lookupG_map_self (gt : Tags) (s : GroupSt) (l : List (Tags × GroupSt)) (h : ∃ a ∈ l, a.1 = gt) :
    NodeSt.group.lookupG gt (l.map (fun p => if p.1 == gt then (gt, s) else p)) = some s := by
  induction l with
  | nil => simp at h
  | cons a r ih =>
    simp only [List.map_cons, NodeSt.group.lookupG]
    by_cases ha : a.1 = gt
    · simp [ha]
    · have : ∃ a ∈ r, a.1 = gt := by
        obtain ⟨x, hx, hxe⟩ := h
        simp only [List.mem_cons] at hx
        rcases hx with rfl | hx
        · exact absurd hxe ha
        · exact ⟨x, hx, hxe⟩
      have ih' := ih this
      simp only [beq_iff_eq] at ih' ⊢
      simp [ha, ih']

theorem lookupG_append_self (gt : Tags) (s : GroupSt) (l : List (Tags × GroupSt)) (h : ∀ a ∈ l, a.1 ≠ gt) :
    NodeSt.group.lookupG gt (l ++ [(gt, s)]) = some s := by
  induction l with
  | nil => simp [NodeSt.group.lookupG]
  | cons a r ih =>
    have h1 : a.1 ≠ gt := h a (by simp)
    simp [NodeSt.group.lookupG, h1, ih (fun x hx => h x (by simp [hx]))]

theorem group_setGroup_self (n : NodeSt) (gt : Tags) (s : GroupSt) : (n.setGroup gt s).group gt = some s := by
  unfold NodeSt.setGroup NodeSt.group
  split
  · rename_i h; exact lookupG_map_self gt s n.groups (by simpa using h)
  · rename_i h
    refine lookupG_append_self gt s n.groups ?_
    intro a ha hne
    apply h
    simp only [List.any_eq_true, beq_iff_eq]
    exact ⟨a, ha, hne⟩

theorem setGroup_cache (n : NodeSt) (gt : Tags) (s : GroupSt) :
    (n.setGroup gt s).createFn = n.createFn ∧ (n.setGroup gt s).currentKind = n.currentKind := by
  unfold NodeSt.setGroup; split <;> simp

/-! ### one more point onto a realised context -/

theorem valuesOf_nil_of_no_kind (cfg : Cfg) (pts : List Pt) (k : Kind) (h : batchKind cfg pts = none)
    (hk : supported cfg.fn k = true) : valuesOf cfg k pts = [] := by
  unfold valuesOf
  rw [List.filterMap_eq_nil_iff]
  intro q hq
  have : usableKind cfg q = none := by
    unfold batchKind at h
    rw [List.findSome?_eq_none_iff] at h
    exact h q hq
  exact convert_none_of_unusable cfg q k this hk

theorem batchKind_append (cfg : Cfg) (pts : List Pt) (p : Pt) :
    batchKind cfg (pts ++ [p]) = (batchKind cfg pts).or (usableKind cfg p) := by
  unfold batchKind
  rw [List.findSome?_append]
  simp [List.findSome?]
  cases usableKind cfg p <;> rfl

theorem aggregatePoint_realised (cfg : Cfg) (hT : cfg.fn.isTransformation = false) (n : NodeSt) (g : GroupSt)
    (pts : List Pt) (p : Pt) (hc : CacheInv cfg n) (hr : g.rc = realised cfg g.time pts) :
    (aggregatePoint {} cfg n g p).2.rc = realised cfg g.time (pts ++ [p]) ∧
    (aggregatePoint {} cfg n g p).2.time = g.time ∧
    (aggregatePoint {} cfg n g p).2.batchSize = g.batchSize ∧
    CacheInv cfg (aggregatePoint {} cfg n g p).1 ∧ (aggregatePoint {} cfg n g p).1.groups = n.groups := by
  obtain ⟨h1, h2, h3⟩ := realizeFromFields_current cfg n g.time p hc
  unfold aggregatePoint
  cases hk : batchKind cfg pts with
  | none =>
    have hrc : g.rc = none := by rw [hr]; simp [realised, hk]
    cases hrf : realizeFromFields {} cfg n g.time p.fields with
    | mk n' o =>
      rw [hrf] at h1 h2 h3; simp only at h1 h2 h3
      cases hu : usableKind cfg p with
      | none =>
        simp [hrc, h1, hu, h2, h3, realised, batchKind_append, hk]
      | some k =>
        obtain ⟨qp, hqp⟩ := convert_of_usable cfg p k hu
        have hv := valuesOf_nil_of_no_kind cfg pts k hk (usable_supported cfg p k hu)
        simp [hrc, h1, hu, h2, h3, realised, batchKind_append, hk, aggregate_nonT cfg hT, hqp, valuesOf, List.filterMap_append]
        rw [valuesOf, List.filterMap_eq_nil_iff] at hv; exact hv
  | some k =>
    have hrc : g.rc = some { kind := k, time := g.time, pts := valuesOf cfg k pts } := by rw [hr]; simp [realised, hk]
    cases hcv : convert cfg k p <;>
      simp [hrc, hc, realised, batchKind_append, hk, aggregate_nonT cfg hT, valuesOf, List.filterMap_append, hcv]

/-! ### the invariant of stream mode -/

/-- what the group table must hold for group `g` after the history `before` -/
def groupAfter (cfg : Cfg) (before : List Msg) (g : Tags) : Option GroupSt :=
  match (earlier g before).getLast? with
  | none => none
  | some q => some { time := q.time, rc := realised cfg q.time (lastRun (earlier g before)), batchSize := 0 }

def SInv (cfg : Cfg) (before : List Msg) (n : NodeSt) : Prop :=
  CacheInv cfg n ∧ ∀ g, n.group g = groupAfter cfg before g

theorem group_of_groups_eq (n n' : NodeSt) (g : Tags) (h : n'.groups = n.groups) : n'.group g = n.group g := by
  unfold NodeSt.group; rw [h]

theorem realised_nil (cfg : Cfg) (t : Int) : realised cfg t [] = none := by simp [realised, batchKind]

theorem groupSt_ext (g : GroupSt) (t : Int) (rc : Option RC) (b : Nat) (h1 : g.time = t) (h2 : g.rc = rc) (h3 : g.batchSize = b) :
    g = { time := t, rc := rc, batchSize := b } := by cases g; simp_all

theorem stepPoint_spec (cfg : Cfg) (hT : cfg.fn.isTransformation = false) (before : List Msg) (n : NodeSt)
    (gt : Tags) (p : Pt) (h : SInv cfg before n) :
    (stepPoint {} cfg n gt p).2 = specAt cfg before (.point gt p) ∧
    SInv cfg (before ++ [.point gt p]) (stepPoint {} cfg n gt p).1 := by
  obtain ⟨hc, hg⟩ := h
  have hgt := hg gt
  unfold groupAfter at hgt
  -- the other groups are untouched
  have others : ∀ (n' : NodeSt) (s : GroupSt), n'.groups = n.groups → CacheInv cfg n' →
      (∀ g, g = gt → (earlier gt before ++ [p]).getLast? = some p →
        some s = groupAfter cfg (before ++ [.point gt p]) gt) →
      SInv cfg (before ++ [.point gt p]) (n'.setGroup gt s) := by
    intro n' s hgr hc' hs
    refine ⟨setGroup_cacheInv cfg n' gt s hc', ?_⟩
    intro g
    by_cases hgg : gt = g
    · subst hgg
      rw [group_setGroup_self]
      exact hs gt rfl (by simp)
    · rw [group_setGroup_ne n' gt g s hgg, group_of_groups_eq n n' g hgr, hg g]
      unfold groupAfter
      rw [earlier_append]
      simp [hgg]
  unfold stepPoint specAt
  simp only [hT, Bool.false_eq_true, if_false]
  cases hq : (earlier gt before).getLast? with
  | none =>
    rw [hq] at hgt; simp only at hgt
    simp only [hgt, Option.getD_none]
    obtain ⟨a1, a2, a3, a4, a5⟩ := aggregatePoint_realised cfg hT n { time := p.time } [] p hc (by simp [realised_nil])
    unfold streamPoint
    simp only [beq_self_eq_true, if_true]
    refine ⟨by first | trivial | rfl | simp, others _ _ a5 a4 ?_⟩
    intro g _ _
    unfold groupAfter
    rw [earlier_append]; simp only [if_true]
    simp only [List.getLast?_append, List.getLast?_singleton, Option.some_or]
    rw [lastRun_append, hq]
    simp only [List.nil_append] at a1
    rw [groupSt_ext _ _ _ _ a2 a1 a3]
  | some q =>
    rw [hq] at hgt; simp only at hgt
    simp only [hgt, Option.getD_some]
    by_cases ht : q.time = p.time
    · obtain ⟨a1, a2, a3, a4, a5⟩ := aggregatePoint_realised cfg hT n
        { time := q.time, rc := realised cfg q.time (lastRun (earlier gt before)), batchSize := 0 }
        (lastRun (earlier gt before)) p hc rfl
      unfold streamPoint
      have hb : (p.time == q.time) = true := by simp [ht]
      simp only [hb, if_true]
      refine ⟨by simp [ht], others _ _ a5 a4 ?_⟩
      intro g _ _
      unfold groupAfter
      rw [earlier_append]; simp only [if_true]
      simp only [List.getLast?_append, List.getLast?_singleton, Option.some_or]
      rw [lastRun_append, hq]
      have hb2 : (q.time == p.time) = true := by simp [ht]
      simp only [hb2, if_true]
      simp only at a1 a2 a3
      rw [groupSt_ext _ _ _ _ a2 a1 a3, ht]
    · obtain ⟨a1, a2, a3, a4, a5⟩ := aggregatePoint_realised cfg hT n
        { time := p.time, rc := none, batchSize := 0 } [] p hc (by simp [realised_nil])
      unfold streamPoint
      have hb : (p.time == q.time) = false := by simp; exact fun e => ht e.symm
      have hb2 : (q.time == p.time) = false := by simp [ht]
      simp only [hb, Bool.false_eq_true, if_false, hb2]
      refine ⟨?_, others _ _ a5 a4 ?_⟩
      · unfold specAgg
        cases hk : batchKind cfg (lastRun (earlier gt before)) with
        | none => simp [realised, hk]
        | some k =>
          simp [realised, hk, emit_eq_package cfg gt q.time k _ (valuesOf_ne_nil cfg _ k hk) hT]
      · intro g _ _
        unfold groupAfter
        rw [earlier_append]; simp only [if_true]
        simp only [List.getLast?_append, List.getLast?_singleton, Option.some_or]
        rw [lastRun_append, hq]
        simp only [hb2, Bool.false_eq_true, if_false]
        simp only [List.nil_append] at a1
        simp only at a2 a3
        rw [groupSt_ext _ _ _ _ a2 a1 a3]


def allPoints (ms : List Msg) : Prop := ∀ m ∈ ms, ∃ g p, m = Msg.point g p

theorem sinv_init (cfg : Cfg) : SInv cfg [] {} := by
  refine ⟨cacheInv_init cfg, ?_⟩
  intro g; simp [groupAfter, earlier, NodeSt.group, NodeSt.group.lookupG]

theorem runFrom_points (cfg : Cfg) (hT : cfg.fn.isTransformation = false) (ms : List Msg) (hp : allPoints ms) :
    ∀ (n : NodeSt) (before : List Msg), SInv cfg before n → (runFrom {} cfg n ms).2 = specFrom cfg before ms := by
  induction ms with
  | nil => intro n before _; rfl
  | cons m rest ih =>
    intro n before hi
    obtain ⟨g, p, rfl⟩ := hp m (by simp)
    obtain ⟨e1, e2⟩ := stepPoint_spec cfg hT before n g p hi
    simp only [runFrom, specFrom, step]
    cases hs : stepPoint {} cfg n g p with
    | mk n' o =>
      rw [hs] at e1 e2; simp only at e1 e2
      have := ih (fun m hm => hp m (by simp [hm])) n' (before ++ [Msg.point g p]) e2
      cases hr : runFrom {} cfg n' rest with
      | mk n'' os => rw [hr] at this; simp only at this; simp [e1, this]

end Kap.C11

namespace Kap.C11
open Kap.C11.Spec

theorem package_no_panic (cfg : Cfg) (g : Tags) (t : Int) (m : Meaning) : Out.panic ∉ package cfg g t m := by
  cases m <;> simp [package]

theorem specAgg_no_panic (cfg : Cfg) (g : Tags) (t : Int) (pts : List Pt) (e : Bool) : Out.panic ∉ specAgg cfg g t pts e := by
  unfold specAgg
  split
  · exact package_no_panic _ _ _ _
  · split
    · exact package_no_panic _ _ _ _
    · simp

theorem specAt_no_panic (cfg : Cfg) (before : List Msg) (m : Msg) : Out.panic ∉ specAt cfg before m := by
  cases m with
  | batch b =>
    simp only [specAt, specBatch]
    split
    · split <;> simp
    · exact specAgg_no_panic _ _ _ _ _
  | point g p =>
    simp only [specAt]
    split
    · split
      · split
        · split <;> simp
        · simp
      · simp
    · split
      · simp
      · split
        · simp
        · exact specAgg_no_panic _ _ _ _ _

theorem specFrom_no_panic (cfg : Cfg) (ms : List Msg) : ∀ before, Out.panic ∉ specFrom cfg before ms := by
  induction ms with
  | nil => intro _; simp [specFrom]
  | cons m r ih =>
    intro before
    simp only [specFrom, List.mem_append, not_or]
    exact ⟨specAt_no_panic cfg before m, ih _⟩

theorem spec_no_panic (cfg : Cfg) (ms : List Msg) : Out.panic ∉ spec cfg ms := specFrom_no_panic cfg ms []

end Kap.C11
