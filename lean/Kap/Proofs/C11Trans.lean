/-
C11 — the four streaming-transformation reducer state machines (`tAgg` / `tEmit`, driven as `tStep` by the
model) against their definitions over the list of points seen so far (`Spec.transAt`).
-/
import Kap.Proofs.C11Defs
namespace Kap.C11
open Kap.C11.Spec

/-- a reducer emission as the list `Emit()` returns -/
def emitOf (o : Option (Int × Val)) : List RP :=
  match o with
  | some (t, v) => [{ time := some t, val := v }]
  | none => []

theorem lastTwo_concat2 {α : Type} (l : List α) (a b : α) : lastTwo (l ++ [a, b]) = some (a, b) := by
  simp [lastTwo]

theorem lastTwo_single {α : Type} (a : α) : lastTwo [a] = none := by simp [lastTwo]

theorem elapsed_machine (cfg : Cfg) (hf : cfg.fn = .elapsed) (k : Kind) (xs : List QP) (p : QP) :
    (tStep cfg (tRun cfg {} xs) p).2 = emitOf (transAt cfg k (xs ++ [p])) := by
  rcases List.eq_nil_or_concat xs with rfl | ⟨ys, a, rfl⟩
  · simp [tRun, elapsed_first_point_silent' cfg hf, transAt, hf, lastTwo_single, emitOf]
  · rw [List.concat_eq_append, elapsed_emits_time_difference' cfg hf ys a p]
    simp [transAt, hf, lastTwo_concat2, emitOf, List.append_assoc]

theorem cumsum_machine (cfg : Cfg) (hf : cfg.fn = .cumulativeSum) (k : Kind) (xs : List QP) (p : QP)
    (hk : ∀ x ∈ xs ++ [p], x.val.kind = k) :
    (tStep cfg (tRun cfg {} xs) p).2 = emitOf (transAt cfg k (xs ++ [p])) := by
  rw [cumsum_emits_prefix_sum' cfg hf k xs p hk]
  simp [transAt, hf, emitOf]


/-! ### movingAverage -/

/-- the last `n` elements -/
def lastN {α : Type} (n : Nat) (l : List α) : List α := l.drop (l.length - n)

theorem lastN_length {α : Type} (n : Nat) (l : List α) : (lastN n l).length = min l.length n := by
  simp [lastN]; omega

theorem lastN_append_lastN {α : Type} (n : Nat) (l r : List α) : lastN n (lastN n l ++ r) = lastN n (l ++ r) := by
  unfold lastN
  by_cases h : l.length ≤ n
  · have : l.length - n = 0 := by omega
    simp [this]
  · have hd : l.length - n ≤ l.length := by omega
    simp only [List.length_append, List.length_drop]
    have e1 : l.length - (l.length - n) + r.length - n = r.length := by omega
    have e2 : l.length + r.length - n = (l.length - n) + r.length := by omega
    rw [e1, e2, ← List.drop_drop, List.drop_append_of_le_length hd]

theorem lastN_idem {α : Type} (n : Nat) (l : List α) : lastN n (lastN n l) = lastN n l := by
  have := lastN_append_lastN n l []
  simpa using this

theorem mavg_emit_state (cfg : Cfg) (hf : cfg.fn = .movingAverage) (s : TState) : (tEmit cfg s).1 = s := by
  simp only [tEmit, hf]; split <;> rfl

theorem mavg_agg_buf (cfg : Cfg) (hf : cfg.fn = .movingAverage) (s : TState) (p : QP) :
    (tAgg cfg s p).buf = lastN cfg.n.toNat (s.buf ++ [p.val]) ∧ (tAgg cfg s p).bufTime = p.time := by
  simp only [tAgg, hf, lastN]
  refine ⟨?_, trivial⟩
  split
  · rfl
  · rename_i h
    have : (s.buf ++ [p.val]).length - cfg.n.toNat = 0 := by omega
    rw [this]; rfl

theorem mavg_run_buf (cfg : Cfg) (hf : cfg.fn = .movingAverage) (xs : List QP) :
    ∀ s : TState, s.buf = lastN cfg.n.toNat s.buf →
      (tRun cfg s xs).buf = lastN cfg.n.toNat (s.buf ++ xs.map (·.val)) := by
  induction xs with
  | nil => intro s hs; simpa [tRun] using hs
  | cons x r ih =>
    intro s _
    have hb := (mavg_agg_buf cfg hf s x).1
    have hstep : (tStep cfg s x).1.buf = lastN cfg.n.toNat (s.buf ++ [x.val]) := by
      simp only [tStep, mavg_emit_state cfg hf, hb]
    simp only [tRun, List.foldl] at ih ⊢
    rw [ih (tStep cfg s x).1 (by rw [hstep, lastN_idem]), hstep, lastN_append_lastN]
    simp

theorem mavg_machine (cfg : Cfg) (hf : cfg.fn = .movingAverage) (hn : cfg.n ≥ 1) (k : Kind) (xs : List QP) (p : QP)
    (hk : ∀ x ∈ xs ++ [p], x.val.kind = k) :
    (tStep cfg (tRun cfg {} xs) p).2 = emitOf (transAt cfg k (xs ++ [p])) := by
  have hN : cfg.n.toNat ≥ 1 := by omega
  have hrun := mavg_run_buf cfg hf xs {} (by simp [lastN])
  simp only [List.nil_append] at hrun
  obtain ⟨hb, ht⟩ := mavg_agg_buf cfg hf (tRun cfg {} xs) p
  rw [hrun, lastN_append_lastN] at hb
  have hL : (xs.map (·.val) ++ [p.val]) = (xs ++ [p]).map (·.val) := by simp
  rw [hL] at hb
  simp only [tStep]
  generalize tAgg cfg (tRun cfg {} xs) p = S at hb ht
  have hlen : S.buf.length = min (xs ++ [p]).length cfg.n.toNat := by rw [hb, lastN_length]; simp
  simp only [tEmit, hf, transAt]
  by_cases hshort : (xs ++ [p]).length < cfg.n.toNat
  · have h1 : S.buf.length ≠ cfg.n.toNat := by omega
    have h2 : ¬ cfg.n.toNat = 0 := by omega
    have hcI : (xs.length : Int) + 1 < cfg.n := by simp at hshort; omega
    simp [h1, h2, hcI, emitOf]
  · have h1 : S.buf.length = cfg.n.toNat := by omega
    have h2 : ¬ cfg.n.toNat = 0 := by omega
    have hne : S.buf ≠ [] := by intro e; rw [e] at h1; simp at h1; omega
    have hdrop : S.buf = ((xs ++ [p]).drop ((xs ++ [p]).length - cfg.n.toNat)).map (·.val) := by
      rw [hb, lastN, List.map_drop]; simp
    have hhead : S.buf.head!.kind = k := by
      cases hS : S.buf with
      | nil => exact absurd hS hne
      | cons v r =>
        simp only [List.head!]
        have hv : v ∈ S.buf := by rw [hS]; simp
        rw [hdrop, List.mem_map] at hv
        obtain ⟨x, hx, rfl⟩ := hv
        exact hk x (List.mem_of_mem_drop hx)
    have hsum : S.buf.foldl (fun acc v => acc.add v) (zeroOf k) =
        sumVals k ((xs ++ [p]).drop ((xs ++ [p]).length - cfg.n.toNat)) := by
      rw [hdrop, sumVals, List.foldl_map]
    have hempty : S.buf.isEmpty = false := by cases hS : S.buf with | nil => exact absurd hS hne | cons _ _ => rfl
    have hcI : ¬ ((xs.length : Int) + 1 < cfg.n) := by simp at hshort; omega
    simp at hsum
    simp [h1, h2, hcI, emitOf, hempty, hhead, hsum, ht]


/-! ### difference -/

/-- time of the last element, `t` for the empty list -/
def lastT (t : Int) (l : List QP) : Int := match l.getLast? with | some c => c.time | none => t

theorem lastT_cons (t : Int) (y : QP) (l : List QP) : lastT t (y :: l) = lastT y.time l := by
  cases l with
  | nil => simp [lastT]
  | cons a r =>
    simp only [lastT, List.getLast?_cons_cons]
    cases hq : (a :: r).getLast? with
    | none => simp at hq
    | some c => rfl

theorem go_append (ys : List QP) : ∀ (t : Int) (p : QP),
    keptForDifference.go t (ys ++ [p]) =
      keptForDifference.go t ys ++ (if lastT t (keptForDifference.go t ys) == p.time then [] else [p]) := by
  induction ys with
  | nil =>
    intro t p
    simp only [List.nil_append, keptForDifference.go, lastT, List.getLast?_nil]
    by_cases h : p.time = t
    · simp [h]
    · have : ¬ t = p.time := fun e => h e.symm
      simp [h, this]
  | cons y r ih =>
    intro t p
    simp only [List.cons_append, keptForDifference.go]
    by_cases h : y.time = t
    · simp only [h, beq_self_eq_true, if_true]; exact ih t p
    · have hb : (y.time == t) = false := by simp [h]
      simp only [hb, Bool.false_eq_true, if_false, ih y.time p, List.cons_append, lastT_cons]

theorem kept_append (xs : List QP) (p : QP) :
    keptForDifference (xs ++ [p]) =
      match (keptForDifference xs).getLast? with
      | none => [p]
      | some c => if c.time == p.time then keptForDifference xs else keptForDifference xs ++ [p] := by
  cases xs with
  | nil => simp [keptForDifference, keptForDifference.go]
  | cons x r =>
    simp only [List.cons_append, keptForDifference, go_append]
    have hl : ∃ c, (x :: keptForDifference.go x.time r).getLast? = some c ∧ c.time = lastT x.time (keptForDifference.go x.time r) := by
      cases hg : keptForDifference.go x.time r with
      | nil => exact ⟨x, by simp, by simp [lastT]⟩
      | cons a t =>
        cases hq : (a :: t).getLast? with
        | none => simp at hq
        | some c => exact ⟨c, by simp [List.getLast?_cons_cons, hq], by simp [lastT, hq]⟩
    obtain ⟨c, hc1, hc2⟩ := hl
    rw [hc1]
    simp only [hc2]
    split <;> simp


theorem getLast?_some_split {α : Type} (l : List α) (c : α) (h : l.getLast? = some c) : ∃ l', l = l' ++ [c] := by
  rcases List.eq_nil_or_concat l with rfl | ⟨l', b, rfl⟩
  · simp at h
  · rw [List.concat_eq_append] at h ⊢
    simp at h; subst h; exact ⟨l', rfl⟩

theorem lastTwo_concat2' {α : Type} (l : List α) (a b : α) : lastTwo (l ++ [a] ++ [b]) = some (a, b) := by
  simp [lastTwo]

/-- one point through the difference reducer, against the definition -/
theorem diff_step (cfg : Cfg) (hf : cfg.fn = .difference) (k : Kind) (s : TState) (pre : List QP) (x : QP)
    (h1 : s.prevRead = true) (h2 : s.curr = (keptForDifference pre).getLast?) :
    (tStep cfg s x).1.prevRead = true ∧ (tStep cfg s x).1.curr = (keptForDifference (pre ++ [x])).getLast? ∧
    (tStep cfg s x).2 = emitOf (transAt cfg k (pre ++ [x])) := by
  have hk := kept_append pre x
  cases hq : (keptForDifference pre).getLast? with
  | none =>
    rw [hq] at h2 hk; simp only at hk
    have hpre : keptForDifference pre = [] := by
      cases hkp : keptForDifference pre with
      | nil => rfl
      | cons a r => rw [hkp] at hq; simp [List.getLast?_cons] at hq
    simp [tStep, tAgg, tEmit, hf, h2, hk, transAt, hpre, lastTwo, emitOf]
  | some c =>
    rw [hq] at h2 hk; simp only at hk
    by_cases ht : c.time = x.time
    · have hb : (c.time == x.time) = true := by simp [ht]
      simp only [hb, if_true] at hk
      simp [tStep, tAgg, tEmit, hf, h2, hb, h1, hk, hq, transAt, emitOf]
    · have hb : (c.time == x.time) = false := by simp [ht]
      simp only [hb, Bool.false_eq_true, if_false] at hk
      obtain ⟨l', hl'⟩ := getLast?_some_split _ c hq
      have hlen : ¬ ((keptForDifference pre ++ [x]).length = (keptForDifference pre).length) := by simp
      simp [tStep, tAgg, tEmit, hf, h2, hb, hk, transAt, emitOf, hl', lastTwo]

theorem diff_run (cfg : Cfg) (hf : cfg.fn = .difference) (k : Kind) (xs : List QP) :
    ∀ (s : TState) (pre : List QP), s.prevRead = true → s.curr = (keptForDifference pre).getLast? →
      (tRun cfg s xs).prevRead = true ∧ (tRun cfg s xs).curr = (keptForDifference (pre ++ xs)).getLast? := by
  induction xs with
  | nil => intro s pre h1 h2; simpa [tRun] using ⟨h1, h2⟩
  | cons x r ih =>
    intro s pre h1 h2
    obtain ⟨a1, a2, _⟩ := diff_step cfg hf k s pre x h1 h2
    have := ih (tStep cfg s x).1 (pre ++ [x]) a1 a2
    simpa [tRun] using this

theorem diff_machine (cfg : Cfg) (hf : cfg.fn = .difference) (k : Kind) (xs : List QP) (p : QP) :
    (tStep cfg (tRun cfg {} xs) p).2 = emitOf (transAt cfg k (xs ++ [p])) := by
  obtain ⟨h1, h2⟩ := diff_run cfg hf k xs {} [] rfl (by simp [keptForDifference])
  simp only [List.nil_append] at h2
  exact (diff_step cfg hf k _ xs p h1 h2).2.2


/-- **All four machines**: the emission for the last point is the definition's value for it. -/
theorem machine_eq_transAt (cfg : Cfg) (hT : cfg.fn.isTransformation = true) (hn : cfg.n ≥ 1) (k : Kind)
    (xs : List QP) (p : QP) (hk : ∀ x ∈ xs ++ [p], x.val.kind = k) :
    (tStep cfg (tRun cfg {} xs) p).2 = emitOf (transAt cfg k (xs ++ [p])) := by
  cases hf : cfg.fn <;> simp [Fn.isTransformation, hf] at hT
  · exact elapsed_machine cfg hf k xs p
  · exact diff_machine cfg hf k xs p
  · exact cumsum_machine cfg hf k xs p hk
  · exact mavg_machine cfg hf hn k xs p hk

end Kap.C11
