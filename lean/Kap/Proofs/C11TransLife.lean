/-
C11 — lifecycle of the streaming transformations (`influxqlStreamingTransformGroup`): the context is realised
once per batch (batch mode) / once per group (stream mode), every aggregated point is followed by one Emit;
with the machine theorems of C11Trans the node's output equals the spec's.
-/
import Kap.Proofs.C11Trans
import Kap.Proofs.C11Stream
namespace Kap.C11
open Kap.C11.Spec

/-- the context (with its reducer state) that a list of points realises for a streaming transformation -/
def realisedT (cfg : Cfg) (t : Int) (pts : List Pt) : Option RC :=
  (batchKind cfg pts).map (fun k =>
    { kind := k, time := t, pts := valuesOf cfg k pts, ts := tRun cfg {} (valuesOf cfg k pts) })

/-- what the spec attaches to point `p`, the last of `all` (same batch / same group) -/
def pointOut (cfg : Cfg) (gtags : Tags) (all : List Pt) (p : Pt) : List OutPt :=
  match batchKind cfg all with
  | some k =>
    (match convert cfg k p with
     | some _ => (match transAt cfg k (valuesOf cfg k all) with
        | some tv => [transPt cfg gtags tv]
        | none => [])
     | none => [])
  | none => []

theorem convert_kind (cfg : Cfg) (k : Kind) (p : Pt) (qp : QP) (h : convert cfg k p = some qp) : qp.val.kind = k := by
  unfold convert at h
  cases hl : lookup cfg.field p.fields with
  | none => simp [hl] at h
  | some v =>
    simp only [hl] at h
    split at h
    · rename_i hk; simp at h; subst h; simpa using hk
    · simp at h

theorem valuesOf_kind (cfg : Cfg) (k : Kind) (pts : List Pt) : ∀ x ∈ valuesOf cfg k pts, x.val.kind = k := by
  intro x hx
  obtain ⟨p, _, hp⟩ := List.mem_filterMap.mp hx
  exact convert_kind cfg k p x hp

theorem tRun_append (cfg : Cfg) (s : TState) (xs : List QP) (p : QP) :
    tRun cfg s (xs ++ [p]) = (tStep cfg (tRun cfg s xs) p).1 := by
  simp [tRun, List.foldl_append]

/-- what the kapacitor emitter makes of a transformation reducer's emission -/
theorem emitPoint_trans (cfg : Cfg) (hT : cfg.fn.isTransformation = true) (gtags : Tags) (t : Int)
    (o : Option (Int × Val)) :
    (emitPoint cfg true gtags t (emitOf o)).filterMap (fun o => match o with | .point _ op => some op | _ => none) =
      (match o with | some tv => [transPt cfg gtags tv] | none => []) := by
  have hs : cfg.fn.isSimpleSelector = false := by
    cases hf : cfg.fn <;> simp [Fn.isTransformation, hf] at hT <;> rfl
  cases o with
  | none => simp [emitOf, emitPoint]
  | some tv =>
    obtain ⟨tt, v⟩ := tv
    simp [emitOf, emitPoint, hs, emitTime, transPt]

/-- one point through `influxqlStreamingTransformGroup.BatchPoint` / `.Point` -/
theorem tBatchPoint_realised (cfg : Cfg) (hT : cfg.fn.isTransformation = true) (hn : cfg.n ≥ 1) (n : NodeSt)
    (gtags : Tags) (g : GroupSt) (pts : List Pt) (p : Pt) (hc : CacheInv cfg n)
    (hr : g.rc = realisedT cfg g.time pts) :
    (tBatchPoint {} cfg n gtags g p).2.1.rc = realisedT cfg g.time (pts ++ [p]) ∧
    (tBatchPoint {} cfg n gtags g p).2.1.time = g.time ∧
    (tBatchPoint {} cfg n gtags g p).2.1.batchSize = g.batchSize ∧
    CacheInv cfg (tBatchPoint {} cfg n gtags g p).1 ∧ (tBatchPoint {} cfg n gtags g p).1.groups = n.groups ∧
    (tBatchPoint {} cfg n gtags g p).2.2 = pointOut cfg gtags (pts ++ [p]) p := by
  obtain ⟨h1, h2, h3⟩ := realizeFromFields_current cfg n g.time p hc
  unfold tBatchPoint pointOut
  cases hk : batchKind cfg pts with
  | none =>
    have hrc : g.rc = none := by rw [hr]; simp [realisedT, hk]
    cases hrf : realizeFromFields {} cfg n g.time p.fields with
    | mk n' o =>
      rw [hrf] at h1 h2 h3; simp only at h1 h2 h3
      cases hu : usableKind cfg p with
      | none => simp [hrc, hrf, h1, hu, h2, h3, realisedT, batchKind_append, hk]
      | some k =>
        obtain ⟨qp, hqp⟩ := convert_of_usable cfg p k hu
        have hv := valuesOf_nil_of_no_kind cfg pts k hk (usable_supported cfg p k hu)
        have hvals : valuesOf cfg k (pts ++ [p]) = [qp] := by
          simp only [valuesOf, List.filterMap_append] at hv ⊢
          simp [hv, hqp]
        have hm := machine_eq_transAt cfg hT hn k [] qp (by
          intro x hx; simp at hx; subst hx; exact convert_kind cfg k p x hqp)
        simp only [tRun, List.foldl, List.nil_append] at hm
        have hst : tStep cfg {} qp = tEmit cfg (tAgg cfg {} qp) := rfl
        simp only [hrc, hrf, h1, hu, Option.map_some, RC.aggregate, hqp, Bool.not_true, Bool.false_and,
          Bool.false_eq_true, if_false, List.nil_append, realisedT, batchKind_append, hk, Option.none_or, hvals]
        rw [← hst]
        refine ⟨?_, trivial, trivial, h2, h3, ?_⟩
        · simp [tRun]
        · rw [hm]; exact emitPoint_trans cfg hT gtags g.time _
  | some k =>
    have hrc : g.rc = some { kind := k, time := g.time, pts := valuesOf cfg k pts, ts := tRun cfg {} (valuesOf cfg k pts) } := by
      rw [hr]; simp [realisedT, hk]
    cases hcv : convert cfg k p with
    | none =>
      simp [hrc, RC.aggregate, hcv, realisedT, batchKind_append, hk, valuesOf, List.filterMap_append, hc]
    | some qp =>
      have hvals : valuesOf cfg k (pts ++ [p]) = valuesOf cfg k pts ++ [qp] := by
        simp [valuesOf, List.filterMap_append, hcv]
      have hm := machine_eq_transAt cfg hT hn k (valuesOf cfg k pts) qp (by
        intro x hx; simp only [List.mem_append, List.mem_singleton] at hx
        rcases hx with hx | rfl
        · exact valuesOf_kind cfg k pts x hx
        · exact convert_kind cfg k p x hcv)
      have hst : tStep cfg (tRun cfg {} (valuesOf cfg k pts)) qp = tEmit cfg (tAgg cfg (tRun cfg {} (valuesOf cfg k pts)) qp) := rfl
      simp only [hrc, RC.aggregate, hcv, Bool.not_true, Bool.false_and, Bool.false_eq_true, if_false,
        realisedT, batchKind_append, hk, Option.some_or, hvals, Option.map_some]
      rw [← hst]
      refine ⟨?_, trivial, trivial, hc, trivial, ?_⟩
      · simp [tRun_append]
      · rw [hm]; exact emitPoint_trans cfg hT gtags g.time _


/-! ### the values attached to the points of a batch, one prefix after the other -/

def transFrom (cfg : Cfg) (k : Kind) (xs : List QP) : List QP → List (Int × Val)
  | [] => []
  | y :: r => (transAt cfg k (xs ++ [y])).toList ++ transFrom cfg k (xs ++ [y]) r

theorem transAll_from (cfg : Cfg) (k : Kind) (ys : List QP) : ∀ xs : List QP,
    (List.range ys.length).filterMap (fun i => transAt cfg k ((xs ++ ys).take (xs.length + i + 1))) =
      transFrom cfg k xs ys := by
  induction ys with
  | nil => intro xs; rfl
  | cons y r ih =>
    intro xs
    simp only [List.length_cons, List.range_succ_eq_map, List.filterMap_cons, transFrom, List.filterMap_map]
    have h0 : (xs ++ y :: r).take (xs.length + 0 + 1) = xs ++ [y] := by
      have : xs ++ y :: r = (xs ++ [y]) ++ r := by simp
      rw [this, List.take_append_of_le_length (by simp)]
      have hl : xs.length + 0 + 1 = (xs ++ [y]).length := by simp
      rw [hl, List.take_length]
    have hrest := ih (xs ++ [y])
    have hfun : (fun i => transAt cfg k ((xs ++ [y] ++ r).take ((xs ++ [y]).length + i + 1))) =
        ((fun i => transAt cfg k ((xs ++ y :: r).take (xs.length + i + 1))) ∘ Nat.succ) := by
      funext i
      simp only [Function.comp, List.length_append, List.length_singleton, List.append_assoc, List.singleton_append]
      congr 2
      omega
    rw [hfun] at hrest
    rw [h0, hrest]
    cases transAt cfg k (xs ++ [y]) <;> simp

theorem transAll_eq_from (cfg : Cfg) (k : Kind) (xs : List QP) : transAll cfg k xs = transFrom cfg k [] xs := by
  have := transAll_from cfg k xs []
  simpa [transAll] using this

def batchOuts (cfg : Cfg) (gtags : Tags) : List Pt → List Pt → List OutPt
  | _, [] => []
  | pre, p :: r => pointOut cfg gtags (pre ++ [p]) p ++ batchOuts cfg gtags (pre ++ [p]) r

theorem batchKind_prefix (cfg : Cfg) (pre rest : List Pt) (k : Kind) (h : batchKind cfg pre = some k) :
    batchKind cfg (pre ++ rest) = some k := by
  unfold batchKind at h ⊢
  rw [List.findSome?_append, h]; rfl

theorem batchKind_supported (cfg : Cfg) (pts : List Pt) (k : Kind) (h : batchKind cfg pts = some k) :
    supported cfg.fn k = true := by
  obtain ⟨q, _, hq⟩ := List.exists_of_findSome?_eq_some h
  exact usable_supported cfg q k hq

theorem batchOuts_eq (cfg : Cfg) (gtags : Tags) (rest : List Pt) : ∀ pre : List Pt,
    batchOuts cfg gtags pre rest =
      match batchKind cfg (pre ++ rest) with
      | some k => (transFrom cfg k (valuesOf cfg k pre) (valuesOf cfg k rest)).map (transPt cfg gtags)
      | none => [] := by
  induction rest with
  | nil => intro pre; simp only [batchOuts, List.append_nil, valuesOf, List.filterMap_nil, transFrom, List.map_nil]; split <;> rfl
  | cons p r ih =>
    intro pre
    have hassoc : pre ++ p :: r = (pre ++ [p]) ++ r := by simp
    simp only [batchOuts, ih (pre ++ [p]), ← hassoc]
    cases hall : batchKind cfg (pre ++ p :: r) with
    | none =>
      have : batchKind cfg (pre ++ [p]) = none := by
        cases hp : batchKind cfg (pre ++ [p]) with
        | none => rfl
        | some k' => rw [hassoc, batchKind_prefix cfg _ r k' hp] at hall; simp at hall
      simp [pointOut, this]
    | some k =>
      have hsup := batchKind_supported cfg _ k hall
      simp only
      cases hp : batchKind cfg (pre ++ [p]) with
      | none =>
        have hu : usableKind cfg p = none := by
          rw [batchKind_append] at hp
          cases hpre : batchKind cfg pre with
          | none => simpa [hpre] using hp
          | some _ => simp [hpre] at hp
        have hcv := convert_none_of_unusable cfg p k hu hsup
        simp [pointOut, hp, valuesOf, List.filterMap_append, hcv]
      | some k' =>
        have hk' : k' = k := by
          have := batchKind_prefix cfg _ r k' hp
          rw [← hassoc, hall] at this; exact (Option.some.inj this).symm
        subst hk'
        cases hcv : convert cfg k' p with
        | none => simp [pointOut, hp, valuesOf, List.filterMap_append, hcv]
        | some qp =>
          have hv1 : valuesOf cfg k' (pre ++ [p]) = valuesOf cfg k' pre ++ [qp] := by
            simp [valuesOf, List.filterMap_append, hcv]
          have hv2 : valuesOf cfg k' (p :: r) = qp :: valuesOf cfg k' r := by
            simp [valuesOf, hcv]
          simp only [pointOut, hp, hcv, hv1, hv2, transFrom, List.map_append]
          cases transAt cfg k' (valuesOf cfg k' pre ++ [qp]) <;> simp


/-! ### batch mode -/

theorem fold_tBatchPoint (cfg : Cfg) (hT : cfg.fn.isTransformation = true) (hn : cfg.n ≥ 1) (gtags : Tags)
    (rest : List Pt) : ∀ (pre : List Pt) (n : NodeSt) (g : GroupSt) (acc : List OutPt),
    CacheInv cfg n → g.rc = realisedT cfg g.time pre →
    ∃ n' g', rest.foldl (fun (a : NodeSt × GroupSt × List OutPt) p =>
        let (n, g, o) := tBatchPoint {} cfg a.1 gtags a.2.1 p
        (n, g, a.2.2 ++ o)) (n, g, acc) = (n', g', acc ++ batchOuts cfg gtags pre rest) ∧
      CacheInv cfg n' ∧ n'.groups = n.groups := by
  induction rest with
  | nil => intro pre n g acc hc _; exact ⟨n, g, by simp [batchOuts], hc, rfl⟩
  | cons p r ih =>
    intro pre n g acc hc hr
    obtain ⟨a1, a2, _, a4, a5, a6⟩ := tBatchPoint_realised cfg hT hn n gtags g pre p hc hr
    simp only [List.foldl]
    cases hs : tBatchPoint {} cfg n gtags g p with
    | mk n1 rest1 =>
      obtain ⟨g1, o1⟩ := rest1
      rw [hs] at a1 a2 a4 a5 a6; simp only at a1 a2 a4 a5 a6
      obtain ⟨n', g', e, c1, c2⟩ := ih (pre ++ [p]) n1 g1 (acc ++ o1) a4 (by rw [a1, a2])
      refine ⟨n', g', ?_, c1, c2.trans a5⟩
      rw [e, a6]; simp [batchOuts]

theorem stepBatch_trans_eq_spec (cfg : Cfg) (hT : cfg.fn.isTransformation = true) (hn : cfg.n ≥ 1) (n : NodeSt)
    (b : Batch) (hc : CacheInv cfg n) :
    (stepBatch {} cfg n b).2 = specBatch cfg b ∧ CacheInv cfg (stepBatch {} cfg n b).1 := by
  unfold stepBatch specBatch
  simp only [hT, if_true]
  obtain ⟨n', g', e, c1, _⟩ := fold_tBatchPoint cfg hT hn b.gtags b.pts [] n
    { ((n.group b.gtags).getD { time := b.tmax }) with time := b.tmax, rc := none } [] hc
    (by simp [realisedT, batchKind])
  rw [e]
  simp only [List.nil_append]
  refine ⟨?_, setGroup_cacheInv cfg _ _ _ c1⟩
  rw [batchOuts_eq]
  simp only [List.nil_append, valuesOf, List.filterMap_nil]
  cases hk : batchKind cfg b.pts with
  | none => rfl
  | some k => simp [transAll_eq_from, valuesOf]

theorem runFrom_batches_trans (cfg : Cfg) (hT : cfg.fn.isTransformation = true) (hn : cfg.n ≥ 1) (ms : List Msg)
    (hb : allBatches ms) :
    ∀ (n : NodeSt) (before : List Msg), CacheInv cfg n → (runFrom {} cfg n ms).2 = specFrom cfg before ms := by
  induction ms with
  | nil => intro n before _; rfl
  | cons m rest ih =>
    intro n before hc
    obtain ⟨b, rfl⟩ := hb m (by simp)
    obtain ⟨e1, e2⟩ := stepBatch_trans_eq_spec cfg hT hn n b hc
    simp only [runFrom, specFrom, step, specAt]
    cases hs : stepBatch {} cfg n b with
    | mk n' o =>
      rw [hs] at e1 e2; simp only at e1 e2
      have := ih (fun m hm => hb m (by simp [hm])) n' (before ++ [Msg.batch b]) e2
      cases hr : runFrom {} cfg n' rest with
      | mk n'' os => rw [hr] at this; simp only at this; simp [e1, this]

/-! ### stream mode: the context lives as long as the group -/

def groupAfterT (cfg : Cfg) (before : List Msg) (g : Tags) : Option GroupSt :=
  match earlier g before with
  | [] => none
  | first :: r => some { time := first.time, rc := realisedT cfg first.time (first :: r), batchSize := 0 }

def TInv (cfg : Cfg) (before : List Msg) (n : NodeSt) : Prop :=
  CacheInv cfg n ∧ ∀ g, n.group g = groupAfterT cfg before g

theorem tinv_init (cfg : Cfg) : TInv cfg [] {} := by
  refine ⟨cacheInv_init cfg, ?_⟩
  intro g; simp [groupAfterT, earlier, NodeSt.group, NodeSt.group.lookupG]

theorem specAt_trans_point (cfg : Cfg) (hT : cfg.fn.isTransformation = true) (before : List Msg) (gt : Tags) (p : Pt) :
    specAt cfg before (.point gt p) =
      (pointOut cfg gt (earlier gt before ++ [p]) p).map (fun op => Out.point (gt.map (·.1)) op) := by
  simp only [specAt, hT, if_true, pointOut]
  cases batchKind cfg (earlier gt before ++ [p]) with
  | none => rfl
  | some k =>
    simp only
    cases convert cfg k p with
    | none => rfl
    | some _ =>
      simp only
      cases transAt cfg k (valuesOf cfg k (earlier gt before ++ [p])) <;> rfl

theorem stepPoint_trans_spec (cfg : Cfg) (hT : cfg.fn.isTransformation = true) (hn : cfg.n ≥ 1)
    (before : List Msg) (n : NodeSt) (gt : Tags) (p : Pt) (h : TInv cfg before n) :
    (stepPoint {} cfg n gt p).2 = specAt cfg before (.point gt p) ∧
    TInv cfg (before ++ [.point gt p]) (stepPoint {} cfg n gt p).1 := by
  obtain ⟨hc, hg⟩ := h
  have hgt := hg gt
  unfold groupAfterT at hgt
  rw [specAt_trans_point cfg hT]
  unfold stepPoint tStreamPoint
  simp only [hT, if_true]
  -- the group's state before this point, as (time, points so far)
  have key : ∃ (g0 : GroupSt) (t0 : Int), (n.group gt).getD { time := p.time } = g0 ∧
      g0.rc = realisedT cfg g0.time (earlier gt before) ∧ g0.batchSize = 0 ∧ g0.time = t0 ∧
      (match earlier gt before ++ [p] with | [] => p.time | f :: _ => f.time) = t0 := by
    cases he : earlier gt before with
    | nil =>
      rw [he] at hgt; simp only at hgt
      exact ⟨{ time := p.time }, p.time, by simp [hgt], by simp [realisedT, batchKind], rfl, rfl, by simp⟩
    | cons f r =>
      rw [he] at hgt; simp only at hgt
      exact ⟨{ time := f.time, rc := realisedT cfg f.time (f :: r), batchSize := 0 }, f.time, by simp [hgt], rfl, rfl, rfl, by simp⟩
  obtain ⟨g0, t0, e0, r0, b0, ht0, hfirst⟩ := key
  rw [e0]
  obtain ⟨a1, a2, a3, a4, a5, a6⟩ := tBatchPoint_realised cfg hT hn n gt g0 (earlier gt before) p hc r0
  cases hs : tBatchPoint {} cfg n gt g0 p with
  | mk n1 rest1 =>
    obtain ⟨g1, o1⟩ := rest1
    rw [hs] at a1 a2 a3 a4 a5 a6; simp only at a1 a2 a3 a4 a5 a6
    simp only
    refine ⟨by rw [a6], setGroup_cacheInv cfg n1 gt g1 a4, ?_⟩
    intro g
    by_cases hgg : gt = g
    · subst hgg
      rw [group_setGroup_self]
      unfold groupAfterT
      rw [earlier_append]; simp only [if_true]
      cases hall : earlier gt before ++ [p] with
      | nil => simp at hall
      | cons f r =>
        rw [hall] at hfirst a1; simp only at hfirst
        simp only
        rw [groupSt_ext g1 f.time (realisedT cfg f.time (f :: r)) 0 (by rw [a2, ht0, hfirst]) (by rw [a1, ht0, hfirst]) (by rw [a3, b0])]
    · rw [group_setGroup_ne n1 gt g g1 hgg, group_of_groups_eq n n1 g a5, hg g]
      unfold groupAfterT
      rw [earlier_append]
      simp [hgg]

theorem runFrom_points_trans (cfg : Cfg) (hT : cfg.fn.isTransformation = true) (hn : cfg.n ≥ 1) (ms : List Msg)
    (hp : allPoints ms) :
    ∀ (n : NodeSt) (before : List Msg), TInv cfg before n → (runFrom {} cfg n ms).2 = specFrom cfg before ms := by
  induction ms with
  | nil => intro n before _; rfl
  | cons m rest ih =>
    intro n before hi
    obtain ⟨g, p, rfl⟩ := hp m (by simp)
    obtain ⟨e1, e2⟩ := stepPoint_trans_spec cfg hT hn before n g p hi
    simp only [runFrom, specFrom, step]
    cases hs : stepPoint {} cfg n g p with
    | mk n' o =>
      rw [hs] at e1 e2; simp only at e1 e2
      have := ih (fun m hm => hp m (by simp [hm])) n' (before ++ [Msg.point g p]) e2
      cases hr : runFrom {} cfg n' rest with
      | mk n'' os => rw [hr] at this; simp only at this; simp [e1, this]


end Kap.C11
