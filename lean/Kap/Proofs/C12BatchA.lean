/-
C12 — JoinIntoBatch, part A (specification side): the specification's rows (per rounded time ascending, one
row per occurrence index) over columns that are each in time order satisfy the SAME unfolding as the merge
loop: take the least head time `T`, the row of the heads at `T`, and go on with those heads removed.
-/
import Kap.Proofs.C12PairG
namespace Kap.C12
open Spec
set_option linter.unusedSimpArgs false
set_option linter.unusedVariables false
variable {α : Type}

/-! ### strictly ascending lists are determined by their members -/

theorem strict_sorted_unique (l₁ l₂ : List Int) (h₁ : l₁.Pairwise (· < ·)) (h₂ : l₂.Pairwise (· < ·))
    (hm : ∀ x, x ∈ l₁ ↔ x ∈ l₂) : l₁ = l₂ := by
  induction l₁ generalizing l₂ with
  | nil =>
    cases l₂ with
    | nil => rfl
    | cons y ys => exact absurd ((hm y).mpr (by simp)) (by simp)
  | cons x xs ih =>
    cases l₂ with
    | nil => exact absurd ((hm x).mp (by simp)) (by simp)
    | cons y ys =>
      have hx := List.pairwise_cons.mp h₁
      have hy := List.pairwise_cons.mp h₂
      have hxy : x = y := by
        have a := (hm x).mp (by simp)
        have b := (hm y).mpr (by simp)
        simp only [List.mem_cons] at a b
        rcases a with a | a
        · exact a
        · rcases b with b | b
          · exact b.symm
          · have := hx.1 y b; have := hy.1 x a; omega
      subst hxy
      congr 1
      apply ih ys hx.2 hy.2
      intro z
      constructor
      · intro hz
        have := (hm z).mp (by simp [hz])
        simp only [List.mem_cons] at this
        rcases this with rfl | h
        · have := hx.1 z hz; omega
        · exact h
      · intro hz
        have := (hm z).mpr (by simp [hz])
        simp only [List.mem_cons] at this
        rcases this with rfl | h
        · have := hy.1 z hz; omega
        · exact h

theorem mem_insertInt (x y : Int) (l : List Int) : y ∈ insertInt x l ↔ y = x ∨ y ∈ l := by
  induction l with
  | nil => simp [insertInt]
  | cons z zs ih =>
    simp only [insertInt]
    split
    · simp
    · simp only [List.mem_cons, ih]
      constructor
      · rintro (h | h | h)
        · exact Or.inr (Or.inl h)
        · exact Or.inl h
        · exact Or.inr (Or.inr h)
      · rintro (h | h | h)
        · exact Or.inr (Or.inl h)
        · exact Or.inl h
        · exact Or.inr (Or.inr h)

theorem mem_ascending (y : Int) (l : List Int) : y ∈ ascending l ↔ y ∈ l := by
  induction l with
  | nil => simp [ascending]
  | cons z zs ih =>
    have : ascending (z :: zs) = insertInt z (ascending zs) := rfl
    rw [this, mem_insertInt, ih]; simp

theorem insertInt_strict (x : Int) (l : List Int) (h : l.Pairwise (· < ·)) (hx : x ∉ l) : (insertInt x l).Pairwise (· < ·) := by
  induction l with
  | nil => simp [insertInt]
  | cons z zs ih =>
    have hz := List.pairwise_cons.mp h
    simp only [List.mem_cons, not_or] at hx
    simp only [insertInt]
    split
    · rename_i hle
      refine List.pairwise_cons.mpr ⟨?_, h⟩
      intro w hw
      simp only [List.mem_cons] at hw
      rcases hw with rfl | hw
      · have := hx.1; omega
      · have := hz.1 w hw; omega
    · rename_i hle
      refine List.pairwise_cons.mpr ⟨?_, ih hz.2 hx.2⟩
      intro w hw
      rw [mem_insertInt] at hw
      rcases hw with rfl | hw
      · omega
      · exact hz.1 w hw

theorem ascending_strict (l : List Int) (h : l.Nodup) : (ascending l).Pairwise (· < ·) := by
  induction l with
  | nil => simp [ascending]
  | cons z zs ih =>
    have hz := List.nodup_cons.mp h
    have : ascending (z :: zs) = insertInt z (ascending zs) := rfl
    rw [this]
    exact insertInt_strict z _ (ih hz.2) (by rw [mem_ascending]; exact hz.1)

/-! ### `rowsOf`: first row = the heads, the other rows = the rows of the tails -/

def maxLen (X : List (List α)) : Nat := (X.map List.length).foldl max 0

theorem foldl_max_init (l : List Nat) (a : Nat) : l.foldl max a = max a (l.foldl max 0) := by
  induction l generalizing a with
  | nil => simp
  | cons y ys ih =>
    simp only [List.foldl_cons]
    rw [ih (max a y), ih (max 0 y)]
    omega

theorem maxLen_cons (c : List α) (X : List (List α)) : maxLen (c :: X) = max c.length (maxLen X) := by
  unfold maxLen
  simp only [List.map_cons, List.foldl_cons]
  rw [foldl_max_init]
  omega

theorem maxLen_tail (X : List (List α)) : maxLen (X.map List.tail) = maxLen X - 1 := by
  induction X with
  | nil => rfl
  | cons c X ih =>
    simp only [List.map_cons, maxLen_cons, ih, List.length_tail]
    omega

theorem maxLen_pos (X : List (List α)) (h : ∃ c ∈ X, c ≠ []) : 0 < maxLen X := by
  induction X with
  | nil => obtain ⟨c, hc, _⟩ := h; simp at hc
  | cons c X ih =>
    rw [maxLen_cons]
    obtain ⟨d, hd, hne⟩ := h
    simp only [List.mem_cons] at hd
    rcases hd with rfl | hd
    · have : 0 < d.length := List.length_pos_iff.mpr hne
      omega
    · have := ih ⟨d, hd, hne⟩; omega

theorem maxLen_zero (X : List (List α)) (h : ∀ c ∈ X, c = []) : maxLen X = 0 := by
  induction X with
  | nil => rfl
  | cons c X ih =>
    rw [maxLen_cons, ih (fun d hd => h d (by simp [hd])), h c (by simp)]
    rfl

theorem rowsOf_empty (X : List (List α)) (h : ∀ c ∈ X, c = []) : rowsOf X = [] := by
  have := maxLen_zero X h
  unfold maxLen at this
  unfold rowsOf
  rw [this]; rfl

theorem rowsOf_cons (X : List (List α)) (h : ∃ c ∈ X, c ≠ []) :
    rowsOf X = X.map List.head? :: rowsOf (X.map List.tail) := by
  have hp := maxLen_pos X h
  have ht := maxLen_tail X
  unfold maxLen at hp ht
  unfold rowsOf
  rw [ht]
  obtain ⟨m, hm⟩ : ∃ m, (X.map List.length).foldl max 0 = m + 1 := ⟨_, (Nat.succ_pred_eq_of_pos hp).symm⟩
  rw [hm, List.range_succ_eq_map]
  simp only [List.map_cons, List.map_map, Nat.add_sub_cancel]
  congr 1
  · apply List.map_congr_left
    intro c _
    cases c <;> simp
  · apply List.map_congr_left
    intro k _
    simp only [Function.comp]
    apply List.map_congr_left
    intro c _
    cases c <;> simp

/-! ### the specification's rows over columns -/

/-- The rows of the specification for the times `ts`: per time, one row per occurrence index. -/
def specRowsAt (rt : α → Int) (ts : List Int) (cols : List (List α)) : List (Int × List (Option α)) :=
  ts.flatMap (fun t => (rowsOf (cols.map (fun c => c.filter (fun p => rt p == t)))).map (fun r => (t, r)))

/-- All rounded times of the columns, ascending, each once. -/
def colTimes (rt : α → Int) (cols : List (List α)) : List Int := ascending (distinct ((cols.flatMap id).map rt))

def specRows (rt : α → Int) (cols : List (List α)) : List (Int × List (Option α)) := specRowsAt rt (colTimes rt cols) cols

theorem mem_colTimes (rt : α → Int) (cols : List (List α)) (t : Int) :
    t ∈ colTimes rt cols ↔ ∃ c ∈ cols, ∃ p ∈ c, rt p = t := by
  unfold colTimes
  rw [mem_ascending, mem_distinct]
  simp only [List.mem_map, List.mem_flatMap, id]
  constructor
  · rintro ⟨p, ⟨c, hc, hp⟩, rfl⟩; exact ⟨c, hc, p, hp, rfl⟩
  · rintro ⟨c, hc, p, hp, rfl⟩; exact ⟨p, ⟨c, hc, hp⟩, rfl⟩

theorem colTimes_strict (rt : α → Int) (cols : List (List α)) : (colTimes rt cols).Pairwise (· < ·) :=
  ascending_strict _ (nodup_distinct _)

/-- A time at which no column has a point contributes no row. -/
theorem rows_absent (rt : α → Int) (cols : List (List α)) (t : Int) (h : ¬ ∃ c ∈ cols, ∃ p ∈ c, rt p = t) :
    rowsOf (cols.map (fun c => c.filter (fun p => rt p == t))) = [] := by
  apply rowsOf_empty
  intro d hd
  simp only [List.mem_map] at hd
  obtain ⟨c, hc, rfl⟩ := hd
  rw [List.filter_eq_nil_iff]
  intro p hp hpt
  exact h ⟨c, hc, p, hp, by simpa using hpt⟩

theorem specRowsAt_filter (rt : α → Int) (ts : List Int) (cols : List (List α)) :
    specRowsAt rt ts cols = specRowsAt rt (ts.filter (fun t => decide (t ∈ colTimes rt cols))) cols := by
  induction ts with
  | nil => rfl
  | cons t ts ih =>
    unfold specRowsAt at ih ⊢
    simp only [List.flatMap_cons, List.filter_cons]
    by_cases ht : t ∈ colTimes rt cols
    · simp only [ht, decide_true, if_true, List.flatMap_cons, ih]
    · simp only [ht, decide_false, Bool.false_eq_true, if_false, ih]
      rw [rows_absent rt cols t (by rw [← mem_colTimes]; exact ht)]
      rfl

/-- Any strictly ascending list of times that covers the columns' times yields the specification's rows. -/
theorem specRowsAt_superset (rt : α → Int) (ts : List Int) (cols : List (List α)) (hs : ts.Pairwise (· < ·))
    (hc : ∀ t ∈ colTimes rt cols, t ∈ ts) : specRowsAt rt ts cols = specRows rt cols := by
  rw [specRowsAt_filter]
  unfold specRows
  congr 1
  apply strict_sorted_unique _ _ (hs.sublist List.filter_sublist) (colTimes_strict rt cols)
  intro x
  simp only [List.mem_filter, decide_eq_true_eq]
  exact ⟨fun h => h.2, fun h => ⟨hc x h, h⟩⟩

/-! ### one step: the heads at the least head time -/

/-- The head of a column if it falls on `T`. -/
def headAt (rt : α → Int) (T : Int) : List α → Option α
  | [] => none
  | p :: _ => if rt p = T then some p else none

/-- The column without its head if that falls on `T`. -/
def dropAt (rt : α → Int) (T : Int) : List α → List α
  | [] => []
  | p :: ps => if rt p = T then ps else p :: ps

def colSorted (rt : α → Int) (c : List α) : Prop := (c.map rt).Pairwise (· ≤ ·)

theorem dropAt_sorted (rt : α → Int) (T : Int) (c : List α) (h : colSorted rt c) : colSorted rt (dropAt rt T c) := by
  cases c with
  | nil => exact h
  | cons p ps =>
    simp only [dropAt]
    split
    · unfold colSorted at h ⊢
      simp only [List.map_cons] at h
      exact (List.pairwise_cons.mp h).2
    · exact h

theorem dropAt_mem (rt : α → Int) (T : Int) (c : List α) (p : α) (h : p ∈ dropAt rt T c) : p ∈ c := by
  cases c with
  | nil => exact h
  | cons q qs =>
    simp only [dropAt] at h
    split at h
    · exact List.mem_cons_of_mem _ h
    · exact h

/-- **The specification's rows unfold like the merge loop**: when every column is in time order and `T` is the
least head time, the first row is `(T, heads at T)` and the rest are the rows of the columns without those heads. -/
theorem specRows_step (rt : α → Int) (cols : List (List α)) (T : Int)
    (hsorted : ∀ c ∈ cols, colSorted rt c)
    (hT : ∃ c ∈ cols, ∃ p ps, c = p :: ps ∧ rt p = T)
    (hmin : ∀ c ∈ cols, ∀ p ps, c = p :: ps → T ≤ rt p) :
    specRows rt cols = (T, cols.map (headAt rt T)) :: specRows rt (cols.map (dropAt rt T)) := by
  -- every point of every column is at or after T
  have hge : ∀ c ∈ cols, ∀ p ∈ c, T ≤ rt p := by
    intro c hc p hp
    cases c with
    | nil => simp at hp
    | cons q qs =>
      have h1 := hmin _ hc q qs rfl
      have h2 := hsorted _ hc
      unfold colSorted at h2
      simp only [List.map_cons] at h2
      simp only [List.mem_cons] at hp
      rcases hp with rfl | hp
      · exact h1
      · have := (List.pairwise_cons.mp h2).1 (rt p) (List.mem_map_of_mem hp); omega
  -- the times of the columns start with T
  have hTmem : T ∈ colTimes rt cols := by
    rw [mem_colTimes]
    obtain ⟨c, hc, p, ps, rfl, hp⟩ := hT
    exact ⟨_, hc, p, by simp, hp⟩
  have hstrict := colTimes_strict rt cols
  obtain ⟨ts', hts⟩ : ∃ ts', colTimes rt cols = T :: ts' := by
    cases hct : colTimes rt cols with
    | nil => rw [hct] at hTmem; simp at hTmem
    | cons t0 ts' =>
      rw [hct] at hTmem hstrict
      have h0 : t0 ∈ colTimes rt cols := by rw [hct]; simp
      rw [mem_colTimes] at h0
      obtain ⟨c, hc, p, hp, hpt⟩ := h0
      have := hge c hc p hp
      simp only [List.mem_cons] at hTmem
      rcases hTmem with rfl | hm
      · exact ⟨ts', rfl⟩
      · have := (List.pairwise_cons.mp hstrict).1 T hm; omega
  have hts'_ne : ∀ t ∈ ts', t ≠ T := by
    intro t ht
    rw [hts] at hstrict
    have := (List.pairwise_cons.mp hstrict).1 t ht; omega
  -- columns filtered at T: heads and tails
  have hX : ∃ c ∈ cols.map (fun c => c.filter (fun p => rt p == T)), c ≠ [] := by
    obtain ⟨c, hc, p, ps, rfl, hp⟩ := hT
    refine ⟨_, List.mem_map_of_mem hc, ?_⟩
    simp [List.filter_cons, hp]
  have hheads : (cols.map (fun c => c.filter (fun p => rt p == T))).map List.head? = cols.map (headAt rt T) := by
    rw [List.map_map]
    apply List.map_congr_left
    intro c hc
    simp only [Function.comp]
    cases c with
    | nil => rfl
    | cons q qs =>
      by_cases hq : rt q = T
      · simp [List.filter_cons, hq, headAt]
      · have : (q :: qs).filter (fun p => rt p == T) = [] := by
          rw [List.filter_eq_nil_iff]
          intro p hp hpt
          have h1 := hge _ hc p hp
          have h2 := hsorted _ hc
          unfold colSorted at h2
          simp only [List.map_cons] at h2
          have h3 := hmin _ hc q qs rfl
          have hpt' : rt p = T := by simpa using hpt
          simp only [List.mem_cons] at hp
          rcases hp with rfl | hp
          · exact hq hpt'
          · have := (List.pairwise_cons.mp h2).1 (rt p) (List.mem_map_of_mem hp); omega
        rw [this]; simp [headAt, hq]
  have htails : (cols.map (fun c => c.filter (fun p => rt p == T))).map List.tail =
      (cols.map (dropAt rt T)).map (fun c => c.filter (fun p => rt p == T)) := by
    rw [List.map_map, List.map_map]
    apply List.map_congr_left
    intro c hc
    simp only [Function.comp]
    cases c with
    | nil => rfl
    | cons q qs =>
      by_cases hq : rt q = T
      · simp [List.filter_cons, hq, dropAt]
      · have : (q :: qs).filter (fun p => rt p == T) = [] := by
          rw [List.filter_eq_nil_iff]
          intro p hp hpt
          have h2 := hsorted _ hc
          unfold colSorted at h2
          simp only [List.map_cons] at h2
          have h3 := hmin _ hc q qs rfl
          have hpt' : rt p = T := by simpa using hpt
          simp only [List.mem_cons] at hp
          rcases hp with rfl | hp
          · exact hq hpt'
          · have := (List.pairwise_cons.mp h2).1 (rt p) (List.mem_map_of_mem hp); omega
        simp only [dropAt, hq, if_false]
        rw [this]; rfl
  have hother : ∀ t, t ≠ T → (cols.map (dropAt rt T)).map (fun c => c.filter (fun p => rt p == t)) =
      cols.map (fun c => c.filter (fun p => rt p == t)) := by
    intro t ht
    rw [List.map_map]
    apply List.map_congr_left
    intro c hc
    simp only [Function.comp]
    cases c with
    | nil => rfl
    | cons q qs =>
      by_cases hq : rt q = T
      · have : (rt q == t) = false := by simp [hq]; exact fun h => ht h.symm
        simp [dropAt, hq, List.filter_cons, this]
        exact fun h => ht h.symm
      · simp [dropAt, hq]
  -- put together
  have hrest : specRowsAt rt ts' cols = specRowsAt rt ts' (cols.map (dropAt rt T)) := by
    unfold specRowsAt
    have : ∀ (l : List Int), (∀ t ∈ l, t ≠ T) →
        l.flatMap (fun t => (rowsOf (cols.map (fun c => c.filter (fun p => rt p == t)))).map (fun r => (t, r))) =
        l.flatMap (fun t => (rowsOf ((cols.map (dropAt rt T)).map (fun c => c.filter (fun p => rt p == t)))).map (fun r => (t, r))) := by
      intro l hl
      induction l with
      | nil => rfl
      | cons t l ih =>
        simp only [List.flatMap_cons]
        rw [hother t (hl t (by simp)), ih (fun t' ht' => hl t' (by simp [ht']))]
    exact this ts' hts'_ne
  have hsup : specRowsAt rt (T :: ts') (cols.map (dropAt rt T)) = specRows rt (cols.map (dropAt rt T)) := by
    apply specRowsAt_superset
    · rw [← hts]; exact hstrict
    · intro t ht
      rw [← hts, mem_colTimes]
      rw [mem_colTimes] at ht
      obtain ⟨d, hd, p, hp, hpt⟩ := ht
      simp only [List.mem_map] at hd
      obtain ⟨c, hc, rfl⟩ := hd
      exact ⟨c, hc, p, dropAt_mem rt T c p hp, hpt⟩
  rw [← hsup]
  unfold specRows
  rw [hts]
  unfold specRowsAt
  simp only [List.flatMap_cons]
  rw [rowsOf_cons _ hX, hheads, htails]
  simp only [List.map_cons, List.cons_append]
  congr 2

/-- No point left: no row. -/
theorem specRows_empty (rt : α → Int) (cols : List (List α)) (h : ∀ c ∈ cols, c = []) : specRows rt cols = [] := by
  have : colTimes rt cols = [] := by
    cases hct : colTimes rt cols with
    | nil => rfl
    | cons t ts =>
      have : t ∈ colTimes rt cols := by rw [hct]; simp
      rw [mem_colTimes] at this
      obtain ⟨c, hc, p, hp, _⟩ := this
      rw [h c hc] at hp; simp at hp
  unfold specRows
  rw [this]; rfl

end Kap.C12
