/-
C12 — JoinIntoBatch, part B (model side): one pass of the `for i, batch := range js.values` loop inside
`BATCH_POINT`, with its back-up step. Invariant after the parents `< i` have been visited:

  * `setTime` is the least rounded head time among them,
  * `set[j]` holds parent `j`'s head exactly when that head falls on `setTime` (after a back-up at parent `i`
    every earlier head is strictly later, so nothing earlier stays),
  * `indexes[j]` = the index at the start of the pass, plus one exactly when `set[j] != nil` — this is why the
    back-up step may only give back the parents with `set[j] != nil`: the others were never advanced,
  * a parent is marked empty exactly when it was already or has no head.
-/
import Kap.Proofs.C12BatchA
namespace Kap.C12
open Spec
set_option linter.unusedSimpArgs false
set_option linter.unusedVariables false

/-! ### small list facts -/

theorem getD_set_eq {β : Type} (l : List β) (i : Nat) (a d : β) (h : i < l.length) : (l.set i a).getD i d = a := by
  simp [List.getD_eq_getElem?_getD, List.getElem?_set, h]

theorem getD_set_ne {β : Type} (l : List β) (i j : Nat) (a d : β) (h : i ≠ j) : (l.set i a).getD j d = l.getD j d := by
  simp [List.getD_eq_getElem?_getD, List.getElem?_set, h]

theorem getD_map_const {β γ : Type} (l : List β) (c d : γ) (j : Nat) (h : j < l.length) : (l.map (fun _ => c)).getD j d = c := by
  simp [List.getD_eq_getElem?_getD, List.getElem?_map, h]

theorem getD_zipWith {β γ δ : Type} (f : β → γ → δ) (l₁ : List β) (l₂ : List γ) (j : Nat) (d₁ : β) (d₂ : γ) (d : δ)
    (h₁ : j < l₁.length) (h₂ : j < l₂.length) : (List.zipWith f l₁ l₂).getD j d = f (l₁.getD j d₁) (l₂.getD j d₂) := by
  simp [List.getD_eq_getElem?_getD, List.getElem?_zipWith, h₁, h₂]

theorem count_set_true (l : List Bool) (i : Nat) (h : i < l.length) (hf : l.getD i false = false) :
    (l.set i true).count true = l.count true + 1 := by
  induction l generalizing i with
  | nil => simp at h
  | cons b bs ih =>
    cases i with
    | zero =>
      simp only [List.getD_cons_zero] at hf
      subst hf
      simp
    | succ i =>
      simp only [List.getD_cons_succ] at hf
      simp only [List.length_cons, Nat.add_lt_add_iff_right] at h
      simp only [List.set_cons_succ, List.count_cons, ih i h hf]
      omega

/-! ### what is left of every parent -/

/-- The rounded time of a batch point. -/
def brt (tol : Int) (p : BPt) : Int := goRound tol p.time

/-- What is left of parent `i`: nothing once it is marked empty, else its points from `indexes[i]` on. -/
def colOf (values : List (Option JMsg)) (E : List Bool) (I : List Nat) (i : Nat) : List BPt :=
  if E.getD i false then [] else (batchPoints (values.getD i none)).drop (I.getD i 0)

/-- The next point of parent `i`. -/
def hdOf (values : List (Option JMsg)) (E : List Bool) (I : List Nat) (i : Nat) : Option BPt := (colOf values E I i).head?

theorem hdOf_eq (values : List (Option JMsg)) (E : List Bool) (I : List Nat) (i : Nat) :
    hdOf values E I i = if E.getD i false then none else (batchPoints (values.getD i none))[I.getD i 0]? := by
  unfold hdOf colOf
  split <;> simp

/-- `setTime` after one more parent. -/
def tstep (tol : Int) (acc : Option Int) (h : Option BPt) : Option Int :=
  match h with
  | none => acc
  | some bp => some (match acc with | none => brt tol bp | some s => if brt tol bp < s then brt tol bp else s)

/-- `setTime` after the parents `< i`: the least rounded head time among them. -/
def tmin (tol : Int) (H : Nat → Option BPt) (i : Nat) : Option Int := (List.range i).foldl (fun acc j => tstep tol acc (H j)) none

theorem tmin_succ (tol : Int) (H : Nat → Option BPt) (i : Nat) : tmin tol H (i + 1) = tstep tol (tmin tol H i) (H i) := by
  unfold tmin
  rw [List.range_succ, List.foldl_append]
  rfl

theorem tmin_none (tol : Int) (H : Nat → Option BPt) (i : Nat) (h : tmin tol H i = none) : ∀ j, j < i → H j = none := by
  induction i with
  | zero => intro j hj; omega
  | succ i ih =>
    rw [tmin_succ] at h
    cases hh : H i with
    | some bp => rw [hh] at h; simp [tstep] at h
    | none =>
      rw [hh] at h
      simp only [tstep] at h
      intro j hj
      by_cases hji : j = i
      · rw [hji]; exact hh
      · exact ih h j (by omega)

theorem tmin_none_of (tol : Int) (H : Nat → Option BPt) (i : Nat) (h : ∀ j, j < i → H j = none) : tmin tol H i = none := by
  induction i with
  | zero => rfl
  | succ i ih =>
    rw [tmin_succ, h i (by omega), ih (fun j hj => h j (by omega))]
    rfl

theorem tmin_le (tol : Int) (H : Nat → Option BPt) (i : Nat) (s : Int) (h : tmin tol H i = some s) :
    ∀ j, j < i → ∀ bq, H j = some bq → s ≤ brt tol bq := by
  induction i generalizing s with
  | zero => intro j hj; omega
  | succ i ih =>
    rw [tmin_succ] at h
    intro j hj bq hbq
    cases hh : H i with
    | none =>
      rw [hh] at h
      simp only [tstep] at h
      by_cases hji : j = i
      · rw [hji, hh] at hbq; cases hbq
      · exact ih s h j (by omega) bq hbq
    | some bp =>
      rw [hh] at h
      cases ht : tmin tol H i with
      | none =>
        rw [ht] at h
        simp only [tstep, Option.some.injEq] at h
        by_cases hji : j = i
        · rw [hji, hh] at hbq; cases hbq; omega
        · have := tmin_none tol H i ht j (by omega); rw [this] at hbq; cases hbq
      | some s0 =>
        rw [ht] at h
        simp only [tstep, Option.some.injEq] at h
        by_cases hji : j = i
        · rw [hji, hh] at hbq; cases hbq
          split at h <;> omega
        · have := ih s0 ht j (by omega) bq hbq
          split at h <;> omega

theorem tmin_attained (tol : Int) (H : Nat → Option BPt) (i : Nat) (s : Int) (h : tmin tol H i = some s) :
    ∃ j, j < i ∧ ∃ bq, H j = some bq ∧ brt tol bq = s := by
  induction i generalizing s with
  | zero => simp [tmin] at h
  | succ i ih =>
    rw [tmin_succ] at h
    cases hh : H i with
    | none =>
      rw [hh] at h
      simp only [tstep] at h
      obtain ⟨j, hj, r⟩ := ih s h
      exact ⟨j, by omega, r⟩
    | some bp =>
      rw [hh] at h
      cases ht : tmin tol H i with
      | none =>
        rw [ht] at h
        simp only [tstep, Option.some.injEq] at h
        exact ⟨i, by omega, bp, hh, h⟩
      | some s0 =>
        rw [ht] at h
        simp only [tstep, Option.some.injEq] at h
        by_cases hlt : brt tol bp < s0
        · simp only [hlt, if_true] at h
          exact ⟨i, by omega, bp, hh, h⟩
        · simp only [hlt, if_false] at h
          obtain ⟨j, hj, r⟩ := ih s0 ht
          exact ⟨j, by omega, h ▸ r⟩

/-- The head of a parent if it falls on the set time. -/
def selAt (tol : Int) (T : Option Int) (h : Option BPt) : Option BPt :=
  match h with
  | some bp => if T = some (brt tol bp) then some bp else none
  | none => none

/-! ### one visit -/

/-- The part of one visit that handles a parent with a next point `bp` (the code of `batchVisit`). -/
def visitPoint (tol : Int) (st : BIter) (i : Nat) (bp : BPt) : BIter :=
  let idx := st.indexes.getD i 0
  let t := goRound tol bp.time
  let setTime := st.setTime.getD t
  if t < setTime then
    let indexes := List.zipWith (fun ix (s : Option BPt) => if s.isSome then ix - 1 else ix) st.indexes st.set
    { st with setTime := some t, set := (st.set.map (fun _ => none)).set i (some bp),
              indexes := indexes.set i (indexes.getD i 0 + 1), count := 1 }
  else if t = setTime then
    { st with setTime := some setTime, set := st.set.set i (some bp), indexes := st.indexes.set i (idx + 1),
              count := st.count + 1,
              fieldNames := match st.fieldNames with
                | some f => some f
                | none => some (bp.fields.map (·.1)) }
  else { st with setTime := some setTime }

theorem batchVisit_eq (tol : Int) (st : BIter) (i : Nat) (batch : Option JMsg) :
    batchVisit tol st i batch =
      if st.empty.getD i false then st else
      match (batchPoints batch)[st.indexes.getD i 0]? with
      | none => { st with emptyCount := st.emptyCount + 1, empty := st.empty.set i true }
      | some bp => visitPoint tol st i bp := by
  unfold batchVisit
  split
  · rfl
  · cases batch with
    | none => simp [batchPoints]
    | some b =>
      simp only [batchPoints]
      cases b.points[st.indexes.getD i 0]? with
      | none => rfl
      | some bp => rfl

/-! ### the invariant of one pass -/

/-- `fieldNames`: kept once known, else the field names of the first point seen. -/
def fnAt (fn0 : Option (List String)) (o : Option BPt) : Option (List String) :=
  match fn0 with
  | some f => some f
  | none => o.map (fun bp => bp.fields.map (·.1))

structure PInv (tol : Int) (values : List (Option JMsg)) (E : List Bool) (I : List Nat) (fn0 : Option (List String))
    (n i : Nat) (st : BIter) : Prop where
  lset : st.set.length = n
  lempty : st.empty.length = n
  lidx : st.indexes.length = n
  time : st.setTime = tmin tol (hdOf values E I) i
  set : ∀ j, j < n → st.set.getD j none = if j < i then selAt tol (tmin tol (hdOf values E I) i) (hdOf values E I j) else none
  empty : ∀ j, j < n → st.empty.getD j false = (E.getD j false || (decide (j < i) && (hdOf values E I j).isNone))
  idx : ∀ j, j < n → st.indexes.getD j 0 = I.getD j 0 + if (st.set.getD j none).isSome then 1 else 0
  count : st.count = 0 ↔ tmin tol (hdOf values E I) i = none
  ec : st.emptyCount = st.empty.count true
  fn : st.fieldNames = fnAt fn0 ((List.range i).findSome? (hdOf values E I))
  fnt : st.fieldNames = none → tmin tol (hdOf values E I) i = none

theorem findSome_range_succ {β : Type} (H : Nat → Option β) (i : Nat) :
    (List.range (i + 1)).findSome? H = ((List.range i).findSome? H).or (H i) := by
  rw [List.range_succ, List.findSome?_append]
  simp

section Step
variable {tol : Int} {values : List (Option JMsg)} {E : List Bool} {I : List Nat} {fn0 : Option (List String)} {n i : Nat} {st : BIter}

/-- Parent `i` is already marked empty: nothing changes. -/
theorem pinv_skip (h : PInv tol values E I fn0 n i st) (hi : i < n) (he : E.getD i false = true) :
    PInv tol values E I fn0 n (i + 1) st := by
  have hH : hdOf values E I i = none := by rw [hdOf_eq, he]; rfl
  have hT : tmin tol (hdOf values E I) (i + 1) = tmin tol (hdOf values E I) i := by rw [tmin_succ, hH]; rfl
  refine { lset := h.lset, lempty := h.lempty, lidx := h.lidx, time := by rw [hT]; exact h.time, set := ?_, empty := ?_,
           idx := h.idx, count := by rw [hT]; exact h.count, ec := h.ec, fn := ?_, fnt := by rw [hT]; exact h.fnt }
  · intro j hj
    rw [h.set j hj, hT]
    by_cases hji : j = i
    · subst hji; simp [hH, selAt]
    · have : (j < i + 1) ↔ (j < i) := by omega
      simp only [this]
  · intro j hj
    rw [h.empty j hj]
    by_cases hji : j = i
    · subst hji; rw [he]; simp
    · have : (j < i + 1) ↔ (j < i) := by omega
      simp only [this]
  · rw [h.fn, findSome_range_succ, hH]; simp

/-- Parent `i` has no next point: it is marked empty. -/
theorem pinv_mark (h : PInv tol values E I fn0 n i st) (hi : i < n) (he : E.getD i false = false)
    (hH : hdOf values E I i = none) :
    PInv tol values E I fn0 n (i + 1) { st with emptyCount := st.emptyCount + 1, empty := st.empty.set i true } := by
  have hT : tmin tol (hdOf values E I) (i + 1) = tmin tol (hdOf values E I) i := by rw [tmin_succ, hH]; rfl
  have hsi : st.empty.getD i false = false := by rw [h.empty i hi, he]; simp
  refine { lset := h.lset, lempty := by simp [h.lempty], lidx := h.lidx, time := by rw [hT]; exact h.time, set := ?_, empty := ?_,
           idx := h.idx, count := by rw [hT]; exact h.count, ec := ?_, fn := ?_, fnt := by rw [hT]; exact h.fnt }
  · intro j hj
    rw [h.set j hj, hT]
    by_cases hji : j = i
    · subst hji; simp [hH, selAt]
    · have : (j < i + 1) ↔ (j < i) := by omega
      simp only [this]
  · intro j hj
    by_cases hji : j = i
    · subst hji
      simp only []
      rw [getD_set_eq _ _ _ _ (by rw [h.lempty]; exact hi)]
      simp [hH]
    · simp only []
      rw [getD_set_ne _ _ _ _ _ (Ne.symm hji), h.empty j hj]
      have : (j < i + 1) ↔ (j < i) := by omega
      simp only [this]
  · simp only []
    rw [count_set_true _ _ (by rw [h.lempty]; exact hi) hsi, h.ec]
  · rw [h.fn, findSome_range_succ, hH]; simp

end Step

section Point
variable {tol : Int} {values : List (Option JMsg)} {E : List Bool} {I : List Nat} {fn0 : Option (List String)} {n i : Nat} {st : BIter}

theorem pinv_set_at (h : PInv tol values E I fn0 n i st) (hi : i < n) : st.set.getD i none = none := by
  rw [h.set i hi]; simp

theorem pinv_idx_at (h : PInv tol values E I fn0 n i st) (hi : i < n) : st.indexes.getD i 0 = I.getD i 0 := by
  rw [h.idx i hi, pinv_set_at h hi]; simp

theorem pinv_empty_at (h : PInv tol values E I fn0 n i st) (hi : i < n) : st.empty.getD i false = E.getD i false := by
  rw [h.empty i hi]; simp

/-- The empty marks after a parent that has a next point. -/
theorem pinv_empty_keep (h : PInv tol values E I fn0 n i st) (hi : i < n) (he : E.getD i false = false) (bp : BPt)
    (hH : hdOf values E I i = some bp) :
    ∀ j, j < n → st.empty.getD j false = (E.getD j false || (decide (j < i + 1) && (hdOf values E I j).isNone)) := by
  intro j hj
  rw [h.empty j hj]
  by_cases hji : j = i
  · subst hji; rw [he, hH]; simp
  · have : (j < i + 1) ↔ (j < i) := by omega
    simp only [this]

/-- The field names after a parent that has a next point, when they were already known or become known now. -/
theorem pinv_fn_keep (h : PInv tol values E I fn0 n i st) (bp : BPt) (hH : hdOf values E I i = some bp)
    (hs : st.fieldNames ≠ none) :
    st.fieldNames = fnAt fn0 ((List.range (i + 1)).findSome? (hdOf values E I)) := by
  rw [findSome_range_succ, hH]
  have := h.fn
  cases fn0 with
  | some f => exact this
  | none =>
    simp only [fnAt] at this ⊢
    cases hf : (List.range i).findSome? (hdOf values E I) with
    | none => rw [hf] at this; simp at this; exact absurd this hs
    | some b0 => rw [hf] at this; simpa using this

/-- `t == setTime`: the point joins the set. -/
theorem pinv_equal (h : PInv tol values E I fn0 n i st) (hi : i < n) (he : E.getD i false = false) (bp : BPt)
    (hH : hdOf values E I i = some bp)
    (hT' : tmin tol (hdOf values E I) (i + 1) = some (brt tol bp))
    (hsel : ∀ j, j < i → selAt tol (tmin tol (hdOf values E I) (i + 1)) (hdOf values E I j) =
      selAt tol (tmin tol (hdOf values E I) i) (hdOf values E I j)) :
    PInv tol values E I fn0 n (i + 1)
      { st with setTime := some (brt tol bp), set := st.set.set i (some bp), indexes := st.indexes.set i (st.indexes.getD i 0 + 1),
                count := st.count + 1,
                fieldNames := match st.fieldNames with
                  | some f => some f
                  | none => some (bp.fields.map (·.1)) } := by
  refine { lset := by simp [h.lset], lempty := h.lempty, lidx := by simp [h.lidx], time := hT'.symm, set := ?_,
           empty := (by intro j hj; exact pinv_empty_keep h hi he bp hH j hj), idx := ?_, count := by simp [hT'], ec := h.ec, fn := ?_, fnt := ?_ }
  · intro j hj
    simp only []
    by_cases hji : j = i
    · subst hji
      rw [getD_set_eq _ _ _ _ (by rw [h.lset]; exact hi), hT', hH]
      simp [selAt]
    · rw [getD_set_ne _ _ _ _ _ (Ne.symm hji), h.set j hj]
      by_cases hlt : j < i
      · have h2 : j < i + 1 := by omega
        simp only [hlt, h2, if_true]
        exact (hsel j hlt).symm
      · have h2 : ¬ j < i + 1 := by omega
        simp only [hlt, h2, if_false]
  · intro j hj
    simp only []
    by_cases hji : j = i
    · subst hji
      rw [getD_set_eq _ _ _ _ (by rw [h.lidx]; exact hi), getD_set_eq _ _ _ _ (by rw [h.lset]; exact hi), pinv_idx_at h hi]
      simp
    · rw [getD_set_ne _ _ _ _ _ (Ne.symm hji), getD_set_ne _ _ _ _ _ (Ne.symm hji)]
      exact h.idx j hj
  · simp only []
    cases hf : st.fieldNames with
    | some f =>
      simp only []
      rw [← hf]
      exact pinv_fn_keep h bp hH (by rw [hf]; simp)
    | none =>
      simp only []
      rw [findSome_range_succ, hH]
      have := h.fn
      rw [hf] at this
      cases fn0 with
      | some f => simp [fnAt] at this
      | none =>
        simp only [fnAt] at this ⊢
        cases hg : (List.range i).findSome? (hdOf values E I) with
        | none => simp
        | some b0 => rw [hg] at this; simp at this
  · simp only []
    intro hc
    cases hf : st.fieldNames <;> rw [hf] at hc <;> simp at hc

/-- `t` after `setTime`: the point stays for a later pass. -/
theorem pinv_later (h : PInv tol values E I fn0 n i st) (hi : i < n) (he : E.getD i false = false) (bp : BPt)
    (hH : hdOf values E I i = some bp) (s : Int) (hs : tmin tol (hdOf values E I) i = some s) (hlt : s < brt tol bp) :
    PInv tol values E I fn0 n (i + 1) { st with setTime := some s } := by
  have hT' : tmin tol (hdOf values E I) (i + 1) = some s := by
    rw [tmin_succ, hH, hs]
    simp only [tstep]
    rw [if_neg (by omega)]
  have hfs : st.fieldNames ≠ none := fun hc => by have := h.fnt hc; rw [hs] at this; cases this
  refine { lset := h.lset, lempty := h.lempty, lidx := h.lidx, time := hT'.symm, set := ?_,
           empty := (by intro j hj; exact pinv_empty_keep h hi he bp hH j hj), idx := h.idx, count := ?_, ec := h.ec,
           fn := (by have := pinv_fn_keep h bp hH hfs; exact this), fnt := fun hc => absurd hc hfs }
  · intro j hj
    simp only []
    rw [h.set j hj, hT', hs]
    by_cases hji : j = i
    · subst hji
      rw [hH]
      have : ¬ s = brt tol bp := by omega
      simp [selAt, this]
    · have : (j < i + 1) ↔ (j < i) := by omega
      simp only [this]
  · simp only []
    rw [hT', h.count, hs]

/-- `t` before `setTime`: the back-up step. Every parent with `set[j] != nil` is given back its point; the
others were never advanced in this pass. -/
theorem pinv_backup (h : PInv tol values E I fn0 n i st) (hi : i < n) (he : E.getD i false = false) (bp : BPt)
    (hH : hdOf values E I i = some bp) (s : Int) (hs : tmin tol (hdOf values E I) i = some s) (hlt : brt tol bp < s) :
    PInv tol values E I fn0 n (i + 1)
      { st with setTime := some (brt tol bp), set := (st.set.map (fun _ => none)).set i (some bp),
                indexes := (List.zipWith (fun ix (s : Option BPt) => if s.isSome then ix - 1 else ix) st.indexes st.set).set i
                  ((List.zipWith (fun ix (s : Option BPt) => if s.isSome then ix - 1 else ix) st.indexes st.set).getD i 0 + 1),
                count := 1 } := by
  have hT' : tmin tol (hdOf values E I) (i + 1) = some (brt tol bp) := by
    rw [tmin_succ, hH, hs]
    simp only [tstep]
    rw [if_pos hlt]
  have hfs : st.fieldNames ≠ none := fun hc => by have := h.fnt hc; rw [hs] at this; cases this
  have hz : ∀ j, j < n → (List.zipWith (fun ix (s : Option BPt) => if s.isSome then ix - 1 else ix) st.indexes st.set).getD j 0 = I.getD j 0 := by
    intro j hj
    rw [getD_zipWith _ _ _ _ 0 none 0 (by rw [h.lidx]; exact hj) (by rw [h.lset]; exact hj), h.idx j hj]
    split <;> simp
  refine { lset := by simp [h.lset], lempty := h.lempty, lidx := by simp [h.lidx, h.lset], time := hT'.symm, set := ?_,
           empty := (by intro j hj; exact pinv_empty_keep h hi he bp hH j hj), idx := ?_, count := by simp [hT'], ec := h.ec,
           fn := (by have := pinv_fn_keep h bp hH hfs; exact this), fnt := fun hc => absurd hc hfs }
  · intro j hj
    simp only []
    by_cases hji : j = i
    · subst hji
      rw [getD_set_eq _ _ _ _ (by simp [h.lset]; exact hi), hT', hH]
      simp [selAt]
    · rw [getD_set_ne _ _ _ _ _ (Ne.symm hji), getD_map_const _ _ _ _ (by rw [h.lset]; exact hj), hT']
      by_cases hlt2 : j < i
      · have h2 : j < i + 1 := by omega
        simp only [h2, if_true]
        cases hq : hdOf values E I j with
        | none => rfl
        | some bq =>
          have := tmin_le tol _ i s hs j hlt2 bq hq
          have : ¬ brt tol bp = brt tol bq := by omega
          simp [selAt, this]
      · have h2 : ¬ j < i + 1 := by omega
        simp only [h2, if_false]
  · intro j hj
    simp only []
    by_cases hji : j = i
    · subst hji
      rw [getD_set_eq _ _ _ _ (by simp [h.lidx, h.lset]; exact hi), getD_set_eq _ _ _ _ (by simp [h.lset]; exact hi), hz j hj]
      simp
    · rw [getD_set_ne _ _ _ _ _ (Ne.symm hji), getD_set_ne _ _ _ _ _ (Ne.symm hji), hz j hj,
        getD_map_const _ _ _ _ (by rw [h.lset]; exact hj)]
      simp

/-- One visit keeps the invariant. -/
theorem pinv_visit (h : PInv tol values E I fn0 n i st) (hi : i < n) :
    PInv tol values E I fn0 n (i + 1) (batchVisit tol st i (values.getD i none)) := by
  rw [batchVisit_eq, pinv_empty_at h hi, pinv_idx_at h hi]
  by_cases he : E.getD i false = true
  · rw [if_pos he]; exact pinv_skip h hi he
  · have he' : E.getD i false = false := by simpa using he
    rw [if_neg he]
    have hh := hdOf_eq values E I i
    rw [he'] at hh
    simp only [Bool.false_eq_true, if_false] at hh
    rw [← hh]
    cases hH : hdOf values E I i with
    | none => exact pinv_mark h hi he' hH
    | some bp =>
      simp only []
      unfold visitPoint
      simp only []
      rw [h.time]
      cases hs : tmin tol (hdOf values E I) i with
      | none =>
        have hT' : tmin tol (hdOf values E I) (i + 1) = some (brt tol bp) := by rw [tmin_succ, hH, hs]; rfl
        simp only [Option.getD_none, Int.lt_irrefl, if_false, if_true]
        refine pinv_equal h hi he' bp hH hT' ?_
        intro j hj
        rw [tmin_none tol _ i hs j hj]
        rfl
      | some s =>
        simp only [Option.getD_some]
        by_cases h1 : goRound tol bp.time < s
        · rw [if_pos h1]
          exact pinv_backup h hi he' bp hH s hs h1
        · rw [if_neg h1]
          by_cases h2 : goRound tol bp.time = s
          · rw [if_pos h2]
            have hT' : tmin tol (hdOf values E I) (i + 1) = some (brt tol bp) := by
              rw [tmin_succ, hH, hs]
              simp only [tstep]
              rw [if_neg (show ¬ brt tol bp < s from h1)]
              exact congrArg some h2.symm
            have := pinv_equal h hi he' bp hH hT' (by intro j hj; rw [hT', hs]; simp only [brt, h2])
            simp only [brt, h2] at this
            exact this
          · rw [if_neg h2]
            exact pinv_later h hi he' bp hH s hs (by simp only [brt]; omega)

end Point

/-- The whole pass keeps the invariant. -/
theorem pinv_pass (tol : Int) (values : List (Option JMsg)) (E : List Bool) (I : List Nat) (fn0 : Option (List String)) (n : Nat)
    (bs : List (Option JMsg)) (i : Nat) (st : BIter) (hb : values.drop i = bs) (hn : i + bs.length = n)
    (h : PInv tol values E I fn0 n i st) : PInv tol values E I fn0 n n (batchPass tol i bs st) := by
  induction bs generalizing i st with
  | nil =>
    simp only [List.length_nil, Nat.add_zero] at hn
    subst hn
    exact h
  | cons b bs ih =>
    simp only [List.length_cons] at hn
    simp only [batchPass]
    have hb0 : values.getD i none = b := by
      have : (values.drop i)[0]? = some b := by rw [hb]; rfl
      rw [List.getElem?_drop] at this
      simp only [Nat.add_zero] at this
      rw [List.getD_eq_getElem?_getD, this]; rfl
    have hb1 : values.drop (i + 1) = bs := by
      have : (values.drop i).drop 1 = bs := by rw [hb]; rfl
      rw [List.drop_drop] at this
      exact this
    apply ih (i + 1) _ hb1 (by omega)
    rw [← hb0]
    exact pinv_visit h (by omega)

/-- The invariant holds before the first parent. -/
theorem pinv_init (tol : Int) (values : List (Option JMsg)) (E : List Bool) (I : List Nat) (fn0 : Option (List String)) (ec : Nat)
    (hE : E.length = values.length) (hI : I.length = values.length) (hec : ec = E.count true) :
    PInv tol values E I fn0 values.length 0
      { set := values.map (fun _ => none), setTime := none, count := 0, empty := E, emptyCount := ec, indexes := I, fieldNames := fn0 } := by
  refine { lset := by simp, lempty := hE, lidx := hI, time := rfl, set := ?_, empty := ?_, idx := ?_, count := by simp [tmin],
           ec := hec, fn := ?_, fnt := fun _ => rfl }
  · intro j hj
    simp only []
    rw [getD_map_const _ _ _ _ hj]
    simp
  · intro j hj; simp
  · intro j hj
    simp only []
    rw [getD_map_const _ _ _ _ hj]
    simp
  · cases fn0 <;> simp [fnAt]

end Kap.C12
