/-
C12 — JoinIntoBatch, part C: the `BATCH_POINT` loop. Loop invariant: what the loop has emitted so far, followed
by the specification's rows over what is LEFT of every parent (`colOf`: the points from `indexes[i]` on, nothing
once the parent is marked empty), is the specification's joined batch. One pass emits the row of the heads at
the least head time and removes exactly those heads (part B), which is how the specification's rows unfold
(part A).
-/
import Kap.Proofs.C12BatchB
namespace Kap.C12
open Spec
set_option linter.unusedSimpArgs false
set_option linter.unusedVariables false

/-! ### small facts -/

theorem list_eq_range_map {β : Type} (l : List β) (n : Nat) (d : β) (f : Nat → β) (hl : l.length = n)
    (h : ∀ j, j < n → l.getD j d = f j) : l = (List.range n).map f := by
  apply List.ext_getElem?
  intro j
  simp only [List.getElem?_map, List.getElem?_range]
  by_cases hj : j < n
  · have := h j hj
    rw [List.getD_eq_getElem?_getD] at this
    have hj' : j < l.length := by omega
    rw [List.getElem?_eq_getElem hj'] at this ⊢
    simp only [Option.getD_some] at this
    simp [hj, this]
  · rw [List.getElem?_eq_none (by omega)]
    simp [hj]

theorem sum_range_le (n : Nat) (f g : Nat → Nat) (h : ∀ j, j < n → f j ≤ g j) :
    ((List.range n).map f).sum ≤ ((List.range n).map g).sum := by
  induction n with
  | zero => simp
  | succ n ih =>
    simp only [List.range_succ, List.map_append, List.sum_append, List.map_cons, List.map_nil, List.sum_cons, List.sum_nil]
    have := ih (fun j hj => h j (by omega))
    have := h n (by omega)
    omega

theorem sum_range_lt (n : Nat) (f g : Nat → Nat) (h : ∀ j, j < n → f j ≤ g j) (hlt : ∃ j, j < n ∧ f j < g j) :
    ((List.range n).map f).sum < ((List.range n).map g).sum := by
  induction n with
  | zero => obtain ⟨j, hj, _⟩ := hlt; omega
  | succ n ih =>
    simp only [List.range_succ, List.map_append, List.sum_append, List.map_cons, List.map_nil, List.sum_cons, List.sum_nil]
    obtain ⟨j, hj, hjl⟩ := hlt
    have hn := h n (by omega)
    by_cases hjn : j = n
    · subst hjn
      have := sum_range_le j f g (fun k hk => h k (by omega))
      omega
    · have := ih (fun k hk => h k (by omega)) ⟨j, by omega, hjl⟩
      omega

theorem sum_range_zero (n : Nat) (f : Nat → Nat) (h : ((List.range n).map f).sum = 0) : ∀ j, j < n → f j = 0 := by
  induction n with
  | zero => intro j hj; omega
  | succ n ih =>
    simp only [List.range_succ, List.map_append, List.sum_append, List.map_cons, List.map_nil, List.sum_cons, List.sum_nil] at h
    intro j hj
    by_cases hjn : j = n
    · subst hjn; omega
    · exact ih (by omega) j (by omega)

theorem findSome?_congr' {β γ : Type} (l : List β) (f g : β → Option γ) (h : ∀ x ∈ l, f x = g x) :
    l.findSome? f = l.findSome? g := by
  induction l with
  | nil => rfl
  | cons x xs ih =>
    simp only [List.findSome?_cons, h x (by simp), ih (fun y hy => h y (by simp [hy]))]

theorem head?_flatMap {β γ : Type} (l : List β) (f : β → List γ) : (l.flatMap f).head? = l.findSome? (fun v => (f v).head?) := by
  induction l with
  | nil => rfl
  | cons x xs ih =>
    simp only [List.flatMap_cons, List.head?_append, List.findSome?_cons, ih]
    cases (f x).head? <;> rfl

theorem findSome?_range_getD {β γ : Type} (l : List β) (d : β) (g : β → Option γ) :
    (List.range l.length).findSome? (fun j => g (l.getD j d)) = l.findSome? g := by
  have : l = (List.range l.length).map (fun j => l.getD j d) := list_eq_range_map l l.length d _ rfl (fun _ _ => rfl)
  conv => rhs; rw [this]
  rw [List.findSome?_map]
  rfl

/-! ### the joined fields of one row -/

/-- What the specification makes of one row. -/
def renderRow (cfg : JCfg) (fN : List String) (tr : Int × List (Option BPt)) : Option (Int × List (String × String)) :=
  if !tr.2.all Option.isSome && (fillToken cfg.fill).isNone then none
  else some (tr.1, fieldMap ((tr.2.zip cfg.names).flatMap (contributionB cfg fN)))

theorem batchFields_eq (cfg : JCfg) (fN : List String) (vs : List (Option BPt)) (ns : List String) (acc : List (String × String))
    (hl : vs.length ≤ ns.length) :
    batchFields cfg fN vs ns acc =
      if (!vs.all Option.isSome && (fillToken cfg.fill).isNone) then none
      else some (((vs.zip ns).flatMap (contributionB cfg fN)).foldl (fun a kv => putField kv.1 kv.2 a) acc) := by
  induction vs generalizing ns acc with
  | nil => simp [batchFields]
  | cons v vs ih =>
    cases ns with
    | nil => simp at hl
    | cons pre pres =>
      simp only [List.length_cons, Nat.add_le_add_iff_right] at hl
      cases v with
      | some p =>
        simp only [batchFields, List.zip_cons_cons, List.flatMap_cons, List.foldl_append, List.all_cons, Option.isSome_some, Bool.true_and]
        rw [ih pres _ hl]
        simp only [contributionB, List.foldl_map]
      | none =>
        cases hf : cfg.fill with
        | none =>
          rw [batchFields]
          simp only [hf]
          simp [fillToken]
        | null =>
          simp only [batchFields, hf, List.zip_cons_cons, List.flatMap_cons, List.foldl_append]
          rw [ih pres _ hl]
          simp [contributionB, List.foldl_map, hf, fillToken]
        | num tok =>
          simp only [batchFields, hf, List.zip_cons_cons, List.flatMap_cons, List.foldl_append]
          rw [ih pres _ hl]
          simp [contributionB, List.foldl_map, hf, fillToken]

/-! ### the result of one pass -/

/-- What is left of all parents. -/
def colsOf (values : List (Option JMsg)) (E : List Bool) (I : List Nat) : List (List BPt) :=
  (List.range values.length).map (colOf values E I)

/-- One pass from a loop state. -/
def passOf (tol : Int) (values : List (Option JMsg)) (E : List Bool) (ec : Nat) (I : List Nat) (fn : Option (List String)) : BIter :=
  batchPass tol 0 values
    { set := values.map (fun _ => none), setTime := none, count := 0, empty := E, emptyCount := ec, indexes := I, fieldNames := fn }

theorem passOf_inv (tol : Int) (values : List (Option JMsg)) (E : List Bool) (ec : Nat) (I : List Nat) (fn : Option (List String))
    (hE : E.length = values.length) (hI : I.length = values.length) (hec : ec = E.count true) :
    PInv tol values E I fn values.length values.length (passOf tol values E ec I fn) :=
  pinv_pass tol values E I fn values.length values 0 _ rfl (by simp) (pinv_init tol values E I fn ec hE hI hec)

theorem headAt_eq_selAt (tol : Int) (T : Int) (c : List BPt) : headAt (brt tol) T c = selAt tol (some T) c.head? := by
  cases c with
  | nil => rfl
  | cons p ps =>
    simp only [headAt, selAt, List.head?_cons]
    by_cases h : brt tol p = T
    · simp [h]
    · have : ¬ T = brt tol p := fun hc => h hc.symm
      simp [h, this]

section PassResult
variable {tol : Int} {values : List (Option JMsg)} {E : List Bool} {I : List Nat} {fn : Option (List String)} {it : BIter}

/-- After a pass the set holds the heads at the least head time. -/
theorem pass_set (P : PInv tol values E I fn values.length values.length it) (T : Int)
    (hT : tmin tol (hdOf values E I) values.length = some T) :
    it.set = (colsOf values E I).map (headAt (brt tol) T) := by
  unfold colsOf
  rw [List.map_map]
  apply list_eq_range_map it.set values.length none _ P.lset
  intro j hj
  rw [P.set j hj, hT]
  simp only [hj, if_true, Function.comp, headAt_eq_selAt]
  rfl

/-- After a pass every parent has lost its head if that was at the least head time. -/
theorem pass_col (P : PInv tol values E I fn values.length values.length it) (T : Int)
    (hT : tmin tol (hdOf values E I) values.length = some T) (j : Nat) (hj : j < values.length) :
    colOf values it.empty it.indexes j = dropAt (brt tol) T (colOf values E I j) := by
  have he := P.empty j hj
  have hi := P.idx j hj
  rw [P.set j hj, hT] at hi
  simp only [hj, if_true, decide_true, Bool.true_and] at he hi
  unfold hdOf at he hi
  unfold colOf at he hi ⊢
  rw [he, hi]
  cases hE : E.getD j false with
  | true => simp [dropAt]
  | false =>
    simp only [Bool.false_eq_true, if_false, Bool.false_or] at he hi ⊢
    cases hc : (batchPoints (values.getD j none)).drop (I.getD j 0) with
    | nil => simp [dropAt]
    | cons p ps =>
      have hps : (batchPoints (values.getD j none)).drop (I.getD j 0 + 1) = ps := by
        have : ((batchPoints (values.getD j none)).drop (I.getD j 0)).drop 1 = ps := by rw [hc]; rfl
        rw [List.drop_drop] at this
        exact this
      simp only [List.head?_cons, Option.isNone_some, Bool.false_eq_true, if_false, selAt, dropAt]
      by_cases hp : brt tol p = T
      · simp [hp]
        simpa [List.getD_eq_getElem?_getD] using hps
      · have : ¬ T = brt tol p := fun h => hp h.symm
        simp [hp, this]
        simpa [List.getD_eq_getElem?_getD] using hc

theorem pass_cols (P : PInv tol values E I fn values.length values.length it) (T : Int)
    (hT : tmin tol (hdOf values E I) values.length = some T) :
    colsOf values it.empty it.indexes = (colsOf values E I).map (dropAt (brt tol) T) := by
  unfold colsOf
  rw [List.map_map]
  apply List.map_congr_left
  intro j hj
  exact pass_col P T hT j (List.mem_range.mp hj)

/-- A pass that finds no point marks every parent empty. -/
theorem pass_all_empty (P : PInv tol values E I fn values.length values.length it)
    (hT : tmin tol (hdOf values E I) values.length = none) : it.emptyCount = values.length := by
  rw [P.ec, ← P.lempty]
  apply List.count_eq_length.mpr
  intro b hb
  obtain ⟨j, hj, rfl⟩ := List.getElem_of_mem hb
  have := P.empty j (by rw [← P.lempty]; exact hj)
  rw [List.getD_eq_getElem?_getD, List.getElem?_eq_getElem hj] at this
  simp only [Option.getD_some] at this
  rw [this, tmin_none tol _ _ hT j (by rw [← P.lempty]; exact hj)]
  have : j < values.length := by rw [← P.lempty]; exact hj
  simp [this]

end PassResult

/-- Nothing is left when every parent is marked empty. -/
theorem cols_empty_of_count (values : List (Option JMsg)) (E : List Bool) (I : List Nat) (hE : E.length = values.length)
    (h : values.length ≤ E.count true) : ∀ c ∈ colsOf values E I, c = [] := by
  have hc : E.count true = E.length := Nat.le_antisymm List.count_le_length (by omega)
  have hall := List.count_eq_length.mp hc
  intro c hcm
  unfold colsOf at hcm
  simp only [List.mem_map, List.mem_range] at hcm
  obtain ⟨j, hj, rfl⟩ := hcm
  unfold colOf
  have hj' : j < E.length := by omega
  have : E.getD j false = true := by
    rw [List.getD_eq_getElem?_getD, List.getElem?_eq_getElem hj']
    exact (hall _ (List.getElem_mem hj')).symm
  rw [if_pos this]

/-- The number of points left. -/
def leftOf (values : List (Option JMsg)) (E : List Bool) (I : List Nat) : Nat :=
  ((List.range values.length).map (fun j => (colOf values E I j).length)).sum

theorem cols_empty_of_left (values : List (Option JMsg)) (E : List Bool) (I : List Nat) (h : leftOf values E I = 0) :
    ∀ c ∈ colsOf values E I, c = [] := by
  intro c hc
  unfold colsOf at hc
  simp only [List.mem_map, List.mem_range] at hc
  obtain ⟨j, hj, rfl⟩ := hc
  exact List.length_eq_zero_iff.mp (sum_range_zero _ _ h j hj)

theorem dropAt_length_le (T : Int) (tol : Int) (c : List BPt) : (dropAt (brt tol) T c).length ≤ c.length := by
  cases c with
  | nil => simp [dropAt]
  | cons p ps => simp only [dropAt]; split <;> simp

/-! ### the loop -/

/-- The field names the specification uses for filling: those of the first point of the first non-empty batch. -/
def specFN (values : List (Option JMsg)) : List String :=
  match values.flatMap batchPoints with
  | p :: _ => p.fields.map (·.1)
  | [] => []

/-- **Loop invariant of `BATCH_POINT`**: from every loop state whose `emptyCount` counts the empty marks, whose
remaining columns are in time order and whose `fieldNames` are either the specification's or still unset
with nothing consumed, the loop appends exactly the specification's rows over what is left — given at least
as much fuel as there are points left (so the fuel never cuts the loop short). -/
theorem batchLoop_eq (cfg : JCfg) (values : List (Option JMsg)) (hlen : values.length = cfg.names.length) :
    ∀ (fuel : Nat) (E : List Bool) (ec : Nat) (I : List Nat) (fn : Option (List String)) (acc : List (Int × List (String × String))),
      E.length = values.length → I.length = values.length → ec = E.count true →
      (∀ c ∈ colsOf values E I, colSorted (brt cfg.tol) c) →
      (fn = some (specFN values) ∨ (fn = none ∧ ∀ j, j < values.length → colOf values E I j = batchPoints (values.getD j none))) →
      leftOf values E I ≤ fuel →
      batchLoop cfg values fuel E ec I fn acc =
        acc ++ (specRows (brt cfg.tol) (colsOf values E I)).filterMap (renderRow cfg (specFN values)) := by
  intro fuel
  induction fuel with
  | zero =>
    intro E ec I fn acc hE hI hec hsorted hfn hfuel
    simp only [batchLoop]
    rw [specRows_empty _ _ (cols_empty_of_left values E I (by omega))]
    simp
  | succ fuel ih =>
    intro E ec I fn acc hE hI hec hsorted hfn hfuel
    simp only [batchLoop]
    by_cases hg : ec < values.length
    · rw [if_pos hg]
      have P := passOf_inv cfg.tol values E ec I fn hE hI hec
      change PInv cfg.tol values E I fn values.length values.length (passOf cfg.tol values E ec I fn) at P
      have hpass : batchPass cfg.tol 0 values
          { set := values.map (fun _ => none), setTime := none, count := 0, empty := E, emptyCount := ec, indexes := I, fieldNames := fn } =
          passOf cfg.tol values E ec I fn := rfl
      rw [hpass]
      generalize passOf cfg.tol values E ec I fn = it at P
      cases hT : tmin cfg.tol (hdOf values E I) values.length with
      | none =>
        -- no point at all: every parent is now marked empty, nothing is emitted, the loop ends
        have hc0 : it.count = 0 := P.count.mpr hT
        have hec' := pass_all_empty P hT
        have hnone : ∀ c ∈ colsOf values E I, c = [] := by
          intro c hc
          unfold colsOf at hc
          simp only [List.mem_map, List.mem_range] at hc
          obtain ⟨j, hj, rfl⟩ := hc
          have := tmin_none cfg.tol _ _ hT j hj
          unfold hdOf at this
          exact List.head?_eq_none_iff.mp this
        rw [if_pos hc0, specRows_empty _ _ hnone]
        simp only [List.filterMap_nil, List.append_nil]
        cases fuel with
        | zero => rfl
        | succ f =>
          simp only [batchLoop]
          rw [if_neg (by omega)]
      | some T =>
        have hc0 : ¬ it.count = 0 := fun hc => by have := P.count.mp hc; rw [hT] at this; cases this
        rw [if_neg hc0]
        obtain ⟨j0, hj0, bq, hbq, hbqT⟩ := tmin_attained cfg.tol _ _ T hT
        have hset := pass_set P T hT
        have hcols := pass_cols P T hT
        have htime : it.setTime = some T := by rw [P.time, hT]
        -- the field names are the specification's by now
        have hfn' : it.fieldNames = some (specFN values) := by
          rw [P.fn]
          rcases hfn with hfn | ⟨hfn, hstart⟩
          · rw [hfn]; rfl
          · rw [hfn]
            simp only [fnAt]
            have hH : ∀ j, j < values.length → hdOf values E I j = (batchPoints (values.getD j none)).head? := by
              intro j hj; unfold hdOf; rw [hstart j hj]
            have hfs : (List.range values.length).findSome? (hdOf values E I) =
                (List.range values.length).findSome? (fun j => (batchPoints (values.getD j none)).head?) := by
              apply findSome?_congr'
              intro j hj
              exact hH j (List.mem_range.mp hj)
            rw [hfs, findSome?_range_getD values none (fun v => (batchPoints v).head?), ← head?_flatMap]
            unfold specFN
            cases hall : values.flatMap batchPoints with
            | nil =>
              -- impossible: parent j0 has a point
              have h1 := hH j0 hj0
              rw [hbq] at h1
              have : (values.flatMap batchPoints).head? = none := by rw [hall]; rfl
              rw [head?_flatMap, ← findSome?_range_getD values none (fun v => (batchPoints v).head?)] at this
              rw [List.findSome?_eq_none_iff] at this
              have := this j0 (List.mem_range.mpr hj0)
              rw [← h1] at this; cases this
            | cons p ps => rfl
        -- the specification's rows unfold in the same way
        have hstep := specRows_step (brt cfg.tol) (colsOf values E I) T hsorted
          ⟨colOf values E I j0, by unfold colsOf; exact List.mem_map_of_mem (List.mem_range.mpr hj0), by
            unfold hdOf at hbq
            cases hc : colOf values E I j0 with
            | nil => rw [hc] at hbq; cases hbq
            | cons p ps => rw [hc] at hbq; simp only [List.head?_cons, Option.some.injEq] at hbq; subst hbq; exact ⟨p, ps, rfl, hbqT⟩⟩
          (by
            intro c hc p ps hcp
            unfold colsOf at hc
            simp only [List.mem_map, List.mem_range] at hc
            obtain ⟨j, hj, rfl⟩ := hc
            exact tmin_le cfg.tol _ _ T hT j hj p (by unfold hdOf; rw [hcp]; rfl))
        -- the state after the pass satisfies the invariant with fewer points left
        have hsorted' : ∀ c ∈ colsOf values it.empty it.indexes, colSorted (brt cfg.tol) c := by
          rw [hcols]
          intro c hc
          simp only [List.mem_map] at hc
          obtain ⟨d, hd, rfl⟩ := hc
          exact dropAt_sorted _ T d (hsorted d hd)
        have hleft : leftOf values it.empty it.indexes < leftOf values E I := by
          unfold leftOf
          apply sum_range_lt
          · intro j hj
            rw [pass_col P T hT j hj]
            exact dropAt_length_le T cfg.tol _
          · refine ⟨j0, hj0, ?_⟩
            rw [pass_col P T hT j0 hj0]
            unfold hdOf at hbq
            cases hc : colOf values E I j0 with
            | nil => rw [hc] at hbq; cases hbq
            | cons p ps =>
              rw [hc] at hbq
              simp only [List.head?_cons, Option.some.injEq] at hbq
              subst hbq
              simp [dropAt, hbqT]
        have hIH := fun acc' => ih it.empty it.emptyCount it.indexes it.fieldNames acc' P.lempty P.lidx P.ec hsorted'
          (Or.inl hfn') (by omega)
        have hrender : batchFields cfg (it.fieldNames.getD []) it.set cfg.names [] =
            (renderRow cfg (specFN values) (T, (colsOf values E I).map (headAt (brt cfg.tol) T))).map (·.2) := by
          rw [batchFields_eq cfg _ _ _ _ (by rw [P.lset, hlen]; exact Nat.le_refl _), hfn', hset]
          simp only [Option.getD_some, renderRow, fieldMap]
          split <;> rfl
        rw [hstep]
        simp only [List.filterMap_cons]
        rw [hrender, htime]
        cases hr : renderRow cfg (specFN values) (T, (colsOf values E I).map (headAt (brt cfg.tol) T)) with
        | none =>
          simp only [Option.map_none]
          rw [hIH acc, hcols]
        | some row =>
          simp only [Option.map_some, Option.getD_some]
          rw [hIH, hcols]
          have hrow : row = (T, row.2) := by
            unfold renderRow at hr
            split at hr
            · cases hr
            · simp only [Option.some.injEq] at hr; rw [← hr]
          rw [List.append_assoc]
          congr 1
          rw [hrow]
          rfl
    · rw [if_neg hg]
      rw [specRows_empty _ _ (cols_empty_of_count values E I hE (by omega))]
      simp

end Kap.C12
