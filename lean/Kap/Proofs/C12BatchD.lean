/-
C12 — JoinIntoBatch, part D: `JoinIntoBatch` = the specification's joined batch; the loop's fuel is never what
ends it; and why the back-up step needs its `set[j] != nil` test.
-/
import Kap.Proofs.C12BatchC
namespace Kap.C12
open Spec
set_option linter.unusedSimpArgs false
set_option linter.unusedVariables false

theorem count_map_false {β : Type} (l : List β) : (l.map (fun _ => false)).count true = 0 := by
  induction l with
  | nil => rfl
  | cons x xs ih => simp [ih]

theorem sum_map_le {β : Type} (l : List β) (f g : β → Nat) (h : ∀ v, f v ≤ g v) : (l.map f).sum ≤ (l.map g).sum := by
  induction l with
  | nil => simp
  | cons x xs ih => simp only [List.map_cons, List.sum_cons]; have := h x; omega

theorem flatMap_id_map {β γ : Type} (l : List β) (f : β → List γ) : (l.map f).flatMap id = l.flatMap f := by
  induction l with
  | nil => rfl
  | cons x xs ih => simp only [List.map_cons, List.flatMap_cons, ih, id]

/-- The loop state `JoinIntoBatch` starts from: nothing consumed, nobody marked empty. -/
theorem colOf_start (values : List (Option JMsg)) (j : Nat) (hj : j < values.length) :
    colOf values (values.map (fun _ => false)) (values.map (fun _ => 0)) j = batchPoints (values.getD j none) := by
  unfold colOf
  rw [getD_map_const _ _ _ _ hj, getD_map_const _ _ _ _ hj]
  simp

theorem colsOf_start (values : List (Option JMsg)) :
    colsOf values (values.map (fun _ => false)) (values.map (fun _ => 0)) = values.map batchPoints := by
  unfold colsOf
  symm
  apply list_eq_range_map _ _ [] _ (by simp)
  intro j hj
  rw [colOf_start values j hj]
  simp [List.getD_eq_getElem?_getD, List.getElem?_map, hj]

theorem leftOf_start (values : List (Option JMsg)) :
    leftOf values (values.map (fun _ => false)) (values.map (fun _ => 0)) = (values.map (fun v => (batchPoints v).length)).sum := by
  unfold leftOf
  congr 1
  symm
  apply list_eq_range_map _ _ 0 _ (by simp)
  intro j hj
  rw [colOf_start values j hj]
  simp [List.getD_eq_getElem?_getD, List.getElem?_map, hj]

/-- The fuel `joinIntoBatch` hands to the loop. -/
def batchFuel (values : List (Option JMsg)) : Nat :=
  (values.map (fun v => match v with | some b => b.points.length + 1 | none => 1)).sum + 1

theorem leftOf_start_le (values : List (Option JMsg)) :
    leftOf values (values.map (fun _ => false)) (values.map (fun _ => 0)) ≤ batchFuel values := by
  rw [leftOf_start]
  unfold batchFuel
  have := sum_map_le values (fun v => (batchPoints v).length) (fun v => match v with | some b => b.points.length + 1 | none => 1)
    (by intro v; cases v <;> simp [batchPoints])
  omega

/-- The points of the specification's joined batch, in the vocabulary of parts A–C. -/
theorem joinedBatch_points (cfg : JCfg) (s : JSet JMsg) (first : JMsg) (rest : List JMsg) (h : s.values.filterMap id = first :: rest) :
    joinedBatch cfg s = some { name := if cfg.sname = "" then first.name else cfg.sname, time := s.time, byName := first.byName, tags := first.tags, points := (specRows (brt cfg.tol) (s.values.map batchPoints)).filterMap (renderRow cfg (specFN s.values)) } := by
  unfold joinedBatch
  rw [h]
  simp only [specRows, specRowsAt, colTimes, flatMap_id_map, List.map_map, Function.comp_def, specFN, brt, renderRow]
  rfl

/-- **`JoinIntoBatch` = the specification's joined batch** when the points inside every batch are in (rounded)
time order. -/
theorem joinIntoBatch_eq_joinedBatch (cfg : JCfg) (s : JSet JMsg) (hl : s.values.length = cfg.names.length)
    (hs : ∀ v ∈ s.values, nondecreasing ((batchPoints v).map (fun p => goRound cfg.tol p.time))) :
    joinIntoBatch cfg s = joinedBatch cfg s := by
  cases hh : s.values.filterMap id with
  | nil =>
    unfold joinIntoBatch joinedBatch JSet.first?
    rw [findSome?_id_eq, hh]
    rfl
  | cons first rest =>
    rw [joinedBatch_points cfg s first rest hh]
    unfold joinIntoBatch JSet.first?
    rw [findSome?_id_eq, hh]
    simp only [List.head?_cons]
    have hsorted : ∀ c ∈ colsOf s.values (s.values.map (fun _ => false)) (s.values.map (fun _ => 0)), colSorted (brt cfg.tol) c := by
      rw [colsOf_start]
      intro c hc
      simp only [List.mem_map] at hc
      obtain ⟨v, hv, rfl⟩ := hc
      exact hs _ hv
    have key : ∀ fuel, leftOf s.values (s.values.map (fun _ => false)) (s.values.map (fun _ => 0)) ≤ fuel →
        batchLoop cfg s.values fuel (s.values.map (fun _ => false)) 0 (s.values.map (fun _ => 0)) none [] =
          (specRows (brt cfg.tol) (s.values.map batchPoints)).filterMap (renderRow cfg (specFN s.values)) := by
      intro fuel hf
      have := batchLoop_eq cfg s.values hl fuel (s.values.map (fun _ => false)) 0 (s.values.map (fun _ => 0)) none []
        (by simp) (by simp) (count_map_false _).symm hsorted (Or.inr ⟨rfl, fun j hj => colOf_start s.values j hj⟩) hf
      rw [colsOf_start] at this
      rw [this]; rfl
    rw [key]
    rw [leftOf_start]
    exact Nat.le_succ_of_le (sum_map_le _ _ _ (by intro v; cases v <;> simp [batchPoints]))

/-! ### the fuel never ends the loop -/

theorem leftOf_zero_of_empty (values : List (Option JMsg)) (E : List Bool) (I : List Nat)
    (h : ∀ c ∈ colsOf values E I, c = []) : leftOf values E I = 0 := by
  unfold leftOf
  have : (List.range values.length).map (fun j => (colOf values E I j).length) = (List.range values.length).map (fun _ => 0) := by
    apply List.map_congr_left
    intro j hj
    rw [h (colOf values E I j) (by unfold colsOf; exact List.mem_map_of_mem hj)]
    rfl
  rw [this]
  generalize List.range values.length = l
  induction l with
  | nil => rfl
  | cons x xs ih => simp only [List.map_cons, List.sum_cons, ih]

theorem batchLoop_succ (cfg : JCfg) (values : List (Option JMsg)) (fuel : Nat) (E : List Bool) (ec : Nat) (I : List Nat)
    (fn : Option (List String)) (acc : List (Int × List (String × String))) :
    batchLoop cfg values (fuel + 1) E ec I fn acc =
      if ec < values.length then
        if (passOf cfg.tol values E ec I fn).count = 0 then
          batchLoop cfg values fuel (passOf cfg.tol values E ec I fn).empty (passOf cfg.tol values E ec I fn).emptyCount
            (passOf cfg.tol values E ec I fn).indexes (passOf cfg.tol values E ec I fn).fieldNames acc
        else
          match batchFields cfg ((passOf cfg.tol values E ec I fn).fieldNames.getD []) (passOf cfg.tol values E ec I fn).set cfg.names [] with
          | none => batchLoop cfg values fuel (passOf cfg.tol values E ec I fn).empty (passOf cfg.tol values E ec I fn).emptyCount
              (passOf cfg.tol values E ec I fn).indexes (passOf cfg.tol values E ec I fn).fieldNames acc
          | some fields => batchLoop cfg values fuel (passOf cfg.tol values E ec I fn).empty (passOf cfg.tol values E ec I fn).emptyCount
              (passOf cfg.tol values E ec I fn).indexes (passOf cfg.tol values E ec I fn).fieldNames
              (acc ++ [((passOf cfg.tol values E ec I fn).setTime.getD 0, fields)])
      else acc := by
  rw [batchLoop]
  rfl

/-- One more unit of fuel changes nothing once there is at least as much fuel as points left — for ANY batches
(no ordering hypothesis): every pass that finds a point consumes one, a pass that finds none marks every
parent empty, and then the loop condition `emptyCount < expected` is false. -/
theorem batchLoop_fuel_succ (cfg : JCfg) (values : List (Option JMsg)) :
    ∀ (fuel : Nat) (E : List Bool) (ec : Nat) (I : List Nat) (fn : Option (List String)) (acc : List (Int × List (String × String))),
      E.length = values.length → I.length = values.length → ec = E.count true → leftOf values E I ≤ fuel →
      batchLoop cfg values (fuel + 1) E ec I fn acc = batchLoop cfg values fuel E ec I fn acc := by
  intro fuel
  induction fuel with
  | zero =>
    intro E ec I fn acc hE hI hec hfuel
    simp only [batchLoop]
    by_cases hg : ec < values.length
    · rw [if_pos hg]
      have P := passOf_inv cfg.tol values E ec I fn hE hI hec
      have hT : tmin cfg.tol (hdOf values E I) values.length = none := by
        apply tmin_none_of
        intro j hj
        unfold hdOf
        rw [cols_empty_of_left values E I (by omega) (colOf values E I j) (by unfold colsOf; exact List.mem_map_of_mem (List.mem_range.mpr hj))]
        rfl
      have hc0 := P.count.mpr hT
      unfold passOf at hc0
      rw [if_pos hc0]
    · rw [if_neg hg]
  | succ fuel ih =>
    intro E ec I fn acc hE hI hec hfuel
    rw [batchLoop_succ cfg values (fuel + 1) E ec I fn acc, batchLoop_succ cfg values fuel E ec I fn acc]
    by_cases hg : ec < values.length
    · rw [if_pos hg, if_pos hg]
      have P := passOf_inv cfg.tol values E ec I fn hE hI hec
      generalize passOf cfg.tol values E ec I fn = it at P
      cases hT : tmin cfg.tol (hdOf values E I) values.length with
      | none =>
        have hc0 : it.count = 0 := P.count.mpr hT
        have hec' := pass_all_empty P hT
        rw [if_pos hc0, if_pos hc0]
        have hstop : ∀ f, batchLoop cfg values f it.empty it.emptyCount it.indexes it.fieldNames acc = acc := by
          intro f
          cases f with
          | zero => rfl
          | succ f => simp only [batchLoop]; rw [if_neg (by omega)]
        rw [hstop, hstop]
      | some T =>
        have hc0 : ¬ it.count = 0 := fun hc => by have := P.count.mp hc; rw [hT] at this; cases this
        rw [if_neg hc0, if_neg hc0]
        obtain ⟨j0, hj0, bq, hbq, hbqT⟩ := tmin_attained cfg.tol _ _ T hT
        have hleft : leftOf values it.empty it.indexes < leftOf values E I := by
          unfold leftOf
          apply sum_range_lt
          · intro j hj
            rw [pass_col P T hT j hj]
            exact dropAt_length_le T cfg.tol _
          · refine ⟨j0, hj0, ?_⟩
            rw [pass_col P T hT j0 hj0]
            unfold hdOf at hbq
            cases hc : colOf values E I j0 with
            | nil => rw [hc] at hbq; cases hbq
            | cons p ps =>
              rw [hc] at hbq
              simp only [List.head?_cons, Option.some.injEq] at hbq
              subst hbq
              simp [dropAt, hbqT]
        have hIH := fun acc' => ih it.empty it.emptyCount it.indexes it.fieldNames acc' P.lempty P.lidx P.ec (by omega)
        cases batchFields cfg (it.fieldNames.getD []) it.set cfg.names [] with
        | none => exact hIH acc
        | some fields => exact hIH _
    · rw [if_neg hg, if_neg hg]

/-- Any amount of extra fuel gives the same result: the loop ends because `emptyCount` reached `expected`. -/
theorem batchLoop_fuel_add (cfg : JCfg) (values : List (Option JMsg)) (fuel k : Nat)
    (h : (values.map (fun v => (batchPoints v).length)).sum ≤ fuel) :
    batchLoop cfg values (fuel + k) (values.map (fun _ => false)) 0 (values.map (fun _ => 0)) none [] =
      batchLoop cfg values fuel (values.map (fun _ => false)) 0 (values.map (fun _ => 0)) none [] := by
  induction k with
  | zero => rfl
  | succ k ih =>
    rw [← ih, ← Nat.add_assoc]
    exact batchLoop_fuel_succ cfg values (fuel + k) _ 0 _ none [] (by simp) (by simp) (count_map_false _).symm
      (by rw [leftOf_start]; omega)

/-! ### why the back-up step tests `set[j] != nil` -/

/-- `batchVisit` with the back-up step giving back EVERY parent (`indexes[j]--` without the `set[j] != nil` test). -/
def batchVisitNoCheck (tol : Int) (st : BIter) (i : Nat) (batch : Option JMsg) : BIter :=
  if st.empty.getD i false then st else
  match batch with
  | none => { st with emptyCount := st.emptyCount + 1, empty := st.empty.set i true }
  | some b =>
    let idx := st.indexes.getD i 0
    match b.points[idx]? with
    | none => { st with emptyCount := st.emptyCount + 1, empty := st.empty.set i true }
    | some bp =>
      let t := goRound tol bp.time
      let setTime := st.setTime.getD t
      if t < setTime then
        let indexes := st.indexes.map (fun ix => ix - 1)
        { st with setTime := some t, set := (st.set.map (fun _ => none)).set i (some bp),
                  indexes := indexes.set i (indexes.getD i 0 + 1), count := 1 }
      else if t = setTime then
        { st with setTime := some setTime, set := st.set.set i (some bp), indexes := st.indexes.set i (idx + 1),
                  count := st.count + 1,
                  fieldNames := match st.fieldNames with
                    | some f => some f
                    | none => some (bp.fields.map (·.1)) }
      else { st with setTime := some setTime }

def batchPassNoCheck (tol : Int) : Nat → List (Option JMsg) → BIter → BIter
  | _, [], st => st
  | i, b :: bs, st => batchPassNoCheck tol (i + 1) bs (batchVisitNoCheck tol st i b)

end Kap.C12
