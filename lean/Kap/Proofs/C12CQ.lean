/-
C12 — helper lemmas for the circular queue: index invariant and refinement to a FIFO list.
-/
import Kap.Model.C12
namespace Kap.C12
namespace CQ
variable {α : Type}

theorem filterMap_range' (f : Nat → Option α) (l : List α) (s : Nat)
    (h : ∀ i (hi : i < l.length), f (s + i) = some l[i]) : (List.range' s l.length).filterMap f = l := by
  induction l generalizing s with
  | nil => simp
  | cons x xs ih =>
    have h0 := h 0 (by simp)
    simp only [Nat.add_zero, List.getElem_cons_zero] at h0
    simp only [List.length_cons, List.range'_succ, List.filterMap_cons, h0]
    congr 1
    apply ih
    intro i hi
    have := h (i + 1) (by simp; omega)
    simpa [Nat.add_assoc, Nat.add_comm 1 i] using this

/-- The list a queue is related to is its `toList`. -/
theorem Rel.toList_eq {q : CQ α} {l : List α} (h : q.Rel l) : q.toList = l := by
  obtain ⟨hl, hs⟩ := h
  unfold toList
  rw [← hl, List.range_eq_range']
  apply filterMap_range'
  intro i hi
  simp [hs i hi]

theorem Rel.unique {q : CQ α} {l₁ l₂ : List α} (h₁ : q.Rel l₁) (h₂ : q.Rel l₂) : l₁ = l₂ := by
  rw [← h₁.toList_eq, ← h₂.toList_eq]

/-! ### NewCircularQueue -/

theorem cap_new (buf : List α) : (new buf).cap = if buf.length < 4 then 4 else buf.length := by
  unfold new cap
  by_cases h : buf.length < 4 <;> simp [h] <;> omega

theorem inv_new (buf : List α) : (new buf).Inv := by
  have hc := cap_new buf
  have h1 : (new buf).head = 0 := rfl
  have h2 : (new buf).tail = buf.length := rfl
  have h3 : (new buf).len = buf.length := rfl
  constructor <;> split at hc <;> omega

theorem rel_new (buf : List α) : (new buf).Rel buf := by
  refine ⟨rfl, ?_⟩
  intro i hi
  have hc := cap_new buf
  have hp : (new buf).phys i = i := by
    unfold phys
    have h1 : (new buf).head = 0 := rfl
    simp only [h1, Nat.zero_add]
    rw [if_neg]; split at hc <;> omega
  rw [hp]
  unfold new
  by_cases h : buf.length < 4
  · simp only [h, if_true]
    rw [List.getElem?_append_left (by simpa using hi)]
    simp [hi]
  · simp [h, hi]

/-! ### Enqueue -/

theorem inv_enqueue {q : CQ α} (h : q.Inv) (v : α) : (q.enqueue v).Inv := by
  obtain ⟨h1, h2, h3, h4, h5, h6⟩ := h
  unfold enqueue
  by_cases hc : q.cap > q.len
  · simp only [hc, if_true]
    by_cases ht : q.tail = q.cap
    · simp only [ht, if_true]
      constructor <;> simp only [cap, List.length_set] at * <;> omega
    · simp only [ht, if_false]
      constructor <;> simp only [cap, List.length_set] at * <;> omega
  · simp only [hc, if_false]
    have hlen : q.len = q.cap := by omega
    have h6' := h6 (by omega)
    have hlive : (if q.head < q.tail then (q.data.drop q.head).take (q.tail - q.head)
                else q.data.drop q.head ++ q.data.take q.tail).length = q.cap := by
      simp only [cap] at *
      split <;> simp only [List.length_take, List.length_drop, List.length_append] <;> omega
    constructor <;> simp only [cap, List.length_set, List.length_append, List.length_replicate] at * <;> omega

theorem phys_eq (q : CQ α) (i : Nat) : q.phys i = if q.head + i ≥ q.data.length then q.head + i - q.data.length else q.head + i := rfl

theorem rel_enqueue {q : CQ α} {l : List α} (h : q.Inv) (hr : q.Rel l) (v : α) : (q.enqueue v).Rel (l ++ [v]) := by
  obtain ⟨h1, h2, h3, h4, h5, h6⟩ := h
  obtain ⟨hl, hs⟩ := hr
  unfold enqueue
  simp only [cap] at h1 h2 h3 h4 h6 ⊢
  by_cases hc : q.data.length > q.len
  · simp only [hc, if_true]
    refine ⟨by simp [hl], ?_⟩
    intro i hi
    simp only [List.length_append, List.length_singleton] at hi
    -- the target slot
    have htl : ∃ tl, (if q.tail = q.data.length then 0 else q.tail) = tl ∧ tl < q.data.length ∧
        (q.len = 0 → tl = 0) ∧ (0 < q.len → (q.tail = q.data.length → tl = 0) ∧ (q.tail ≠ q.data.length → tl = q.tail)) := by
      refine ⟨_, rfl, ?_, ?_, ?_⟩
      · split <;> omega
      · intro hz; have := h5 hz; split <;> omega
      · intro _; constructor <;> intro ht <;> simp [ht]
    obtain ⟨tl, htl, htl1, htl2, htl3⟩ := htl
    rw [htl]
    simp only [phys_eq, List.length_set]
    by_cases hi' : i < q.len
    · have h6' := h6 (by omega)
      have h7 := htl3 (by omega)
      have hs' := hs i (by omega)
      rw [phys_eq] at hs'
      rw [List.getElem?_set_ne (by split <;> omega), hs']
      simp [List.getElem_append_left (by omega : i < l.length)]
    · have hi2 : i = q.len := by omega
      have he : (if q.head + i ≥ q.data.length then q.head + i - q.data.length else q.head + i) = tl := by
        by_cases hz : q.len = 0
        · have := h5 hz; have := htl2 hz; split <;> omega
        · have h6' := h6 (by omega)
          have h7 := htl3 (by omega)
          split <;> omega
      rw [he, List.getElem?_set_self htl1]
      simp [hi2, ← hl]
  · simp only [hc, if_false]
    have hlen : q.len = q.data.length := by omega
    have h6' := h6 (by omega)
    refine ⟨by simp [hl], ?_⟩
    intro i hi
    simp only [List.length_append, List.length_singleton] at hi
    generalize hlv : (if q.head < q.tail then (q.data.drop q.head).take (q.tail - q.head)
                else q.data.drop q.head ++ q.data.take q.tail) = live
    have hlive : live.length = q.data.length := by
      rw [← hlv]
      split <;> simp only [List.length_take, List.length_drop, List.length_append] <;> omega
    have hget : ∀ j, j < q.data.length → live[j]? = q.data[q.phys j]? := by
      intro j hj
      rw [← hlv, phys_eq]
      by_cases hht : q.head < q.tail
      · simp only [hht, if_true]
        have h0 : q.head = 0 := by omega
        rw [if_neg (by omega)]
        simp only [h0, List.drop_zero, Nat.zero_add, List.getElem?_take]
        rw [if_pos (by omega)]
      · simp only [hht, if_false]
        by_cases hlt : j < q.data.length - q.head
        · rw [List.getElem?_append_left (by simp only [List.length_drop]; omega)]
          rw [if_neg (by omega)]
          simp
        · rw [List.getElem?_append_right (by simp only [List.length_drop]; omega)]
          rw [if_pos (by omega)]
          simp only [List.length_drop, List.getElem?_take]
          rw [if_pos (by omega)]
          congr 1; omega
    rw [phys_eq]
    simp only [List.length_set, List.length_append, List.length_replicate, hlive, Nat.zero_add]
    rw [if_neg (by omega)]
    by_cases hi' : i < q.len
    · rw [List.getElem?_set_ne (by omega)]
      rw [List.getElem?_append_left (by omega)]
      rw [List.getElem_append_left (by omega : i < l.length)]
      rw [hget i (by omega), hs i (by omega)]
    · have hi2 : i = q.data.length := by omega
      subst hi2
      rw [List.getElem?_set_self (by simp only [List.length_append, List.length_replicate, hlive]; omega)]
      simp [← hlen, ← hl]

/-! ### Dequeue -/

theorem length_foldl_set (idx : List Nat) (d : List (Option α)) :
    (idx.foldl (fun d i => d.set i none) d).length = d.length := by
  induction idx generalizing d with
  | nil => rfl
  | cons x xs ih => simp [List.foldl_cons, ih]

theorem getElem?_foldl_set (idx : List Nat) (d : List (Option α)) (p : Nat) (hp : p ∉ idx) :
    (idx.foldl (fun d i => d.set i none) d)[p]? = d[p]? := by
  induction idx generalizing d with
  | nil => rfl
  | cons x xs ih =>
    simp only [List.mem_cons, not_or] at hp
    simp only [List.foldl_cons]
    rw [ih _ hp.2, List.getElem?_set_ne (by omega)]

/-- `Dequeue` only clears slots of the elements it removes. -/
theorem mem_clearIdx {q : CQ α} (h : q.Inv) {m p : Nat} (_hm : m ≤ q.len) (hp : p ∈ q.clearIdx m) :
    ∃ j, j < m ∧ p = q.phys j := by
  obtain ⟨h1, h2, h3, h4, h5, h6⟩ := h
  simp only [cap] at h1 h2 h3 h4 h6
  unfold clearIdx at hp
  simp only [cap] at hp
  by_cases hz : q.len = 0
  · have := h5 hz
    simp [this.1, this.2] at hp
  have h6' := h6 (by omega)
  by_cases hht : q.head > q.tail
  · simp only [hht, if_true, List.mem_append] at hp
    rcases hp with hp | hp
    · have hp1 := List.mem_of_mem_take hp
      have hp2 := List.mem_take_iff_getElem.mp hp
      obtain ⟨j, hj, hje⟩ := hp2
      simp only [List.getElem_range', Nat.one_mul] at hje
      simp only [List.length_range', Nat.lt_min] at hj
      exact ⟨j, by omega, by rw [phys_eq, if_neg (by omega)]; omega⟩
    · obtain ⟨j, hj, hje⟩ := List.mem_take_iff_getElem.mp hp
      simp only [List.getElem_range', Nat.one_mul, Nat.zero_add] at hje
      simp only [List.length_range', List.length_take, Nat.lt_min] at hj
      refine ⟨q.data.length - q.head + j, by omega, ?_⟩
      rw [phys_eq, if_pos (by omega)]; omega
  · simp only [hht, if_false] at hp
    obtain ⟨j, hj, hje⟩ := List.mem_take_iff_getElem.mp hp
    simp only [List.getElem_range', Nat.one_mul] at hje
    simp only [List.length_range', Nat.lt_min] at hj
    exact ⟨j, by omega, by rw [phys_eq, if_neg (by omega)]; omega⟩

theorem inv_dequeue {q : CQ α} (h : q.Inv) (n : Int) : (q.dequeue n).Inv := by
  unfold dequeue
  by_cases hn : n ≤ 0
  · simp only [hn, if_true]; exact h
  simp only [hn, if_false]
  obtain ⟨h1, h2, h3, h4, h5, h6⟩ := h
  simp only [cap] at h1 h2 h3 h4 h6
  generalize hm : (if q.len ≤ n.toNat then q.len else n.toNat) = m
  have hml : m ≤ q.len := by rw [← hm]; split <;> omega
  have hmp : 0 < m ∨ q.len = 0 := by rw [← hm]; split <;> omega
  by_cases hz : q.len - m = 0
  · simp only [hz, if_true]
    constructor <;> (try simp only [cap, length_foldl_set]) <;> (try simp) <;> omega
  · simp only [hz, if_false]
    have h6' := h6 (by omega)
    constructor <;> simp only [cap, length_foldl_set] <;> (try split) <;> omega

theorem rel_dequeue {q : CQ α} {l : List α} (h : q.Inv) (hr : q.Rel l) (n : Int) : (q.dequeue n).Rel (l.drop n.toNat) := by
  unfold dequeue
  by_cases hn : n ≤ 0
  · simp only [hn, if_true]
    have : n.toNat = 0 := by omega
    simpa [this] using hr
  simp only [hn, if_false]
  have hInv := h
  obtain ⟨h1, h2, h3, h4, h5, h6⟩ := h
  obtain ⟨hl, hs⟩ := hr
  simp only [cap] at h1 h2 h3 h4 h6
  generalize hm : (if q.len ≤ n.toNat then q.len else n.toNat) = m
  have hml : m ≤ q.len := by rw [← hm]; split <;> omega
  by_cases hz : q.len - m = 0
  · simp only [hz, if_true]
    have : l.drop n.toNat = [] := by
      apply List.drop_eq_nil_of_le
      rw [← hm] at hz; split at hz <;> omega
    rw [this]
    exact ⟨rfl, by intro i hi; simp at hi⟩
  · simp only [hz, if_false]
    have hmn : m = n.toNat := by rw [← hm] at hz ⊢; split <;> split at hz <;> omega
    have h6' := h6 (by omega)
    refine ⟨by simp [hl, hmn], ?_⟩
    intro i hi
    simp only [List.length_drop] at hi
    rw [phys_eq]
    simp only [length_foldl_set, cap]
    have hpe : (if (if q.head + m > q.data.length then q.head + m - q.data.length else q.head + m) + i ≥ q.data.length then
          (if q.head + m > q.data.length then q.head + m - q.data.length else q.head + m) + i - q.data.length
        else (if q.head + m > q.data.length then q.head + m - q.data.length else q.head + m) + i) = q.phys (m + i) := by
      rw [phys_eq]; split <;> split <;> split <;> omega
    rw [hpe, getElem?_foldl_set, hs (m + i) (by omega)]
    · simp [hmn]
    · intro hmem
      obtain ⟨j, hj, hje⟩ := mem_clearIdx hInv hml hmem
      rw [phys_eq, phys_eq] at hje
      split at hje <;> split at hje <;> omega

/-! ### Peek and Len -/

theorem rel_len {q : CQ α} {l : List α} (hr : q.Rel l) : q.len = l.length := hr.1.symm

theorem rel_peek {q : CQ α} {l : List α} (hr : q.Rel l) (i : Int) :
    q.peek i = if i < 0 ∨ i ≥ q.len then none else some l[i.toNat]? := by
  unfold peek
  split
  · rfl
  · rename_i hi
    have : i.toNat < l.length := by have := hr.1; omega
    rw [hr.2 _ this]
    simp [this]

/-! ### Reachable states (`Good`) and the list they stand for -/

theorem good_new (buf : List α) : (new buf).Good ∧ (new buf).toList = buf := by
  have hr := rel_new buf
  have he := hr.toList_eq
  exact ⟨⟨inv_new buf, by rw [he]; exact hr⟩, he⟩

theorem good_enqueue {q : CQ α} (h : q.Good) (v : α) :
    (q.enqueue v).Good ∧ (q.enqueue v).toList = q.toList ++ [v] := by
  have hr := rel_enqueue h.1 h.2 v
  have he := hr.toList_eq
  exact ⟨⟨inv_enqueue h.1 v, by rw [he]; exact hr⟩, he⟩

theorem good_dequeue {q : CQ α} (h : q.Good) (n : Int) :
    (q.dequeue n).Good ∧ (q.dequeue n).toList = q.toList.drop n.toNat := by
  have hr := rel_dequeue h.1 h.2 n
  have he := hr.toList_eq
  exact ⟨⟨inv_dequeue h.1 n, by rw [he]; exact hr⟩, he⟩

end CQ

/-! ### The circular queue restricted to its reachable states, as the queue of the union node -/

/-- Laws of a FIFO queue in terms of `toList`. -/
class LawfulQueue (Q : Type) (α : outParam Type) [QueueLike Q α] : Prop where
  toList_empty : QueueLike.toList (QueueLike.empty : Q) = ([] : List α)
  len_eq : ∀ q : Q, QueueLike.len q = (QueueLike.toList q).length
  toList_enq : ∀ (q : Q) (v : α), QueueLike.toList (QueueLike.enq q v) = QueueLike.toList q ++ [v]
  toList_deq : ∀ (q : Q) (n : Nat), QueueLike.toList (QueueLike.deq q n) = (QueueLike.toList q).drop n

/-- A `CircularQueue` in a reachable state. -/
def WCQ (α : Type) : Type := { q : CQ α // q.Good }

instance wcqQueue {α : Type} : QueueLike (WCQ α) α where
  empty := ⟨CQ.new [], (CQ.good_new []).1⟩
  len q := q.1.len
  toList q := q.1.toList
  enq q v := ⟨q.1.enqueue v, (CQ.good_enqueue q.2 v).1⟩
  deq q n := ⟨q.1.dequeue n, (CQ.good_dequeue q.2 n).1⟩

instance wcqLawful {α : Type} : LawfulQueue (WCQ α) α where
  toList_empty := (CQ.good_new []).2
  len_eq q := CQ.rel_len q.2.2
  toList_enq q v := (CQ.good_enqueue q.2 v).2
  toList_deq q n := by
    have := (CQ.good_dequeue q.2 (n : Int)).2
    simp only [Int.toNat_natCast] at this
    exact this

end Kap.C12
