/-
C12 — helper lemmas for the join node.
-/
import Kap.Spec.C12
namespace Kap.C12
end Kap.C12
