/-
C12 — helper lemmas for the join node: the minimum-key bookkeeping (`oldestTime` is always the least time
with pending sets), hence no nil dereference, no fuel exhaustion and a complete flush on Finish; and
monotonicity of `time.Time.Round`.
-/
import Kap.Spec.C12

namespace Kap.C12
set_option linter.unusedSimpArgs false

/-! ### the Go map as an association list -/

def minStep {β : Type} (acc : Option Int) (p : Int × β) : Option Int :=
  match acc with | none => some p.1 | some o => if p.1 < o then some p.1 else some o

theorem minKey_eq {β : Type} (m : List (Int × β)) : minKey m = m.foldl minStep none := rfl

/-- The fold that computes the minimum key, from any start value: the result is the start value or a key, is
at most the start value and at most every key. -/
theorem foldl_minStep {β : Type} (m : List (Int × β)) (acc : Option Int) :
    (m = [] → m.foldl minStep acc = acc) ∧
    (∀ a, acc = some a → ∃ r, m.foldl minStep acc = some r ∧ r ≤ a) ∧
    (∀ p ∈ m, ∃ r, m.foldl minStep acc = some r ∧ r ≤ p.1) ∧
    (m.foldl minStep acc = acc ∨ ∃ p ∈ m, m.foldl minStep acc = some p.1) := by
  induction m generalizing acc with
  | nil => exact ⟨fun _ => rfl, fun a h => ⟨a, h, Int.le_refl _⟩, by simp, Or.inl rfl⟩
  | cons x xs ih =>
    simp only [List.foldl_cons]
    obtain ⟨_, i2, i3, i4⟩ := ih (minStep acc x)
    have hstep : ∃ s, minStep acc x = some s ∧ s ≤ x.1 ∧ (∀ a, acc = some a → s ≤ a) ∧ (s = x.1 ∨ acc = some s) := by
      unfold minStep
      cases acc with
      | none => exact ⟨x.1, rfl, Int.le_refl _, by simp, Or.inl rfl⟩
      | some o =>
        by_cases h : x.1 < o
        · exact ⟨x.1, by simp [h], Int.le_refl _, by intro a ha; cases ha; omega, Or.inl rfl⟩
        · exact ⟨o, by simp [h], by omega, by intro a ha; cases ha; omega, Or.inr rfl⟩
    obtain ⟨s, hs, hs1, hs2, hs3⟩ := hstep
    obtain ⟨r, hr, hr1⟩ := i2 s hs
    refine ⟨by simp, ?_, ?_, ?_⟩
    · intro a ha; exact ⟨r, hr, by have := hs2 a ha; omega⟩
    · intro p hp
      simp only [List.mem_cons] at hp
      rcases hp with rfl | hp
      · exact ⟨r, hr, by omega⟩
      · exact i3 p hp
    · rcases i4 with h | ⟨p, hp, h⟩
      · rcases hs3 with h3 | h3
        · right; exact ⟨x, by simp, by rw [h, hs, h3]⟩
        · left; rw [h, hs, h3]
      · right; exact ⟨p, by simp [hp], h⟩

theorem alookup_isSome_of_mem {β : Type} (m : List (Int × β)) (p : Int × β) (hp : p ∈ m) : (alookup p.1 m).isSome := by
  induction m with
  | nil => simp at hp
  | cons x xs ih =>
    obtain ⟨k, v⟩ := x
    simp only [alookup]
    by_cases h : k = p.1
    · simp [h]
    · simp only [h, if_false]
      simp only [List.mem_cons] at hp
      rcases hp with rfl | hp
      · simp at h
      · exact ih hp

/-- The minimum key is a key. -/
theorem minKey_isSome_lookup {β : Type} (m : List (Int × β)) (o : Int) (h : minKey m = some o) : (alookup o m).isSome := by
  rw [minKey_eq] at h
  rcases (foldl_minStep m none).2.2.2 with h0 | ⟨p, hp, hpe⟩
  · rw [h] at h0; cases h0
  · rw [h] at hpe; cases hpe; exact alookup_isSome_of_mem m p hp

theorem minKey_nil_iff {β : Type} (m : List (Int × β)) : minKey m = none ↔ m = [] := by
  constructor
  · intro h
    cases m with
    | nil => rfl
    | cons x xs =>
      obtain ⟨r, hr, _⟩ := (foldl_minStep (x :: xs) none).2.2.1 x (by simp)
      rw [minKey_eq] at h; rw [h] at hr; cases hr
  · intro h; subst h; rfl

end Kap.C12

namespace Kap.C12
set_option linter.unusedSimpArgs false

theorem minStep_fst {β : Type} (acc : Option Int) (k : Int) (v w : β) : minStep acc (k, v) = minStep acc (k, w) := rfl

theorem foldl_aupsert {β : Type} (t : Int) (q : β) (m : List (Int × β)) (acc : Option Int) :
    (aupsert t q m).foldl minStep acc = minStep (m.foldl minStep acc) (t, q) := by
  induction m generalizing acc with
  | nil => rfl
  | cons x xs ih =>
    obtain ⟨k, v⟩ := x
    simp only [aupsert]
    by_cases h : k = t
    · subst h
      simp only [if_true, List.foldl_cons]
      rw [minStep_fst acc k q v]
      -- the fold from a start ≤ k stays ≤ k
      have hs : ∃ s, minStep acc (k, v) = some s ∧ s ≤ k := by
        unfold minStep
        cases acc with
        | none => exact ⟨k, rfl, Int.le_refl _⟩
        | some o => by_cases h : k < o
                    · exact ⟨k, by simp [h], Int.le_refl _⟩
                    · exact ⟨o, by simp [h], by simp at h; omega⟩
      obtain ⟨s, hs1, hs2⟩ := hs
      obtain ⟨r, hr, hr1⟩ := (foldl_minStep xs (minStep acc (k, v))).2.1 s hs1
      rw [hr]
      simp only [minStep]
      rw [if_neg (by omega)]
    · simp only [h, if_false, List.foldl_cons]
      exact ih _

theorem takeWhile_true {β : Type} (q : List β) : q.takeWhile (fun _ => true) = q := by
  induction q with
  | nil => rfl
  | cons x xs ih => simp [List.takeWhile_cons, ih]

theorem aerase_length_lt {β : Type} (o : Int) (m : List (Int × β)) (h : (alookup o m).isSome) :
    (aerase o m).length < m.length := by
  unfold aerase
  induction m with
  | nil => simp [alookup] at h
  | cons x xs ih =>
    obtain ⟨k, v⟩ := x
    by_cases hk : k = o
    · subst hk
      simp only [List.filter_cons, ne_eq, not_true_eq_false, decide_false, Bool.false_eq_true, if_false, List.length_cons]
      exact Nat.lt_succ_of_le (List.length_filter_le _ _)
    · have h' : (alookup o xs).isSome := by simpa [alookup, hk] using h
      have := ih h'
      simp only [List.filter_cons, ne_eq, hk, not_false_eq_true, decide_true, if_true, List.length_cons]
      exact Nat.succ_lt_succ this

theorem aupsert_length_eq {β : Type} (o : Int) (q : β) (m : List (Int × β)) (h : (alookup o m).isSome) :
    (aupsert o q m).length = m.length := by
  induction m with
  | nil => simp [alookup] at h
  | cons x xs ih =>
    obtain ⟨k, v⟩ := x
    simp only [aupsert]
    by_cases hk : k = o
    · simp [hk]
    · have : (alookup o xs).isSome := by simpa [alookup, hk] using h
      simp [hk, ih this]

namespace JGroup
variable {α : Type}

/-- `oldestTime` is the least time that has pending sets (zero when there is none). -/
def KeyInv (g : JGroup α) : Prop := g.oldest = minKey g.sets

theorem keyInv_new (n : Nat) : (JGroup.new n : JGroup α).KeyInv := rfl

/-- `emit` never panics from a state satisfying `KeyInv`, never runs out of fuel, keeps `KeyInv`, never adds a
pending time, and removes at least one when it was allowed to emit non-ready sets. -/
theorem emit_ok (fuel : Nat) (g : JGroup α) (only : Bool) (out : List (JSet α)) (h : g.KeyInv) (hf : g.sets.length < fuel) :
    (emit fuel g only out).2.2 = .ok ∧ (emit fuel g only out).1.KeyInv ∧
    (emit fuel g only out).1.sets.length ≤ g.sets.length ∧
    (only = false → g.sets ≠ [] → (emit fuel g only out).1.sets.length < g.sets.length) := by
  induction fuel generalizing g only out with
  | zero => omega
  | succ fuel ih =>
    simp only [emit]
    by_cases he : g.sets.isEmpty
    · simp only [he, if_true]
      exact ⟨by trivial, h, Nat.le_refl _, fun _ hn => absurd (List.isEmpty_iff.mp he) hn⟩
    · simp only [he, if_false]
      have hne : g.sets ≠ [] := by intro hc; simp [hc] at he
      have ho : ∃ o, g.oldest = some o := by
        cases hh : g.oldest with
        | none => rw [h] at hh; exact absurd ((minKey_nil_iff _).mp hh) hne
        | some o => exact ⟨o, rfl⟩
      obtain ⟨o, ho⟩ := ho
      have hl := minKey_isSome_lookup g.sets o (by rw [← h, ho])
      rw [ho]
      simp only []
      cases hq : alookup o g.sets with
      | none => rw [hq] at hl; simp at hl
      | some q =>
        simp only []
        by_cases hon : only = true
        · subst hon
          simp only [Bool.not_true, Bool.false_eq_true, if_false]
          refine ⟨by trivial, by unfold KeyInv; trivial, ?_, by intro hc; cases hc⟩
          split
          · exact Nat.le_of_lt (aerase_length_lt o g.sets hl)
          · rw [aupsert_length_eq o _ g.sets hl]; exact Nat.le_refl _
        · have hof : only = false := by cases only <;> simp_all
          subst hof
          simp only [Bool.not_false, Bool.or_true, takeWhile_true, if_true, Bool.false_eq_true, if_false]
          have hlt := aerase_length_lt o g.sets hl
          obtain ⟨r1, r2, r3, _⟩ := ih { g with sets := aerase o g.sets, oldest := minKey (aerase o g.sets) }
            (checkOnlyReady { g with sets := aerase o g.sets, oldest := minKey (aerase o g.sets) }) (out ++ q.take q.length)
            rfl (by simp only []; omega)
          refine ⟨r1, r2, ?_, fun _ _ => ?_⟩
          · simp only [] at r3; omega
          · simp only [] at r3; omega

theorem checkAndEmit_ok (g : JGroup α) (h : g.KeyInv) :
    (checkAndEmit g).2.2 = .ok ∧ (checkAndEmit g).1.KeyInv := by
  have := emit_ok g.fuelFor g g.checkOnlyReady [] h (by simp [fuelFor])
  exact ⟨this.1, this.2.1⟩

theorem collect_ok (expected : Nat) (g : JGroup α) (src : Nat) (t : Int) (p : α) (h : g.KeyInv) :
    (collect expected g src t p).2.2 = .ok ∧ (collect expected g src t p).1.KeyInv := by
  unfold collect
  apply checkAndEmit_ok
  unfold KeyInv at h ⊢
  simp only []
  rw [minKey_eq, foldl_aupsert, ← minKey_eq, ← h]
  rfl

theorem barrier_ok (g : JGroup α) (src : Nat) (t : Int) (h : g.KeyInv) :
    (barrier g src t).2.2 = .ok ∧ (barrier g src t).1.KeyInv := by
  unfold barrier
  exact checkAndEmit_ok _ h

theorem emitAll_ok (fuel : Nat) (g : JGroup α) (out : List (JSet α)) (h : g.KeyInv) (hf : g.sets.length ≤ fuel) :
    (emitAll fuel g out).2.2 = .ok ∧ (emitAll fuel g out).1.sets = [] := by
  induction fuel generalizing g out with
  | zero =>
    have : g.sets = [] := List.length_eq_zero_iff.mp (by omega)
    simp [emitAll, this]
  | succ fuel ih =>
    simp only [emitAll]
    by_cases he : g.sets.isEmpty
    · simp only [he, if_true]; exact ⟨by trivial, List.isEmpty_iff.mp he⟩
    · simp only [he, if_false]
      have hne : g.sets ≠ [] := by intro hc; simp [hc] at he
      obtain ⟨e1, e2, _, e4⟩ := emit_ok g.fuelFor g false out h (by simp [fuelFor])
      have e4' := e4 rfl hne
      generalize hr : emit g.fuelFor g false out = r at e1 e2 e4'
      obtain ⟨g', out', st⟩ := r
      simp only [] at e1 e2 e4'
      subst e1
      simp only []
      exact ih g' out' e2 (by omega)

/-- **Finish flushes**: from any state satisfying `KeyInv`, `emitAll` ends without panic with no pending set. -/
theorem finish_ok (g : JGroup α) (h : g.KeyInv) : (finish g).2.2 = .ok ∧ (finish g).1.sets = [] :=
  emitAll_ok _ g [] h (by omega)

end JGroup
end Kap.C12

namespace Kap.C12
namespace JNode

def NodeInv (nd : JNode) : Prop := ∀ p ∈ nd.groups, p.2.KeyInv

theorem glookup_mem (k : String) (gs : List (String × JGroup JMsg)) (g : JGroup JMsg) (h : glookup k gs = some g) :
    (k, g) ∈ gs := by
  induction gs with
  | nil => simp [glookup] at h
  | cons x xs ih =>
    obtain ⟨k', v⟩ := x
    simp only [glookup] at h
    by_cases hk : k' = k
    · simp only [hk, if_true, Option.some.injEq] at h; subst h; simp [hk]
    · simp only [hk, if_false] at h; simp [ih h]

theorem gupsert_all (P : JGroup JMsg → Prop) (k : String) (v : JGroup JMsg) (gs : List (String × JGroup JMsg))
    (h : ∀ p ∈ gs, P p.2) (hv : P v) : ∀ p ∈ gupsert k v gs, P p.2 := by
  induction gs with
  | nil => intro p hp; simp only [gupsert, List.mem_singleton] at hp; subst hp; exact hv
  | cons x xs ih =>
    obtain ⟨k', v'⟩ := x
    simp only [gupsert]
    by_cases hk : k' = k
    · simp only [hk, if_true]
      intro p hp
      simp only [List.mem_cons] at hp
      rcases hp with rfl | hp
      · exact hv
      · exact h p (by simp [hp])
    · simp only [hk, if_false]
      intro p hp
      simp only [List.mem_cons] at hp
      rcases hp with rfl | hp
      · exact h _ (by simp)
      · exact ih (fun p hp => h p (by simp [hp])) p hp

theorem group_keyInv (cfg : JCfg) (nd : JNode) (id : String) (h : nd.NodeInv) : (nd.group cfg id).KeyInv := by
  unfold group
  cases hg : glookup id nd.groups with
  | none => exact JGroup.keyInv_new _
  | some g => exact h _ (glookup_mem _ _ _ hg)

theorem step_ok (cfg : JCfg) (nd : JNode) (op : JOp) (h : nd.NodeInv) :
    (nd.step cfg op).2.2 = .ok ∧ (nd.step cfg op).1.NodeInv := by
  cases op with
  | point src m =>
    have := JGroup.collect_ok cfg.names.length (nd.group cfg m.grp) src (goRound cfg.tol m.time) m (group_keyInv cfg nd m.grp h)
    exact ⟨this.1, gupsert_all _ _ _ _ h this.2⟩
  | barrier src grp t =>
    have := JGroup.barrier_ok (nd.group cfg grp) src (goRound cfg.tol t) (group_keyInv cfg nd grp h)
    exact ⟨this.1, gupsert_all _ _ _ _ h this.2⟩

/-- Dropping a group keeps every remaining group's bookkeeping invariant. -/
theorem delete_nodeInv (nd : JNode) (grp : String) (h : nd.NodeInv) : (nd.delete grp).NodeInv := by
  intro p hp
  simp only [delete, List.mem_filter] at hp
  exact h p hp.1

theorem runOps_ok (cfg : JCfg) (ops : List JOp) (nd : JNode) (h : nd.NodeInv) :
    (nd.runOps cfg ops).2.2 = .ok ∧ (nd.runOps cfg ops).1.NodeInv := by
  induction ops generalizing nd with
  | nil => exact ⟨rfl, h⟩
  | cons op ops ih =>
    simp only [runOps]
    obtain ⟨s1, s2⟩ := step_ok cfg nd op h
    obtain ⟨r1, r2⟩ := ih _ s2
    refine ⟨?_, r2⟩
    rw [s1, r1]; rfl

theorem finish_ok (gs : List (String × JGroup JMsg)) (h : ∀ p ∈ gs, p.2.KeyInv) :
    (finish gs).2.2 = .ok ∧ ∀ p ∈ (finish gs).1, p.2.sets = [] := by
  induction gs with
  | nil => exact ⟨rfl, by intro p hp; simp [finish] at hp⟩
  | cons x xs ih =>
    obtain ⟨k, g⟩ := x
    obtain ⟨f1, f2⟩ := JGroup.finish_ok g (h (k, g) (by simp))
    obtain ⟨i1, i2⟩ := ih (fun p hp => h p (by simp [hp]))
    simp only [finish]
    refine ⟨by rw [f1, i1]; rfl, ?_⟩
    intro p hp
    simp only [List.mem_cons] at hp
    rcases hp with rfl | hp
    · exact f2
    · exact i2 p hp

end JNode
end Kap.C12
namespace Kap.C12

/-- `time.Time.Round` is monotone: a parent that delivers in time order delivers in rounded-time order. -/
theorem goRound_mono (d t t' : Int) (h : t ≤ t') : goRound d t ≤ goRound d t' := by
  unfold goRound
  by_cases hd : d ≤ 0
  · simp [hd, h]
  · simp only [hd, if_false]
    have hd' : 0 < d := by omega
    generalize ha : t + unixToAbs = a
    generalize ha' : t' + unixToAbs = a'
    have hle : a ≤ a' := by omega
    have e1 := Int.emod_add_mul_ediv a d
    have e2 := Int.emod_add_mul_ediv a' d
    have r1 := Int.emod_nonneg a (by omega : d ≠ 0)
    have r2 := Int.emod_lt_of_pos a hd'
    have r1' := Int.emod_nonneg a' (by omega : d ≠ 0)
    have r2' := Int.emod_lt_of_pos a' hd'
    have hq := Int.ediv_le_ediv hd' hle
    generalize hX : d * (a / d) = X at e1
    generalize hX' : d * (a' / d) = X' at e2
    have hXX : X = X' ∨ X + d ≤ X' := by
      by_cases hqq : a / d = a' / d
      · left; rw [← hX, ← hX', hqq]
      · right
        have : a / d + 1 ≤ a' / d := by omega
        have := Int.mul_le_mul_of_nonneg_left this (by omega : 0 ≤ d)
        rw [Int.mul_add, Int.mul_one] at this
        omega
    split <;> split <;> omega

end Kap.C12

namespace Kap.C12
open Spec
set_option linter.unusedSimpArgs false

/-! ### JoinIntoPoint = the joined point of the spec -/

theorem joinFields_eq (cfg : JCfg) (first : JMsg) (vs : List (Option JMsg)) (ns : List String) (acc : List (String × String))
    (hl : vs.length ≤ ns.length) :
    joinFields cfg first.fields vs ns acc =
      if (!vs.all Option.isSome && (fillToken cfg.fill).isNone) then none
      else some (((vs.zip ns).flatMap (contribution cfg first)).foldl (fun a kv => putField kv.1 kv.2 a) acc) := by
  induction vs generalizing ns acc with
  | nil => simp [joinFields]
  | cons v vs ih =>
    cases ns with
    | nil => simp at hl
    | cons pre pres =>
      simp only [List.length_cons, Nat.add_le_add_iff_right] at hl
      cases v with
      | some p =>
        simp only [joinFields, List.zip_cons_cons, List.flatMap_cons, List.foldl_append, List.all_cons, Option.isSome_some, Bool.true_and]
        rw [ih pres _ hl]
        simp only [contribution, List.foldl_map]
      | none =>
        cases hf : cfg.fill with
        | none =>
          rw [joinFields]
          simp only [hf]
          simp [fillToken]
        | null =>
          simp only [joinFields, hf, List.zip_cons_cons, List.flatMap_cons, List.foldl_append]
          rw [ih pres _ hl]
          simp [contribution, List.foldl_map, hf, fillToken]
        | num tok =>
          simp only [joinFields, hf, List.zip_cons_cons, List.flatMap_cons, List.foldl_append]
          rw [ih pres _ hl]
          simp [contribution, List.foldl_map, hf, fillToken]

theorem findSome?_id_eq {β : Type} (l : List (Option β)) : l.findSome? id = (l.filterMap id).head? := by
  induction l with
  | nil => rfl
  | cons x xs ih =>
    cases x with
    | none => simp only [List.findSome?_cons, List.filterMap_cons, id]; exact ih
    | some v => simp only [List.findSome?_cons, List.filterMap_cons, id, List.head?_cons]

/-- `JoinIntoPoint` (the loop with its early `return nil`) computes exactly the joined point of the spec. -/
theorem joinIntoPoint_eq_joinedPoint (cfg : JCfg) (s : JSet JMsg) (hl : s.values.length ≤ cfg.names.length) :
    joinIntoPoint cfg s = joinedPoint cfg s := by
  unfold joinIntoPoint joinedPoint JSet.first?
  rw [findSome?_id_eq]
  cases hh : s.values.filterMap id with
  | nil => rfl
  | cons first rest =>
    simp only [List.head?_cons]
    rw [joinFields_eq cfg first s.values cfg.names [] hl]
    by_cases hc : (!s.values.all Option.isSome && (fillToken cfg.fill).isNone) = true
    · simp [hc]
    · simp only [hc, Bool.false_eq_true, if_false]
      rfl

end Kap.C12
