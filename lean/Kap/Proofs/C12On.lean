/-
C12 — helper lemmas for join.on(): matchPoints only ever calls `Collect` of join groups, so the groups'
bookkeeping invariant, totality and the flush on Finish carry over.
-/
import Kap.Model.C12On
import Kap.Proofs.C12Join
namespace Kap.C12
namespace JOn
set_option linter.unusedVariables false

theorem sendAll_ok (f : JNode → (Nat × JMsg) → JNode × List (JSet JMsg) × Status)
    (hf : ∀ nd x, nd.NodeInv → (f nd x).2.2 = .ok ∧ (f nd x).1.NodeInv)
    (l : List (Nat × JMsg)) (nd : JNode) (h : nd.NodeInv) :
    (sendAll f nd l).2.2 = .ok ∧ (sendAll f nd l).1.NodeInv := by
  induction l generalizing nd with
  | nil => exact ⟨rfl, h⟩
  | cons x xs ih =>
    obtain ⟨a, b⟩ := hf nd x h
    obtain ⟨c, d⟩ := ih _ b
    simp only [sendAll]
    exact ⟨by rw [a, c]; rfl, d⟩

theorem point_node_ok (cfg : JCfg) (nd : JNode) (src : Nat) (m : JMsg) (h : nd.NodeInv) :
    (nd.point cfg src m).2.2 = .ok ∧ (nd.point cfg src m).1.NodeInv :=
  JNode.step_ok cfg nd (.point src m) h

theorem sendSpecific_ok (cfg : JCfg) (nd : JNode) (x : Nat × JMsg) (h : nd.NodeInv) :
    (sendSpecific cfg nd x).2.2 = .ok ∧ (sendSpecific cfg nd x).1.NodeInv := point_node_ok cfg nd x.1 x.2 h

theorem sendMatch_ok (cfg : JCfg) (nd : JNode) (sp ma : Nat × JMsg) (h : nd.NodeInv) :
    (sendMatch cfg nd sp ma).2.2 = .ok ∧ (sendMatch cfg nd sp ma).1.NodeInv := by
  unfold sendMatch
  obtain ⟨a, b⟩ := point_node_ok cfg nd sp.1 sp.2 h
  obtain ⟨c, d⟩ := point_node_ok cfg (nd.point cfg sp.1 sp.2).1 ma.1
    { ma.2 with tags := groupTags sp.2, dims := sp.2.dims, byName := sp.2.byName, grp := sp.2.grp } b
  simp only []
  exact ⟨by rw [a, c]; rfl, d⟩

theorem purge_ok (cfg : JCfg) (st : JOn) (ar : Bool) (lowMark : Option Int) (gid : String) (h : st.node.NodeInv) :
    (purge cfg st ar lowMark gid).2.2.1 = .ok ∧ (purge cfg st ar lowMark gid).1.NodeInv := by
  unfold purge
  split
  · split
    · exact sendAll_ok _ (sendSpecific_ok cfg) _ _ h
    · exact ⟨rfl, h⟩
  · exact ⟨rfl, h⟩

theorem specMatch_ok (cfg : JCfg) (st : JOn) (nd : JNode) (ar : Bool) (lowMark : Option Int) (gid : String)
    (src : Nat) (m : JMsg) (t : Int) (h : nd.NodeInv) :
    (specMatch cfg st nd ar lowMark gid src m t).2.2.1 = .ok ∧ (specMatch cfg st nd ar lowMark gid src m t).1.NodeInv := by
  unfold specMatch
  split
  · exact sendAll_ok _ (fun nd x hn => sendMatch_ok cfg nd (src, m) x hn) _ _ h
  · exact ⟨rfl, h⟩

/-- `matchPoints` never makes a join group fail and keeps every group's bookkeeping invariant. -/
theorem point_ok (cfg : JCfg) (st : JOn) (src : Nat) (m : JMsg) (specific : Bool) (gid : String) (h : st.node.NodeInv) :
    (st.point cfg src m specific gid).2.2 = .ok ∧ (st.point cfg src m specific gid).1.node.NodeInv := by
  unfold point
  simp only []
  generalize (if (st.allReported || st.reported.contains src) = true then st.reported else st.reported ++ [src]) = rep
  generalize (st.allReported || rep.length == cfg.parents) = ar
  generalize (if ar = true then lowMarkOf cfg.parents gid (lmUpsert (src, gid) (goRound cfg.tol m.time) st.lowMarks) else none) = lowMark
  generalize hp : purge cfg st ar lowMark gid = p
  obtain ⟨p1, p2⟩ : p.2.2.1 = .ok ∧ p.1.NodeInv := by rw [← hp]; exact purge_ok _ _ _ _ _ h
  cases specific with
  | true =>
    simp only [if_true]
    generalize hq : specMatch cfg st p.1 ar lowMark gid src m (goRound cfg.tol m.time) = q
    obtain ⟨q1, q2⟩ : q.2.2.1 = .ok ∧ q.1.NodeInv := by rw [← hq]; exact specMatch_ok _ _ _ _ _ _ _ _ _ p2
    cases hm : q.2.2.2.1 with
    | true => simp only [if_true]; exact ⟨by rw [p1, q1]; rfl, q2⟩
    | false =>
      simp only [Bool.false_eq_true, if_false]
      cases hb : (ar && beforeMark (goRound cfg.tol m.time) lowMark) with
      | true =>
        simp only [if_true]
        obtain ⟨r1, r2⟩ := sendSpecific_ok cfg q.1 (src, m) q2
        exact ⟨by rw [p1, q1, r1]; rfl, r2⟩
      | false =>
        simp only [Bool.false_eq_true, if_false]
        exact ⟨by rw [p1, q1]; rfl, q2⟩
  | false =>
    simp only [Bool.false_eq_true, if_false]
    cases hb : bufLookup gid p.2.2.2 with
    | some buf =>
      simp only []
      obtain ⟨r1, r2⟩ := sendAll_ok _ (fun nd x hn => sendMatch_ok cfg nd x (src, m) hn)
        (buf.takeWhile (fun x => goRound cfg.tol x.2.time = goRound cfg.tol m.time)) p.1 p2
      exact ⟨by rw [p1, r1]; rfl, r2⟩
    | none => simp only []; exact ⟨p1, p2⟩

theorem runArrivals_ok (cfg : JCfg) (l : List (Nat × JMsg × Bool × String)) (st : JOn) (h : st.node.NodeInv) :
    (runArrivals cfg st l).2.2 = .ok ∧ (runArrivals cfg st l).1.node.NodeInv := by
  induction l generalizing st with
  | nil => exact ⟨rfl, h⟩
  | cons a rest ih =>
    obtain ⟨a1, a2⟩ := point_ok cfg st a.1 a.2.1 a.2.2.1 a.2.2.2 h
    obtain ⟨b1, b2⟩ := ih _ a2
    simp only [runArrivals]
    exact ⟨by rw [a1, b1]; rfl, b2⟩

/-- With `on()` too: no failure for any arrival order, and after `Finish` no group has a pending set and no
specific point is left in the cache. -/
theorem run_ok (cfg : JCfg) (l : List (Nat × JMsg × Bool × String)) :
    (run cfg l).2.2 = .ok ∧ (∀ p ∈ (run cfg l).1.node.groups, p.2.sets = []) ∧ (∀ p ∈ (run cfg l).1.specBuf, p.2 = []) := by
  obtain ⟨a1, a2⟩ := runArrivals_ok cfg l {} (by intro p hp; simp [JNode.init] at hp)
  unfold run finish
  simp only []
  obtain ⟨s1, s2⟩ := sendAll_ok _ (sendSpecific_ok cfg) ((runArrivals cfg {} l).1.specBuf.flatMap (·.2)) _ a2
  obtain ⟨f1, f2⟩ := JNode.finish_ok _ s2
  refine ⟨by rw [a1, s1, f1]; rfl, f2, ?_⟩
  intro p hp
  simp only [List.mem_map] at hp
  obtain ⟨_, _, rfl⟩ := hp
  rfl

end JOn
end Kap.C12
