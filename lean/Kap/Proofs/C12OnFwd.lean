/-
C12 — join.on(): `matchPoints` is a transducer in front of the join groups. No decision of `matchPoints`
depends on the state of the groups, so a whole run with `on()` IS a run of the plain join node on the list of
points `matchPoints` forwards (`JOn.forwarded`: a specific point alone, or a specific point followed by its
re-tagged match point; at Finish the specific points still cached) — and the pairing theorem of the plain
join applies to that list.
-/
import Kap.Proofs.C12On
import Kap.Proofs.C12PairL
namespace Kap.C12
open Spec
set_option linter.unusedSimpArgs false
set_option linter.unusedVariables false

theorem Status.and_ok (s : Status) : s.and .ok = s := by cases s <;> rfl
theorem Status.and_assoc (a b c : Status) : (a.and b).and c = a.and (b.and c) := by cases a <;> rfl

/-- The arrivals at the plain join node that correspond to forwarded points. -/
def feedOps (xs : List (Nat × JMsg)) : List JOp := xs.map (fun p => JOp.point p.1 p.2)

theorem pointsOf_feedOps (xs : List (Nat × JMsg)) : pointsOf (feedOps xs) = xs := by
  induction xs with
  | nil => rfl
  | cons x xs ih =>
    have : pointsOf (feedOps (x :: xs)) = (x.1, x.2) :: pointsOf (feedOps xs) := rfl
    rw [this, ih]

namespace JNode

theorem runOps_append (cfg : JCfg) (nd : JNode) (a b : List JOp) :
    runOps cfg nd (a ++ b) =
      ((runOps cfg (runOps cfg nd a).1 b).1, (runOps cfg nd a).2.1 ++ (runOps cfg (runOps cfg nd a).1 b).2.1,
       (runOps cfg nd a).2.2.and (runOps cfg (runOps cfg nd a).1 b).2.2) := by
  induction a generalizing nd with
  | nil => simp [runOps, Status.and]
  | cons op ops ih =>
    simp only [List.cons_append, runOps, ih, List.append_assoc, Status.and_assoc]

end JNode

namespace JOn

/-- `sendMatchPoint`: the matched point takes the specific point's group. -/
def retag (sp ma : Nat × JMsg) : JMsg :=
  { ma.2 with tags := groupTags sp.2, dims := sp.2.dims, byName := sp.2.byName, grp := sp.2.grp }

/-- What `sendMatchPoint(specific, matched)` hands to the groups. -/
def matchOps (sp ma : Nat × JMsg) : List (Nat × JMsg) := [sp, (ma.1, retag sp ma)]

theorem sendSpecific_eq (cfg : JCfg) (nd : JNode) (x : Nat × JMsg) :
    sendSpecific cfg nd x = JNode.runOps cfg nd (feedOps [x]) := by
  simp [sendSpecific, feedOps, JNode.runOps, JNode.step, Status.and_ok]

theorem sendMatch_eq (cfg : JCfg) (nd : JNode) (sp ma : Nat × JMsg) :
    sendMatch cfg nd sp ma = JNode.runOps cfg nd (feedOps (matchOps sp ma)) := by
  simp [sendMatch, feedOps, matchOps, retag, JNode.runOps, JNode.step, Status.and_ok]

theorem sendAll_eq (cfg : JCfg) (f : JNode → (Nat × JMsg) → JNode × List (JSet JMsg) × Status) (g : Nat × JMsg → List (Nat × JMsg))
    (hf : ∀ nd x, f nd x = JNode.runOps cfg nd (feedOps (g x))) (nd : JNode) (xs : List (Nat × JMsg)) :
    sendAll f nd xs = JNode.runOps cfg nd (feedOps (xs.flatMap g)) := by
  induction xs generalizing nd with
  | nil => rfl
  | cons x xs ih =>
    simp only [sendAll, List.flatMap_cons, feedOps, List.map_append]
    have h1 := hf nd x
    have h2 := ih (f nd x).1
    simp only [feedOps] at h1 h2
    rw [JNode.runOps_append, ← h1, ← h2]

/-- The cached specific points `matchPoints` sends alone first ("can now be sent alone"). -/
def purged (cfg : JCfg) (st : JOn) (allReported : Bool) (lowMark : Option Int) (gid : String) : List (Nat × JMsg) :=
  if allReported then
    match bufLookup gid st.specBuf with
    | some buf => buf.takeWhile (fun x => beforeMark (goRound cfg.tol x.2.time) lowMark)
    | none => []
  else []

theorem purge_eq (cfg : JCfg) (st : JOn) (ar : Bool) (lowMark : Option Int) (gid : String) :
    (purge cfg st ar lowMark gid).1 = (JNode.runOps cfg st.node (feedOps (purged cfg st ar lowMark gid))).1 ∧
    (purge cfg st ar lowMark gid).2.1 = (JNode.runOps cfg st.node (feedOps (purged cfg st ar lowMark gid))).2.1 ∧
    (purge cfg st ar lowMark gid).2.2.1 = (JNode.runOps cfg st.node (feedOps (purged cfg st ar lowMark gid))).2.2 := by
  unfold purge purged
  cases ar with
  | false => simp [feedOps, JNode.runOps]
  | true =>
    simp only [if_true]
    cases bufLookup gid st.specBuf with
    | none => simp [feedOps, JNode.runOps]
    | some buf =>
      simp only []
      rw [sendAll_eq cfg (sendSpecific cfg) (fun x => [x]) (sendSpecific_eq cfg)]
      simp [List.flatMap_singleton']

/-- The cached match points a specific point is sent with. -/
def matchedOf (cfg : JCfg) (st : JOn) (lowMark : Option Int) (gid : String) (t : Int) : List (Nat × JMsg) :=
  match bufLookup gid st.matchBuf with
  | some mts => (searchMatches cfg.tol t lowMark mts 0 []).2
  | none => []

theorem specMatch_eq (cfg : JCfg) (st : JOn) (nd : JNode) (ar : Bool) (lowMark : Option Int) (gid : String) (src : Nat) (m : JMsg) (t : Int) :
    (specMatch cfg st nd ar lowMark gid src m t).1 = (JNode.runOps cfg nd (feedOps ((matchedOf cfg st lowMark gid t).flatMap (matchOps (src, m))))).1 ∧
    (specMatch cfg st nd ar lowMark gid src m t).2.1 = (JNode.runOps cfg nd (feedOps ((matchedOf cfg st lowMark gid t).flatMap (matchOps (src, m))))).2.1 ∧
    (specMatch cfg st nd ar lowMark gid src m t).2.2.1 = (JNode.runOps cfg nd (feedOps ((matchedOf cfg st lowMark gid t).flatMap (matchOps (src, m))))).2.2 ∧
    (specMatch cfg st nd ar lowMark gid src m t).2.2.2.1 = !(matchedOf cfg st lowMark gid t).isEmpty := by
  unfold specMatch matchedOf
  cases bufLookup gid st.matchBuf with
  | none => simp [feedOps, JNode.runOps]
  | some mts =>
    simp only []
    rw [sendAll_eq cfg (fun nd ma => sendMatch cfg nd (src, m) ma) (matchOps (src, m)) (fun nd x => sendMatch_eq cfg nd (src, m) x)]
    simp

/-- **What one call of `matchPoints` hands to the groups**, in order: the purged specific points alone; then for a
specific point its matches (the point, then the re-tagged match point), or the point alone when it is already
behind the low mark; for a match point the cached specific points of its time, each followed by the re-tagged
match point. Computed from the buffers and low marks only. -/
def fwdOf (cfg : JCfg) (st : JOn) (src : Nat) (m : JMsg) (specific : Bool) (gid : String) : List (Nat × JMsg) :=
  let reported := if st.allReported || st.reported.contains src then st.reported else st.reported ++ [src]
  let allReported := st.allReported || reported.length == cfg.parents
  let t := goRound cfg.tol m.time
  let lowMarks := lmUpsert (src, gid) t st.lowMarks
  let lowMark := if allReported then lowMarkOf cfg.parents gid lowMarks else none
  let p := purged cfg st allReported lowMark gid
  if specific then
    let ms := matchedOf cfg st lowMark gid t
    if !ms.isEmpty then p ++ ms.flatMap (matchOps (src, m))
    else if allReported && beforeMark t lowMark then p ++ [(src, m)]
    else p
  else
    match bufLookup gid (purge cfg st allReported lowMark gid).2.2.2 with
    | some buf => p ++ (buf.takeWhile (fun x => goRound cfg.tol x.2.time = t)).flatMap (fun sp => matchOps sp (src, m))
    | none => p

theorem point_eq (cfg : JCfg) (st : JOn) (src : Nat) (m : JMsg) (specific : Bool) (gid : String) :
    (st.point cfg src m specific gid).1.node = (JNode.runOps cfg st.node (feedOps (fwdOf cfg st src m specific gid))).1 ∧
    (st.point cfg src m specific gid).2.1 = (JNode.runOps cfg st.node (feedOps (fwdOf cfg st src m specific gid))).2.1 ∧
    (st.point cfg src m specific gid).2.2 = (JNode.runOps cfg st.node (feedOps (fwdOf cfg st src m specific gid))).2.2 := by
  unfold JOn.point fwdOf
  simp only []
  generalize hrep : (if (st.allReported || st.reported.contains src) = true then st.reported else st.reported ++ [src]) = reported
  generalize har : (st.allReported || reported.length == cfg.parents) = ar
  generalize hlm : (if ar = true then lowMarkOf cfg.parents gid (lmUpsert (src, gid) (goRound cfg.tol m.time) st.lowMarks) else none) = lowMark
  obtain ⟨p1, p2, p3⟩ := purge_eq cfg st ar lowMark gid
  cases specific with
  | true =>
    simp only [if_true]
    obtain ⟨q1, q2, q3, q4⟩ := specMatch_eq cfg st (purge cfg st ar lowMark gid).1 ar lowMark gid src m (goRound cfg.tol m.time)
    rw [q4]
    by_cases hm : (!(matchedOf cfg st lowMark gid (goRound cfg.tol m.time)).isEmpty) = true
    · simp only [hm, if_true]
      simp only [feedOps, List.map_append] at *
      rw [JNode.runOps_append, ← p1, ← p2, ← p3, ← q1, ← q2, ← q3]
      exact ⟨rfl, rfl, rfl⟩
    · simp only [hm, Bool.false_eq_true, if_false]
      by_cases hb : (ar && beforeMark (goRound cfg.tol m.time) lowMark) = true
      · simp only [hb, if_true]
        have hms : matchedOf cfg st lowMark gid (goRound cfg.tol m.time) = [] := by
          cases h : matchedOf cfg st lowMark gid (goRound cfg.tol m.time) with
          | nil => rfl
          | cons x xs => rw [h] at hm; simp at hm
        rw [hms] at q1 q2 q3
        simp only [List.flatMap_nil, feedOps, List.map_nil, JNode.runOps] at q1 q2 q3
        simp only [feedOps, List.map_append] at *
        rw [JNode.runOps_append, ← p1, ← p2, ← p3, q1, q2, q3]
        have := sendSpecific_eq cfg (purge cfg st ar lowMark gid).1 (src, m)
        simp only [feedOps] at this
        rw [← this]
        simp [Status.and_ok]
      · simp only [hb, Bool.false_eq_true, if_false]
        have hms : matchedOf cfg st lowMark gid (goRound cfg.tol m.time) = [] := by
          cases h : matchedOf cfg st lowMark gid (goRound cfg.tol m.time) with
          | nil => rfl
          | cons x xs => rw [h] at hm; simp at hm
        rw [hms] at q1 q2 q3
        simp only [List.flatMap_nil, feedOps, List.map_nil, JNode.runOps] at q1 q2 q3
        rw [q1, q2, q3, p1, p2, p3]
        simp [Status.and_ok]
  | false =>
    simp only [Bool.false_eq_true, if_false]
    cases hb : bufLookup gid (purge cfg st ar lowMark gid).2.2.2 with
    | none =>
      simp only []
      exact ⟨p1, p2, p3⟩
    | some buf =>
      simp only []
      rw [sendAll_eq cfg (fun nd sp => sendMatch cfg nd sp (src, m)) (fun sp => matchOps sp (src, m)) (fun nd x => sendMatch_eq cfg nd x (src, m))]
      simp only [feedOps, List.map_append] at *
      rw [JNode.runOps_append, ← p1, ← p2, ← p3]
      exact ⟨rfl, rfl, rfl⟩

/-- Everything `matchPoints` hands to the groups over the arrivals, from a given state. -/
def forwardedFrom (cfg : JCfg) : JOn → List (Nat × JMsg × Bool × String) → List (Nat × JMsg)
  | _, [] => []
  | st, a :: rest => fwdOf cfg st a.1 a.2.1 a.2.2.1 a.2.2.2 ++ forwardedFrom cfg (st.point cfg a.1 a.2.1 a.2.2.1 a.2.2.2).1 rest

theorem runArrivals_eq (cfg : JCfg) (st : JOn) (arr : List (Nat × JMsg × Bool × String)) :
    (runArrivals cfg st arr).1.node = (JNode.runOps cfg st.node (feedOps (forwardedFrom cfg st arr))).1 ∧
    (runArrivals cfg st arr).2.1 = (JNode.runOps cfg st.node (feedOps (forwardedFrom cfg st arr))).2.1 ∧
    (runArrivals cfg st arr).2.2 = (JNode.runOps cfg st.node (feedOps (forwardedFrom cfg st arr))).2.2 := by
  induction arr generalizing st with
  | nil => exact ⟨rfl, rfl, rfl⟩
  | cons a rest ih =>
    obtain ⟨a1, a2, a3⟩ := point_eq cfg st a.1 a.2.1 a.2.2.1 a.2.2.2
    obtain ⟨i1, i2, i3⟩ := ih (st.point cfg a.1 a.2.1 a.2.2.1 a.2.2.2).1
    simp only [runArrivals, forwardedFrom, feedOps, List.map_append] at *
    rw [JNode.runOps_append, ← a1, ← a2, ← a3, ← i1, ← i2, ← i3]
    exact ⟨rfl, rfl, rfl⟩

/-- **Everything a run with `on()` hands to the join groups**: what `matchPoints` forwards over the arrivals, then
(Finish) the specific points still cached. -/
def forwarded (cfg : JCfg) (arr : List (Nat × JMsg × Bool × String)) : List (Nat × JMsg) :=
  forwardedFrom cfg {} arr ++ (runArrivals cfg {} arr).1.specBuf.flatMap (·.2)

/-- A run with `on()` emits exactly the join sets the plain join node emits on the forwarded points. -/
theorem run_eq_node_run (cfg : JCfg) (arr : List (Nat × JMsg × Bool × String)) :
    (run cfg arr).2.1 = (JNode.run cfg (feedOps (forwarded cfg arr))).2.1 := by
  obtain ⟨r1, r2, r3⟩ := runArrivals_eq cfg {} arr
  unfold run JOn.finish JNode.run forwarded
  simp only []
  rw [sendAll_eq cfg (sendSpecific cfg) (fun x => [x]) (sendSpecific_eq cfg)]
  simp only [feedOps, List.map_append, List.flatMap_singleton'] at *
  rw [JNode.runOps_append, r1, r2]
  simp only [List.append_assoc]

end JOn
end Kap.C12
