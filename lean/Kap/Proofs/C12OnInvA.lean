/-
C12 — join.on(): tools for the invariants of `matchPoints`: the claimed domain in pairwise form, uniqueness of the
general partner, blocks of specific points without / with partner, lists in (rounded) time order under
`takeWhile`/`dropWhile`, what the search loop of the specific-point branch computes on an ordered match buffer, the
low mark of two parents.
-/
import Kap.Proofs.C12OnViewA
import Kap.Proofs.C12OnSpecB
namespace Kap.C12
open Spec
set_option linter.unusedSimpArgs false
set_option linter.unusedVariables false

namespace OnP
open JOn

/-- A buffered point as the arrival it came from (buffers of `specificGroupsBuffer[gid]`). -/
def toArr (gid : String) (x : Nat × JMsg) : OnArrival := ⟨x.1, x.2, true, gid⟩

/-- Rounded time of a buffered point. -/
def rtP (cfg : JCfg) (x : Nat × JMsg) : Int := goRound cfg.tol x.2.time

/-- The claimed domain (`Spec.onDomain`) in the form the invariants use. -/
structure Dom (cfg : JCfg) (arr : List OnArrival) : Prop where
  par : cfg.parents = 2
  src_lt : ∀ a ∈ arr, a.src < 2
  kind : ∀ a ∈ arr, ∀ b ∈ arr, a.src = b.src → a.specific = b.specific
  one : ∀ a ∈ arr, ∀ b ∈ arr, a.specific = true → b.specific = true → a.src = b.src
  gen : ∀ a ∈ arr, ∀ b ∈ arr, a.specific = true → b.specific = true → a.msg.grp = b.msg.grp → a.general = b.general
  uniq : arr.Pairwise (fun a b => a.specific = false → b.specific = false → a.general = b.general → rtA cfg a ≠ rtA cfg b)
  ord : arr.Pairwise (fun a b => a.src = b.src → a.general = b.general → rtA cfg a ≤ rtA cfg b)

theorem dom_of_onDomain (cfg : JCfg) (arr : List OnArrival) (h : onDomain cfg arr) : Dom cfg arr := by
  obtain ⟨h1, h2, h3, h4, h5, h6, h7⟩ := h
  refine ⟨h1, fun a ha => h1 ▸ h2 a ha, h3, h4, h5, ?_, ?_⟩
  · rw [List.nodup_iff_pairwise_ne, List.pairwise_map, List.pairwise_filter] at h6
    refine h6.imp ?_
    intro a b hab ha hb hg hr
    exact hab (by simp [ha]) (by simp [hb]) (by unfold rtA at hr; rw [hg, hr])
  · rw [List.pairwise_iff_forall_sublist]
    intro a b hsub hs hg
    have ha : a ∈ arr := hsub.subset (by simp)
    have hb : b ∈ arr := hsub.subset (by simp)
    have := h7 a.src (h2 a ha) a.general (by rw [mem_distinct]; exact List.mem_map.mpr ⟨a, ha, rfl⟩)
    unfold nondecreasing at this
    rw [List.pairwise_map, List.pairwise_filter, List.pairwise_iff_forall_sublist] at this
    exact this hsub (by simp) (by simp [hs, hg])

theorem cross {β : Type} {R : β → β → Prop} {l l1 l2 : List β} (h : l.Pairwise R) (e : l = l1 ++ l2) {x y : β}
    (hx : x ∈ l1) (hy : y ∈ l2) : R x y := (List.pairwise_append.mp (e ▸ h)).2.2 x hx y hy

theorem find?_unique {β : Type} (p : β → Bool) (l : List β) (b : β)
    (hp : l.Pairwise (fun x y => p x = true → p y = true → False)) (hb : b ∈ l) (hpb : p b = true) : l.find? p = some b := by
  induction l with
  | nil => simp at hb
  | cons x xs ih =>
    rw [List.pairwise_cons] at hp
    by_cases hx : p x = true
    · rw [List.find?_cons_of_pos hx]
      rcases List.mem_cons.mp hb with h | h
      · rw [h]
      · exact absurd hpb (fun hh => hp.1 b h hx hh)
    · rw [List.find?_cons_of_neg hx]
      rcases List.mem_cons.mp hb with h | h
      · rw [h] at hpb; exact absurd hpb hx
      · exact ih hp.2 h

/-- On the domain the partner of a specific arrival is THE general arrival of its general group and rounded time. -/
theorem partner_some (cfg : JCfg) (arr : List OnArrival) (hd : Dom cfg arr) (a b : OnArrival) (hb : b ∈ arr)
    (h1 : b.specific = false) (h2 : b.src ≠ a.src) (h3 : b.general = a.general) (h4 : rtA cfg b = rtA cfg a) :
    partnerOf cfg arr a = some b := by
  unfold partnerOf
  apply find?_unique
  · refine hd.uniq.imp ?_
    intro x y hxy hx hy
    simp only [Bool.and_eq_true, Bool.not_eq_true', beq_iff_eq, bne_iff_ne] at hx hy
    exact hxy hx.1.1.1 hy.1.1.1 (by rw [hx.1.2, hy.1.2]) (by unfold rtA; rw [hx.2, hy.2])
  · exact hb
  · unfold rtA at h4
    simp [h1, h2, h3, h4]

theorem partner_none (cfg : JCfg) (arr : List OnArrival) (c : OnArrival)
    (h : ∀ b ∈ arr, b.specific = false → b.general = c.general → rtA cfg b ≠ rtA cfg c) : partnerOf cfg arr c = none := by
  unfold partnerOf
  rw [List.find?_eq_none]
  intro b hb hp
  simp only [Bool.and_eq_true, Bool.not_eq_true', beq_iff_eq, bne_iff_ne] at hp
  exact h b hb hp.1.1.1 hp.1.2 hp.2

/-- Cached specific points that have no partner are forwarded alone. -/
theorem blocks_alone (cfg : JCfg) (arr : List OnArrival) (gid : String) (l : List (Nat × JMsg))
    (h : ∀ y ∈ l, ∀ b ∈ arr, b.specific = false → b.general = gid → rtA cfg b ≠ rtP cfg y) :
    (l.map (toArr gid)).flatMap (block cfg arr) = l := by
  induction l with
  | nil => rfl
  | cons y ys ih =>
    rw [List.map_cons, List.flatMap_cons, ih (fun z hz => h z (by simp [hz]))]
    have : partnerOf cfg arr (toArr gid y) = none := partner_none cfg arr _ (fun b hb h1 h2 => h y (by simp) b hb h1 h2)
    simp only [block, this]
    rfl

/-- Cached specific points sent with the match point `b`. -/
theorem blocks_matched (cfg : JCfg) (arr : List OnArrival) (gid : String) (b : OnArrival) (l : List (Nat × JMsg))
    (h : ∀ y ∈ l, partnerOf cfg arr (toArr gid y) = some b) :
    (l.map (toArr gid)).flatMap (block cfg arr) = l.flatMap (fun sp => matchOps sp (b.src, b.msg)) := by
  induction l with
  | nil => rfl
  | cons y ys ih =>
    rw [List.map_cons, List.flatMap_cons, List.flatMap_cons, ih (fun z hz => h z (by simp [hz]))]
    congr 1
    simp only [block, h y (by simp)]
    rfl

/-! ### lists in time order -/

theorem drop_length_takeWhile {β : Type} (p : β → Bool) (l : List β) : l.drop (l.takeWhile p).length = l.dropWhile p := by
  induction l with
  | nil => rfl
  | cons x xs ih => by_cases h : p x <;> simp [List.takeWhile_cons, List.dropWhile_cons, h, ih]

theorem takeWhile_eq_self {β : Type} (p : β → Bool) (l : List β) (h : ∀ x ∈ l, p x = true) : l.takeWhile p = l := by
  induction l with
  | nil => rfl
  | cons x xs ih =>
    rw [List.takeWhile_cons, h x (by simp)]
    simp [ih (fun y hy => h y (by simp [hy]))]

theorem mem_takeWhile {β : Type} (p : β → Bool) (l : List β) : ∀ x ∈ l.takeWhile p, x ∈ l ∧ p x = true := by
  intro x hx
  exact ⟨(List.takeWhile_sublist p).subset hx, takeWhile_all p l x hx⟩

theorem mem_take_or_drop {β : Type} (k : Nat) (l : List β) (x : β) (h : x ∈ l) : x ∈ l.take k ∨ x ∈ l.drop k := by
  rw [← List.take_append_drop k l] at h
  exact List.mem_append.mp h

/-- After dropping the points before `v` from a list in time order, everything left is at or after `v`. -/
theorem dropWhile_lt_ge (cfg : JCfg) (v : Int) (l : List (Nat × JMsg)) (hs : l.Pairwise (fun x y => rtP cfg x ≤ rtP cfg y)) :
    ∀ y ∈ l.dropWhile (fun x => decide (rtP cfg x < v)), v ≤ rtP cfg y := by
  induction l with
  | nil => simp
  | cons x xs ih =>
    rw [List.pairwise_cons] at hs
    by_cases h : rtP cfg x < v
    · simp only [List.dropWhile_cons, h, decide_true, if_true]
      exact ih hs.2
    · simp only [List.dropWhile_cons, h, decide_false, Bool.false_eq_true, if_false]
      intro y hy
      rcases List.mem_cons.mp hy with rfl | hy
      · omega
      · have := hs.1 y hy; omega

/-- After dropping the points AT `t` from a list in time order that starts at or after `t`, everything left is after `t`. -/
theorem dropWhile_eq_gt (cfg : JCfg) (t : Int) (l : List (Nat × JMsg)) (hs : l.Pairwise (fun x y => rtP cfg x ≤ rtP cfg y))
    (hge : ∀ y ∈ l, t ≤ rtP cfg y) : ∀ y ∈ l.dropWhile (fun x => decide (rtP cfg x = t)), t < rtP cfg y := by
  induction l with
  | nil => simp
  | cons x xs ih =>
    rw [List.pairwise_cons] at hs
    by_cases h : rtP cfg x = t
    · simp only [List.dropWhile_cons, h, decide_true, if_true]
      exact ih hs.2 (fun y hy => hge y (by simp [hy]))
    · simp only [List.dropWhile_cons, h, decide_false, Bool.false_eq_true, if_false]
      have hx := hge x (by simp)
      intro y hy
      rcases List.mem_cons.mp hy with rfl | hy
      · omega
      · have := hs.1 y hy; omega

/-! ### the search loop of the specific-point branch -/

/-- On a match buffer in strictly increasing time order, with a low mark `v ≤ t` that is `t` itself or bounds the
buffer: the loop finds exactly the match points at `t` and stops at the first one not before the low mark. -/
theorem searchMatches_spec (cfg : JCfg) (t v : Int) (M : List (Nat × JMsg)) (i : Nat) (acc : List (Nat × JMsg))
    (hs : M.Pairwise (fun x y => rtP cfg x < rtP cfg y)) (hv : v ≤ t) (hb : v = t ∨ ∀ x ∈ M, rtP cfg x ≤ v) :
    searchMatches cfg.tol t (some v) M i acc =
      (i + (M.takeWhile (fun x => decide (rtP cfg x < v))).length, acc ++ M.filter (fun x => decide (rtP cfg x = t))) := by
  induction M generalizing i acc with
  | nil => simp [searchMatches]
  | cons x xs ih =>
    rw [List.pairwise_cons] at hs
    unfold searchMatches
    simp only []
    have hrt : goRound cfg.tol x.2.time = rtP cfg x := rfl
    rw [hrt]
    by_cases hlt : rtP cfg x < v
    · have hne : ¬ rtP cfg x = t := by omega
      simp only [beforeMark, hlt, decide_true, Bool.not_true, Bool.false_eq_true, if_false, hne, List.takeWhile_cons, if_true,
        List.length_cons, List.filter_cons, decide_false]
      rw [ih (i + 1) acc hs.2 (by
        rcases hb with h | h
        · exact Or.inl h
        · exact Or.inr (fun y hy => h y (by simp [hy])))]
      congr 1
      omega
    · have hnil : xs.filter (fun y => decide (rtP cfg y = t)) = [] := by
        apply List.filter_eq_nil_iff.mpr
        intro y hy
        have h1 := hs.1 y hy
        simp only [decide_eq_true_eq]
        rcases hb with h | h
        · omega
        · have := h y (by simp [hy]); omega
      simp only [beforeMark, hlt, decide_false, Bool.not_false, if_true, List.takeWhile_cons, Bool.false_eq_true, if_false,
        List.length_nil, Nat.add_zero, List.filter_cons, hnil]
      by_cases he : rtP cfg x = t
      · simp [he]
      · simp [he]

theorem filter_sorted_le_one (cfg : JCfg) (t : Int) (M : List (Nat × JMsg)) (hs : M.Pairwise (fun x y => rtP cfg x < rtP cfg y)) :
    M.filter (fun x => decide (rtP cfg x = t)) = [] ∨ ∃ x, M.filter (fun x => decide (rtP cfg x = t)) = [x] := by
  induction M with
  | nil => left; rfl
  | cons x xs ih =>
    rw [List.pairwise_cons] at hs
    by_cases he : rtP cfg x = t
    · right
      refine ⟨x, ?_⟩
      have hnil : xs.filter (fun y => decide (rtP cfg y = t)) = [] := by
        apply List.filter_eq_nil_iff.mpr
        intro y hy
        have h1 := hs.1 y hy
        simp only [decide_eq_true_eq]
        omega
      simp [List.filter_cons, he, hnil]
    · simp only [List.filter_cons, he, decide_false, Bool.false_eq_true, if_false]
      exact ih hs.2

/-! ### the low mark of two parents -/

theorem lowMarkOf_two (g : String) (lms : List ((Nat × String) × Int)) :
    lowMarkOf 2 g lms =
      match lmLookup (0, g) lms, lmLookup (1, g) lms with
      | some x, some y => some (min x y)
      | _, _ => none := by
  have hr : List.range 2 = [0, 1] := by decide
  unfold lowMarkOf lowMarkOfOld
  rw [hr]
  cases h0 : lmLookup (0, g) lms with
  | none => simp [h0]
  | some x =>
    cases h1 : lmLookup (1, g) lms with
    | none => simp [h0, h1]
    | some y =>
      simp only [List.all_cons, h0, h1, Option.isSome_some, List.all_nil, Bool.and_self, if_true, List.foldl_cons, List.foldl_nil,
        zeroOrLmBefore]
      by_cases hxy : y < x
      · simp [hxy]; omega
      · simp [hxy]; omega

theorem two_of_nodup (l : List Nat) (hn : l.Nodup) (hlt : ∀ s ∈ l, s < 2) (h0 : 0 ∈ l) (h1 : 1 ∈ l) : l.length = 2 := by
  match l, hn, hlt, h0, h1 with
  | [], _, _, h0, _ => simp at h0
  | [x], _, _, h0, h1 => simp at h0 h1; omega
  | [x, y], _, _, _, _ => rfl
  | x :: y :: z :: _, hn, hlt, _, _ =>
    have hx := hlt x (by simp)
    have hy := hlt y (by simp)
    have hz := hlt z (by simp)
    simp only [List.nodup_cons, List.mem_cons, not_or] at hn
    omega

end OnP
end Kap.C12
