/-
C12 — join.on(): THE INVARIANT of `matchPoints` relative to the arrival history (on the claimed domain), and its
preservation by a step described through the buffer views.

`Inv cfg hist st L`: after the arrivals `hist` the node is in state `st` and has forwarded the blocks of the specific
arrivals `L`:
  * `lowMarks[(parent, general group)]` is the rounded time of an arrival of that parent and general group, and
    bounds all of them (`lmA`, `lmB`); `allReported` holds as soon as both parents were seen (`rep`);
  * `matchGroupsBuffer[g]` holds general arrivals of `g` (`mbA`), per parent in strictly increasing time order
    (`mbS`), and a general arrival that is no longer there is older than some specific arrival of `g` (`mbC`);
  * `specificGroupsBuffer[g]`: per general group, forwarded ++ cached = the specific arrivals of `g`, IN ARRIVAL
    ORDER (`acc`: every specific point is forwarded or cached exactly once, first in first out); no cached point has
    a general partner in the history (`sbC`).
-/
import Kap.Proofs.C12OnInvA
namespace Kap.C12
open Spec
set_option linter.unusedSimpArgs false
set_option linter.unusedVariables false

namespace OnP
open JOn

structure Inv (cfg : JCfg) (hist : List OnArrival) (st : JOn) (L : List OnArrival) : Prop where
  rep : st.allReported = true ∨
    (st.reported.length ≠ 2 ∧ st.reported.Nodup ∧ (∀ a ∈ hist, a.src ∈ st.reported) ∧ (∀ s ∈ st.reported, s < 2))
  lmA : ∀ a ∈ hist, ∃ v, lmLookup (a.src, a.general) st.lowMarks = some v ∧ rtA cfg a ≤ v
  lmB : ∀ s g v, lmLookup (s, g) st.lowMarks = some v → ∃ a ∈ hist, a.src = s ∧ a.general = g ∧ rtA cfg a = v
  mbA : ∀ g, ∀ x ∈ view st.matchBuf g, ∃ b ∈ hist, b.specific = false ∧ b.general = g ∧ (b.src, b.msg) = x
  mbS : ∀ g, (view st.matchBuf g).Pairwise (fun x y => x.1 = y.1 → rtP cfg x < rtP cfg y)
  mbC : ∀ b ∈ hist, b.specific = false → (b.src, b.msg) ∈ view st.matchBuf b.general ∨
    ∃ a ∈ hist, a.specific = true ∧ a.general = b.general ∧ rtA cfg b < rtA cfg a
  sbC : ∀ g, ∀ x ∈ view st.specBuf g, ∀ b ∈ hist, b.specific = false → b.general = g → rtA cfg b ≠ rtP cfg x
  keys : (st.specBuf.map (·.1)).Nodup
  acc : ∀ g, L.filter (fun a => a.general == g) ++ (view st.specBuf g).map (toArr g) =
    hist.filter (fun a => a.specific && a.general == g)

theorem inv_init (cfg : JCfg) : Inv cfg [] {} [] := by
  refine ⟨Or.inr ⟨by decide, by simp, by simp, by simp⟩, by simp, ?_, ?_, ?_, by simp, ?_, by simp, ?_⟩
  · intro s g v h; simp [lmLookup] at h
  · intro g x hx; simp [view, bufLookup] at hx
  · intro g; simp [view, bufLookup]
  · intro g x hx; simp [view, bufLookup] at hx
  · intro g; simp [view, bufLookup]

/-- The situation of one step: the domain, and where in the arrivals we are. -/
structure Ctx (cfg : JCfg) (arr hist : List OnArrival) (a : OnArrival) (rest : List OnArrival) : Prop where
  dom : Dom cfg arr
  split : arr = hist ++ a :: rest

namespace Ctx
variable {cfg : JCfg} {arr hist rest : List OnArrival} {a : OnArrival}

theorem memH (c : Ctx cfg arr hist a rest) : ∀ x ∈ hist, x ∈ arr := by
  intro x hx; rw [c.split]; simp [hx]
theorem memA (c : Ctx cfg arr hist a rest) : a ∈ arr := by rw [c.split]; simp
theorem memR (c : Ctx cfg arr hist a rest) : ∀ x ∈ rest, x ∈ arr := by
  intro x hx; rw [c.split]; simp [hx]
theorem lt (c : Ctx cfg arr hist a rest) : a.src < 2 := c.dom.src_lt a c.memA

/-- Earlier arrivals of the same parent and general group are not later. -/
theorem ordHA (c : Ctx cfg arr hist a rest) (x : OnArrival) (hx : x ∈ hist) (h1 : x.src = a.src) (h2 : x.general = a.general) :
    rtA cfg x ≤ rtA cfg a := cross c.dom.ord c.split hx (by simp) h1 h2

theorem ordHR (c : Ctx cfg arr hist a rest) (x y : OnArrival) (hx : x ∈ hist) (hy : y ∈ rest) (h1 : x.src = y.src) (h2 : x.general = y.general) :
    rtA cfg x ≤ rtA cfg y := cross c.dom.ord c.split hx (by simp [hy]) h1 h2

theorem ordAR (c : Ctx cfg arr hist a rest) (y : OnArrival) (hy : y ∈ rest) (h1 : a.src = y.src) (h2 : a.general = y.general) :
    rtA cfg a ≤ rtA cfg y :=
  cross (l1 := hist ++ [a]) (l2 := rest) c.dom.ord (by rw [c.split]; simp) (by simp) hy h1 h2

theorem uniqHA (c : Ctx cfg arr hist a rest) (x : OnArrival) (hx : x ∈ hist) (h1 : x.specific = false) (h2 : a.specific = false)
    (h3 : x.general = a.general) : rtA cfg x ≠ rtA cfg a := cross c.dom.uniq c.split hx (by simp) h1 h2 h3

/-- When a specific arrival exists, all general arrivals come from the other parent. -/
theorem gen_src (c : Ctx cfg arr hist a rest) (s b b' : OnArrival) (hs : s ∈ arr) (hsp : s.specific = true) (hb : b ∈ arr) (hb' : b' ∈ arr)
    (h1 : b.specific = false) (h2 : b'.specific = false) : b.src = b'.src := by
  have n1 : b.src ≠ s.src := fun h => by have := c.dom.kind b hb s hs h; rw [h1, hsp] at this; exact absurd this (by decide)
  have n2 : b'.src ≠ s.src := fun h => by have := c.dom.kind b' hb' s hs h; rw [h2, hsp] at this; exact absurd this (by decide)
  have := c.dom.src_lt s hs
  have := c.dom.src_lt b hb
  have := c.dom.src_lt b' hb'
  omega

theorem hist_sublist (c : Ctx cfg arr hist a rest) : List.Sublist hist arr := by
  rw [c.split]; exact List.sublist_append_left _ _

end Ctx

/-- What the invariant says about the cached specific points: they are specific arrivals of the history, in time order. -/
theorem Inv.cached_mem {cfg : JCfg} {hist : List OnArrival} {st : JOn} {L : List OnArrival} (hI : Inv cfg hist st L)
    (g : String) (y : Nat × JMsg) (hy : y ∈ view st.specBuf g) : toArr g y ∈ hist := by
  have : toArr g y ∈ L.filter (fun a => a.general == g) ++ (view st.specBuf g).map (toArr g) :=
    List.mem_append_right _ (List.mem_map.mpr ⟨y, hy, rfl⟩)
  rw [hI.acc g] at this
  exact (List.mem_filter.mp this).1

theorem Inv.forwarded_mem {cfg : JCfg} {hist : List OnArrival} {st : JOn} {L : List OnArrival} (hI : Inv cfg hist st L)
    (x : OnArrival) (hx : x ∈ L) : x ∈ hist ∧ x.specific = true := by
  have : x ∈ L.filter (fun a => a.general == x.general) ++ (view st.specBuf x.general).map (toArr x.general) :=
    List.mem_append_left _ (List.mem_filter.mpr ⟨hx, by simp⟩)
  rw [hI.acc x.general] at this
  have := List.mem_filter.mp this
  simp only [Bool.and_eq_true] at this
  exact ⟨this.1, this.2.1⟩

theorem Inv.cached_sorted {cfg : JCfg} {arr hist rest : List OnArrival} {a : OnArrival} {st : JOn} {L : List OnArrival}
    (c : Ctx cfg arr hist a rest) (hI : Inv cfg hist st L) (g : String) :
    (view st.specBuf g).Pairwise (fun x y => rtP cfg x ≤ rtP cfg y) := by
  have h1 : (hist.filter (fun a => a.specific && a.general == g)).Pairwise
      (fun a b => a.src = b.src → a.general = b.general → rtA cfg a ≤ rtA cfg b) :=
    (c.dom.ord.sublist c.hist_sublist).sublist List.filter_sublist
  rw [← hI.acc g] at h1
  have h2 := (List.pairwise_append.mp h1).2.1
  rw [List.pairwise_map] at h2
  refine h2.imp_of_mem ?_
  intro x y hx hy hxy
  exact hxy (c.dom.one _ (c.memH _ (hI.cached_mem g x hx)) _ (c.memH _ (hI.cached_mem g y hy)) rfl rfl) rfl

/-! ### bookkeeping common to both kinds of arrival -/

theorem rep_post {cfg : JCfg} {arr hist rest : List OnArrival} {a : OnArrival} {st : JOn} {L : List OnArrival}
    (c : Ctx cfg arr hist a rest) (hI : Inv cfg hist st L) :
    ar' cfg st a.src = true ∨
      ((rep' st a.src).length ≠ 2 ∧ (rep' st a.src).Nodup ∧ (∀ x ∈ hist ++ [a], x.src ∈ rep' st a.src) ∧ (∀ s ∈ rep' st a.src, s < 2)) := by
  unfold ar' rep'
  rw [c.dom.par]
  cases hall : st.allReported with
  | true => left; simp
  | false =>
    rcases hI.rep with h | ⟨hlen, hnd, hmem, hlt⟩
    · rw [hall] at h; exact absurd h (by decide)
    · simp only [Bool.false_or]
      by_cases hc : st.reported.contains a.src = true
      · simp only [hc, if_true]
        by_cases h2 : st.reported.length = 2
        · exact absurd h2 hlen
        · right
          refine ⟨h2, hnd, ?_, hlt⟩
          intro x hx
          rcases List.mem_append.mp hx with h | h
          · exact hmem x h
          · simp only [List.mem_singleton] at h; subst h; simpa using hc
      · simp only [hc, Bool.false_eq_true, if_false]
        by_cases h2 : (st.reported ++ [a.src]).length = 2
        · left; simp [h2]
        · right
          have hnot : a.src ∉ st.reported := by simpa using hc
          refine ⟨h2, ?_, ?_, ?_⟩
          · rw [List.nodup_append]
            refine ⟨hnd, by simp, ?_⟩
            intro x hx y hy
            simp only [List.mem_singleton] at hy
            subst hy
            exact fun h => hnot (h ▸ hx)
          · intro x hx
            rcases List.mem_append.mp hx with h | h
            · exact List.mem_append_left _ (hmem x h)
            · simp only [List.mem_singleton] at h; subst h; simp
          · intro s hs
            rcases List.mem_append.mp hs with h | h
            · exact hlt s h
            · simp only [List.mem_singleton] at h; subst h; exact c.lt

theorem lm_post {cfg : JCfg} {arr hist rest : List OnArrival} {a : OnArrival} {st : JOn} {L : List OnArrival}
    (c : Ctx cfg arr hist a rest) (hI : Inv cfg hist st L) :
    (∀ x ∈ hist ++ [a], ∃ v, lmLookup (x.src, x.general) (lms' cfg st a.src a.msg a.general) = some v ∧ rtA cfg x ≤ v) ∧
    (∀ s g v, lmLookup (s, g) (lms' cfg st a.src a.msg a.general) = some v → ∃ x ∈ hist ++ [a], x.src = s ∧ x.general = g ∧ rtA cfg x = v) := by
  unfold lms'
  constructor
  · intro x hx
    rw [lmLookup_lmUpsert]
    by_cases hk : (x.src, x.general) = (a.src, a.general)
    · simp only [hk, if_true]
      refine ⟨_, rfl, ?_⟩
      simp only [Prod.mk.injEq] at hk
      rcases List.mem_append.mp hx with h | h
      · exact c.ordHA x h hk.1 hk.2
      · simp only [List.mem_singleton] at h; subst h; exact Int.le_refl _
    · simp only [hk, if_false]
      rcases List.mem_append.mp hx with h | h
      · exact hI.lmA x h
      · simp only [List.mem_singleton] at h; subst h; exact absurd rfl hk
  · intro s g v h
    rw [lmLookup_lmUpsert] at h
    by_cases hk : (s, g) = (a.src, a.general)
    · simp only [hk, if_true, Option.some.injEq] at h
      simp only [Prod.mk.injEq] at hk
      exact ⟨a, by simp, hk.1.symm, hk.2.symm, h⟩
    · simp only [hk, if_false] at h
      obtain ⟨x, hx, h1, h2, h3⟩ := hI.lmB s g v h
      exact ⟨x, List.mem_append_left _ hx, h1, h2, h3⟩

theorem lowMarkOf_two' (s : Nat) (hs : s < 2) (g : String) (lms : List ((Nat × String) × Int)) :
    lowMarkOf 2 g lms =
      match lmLookup (s, g) lms, lmLookup (1 - s, g) lms with
      | some x, some y => some (min x y)
      | _, _ => none := by
  rw [lowMarkOf_two]
  rcases (by omega : s = 0 ∨ s = 1) with rfl | rfl
  · rfl
  · simp only [Nat.sub_self]
    cases lmLookup (0, g) lms <;> cases lmLookup (1, g) lms <;> simp [Int.min_comm]

/-- **The low mark of a step**: zero exactly when the other parent has not sent anything for this general group;
otherwise the minimum of the point's time and the other parent's latest time `vO`, which bounds everything the other
parent sent for the group so far. -/
theorem lowMark_cases {cfg : JCfg} {arr hist rest : List OnArrival} {a : OnArrival} {st : JOn} {L : List OnArrival}
    (c : Ctx cfg arr hist a rest) (hI : Inv cfg hist st L) :
    (lowMark' cfg st a.src a.msg a.general = none ∧ ∀ b ∈ hist, b.general = a.general → b.src = a.src) ∨
    (∃ v vO o, lowMark' cfg st a.src a.msg a.general = some v ∧ ar' cfg st a.src = true ∧ v ≤ rtA cfg a ∧ v ≤ vO ∧
      (v = rtA cfg a ∨ v = vO) ∧ o ∈ hist ∧ o.src ≠ a.src ∧ o.general = a.general ∧ rtA cfg o = vO ∧
      ∀ x ∈ hist, x.src ≠ a.src → x.general = a.general → rtA cfg x ≤ vO) := by
  have ha2 := c.lt
  have hne : ¬ ((1 - a.src, a.general) = (a.src, a.general)) := by
    simp only [Prod.mk.injEq, and_true]; omega
  have hlow : lowMarkOf cfg.parents a.general (lms' cfg st a.src a.msg a.general) =
      match lmLookup (1 - a.src, a.general) st.lowMarks with
      | some y => some (min (rtA cfg a) y)
      | none => none := by
    rw [c.dom.par, lowMarkOf_two' a.src ha2]
    unfold lms'
    rw [lmLookup_lmUpsert, lmLookup_lmUpsert]
    simp only [if_true, hne, if_false]
    cases lmLookup (1 - a.src, a.general) st.lowMarks <;> rfl
  unfold lowMark'
  rw [hlow]
  cases hO : lmLookup (1 - a.src, a.general) st.lowMarks with
  | none =>
    left
    refine ⟨by cases ar' cfg st a.src <;> rfl, ?_⟩
    intro b hb hg
    apply Classical.byContradiction
    intro hbs
    have hb2 := c.dom.src_lt b (c.memH b hb)
    have : b.src = 1 - a.src := by omega
    obtain ⟨v, hv, _⟩ := hI.lmA b hb
    rw [this, hg, hO] at hv
    exact absurd hv (by simp)
  | some vO =>
    right
    obtain ⟨o, ho, ho1, ho2, ho3⟩ := hI.lmB _ _ _ hO
    have har : ar' cfg st a.src = true := by
      rcases rep_post c hI with h | ⟨hlen, hnd, hmem, hlt⟩
      · exact h
      · exfalso
        apply hlen
        have m1 := hmem o (List.mem_append_left _ ho)
        have m2 := hmem a (by simp)
        rw [ho1] at m1
        generalize rep' st a.src = R at hnd hlt m1 m2 ⊢
        have h01 : 0 ∈ R ∧ 1 ∈ R := by
          rcases (by omega : a.src = 0 ∨ a.src = 1) with h | h
          · rw [h] at m1 m2; exact ⟨m2, m1⟩
          · rw [h] at m1 m2; exact ⟨m1, m2⟩
        exact two_of_nodup _ hnd hlt h01.1 h01.2
    refine ⟨min (rtA cfg a) vO, vO, o, by simp [har], har, by omega, by omega, by omega, ho, by omega, ho2, ho3, ?_⟩
    intro x hx hxs hxg
    have hx2 := c.dom.src_lt x (c.memH x hx)
    have : x.src = 1 - a.src := by omega
    obtain ⟨v, hv, hle⟩ := hI.lmA x hx
    rw [this, hxg, hO] at hv
    simp only [Option.some.injEq] at hv
    omega

end OnP
end Kap.C12
