/-
C12 — join.on(): the invariant is preserved by a step that is described through the buffer views
(`inv_post_spec`: a specific point; `inv_post_gen`: a general point).
-/
import Kap.Proofs.C12OnInvB
namespace Kap.C12
open Spec
set_option linter.unusedSimpArgs false
set_option linter.unusedVariables false

namespace OnP
open JOn

theorem toArr_self (a : OnArrival) (hs : a.specific = true) : toArr a.general (a.src, a.msg) = a := by
  cases a; simp only [toArr] at *; rw [hs]

theorem filter_toArr_self (g : String) (l : List (Nat × JMsg)) :
    (l.map (toArr g)).filter (fun a => a.general == g) = l.map (toArr g) := by
  apply List.filter_eq_self.mpr
  intro x hx
  obtain ⟨y, _, rfl⟩ := List.mem_map.mp hx
  simp [toArr]

theorem filter_toArr_other (g g' : String) (h : ¬ g = g') (l : List (Nat × JMsg)) :
    (l.map (toArr g)).filter (fun a => a.general == g') = [] := by
  apply List.filter_eq_nil_iff.mpr
  intro x hx
  obtain ⟨y, _, rfl⟩ := List.mem_map.mp hx
  simp [toArr, h]

theorem mem_hist' {hist : List OnArrival} {a b : OnArrival} (hb : b ∈ hist ++ [a]) : b ∈ hist ∨ b = a := by
  rcases List.mem_append.mp hb with h | h
  · exact Or.inl h
  · exact Or.inr (by simpa using h)

/-- A specific point `a`: the match buffer of its general group lost `k` points older than `a`; the specific buffer
lost its first `n` points (forwarded) and — `cache` — got `a` at the end, otherwise `a` was forwarded too. -/
theorem inv_post_spec {cfg : JCfg} {arr hist rest : List OnArrival} {a : OnArrival} {st : JOn} {L : List OnArrival}
    (c : Ctx cfg arr hist a rest) (hI : Inv cfg hist st L) (hs : a.specific = true) (st' : JOn)
    (h1 : st'.lowMarks = lms' cfg st a.src a.msg a.general) (h2 : st'.allReported = ar' cfg st a.src)
    (h3 : st'.reported = rep' st a.src) (hkeys : (st'.specBuf.map (·.1)).Nodup)
    (k : Nat)
    (hMB : ∀ g', view st'.matchBuf g' = if g' = a.general then (view st.matchBuf a.general).drop k else view st.matchBuf g')
    (hk : ∀ x ∈ (view st.matchBuf a.general).take k, rtP cfg x < rtA cfg a)
    (n : Nat) (cache : Bool)
    (hSB : ∀ g', view st'.specBuf g' =
      if g' = a.general then (view st.specBuf a.general).drop n ++ (if cache then [(a.src, a.msg)] else []) else view st.specBuf g')
    (hdrop : cache = false → (view st.specBuf a.general).drop n = [])
    (hnew : cache = true → ∀ b ∈ hist, b.specific = false → b.general = a.general → rtA cfg b ≠ rtA cfg a) :
    Inv cfg (hist ++ [a]) st'
      (L ++ ((view st.specBuf a.general).take n).map (toArr a.general) ++ (if cache then [] else [a])) := by
  have hnota : ∀ b ∈ hist ++ [a], b.specific = false → b ∈ hist := by
    intro b hb hbs
    rcases mem_hist' hb with h | h
    · exact h
    · rw [h, hs] at hbs; exact absurd hbs (by decide)
  refine ⟨?_, ?_, ?_, ?_, ?_, ?_, ?_, hkeys, ?_⟩
  · rw [h2, h3]; exact rep_post c hI
  · rw [h1]; exact (lm_post c hI).1
  · rw [h1]; exact (lm_post c hI).2
  · intro g x hx
    rw [hMB] at hx
    have hx' : x ∈ view st.matchBuf g := by
      by_cases hg : g = a.general
      · simp only [hg, if_true] at hx; rw [hg]; exact List.mem_of_mem_drop hx
      · simpa [hg] using hx
    obtain ⟨b, hb, r⟩ := hI.mbA g x hx'
    exact ⟨b, List.mem_append_left _ hb, r⟩
  · intro g
    rw [hMB]
    by_cases hg : g = a.general
    · simp only [hg, if_true]; exact (hI.mbS a.general).sublist (List.drop_sublist _ _)
    · simp only [hg, if_false]; exact hI.mbS g
  · intro b hb hbs
    have hbh := hnota b hb hbs
    rcases hI.mbC b hbh hbs with h | ⟨a0, ha0, r⟩
    · rw [hMB]
      by_cases hg : b.general = a.general
      · simp only [hg, if_true]
        rw [hg] at h
        rcases mem_take_or_drop k _ _ h with ht | hd
        · right
          have hlt : rtA cfg b < rtA cfg a := hk (b.src, b.msg) ht
          exact ⟨a, by simp, hs, rfl, hlt⟩
        · left; exact hd
      · left; simpa [hg] using h
    · right; exact ⟨a0, List.mem_append_left _ ha0, r⟩
  · intro g x hx b hb hbs hbg
    have hbh := hnota b hb hbs
    rw [hSB] at hx
    by_cases hg : g = a.general
    · simp only [hg, if_true] at hx
      rcases List.mem_append.mp hx with h | h
      · exact hI.sbC g x (by rw [hg]; exact List.mem_of_mem_drop h) b hbh hbs hbg
      · cases cache with
        | false => simp at h
        | true =>
          simp only [if_true, List.mem_singleton] at h
          rw [h]
          exact hnew rfl b hbh hbs (by rw [hbg, hg])
    · simp only [hg, if_false] at hx
      exact hI.sbC g x hx b hbh hbs hbg
  · intro g
    rw [hSB]
    by_cases hg : g = a.general
    · subst hg
      have hacc := hI.acc a.general
      have hsplit := List.take_append_drop n (view st.specBuf a.general)
      simp only [if_true, List.filter_append, filter_toArr_self, hs, Bool.true_and]
      cases cache with
      | true =>
        simp only [if_true, List.filter_nil, List.append_nil, List.map_append, List.map_cons, List.map_nil, toArr_self a hs,
          List.filter_cons, beq_self_eq_true]
        rw [← hacc]
        conv => rhs; rw [← hsplit]
        simp [List.map_append, List.append_assoc]
        rw [← List.append_assoc, List.take_append_drop]; simp [hs]
      | false =>
        simp only [Bool.false_eq_true, if_false, List.append_nil, hdrop rfl, List.map_nil, List.filter_cons, beq_self_eq_true,
          if_true, List.filter_nil]
        rw [← hacc]
        conv => rhs; rw [← hsplit, hdrop rfl]
        simp [List.map_append, List.append_assoc, hs]
    · have hg' : ¬ a.general = g := fun h => hg h.symm
      have hag : (a.general == g) = false := by simpa using hg'
      simp only [hg, if_false, List.filter_append, filter_toArr_other _ _ hg', List.append_nil, List.filter_cons, List.filter_nil, hag,
        Bool.and_false, Bool.false_eq_true]
      rw [← hI.acc g]
      cases cache <;> simp [hag]

/-- A general point `a`: it was appended to the match buffer of its general group; the specific buffer of that group
lost its front `T` (forwarded) and what is left is not at `a`'s time. -/
theorem inv_post_gen {cfg : JCfg} {arr hist rest : List OnArrival} {a : OnArrival} {st : JOn} {L : List OnArrival}
    (c : Ctx cfg arr hist a rest) (hI : Inv cfg hist st L) (hs : a.specific = false) (st' : JOn)
    (h1 : st'.lowMarks = lms' cfg st a.src a.msg a.general) (h2 : st'.allReported = ar' cfg st a.src)
    (h3 : st'.reported = rep' st a.src) (hkeys : (st'.specBuf.map (·.1)).Nodup)
    (hMB : ∀ g', view st'.matchBuf g' = if g' = a.general then view st.matchBuf a.general ++ [(a.src, a.msg)] else view st.matchBuf g')
    (T C' : List (Nat × JMsg)) (hsplit : view st.specBuf a.general = T ++ C')
    (hSB : ∀ g', view st'.specBuf g' = if g' = a.general then C' else view st.specBuf g')
    (hnew : ∀ x ∈ C', rtA cfg a ≠ rtP cfg x) :
    Inv cfg (hist ++ [a]) st' (L ++ T.map (toArr a.general)) := by
  refine ⟨?_, ?_, ?_, ?_, ?_, ?_, ?_, hkeys, ?_⟩
  · rw [h2, h3]; exact rep_post c hI
  · rw [h1]; exact (lm_post c hI).1
  · rw [h1]; exact (lm_post c hI).2
  · intro g x hx
    rw [hMB] at hx
    by_cases hg : g = a.general
    · simp only [hg, if_true] at hx
      rcases List.mem_append.mp hx with h | h
      · obtain ⟨b, hb, r⟩ := hI.mbA a.general x h
        exact ⟨b, List.mem_append_left _ hb, by rw [hg]; exact r⟩
      · simp only [List.mem_singleton] at h
        exact ⟨a, by simp, hs, hg.symm, h.symm⟩
    · simp only [hg, if_false] at hx
      obtain ⟨b, hb, r⟩ := hI.mbA g x hx
      exact ⟨b, List.mem_append_left _ hb, r⟩
  · intro g
    rw [hMB]
    by_cases hg : g = a.general
    · simp only [hg, if_true]
      rw [List.pairwise_append]
      refine ⟨hI.mbS a.general, by simp, ?_⟩
      intro x hx y hy hxy
      simp only [List.mem_singleton] at hy
      subst hy
      obtain ⟨b, hb, hb1, hb2, hb3⟩ := hI.mbA a.general x hx
      subst hb3
      have := c.ordHA b hb hxy hb2
      have := c.uniqHA b hb hb1 hs hb2
      show rtA cfg b < rtA cfg a
      omega
    · simp only [hg, if_false]; exact hI.mbS g
  · intro b hb hbs
    rcases mem_hist' hb with hbh | rfl
    · rcases hI.mbC b hbh hbs with h | ⟨a0, ha0, r⟩
      · left
        rw [hMB]
        by_cases hg : b.general = a.general
        · simp only [hg, if_true]; rw [hg] at h; exact List.mem_append_left _ h
        · simpa [hg] using h
      · right; exact ⟨a0, List.mem_append_left _ ha0, r⟩
    · left; rw [hMB]; simp
  · intro g x hx b hb hbs hbg
    rw [hSB] at hx
    by_cases hg : g = a.general
    · simp only [hg, if_true] at hx
      rcases mem_hist' hb with hbh | rfl
      · exact hI.sbC g x (by rw [hg, hsplit]; exact List.mem_append_right _ hx) b hbh hbs hbg
      · exact hnew x hx
    · simp only [hg, if_false] at hx
      rcases mem_hist' hb with hbh | rfl
      · exact hI.sbC g x hx b hbh hbs hbg
      · exact absurd hbg.symm hg
  · intro g
    rw [hSB]
    by_cases hg : g = a.general
    · subst hg
      simp only [if_true, List.filter_append, filter_toArr_self, hs, Bool.false_and, List.filter_cons, Bool.false_eq_true, if_false,
        List.filter_nil, List.append_nil]
      rw [← hI.acc a.general, hsplit]
      simp [List.map_append, List.append_assoc]
    · have hg' : ¬ a.general = g := fun h => hg h.symm
      simp only [hg, if_false, List.filter_append, filter_toArr_other _ _ hg', List.append_nil, List.filter_cons, hs, Bool.false_and,
        Bool.false_eq_true, List.filter_nil]
      exact hI.acc g

end OnP
end Kap.C12
