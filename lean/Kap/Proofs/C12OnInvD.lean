/-
C12 — join.on(): one call of `matchPoints` on the claimed domain forwards a list of BLOCKS and keeps the invariant
(`step_spec`: options 1-3 for a specific point; `step_gen`: a general point).
-/
import Kap.Proofs.C12OnInvC
namespace Kap.C12
open Spec
set_option linter.unusedSimpArgs false
set_option linter.unusedVariables false

namespace OnP
open JOn

theorem mem_split {arr hist rest : List OnArrival} {a b : OnArrival} (e : arr = hist ++ a :: rest) (hb : b ∈ arr) :
    b ∈ hist ∨ b = a ∨ b ∈ rest := by
  rw [e] at hb
  simpa using hb

theorem takeWhile_false {β : Type} (l : List β) : l.takeWhile (fun _ => false) = [] := by
  cases l <;> simp [List.takeWhile_cons]

theorem step_spec {cfg : JCfg} {arr hist rest : List OnArrival} {a : OnArrival} {st : JOn} {L : List OnArrival}
    (c : Ctx cfg arr hist a rest) (hI : Inv cfg hist st L) (hs : a.specific = true) :
    ∃ Lnew, fwdOf cfg st a.src a.msg true a.general = Lnew.flatMap (block cfg arr) ∧
      Inv cfg (hist ++ [a]) (st.point cfg a.src a.msg true a.general).1 (L ++ Lnew) := by
  obtain ⟨hl1, hl2, hl3⟩ := point_lowMarks cfg st a.src a.msg true a.general
  have hkeys := point_spec_specKeys cfg st a.src a.msg a.general hI.keys
  have hMB := point_spec_matchBuf cfg st a.src a.msg a.general
  have hSB := point_spec_specBuf cfg st a.src a.msg a.general
  have hfw := fwdOf_spec cfg st a.src a.msg a.general
  have hms := matchedOf_view cfg st (lowMark' cfg st a.src a.msg a.general) a.general (goRound cfg.tol a.msg.time)
  have hpv := purged_view cfg st (ar' cfg st a.src) (lowMark' cfg st a.src a.msg a.general) a.general
  have hgen_src : ∀ b ∈ arr, b.specific = false → b.src ≠ a.src := by
    intro b hb hb1 h
    have := c.dom.kind b hb a c.memA h
    rw [hb1, hs] at this
    exact absurd this (by decide)
  rcases lowMark_cases c hI with ⟨hLm, hnone⟩ | ⟨v, vO, o, hLm, har, hvt, hvO, hvor, ho, hos, hog, hort, hbound⟩
  · -- the other parent has not reported for this general group: nothing to match, nothing to purge, cache
    have hM : view st.matchBuf a.general = [] := by
      apply List.eq_nil_iff_forall_not_mem.mpr
      intro x hx
      obtain ⟨b, hb, hb1, hb2, _⟩ := hI.mbA _ x hx
      exact hgen_src b (c.memH b hb) hb1 (hnone b hb hb2)
    have hP : purged cfg st (ar' cfg st a.src) (lowMark' cfg st a.src a.msg a.general) a.general = [] := by
      rw [hpv, hLm]; cases ar' cfg st a.src <;> simp [beforeMark, takeWhile_false]
    have hmsE : matchedOf cfg st (lowMark' cfg st a.src a.msg a.general) a.general (goRound cfg.tol a.msg.time) = [] := by
      rw [hms, hM]; simp [searchMatches]
    have hcc : cacheCond cfg st a.src a.msg a.general = true := by
      unfold cacheCond; rw [hmsE, hLm]; simp [beforeMark]
    refine ⟨[], ?_, ?_⟩
    · rw [hfw, hP, hmsE, hLm]; simp [beforeMark]
    · have := inv_post_spec c hI hs _ hl1 hl2 hl3 hkeys 0
        (by intro g'; rw [hMB g', hM]; by_cases hg : g' = a.general <;> cases ar' cfg st a.src <;> simp [hg, hM])
        (by simp) 0 true
        (by intro g'; rw [hSB g', hP, hcc]; simp)
        (by simp)
        (by intro _ b hb hb1 hb2; exact absurd (hnone b hb hb2) (hgen_src b (c.memH b hb) hb1))
      simpa using this
  · -- both parents have reported for this general group
    have ho_gen : o.specific = false := by
      cases h : o.specific with
      | false => rfl
      | true => exact absurd (c.dom.one o (c.memH o ho) a c.memA h hs) hos
    have hP : purged cfg st (ar' cfg st a.src) (lowMark' cfg st a.src a.msg a.general) a.general =
        (view st.specBuf a.general).takeWhile (fun x => decide (rtP cfg x < v)) := by
      rw [hpv, har, hLm]; rfl
    have hMsorted : (view st.matchBuf a.general).Pairwise (fun x y => rtP cfg x < rtP cfg y) := by
      refine (hI.mbS a.general).imp_of_mem ?_
      intro x y hx hy hxy
      obtain ⟨b, hb, hb1, _, hb3⟩ := hI.mbA _ x hx
      obtain ⟨b', hb', hb1', _, hb3'⟩ := hI.mbA _ y hy
      apply hxy
      rw [← hb3, ← hb3']
      exact c.gen_src a b b' c.memA hs (c.memH b hb) (c.memH b' hb') hb1 hb1'
    have hMbound : v = rtA cfg a ∨ ∀ x ∈ view st.matchBuf a.general, rtP cfg x ≤ v := by
      rcases hvor with h | h
      · exact Or.inl h
      · right
        intro x hx
        obtain ⟨b, hb, hb1, hb2, hb3⟩ := hI.mbA _ x hx
        have := hbound b hb (hgen_src b (c.memH b hb) hb1) hb2
        rw [← hb3]
        show rtA cfg b ≤ v
        omega
    have hsm := searchMatches_spec cfg (rtA cfg a) v (view st.matchBuf a.general) 0 [] hMsorted hvt hMbound
    have hmsF : matchedOf cfg st (lowMark' cfg st a.src a.msg a.general) a.general (goRound cfg.tol a.msg.time) =
        (view st.matchBuf a.general).filter (fun x => decide (rtP cfg x = rtA cfg a)) := by
      rw [hms, hLm]
      show (searchMatches cfg.tol (rtA cfg a) (some v) (view st.matchBuf a.general) 0 []).2 = _
      rw [hsm]; simp
    have hidx : (searchMatches cfg.tol (goRound cfg.tol a.msg.time) (lowMark' cfg st a.src a.msg a.general) (view st.matchBuf a.general) 0 []).1 =
        ((view st.matchBuf a.general).takeWhile (fun x => decide (rtP cfg x < v))).length := by
      rw [hLm]
      show (searchMatches cfg.tol (rtA cfg a) (some v) (view st.matchBuf a.general) 0 []).1 = _
      rw [hsm]; simp
    have hMB' : ∀ g', view (st.point cfg a.src a.msg true a.general).1.matchBuf g' =
        if g' = a.general then (view st.matchBuf a.general).drop ((view st.matchBuf a.general).takeWhile (fun x => decide (rtP cfg x < v))).length
        else view st.matchBuf g' := by
      intro g'; rw [hMB g', har, hidx]; simp
    have hk : ∀ x ∈ (view st.matchBuf a.general).take ((view st.matchBuf a.general).takeWhile (fun x => decide (rtP cfg x < v))).length,
        rtP cfg x < rtA cfg a := by
      intro x hx
      rw [take_length_takeWhile] at hx
      have := (mem_takeWhile _ _ x hx).2
      simp only [decide_eq_true_eq] at this
      omega
    have hnlt : ¬ (goRound cfg.tol a.msg.time < v) := by
      have := hvt; unfold rtA at this; omega
    rcases filter_sorted_le_one cfg (rtA cfg a) (view st.matchBuf a.general) hMsorted with hnil | ⟨x, hx1⟩
    · -- no match point at this time: purge, then cache (option 2)
      have hcc : cacheCond cfg st a.src a.msg a.general = true := by
        unfold cacheCond; rw [hmsF, hnil, hLm]; simp [beforeMark, hnlt]
      refine ⟨((view st.specBuf a.general).takeWhile (fun x => decide (rtP cfg x < v))).map (toArr a.general), ?_, ?_⟩
      · rw [hfw, hP, hmsF, hnil, hLm]
        simp only [List.isEmpty_nil, Bool.not_true, Bool.false_eq_true, if_false, beforeMark, hnlt, decide_false, Bool.and_false,
          List.append_nil]
        symm
        apply blocks_alone
        intro y hy b hb hb1 hb2
        obtain ⟨hyC, hyv⟩ := mem_takeWhile _ _ y hy
        simp only [decide_eq_true_eq] at hyv
        rcases mem_split c.split hb with h | h | h
        · exact hI.sbC a.general y hyC b h hb1 hb2
        · rw [h, hs] at hb1; exact absurd hb1 (by decide)
        · have hsrc := c.gen_src a o b c.memA hs (c.memH o ho) hb ho_gen hb1
          have := c.ordHR o b ho h hsrc (by rw [hog, hb2])
          omega
      · have := inv_post_spec c hI hs _ hl1 hl2 hl3 hkeys _ hMB' hk
          ((view st.specBuf a.general).takeWhile (fun x => decide (rtP cfg x < v))).length true
          (by intro g'; rw [hSB g', hP, hcc])
          (by simp)
          (by
            intro _ b hb hb1 hb2
            rcases hI.mbC b hb hb1 with h | ⟨a0, ha0, h1, h2, h3⟩
            · intro heq
              rw [hb2] at h
              have : (b.src, b.msg) ∈ (view st.matchBuf a.general).filter (fun x => decide (rtP cfg x = rtA cfg a)) :=
                List.mem_filter.mpr ⟨h, decide_eq_true (show rtP cfg (b.src, b.msg) = rtA cfg a from heq)⟩
              rw [hnil] at this
              simp at this
            · have := c.ordHA a0 ha0 (c.dom.one a0 (c.memH a0 ha0) a c.memA h1 hs) (by rw [h2, hb2])
              omega)
        rw [take_length_takeWhile] at this
        simpa using this
    · -- the match point of this time is cached: everything cached is older and goes first, then both (option 1)
      have hxm := List.mem_filter.mp (by rw [hx1]; simp : x ∈ (view st.matchBuf a.general).filter (fun x => decide (rtP cfg x = rtA cfg a)))
      obtain ⟨hxM, hxt⟩ := hxm
      simp only [decide_eq_true_eq] at hxt
      obtain ⟨b, hb, hb1, hb2, hb3⟩ := hI.mbA _ x hxM
      subst hb3
      have hbt : rtA cfg b = rtA cfg a := hxt
      have hpart : partnerOf cfg arr a = some b :=
        partner_some cfg arr c.dom a b (c.memH b hb) hb1 (hgen_src b (c.memH b hb) hb1) hb2 hbt
      have hbO := hbound b hb (hgen_src b (c.memH b hb) hb1) hb2
      have hveq : v = rtA cfg a := by omega
      have hCall : ∀ y ∈ view st.specBuf a.general, rtP cfg y < rtA cfg a := by
        intro y hy
        have hym := hI.cached_mem a.general y hy
        have h1 := c.ordHA (toArr a.general y) hym (c.dom.one _ (c.memH _ hym) a c.memA rfl hs) rfl
        have h2 := hI.sbC a.general y hy b hb hb1 hb2
        have h3 : rtA cfg (toArr a.general y) = rtP cfg y := rfl
        omega
      have hPall : (view st.specBuf a.general).takeWhile (fun x => decide (rtP cfg x < v)) = view st.specBuf a.general := by
        apply takeWhile_eq_self
        intro y hy
        have := hCall y hy
        simp only [decide_eq_true_eq]; omega
      have hcc : cacheCond cfg st a.src a.msg a.general = false := by
        unfold cacheCond; rw [hmsF, hx1]; simp
      refine ⟨(view st.specBuf a.general).map (toArr a.general) ++ [a], ?_, ?_⟩
      · rw [hfw, hmsF, hx1, hP, hPall, List.flatMap_append]
        rw [blocks_alone cfg arr a.general (view st.specBuf a.general) (by
          intro y hy b' hb' hb1' hb2'
          have hyt := hCall y hy
          rcases mem_split c.split hb' with h | h | h
          · exact hI.sbC a.general y hy b' h hb1' hb2'
          · rw [h, hs] at hb1'; exact absurd hb1' (by decide)
          · have hsrc := c.gen_src a b b' c.memA hs (c.memH b hb) hb' hb1 hb1'
            have := c.ordHR b b' hb h hsrc (by rw [hb2, hb2'])
            omega)]
        simp only [List.isEmpty_cons, Bool.not_false, if_true, List.flatMap_cons, List.flatMap_nil, List.append_nil, block, hpart]
        rfl
      · have := inv_post_spec c hI hs _ hl1 hl2 hl3 hkeys _ hMB' hk (view st.specBuf a.general).length false
          (by intro g'; rw [hSB g', hP, hPall, hcc])
          (by simp)
          (by simp)
        simpa using this

theorem step_gen {cfg : JCfg} {arr hist rest : List OnArrival} {a : OnArrival} {st : JOn} {L : List OnArrival}
    (c : Ctx cfg arr hist a rest) (hI : Inv cfg hist st L) (hs : a.specific = false) :
    ∃ Lnew, fwdOf cfg st a.src a.msg false a.general = Lnew.flatMap (block cfg arr) ∧
      Inv cfg (hist ++ [a]) (st.point cfg a.src a.msg false a.general).1 (L ++ Lnew) := by
  obtain ⟨hl1, hl2, hl3⟩ := point_lowMarks cfg st a.src a.msg false a.general
  have hkeys := point_gen_specKeys cfg st a.src a.msg a.general hI.keys
  have hMB := point_gen_matchBuf cfg st a.src a.msg a.general
  have hSB := point_gen_specBuf cfg st a.src a.msg a.general
  have hfw := fwdOf_gen cfg st a.src a.msg a.general
  have hpv := purged_view cfg st (ar' cfg st a.src) (lowMark' cfg st a.src a.msg a.general) a.general
  by_cases hC : view st.specBuf a.general = []
  · -- nothing cached for this general group
    have hP : purged cfg st (ar' cfg st a.src) (lowMark' cfg st a.src a.msg a.general) a.general = [] := by
      rw [hpv, hC]; cases ar' cfg st a.src <;> simp
    have hAP : afterPurge cfg st a.src a.msg a.general = [] := by unfold afterPurge; rw [hC]; simp
    have hsame : sameOf cfg st a.src a.msg a.general = [] := by unfold sameOf; rw [hAP]; simp
    refine ⟨[], ?_, ?_⟩
    · rw [hfw, hP, hsame]; rfl
    · have := inv_post_gen c hI hs _ hl1 hl2 hl3 hkeys hMB [] [] (by rw [hC]; rfl)
        (by intro g'; rw [hSB g', hAP]; by_cases hg : g' = a.general <;> simp [hg])
        (by simp)
      simpa using this
  · obtain ⟨y0, hy0⟩ := List.exists_mem_of_ne_nil _ hC
    have hs0 := hI.cached_mem a.general y0 hy0
    have hspec_src : ∀ y ∈ view st.specBuf a.general, ¬ a.src = y.1 := by
      intro y hy h
      have := c.dom.kind a c.memA (toArr a.general y) (c.memH _ (hI.cached_mem a.general y hy)) h
      rw [hs] at this
      exact absurd this (by simp [toArr])
    rcases lowMark_cases c hI with ⟨hLm, hnone⟩ | ⟨v, vO, o, hLm, har, hvt, hvO, hvor, ho, hos, hog, hort, hbound⟩
    · exact absurd (hnone _ hs0 rfl).symm (hspec_src y0 hy0)
    · have hP : purged cfg st (ar' cfg st a.src) (lowMark' cfg st a.src a.msg a.general) a.general =
          (view st.specBuf a.general).takeWhile (fun x => decide (rtP cfg x < v)) := by
        rw [hpv, har, hLm]; rfl
      have hAP : afterPurge cfg st a.src a.msg a.general = (view st.specBuf a.general).dropWhile (fun x => decide (rtP cfg x < v)) := by
        unfold afterPurge; rw [hP, drop_length_takeWhile]
      have hsame : sameOf cfg st a.src a.msg a.general =
          ((view st.specBuf a.general).dropWhile (fun x => decide (rtP cfg x < v))).takeWhile (fun x => decide (rtP cfg x = rtA cfg a)) := by
        unfold sameOf; rw [hAP]; rfl
      have hsorted := hI.cached_sorted c a.general
      have hrem_sorted : ((view st.specBuf a.general).dropWhile (fun x => decide (rtP cfg x < v))).Pairwise
          (fun x y => rtP cfg x ≤ rtP cfg y) := hsorted.sublist (List.dropWhile_sublist _)
      have hrem_ge := dropWhile_lt_ge cfg v _ hsorted
      have hsplit : view st.specBuf a.general =
          ((view st.specBuf a.general).takeWhile (fun x => decide (rtP cfg x < v)) ++
            ((view st.specBuf a.general).dropWhile (fun x => decide (rtP cfg x < v))).takeWhile (fun x => decide (rtP cfg x = rtA cfg a))) ++
          ((view st.specBuf a.general).dropWhile (fun x => decide (rtP cfg x < v))).dropWhile (fun x => decide (rtP cfg x = rtA cfg a)) := by
        rw [List.append_assoc, List.takeWhile_append_dropWhile, List.takeWhile_append_dropWhile]
      refine ⟨((view st.specBuf a.general).takeWhile (fun x => decide (rtP cfg x < v)) ++
            ((view st.specBuf a.general).dropWhile (fun x => decide (rtP cfg x < v))).takeWhile (fun x => decide (rtP cfg x = rtA cfg a))).map
          (toArr a.general), ?_, ?_⟩
      · rw [hfw, hP, hsame, List.map_append, List.flatMap_append]
        rw [blocks_alone cfg arr a.general _ (by
          intro y hy b hb hb1 hb2
          obtain ⟨hyC, hyv⟩ := mem_takeWhile _ _ y hy
          simp only [decide_eq_true_eq] at hyv
          rcases mem_split c.split hb with h | h | h
          · exact hI.sbC a.general y hyC b h hb1 hb2
          · rw [h]; omega
          · have hsrc := c.gen_src (toArr a.general y0) a b (c.memH _ hs0) rfl c.memA hb hs hb1
            have := c.ordAR b h hsrc hb2.symm
            omega)]
        rw [blocks_matched cfg arr a.general a _ (by
          intro y hy
          obtain ⟨hyR, hyt⟩ := mem_takeWhile _ _ y hy
          simp only [decide_eq_true_eq] at hyt
          have hyC : y ∈ view st.specBuf a.general := (List.dropWhile_sublist _).subset hyR
          exact partner_some cfg arr c.dom (toArr a.general y) a c.memA hs (hspec_src y hyC) rfl hyt.symm)]
      · have hnew : ∀ x ∈ ((view st.specBuf a.general).dropWhile (fun x => decide (rtP cfg x < v))).dropWhile
            (fun x => decide (rtP cfg x = rtA cfg a)), rtA cfg a ≠ rtP cfg x := by
          intro x hx
          by_cases hveq : v = rtA cfg a
          · have := dropWhile_eq_gt cfg (rtA cfg a) _ hrem_sorted (by intro y hy; have := hrem_ge y hy; omega) x hx
            omega
          · have hxC : x ∈ view st.specBuf a.general := (List.dropWhile_sublist _).subset ((List.dropWhile_sublist _).subset hx)
            have hxm := hI.cached_mem a.general x hxC
            have := hbound (toArr a.general x) hxm (fun h => hspec_src x hxC h.symm) rfl
            have h3 : rtA cfg (toArr a.general x) = rtP cfg x := rfl
            omega
        exact inv_post_gen c hI hs _ hl1 hl2 hl3 hkeys hMB _ _ hsplit
          (by intro g'; rw [hSB g', hsame, hAP, drop_length_takeWhile])
          hnew

end OnP
end Kap.C12
