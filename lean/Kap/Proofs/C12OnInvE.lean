/-
C12 — join.on(): the whole run. On the claimed domain `JOn.forwarded` is the list of blocks of a permutation of the
specific arrivals that is, per general group, in arrival order — hence in range, ordered per group and parent, and
its plain-join pairing is the `on()` pairing (`forwarded_is_pairing`).
-/
import Kap.Proofs.C12OnInvD
namespace Kap.C12
open Spec
set_option linter.unusedSimpArgs false
set_option linter.unusedVariables false

namespace OnP
open JOn

/-- An arrival as the model's run takes it. -/
def tup (a : OnArrival) : Nat × JMsg × Bool × String := (a.src, a.msg, a.specific, a.general)

theorem run_inv (cfg : JCfg) (arr : List OnArrival) (hd : Dom cfg arr) :
    ∀ (rest hist : List OnArrival) (st : JOn) (L : List OnArrival), arr = hist ++ rest → Inv cfg hist st L →
      ∃ L', forwardedFrom cfg st (rest.map tup) = L'.flatMap (block cfg arr) ∧
        Inv cfg arr (runArrivals cfg st (rest.map tup)).1 (L ++ L') := by
  intro rest
  induction rest with
  | nil =>
    intro hist st L harr hI
    refine ⟨[], rfl, ?_⟩
    simp only [List.append_nil] at harr
    subst harr
    simpa [runArrivals] using hI
  | cons a rest ih =>
    intro hist st L harr hI
    have c : Ctx cfg arr hist a rest := ⟨hd, harr⟩
    have hstep : ∃ Lnew, fwdOf cfg st a.src a.msg a.specific a.general = Lnew.flatMap (block cfg arr) ∧
        Inv cfg (hist ++ [a]) (st.point cfg a.src a.msg a.specific a.general).1 (L ++ Lnew) := by
      cases hs : a.specific with
      | true => exact step_spec c hI hs
      | false => exact step_gen c hI hs
    obtain ⟨Lnew, hfw, hI'⟩ := hstep
    obtain ⟨L'', hfw', hI''⟩ := ih (hist ++ [a]) (st.point cfg a.src a.msg a.specific a.general).1 (L ++ Lnew)
      (by rw [harr]; simp) hI'
    refine ⟨Lnew ++ L'', ?_, ?_⟩
    · simp only [List.map_cons, forwardedFrom, tup, List.flatMap_append]
      rw [hfw]
      congr 1
    · rw [← List.append_assoc]
      exact hI''

/-! ### the cache at Finish -/

/-- The cached specific points as arrivals. -/
def cachedArr (m : List (String × List (Nat × JMsg))) : List OnArrival := m.flatMap (fun p => p.2.map (toArr p.1))

theorem view_nil_of_not_key (m : List (String × List (Nat × JMsg))) (g : String) (h : g ∉ m.map (·.1)) : view m g = [] := by
  induction m with
  | nil => rfl
  | cons p ps ih =>
    obtain ⟨k, buf⟩ := p
    simp only [List.map_cons, List.mem_cons, not_or] at h
    have hk : ¬ k = g := fun e => h.1 e.symm
    have := ih h.2
    unfold view at this ⊢
    simp only [bufLookup, hk, if_false]
    exact this

theorem view_cons (k : String) (buf : List (Nat × JMsg)) (m : List (String × List (Nat × JMsg))) (g : String) :
    view ((k, buf) :: m) g = if k = g then buf else view m g := by
  unfold view
  by_cases hk : k = g <;> simp [bufLookup, hk]

theorem cachedArr_filter (m : List (String × List (Nat × JMsg))) (hn : (m.map (·.1)).Nodup) (g : String) :
    (cachedArr m).filter (fun a => a.general == g) = (view m g).map (toArr g) := by
  induction m with
  | nil => rfl
  | cons p ps ih =>
    obtain ⟨k, buf⟩ := p
    simp only [List.map_cons, List.nodup_cons] at hn
    unfold cachedArr at ih ⊢
    rw [List.flatMap_cons, List.filter_append, ih hn.2, view_cons]
    by_cases hk : k = g
    · subst hk
      simp only [if_true, filter_toArr_self, view_nil_of_not_key ps k hn.1, List.map_nil, List.append_nil]
    · simp only [hk, if_false, filter_toArr_other _ _ hk, List.nil_append]

theorem view_of_mem (m : List (String × List (Nat × JMsg))) (hn : (m.map (·.1)).Nodup) (p : String × List (Nat × JMsg)) (hp : p ∈ m) :
    view m p.1 = p.2 := by
  induction m with
  | nil => simp at hp
  | cons q qs ih =>
    obtain ⟨k, buf⟩ := q
    simp only [List.map_cons, List.nodup_cons] at hn
    rw [view_cons]
    rcases List.mem_cons.mp hp with h | h
    · subst h; simp
    · have hk : ¬ k = p.1 := by
        intro e
        apply hn.1
        rw [e]
        exact List.mem_map.mpr ⟨p, h, rfl⟩
      simp only [hk, if_false]
      exact ih hn.2 h

theorem cached_blocks (cfg : JCfg) (arr : List OnArrival) (m : List (String × List (Nat × JMsg)))
    (h : ∀ p ∈ m, ∀ y ∈ p.2, ∀ b ∈ arr, b.specific = false → b.general = p.1 → rtA cfg b ≠ rtP cfg y) :
    (cachedArr m).flatMap (block cfg arr) = m.flatMap (·.2) := by
  induction m with
  | nil => rfl
  | cons p ps ih =>
    unfold cachedArr at ih ⊢
    rw [List.flatMap_cons, List.flatMap_append, List.flatMap_cons, ih (fun q hq => h q (by simp [hq])),
      blocks_alone cfg arr p.1 p.2 (h p (by simp))]

/-- **What `matchPoints` forwards on the claimed domain.** -/
theorem forwarded_structure (cfg : JCfg) (arr : List OnArrival) (hd : Dom cfg arr) :
    ∃ LT : List OnArrival, forwarded cfg (arr.map tup) = LT.flatMap (block cfg arr) ∧
      ∀ g, LT.filter (fun a => a.general == g) = arr.filter (fun a => a.specific && a.general == g) := by
  obtain ⟨L', hfw, hI⟩ := run_inv cfg arr hd arr [] {} [] (by simp) (inv_init cfg)
  simp only [List.nil_append] at hI
  refine ⟨L' ++ cachedArr (runArrivals cfg {} (arr.map tup)).1.specBuf, ?_, ?_⟩
  · unfold forwarded
    rw [List.flatMap_append, hfw, cached_blocks cfg arr _ (by
      intro p hp y hy b hb hb1 hb2
      have hv := view_of_mem _ hI.keys p hp
      exact hI.sbC p.1 y (by rw [hv]; exact hy) b hb hb1 hb2)]
  · intro g
    rw [List.filter_append, cachedArr_filter _ hI.keys g]
    exact hI.acc g

/-- **on_forwarded_is_pairing**: on the claimed domain the forwarded points come from parents in range, are in
rounded-time order per group and parent, and their plain-join pairing is the `on()` pairing. -/
theorem forwarded_is_pairing (cfg : JCfg) (arr : List OnArrival) (hdom : onDomain cfg arr) :
    (∀ p ∈ forwarded cfg (arr.map tup), p.1 < cfg.parents) ∧
    joinOrdered cfg ((forwarded cfg (arr.map tup)).map (fun p => (p.1, p.2.grp, p.2.time))) ∧
    (joinOutput cfg (forwarded cfg (arr.map tup))).Perm (joinOnOutput cfg arr) := by
  have hd := dom_of_onDomain cfg arr hdom
  obtain ⟨LT, hfw, hacc⟩ := forwarded_structure cfg arr hd
  rw [hfw]
  have hperm : LT.Perm (arr.filter (·.specific)) := by
    apply perm_of_filter_key (fun a : OnArrival => a.general)
    intro g
    rw [hacc g, List.filter_filter]
    apply List.filter_congr
    intro x _
    exact Bool.and_comm _ _
  have hmem : ∀ x ∈ LT, x ∈ arr ∧ x.specific = true := by
    intro x hx
    have := List.mem_filter.mp (hperm.mem_iff.mp hx)
    exact this
  have hgood : GoodL cfg LT :=
    ⟨fun x hx y hy => hd.one x (hmem x hx).1 y (hmem y hy).1 (hmem x hx).2 (hmem y hy).2,
     fun x hx => by rw [hd.par]; exact hd.src_lt x (hmem x hx).1,
     fun x hx y hy => hd.gen x (hmem x hx).1 y (hmem y hy).1 (hmem x hx).2 (hmem y hy).2⟩
  refine ⟨?_, ?_, ?_⟩
  · exact blocks_src_lt cfg arr LT cfg.parents hgood.src_lt (fun b hb => by rw [hd.par]; exact hd.src_lt b hb)
  · apply joinOrdered_blocks
    intro g
    unfold nondecreasing
    cases hl : LT.filter (fun a => a.msg.grp == g) with
    | nil => simp
    | cons x0 xs =>
      rw [← hl]
      have hx0 : x0 ∈ LT ∧ x0.msg.grp = g := by
        have : x0 ∈ LT.filter (fun a => a.msg.grp == g) := by rw [hl]; simp
        have := List.mem_filter.mp this
        exact ⟨this.1, by simpa using this.2⟩
      have hre : LT.filter (fun a => a.msg.grp == g) =
          (LT.filter (fun a => a.general == x0.general)).filter (fun a => a.msg.grp == g) := by
        rw [List.filter_filter]
        apply List.filter_congr
        intro x hx
        by_cases hxg : x.msg.grp = g
        · have : x.general = x0.general := hgood.gen x hx x0 hx0.1 (by rw [hxg, hx0.2])
          simp [hxg, this]
        · simp [hxg]
      rw [hre, hacc x0.general, List.pairwise_map]
      have h1 : (arr.filter (fun a => a.specific && a.general == x0.general)).Pairwise
          (fun a b => a.src = b.src → a.general = b.general → rtA cfg a ≤ rtA cfg b) := hd.ord.sublist List.filter_sublist
      have h2 : (arr.filter (fun a => a.specific && a.general == x0.general)).Pairwise (fun a b => rtA cfg a ≤ rtA cfg b) := by
        refine h1.imp_of_mem ?_
        intro x y hx hy hxy
        have hx' := List.mem_filter.mp hx
        have hy' := List.mem_filter.mp hy
        simp only [Bool.and_eq_true, beq_iff_eq] at hx' hy'
        exact hxy (hd.one x hx'.1 y hy'.1 hx'.2.1 hy'.2.1) (by rw [hx'.2.2, hy'.2.2])
      exact h2.sublist List.filter_sublist
  · refine (joinOutput_blocks cfg arr LT hgood).trans ?_
    rw [joinOnOutput_eq]
    exact hperm.filterMap _

/-- On the domain the `on()` pairing is a function of the MULTISET of arrivals (the partner is unique). -/
theorem joinOnOutput_perm (cfg : JCfg) (a₁ a₂ : List OnArrival) (h₂ : onDomain cfg a₂) (hp : a₁.Perm a₂) :
    (joinOnOutput cfg a₁).Perm (joinOnOutput cfg a₂) := by
  have hd2 := dom_of_onDomain cfg a₂ h₂
  have hpart : ∀ a, partnerOf cfg a₁ a = partnerOf cfg a₂ a := by
    intro a
    cases h : partnerOf cfg a₁ a with
    | none =>
      symm
      unfold partnerOf at h ⊢
      rw [List.find?_eq_none] at h ⊢
      intro x hx
      exact h x (hp.mem_iff.mpr hx)
    | some b =>
      symm
      have hb := hp.mem_iff.mp (List.mem_of_find?_eq_some h)
      have hpb := List.find?_some h
      simp only [Bool.and_eq_true, Bool.not_eq_true', beq_iff_eq, bne_iff_ne] at hpb
      exact partner_some cfg a₂ hd2 a b hb hpb.1.1.1 hpb.1.1.2 hpb.1.2 hpb.2
  have hout : outOf cfg a₁ = outOf cfg a₂ := by
    funext a
    simp only [outOf, valsOf, col, hpart a]
  rw [joinOnOutput_eq, joinOnOutput_eq, hout]
  exact (hp.filter _).filterMap _

end OnP
end Kap.C12
