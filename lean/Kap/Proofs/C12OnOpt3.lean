/-
C12 — join.on(): the low mark of a call of `matchPoints` is never after the point's own rounded time (it is a minimum
that includes `lowMarks[(p.Src, groupId)] = t`, just written), so "Option 3" (`t.Before(lowMark)`) cannot fire.
Any number of parents, any state.
-/
import Kap.Proofs.C12OnViewA
namespace Kap.C12
set_option linter.unusedSimpArgs false
set_option linter.unusedVariables false

namespace JOn

theorem foldl_lowMark (gid : String) (lms : List ((Nat × String) × Int)) (l : List Nat) (acc : Option Int)
    (hall : ∀ s ∈ l, (lmLookup (s, gid) lms).isSome) :
    (∀ a, acc = some a → ∃ v, l.foldl (fun lowMark s =>
        if zeroOrLmBefore (lmLookup (s, gid) lms) lowMark then lmLookup (s, gid) lms else lowMark) acc = some v ∧ v ≤ a) ∧
    (∀ s0 ∈ l, ∀ x, lmLookup (s0, gid) lms = some x → ∃ v, l.foldl (fun lowMark s =>
        if zeroOrLmBefore (lmLookup (s, gid) lms) lowMark then lmLookup (s, gid) lms else lowMark) acc = some v ∧ v ≤ x) := by
  induction l generalizing acc with
  | nil =>
    refine ⟨fun a ha => ⟨a, by simpa using ha, Int.le_refl _⟩, ?_⟩
    intro s0 hs0; simp at hs0
  | cons s l ih =>
    obtain ⟨y, hy⟩ := Option.isSome_iff_exists.mp (hall s (by simp))
    have hall' : ∀ s' ∈ l, (lmLookup (s', gid) lms).isSome := fun s' hs' => hall s' (by simp [hs'])
    simp only [List.foldl_cons, hy]
    cases acc with
    | none =>
      simp only [zeroOrLmBefore, if_true]
      obtain ⟨i1, i2⟩ := ih (some y) hall'
      refine ⟨fun a ha => by simp at ha, ?_⟩
      intro s0 hs0 x hx
      rcases List.mem_cons.mp hs0 with h | h
      · subst h
        rw [hy] at hx
        simp only [Option.some.injEq] at hx
        subst hx
        exact i1 y rfl
      · exact i2 s0 h x hx
    | some a =>
      simp only [zeroOrLmBefore]
      by_cases hya : y < a
      · simp only [hya, decide_true, if_true]
        obtain ⟨i1, i2⟩ := ih (some y) hall'
        refine ⟨?_, ?_⟩
        · intro a' ha'
          simp only [Option.some.injEq] at ha'
          obtain ⟨v, hv, hle⟩ := i1 y rfl
          exact ⟨v, hv, by omega⟩
        · intro s0 hs0 x hx
          rcases List.mem_cons.mp hs0 with h | h
          · subst h
            rw [hy] at hx
            simp only [Option.some.injEq] at hx
            subst hx
            exact i1 y rfl
          · exact i2 s0 h x hx
      · simp only [hya, decide_false, Bool.false_eq_true, if_false]
        obtain ⟨i1, i2⟩ := ih (some a) hall'
        refine ⟨?_, ?_⟩
        · intro a' ha'
          simp only [Option.some.injEq] at ha'
          subst ha'
          exact i1 a rfl
        · intro s0 hs0 x hx
          rcases List.mem_cons.mp hs0 with h | h
          · subst h
            rw [hy] at hx
            simp only [Option.some.injEq] at hx
            subst hx
            obtain ⟨v, hv, hle⟩ := i1 a rfl
            exact ⟨v, hv, by omega⟩
          · exact i2 s0 h x hx

/-- The low mark is never after the time just written for the point's own parent. -/
theorem beforeMark_own_lowMark (parents src : Nat) (gid : String) (t : Int) (lms : List ((Nat × String) × Int)) (hs : src < parents) :
    beforeMark t (lowMarkOf parents gid (lmUpsert (src, gid) t lms)) = false := by
  unfold lowMarkOf
  split
  · rename_i hall
    have hall' : ∀ s ∈ List.range parents, (lmLookup (s, gid) (lmUpsert (src, gid) t lms)).isSome := by
      intro s hs'
      exact List.all_eq_true.mp hall s hs'
    have hown : lmLookup (src, gid) (lmUpsert (src, gid) t lms) = some t := by
      rw [lmLookup_lmUpsert]; simp
    obtain ⟨v, hv, hle⟩ := (foldl_lowMark gid _ (List.range parents) none hall').2 src (List.mem_range.mpr hs) t hown
    unfold lowMarkOfOld
    simp only []
    rw [hv]
    simp only [beforeMark, decide_eq_false_iff_not]
    omega
  · rfl

end JOn
end Kap.C12
