/-
C12 — join.on(), specification side: the plain-join pairing (`Spec.joinOutput`) of a list of BLOCKS — every specific
arrival followed by its re-tagged general partner when it has one — is the `on()` pairing (`Spec.joinOnOutput`).
No model here: only the two specification functions.
-/
import Kap.Proofs.C12OnFwd
import Kap.Proofs.C12PairK
namespace Kap.C12
open Spec
set_option linter.unusedSimpArgs false
set_option linter.unusedVariables false

namespace OnP

/-- Rounded time of an arrival. -/
def rtA (cfg : JCfg) (a : OnArrival) : Int := goRound cfg.tol a.msg.time

/-- The general point `joinOnOutput` pairs a specific arrival with. -/
def partnerOf (cfg : JCfg) (arr : List OnArrival) (a : OnArrival) : Option OnArrival :=
  arr.find? (fun b => !b.specific && b.src != a.src && b.general == a.general && goRound cfg.tol b.msg.time == goRound cfg.tol a.msg.time)

/-- The partner with the specific point's group. -/
def retagA (a b : OnArrival) : JMsg :=
  { b.msg with tags := groupTags a.msg, dims := a.msg.dims, byName := a.msg.byName, grp := a.msg.grp }

/-- What parent `i` contributes to the set of the specific arrival `a`. -/
def col (cfg : JCfg) (arr : List OnArrival) (i : Nat) (a : OnArrival) : Option JMsg :=
  if i = a.src then some a.msg else
  match partnerOf cfg arr a with
  | some b => if i = b.src then some (retagA a b) else none
  | none => none

def valsOf (cfg : JCfg) (arr : List OnArrival) (a : OnArrival) : List (Option JMsg) :=
  (List.range cfg.parents).map (fun i => col cfg arr i a)

def outOf (cfg : JCfg) (arr : List OnArrival) (a : OnArrival) : Option JOut :=
  joinedPoint cfg { time := rtA cfg a, values := valsOf cfg arr a }

theorem joinOnOutput_eq (cfg : JCfg) (arr : List OnArrival) :
    joinOnOutput cfg arr = (arr.filter (·.specific)).filterMap (outOf cfg arr) := by
  rw [List.filterMap_filter]
  unfold joinOnOutput
  apply filterMap_congr'
  intro a _
  cases hs : a.specific with
  | false => simp
  | true =>
    simp only [Bool.not_true, Bool.false_eq_true, if_false, if_true, outOf, valsOf, rtA]
    congr 2
    apply List.map_congr_left
    intro i _
    unfold col partnerOf
    by_cases hi : i = a.src
    · simp [hi]
    · simp only [hi, if_false]
      cases arr.find? (fun b => !b.specific && b.src != a.src && b.general == a.general && goRound cfg.tol b.msg.time == goRound cfg.tol a.msg.time) with
      | none => rfl
      | some b => rfl

/-- What the join groups get for one specific arrival: the point, then its re-tagged partner (if any). -/
def block (cfg : JCfg) (arr : List OnArrival) (a : OnArrival) : List (Nat × JMsg) :=
  (a.src, a.msg) :: (match partnerOf cfg arr a with
    | some b => [(b.src, retagA a b)]
    | none => [])

theorem partner_src_ne (cfg : JCfg) (arr : List OnArrival) (a b : OnArrival) (h : partnerOf cfg arr a = some b) : b.src ≠ a.src := by
  have := List.find?_some h
  simp only [Bool.and_eq_true, bne_iff_ne, ne_eq] at this
  exact this.1.1.2

theorem partner_rt (cfg : JCfg) (arr : List OnArrival) (a b : OnArrival) (h : partnerOf cfg arr a = some b) : rtA cfg b = rtA cfg a := by
  have := List.find?_some h
  simp only [Bool.and_eq_true, beq_iff_eq] at this
  exact this.2

theorem partner_congr (cfg : JCfg) (arr : List OnArrival) (a a' : OnArrival) (h1 : a.src = a'.src) (h2 : a.general = a'.general)
    (h3 : rtA cfg a = rtA cfg a') : partnerOf cfg arr a = partnerOf cfg arr a' := by
  unfold partnerOf
  unfold rtA at h3
  rw [h1, h2, h3]

theorem parentSeq_block (cfg : JCfg) (arr : List OnArrival) (i : Nat) (a : OnArrival) :
    parentSeq i (block cfg arr a) = (col cfg arr i a).toList := by
  unfold block col
  cases hp : partnerOf cfg arr a with
  | none =>
    by_cases hi : i = a.src
    · simp [parentSeq, hi]
    · have : ¬ a.src = i := fun h => hi h.symm
      simp [parentSeq, hi, this]
  | some b =>
    have hne := partner_src_ne cfg arr a b hp
    by_cases hi : i = a.src
    · subst hi
      simp [parentSeq, hne]
    · have h1 : ¬ a.src = i := fun h => hi h.symm
      by_cases hb : i = b.src
      · subst hb; simp [parentSeq, hi, h1]
      · have h2 : ¬ b.src = i := fun h => hb h.symm
        simp [parentSeq, hi, h1, hb, h2]

theorem parentSeq_append {β : Type} (i : Nat) (x y : List (Nat × β)) : parentSeq i (x ++ y) = parentSeq i x ++ parentSeq i y := by
  simp [parentSeq]

theorem parentSeq_blocks (cfg : JCfg) (arr : List OnArrival) (i : Nat) (L : List OnArrival) :
    parentSeq i (L.flatMap (block cfg arr)) = L.filterMap (col cfg arr i) := by
  induction L with
  | nil => rfl
  | cons a L ih =>
    rw [List.flatMap_cons, parentSeq_append, ih, parentSeq_block]
    cases h : col cfg arr i a with
    | none => simp [List.filterMap_cons, h]
    | some v => simp [List.filterMap_cons, h]

/-! ### rows of uniform columns -/

theorem filterMap_getElem?_all_some {β γ : Type} (f : β → Option γ) (l : List β) (h : ∀ a ∈ l, (f a).isSome) (k : Nat) :
    (l.filterMap f)[k]? = (l[k]?).bind f := by
  induction l generalizing k with
  | nil => simp
  | cons x xs ih =>
    obtain ⟨y, hy⟩ := Option.isSome_iff_exists.mp (h x (by simp))
    rw [List.filterMap_cons_some hy]
    cases k with
    | zero => simp [hy]
    | succ k => simp only [List.getElem?_cons_succ]; exact ih (fun a ha => h a (by simp [ha])) k

theorem filterMap_length_all_some {β γ : Type} (f : β → Option γ) (l : List β) (h : ∀ a ∈ l, (f a).isSome) :
    (l.filterMap f).length = l.length := by
  induction l with
  | nil => rfl
  | cons x xs ih =>
    obtain ⟨y, hy⟩ := Option.isSome_iff_exists.mp (h x (by simp))
    rw [List.filterMap_cons_some hy]
    simp [ih (fun a ha => h a (by simp [ha]))]

/-- Columns that are, each, present for every element of `l` or for none, one of them for every element: the rows
are the elements of `l`. -/
theorem rowsOf_uniform {β γ : Type} (l : List β) (n : Nat) (c : Nat → β → Option γ)
    (hu : ∀ i, i < n → (∀ a ∈ l, (c i a).isSome) ∨ (∀ a ∈ l, c i a = none))
    (h0 : l ≠ [] → ∃ i, i < n ∧ ∀ a ∈ l, (c i a).isSome) :
    rowsOf ((List.range n).map (fun i => l.filterMap (c i))) = l.map (fun a => (List.range n).map (fun i => c i a)) := by
  have hM : (((List.range n).map (fun i => l.filterMap (c i))).map List.length).foldl max 0 = l.length := by
    apply Nat.le_antisymm
    · apply foldl_max_le _ _ _ (Nat.zero_le _)
      intro x hx
      simp only [List.mem_map, List.mem_range] at hx
      obtain ⟨cc, ⟨i, hi, rfl⟩, rfl⟩ := hx
      exact List.length_filterMap_le _ _
    · by_cases hz : l = []
      · simp [hz]
      · obtain ⟨i, hi, hall⟩ := h0 hz
        have := (foldl_max_ge (((List.range n).map (fun i => l.filterMap (c i))).map List.length) 0).2 (l.filterMap (c i)).length
          (by simp only [List.mem_map, List.mem_range]; exact ⟨l.filterMap (c i), ⟨i, hi, rfl⟩, rfl⟩)
        rw [filterMap_length_all_some _ _ hall] at this
        exact this
  apply List.ext_getElem?
  intro k
  unfold rowsOf
  rw [hM]
  simp only [List.getElem?_map, List.getElem?_range]
  by_cases hk : k < l.length
  · rw [List.getElem?_eq_getElem hk]
    simp only [hk, List.getElem?_range, Option.map_some, Option.some.injEq, List.map_map]
    apply List.map_congr_left
    intro i hi
    have hi' := List.mem_range.mp hi
    simp only [Function.comp]
    rcases hu i hi' with hs | hn
    · rw [filterMap_getElem?_all_some _ _ hs, List.getElem?_eq_getElem hk]; rfl
    · have : l.filterMap (c i) = [] := List.filterMap_eq_nil_iff.mpr hn
      rw [this, hn _ (List.getElem_mem hk)]; rfl
  · have hk' : l.length ≤ k := by omega
    simp [hk, hk']

end OnP
end Kap.C12
