/-
C12 — join.on(), specification side, part 2: `joinOutput` of a list of blocks is, up to permutation, one `on()` point
per block (`joinOutput_blocks`); a list of blocks is ordered per group and parent when the specific arrivals are
ordered per group (`joinOrdered_blocks`).
-/
import Kap.Proofs.C12OnSpecA
namespace Kap.C12
open Spec
set_option linter.unusedSimpArgs false
set_option linter.unusedVariables false

namespace OnP

/-- A list is, up to permutation, the concatenation of its key classes. -/
theorem perm_partition {κ β : Type} [BEq κ] [LawfulBEq κ] [DecidableEq β] (key : β → κ) (l : List β) :
    ((distinct (l.map key)).flatMap (fun k => l.filter (fun x => key x == k))).Perm l := by
  apply perm_of_filter_key key
  intro k
  rw [filter_flatMap_keyed _ (nodup_distinct _) _ key (by
    intro k' _ x hx
    simpa using (List.mem_filter.mp hx).2) k]
  by_cases hk : k ∈ distinct (l.map key)
  · simp [hk]
  · simp only [hk, if_false]
    symm
    apply List.filter_eq_nil_iff.mpr
    intro x hx hkx
    apply hk
    rw [mem_distinct]
    simp only [beq_iff_eq] at hkx
    exact List.mem_map.mpr ⟨x, hx, hkx⟩

/-- What is required of the specific arrivals whose blocks are forwarded. -/
structure GoodL (cfg : JCfg) (L : List OnArrival) : Prop where
  src_eq : ∀ a ∈ L, ∀ a' ∈ L, a.src = a'.src
  src_lt : ∀ a ∈ L, a.src < cfg.parents
  gen : ∀ a ∈ L, ∀ a' ∈ L, a.msg.grp = a'.msg.grp → a.general = a'.general

theorem GoodL.sub {cfg : JCfg} {L L' : List OnArrival} (h : GoodL cfg L) (hs : ∀ a ∈ L', a ∈ L) : GoodL cfg L' :=
  ⟨fun a ha a' ha' => h.src_eq a (hs a ha) a' (hs a' ha'), fun a ha => h.src_lt a (hs a ha),
   fun a ha a' ha' => h.gen a (hs a ha) a' (hs a' ha')⟩

theorem block_grp (cfg : JCfg) (arr : List OnArrival) (a : OnArrival) : ∀ x ∈ block cfg arr a, x.2.grp = a.msg.grp := by
  intro x hx
  unfold block at hx
  cases hp : partnerOf cfg arr a with
  | none => rw [hp] at hx; simp at hx; rw [hx]
  | some b =>
    rw [hp] at hx
    simp only [List.mem_cons, List.not_mem_nil, or_false] at hx
    rcases hx with rfl | rfl
    · rfl
    · rfl

theorem block_rt (cfg : JCfg) (arr : List OnArrival) (a : OnArrival) : ∀ x ∈ block cfg arr a, goRound cfg.tol x.2.time = rtA cfg a := by
  intro x hx
  unfold block at hx
  cases hp : partnerOf cfg arr a with
  | none => rw [hp] at hx; simp at hx; rw [hx]; rfl
  | some b =>
    rw [hp] at hx
    simp only [List.mem_cons, List.not_mem_nil, or_false] at hx
    rcases hx with rfl | rfl
    · rfl
    · exact partner_rt cfg arr a b hp

theorem head_mem_block (cfg : JCfg) (arr : List OnArrival) (a : OnArrival) : (a.src, a.msg) ∈ block cfg arr a := by
  unfold block; simp

theorem filter_blocks (cfg : JCfg) (arr : List OnArrival) (g : String) (L : List OnArrival) :
    (L.flatMap (block cfg arr)).filter (fun x => x.2.grp == g) = (L.filter (fun a => a.msg.grp == g)).flatMap (block cfg arr) := by
  induction L with
  | nil => rfl
  | cons a L ih =>
    rw [List.flatMap_cons, List.filter_append, ih]
    by_cases hg : a.msg.grp = g
    · have h1 : (block cfg arr a).filter (fun x => x.2.grp == g) = block cfg arr a := by
        apply List.filter_eq_self.mpr
        intro x hx; simp [block_grp cfg arr a x hx, hg]
      simp [h1, hg, List.filter_cons]
    · have h1 : (block cfg arr a).filter (fun x => x.2.grp == g) = [] := by
        apply List.filter_eq_nil_iff.mpr
        intro x hx; simp [block_grp cfg arr a x hx, hg]
      simp [h1, hg, List.filter_cons]

theorem col_rt (cfg : JCfg) (arr : List OnArrival) (i : Nat) (a : OnArrival) (v : JMsg) (h : col cfg arr i a = some v) :
    goRound cfg.tol v.time = rtA cfg a := by
  unfold col at h
  by_cases hi : i = a.src
  · simp only [hi, if_true, Option.some.injEq] at h; subst h; rfl
  · simp only [hi, if_false] at h
    cases hp : partnerOf cfg arr a with
    | none => rw [hp] at h; simp at h
    | some b =>
      rw [hp] at h
      simp only at h
      by_cases hb : i = b.src
      · simp only [hb, if_true, Option.some.injEq] at h; subst h; exact partner_rt cfg arr a b hp
      · simp [hb] at h

theorem occs_filterMap_col (cfg : JCfg) (arr : List OnArrival) (i : Nat) (t : Int) (L : List OnArrival) :
    occs (fun m : JMsg => goRound cfg.tol m.time) t (L.filterMap (col cfg arr i)) =
      (L.filter (fun a => rtA cfg a == t)).filterMap (col cfg arr i) := by
  induction L with
  | nil => rfl
  | cons a L ih =>
    unfold occs at ih ⊢
    cases hc : col cfg arr i a with
    | none =>
      rw [List.filterMap_cons_none hc, ih]
      by_cases ht : rtA cfg a = t
      · simp [List.filter_cons, ht, List.filterMap_cons_none hc]
      · simp [List.filter_cons, ht]
    | some v =>
      rw [List.filterMap_cons_some hc]
      have hv := col_rt cfg arr i a v hc
      by_cases ht : rtA cfg a = t
      · simp only [List.filter_cons, hv, ht, beq_self_eq_true, if_true]
        rw [List.filterMap_cons_some hc, ih]
      · have : ¬ (rtA cfg a == t) = true := by simpa using ht
        simp only [List.filter_cons, hv, this, if_false]
        exact ih

theorem col_isSome_congr (cfg : JCfg) (arr : List OnArrival) (i : Nat) (a a' : OnArrival) (h1 : a.src = a'.src)
    (h2 : partnerOf cfg arr a = partnerOf cfg arr a') : (col cfg arr i a).isSome = (col cfg arr i a').isSome := by
  unfold col
  rw [← h1, ← h2]
  by_cases hi : i = a.src
  · simp [hi]
  · simp only [hi, if_false]
    cases partnerOf cfg arr a with
    | none => rfl
    | some b =>
      simp only
      by_cases hb : i = b.src
      · simp [hb]
      · simp [hb]

/-- The set `joinOnOutput` builds for a specific arrival. -/
def setOf (cfg : JCfg) (arr : List OnArrival) (a : OnArrival) : JSet JMsg := { time := rtA cfg a, values := valsOf cfg arr a }

/-- One group: the plain join's sets over the blocks are the sets of the specific arrivals. -/
theorem joinSets_blocks (cfg : JCfg) (arr : List OnArrival) (g : String) (L : List OnArrival) (hg : GoodL cfg L)
    (hgrp : ∀ a ∈ L, a.msg.grp = g) :
    (joinSets cfg.parents (fun m : JMsg => goRound cfg.tol m.time) (L.flatMap (block cfg arr))).Perm (L.map (setOf cfg arr)) := by
  unfold joinSets
  have hdt : (distinct ((L.flatMap (block cfg arr)).map (fun a => goRound cfg.tol a.2.time))).Perm (distinct (L.map (rtA cfg))) := by
    apply distinct_perm
    intro t
    simp only [List.mem_map, List.mem_flatMap]
    constructor
    · rintro ⟨x, ⟨a, ha, hx⟩, rfl⟩; exact ⟨a, ha, (block_rt cfg arr a x hx).symm⟩
    · rintro ⟨a, ha, rfl⟩; exact ⟨(a.src, a.msg), ⟨a, ha, head_mem_block cfg arr a⟩, rfl⟩
  refine (hdt.flatMap_right _).trans ?_
  have hrows : ∀ t, (rowsOf ((List.range cfg.parents).map (fun i => occs (fun m : JMsg => goRound cfg.tol m.time) t
        (parentSeq i (L.flatMap (block cfg arr)))))).map (fun vals => ({ time := t, values := vals } : JSet JMsg)) =
      (L.filter (fun a => rtA cfg a == t)).map (setOf cfg arr) := by
    intro t
    have hc : (List.range cfg.parents).map (fun i => occs (fun m : JMsg => goRound cfg.tol m.time) t (parentSeq i (L.flatMap (block cfg arr)))) =
        (List.range cfg.parents).map (fun i => (L.filter (fun a => rtA cfg a == t)).filterMap (col cfg arr i)) := by
      apply List.map_congr_left
      intro i _
      rw [parentSeq_blocks, occs_filterMap_col]
    rw [hc]
    have hsub : ∀ a ∈ L.filter (fun a => rtA cfg a == t), a ∈ L ∧ rtA cfg a = t := by
      intro a ha
      have := List.mem_filter.mp ha
      exact ⟨this.1, by simpa using this.2⟩
    have hpc : ∀ a ∈ L.filter (fun a => rtA cfg a == t), ∀ a' ∈ L.filter (fun a => rtA cfg a == t),
        partnerOf cfg arr a = partnerOf cfg arr a' := by
      intro a ha a' ha'
      obtain ⟨m1, t1⟩ := hsub a ha
      obtain ⟨m2, t2⟩ := hsub a' ha'
      exact partner_congr cfg arr a a' (hg.src_eq a m1 a' m2) (hg.gen a m1 a' m2 (by rw [hgrp a m1, hgrp a' m2])) (by rw [t1, t2])
    rw [rowsOf_uniform (L.filter (fun a => rtA cfg a == t)) cfg.parents (col cfg arr)]
    · rw [List.map_map]
      apply List.map_congr_left
      intro a ha
      simp only [Function.comp, setOf, valsOf, (hsub a ha).2]
    · intro i _
      cases hl : L.filter (fun a => rtA cfg a == t) with
      | nil => left; intro a ha; simp at ha
      | cons a0 rest =>
        rw [hl] at hpc hsub
        cases h0 : (col cfg arr i a0).isSome with
        | true =>
          left; intro a ha
          rw [col_isSome_congr cfg arr i a a0 (hg.src_eq a (hsub a ha).1 a0 (hsub a0 (by simp)).1) (hpc a ha a0 (by simp))]
          exact h0
        | false =>
          right; intro a ha
          have := col_isSome_congr cfg arr i a a0 (hg.src_eq a (hsub a ha).1 a0 (hsub a0 (by simp)).1) (hpc a ha a0 (by simp))
          rw [h0] at this
          simpa using this
    · intro hne
      cases hl : L.filter (fun a => rtA cfg a == t) with
      | nil => exact absurd hl hne
      | cons a0 rest =>
        rw [hl] at hsub
        refine ⟨a0.src, hg.src_lt a0 (hsub a0 (by simp)).1, ?_⟩
        intro a ha
        have : a0.src = a.src := hg.src_eq a0 (hsub a0 (by simp)).1 a (hsub a ha).1
        simp [col, this]
  have : (distinct (L.map (rtA cfg))).flatMap (fun t =>
      (rowsOf ((List.range cfg.parents).map (fun i => occs (fun m : JMsg => goRound cfg.tol m.time) t
        (parentSeq i (L.flatMap (block cfg arr)))))).map (fun vals => ({ time := t, values := vals } : JSet JMsg))) =
      ((distinct (L.map (rtA cfg))).flatMap (fun t => L.filter (fun a => rtA cfg a == t))).map (setOf cfg arr) := by
    rw [List.map_flatMap]
    apply flatMap_congr'
    intro t _
    exact hrows t
  rw [this]
  exact (perm_partition (rtA cfg) L).map _

/-- **The plain-join pairing of a list of blocks is the `on()` pairing of the specific arrivals behind them.** -/
theorem joinOutput_blocks (cfg : JCfg) (arr : List OnArrival) (L : List OnArrival) (hg : GoodL cfg L) :
    (joinOutput cfg (L.flatMap (block cfg arr))).Perm (L.filterMap (outOf cfg arr)) := by
  unfold joinOutput
  have hd : (distinct ((L.flatMap (block cfg arr)).map (·.2.grp))).Perm (distinct (L.map (·.msg.grp))) := by
    apply distinct_perm
    intro g
    simp only [List.mem_map, List.mem_flatMap]
    constructor
    · rintro ⟨x, ⟨a, ha, hx⟩, rfl⟩; exact ⟨a, ha, (block_grp cfg arr a x hx).symm⟩
    · rintro ⟨a, ha, rfl⟩; exact ⟨(a.src, a.msg), ⟨a, ha, head_mem_block cfg arr a⟩, rfl⟩
  refine (hd.flatMap_right _).trans ?_
  have hstep : ((distinct (L.map (·.msg.grp))).flatMap (fun g =>
      (joinSets cfg.parents (fun m : JMsg => goRound cfg.tol m.time) ((L.flatMap (block cfg arr)).filter (fun a => a.2.grp == g))).filterMap (joinedPoint cfg))).Perm
      ((distinct (L.map (·.msg.grp))).flatMap (fun g => (L.filter (fun a => a.msg.grp == g)).filterMap (outOf cfg arr))) := by
    apply flatMap_perm_pointwise
    intro g
    rw [filter_blocks]
    have hsub : ∀ a ∈ L.filter (fun a => a.msg.grp == g), a ∈ L := fun a ha => (List.mem_filter.mp ha).1
    have := joinSets_blocks cfg arr g (L.filter (fun a => a.msg.grp == g)) (hg.sub hsub)
      (by intro a ha; simpa using (List.mem_filter.mp ha).2)
    have h2 := this.filterMap (joinedPoint cfg)
    rw [List.filterMap_map] at h2
    exact h2
  refine hstep.trans ?_
  rw [← filterMap_flatMap']
  exact (perm_partition (fun a : OnArrival => a.msg.grp) L).filterMap _

/-- Blocks are ordered per group and parent when the specific arrivals are ordered per group. -/
theorem joinOrdered_blocks (cfg : JCfg) (arr : List OnArrival) (L : List OnArrival)
    (hord : ∀ g, nondecreasing ((L.filter (fun a => a.msg.grp == g)).map (rtA cfg))) :
    joinOrdered cfg ((L.flatMap (block cfg arr)).map (fun p => (p.1, p.2.grp, p.2.time))) := by
  intro i _ g _
  have h1 : ((L.flatMap (block cfg arr)).map (fun p => (p.1, p.2.grp, p.2.time))).filter (fun s => s.1 == i && s.2.1 == g) =
      (((L.flatMap (block cfg arr)).filter (fun x => x.2.grp == g)).filter (fun x => x.1 == i)).map (fun p => (p.1, p.2.grp, p.2.time)) := by
    rw [List.filter_map, List.filter_filter]
    congr 1
  rw [h1, filter_blocks, List.map_map]
  have h2 : (((L.filter (fun a => a.msg.grp == g)).flatMap (block cfg arr)).filter (fun x => x.1 == i)).map
        ((fun s : Nat × String × Int => goRound cfg.tol s.2.2) ∘ (fun p : Nat × JMsg => (p.1, p.2.grp, p.2.time))) =
      ((L.filter (fun a => a.msg.grp == g)).filterMap (col cfg arr i)).map (fun m : JMsg => goRound cfg.tol m.time) := by
    rw [← parentSeq_blocks]
    simp [parentSeq, Function.comp]
  rw [h2]
  have h3 := hord g
  generalize L.filter (fun a => a.msg.grp == g) = Lg at h3 ⊢
  unfold nondecreasing at h3 ⊢
  induction Lg with
  | nil => simp
  | cons a Lg ih =>
    rw [List.map_cons, List.pairwise_cons] at h3
    cases hc : col cfg arr i a with
    | none => rw [List.filterMap_cons_none hc]; exact ih h3.2
    | some v =>
      rw [List.filterMap_cons_some hc, List.map_cons, List.pairwise_cons]
      refine ⟨?_, ih h3.2⟩
      intro y hy
      simp only [List.mem_map, List.mem_filterMap] at hy
      obtain ⟨w, ⟨a', ha', hw⟩, rfl⟩ := hy
      rw [col_rt cfg arr i a v hc, col_rt cfg arr i a' w hw]
      exact h3.1 _ (List.mem_map.mpr ⟨a', ha', rfl⟩)

theorem blocks_src_lt (cfg : JCfg) (arr : List OnArrival) (L : List OnArrival) (n : Nat)
    (hL : ∀ a ∈ L, a.src < n) (harr : ∀ b ∈ arr, b.src < n) : ∀ p ∈ L.flatMap (block cfg arr), p.1 < n := by
  intro p hp
  simp only [List.mem_flatMap] at hp
  obtain ⟨a, ha, hpa⟩ := hp
  unfold block at hpa
  cases hpp : partnerOf cfg arr a with
  | none => rw [hpp] at hpa; simp at hpa; rw [hpa]; exact hL a ha
  | some b =>
    rw [hpp] at hpa
    simp only [List.mem_cons, List.not_mem_nil, or_false] at hpa
    rcases hpa with rfl | rfl
    · exact hL a ha
    · exact harr b (List.mem_of_find?_eq_some hpp)

end OnP
end Kap.C12
