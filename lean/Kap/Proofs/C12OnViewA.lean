/-
C12 — join.on(): one call of `matchPoints` in terms of the VIEWS of its buffers (the queue a Go map holds for a
general group, empty when the key is missing). Pure unfolding of Kap/Model/C12On.lean, no invariants yet.
-/
import Kap.Proofs.C12OnFwd
namespace Kap.C12
set_option linter.unusedSimpArgs false
set_option linter.unusedVariables false

namespace JOn

/-- `m[g]` of a Go map of queues, a missing key reading as the empty queue. -/
def view (m : List (String × List (Nat × JMsg))) (g : String) : List (Nat × JMsg) := (bufLookup g m).getD []

theorem bufLookup_bufUpsert (k k' : String) (v : List (Nat × JMsg)) (m : List (String × List (Nat × JMsg))) :
    bufLookup k' (bufUpsert k v m) = if k' = k then some v else bufLookup k' m := by
  induction m with
  | nil => simp only [bufUpsert, bufLookup]; by_cases h : k = k' <;> simp [h, eq_comm]
  | cons x xs ih =>
    obtain ⟨k0, v0⟩ := x
    simp only [bufUpsert]
    by_cases hk : k0 = k
    · subst hk
      simp only [if_true, bufLookup]
      by_cases h : k0 = k' <;> simp [h, eq_comm]
      intro h2; exact absurd h2.symm h
    · simp only [hk, if_false, bufLookup, ih]
      by_cases h : k0 = k'
      · subst h; simp [hk]
      · simp [h]

theorem view_bufUpsert (k k' : String) (v : List (Nat × JMsg)) (m : List (String × List (Nat × JMsg))) :
    view (bufUpsert k v m) k' = if k' = k then v else view m k' := by
  unfold view
  rw [bufLookup_bufUpsert]
  by_cases h : k' = k <;> simp [h]

theorem lmLookup_lmUpsert (k k' : Nat × String) (v : Int) (m : List ((Nat × String) × Int)) :
    lmLookup k' (lmUpsert k v m) = if k' = k then some v else lmLookup k' m := by
  induction m with
  | nil => simp only [lmUpsert, lmLookup]; by_cases h : k = k' <;> simp [h, eq_comm]
  | cons x xs ih =>
    obtain ⟨k0, v0⟩ := x
    simp only [lmUpsert]
    by_cases hk : k0 = k
    · subst hk
      simp only [if_true, lmLookup]
      by_cases h : k0 = k' <;> simp [h, eq_comm]
      intro h2; exact absurd h2.symm h
    · simp only [hk, if_false, lmLookup, ih]
      by_cases h : k0 = k'
      · subst h; simp [hk]
      · simp [h]

theorem mem_keys_bufUpsert (k : String) (v : List (Nat × JMsg)) (m : List (String × List (Nat × JMsg))) (x : String)
    (hx : x ∈ (bufUpsert k v m).map (·.1)) : x = k ∨ x ∈ m.map (·.1) := by
  induction m with
  | nil => simp [bufUpsert] at hx; exact Or.inl hx
  | cons y ys ih =>
    obtain ⟨k0, v0⟩ := y
    simp only [bufUpsert] at hx
    by_cases hk : k0 = k
    · simp only [hk, if_true, List.map_cons, List.mem_cons] at hx
      rcases hx with h | h
      · exact Or.inl h
      · right; simp [h]
    · simp only [hk, if_false, List.map_cons, List.mem_cons] at hx
      rcases hx with h | h
      · right; simp [h]
      · rcases ih h with h2 | h2
        · exact Or.inl h2
        · right; simp [h2]

theorem nodup_bufUpsert (k : String) (v : List (Nat × JMsg)) (m : List (String × List (Nat × JMsg))) (h : (m.map (·.1)).Nodup) :
    ((bufUpsert k v m).map (·.1)).Nodup := by
  induction m with
  | nil => simp [bufUpsert]
  | cons y ys ih =>
    obtain ⟨k0, v0⟩ := y
    simp only [List.map_cons, List.nodup_cons] at h
    simp only [bufUpsert]
    by_cases hk : k0 = k
    · simp only [hk, if_true, List.map_cons, List.nodup_cons]
      rw [← hk]; exact h
    · simp only [hk, if_false, List.map_cons, List.nodup_cons]
      refine ⟨?_, ih h.2⟩
      intro hc
      rcases mem_keys_bufUpsert k v ys k0 hc with h2 | h2
      · exact hk h2
      · exact h.1 h2

/-! ### the quantities one call computes first -/

def rep' (st : JOn) (src : Nat) : List Nat :=
  if st.allReported || st.reported.contains src then st.reported else st.reported ++ [src]

def ar' (cfg : JCfg) (st : JOn) (src : Nat) : Bool := st.allReported || (rep' st src).length == cfg.parents

def lms' (cfg : JCfg) (st : JOn) (src : Nat) (m : JMsg) (gid : String) : List ((Nat × String) × Int) :=
  lmUpsert (src, gid) (goRound cfg.tol m.time) st.lowMarks

def lowMark' (cfg : JCfg) (st : JOn) (src : Nat) (m : JMsg) (gid : String) : Option Int :=
  if ar' cfg st src then lowMarkOf cfg.parents gid (lms' cfg st src m gid) else none

/-! ### purge -/

theorem purged_view (cfg : JCfg) (st : JOn) (ar : Bool) (lowMark : Option Int) (gid : String) :
    purged cfg st ar lowMark gid =
      if ar then (view st.specBuf gid).takeWhile (fun x => beforeMark (goRound cfg.tol x.2.time) lowMark) else [] := by
  unfold purged view
  cases ar with
  | false => simp
  | true => cases bufLookup gid st.specBuf <;> simp

theorem purge_view (cfg : JCfg) (st : JOn) (ar : Bool) (lowMark : Option Int) (gid g' : String) :
    view (purge cfg st ar lowMark gid).2.2.2 g' =
      if g' = gid then (view st.specBuf gid).drop (purged cfg st ar lowMark gid).length else view st.specBuf g' := by
  unfold purge purged
  cases ar with
  | false => by_cases h : g' = gid <;> simp [h]
  | true =>
    simp only [if_true]
    cases hb : bufLookup gid st.specBuf with
    | none => by_cases h : g' = gid <;> simp [h]
    | some buf =>
      simp only []
      rw [view_bufUpsert]
      by_cases h : g' = gid
      · simp [h, view, hb]
      · simp [h]

theorem purge_keys (cfg : JCfg) (st : JOn) (ar : Bool) (lowMark : Option Int) (gid : String) (h : (st.specBuf.map (·.1)).Nodup) :
    ((purge cfg st ar lowMark gid).2.2.2.map (·.1)).Nodup := by
  unfold purge
  cases ar with
  | false => simpa using h
  | true =>
    simp only [if_true]
    cases hb : bufLookup gid st.specBuf with
    | none => simpa using h
    | some buf => exact nodup_bufUpsert _ _ _ h

/-! ### specific point -/

theorem matchedOf_view (cfg : JCfg) (st : JOn) (lowMark : Option Int) (gid : String) (t : Int) :
    matchedOf cfg st lowMark gid t = (searchMatches cfg.tol t lowMark (view st.matchBuf gid) 0 []).2 := by
  unfold matchedOf view
  cases bufLookup gid st.matchBuf <;> simp [searchMatches]

theorem specMatch_view (cfg : JCfg) (st : JOn) (nd : JNode) (ar : Bool) (lowMark : Option Int) (gid : String) (src : Nat) (m : JMsg)
    (t : Int) (g' : String) :
    view (specMatch cfg st nd ar lowMark gid src m t).2.2.2.2 g' =
      if g' = gid then (if ar then (view st.matchBuf gid).drop (searchMatches cfg.tol t lowMark (view st.matchBuf gid) 0 []).1
        else view st.matchBuf gid) else view st.matchBuf g' := by
  unfold specMatch
  cases hb : bufLookup gid st.matchBuf with
  | none =>
    by_cases h : g' = gid
    · subst h; cases ar <;> simp [view, hb]
    · simp [h]
  | some mts =>
    simp only []
    cases ar with
    | false =>
      by_cases h : g' = gid <;> simp [h]
    | true =>
      simp only [if_true]
      rw [view_bufUpsert]
      by_cases h : g' = gid
      · simp [h, view, hb]
      · simp [h]

/-- Does the specific point go into the cache (option 2)? -/
def cacheCond (cfg : JCfg) (st : JOn) (src : Nat) (m : JMsg) (gid : String) : Bool :=
  (matchedOf cfg st (lowMark' cfg st src m gid) gid (goRound cfg.tol m.time)).isEmpty &&
    !(ar' cfg st src && beforeMark (goRound cfg.tol m.time) (lowMark' cfg st src m gid))

/-- `matchPoints` for a specific point, with the quantities above named. -/
theorem point_spec_def (cfg : JCfg) (st : JOn) (src : Nat) (m : JMsg) (gid : String) :
    st.point cfg src m true gid =
      (let p := purge cfg st (ar' cfg st src) (lowMark' cfg st src m gid) gid
       let q := specMatch cfg st p.1 (ar' cfg st src) (lowMark' cfg st src m gid) gid src m (goRound cfg.tol m.time)
       if q.2.2.2.1 then
         ({ node := q.1, reported := rep' st src, allReported := ar' cfg st src, lowMarks := lms' cfg st src m gid,
            matchBuf := q.2.2.2.2, specBuf := p.2.2.2 },
          p.2.1 ++ q.2.1, p.2.2.1.and q.2.2.1)
       else if ar' cfg st src && beforeMark (goRound cfg.tol m.time) (lowMark' cfg st src m gid) then
         let r := sendSpecific cfg q.1 (src, m)
         ({ node := r.1, reported := rep' st src, allReported := ar' cfg st src, lowMarks := lms' cfg st src m gid,
            matchBuf := q.2.2.2.2, specBuf := p.2.2.2 },
          p.2.1 ++ q.2.1 ++ r.2.1, (p.2.2.1.and q.2.2.1).and r.2.2)
       else
         ({ node := q.1, reported := rep' st src, allReported := ar' cfg st src, lowMarks := lms' cfg st src m gid,
            matchBuf := q.2.2.2.2,
            specBuf := bufUpsert gid ((bufLookup gid p.2.2.2).getD [] ++ [(src, m)]) p.2.2.2 },
          p.2.1 ++ q.2.1, p.2.2.1.and q.2.2.1)) := rfl

/-- `matchPoints` for a general (match) point, with the quantities above named. -/
theorem point_gen_def (cfg : JCfg) (st : JOn) (src : Nat) (m : JMsg) (gid : String) :
    st.point cfg src m false gid =
      (let p := purge cfg st (ar' cfg st src) (lowMark' cfg st src m gid) gid
       let matchBuf := bufUpsert gid ((bufLookup gid st.matchBuf).getD [] ++ [(src, m)]) st.matchBuf
       match bufLookup gid p.2.2.2 with
       | some buf =>
         let same := buf.takeWhile (fun x => goRound cfg.tol x.2.time = goRound cfg.tol m.time)
         let r := sendAll (fun nd sp => sendMatch cfg nd sp (src, m)) p.1 same
         ({ node := r.1, reported := rep' st src, allReported := ar' cfg st src, lowMarks := lms' cfg st src m gid, matchBuf := matchBuf,
            specBuf := bufUpsert gid (buf.drop same.length) p.2.2.2 },
          p.2.1 ++ r.2.1, p.2.2.1.and r.2.2)
       | none =>
         ({ node := p.1, reported := rep' st src, allReported := ar' cfg st src, lowMarks := lms' cfg st src m gid, matchBuf := matchBuf,
            specBuf := p.2.2.2 },
          p.2.1, p.2.2.1)) := rfl

theorem fwdOf_spec_def (cfg : JCfg) (st : JOn) (src : Nat) (m : JMsg) (gid : String) :
    fwdOf cfg st src m true gid =
      (let p := purged cfg st (ar' cfg st src) (lowMark' cfg st src m gid) gid
       let ms := matchedOf cfg st (lowMark' cfg st src m gid) gid (goRound cfg.tol m.time)
       if !ms.isEmpty then p ++ ms.flatMap (matchOps (src, m))
       else if ar' cfg st src && beforeMark (goRound cfg.tol m.time) (lowMark' cfg st src m gid) then p ++ [(src, m)]
       else p) := rfl

theorem fwdOf_gen_def (cfg : JCfg) (st : JOn) (src : Nat) (m : JMsg) (gid : String) :
    fwdOf cfg st src m false gid =
      (let p := purged cfg st (ar' cfg st src) (lowMark' cfg st src m gid) gid
       match bufLookup gid (purge cfg st (ar' cfg st src) (lowMark' cfg st src m gid) gid).2.2.2 with
       | some buf => p ++ (buf.takeWhile (fun x => goRound cfg.tol x.2.time = goRound cfg.tol m.time)).flatMap (fun sp => matchOps sp (src, m))
       | none => p) := rfl

theorem point_lowMarks (cfg : JCfg) (st : JOn) (src : Nat) (m : JMsg) (specific : Bool) (gid : String) :
    (st.point cfg src m specific gid).1.lowMarks = lms' cfg st src m gid ∧
    (st.point cfg src m specific gid).1.allReported = ar' cfg st src ∧
    (st.point cfg src m specific gid).1.reported = rep' st src := by
  cases specific with
  | true =>
    rw [point_spec_def]
    simp only []
    split
    · exact ⟨rfl, rfl, rfl⟩
    · split <;> exact ⟨rfl, rfl, rfl⟩
  | false =>
    rw [point_gen_def]
    simp only []
    split <;> exact ⟨rfl, rfl, rfl⟩

theorem point_spec_specBuf (cfg : JCfg) (st : JOn) (src : Nat) (m : JMsg) (gid g' : String) :
    view (st.point cfg src m true gid).1.specBuf g' =
      if g' = gid then
        (view st.specBuf gid).drop (purged cfg st (ar' cfg st src) (lowMark' cfg st src m gid) gid).length ++
          (if cacheCond cfg st src m gid then [(src, m)] else [])
      else view st.specBuf g' := by
  have hq4 := (specMatch_eq cfg st (purge cfg st (ar' cfg st src) (lowMark' cfg st src m gid) gid).1 (ar' cfg st src)
    (lowMark' cfg st src m gid) gid src m (goRound cfg.tol m.time)).2.2.2
  rw [point_spec_def]
  simp only []
  rw [hq4]
  unfold cacheCond
  cases hm : (matchedOf cfg st (lowMark' cfg st src m gid) gid (goRound cfg.tol m.time)).isEmpty with
  | false =>
    simp only [Bool.not_false, if_true, Bool.false_and, Bool.false_eq_true, if_false, List.append_nil]
    exact purge_view cfg st _ _ gid g'
  | true =>
    simp only [Bool.not_true, Bool.false_eq_true, if_false, Bool.true_and]
    cases hb : (ar' cfg st src && beforeMark (goRound cfg.tol m.time) (lowMark' cfg st src m gid)) with
    | true =>
      simp only [if_true, Bool.not_true, Bool.false_eq_true, if_false, List.append_nil]
      exact purge_view cfg st _ _ gid g'
    | false =>
      simp only [Bool.false_eq_true, if_false, Bool.not_false, if_true]
      rw [view_bufUpsert]
      by_cases h : g' = gid
      · simp only [h, if_true]
        have := purge_view cfg st (ar' cfg st src) (lowMark' cfg st src m gid) gid gid
        simp only [if_true] at this
        rw [← this]; rfl
      · simp only [h, if_false]
        have := purge_view cfg st (ar' cfg st src) (lowMark' cfg st src m gid) gid g'
        simp only [h, if_false] at this
        exact this

theorem point_spec_specKeys (cfg : JCfg) (st : JOn) (src : Nat) (m : JMsg) (gid : String) (h : (st.specBuf.map (·.1)).Nodup) :
    ((st.point cfg src m true gid).1.specBuf.map (·.1)).Nodup := by
  have hp := purge_keys cfg st (ar' cfg st src) (lowMark' cfg st src m gid) gid h
  rw [point_spec_def]
  simp only []
  split
  · exact hp
  · split
    · exact hp
    · exact nodup_bufUpsert _ _ _ hp

theorem point_spec_matchBuf (cfg : JCfg) (st : JOn) (src : Nat) (m : JMsg) (gid g' : String) :
    view (st.point cfg src m true gid).1.matchBuf g' =
      if g' = gid then
        (if ar' cfg st src then (view st.matchBuf gid).drop
            (searchMatches cfg.tol (goRound cfg.tol m.time) (lowMark' cfg st src m gid) (view st.matchBuf gid) 0 []).1
         else view st.matchBuf gid)
      else view st.matchBuf g' := by
  have := specMatch_view cfg st (purge cfg st (ar' cfg st src) (lowMark' cfg st src m gid) gid).1 (ar' cfg st src)
    (lowMark' cfg st src m gid) gid src m (goRound cfg.tol m.time) g'
  rw [point_spec_def]
  simp only []
  split
  · exact this
  · split <;> exact this

theorem fwdOf_spec (cfg : JCfg) (st : JOn) (src : Nat) (m : JMsg) (gid : String) :
    fwdOf cfg st src m true gid =
      purged cfg st (ar' cfg st src) (lowMark' cfg st src m gid) gid ++
        (if !(matchedOf cfg st (lowMark' cfg st src m gid) gid (goRound cfg.tol m.time)).isEmpty then
          (matchedOf cfg st (lowMark' cfg st src m gid) gid (goRound cfg.tol m.time)).flatMap (matchOps (src, m))
         else if ar' cfg st src && beforeMark (goRound cfg.tol m.time) (lowMark' cfg st src m gid) then [(src, m)] else []) := by
  rw [fwdOf_spec_def]
  simp only []
  split
  · rfl
  · split
    · rfl
    · simp

/-! ### general (match) point -/

/-- The specific buffer of the point's general group after the purge. -/
def afterPurge (cfg : JCfg) (st : JOn) (src : Nat) (m : JMsg) (gid : String) : List (Nat × JMsg) :=
  (view st.specBuf gid).drop (purged cfg st (ar' cfg st src) (lowMark' cfg st src m gid) gid).length

/-- The cached specific points a match point is sent with. -/
def sameOf (cfg : JCfg) (st : JOn) (src : Nat) (m : JMsg) (gid : String) : List (Nat × JMsg) :=
  (afterPurge cfg st src m gid).takeWhile (fun x => goRound cfg.tol x.2.time = goRound cfg.tol m.time)

theorem point_gen_matchBuf (cfg : JCfg) (st : JOn) (src : Nat) (m : JMsg) (gid g' : String) :
    view (st.point cfg src m false gid).1.matchBuf g' =
      if g' = gid then view st.matchBuf gid ++ [(src, m)] else view st.matchBuf g' := by
  have : view (bufUpsert gid ((bufLookup gid st.matchBuf).getD [] ++ [(src, m)]) st.matchBuf) g' =
      if g' = gid then view st.matchBuf gid ++ [(src, m)] else view st.matchBuf g' := by
    rw [view_bufUpsert]; rfl
  rw [point_gen_def]
  simp only []
  split <;> exact this

theorem afterPurge_lookup (cfg : JCfg) (st : JOn) (src : Nat) (m : JMsg) (gid : String) :
    (bufLookup gid (purge cfg st (ar' cfg st src) (lowMark' cfg st src m gid) gid).2.2.2).getD [] = afterPurge cfg st src m gid := by
  have hp := purge_view cfg st (ar' cfg st src) (lowMark' cfg st src m gid) gid gid
  simp only [if_true] at hp
  exact hp

theorem point_gen_specBuf (cfg : JCfg) (st : JOn) (src : Nat) (m : JMsg) (gid g' : String) :
    view (st.point cfg src m false gid).1.specBuf g' =
      if g' = gid then (afterPurge cfg st src m gid).drop (sameOf cfg st src m gid).length else view st.specBuf g' := by
  have hp := purge_view cfg st (ar' cfg st src) (lowMark' cfg st src m gid) gid g'
  have ha := afterPurge_lookup cfg st src m gid
  rw [point_gen_def]
  simp only []
  cases hb : bufLookup gid (purge cfg st (ar' cfg st src) (lowMark' cfg st src m gid) gid).2.2.2 with
  | none =>
    simp only []
    rw [hb] at ha
    simp only [Option.getD_none] at ha
    rw [hp]
    by_cases h : g' = gid
    · simp only [h, if_true, sameOf, ← ha, List.takeWhile_nil, List.length_nil, List.drop_nil]
      exact ha.symm
    · simp [h]
  | some buf =>
    simp only []
    rw [hb] at ha
    simp only [Option.getD_some] at ha
    rw [view_bufUpsert]
    by_cases h : g' = gid
    · simp only [h, if_true, sameOf, ← ha]
    · simp only [h, if_false]
      simp only [h, if_false] at hp
      exact hp

theorem point_gen_specKeys (cfg : JCfg) (st : JOn) (src : Nat) (m : JMsg) (gid : String) (h : (st.specBuf.map (·.1)).Nodup) :
    ((st.point cfg src m false gid).1.specBuf.map (·.1)).Nodup := by
  have hp := purge_keys cfg st (ar' cfg st src) (lowMark' cfg st src m gid) gid h
  rw [point_gen_def]
  simp only []
  split
  · exact nodup_bufUpsert _ _ _ hp
  · exact hp

theorem fwdOf_gen (cfg : JCfg) (st : JOn) (src : Nat) (m : JMsg) (gid : String) :
    fwdOf cfg st src m false gid =
      purged cfg st (ar' cfg st src) (lowMark' cfg st src m gid) gid ++
        (sameOf cfg st src m gid).flatMap (fun sp => matchOps sp (src, m)) := by
  have ha := afterPurge_lookup cfg st src m gid
  rw [fwdOf_gen_def]
  simp only []
  cases hb : bufLookup gid (purge cfg st (ar' cfg st src) (lowMark' cfg st src m gid) gid).2.2.2 with
  | none =>
    simp only []
    rw [hb] at ha
    simp only [Option.getD_none] at ha
    simp [sameOf, ← ha]
  | some buf =>
    simp only []
    rw [hb] at ha
    simp only [Option.getD_some] at ha
    simp only [sameOf, ← ha]

end JOn
end Kap.C12
