import Kap.Proofs.C12Join
namespace Kap.C12
set_option linter.unusedSimpArgs false
set_option linter.unusedVariables false

/-! ### one group: operations, history, occurrences -/

inductive GOp (α : Type) where
  | collect (src : Nat) (t : Int) (p : α)
  | barrier (src : Nat) (t : Int)

namespace GOp
variable {α : Type}
def src : GOp α → Nat
  | .collect s _ _ => s
  | .barrier s _ => s
def time : GOp α → Int
  | .collect _ t _ => t
  | .barrier _ t => t
end GOp

variable {α : Type}

/-- The messages parent `i` delivered at rounded time `t`, in order. -/
def occ (i : Nat) (t : Int) (H : List (GOp α)) : List α :=
  H.filterMap (fun op => match op with
    | .collect s t' p => if s = i ∧ t' = t then some p else none
    | .barrier _ _ => none)

/-- The (rounded) time of the last thing parent `i` sent: `head[i]`. -/
def lastTime (i : Nat) (H : List (GOp α)) : Option Int :=
  H.foldl (fun acc op => if op.src = i then some op.time else acc) none

theorem occ_append_collect (i : Nat) (t' : Int) (H : List (GOp α)) (s : Nat) (t : Int) (p : α) :
    occ i t' (H ++ [.collect s t p]) = if s = i ∧ t = t' then occ i t' H ++ [p] else occ i t' H := by
  unfold occ
  rw [List.filterMap_append]
  by_cases h : s = i ∧ t = t' <;> simp [h]

theorem occ_append_barrier (i : Nat) (t' : Int) (H : List (GOp α)) (s : Nat) (t : Int) :
    occ i t' (H ++ [.barrier s t]) = occ i t' H := by
  unfold occ
  rw [List.filterMap_append]
  simp

theorem lastTime_append (i : Nat) (H : List (GOp α)) (op : GOp α) :
    lastTime i (H ++ [op]) = if op.src = i then some op.time else lastTime i H := by
  unfold lastTime
  rw [List.foldl_append]
  rfl

/-! ### list helpers -/

theorem findIdx?_eq_some_of {β : Type} (p : β → Bool) (l : List β) (j : Nat) (y : β)
    (hb : ∀ k, k < j → ∃ x, l[k]? = some x ∧ p x = false) (hj : l[j]? = some y) (hy : p y = true) :
    l.findIdx? p = some j := by
  induction l generalizing j with
  | nil => simp at hj
  | cons x xs ih =>
    cases j with
    | zero =>
      simp only [List.getElem?_cons_zero, Option.some.injEq] at hj
      subst hj
      simp [List.findIdx?_cons, hy]
    | succ j =>
      obtain ⟨x', hx', hpx⟩ := hb 0 (by omega)
      simp only [List.getElem?_cons_zero, Option.some.injEq] at hx'
      subst hx'
      simp only [List.findIdx?_cons, hpx, Bool.false_eq_true, if_false]
      rw [ih j (fun k hk => by simpa using hb (k + 1) (by omega)) (by simpa using hj)]
      rfl

theorem findIdx?_eq_none_of {β : Type} (p : β → Bool) (l : List β) (h : ∀ x ∈ l, p x = false) :
    l.findIdx? p = none := by
  induction l with
  | nil => rfl
  | cons x xs ih =>
    simp only [List.findIdx?_cons, h x (by simp), Bool.false_eq_true, if_false]
    rw [ih (fun y hy => h y (by simp [hy]))]
    rfl

theorem modify_append_right {β : Type} (a b : List β) (j : Nat) (f : β → β) :
    (a ++ b).modify (a.length + j) f = a ++ b.modify j f := by
  induction a with
  | nil => simp
  | cons x xs ih =>
    simp only [List.cons_append, List.length_cons]
    rw [show xs.length + 1 + j = (xs.length + j) + 1 by omega, List.modify_succ_cons, ih]

theorem alookup_aupsert {β : Type} (t t' : Int) (q : β) (m : List (Int × β)) :
    alookup t' (aupsert t q m) = if t' = t then some q else alookup t' m := by
  induction m with
  | nil => simp only [aupsert, alookup]; by_cases h : t = t' <;> simp [h, eq_comm]
  | cons x xs ih =>
    obtain ⟨k, v⟩ := x
    simp only [aupsert]
    by_cases hk : k = t
    · subst hk
      simp only [if_true, alookup]
      by_cases h : k = t' <;> simp [h, eq_comm]
      intro h2; exact absurd h2.symm h
    · simp only [hk, if_false, alookup, ih]
      by_cases h : k = t'
      · subst h; simp [hk]
      · simp [h]

theorem alookup_aerase {β : Type} (o t' : Int) (m : List (Int × β)) :
    alookup t' (aerase o m) = if t' = o then none else alookup t' m := by
  unfold aerase
  induction m with
  | nil => simp [alookup]
  | cons x xs ih =>
    obtain ⟨k, v⟩ := x
    by_cases hk : k = o
    · subst hk
      simp only [List.filter_cons, ne_eq, not_true_eq_false, decide_false, Bool.false_eq_true, if_false, ih, alookup]
      by_cases h : t' = k
      · simp [h]
      · have : ¬ k = t' := fun h2 => h h2.symm
        simp [h, this]
    · simp only [List.filter_cons, ne_eq, hk, not_false_eq_true, decide_true, if_true, alookup, ih]
      by_cases h : k = t'
      · subst h; simp [hk]
      · simp [h]

end Kap.C12
