import Kap.Proofs.C12PairA
namespace Kap.C12
set_option linter.unusedSimpArgs false
set_option linter.unusedVariables false
variable {α : Type}

/-- `rows` (emitted sets followed by the queued sets of time `t`) is the pairing by occurrence of what the
parents delivered at `t`: row `k` holds the `k`-th message of every parent that has one. -/
structure Rows (n : Nat) (t : Int) (H : List (GOp α)) (rows : List (JSet α)) : Prop where
  row : ∀ (k : Nat) (r : JSet α), rows[k]? = some r → r.time = t ∧ r.values.length = n ∧ ∀ i, i < n → r.values[i]? = some ((occ i t H)[k]?)
  len : ∀ i, i < n → (occ i t H).length ≤ rows.length
  nonempty : ∀ r ∈ rows, ∃ i, i < n ∧ ∃ v, r.values[i]? = some (some v)

theorem Rows.congr {n : Nat} {t : Int} {H H' : List (GOp α)} {rows : List (JSet α)}
    (h : Rows n t H rows) (he : ∀ i, i < n → occ i t H' = occ i t H) : Rows n t H' rows := by
  refine ⟨?_, ?_, h.nonempty⟩
  · intro k r hk
    obtain ⟨a, b, c⟩ := h.row k r hk
    exact ⟨a, b, fun i hi => by rw [he i hi]; exact c i hi⟩
  · intro i hi; rw [he i hi]; exact h.len i hi

theorem set_values_get (r : JSet α) (src : Nat) (p : α) (i : Nat) (hs : src < r.values.length) :
    (r.set src p).values[i]? = if i = src then some (some p) else r.values[i]? := by
  unfold JSet.set
  simp only [List.getElem?_set]
  by_cases h : src = i
  · subst h; simp [hs]
  · have : ¬ i = src := fun h2 => h h2.symm
    simp [h, this]

theorem Rows.extend {n : Nat} {t : Int} {H : List (GOp α)} {rows : List (JSet α)} (hR : Rows n t H rows)
    (src : Nat) (p : α) (hs : src < n) :
    Rows n t (H ++ [.collect src t p])
      (if (occ src t H).length < rows.length then rows.modify (occ src t H).length (fun x => x.set src p)
       else rows ++ [(JSet.new n t).set src p]) := by
  have hK := hR.len src hs
  have hocc : ∀ i, occ i t (H ++ [.collect src t p]) = if src = i then occ i t H ++ [p] else occ i t H := by
    intro i; rw [occ_append_collect]; simp
  by_cases hlt : (occ src t H).length < rows.length
  · simp only [hlt, if_true]
    refine ⟨?_, ?_, ?_⟩
    · intro k r hk
      rw [List.getElem?_modify] at hk
      cases hr0 : rows[k]? with
      | none => simp [hr0] at hk
      | some r0 =>
        rw [hr0] at hk
        simp only [Option.map_eq_map, Option.map_some, Option.some.injEq] at hk
        obtain ⟨a, b, c⟩ := hR.row k r0 hr0
        by_cases hkk : (occ src t H).length = k
        · simp only [hkk, if_true] at hk
          subst hk
          refine ⟨a, by simp [JSet.set, b], ?_⟩
          intro i hi
          rw [set_values_get _ _ _ _ (by omega), hocc]
          by_cases his : i = src
          · subst his; simp [← hkk]
          · have : ¬ src = i := fun h2 => his h2.symm
            simp [his, this, c i hi]
        · simp only [hkk, if_false] at hk
          subst hk
          refine ⟨a, b, ?_⟩
          intro i hi
          rw [hocc, c i hi]
          by_cases his : src = i
          · subst his
            simp only [if_true]
            by_cases hk2 : k < (occ src t H).length
            · rw [List.getElem?_append_left hk2]
            · rw [List.getElem?_eq_none (by omega), List.getElem?_eq_none (by simp; omega)]
          · simp [his]
    · intro i hi
      rw [hocc, List.length_modify]
      by_cases his : src = i
      · subst his; simp; omega
      · simp [his]; exact hR.len i hi
    · intro r hr
      obtain ⟨k, hke⟩ := List.mem_iff_getElem?.mp hr
      rw [List.getElem?_modify] at hke
      cases hr0 : rows[k]? with
      | none => simp [hr0] at hke
      | some r0 =>
        rw [hr0] at hke
        simp only [Option.map_eq_map, Option.map_some, Option.some.injEq] at hke
        obtain ⟨_, b, _⟩ := hR.row k r0 hr0
        by_cases hkk : (occ src t H).length = k
        · simp only [hkk, if_true] at hke
          subst hke
          exact ⟨src, hs, p, by rw [set_values_get _ _ _ _ (by omega)]; simp⟩
        · simp only [hkk, if_false] at hke
          subst hke
          exact hR.nonempty _ (List.mem_of_getElem? hr0)
  · simp only [hlt, if_false]
    have hKe : (occ src t H).length = rows.length := by omega
    have hnew : ((JSet.new n t : JSet α).set src p).values.length = n := by simp [JSet.set, JSet.new]
    refine ⟨?_, ?_, ?_⟩
    · intro k r hk
      by_cases hk2 : k < rows.length
      · rw [List.getElem?_append_left hk2] at hk
        obtain ⟨a, b, c⟩ := hR.row k r hk
        refine ⟨a, b, ?_⟩
        intro i hi
        rw [hocc, c i hi]
        by_cases his : src = i
        · subst his
          simp only [if_true]
          rw [List.getElem?_append_left (by omega)]
        · simp [his]
      · have hk3 : k = rows.length := by
          have := List.getElem?_eq_some_iff.mp hk
          obtain ⟨hlt2, _⟩ := this
          simp at hlt2; omega
        subst hk3
        simp only [List.getElem?_append_right (Nat.le_refl _), Nat.sub_self, List.getElem?_cons_zero, Option.some.injEq] at hk
        subst hk
        refine ⟨rfl, hnew, ?_⟩
        intro i hi
        rw [set_values_get _ _ _ _ (by simp [JSet.new]; omega), hocc]
        by_cases his : i = src
        · subst his; simp [← hKe]
        · have : ¬ src = i := fun h2 => his h2.symm
          simp only [his, this, if_false, JSet.new]
          rw [List.getElem?_replicate, if_pos hi, List.getElem?_eq_none (by have := hR.len i hi; omega)]
    · intro i hi
      rw [hocc]
      simp only [List.length_append, List.length_singleton]
      by_cases his : src = i
      · subst his; simp; omega
      · simp [his]; have := hR.len i hi; omega
    · intro r hr
      simp only [List.mem_append, List.mem_singleton] at hr
      rcases hr with hr | hr
      · exact hR.nonempty r hr
      · subst hr
        exact ⟨src, hs, p, by rw [set_values_get _ _ _ _ (by simp [JSet.new]; omega)]; simp⟩

end Kap.C12
