import Kap.Proofs.C12PairB
namespace Kap.C12
set_option linter.unusedSimpArgs false
set_option linter.unusedVariables false
variable {α : Type}

theorem Rows.has_eq {n : Nat} {t : Int} {H : List (GOp α)} {rows : List (JSet α)} (hR : Rows n t H rows)
    (k : Nat) (r : JSet α) (hk : rows[k]? = some r) (src : Nat) (hs : src < n) :
    r.has src = decide (k < (occ src t H).length) := by
  obtain ⟨_, _, c⟩ := hR.row k r hk
  unfold JSet.has
  rw [c src hs]
  simp only [Option.join_some]
  by_cases h : k < (occ src t H).length
  · simp [h]
  · simp [h, List.getElem?_eq_none (by omega : (occ src t H).length ≤ k)]

theorem new_has (n : Nat) (t : Int) (src : Nat) : (JSet.new n t : JSet α).has src = false := by
  unfold JSet.has JSet.new
  simp only [List.getElem?_replicate]
  by_cases h : src < n <;> simp [h]

/-- The queue of time `t` after `Collect(src, p)` put its message in. -/
def collectQ (n : Nat) (t : Int) (sets : List (Int × List (JSet α))) (src : Nat) (p : α) : List (JSet α) :=
  match (match alookup t sets with | some q => q | none => [JSet.new n t]).findIdx? (fun (x : JSet α) => !x.has src) with
  | some i => (match alookup t sets with | some q => q | none => [JSet.new n t]).modify i (fun (x : JSet α) => x.set src p)
  | none => (match alookup t sets with | some q => q | none => [JSet.new n t]) ++ [(JSet.new n t).set src p]

/-- What `Collect` does to the queue of its time is: fill slot `src` of row number `K` (the number of
messages `src` delivered at this time so far), or append a new row holding only `src`. -/
theorem collect_queue {n : Nat} {t : Int} {H : List (GOp α)} (Et : List (JSet α)) (sets : List (Int × List (JSet α)))
    (src : Nat) (p : α) (hs : src < n)
    (hR : Rows n t H (Et ++ (alookup t sets).getD [])) (hF : Et.length ≤ (occ src t H).length) :
    Et ++ collectQ n t sets src p =
      (if (occ src t H).length < (Et ++ (alookup t sets).getD []).length
       then (Et ++ (alookup t sets).getD []).modify (occ src t H).length (fun x => x.set src p)
       else (Et ++ (alookup t sets).getD []) ++ [(JSet.new n t).set src p]) := by
  unfold collectQ
  have hK := hR.len src hs
  cases hq : alookup t sets with
  | none =>
    rw [hq] at hR hK
    simp only [Option.getD_none, List.append_nil] at hR hK ⊢
    have : (occ src t H).length = Et.length := by omega
    rw [if_neg (by omega)]
    simp [List.findIdx?_cons, new_has]
  | some q =>
    rw [hq] at hR hK
    simp only [Option.getD_some] at hR hK ⊢
    by_cases hlt : (occ src t H).length < (Et ++ q).length
    · simp only [hlt, if_true]
      simp only [List.length_append] at hlt
      have hjlt : (occ src t H).length - Et.length < q.length := by omega
      have hfi : q.findIdx? (fun (x : JSet α) => !x.has src) = some ((occ src t H).length - Et.length) := by
        apply findIdx?_eq_some_of _ _ _ (q[(occ src t H).length - Et.length]'hjlt)
        · intro k hk
          have hkq : k < q.length := by omega
          refine ⟨q[k], List.getElem?_eq_getElem hkq, ?_⟩
          have := hR.has_eq (Et.length + k) q[k] (by rw [List.getElem?_append_right (by omega)]; simp [hkq]) src hs
          rw [this]; simp; omega
        · exact List.getElem?_eq_getElem hjlt
        · have := hR.has_eq (Et.length + ((occ src t H).length - Et.length)) (q[(occ src t H).length - Et.length]'hjlt)
            (by rw [List.getElem?_append_right (by omega)]; simp [hjlt]) src hs
          rw [this]; simp; omega
      rw [hfi]
      simp only []
      rw [← modify_append_right]
      congr 1; omega
    · simp only [hlt, if_false]
      have hfi : q.findIdx? (fun (x : JSet α) => !x.has src) = none := by
        apply findIdx?_eq_none_of
        intro x hx
        obtain ⟨k, hk⟩ := List.mem_iff_getElem?.mp hx
        have hkq : k < q.length := by
          have := List.getElem?_eq_some_iff.mp hk; exact this.1
        have := hR.has_eq (Et.length + k) x (by rw [List.getElem?_append_right (by omega)]; simpa using hk) src hs
        rw [this]; simp only [List.length_append] at hlt hK; simp; omega
      rw [hfi]
      simp

end Kap.C12
