import Kap.Proofs.C12PairC
namespace Kap.C12
set_option linter.unusedSimpArgs false
set_option linter.unusedVariables false
variable {α : Type}

namespace JGroup

/-- The state of `Collect` just before its final `emit`. -/
def collectPre (expected : Nat) (g : JGroup α) (src : Nat) (t : Int) (p : α) : JGroup α :=
  { sets := aupsert t (collectQ expected t g.sets src p) g.sets,
    head := g.head.set src (some t),
    oldest := match g.oldest with
      | none => some t
      | some o => if t < o then some t else some o }

theorem collect_eq (expected : Nat) (g : JGroup α) (src : Nat) (t : Int) (p : α) :
    g.collect expected src t p = (g.collectPre expected src t p).checkAndEmit := rfl

end JGroup

/-- Invariant of one join group after the history `H`, having emitted `E` so far. -/
structure GI (withF : Prop) (n : Nat) (g : JGroup α) (E : List (JSet α)) (H : List (GOp α)) : Prop where
  key : g.KeyInv
  hlen : g.head.length = n
  head : ∀ i, i < n → g.head[i]? = some (lastTime i H)
  rows : ∀ t, Rows n t H (E.filter (fun s => s.time == t) ++ (alookup t g.sets).getD [])
  fin : withF → ∀ t i, i < n → (occ i t H).length < (E.filter (fun s => s.time == t)).length →
    ∃ h, lastTime i H = some h ∧ t < h

theorem GI.collectPre {n : Nat} {g : JGroup α} {E : List (JSet α)} {H : List (GOp α)} (h : GI True n g E H)
    (src : Nat) (t : Int) (p : α) (hs : src < n) (hord : ∀ hd, lastTime src H = some hd → hd ≤ t) :
    GI True n (g.collectPre n src t p) E (H ++ [.collect src t p]) := by
  refine ⟨?_, ?_, ?_, ?_, ?_⟩
  · have hk := h.key
    unfold JGroup.KeyInv at hk ⊢
    unfold JGroup.collectPre
    simp only []
    rw [minKey_eq, foldl_aupsert, ← minKey_eq, ← hk]
    rfl
  · simp [JGroup.collectPre, h.hlen]
  · intro i hi
    rw [lastTime_append]
    simp only [JGroup.collectPre, GOp.src, GOp.time, List.getElem?_set]
    by_cases his : src = i
    · subst his; simp [h.hlen, hs]
    · simp [his, h.head i hi]
  · intro t'
    by_cases ht : t' = t
    · subst ht
      have hR := h.rows t'
      have hF : (E.filter (fun s => s.time == t')).length ≤ (occ src t' H).length := by
        by_cases hc : (occ src t' H).length < (E.filter (fun s => s.time == t')).length
        · obtain ⟨hd, h1, h2⟩ := h.fin trivial t' src hs hc
          have := hord hd h1; omega
        · omega
      have := collect_queue (E.filter (fun s => s.time == t')) g.sets src p hs hR hF
      simp only [JGroup.collectPre, alookup_aupsert, if_true, Option.getD_some]
      rw [this]
      exact hR.extend src p hs
    · have hR := h.rows t'
      simp only [JGroup.collectPre, alookup_aupsert, ht, if_false]
      apply hR.congr
      intro i hi
      rw [occ_append_collect]
      have : ¬ (src = i ∧ t = t') := fun hc => ht hc.2.symm
      simp [this]
  · intro _ t' i hi hlt
    have hle : (occ i t' H).length ≤ (occ i t' (H ++ [.collect src t p])).length := by
      rw [occ_append_collect]; split <;> simp
    obtain ⟨hd, h1, h2⟩ := h.fin trivial t' i hi (by omega)
    rw [lastTime_append]
    simp only [GOp.src, GOp.time]
    by_cases his : src = i
    · subst his
      simp only [if_true]
      exact ⟨t, rfl, by have := hord hd h1; omega⟩
    · simp only [his, if_false]
      exact ⟨hd, h1, h2⟩

theorem GI.barrierPre {n : Nat} {g : JGroup α} {E : List (JSet α)} {H : List (GOp α)} (h : GI True n g E H)
    (src : Nat) (t : Int) (hs : src < n) (hord : ∀ hd, lastTime src H = some hd → hd ≤ t) :
    GI True n { g with head := g.head.set src (some t) } E (H ++ [.barrier src t]) := by
  refine ⟨h.key, by simp [h.hlen], ?_, ?_, ?_⟩
  · intro i hi
    rw [lastTime_append]
    simp only [GOp.src, GOp.time, List.getElem?_set]
    by_cases his : src = i
    · subst his; simp [h.hlen, hs]
    · simp [his, h.head i hi]
  · intro t'
    exact (h.rows t').congr (fun i hi => occ_append_barrier i t' H src t)
  · intro _ t' i hi hlt
    rw [occ_append_barrier] at hlt
    obtain ⟨hd, h1, h2⟩ := h.fin trivial t' i hi hlt
    rw [lastTime_append]
    simp only [GOp.src, GOp.time]
    by_cases his : src = i
    · subst his
      simp only [if_true]
      exact ⟨t, rfl, by have := hord hd h1; omega⟩
    · simp only [his, if_false]
      exact ⟨hd, h1, h2⟩

end Kap.C12
