import Kap.Proofs.C12PairD
namespace Kap.C12
set_option linter.unusedSimpArgs false
set_option linter.unusedVariables false
variable {α : Type}

theorem take_length_takeWhile {β : Type} (p : β → Bool) (l : List β) : l.take (l.takeWhile p).length = l.takeWhile p := by
  induction l with
  | nil => rfl
  | cons x xs ih => by_cases h : p x <;> simp [List.takeWhile_cons, h, ih]

theorem all_of_filter_length {β : Type} (p : β → Bool) (l : List β) (h : (l.filter p).length = l.length) :
    ∀ x ∈ l, p x = true := by
  induction l with
  | nil => simp
  | cons x xs ih =>
    by_cases hp : p x
    · simp only [List.filter_cons, hp, if_true, List.length_cons, Nat.add_right_cancel_iff] at h
      intro y hy
      simp only [List.mem_cons] at hy
      rcases hy with rfl | hy
      · exact hp
      · exact ih h y hy
    · simp only [List.filter_cons, hp, Bool.false_eq_true, if_false, List.length_cons] at h
      have := List.length_filter_le p xs
      omega

/-- A ready set holds a value of every parent. -/
theorem ready_get (s : JSet α) (h : s.ready = true) (i : Nat) (hi : i < s.values.length) : ∃ v, s.values[i]? = some (some v) := by
  unfold JSet.ready JSet.size at h
  have hall := all_of_filter_length Option.isSome s.values (by simpa using h)
  have hm := hall (s.values[i]) (List.getElem_mem hi)
  cases hv : s.values[i] with
  | none => rw [hv] at hm; simp at hm
  | some v => exact ⟨v, by rw [List.getElem?_eq_getElem hi, hv]⟩

theorem length_takeWhile_le' {β : Type} (p : β → Bool) (l : List β) : (l.takeWhile p).length ≤ l.length := by
  induction l with
  | nil => simp
  | cons x xs ih => by_cases h : p x <;> simp [List.takeWhile_cons, h]; omega

theorem takeWhile_all {β : Type} (p : β → Bool) (l : List β) : ∀ x ∈ l.takeWhile p, p x = true := by
  induction l with
  | nil => simp
  | cons x xs ih =>
    by_cases h : p x
    · simp only [List.takeWhile_cons, h, if_true, List.mem_cons]
      intro y hy; rcases hy with rfl | hy
      · exact h
      · exact ih y hy
    · simp [List.takeWhile_cons, h]

/-- The sets queued at `o` all carry the time `o`. -/
theorem GI.queue_time {wF : Prop} {n : Nat} {g : JGroup α} {E : List (JSet α)} {H : List (GOp α)} (h : GI wF n g E H)
    (o : Int) (q : List (JSet α)) (hq : alookup o g.sets = some q) : ∀ s ∈ q, s.time = o := by
  intro s hs
  obtain ⟨k, hk⟩ := List.mem_iff_getElem?.mp hs
  have hR := h.rows o
  rw [hq] at hR
  simp only [Option.getD_some] at hR
  have hkl : k < q.length := (List.getElem?_eq_some_iff.mp hk).1
  exact (hR.row ((E.filter (fun s => s.time == o)).length + k) s
    (by rw [List.getElem?_append_right (by omega)]; simpa using hk)).1

theorem filter_time_eq (l : List (JSet α)) (o t : Int) (h : ∀ s ∈ l, s.time = o) :
    l.filter (fun s => s.time == t) = if t = o then l else [] := by
  by_cases ht : t = o
  · subst ht
    simp only [if_true]
    apply List.filter_eq_self.mpr
    intro s hs; simp [h s hs]
  · simp only [ht, if_false]
    apply List.filter_eq_nil_iff.mpr
    intro s hs; simp [h s hs]; exact fun hc => ht hc.symm

/-- `emit` keeps the invariant: it only moves a prefix of the queue of `oldestTime` to the output, and it
takes non-ready sets only when every head is strictly past that time. -/
theorem GI.emit {wF : Prop} {n : Nat} (fuel : Nat) (g : JGroup α) (only : Bool) (out E : List (JSet α)) (H : List (GOp α))
    (h : GI wF n g E H)
    (hon : wF → only = false → ∀ x ∈ g.head, JGroup.after x g.oldest = true) :
    ∃ new, (JGroup.emit fuel g only out).2.1 = out ++ new ∧ GI wF n (JGroup.emit fuel g only out).1 (E ++ new) H := by
  induction fuel generalizing g only out E with
  | zero => exact ⟨[], by simp [JGroup.emit], by simpa [JGroup.emit] using h⟩
  | succ fuel ih =>
    simp only [JGroup.emit]
    by_cases he : g.sets.isEmpty
    · simp only [he, if_true]; exact ⟨[], by simp, by simpa using h⟩
    · simp only [he, if_false]
      cases ho : g.oldest with
      | none => simp only []; exact ⟨[], by simp, by simpa using h⟩
      | some o =>
        simp only []
        cases hq : alookup o g.sets with
        | none => simp only []; exact ⟨[], by simp, by simpa using h⟩
        | some q =>
          simp only []
          have hqt := h.queue_time o q hq
          generalize hi : (q.takeWhile (fun s => s.ready || !only)).length = i
          have htk : q.take i = q.takeWhile (fun s => s.ready || !only) := by rw [← hi, take_length_takeWhile]
          have hile : i ≤ q.length := by rw [← hi]; exact length_takeWhile_le' _ _
          -- the state after this round
          have hlook : ∀ t, (alookup t (if i = q.length then aerase o g.sets else aupsert o (q.drop i) g.sets)).getD [] =
              if t = o then q.drop i else (alookup t g.sets).getD [] := by
            intro t
            by_cases hiq : i = q.length
            · simp only [hiq, if_true, alookup_aerase]
              by_cases hto : t = o <;> simp [hto]
            · simp only [hiq, if_false, alookup_aupsert]
              by_cases hto : t = o <;> simp [hto]
          generalize hS : (if i = q.length then aerase o g.sets else aupsert o (q.drop i) g.sets) = S at hlook ⊢
          generalize hg' : ({ sets := S, head := g.head, oldest := minKey S } : JGroup α) = g'
          have hG : GI wF n g' (E ++ q.take i) H := by
            subst hg'
            refine ⟨rfl, h.hlen, h.head, ?_, ?_⟩
            · intro t
              simp only [hlook, List.filter_append]
              rw [filter_time_eq (q.take i) o t (fun s hs => hqt s (List.mem_of_mem_take hs))]
              have hR := h.rows t
              by_cases hto : t = o
              · subst hto
                rw [hq] at hR
                simp only [Option.getD_some, if_true] at hR ⊢
                rw [List.append_assoc, List.take_append_drop]
                exact hR
              · simpa [hto] using hR
            · intro hw t j hj hlt
              simp only [List.filter_append] at hlt
              rw [filter_time_eq (q.take i) o t (fun s hs => hqt s (List.mem_of_mem_take hs))] at hlt
              by_cases hto : t = o
              · subst hto
                simp only [if_true, List.length_append] at hlt
                by_cases hold : (occ j t H).length < (E.filter (fun s => s.time == t)).length
                · exact h.fin hw t j hj hold
                · -- row number |occ j| was taken although parent j is missing from it
                  have hR := h.rows t
                  rw [hq] at hR
                  simp only [Option.getD_some] at hR
                  have hkq : (occ j t H).length - (E.filter (fun s => s.time == t)).length < (q.take i).length := by omega
                  have hkq2 : (occ j t H).length - (E.filter (fun s => s.time == t)).length < q.length := by
                    have := List.length_take_le i q; omega
                  have hmem : (q.take i)[(occ j t H).length - (E.filter (fun s => s.time == t)).length]'hkq ∈ q.takeWhile (fun s => s.ready || !only) := by
                    rw [← htk]; exact List.getElem_mem hkq
                  have hpred := takeWhile_all _ _ _ hmem
                  have hrow := hR.row (occ j t H).length (q[(occ j t H).length - (E.filter (fun s => s.time == t)).length]'hkq2)
                    (by rw [List.getElem?_append_right (by omega)]; exact List.getElem?_eq_getElem hkq2)
                  have hge : (q.take i)[(occ j t H).length - (E.filter (fun s => s.time == t)).length]'hkq =
                      q[(occ j t H).length - (E.filter (fun s => s.time == t)).length]'hkq2 := by simp
                  rw [hge] at hpred
                  obtain ⟨_, hvl, hv⟩ := hrow
                  cases hon' : only with
                  | true =>
                    subst hon'
                    simp only [Bool.not_true, Bool.or_false] at hpred
                    obtain ⟨v, hv2⟩ := ready_get _ hpred j (by omega)
                    rw [hv j hj] at hv2
                    simp at hv2
                  | false =>
                    have hall := hon hw hon'
                    have hh := h.head j hj
                    have hm : lastTime j H ∈ g.head := List.mem_of_getElem? hh
                    have ha := hall _ hm
                    rw [ho] at ha
                    cases hl : lastTime j H with
                    | none => rw [hl] at ha; simp [JGroup.after] at ha
                    | some hd =>
                      rw [hl] at ha
                      simp only [JGroup.after, decide_eq_true_eq] at ha
                      exact ⟨hd, rfl, by omega⟩
              · simp only [hto, if_false, List.append_nil] at hlt
                exact h.fin hw t j hj hlt
          by_cases hon2 : only = true
          · subst hon2
            simp only [Bool.not_true, Bool.false_eq_true, if_false]
            refine ⟨q.take i, rfl, ?_⟩
            simpa using hG
          · have hof : only = false := by cases only <;> simp_all
            subst hof
            simp only [Bool.not_false, if_true, Bool.false_eq_true, if_false]
            obtain ⟨new, n1, n2⟩ := ih g' (JGroup.checkOnlyReady g') (out ++ q.take i) (E ++ q.take i) hG
                (by
                  intro _ hc x hx
                  unfold JGroup.checkOnlyReady at hc
                  simp only [List.any_eq_false, Bool.not_eq_true, Bool.not_eq_false'] at hc
                  have := hc x hx
                  simpa using this)
            refine ⟨q.take i ++ new, ?_, ?_⟩
            · rw [n1, List.append_assoc]
            · rw [← List.append_assoc]; exact n2

end Kap.C12
