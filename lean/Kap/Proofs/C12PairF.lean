import Kap.Proofs.C12PairE
namespace Kap.C12
set_option linter.unusedSimpArgs false
set_option linter.unusedVariables false
variable {α : Type}

namespace JGroup
/-- One arrival at the group. -/
def gstep (n : Nat) (g : JGroup α) : GOp α → JGroup α × List (JSet α) × Status
  | .collect s t p => g.collect n s t p
  | .barrier s t => g.barrier s t

/-- The arrivals in their order; returns the final state and everything emitted. -/
def grun (n : Nat) : JGroup α → List (GOp α) → JGroup α × List (JSet α)
  | g, [] => (g, [])
  | g, op :: ops => ((grun n (g.gstep n op).1 ops).1, (g.gstep n op).2.1 ++ (grun n (g.gstep n op).1 ops).2)
end JGroup

/-- Every parent's (rounded) times never go back. -/
def Ordered (ops : List (GOp α)) : Prop :=
  ∀ i, ((ops.filter (fun op => op.src == i)).map GOp.time).Pairwise (· ≤ ·)

theorem lastTime_mem_aux (i : Nat) (H : List (GOp α)) (acc : Option Int) (hd : Int)
    (h : H.foldl (fun acc op => if op.src = i then some op.time else acc) acc = some hd) :
    acc = some hd ∨ ∃ x ∈ H, x.src = i ∧ x.time = hd := by
  induction H generalizing acc with
  | nil => left; simpa using h
  | cons x xs ih =>
    simp only [List.foldl_cons] at h
    rcases ih _ h with h1 | ⟨y, hy, h2⟩
    · by_cases hx : x.src = i
      · simp only [hx, if_true, Option.some.injEq] at h1
        right; exact ⟨x, by simp, hx, h1⟩
      · simp only [hx, if_false] at h1
        left; exact h1
    · right; exact ⟨y, by simp [hy], h2⟩

theorem lastTime_le_of_ordered (H : List (GOp α)) (op : GOp α) (rest : List (GOp α)) (ho : Ordered (H ++ op :: rest))
    (hd : Int) (h : lastTime op.src H = some hd) : hd ≤ op.time := by
  rcases lastTime_mem_aux op.src H none hd h with h0 | ⟨x, hx, hs, ht⟩
  · cases h0
  · have := ho op.src
    simp only [List.filter_append, List.map_append, List.pairwise_append] at this
    apply this.2.2 hd _ op.time _
    · simp only [List.mem_map, List.mem_filter]; exact ⟨x, ⟨hx, by simp [hs]⟩, ht⟩
    · simp [List.filter_cons]

theorem GI.checkAndEmit {n : Nat} {g : JGroup α} {E : List (JSet α)} {H : List (GOp α)} (h : GI True n g E H) :
    GI True n g.checkAndEmit.1 (E ++ g.checkAndEmit.2.1) H := by
  unfold JGroup.checkAndEmit
  obtain ⟨new, n1, n2⟩ := GI.emit g.fuelFor g g.checkOnlyReady [] E H h (by
    intro _ hc x hx
    unfold JGroup.checkOnlyReady at hc
    simp only [List.any_eq_false, Bool.not_eq_true, Bool.not_eq_false'] at hc
    simpa using hc x hx)
  rw [n1, List.nil_append]; exact n2

theorem GI.gstep {n : Nat} {g : JGroup α} {E : List (JSet α)} {H : List (GOp α)} (h : GI True n g E H) (op : GOp α)
    (hs : op.src < n) (hord : ∀ hd, lastTime op.src H = some hd → hd ≤ op.time) :
    GI True n (g.gstep n op).1 (E ++ (g.gstep n op).2.1) (H ++ [op]) := by
  cases op with
  | collect s t p =>
    simp only [JGroup.gstep, JGroup.collect_eq]
    exact (h.collectPre s t p hs hord).checkAndEmit
  | barrier s t =>
    simp only [JGroup.gstep, JGroup.barrier]
    exact (h.barrierPre s t hs hord).checkAndEmit

theorem GI.grun {n : Nat} (ops : List (GOp α)) (g : JGroup α) (E : List (JSet α)) (H : List (GOp α)) (h : GI True n g E H)
    (hs : ∀ op ∈ ops, op.src < n) (ho : Ordered (H ++ ops)) :
    GI True n (g.grun n ops).1 (E ++ (g.grun n ops).2) (H ++ ops) := by
  induction ops generalizing g E H with
  | nil => simpa [JGroup.grun] using h
  | cons op ops ih =>
    simp only [JGroup.grun]
    have h1 := h.gstep op (hs op (by simp)) (lastTime_le_of_ordered H op ops ho)
    have h2 := ih _ _ _ h1 (fun x hx => hs x (by simp [hx])) (by simpa using ho)
    simpa [List.append_assoc] using h2

theorem GI.weaken {n : Nat} {g : JGroup α} {E : List (JSet α)} {H : List (GOp α)} (h : GI True n g E H) : GI False n g E H :=
  ⟨h.key, h.hlen, h.head, h.rows, fun hf => hf.elim⟩

theorem GI.emitAll {n : Nat} (fuel : Nat) (g : JGroup α) (out E : List (JSet α)) (H : List (GOp α)) (h : GI False n g E H) :
    ∃ new, (JGroup.emitAll fuel g out).2.1 = out ++ new ∧ GI False n (JGroup.emitAll fuel g out).1 (E ++ new) H := by
  induction fuel generalizing g out E with
  | zero => exact ⟨[], by simp [JGroup.emitAll], by simpa [JGroup.emitAll] using h⟩
  | succ fuel ih =>
    simp only [JGroup.emitAll]
    by_cases he : g.sets.isEmpty
    · simp only [he, if_true]; exact ⟨[], by simp, by simpa using h⟩
    · simp only [he, Bool.false_eq_true, if_false]
      obtain ⟨new, n1, n2⟩ := GI.emit g.fuelFor g false out E H h (fun hf => hf.elim)
      generalize hr : JGroup.emit g.fuelFor g false out = r at n1 n2
      obtain ⟨g', out', st⟩ := r
      simp only [] at n1 n2
      cases st with
      | ok =>
        simp only []
        obtain ⟨new', m1, m2⟩ := ih g' out' (E ++ new) n2
        exact ⟨new ++ new', by rw [m1, n1, List.append_assoc], by rw [← List.append_assoc]; exact m2⟩
      | panic => simp only []; exact ⟨new, n1, n2⟩
      | fuel => simp only []; exact ⟨new, n1, n2⟩

/-- After the whole run of one group (arrivals, then `Finish`) the sets emitted for each time are exactly the
pairing by occurrence of what the parents delivered at that time. -/
theorem group_rows {n : Nat} (ops : List (GOp α)) (hs : ∀ op ∈ ops, op.src < n) (ho : Ordered ops) (t : Int) :
    Rows n t ops ((((JGroup.new n : JGroup α).grun n ops).2 ++ (((JGroup.new n : JGroup α).grun n ops).1.finish).2.1).filter
      (fun s => s.time == t)) := by
  have h0 : GI True n (JGroup.new n : JGroup α) [] [] := by
    refine ⟨rfl, by simp [JGroup.new], ?_, ?_, ?_⟩
    · intro i hi; simp [JGroup.new, lastTime, hi]
    · intro t; exact ⟨by simp [JGroup.new, alookup], by simp [occ], by simp [JGroup.new, alookup]⟩
    · intro _ t i hi hlt; simp at hlt
  have h1 := GI.grun ops _ _ _ h0 hs (by simpa using ho)
  simp only [List.nil_append] at h1
  obtain ⟨new, n1, n2⟩ := GI.emitAll (((JGroup.new n : JGroup α).grun n ops).1.sets.length + 1) _ [] _ _ h1.weaken
  have hfin := JGroup.finish_ok ((JGroup.new n : JGroup α).grun n ops).1 h1.key
  unfold JGroup.finish at hfin ⊢
  rw [n1, List.nil_append]
  have := n2.rows t
  rw [hfin.2] at this
  simpa [alookup] using this

end Kap.C12
