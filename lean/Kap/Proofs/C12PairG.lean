import Kap.Proofs.C12PairF
namespace Kap.C12
open Spec
set_option linter.unusedSimpArgs false
set_option linter.unusedVariables false
variable {α : Type}

/-! ### `foldl max` -/

theorem foldl_max_ge (l : List Nat) (init : Nat) : init ≤ l.foldl max init ∧ ∀ x ∈ l, x ≤ l.foldl max init := by
  induction l generalizing init with
  | nil => simp
  | cons y ys ih =>
    simp only [List.foldl_cons]
    obtain ⟨a, b⟩ := ih (max init y)
    refine ⟨by omega, ?_⟩
    intro x hx
    simp only [List.mem_cons] at hx
    rcases hx with rfl | hx
    · omega
    · exact b x hx

theorem foldl_max_le (l : List Nat) (init B : Nat) (hi : init ≤ B) (h : ∀ x ∈ l, x ≤ B) : l.foldl max init ≤ B := by
  induction l generalizing init with
  | nil => simpa
  | cons y ys ih =>
    simp only [List.foldl_cons]
    apply ih
    · have := h y (by simp); omega
    · intro x hx; exact h x (by simp [hx])

/-- A list of sets satisfying `Rows` IS the specification's pairing by occurrence. -/
theorem Rows.eq_rowsOf {n : Nat} {t : Int} {H : List (GOp α)} {rows : List (JSet α)} (hR : Rows n t H rows) :
    rows = (rowsOf ((List.range n).map (fun i => occ i t H))).map (fun vals => ({ time := t, values := vals } : JSet α)) := by
  have hM : (((List.range n).map (fun i => occ i t H)).map List.length).foldl max 0 = rows.length := by
    apply Nat.le_antisymm
    · apply foldl_max_le _ _ _ (Nat.zero_le _)
      intro x hx
      simp only [List.mem_map, List.mem_range] at hx
      obtain ⟨c, ⟨i, hi, rfl⟩, rfl⟩ := hx
      exact hR.len i hi
    · by_cases hz : rows.length = 0
      · omega
      · have hl : rows.length - 1 < rows.length := by omega
        obtain ⟨i, hi, v, hv⟩ := hR.nonempty (rows[rows.length - 1]'hl) (List.getElem_mem hl)
        obtain ⟨_, _, c⟩ := hR.row (rows.length - 1) _ (List.getElem?_eq_getElem hl)
        rw [c i hi] at hv
        have hlt : rows.length - 1 < (occ i t H).length := by
          simp only [Option.some.injEq] at hv
          exact (List.getElem?_eq_some_iff.mp hv).1
        have := (foldl_max_ge (((List.range n).map (fun i => occ i t H)).map List.length) 0).2 (occ i t H).length
          (by simp only [List.mem_map, List.mem_range]; exact ⟨occ i t H, ⟨i, hi, rfl⟩, rfl⟩)
        omega
  apply List.ext_getElem?
  intro k
  unfold rowsOf
  rw [hM]
  simp only [List.getElem?_map, List.getElem?_range]
  by_cases hk : k < rows.length
  · rw [List.getElem?_eq_getElem hk]
    simp only [hk, List.getElem?_range, Option.map_some, Option.some.injEq]
    obtain ⟨a, b, c⟩ := hR.row k rows[k] (List.getElem?_eq_getElem hk)
    have : rows[k] = { time := rows[k].time, values := rows[k].values } := rfl
    rw [this, a]
    congr 1
    apply List.ext_getElem?
    intro i
    simp only [List.getElem?_map, List.getElem?_range]
    by_cases hi : i < n
    · rw [c i hi]; simp [hi]
    · rw [List.getElem?_eq_none (by omega)]; simp [hi]
  · rw [List.getElem?_eq_none (by omega)]
    simp [hk]

/-! ### distinct keys, keyed flatMap, permutations from equal key-classes -/

theorem mem_distinct {κ : Type} [BEq κ] [LawfulBEq κ] (l : List κ) (x : κ) : x ∈ distinct l ↔ x ∈ l := by
  induction l with
  | nil => simp [distinct]
  | cons y ys ih =>
    simp only [distinct, List.mem_cons, List.mem_filter, ih, bne_iff_ne, ne_eq]
    constructor
    · rintro (h | ⟨h, _⟩)
      · exact Or.inl h
      · exact Or.inr h
    · rintro (h | h)
      · exact Or.inl h
      · by_cases hxy : x = y
        · exact Or.inl hxy
        · exact Or.inr ⟨h, hxy⟩

theorem nodup_distinct {κ : Type} [BEq κ] [LawfulBEq κ] (l : List κ) : (distinct l).Nodup := by
  induction l with
  | nil => simp [distinct]
  | cons y ys ih =>
    simp only [distinct, List.nodup_cons, List.mem_filter, bne_iff_ne, ne_eq, not_true_eq_false, and_false, not_false_eq_true, true_and]
    exact ih.sublist List.filter_sublist

theorem filter_flatMap_keyed {κ β : Type} [BEq κ] [LawfulBEq κ] (ks : List κ) (hnd : ks.Nodup) (f : κ → List β) (key : β → κ)
    (hk : ∀ k ∈ ks, ∀ x ∈ f k, key x = k) (k0 : κ) :
    (ks.flatMap f).filter (fun x => key x == k0) = if k0 ∈ ks then f k0 else [] := by
  induction ks with
  | nil => simp
  | cons k ks ih =>
    simp only [List.flatMap_cons, List.filter_append]
    have hnd' := List.nodup_cons.mp hnd
    rw [ih hnd'.2 (fun k' hk' => hk k' (by simp [hk']))]
    by_cases hkk : k = k0
    · subst hkk
      have h1 : (f k).filter (fun x => key x == k) = f k := by
        apply List.filter_eq_self.mpr
        intro x hx; simp [hk k (by simp) x hx]
      simp [h1, hnd'.1]
    · have h1 : (f k).filter (fun x => key x == k0) = [] := by
        apply List.filter_eq_nil_iff.mpr
        intro x hx; simp [hk k (by simp) x hx, hkk]
      have hne : ¬ k0 = k := fun h => hkk h.symm
      simp [h1, hne]

theorem perm_of_filter_key {κ β : Type} [BEq κ] [LawfulBEq κ] [DecidableEq β] (key : β → κ) (a b : List β)
    (h : ∀ k, a.filter (fun x => key x == k) = b.filter (fun x => key x == k)) : a.Perm b := by
  rw [List.perm_iff_count]
  intro x
  have ha : a.count x = (a.filter (fun y => key y == key x)).count x := by
    rw [List.count_filter]; simp
  have hb : b.count x = (b.filter (fun y => key y == key x)).count x := by
    rw [List.count_filter]; simp
  rw [ha, hb, h (key x)]

end Kap.C12
