import Kap.Proofs.C12PairG
namespace Kap.C12
open Spec
set_option linter.unusedSimpArgs false
set_option linter.unusedVariables false

/-! ### from the node's arrivals to one group's arrivals -/

def toG (cfg : JCfg) : JOp → GOp JMsg
  | .point src m => .collect src (goRound cfg.tol m.time) m
  | .barrier src _ t => .barrier src (goRound cfg.tol t)

def gopsOf (cfg : JCfg) (g : String) (ops : List JOp) : List (GOp JMsg) := (ops.filter (fun op => op.grp == g)).map (toG cfg)

theorem occ_eq_occs (cfg : JCfg) (g : String) (ops : List JOp) (i : Nat) (t : Int) :
    occ i t (gopsOf cfg g ops) =
      occs (fun m : JMsg => goRound cfg.tol m.time) t (parentSeq i ((pointsOf ops).filter (fun a => a.2.grp == g))) := by
  induction ops with
  | nil => rfl
  | cons op ops ih =>
    cases op with
    | point src m =>
      by_cases hg : m.grp = g
      · have h1 : gopsOf cfg g (JOp.point src m :: ops) = .collect src (goRound cfg.tol m.time) m :: gopsOf cfg g ops := by
          simp [gopsOf, JOp.grp, hg, toG]
        have h2 : (pointsOf (JOp.point src m :: ops)).filter (fun a => a.2.grp == g) = (src, m) :: (pointsOf ops).filter (fun a => a.2.grp == g) := by
          simp [pointsOf, hg]
        rw [h1, h2]
        simp only [occ, List.filterMap_cons] at ih ⊢
        by_cases hs : src = i
        · subst hs
          by_cases ht : goRound cfg.tol m.time = t
          · simp [ht, parentSeq, occs, ih]
          · simp [ht, parentSeq, occs, ih]
        · simp [hs, parentSeq, occs, ih]
      · have h1 : gopsOf cfg g (JOp.point src m :: ops) = gopsOf cfg g ops := by simp [gopsOf, JOp.grp, hg]
        have h2 : (pointsOf (JOp.point src m :: ops)).filter (fun a => a.2.grp == g) = (pointsOf ops).filter (fun a => a.2.grp == g) := by
          simp [pointsOf, hg]
        rw [h1, h2, ih]
    | barrier src grp tt =>
      have h2 : pointsOf (JOp.barrier src grp tt :: ops) = pointsOf ops := by simp [pointsOf]
      rw [h2, ← ih]
      by_cases hg : grp = g
      · have h1 : gopsOf cfg g (JOp.barrier src grp tt :: ops) = .barrier src (goRound cfg.tol tt) :: gopsOf cfg g ops := by
          simp [gopsOf, JOp.grp, hg, toG]
        rw [h1]; simp [occ]
      · have h1 : gopsOf cfg g (JOp.barrier src grp tt :: ops) = gopsOf cfg g ops := by simp [gopsOf, JOp.grp, hg]
        rw [h1]

/-- Everything one group emits over the whole run. -/
def groupOut (cfg : JCfg) (gops : List (GOp JMsg)) : List (JSet JMsg) :=
  ((JGroup.new cfg.parents : JGroup JMsg).grun cfg.parents gops).2 ++
    (((JGroup.new cfg.parents : JGroup JMsg).grun cfg.parents gops).1.finish).2.1

theorem rowsOf_nil_of_all_nil {β : Type} (cols : List (List β)) (h : ∀ c ∈ cols, c = []) : rowsOf cols = [] := by
  unfold rowsOf
  have : (cols.map List.length).foldl max 0 = 0 := by
    apply Nat.le_antisymm _ (Nat.zero_le _)
    apply foldl_max_le _ _ _ (Nat.le_refl _)
    intro x hx
    simp only [List.mem_map] at hx
    obtain ⟨c, hc, rfl⟩ := hx
    simp [h c hc]
  simp [this]

/-- One group: the sets emitted over the whole run are, up to permutation, the specification's join sets. -/
theorem group_perm (cfg : JCfg) (g : String) (ops : List JOp)
    (hs : ∀ op ∈ ops, op.srcOf < cfg.parents) (ho : Ordered (gopsOf cfg g ops)) :
    (groupOut cfg (gopsOf cfg g ops)).Perm
      (joinSets cfg.parents (fun m : JMsg => goRound cfg.tol m.time) ((pointsOf ops).filter (fun a => a.2.grp == g))) := by
  apply perm_of_filter_key (fun s : JSet JMsg => s.time)
  intro t
  have hsrc : ∀ op ∈ gopsOf cfg g ops, op.src < cfg.parents := by
    intro op hop
    simp only [gopsOf, List.mem_map, List.mem_filter] at hop
    obtain ⟨o, ⟨ho1, _⟩, rfl⟩ := hop
    have := hs o ho1
    cases o <;> simpa [toG, GOp.src, JOp.srcOf] using this
  have hR := group_rows (gopsOf cfg g ops) hsrc ho t
  have h1 := hR.eq_rowsOf
  unfold groupOut
  rw [h1]
  unfold joinSets
  rw [filter_flatMap_keyed _ (nodup_distinct _) _ _ (by
    intro k _ x hx
    simp only [List.mem_map] at hx
    obtain ⟨_, _, rfl⟩ := hx
    rfl)]
  have hcols : (List.range cfg.parents).map (fun i => occ i t (gopsOf cfg g ops)) =
      (List.range cfg.parents).map (fun i => occs (fun m : JMsg => goRound cfg.tol m.time) t
        (parentSeq i ((pointsOf ops).filter (fun a => a.2.grp == g)))) := by
    apply List.map_congr_left
    intro i _
    exact occ_eq_occs cfg g ops i t
  rw [hcols]
  by_cases hm : t ∈ distinct (((pointsOf ops).filter (fun a => a.2.grp == g)).map (fun a => goRound cfg.tol a.2.time))
  · simp [hm]
  · simp only [hm, if_false]
    rw [rowsOf_nil_of_all_nil]
    · rfl
    · intro c hc
      simp only [List.mem_map, List.mem_range] at hc
      obtain ⟨i, _, rfl⟩ := hc
      unfold occs parentSeq
      apply List.filter_eq_nil_iff.mpr
      intro m hmm
      simp only [List.mem_map, List.mem_filter] at hmm
      obtain ⟨a, ⟨ha, _⟩, rfl⟩ := hmm
      intro hc2
      apply hm
      rw [mem_distinct]
      simp only [List.mem_map]
      exact ⟨a, by simpa using ha, by simpa using hc2⟩

end Kap.C12
