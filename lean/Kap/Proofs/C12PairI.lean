import Kap.Proofs.C12PairH
namespace Kap.C12
open Spec
set_option linter.unusedSimpArgs false
set_option linter.unusedVariables false

theorem perm_of_filter_key_perm {κ β : Type} [BEq κ] [LawfulBEq κ] [DecidableEq β] (key : β → κ) (a b : List β)
    (h : ∀ k, (a.filter (fun x => key x == k)).Perm (b.filter (fun x => key x == k))) : a.Perm b := by
  rw [List.perm_iff_count]
  intro x
  have ha : a.count x = (a.filter (fun y => key y == key x)).count x := by
    rw [List.count_filter]; simp
  have hb : b.count x = (b.filter (fun y => key y == key x)).count x := by
    rw [List.count_filter]; simp
  rw [ha, hb, (h (key x)).count_eq]

namespace JNode

theorem glookup_gupsert (k k' : String) (v : JGroup JMsg) (gs : List (String × JGroup JMsg)) :
    glookup k' (gupsert k v gs) = if k' = k then some v else glookup k' gs := by
  induction gs with
  | nil => simp only [gupsert, glookup]; by_cases h : k = k' <;> simp [h, eq_comm]
  | cons x xs ih =>
    obtain ⟨k0, v0⟩ := x
    simp only [gupsert]
    by_cases hk : k0 = k
    · subst hk
      simp only [if_true, glookup]
      by_cases h : k0 = k' <;> simp [h, eq_comm]
      intro h2; exact absurd h2.symm h
    · simp only [hk, if_false, glookup, ih]
      by_cases h : k0 = k'
      · subst h; simp [hk]
      · simp [h]

theorem mem_keys_gupsert (k : String) (v : JGroup JMsg) (gs : List (String × JGroup JMsg)) (x : String)
    (hx : x ∈ (gupsert k v gs).map (·.1)) : x = k ∨ x ∈ gs.map (·.1) := by
  induction gs with
  | nil => simp [gupsert] at hx; exact Or.inl hx
  | cons y ys ih =>
    obtain ⟨k0, v0⟩ := y
    simp only [gupsert] at hx
    by_cases hk : k0 = k
    · simp only [hk, if_true, List.map_cons, List.mem_cons] at hx
      rcases hx with h | h
      · exact Or.inl h
      · right; simp [h]
    · simp only [hk, if_false, List.map_cons, List.mem_cons] at hx
      rcases hx with h | h
      · right; simp [h]
      · rcases ih h with h2 | h2
        · exact Or.inl h2
        · right; simp [h2]

theorem nodup_gupsert (k : String) (v : JGroup JMsg) (gs : List (String × JGroup JMsg)) (h : (gs.map (·.1)).Nodup) :
    ((gupsert k v gs).map (·.1)).Nodup := by
  induction gs with
  | nil => simp [gupsert]
  | cons y ys ih =>
    obtain ⟨k0, v0⟩ := y
    simp only [List.map_cons, List.nodup_cons] at h
    simp only [gupsert]
    by_cases hk : k0 = k
    · simp only [hk, if_true, List.map_cons, List.nodup_cons]
      rw [← hk]; exact h
    · simp only [hk, if_false, List.map_cons, List.nodup_cons]
      refine ⟨?_, ih h.2⟩
      intro hc
      rcases mem_keys_gupsert k v ys k0 hc with h2 | h2
      · exact hk h2
      · exact h.1 h2

/-- One arrival changes only its own group, by that group's step. -/
theorem step_group (cfg : JCfg) (nd : JNode) (op : JOp) (g : String) (hn : cfg.names.length = cfg.parents) :
    (nd.step cfg op).1.group cfg g =
      (if g = op.grp then ((nd.group cfg op.grp).gstep cfg.parents (toG cfg op)).1 else nd.group cfg g) ∧
    (nd.step cfg op).2.1 = ((nd.group cfg op.grp).gstep cfg.parents (toG cfg op)).2.1 ∧
    ((nd.groups.map (·.1)).Nodup → ((nd.step cfg op).1.groups.map (·.1)).Nodup) := by
  cases op with
  | point src m =>
    simp only [step, point, JOp.grp, toG, JGroup.gstep, group, glookup_gupsert, hn]
    refine ⟨?_, by trivial, fun h => nodup_gupsert _ _ _ h⟩
    by_cases hg : g = m.grp <;> simp [hg]
  | barrier src grp t =>
    simp only [step, barrier, JOp.grp, toG, JGroup.gstep, group, glookup_gupsert]
    refine ⟨?_, by trivial, fun h => nodup_gupsert _ _ _ h⟩
    by_cases hg : g = grp <;> simp [hg]

/-- The node's output with every set tagged by the group that emitted it. -/
def runOpsT (cfg : JCfg) : JNode → List JOp → List (String × JSet JMsg)
  | _, [] => []
  | nd, op :: ops => ((nd.step cfg op).2.1.map (fun s => (op.grp, s))) ++ runOpsT cfg (nd.step cfg op).1 ops

def finishT : List (String × JGroup JMsg) → List (String × JSet JMsg)
  | [] => []
  | (k, g) :: rest => (g.finish.2.1.map (fun s => (k, s))) ++ finishT rest

theorem runOpsT_snd (cfg : JCfg) (ops : List JOp) (nd : JNode) : (runOpsT cfg nd ops).map (·.2) = (runOps cfg nd ops).2.1 := by
  induction ops generalizing nd with
  | nil => rfl
  | cons op ops ih => simp [runOpsT, runOps, ih, Function.comp_def]

theorem finishT_snd (gs : List (String × JGroup JMsg)) : (finishT gs).map (·.2) = (finish gs).2.1 := by
  induction gs with
  | nil => rfl
  | cons x xs ih => obtain ⟨k, g⟩ := x; simp [finishT, finish, ih, Function.comp_def]

theorem filter_tagged (g k : String) (l : List (JSet JMsg)) :
    ((l.map (fun s => (k, s))).filter (fun x => x.1 == g)).map (·.2) = if k = g then l else [] := by
  by_cases h : k = g
  · subst h
    rw [List.filter_eq_self.mpr (by intro x hx; simp only [List.mem_map] at hx; obtain ⟨_, _, rfl⟩ := hx; simp)]
    simp [Function.comp_def]
  · rw [List.filter_eq_nil_iff.mpr (by intro x hx; simp only [List.mem_map] at hx; obtain ⟨_, _, rfl⟩ := hx; simp [h])]
    simp [h]

/-- Demultiplexing: restricted to one group, the node behaves as that group alone on its own arrivals. -/
theorem runOps_demux (cfg : JCfg) (hn : cfg.names.length = cfg.parents) (g : String) (ops : List JOp) (nd : JNode) :
    ((runOpsT cfg nd ops).filter (fun x => x.1 == g)).map (·.2) = ((nd.group cfg g).grun cfg.parents (gopsOf cfg g ops)).2 ∧
    (runOps cfg nd ops).1.group cfg g = ((nd.group cfg g).grun cfg.parents (gopsOf cfg g ops)).1 ∧
    ((nd.groups.map (·.1)).Nodup → ((runOps cfg nd ops).1.groups.map (·.1)).Nodup) := by
  induction ops generalizing nd with
  | nil => exact ⟨rfl, rfl, id⟩
  | cons op ops ih =>
    obtain ⟨s1, s2, s3⟩ := step_group cfg nd op g hn
    obtain ⟨i1, i2, i3⟩ := ih (nd.step cfg op).1
    simp only [runOpsT, runOps, List.filter_append, List.map_append, filter_tagged]
    by_cases hg : op.grp = g
    · have hgo : gopsOf cfg g (op :: ops) = toG cfg op :: gopsOf cfg g ops := by simp [gopsOf, hg]
      rw [hgo]
      simp only [JGroup.grun, hg, if_true]
      rw [i1, i2, s1, s2]
      simp only [hg, if_true]
      exact ⟨trivial, trivial, fun h => i3 (s3 h)⟩
    · have hgo : gopsOf cfg g (op :: ops) = gopsOf cfg g ops := by simp [gopsOf, hg]
      rw [hgo]
      simp only [hg, if_false, List.nil_append]
      rw [i1, i2, s1]
      have : ¬ g = op.grp := fun h => hg h.symm
      simp only [this, if_false]
      exact ⟨trivial, trivial, fun h => i3 (s3 h)⟩

theorem glookup_none_of_not_mem (g : String) (gs : List (String × JGroup JMsg)) (h : g ∉ gs.map (·.1)) : glookup g gs = none := by
  induction gs with
  | nil => rfl
  | cons x xs ih =>
    obtain ⟨k, v⟩ := x
    simp only [List.map_cons, List.mem_cons, not_or] at h
    simp only [glookup]
    rw [if_neg (fun hc => h.1 hc.symm)]
    exact ih h.2

theorem new_finish (n : Nat) : ((JGroup.new n : JGroup JMsg).finish).2.1 = [] := by
  simp [JGroup.finish, JGroup.new, JGroup.emitAll]

theorem finishT_filter (n : Nat) (g : String) (gs : List (String × JGroup JMsg)) (hnd : (gs.map (·.1)).Nodup) :
    ((finishT gs).filter (fun x => x.1 == g)).map (·.2) = (((glookup g gs).getD (JGroup.new n)).finish).2.1 := by
  induction gs with
  | nil => simp [finishT, glookup, new_finish]
  | cons x xs ih =>
    obtain ⟨k, v⟩ := x
    simp only [List.map_cons, List.nodup_cons] at hnd
    simp only [finishT, List.filter_append, List.map_append, filter_tagged, glookup]
    by_cases hk : k = g
    · subst hk
      simp only [if_true, Option.getD_some]
      rw [ih hnd.2, glookup_none_of_not_mem k xs hnd.1]
      simp [new_finish]
    · simp only [hk, if_false, List.nil_append]
      exact ih hnd.2

end JNode
end Kap.C12
