import Kap.Proofs.C12PairI
namespace Kap.C12
open Spec
set_option linter.unusedSimpArgs false
set_option linter.unusedVariables false

theorem gops_times (cfg : JCfg) (g : String) (i : Nat) (ops : List JOp) :
    ((gopsOf cfg g ops).filter (fun op => op.src == i)).map GOp.time =
      ((stepsOf ops).filter (fun s => s.1 == i && s.2.1 == g)).map (fun s => goRound cfg.tol s.2.2) := by
  induction ops with
  | nil => rfl
  | cons op ops ih =>
    have hst : stepsOf (op :: ops) = (op.srcOf, op.grp, op.rawTime) :: stepsOf ops := rfl
    rw [hst]
    by_cases hg : op.grp = g
    · have hgo : gopsOf cfg g (op :: ops) = toG cfg op :: gopsOf cfg g ops := by simp [gopsOf, hg]
      rw [hgo]
      have hsrc : (toG cfg op).src = op.srcOf := by cases op <;> rfl
      have htime : (toG cfg op).time = goRound cfg.tol op.rawTime := by cases op <;> rfl
      by_cases hi : op.srcOf = i
      · simp [List.filter_cons, hsrc, hi, hg, htime, ih]
      · simp [List.filter_cons, hsrc, hi, hg, ih]
    · have hgo : gopsOf cfg g (op :: ops) = gopsOf cfg g ops := by simp [gopsOf, hg]
      rw [hgo, ih]
      simp [List.filter_cons, hg]

theorem ordered_of_joinOrdered (cfg : JCfg) (ops : List JOp) (hs : ∀ op ∈ ops, op.srcOf < cfg.parents)
    (ho : joinOrdered cfg (stepsOf ops)) (g : String) : Ordered (gopsOf cfg g ops) := by
  intro i
  rw [gops_times]
  by_cases hi : i < cfg.parents
  · by_cases hg : g ∈ distinct ((stepsOf ops).map (·.2.1))
    · exact ho i hi g hg
    · rw [List.filter_eq_nil_iff.mpr]
      · simp
      · intro s hsm hc
        apply hg
        rw [mem_distinct]
        simp only [Bool.and_eq_true, beq_iff_eq] at hc
        simp only [List.mem_map]
        exact ⟨s, hsm, hc.2⟩
  · rw [List.filter_eq_nil_iff.mpr]
    · simp
    · intro s hsm hc
      simp only [stepsOf, List.mem_map] at hsm
      obtain ⟨op, hop, rfl⟩ := hsm
      simp only [Bool.and_eq_true, beq_iff_eq] at hc
      have := hs op hop
      omega

theorem filterMap_flatMap' {κ β γ : Type} (ks : List κ) (f : κ → List β) (h : β → Option γ) :
    (ks.flatMap f).filterMap h = ks.flatMap (fun k => (f k).filterMap h) := by
  induction ks with
  | nil => rfl
  | cons k ks ih => simp [List.flatMap_cons, List.filterMap_append, ih]

theorem flatMap_congr' {κ β : Type} (ks : List κ) (f f' : κ → List β) (h : ∀ k ∈ ks, f k = f' k) :
    ks.flatMap f = ks.flatMap f' := by
  induction ks with
  | nil => rfl
  | cons k ks ih =>
    simp only [List.flatMap_cons]
    rw [h k (by simp), ih (fun k' hk' => h k' (by simp [hk']))]

theorem filterMap_congr' {β γ : Type} (l : List β) (f f' : β → Option γ) (h : ∀ x ∈ l, f x = f' x) :
    l.filterMap f = l.filterMap f' := by
  induction l with
  | nil => rfl
  | cons x xs ih =>
    simp only [List.filterMap_cons]
    rw [h x (by simp), ih (fun y hy => h y (by simp [hy]))]

theorem joinSets_values_length {α : Type} (parents : Nat) (rt : α → Int) (arr : List (Nat × α)) :
    ∀ s ∈ joinSets parents rt arr, s.values.length = parents := by
  intro s hs
  simp only [joinSets, rowsOf, List.mem_flatMap, List.mem_map, List.mem_range] at hs
  obtain ⟨t, _, vals, ⟨k, _, rfl⟩, rfl⟩ := hs
  simp

theorem tagged_filter_eq (g : String) (T : List (String × JSet JMsg)) :
    T.filter (fun x => x.1 == g) = ((T.filter (fun x => x.1 == g)).map (·.2)).map (fun s => (g, s)) := by
  induction T with
  | nil => rfl
  | cons x xs ih =>
    by_cases h : x.1 = g
    · simp only [List.filter_cons, h, beq_self_eq_true, if_true, List.map_cons]
      rw [← ih]
      congr 1
      obtain ⟨a, b⟩ := x
      simp only at h
      subst h; rfl
    · have : ¬ (x.1 == g) = true := by simpa using h
      simp only [List.filter_cons, this, if_false]
      exact ih

/-- **join_pairs_by_occurrence.** -/
theorem join_pairs (cfg : JCfg) (ops : List JOp) (hn : cfg.names.length = cfg.parents)
    (hs : ∀ op ∈ ops, op.srcOf < cfg.parents) (ho : joinOrdered cfg (stepsOf ops)) :
    (((JNode.run cfg ops).2.1).filterMap (joinIntoPoint cfg)).Perm (joinOutput cfg (pointsOf ops)) := by
  -- the tagged output of the whole run
  generalize hT : JNode.runOpsT cfg JNode.init ops ++ JNode.finishT (JNode.runOps cfg JNode.init ops).1.groups = T
  have hsnd : T.map (·.2) = (JNode.run cfg ops).2.1 := by
    rw [← hT, List.map_append, JNode.runOpsT_snd, JNode.finishT_snd]; rfl
  have hG : ∀ g, (T.filter (fun x => x.1 == g)).map (·.2) = groupOut cfg (gopsOf cfg g ops) := by
    intro g
    obtain ⟨d1, d2, d3⟩ := JNode.runOps_demux cfg hn g ops JNode.init
    rw [← hT, List.filter_append, List.map_append, d1,
      JNode.finishT_filter cfg.parents g _ (d3 (by simp [JNode.init]))]
    have hinit : JNode.init.group cfg g = JGroup.new cfg.parents := rfl
    have hgrp : (JNode.glookup g (JNode.runOps cfg JNode.init ops).1.groups).getD (JGroup.new cfg.parents) =
        (JNode.runOps cfg JNode.init ops).1.group cfg g := rfl
    rw [hgrp, d2, hinit]
    rfl
  have hperm : T.Perm ((distinct ((pointsOf ops).map (·.2.grp))).flatMap (fun g =>
      (joinSets cfg.parents (fun m : JMsg => goRound cfg.tol m.time) ((pointsOf ops).filter (fun a => a.2.grp == g))).map (fun s => (g, s)))) := by
    apply perm_of_filter_key_perm (fun x : String × JSet JMsg => x.1)
    intro g
    rw [filter_flatMap_keyed _ (nodup_distinct _) _ _ (by
      intro k _ x hx
      simp only [List.mem_map] at hx
      obtain ⟨_, _, rfl⟩ := hx
      rfl)]
    rw [tagged_filter_eq, hG g]
    have hgp := group_perm cfg g ops hs (ordered_of_joinOrdered cfg ops hs ho g)
    by_cases hm : g ∈ distinct ((pointsOf ops).map (·.2.grp))
    · simp only [hm, if_true]
      exact hgp.map _
    · simp only [hm, if_false]
      have hnil : (pointsOf ops).filter (fun a => a.2.grp == g) = [] := by
        apply List.filter_eq_nil_iff.mpr
        intro a ha hc
        apply hm
        rw [mem_distinct]
        simp only [List.mem_map]
        exact ⟨a, ha, by simpa using hc⟩
      rw [hnil] at hgp
      have : joinSets cfg.parents (fun m : JMsg => goRound cfg.tol m.time) ([] : List (Nat × JMsg)) = [] := by
        simp [joinSets, distinct]
      rw [this] at hgp
      rw [hgp.eq_nil]
      rfl
  have h2 := (hperm.map (·.2)).filterMap (joinIntoPoint cfg)
  rw [hsnd] at h2
  refine h2.trans (List.Perm.of_eq ?_)
  unfold joinOutput
  rw [List.map_flatMap, filterMap_flatMap']
  apply flatMap_congr'
  intro g _
  simp only [List.map_map, Function.comp_def, List.map_id']
  apply filterMap_congr'
  intro s hsm
  exact joinIntoPoint_eq_joinedPoint cfg s (by rw [joinSets_values_length _ _ _ s hsm, hn]; exact Nat.le_refl _)

end Kap.C12
