import Kap.Proofs.C12PairJ
namespace Kap.C12
open Spec
set_option linter.unusedSimpArgs false
set_option linter.unusedVariables false

theorem mem_parentSeq {β : Type} (i : Nat) (x : β) (arr : List (Nat × β)) : x ∈ parentSeq i arr ↔ (i, x) ∈ arr := by
  simp only [parentSeq, List.mem_map, List.mem_filter, beq_iff_eq]
  constructor
  · rintro ⟨a, ⟨ha, hi⟩, rfl⟩; obtain ⟨a1, a2⟩ := a; simp only at hi; subst hi; exact ha
  · intro h; exact ⟨(i, x), ⟨h, rfl⟩, rfl⟩

theorem mem_iff_of_parentSeq_eq {β : Type} (n : Nat) (a₁ a₂ : List (Nat × β)) (h₁ : ∀ a ∈ a₁, a.1 < n) (h₂ : ∀ a ∈ a₂, a.1 < n)
    (hsame : ∀ i, i < n → parentSeq i a₁ = parentSeq i a₂) (a : Nat × β) : a ∈ a₁ ↔ a ∈ a₂ := by
  obtain ⟨i, x⟩ := a
  constructor
  · intro h; rw [← mem_parentSeq, ← hsame i (h₁ _ h), mem_parentSeq]; exact h
  · intro h; rw [← mem_parentSeq, hsame i (h₂ _ h), mem_parentSeq]; exact h

theorem parentSeq_filter (i : Nat) (g : String) (arr : List (Nat × JMsg)) :
    parentSeq i (arr.filter (fun a => a.2.grp == g)) = (parentSeq i arr).filter (fun m => m.grp == g) := by
  simp only [parentSeq, List.filter_map, List.filter_filter, Function.comp_def]
  congr 1
  apply List.filter_congr
  intro x _
  rw [Bool.and_comm]

theorem steps_filter (cfg : JCfg) (i : Nat) (g : String) (arr : List (Nat × JMsg)) :
    ((arr.map (fun a => (a.1, a.2.grp, a.2.time))).filter (fun s => s.1 == i && s.2.1 == g)).map (fun s => goRound cfg.tol s.2.2) =
      ((parentSeq i arr).filter (fun m => m.grp == g)).map (fun m => goRound cfg.tol m.time) := by
  induction arr with
  | nil => rfl
  | cons a as ih =>
    simp only [parentSeq] at ih ⊢
    by_cases hg : a.2.grp = g <;> by_cases hi : a.1 = i <;> simp [List.filter_cons, hg, hi, ih]

theorem joinOrdered_of_same (cfg : JCfg) (a₁ a₂ : List (Nat × JMsg))
    (hsame : ∀ i, i < cfg.parents → parentSeq i a₁ = parentSeq i a₂)
    (ho : joinOrdered cfg (a₁.map (fun a => (a.1, a.2.grp, a.2.time)))) :
    joinOrdered cfg (a₂.map (fun a => (a.1, a.2.grp, a.2.time))) := by
  intro i hi g _
  rw [steps_filter, ← hsame i hi, ← steps_filter]
  by_cases hg : g ∈ distinct ((a₁.map (fun a => (a.1, a.2.grp, a.2.time))).map (·.2.1))
  · exact ho i hi g hg
  · rw [List.filter_eq_nil_iff.mpr]
    · simp [nondecreasing]
    · intro s hs hc
      apply hg
      rw [mem_distinct]
      simp only [Bool.and_eq_true, beq_iff_eq] at hc
      exact List.mem_map.mpr ⟨s, hs, hc.2⟩

theorem flatMap_perm_pointwise {κ β : Type} (ks : List κ) (f f' : κ → List β) (h : ∀ k, (f k).Perm (f' k)) :
    (ks.flatMap f).Perm (ks.flatMap f') := by
  induction ks with
  | nil => exact List.Perm.refl _
  | cons k ks ih => simp only [List.flatMap_cons]; exact (h k).append ih

theorem distinct_perm {κ : Type} [BEq κ] [LawfulBEq κ] (l₁ l₂ : List κ) (h : ∀ x, x ∈ l₁ ↔ x ∈ l₂) :
    (distinct l₁).Perm (distinct l₂) := by
  rw [List.perm_ext_iff_of_nodup (nodup_distinct _) (nodup_distinct _)]
  intro x; rw [mem_distinct, mem_distinct]; exact h x

/-- The specification's output is, up to permutation, a function of the per-parent sequences only. -/
theorem joinOutput_perm (cfg : JCfg) (a₁ a₂ : List (Nat × JMsg))
    (h₁ : ∀ a ∈ a₁, a.1 < cfg.parents) (h₂ : ∀ a ∈ a₂, a.1 < cfg.parents)
    (hsame : ∀ i, i < cfg.parents → parentSeq i a₁ = parentSeq i a₂) :
    (joinOutput cfg a₁).Perm (joinOutput cfg a₂) := by
  have hmem := mem_iff_of_parentSeq_eq cfg.parents a₁ a₂ h₁ h₂ hsame
  unfold joinOutput
  have hd : (distinct (a₁.map (·.2.grp))).Perm (distinct (a₂.map (·.2.grp))) := by
    apply distinct_perm
    intro g
    simp only [List.mem_map]
    constructor
    · rintro ⟨a, ha, rfl⟩; exact ⟨a, (hmem a).mp ha, rfl⟩
    · rintro ⟨a, ha, rfl⟩; exact ⟨a, (hmem a).mpr ha, rfl⟩
  refine (hd.flatMap_right _).trans ?_
  apply flatMap_perm_pointwise
  intro g
  apply List.Perm.filterMap
  unfold joinSets
  have hdt : (distinct ((a₁.filter (fun a => a.2.grp == g)).map (fun a => goRound cfg.tol a.2.time))).Perm
      (distinct ((a₂.filter (fun a => a.2.grp == g)).map (fun a => goRound cfg.tol a.2.time))) := by
    apply distinct_perm
    intro t
    simp only [List.mem_map, List.mem_filter]
    constructor
    · rintro ⟨a, ⟨ha, hg⟩, rfl⟩; exact ⟨a, ⟨(hmem a).mp ha, hg⟩, rfl⟩
    · rintro ⟨a, ⟨ha, hg⟩, rfl⟩; exact ⟨a, ⟨(hmem a).mpr ha, hg⟩, rfl⟩
  refine (hdt.flatMap_right _).trans (List.Perm.of_eq ?_)
  apply flatMap_congr'
  intro t _
  congr 2
  apply List.map_congr_left
  intro i hi
  rw [parentSeq_filter, parentSeq_filter, hsame i (List.mem_range.mp hi)]

theorem pointsOf_map (a : List (Nat × JMsg)) : pointsOf (a.map (fun x => JOp.point x.1 x.2)) = a := by
  induction a with
  | nil => rfl
  | cons x xs ih => simp only [pointsOf, List.map_cons, List.filterMap_cons] at ih ⊢; rw [ih]

theorem stepsOf_map (a : List (Nat × JMsg)) :
    stepsOf (a.map (fun x => JOp.point x.1 x.2)) = a.map (fun x => (x.1, x.2.grp, x.2.time)) := by
  simp [stepsOf, Function.comp_def, JOp.srcOf, JOp.grp, JOp.rawTime]

/-- **The multiset of join outputs does not depend on the interleaving.** -/
theorem join_independent (cfg : JCfg) (a₁ a₂ : List (Nat × JMsg)) (hn : cfg.names.length = cfg.parents)
    (h₁ : ∀ a ∈ a₁, a.1 < cfg.parents) (h₂ : ∀ a ∈ a₂, a.1 < cfg.parents)
    (hsame : ∀ i, i < cfg.parents → parentSeq i a₁ = parentSeq i a₂)
    (ho : joinOrdered cfg (a₁.map (fun a => (a.1, a.2.grp, a.2.time)))) :
    (((JNode.run cfg (a₁.map (fun a => JOp.point a.1 a.2))).2.1).filterMap (joinIntoPoint cfg)).Perm
      (((JNode.run cfg (a₂.map (fun a => JOp.point a.1 a.2))).2.1).filterMap (joinIntoPoint cfg)) := by
  have ho₂ := joinOrdered_of_same cfg a₁ a₂ hsame ho
  have p₁ := join_pairs cfg (a₁.map (fun a => JOp.point a.1 a.2)) hn
    (by intro op hop; simp only [List.mem_map] at hop; obtain ⟨a, ha, rfl⟩ := hop; exact h₁ a ha)
    (by rw [stepsOf_map]; exact ho)
  have p₂ := join_pairs cfg (a₂.map (fun a => JOp.point a.1 a.2)) hn
    (by intro op hop; simp only [List.mem_map] at hop; obtain ⟨a, ha, rfl⟩ := hop; exact h₂ a ha)
    (by rw [stepsOf_map]; exact ho₂)
  rw [pointsOf_map] at p₁ p₂
  exact p₁.trans ((joinOutput_perm cfg a₁ a₂ h₁ h₂ hsame).trans p₂.symm)

end Kap.C12
