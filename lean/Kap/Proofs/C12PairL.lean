/-
C12 — the pairing theorem at the level of join sets (before JoinIntoPoint / JoinIntoBatch).
-/
import Kap.Proofs.C12PairK
namespace Kap.C12
open Spec
set_option linter.unusedSimpArgs false
set_option linter.unusedVariables false

/-- The join sets handed to `emitJoinedSet` over the whole run are, up to permutation, the specification's. -/
theorem join_sets (cfg : JCfg) (ops : List JOp) (hn : cfg.names.length = cfg.parents)
    (hs : ∀ op ∈ ops, op.srcOf < cfg.parents) (ho : joinOrdered cfg (stepsOf ops)) :
    ((JNode.run cfg ops).2.1).Perm (joinSetsAll cfg (pointsOf ops)) := by
  -- the tagged output of the whole run
  generalize hT : JNode.runOpsT cfg JNode.init ops ++ JNode.finishT (JNode.runOps cfg JNode.init ops).1.groups = T
  have hsnd : T.map (·.2) = (JNode.run cfg ops).2.1 := by
    rw [← hT, List.map_append, JNode.runOpsT_snd, JNode.finishT_snd]; rfl
  have hG : ∀ g, (T.filter (fun x => x.1 == g)).map (·.2) = groupOut cfg (gopsOf cfg g ops) := by
    intro g
    obtain ⟨d1, d2, d3⟩ := JNode.runOps_demux cfg hn g ops JNode.init
    rw [← hT, List.filter_append, List.map_append, d1,
      JNode.finishT_filter cfg.parents g _ (d3 (by simp [JNode.init]))]
    have hinit : JNode.init.group cfg g = JGroup.new cfg.parents := rfl
    have hgrp : (JNode.glookup g (JNode.runOps cfg JNode.init ops).1.groups).getD (JGroup.new cfg.parents) =
        (JNode.runOps cfg JNode.init ops).1.group cfg g := rfl
    rw [hgrp, d2, hinit]
    rfl
  have hperm : T.Perm ((distinct ((pointsOf ops).map (·.2.grp))).flatMap (fun g =>
      (joinSets cfg.parents (fun m : JMsg => goRound cfg.tol m.time) ((pointsOf ops).filter (fun a => a.2.grp == g))).map (fun s => (g, s)))) := by
    apply perm_of_filter_key_perm (fun x : String × JSet JMsg => x.1)
    intro g
    rw [filter_flatMap_keyed _ (nodup_distinct _) _ _ (by
      intro k _ x hx
      simp only [List.mem_map] at hx
      obtain ⟨_, _, rfl⟩ := hx
      rfl)]
    rw [tagged_filter_eq, hG g]
    have hgp := group_perm cfg g ops hs (ordered_of_joinOrdered cfg ops hs ho g)
    by_cases hm : g ∈ distinct ((pointsOf ops).map (·.2.grp))
    · simp only [hm, if_true]
      exact hgp.map _
    · simp only [hm, if_false]
      have hnil : (pointsOf ops).filter (fun a => a.2.grp == g) = [] := by
        apply List.filter_eq_nil_iff.mpr
        intro a ha hc
        apply hm
        rw [mem_distinct]
        simp only [List.mem_map]
        exact ⟨a, ha, by simpa using hc⟩
      rw [hnil] at hgp
      have : joinSets cfg.parents (fun m : JMsg => goRound cfg.tol m.time) ([] : List (Nat × JMsg)) = [] := by
        simp [joinSets, distinct]
      rw [this] at hgp
      rw [hgp.eq_nil]
      rfl
  have h2 := hperm.map (·.2)
  rw [hsnd] at h2
  refine h2.trans (List.Perm.of_eq ?_)
  unfold joinSetsAll
  rw [List.map_flatMap]
  apply flatMap_congr'
  intro g _
  simp only [List.map_map, Function.comp_def, List.map_id']

end Kap.C12
