/-
C12 — helper lemmas for the union node, for ANY lawful FIFO queue (instantiated at `WCQ` in Props).
-/
import Kap.Proofs.C12CQ
import Kap.Spec.C12
namespace Kap.C12
namespace Union
open QueueLike LawfulQueue Spec
set_option linter.unusedSectionVars false
set_option linter.unusedSimpArgs false
variable {Q : Type} [QueueLike Q UMsg] [LawfulQueue Q UMsg]

/-- What source `j` holds. -/
def seq (qs : List Q) (j : Nat) : List UMsg := ((qs.map toList)[j]?).getD []

theorem seq_cons_zero (q : Q) (qs : List Q) : seq (q :: qs) 0 = toList q := by simp [seq]
theorem seq_cons_succ (q : Q) (qs : List Q) (j : Nat) : seq (q :: qs) (j + 1) = seq qs j := by simp [seq]
theorem seq_nil (j : Nat) : seq ([] : List Q) j = [] := by simp [seq]

theorem parentSeq_append {β : Type} (i : Nat) (a b : List (Nat × β)) :
    parentSeq i (a ++ b) = parentSeq i a ++ parentSeq i b := by simp [parentSeq]

theorem parentSeq_nil_of_ne {β : Type} (i : Nat) (a : List (Nat × β)) (h : ∀ x ∈ a, x.1 ≠ i) : parentSeq i a = [] := by
  unfold parentSeq
  rw [List.filter_eq_nil_iff.mpr]; · rfl
  intro x hx; simp [h x hx]

theorem parentSeq_tagged {β : Type} (i : Nat) (l : List β) : parentSeq i (l.map (fun v => (i, v))) = l := by
  unfold parentSeq
  rw [List.filter_eq_self.mpr]
  · simp [Function.comp_def]
  · intro x hx; simp only [List.mem_map] at hx; obtain ⟨_, _, rfl⟩ := hx; simp

theorem drop_length_takeWhile {β : Type} (p : β → Bool) (l : List β) :
    l.drop (l.takeWhile p).length = l.dropWhile p := by
  induction l with
  | nil => rfl
  | cons x xs ih => by_cases h : p x <;> simp [List.takeWhile_cons, List.dropWhile_cons, h, ih]

/-- One source: what is emitted plus what remains is what was there. -/
theorem emitSrc_spec (mark : Option Int) (i : Nat) (q : Q) :
    parentSeq i (emitSrc mark i q).2 ++ toList (emitSrc mark i q).1 = toList q ∧
    (∀ x ∈ (emitSrc mark i q).2, x.1 = i) ∧
    (emitSrc mark i q).2.map (·.2) = (toList q).takeWhile (fun v => notAfter v.time mark) := by
  unfold emitSrc
  simp only []
  refine ⟨?_, ?_, ?_⟩
  · rw [parentSeq_tagged, toList_deq, drop_length_takeWhile, List.takeWhile_append_dropWhile]
  · intro x hx; simp only [List.mem_map] at hx; obtain ⟨_, _, rfl⟩ := hx; rfl
  · simp [Function.comp_def]

theorem emitPass_spec (mark : Option Int) (qs : List Q) (k : Nat) :
    (emitPass mark k qs).1.length = qs.length ∧
    (∀ j, parentSeq (k + j) (emitPass mark k qs).2 ++ seq (emitPass mark k qs).1 j = seq qs j) ∧
    (∀ x ∈ (emitPass mark k qs).2, k ≤ x.1 ∧ x.1 < k + qs.length) := by
  induction qs generalizing k with
  | nil => simp [emitPass, seq_nil, parentSeq]
  | cons q qs ih =>
    obtain ⟨ih1, ih2, ih3⟩ := ih (k + 1)
    obtain ⟨e1, e2, _⟩ := emitSrc_spec mark k q
    simp only [emitPass]
    refine ⟨by simp [ih1], ?_, ?_⟩
    · intro j
      rw [parentSeq_append]
      cases j with
      | zero =>
        rw [seq_cons_zero, seq_cons_zero, Nat.add_zero]
        rw [parentSeq_nil_of_ne k (emitPass mark (k + 1) qs).2 (by intro x hx; have := (ih3 x hx).1; omega)]
        simpa using e1
      | succ j =>
        rw [seq_cons_succ, seq_cons_succ]
        rw [parentSeq_nil_of_ne (k + (j + 1)) (emitSrc mark k q).2 (by intro x hx; have := e2 x hx; omega)]
        have := ih2 j
        rw [show k + 1 + j = k + (j + 1) by omega] at this
        simpa using this
    · intro x hx
      simp only [List.mem_append] at hx
      rcases hx with hx | hx
      · have := e2 x hx; simp only [List.length_cons]; omega
      · have := ih3 x hx; simp only [List.length_cons]; omega

/-- `emitReady` only moves messages from the sources to the output: what is emitted from a source plus what
remains in it is what was there, and nothing else is emitted. -/
theorem emitReady_rel (drain : Bool) (fuel : Nat) (s : UState Q) (out : List (Nat × UMsg)) :
    ∃ new, (emitReady drain fuel s out).2.1 = out ++ new ∧
      (emitReady drain fuel s out).1.sources.length = s.sources.length ∧
      (∀ j, parentSeq j new ++ seq (emitReady drain fuel s out).1.sources j = seq s.sources j) ∧
      (∀ x ∈ new, x.1 < s.sources.length) := by
  induction fuel generalizing s out with
  | zero => exact ⟨[], by simp [emitReady], rfl, by simp [emitReady, parentSeq], by simp⟩
  | succ fuel ih =>
    simp only [emitReady]
    split
    · exact ⟨[], by simp, rfl, by simp [parentSeq], by simp⟩
    · obtain ⟨p1, p2, p3⟩ := emitPass_spec (markLoop drain s.sources s.lowMarks none 0).1 s.sources 0
      split
      · refine ⟨[], by simp, by simpa using p1, ?_, by simp⟩
        intro j
        rename_i he
        have := p2 j
        simp only [List.isEmpty_iff] at he
        rw [he] at this
        simpa [parentSeq] using this
      · obtain ⟨new, n1, n2, n3, n4⟩ := ih
          { sources := (emitPass (markLoop drain s.sources s.lowMarks none 0).1 0 s.sources).1,
            lowMarks := (markLoop drain s.sources s.lowMarks none 0).2.2 }
          (out ++ (emitPass (markLoop drain s.sources s.lowMarks none 0).1 0 s.sources).2)
        refine ⟨(emitPass (markLoop drain s.sources s.lowMarks none 0).1 0 s.sources).2 ++ new, ?_, ?_, ?_, ?_⟩
        · rw [n1]; simp
        · rw [n2]; simpa using p1
        · intro j
          rw [parentSeq_append, List.append_assoc, n3 j]
          simpa using p2 j
        · intro x hx
          simp only [List.mem_append] at hx
          rcases hx with hx | hx
          · have := (p3 x hx).2; omega
          · have := n4 x hx; simp only [] at this; omega

/-! ### Draining empties every source -/

theorem markStep_drain (q : Q) (lm mark : Option Int) (v : Nat) :
    (markStep true q lm mark v).1 = match (toList q).head? with
      | some x => if zeroOrBefore x.time mark then some x.time else mark
      | none => mark := by
  unfold markStep
  rw [len_eq]
  cases h : toList q with
  | nil => simp; cases lm <;> simp
  | cons x xs => simp

theorem markLoop_length (drain : Bool) (qs : List Q) (lms : List (Option Int)) (m : Option Int) (v : Nat) :
    (markLoop drain qs lms m v).2.2.length = lms.length := by
  induction qs generalizing lms m v with
  | nil => simp [markLoop]
  | cons q qs ih =>
    cases lms with
    | nil => simp [markLoop]
    | cons lm lms => simp [markLoop, ih]

/-- The drain mark is at most every head time, at most the initial mark, and is the initial mark or one of the head times. -/
theorem markLoop_drain (qs : List Q) (lms : List (Option Int)) (m0 : Option Int) (v : Nat) (hl : qs.length ≤ lms.length) :
    (∀ q ∈ qs, ∀ x, (toList q).head? = some x → ∃ m, (markLoop true qs lms m0 v).1 = some m ∧ m ≤ x.time) ∧
    (∀ m0', m0 = some m0' → ∃ m, (markLoop true qs lms m0 v).1 = some m ∧ m ≤ m0') ∧
    ((markLoop true qs lms m0 v).1 = m0 ∨ ∃ q ∈ qs, ∃ x, (toList q).head? = some x ∧ (markLoop true qs lms m0 v).1 = some x.time) := by
  induction qs generalizing lms m0 v with
  | nil =>
    refine ⟨?_, ?_, ?_⟩
    · intro q hq; simp at hq
    · intro m0' h; exact ⟨m0', by simp [markLoop, h], Int.le_refl _⟩
    · left; simp [markLoop]
  | cons q qs ih =>
    cases lms with
    | nil => simp at hl
    | cons lm lms =>
      simp only [List.length_cons, Nat.add_le_add_iff_right] at hl
      simp only [markLoop]
      have hs := markStep_drain q lm m0 v
      obtain ⟨i1, i2, i3⟩ := ih lms (markStep true q lm m0 v).1 (markStep true q lm m0 v).2.1 hl
      refine ⟨?_, ?_, ?_⟩
      · intro q' hq' x hx
        simp only [List.mem_cons] at hq'
        rcases hq' with rfl | hq'
        · rw [hx] at hs
          simp only [] at hs
          by_cases hz : zeroOrBefore x.time m0
          · simp only [hz, if_true] at hs
            obtain ⟨m, hm1, hm2⟩ := i2 x.time hs
            exact ⟨m, hm1, hm2⟩
          · simp only [hz] at hs
            cases m0 with
            | none => simp [zeroOrBefore] at hz
            | some m0' =>
              simp only [zeroOrBefore, decide_eq_true_eq] at hz
              obtain ⟨m, hm1, hm2⟩ := i2 m0' (by simpa using hs)
              exact ⟨m, hm1, by omega⟩
        · exact i1 q' hq' x hx
      · intro m0' hm0
        subst hm0
        cases hh : (toList q).head? with
        | none =>
          rw [hh] at hs; simp only [] at hs
          exact i2 m0' hs
        | some x =>
          rw [hh] at hs; simp only [] at hs
          by_cases hz : zeroOrBefore x.time (some m0')
          · simp only [hz, if_true] at hs
            obtain ⟨m, hm1, hm2⟩ := i2 x.time hs
            simp only [zeroOrBefore, decide_eq_true_eq] at hz
            exact ⟨m, hm1, by omega⟩
          · simp only [hz] at hs
            exact i2 m0' (by simpa using hs)
      · rcases i3 with h | ⟨q', hq', x, hx, hm⟩
        · rw [h]
          cases hh : (toList q).head? with
          | none => rw [hh] at hs; simp only [] at hs; left; exact hs
          | some x =>
            rw [hh] at hs; simp only [] at hs
            by_cases hz : zeroOrBefore x.time m0
            · simp only [hz, if_true] at hs
              right; exact ⟨q, by simp, x, hh, hs⟩
            · simp only [hz] at hs
              left; simpa using hs
        · right; exact ⟨q', by simp [hq'], x, hx, hm⟩

theorem sum_eq_zero_iff' (l : List Nat) : l.sum = 0 ↔ ∀ n ∈ l, n = 0 := by
  induction l with
  | nil => simp
  | cons x xs ih => simp only [List.sum_cons, List.mem_cons, forall_eq_or_imp, ← ih]; omega

theorem emitPass_progress (mark : Option Int) (qs : List Q) (k : Nat)
    (h : ∃ q ∈ qs, ∃ x, (toList q).head? = some x ∧ notAfter x.time mark = true) :
    (emitPass mark k qs).2 ≠ [] := by
  induction qs generalizing k with
  | nil => simp at h
  | cons q qs ih =>
    obtain ⟨q', hq', x, hx, hn⟩ := h
    simp only [emitPass]
    simp only [List.mem_cons] at hq'
    rcases hq' with rfl | hq'
    · intro hc
      have h1 := List.append_eq_nil_iff.mp hc
      have h3 := (emitSrc_spec mark k q').2.2
      rw [h1.1] at h3
      cases ht : toList q' with
      | nil => simp [ht] at hx
      | cons y ys =>
        rw [ht] at hx h3
        simp only [List.head?_cons, Option.some.injEq] at hx
        subst hx
        simp [List.takeWhile_cons, hn] at h3
    · intro hc
      have h1 := List.append_eq_nil_iff.mp hc
      exact ih (k + 1) ⟨q', hq', x, hx, hn⟩ h1.2

theorem seq_eq_nil_of_all (qs : List Q) (h : ∀ q ∈ qs, toList q = []) (j : Nat) : seq qs j = [] := by
  unfold seq
  cases hh : (qs.map toList)[j]? with
  | none => rfl
  | some l =>
    have := List.mem_of_getElem? hh
    simp only [List.mem_map] at this
    obtain ⟨q, hq, rfl⟩ := this
    simp [h q hq]

theorem total_eq (qs : List Q) (mark : Option Int) (k : Nat) :
    ((emitPass mark k qs).1.map (fun q => (toList q).length)).sum + (emitPass mark k qs).2.length =
      (qs.map (fun q => (toList q).length)).sum := by
  induction qs generalizing k with
  | nil => simp [emitPass]
  | cons q qs ih =>
    simp only [emitPass, List.map_cons, List.sum_cons, List.length_append]
    have := ih (k + 1)
    have h1 := (emitSrc_spec mark k q).1
    have h3 := (emitSrc_spec mark k q).2.2
    have hl : (emitSrc mark k q).2.length + (toList (emitSrc mark k q).1).length = (toList q).length := by
      have := congrArg List.length h1
      have h4 := congrArg List.length h3
      simp only [List.length_append, List.length_map] at this h4
      have h5 : (parentSeq k (emitSrc mark k q).2).length = (emitSrc mark k q).2.length := by
        unfold parentSeq
        rw [List.filter_eq_self.mpr]
        · simp
        · intro x hx; simp [(emitSrc_spec mark k q).2.1 x hx]
      omega
    omega

/-- `Finish`: with enough fuel the drain loop stops only when every source is empty, and the fuel is never the reason. -/
theorem drain_empties (fuel : Nat) (s : UState Q) (out : List (Nat × UMsg))
    (hf : total s < fuel) (hl : s.sources.length ≤ s.lowMarks.length) :
    (∀ q ∈ (emitReady true fuel s out).1.sources, toList q = []) ∧ (emitReady true fuel s out).2.2 = true := by
  induction fuel generalizing s out with
  | zero => omega
  | succ fuel ih =>
    simp only [emitReady]
    simp only [Bool.not_true, Bool.false_and, Bool.false_eq_true, if_false]
    obtain ⟨m1, m2, m3⟩ := markLoop_drain s.sources s.lowMarks none 0 hl
    split
    · rename_i he
      simp only [List.isEmpty_iff] at he
      refine ⟨?_, rfl⟩
      -- nothing was emitted: every source must be empty
      have hall : ∀ q ∈ s.sources, toList q = [] := by
        intro q hq
        cases ht : toList q with
        | nil => rfl
        | cons x xs =>
          exfalso
          obtain ⟨m, hm, _⟩ := m1 q hq x (by simp [ht])
          rcases m3 with h0 | ⟨q', hq', x', hx', hm'⟩
          · rw [hm] at h0; cases h0
          · exact emitPass_progress _ s.sources 0 ⟨q', hq', x', hx', by rw [hm']; simp [notAfter]⟩ he
      intro q hq
      simp only [] at hq
      -- the pass removed nothing from already empty sources
      have hp := emitPass_spec (markLoop true s.sources s.lowMarks none 0).1 s.sources 0
      have ht := total_eq s.sources (markLoop true s.sources s.lowMarks none 0).1 0
      rw [he] at ht
      have hz : (s.sources.map (fun q => (toList q).length)).sum = 0 := by
        apply (sum_eq_zero_iff' _).mpr
        intro n hn
        simp only [List.mem_map] at hn
        obtain ⟨q0, hq0, rfl⟩ := hn
        simp [hall q0 hq0]
      simp only [List.length_nil, Nat.add_zero, hz] at ht
      have := (sum_eq_zero_iff' _).mp ht (toList q).length (by simp only [List.mem_map]; exact ⟨q, hq, rfl⟩)
      exact List.length_eq_zero_iff.mp this
    · rename_i he
      apply ih
      · simp only [total] at hf ⊢
        have ht := total_eq s.sources (markLoop true s.sources s.lowMarks none 0).1 0
        have : (emitPass (markLoop true s.sources s.lowMarks none 0).1 0 s.sources).2.length > 0 := by
          cases hh : (emitPass (markLoop true s.sources s.lowMarks none 0).1 0 s.sources).2 with
          | nil => simp [hh] at he
          | cons _ _ => simp
        omega
      · simp only []
        rw [markLoop_length, (emitPass_spec _ s.sources 0).1]
        exact hl

/-- The fuel handed over by `emitReadyAll` is never the reason the loop stops. -/
theorem emitReady_ok (drain : Bool) (fuel : Nat) (s : UState Q) (out : List (Nat × UMsg)) (hf : total s < fuel) :
    (emitReady drain fuel s out).2.2 = true := by
  induction fuel generalizing s out with
  | zero => omega
  | succ fuel ih =>
    simp only [emitReady]
    split
    · rfl
    · split
      · rfl
      · rename_i he
        apply ih
        simp only [total] at hf ⊢
        have ht := total_eq s.sources (markLoop drain s.sources s.lowMarks none 0).1 0
        have : (emitPass (markLoop drain s.sources s.lowMarks none 0).1 0 s.sources).2.length > 0 := by
          cases hh : (emitPass (markLoop drain s.sources s.lowMarks none 0).1 0 s.sources).2 with
          | nil => simp [hh] at he
          | cons _ _ => simp
        omega

/-! ### Whole runs -/

theorem emitReady_lowMarks_length (drain : Bool) (fuel : Nat) (s : UState Q) (out : List (Nat × UMsg)) :
    (emitReady drain fuel s out).1.lowMarks.length = s.lowMarks.length := by
  induction fuel generalizing s out with
  | zero => simp [emitReady]
  | succ fuel ih =>
    simp only [emitReady]
    split
    · simp [markLoop_length]
    · split
      · simp [markLoop_length]
      · rw [ih]; simp [markLoop_length]

theorem seq_modify (qs : List Q) (src : Nat) (m : UMsg) (j : Nat) (h : src < qs.length) :
    seq (qs.modify src (fun q => enq q m)) j = if j = src then seq qs j ++ [m] else seq qs j := by
  unfold seq
  simp only [List.getElem?_map, List.getElem?_modify]
  by_cases hj : j = src
  · subst hj
    simp only [if_true]
    rw [List.getElem?_eq_getElem h]
    simp [toList_enq]
  · simp only [hj, if_false]
    have : ¬ src = j := by omega
    simp [this]

/-- Invariant of a run: what was emitted from parent `j` so far, followed by what source `j` still holds, is
what parent `j` delivered so far. -/
def RunInv (n : Nat) (s : UState Q) (P arr : List (Nat × UMsg)) : Prop :=
  s.sources.length = n ∧ n ≤ s.lowMarks.length ∧
  (∀ j, parentSeq j P ++ seq s.sources j = parentSeq j arr) ∧ (∀ x ∈ P, x.1 < n)

theorem runInv_init (n : Nat) : RunInv n (init n : UState Q) [] [] := by
  refine ⟨by simp [init], by simp [init], ?_, by simp⟩
  intro j
  simp only [parentSeq, List.filter_nil, List.map_nil, List.nil_append]
  apply seq_eq_nil_of_all
  intro q hq
  simp only [init, List.mem_replicate] at hq
  rw [hq.2, toList_empty]

theorem runInv_message (rename : String) (n : Nat) (s : UState Q) (P arr : List (Nat × UMsg)) (src : Nat) (m : UMsg)
    (h : RunInv n s P arr) (hs : src < n) :
    RunInv n (message rename s src m).1 (P ++ (message rename s src m).2.1) (arr ++ [(src, renamed rename m)]) := by
  obtain ⟨h1, h2, h3, h4⟩ := h
  unfold message emitReadyAll
  simp only []
  generalize hs1 : ({ sources := s.sources.modify src (fun q => enq q (renamed rename m)), lowMarks := s.lowMarks } : UState Q) = s1
  have hlen : s1.sources.length = n := by rw [← hs1]; simp [h1]
  obtain ⟨new, n1, n2, n3, n4⟩ := emitReady_rel false (total s1 + 1) s1 []
  refine ⟨by rw [n2, hlen], ?_, ?_, ?_⟩
  · rw [emitReady_lowMarks_length, ← hs1]; exact h2
  · intro j
    rw [n1, List.nil_append, parentSeq_append, List.append_assoc, n3 j, ← hs1]
    simp only []
    rw [seq_modify _ _ _ _ (by omega), parentSeq_append]
    by_cases hj : j = src
    · subst hj
      simp only [if_true]
      rw [← List.append_assoc, h3 j]
      simp [parentSeq]
    · simp only [hj, if_false]
      rw [h3 j]
      have : parentSeq j [(src, renamed rename m)] = [] := by
        apply parentSeq_nil_of_ne; intro x hx; simp only [List.mem_singleton] at hx; subst hx; simp; omega
      rw [this, List.append_nil]
  · intro x hx
    rw [n1, List.nil_append] at hx
    simp only [List.mem_append] at hx
    rcases hx with hx | hx
    · exact h4 x hx
    · have := n4 x hx; omega

theorem runInv_arrivals (rename : String) (n : Nat) (rest : List (Nat × UMsg)) (s : UState Q) (P arr : List (Nat × UMsg))
    (h : RunInv n s P arr) (hs : ∀ a ∈ rest, a.1 < n) :
    RunInv n (runArrivals rename s rest).1 (P ++ (runArrivals rename s rest).2)
      (arr ++ rest.map (fun a => (a.1, renamed rename a.2))) := by
  induction rest generalizing s P arr with
  | nil => simpa [runArrivals] using h
  | cons a rest ih =>
    obtain ⟨src, m⟩ := a
    simp only [runArrivals]
    have h1 := runInv_message rename n s P arr src m h (hs (src, m) (by simp))
    have h2 := ih _ _ _ h1 (fun a ha => hs a (by simp [ha]))
    simpa [List.append_assoc] using h2

/-- The whole run: every parent's messages come out exactly once, in the parent's order, nothing else comes
out, and after `Finish` nothing is left in any source. -/
theorem run_exactly_once (rename : String) (n : Nat) (arrivals : List (Nat × UMsg)) (hs : ∀ a ∈ arrivals, a.1 < n) :
    unionExactlyOnceInOrder n (arrivals.map (fun a => (a.1, renamed rename a.2))) (run rename n arrivals : UState Q × _).2 ∧
    (∀ q ∈ (run rename n arrivals : UState Q × _).1.sources, toList q = []) := by
  unfold run finish emitReadyAll
  simp only []
  have h1 := runInv_arrivals rename n arrivals (init n : UState Q) [] [] (runInv_init n) hs
  simp only [List.nil_append] at h1
  generalize hs1 : (runArrivals rename (init n : UState Q) arrivals) = r at h1
  obtain ⟨s1, o1⟩ := r
  simp only [] at h1 ⊢
  obtain ⟨g1, g2, g3, g4⟩ := h1
  obtain ⟨new, n1, n2, n3, n4⟩ := emitReady_rel true (total s1 + 1) s1 []
  obtain ⟨d1, _⟩ := drain_empties (total s1 + 1) s1 [] (by omega) (by omega)
  refine ⟨⟨?_, ?_⟩, d1⟩
  · intro j _
    rw [n1, List.nil_append, parentSeq_append, ← g3 j, ← n3 j, seq_eq_nil_of_all _ d1 j, List.append_nil]
  · intro x hx
    rw [n1, List.nil_append] at hx
    simp only [List.mem_append] at hx
    rcases hx with hx | hx
    · exact g4 x hx
    · have := n4 x hx; omega

/-- Tagged lists with the same per-parent subsequences are permutations of each other. -/
theorem count_eq_parentSeq (l : List (Nat × UMsg)) (x : Nat × UMsg) : l.count x = (parentSeq x.1 l).count x.2 := by
  induction l with
  | nil => simp [parentSeq]
  | cons y ys ih =>
    obtain ⟨i, m⟩ := x
    obtain ⟨j, m'⟩ := y
    simp only [parentSeq] at ih ⊢
    by_cases hj : j = i
    · subst hj
      simp only [List.filter_cons, beq_self_eq_true, if_true, List.map_cons, List.count_cons, ih]
      by_cases hm : m' = m <;> simp [hm]
    · have : ¬ (j == i) = true := by simpa using hj
      simp only [List.filter_cons, this, if_false, List.count_cons, ih]
      have : ¬ ((j, m') == (i, m)) = true := by simp [hj]
      simp [this]

theorem perm_of_parentSeq_eq (n : Nat) (a b : List (Nat × UMsg)) (ha : ∀ x ∈ a, x.1 < n) (hb : ∀ x ∈ b, x.1 < n)
    (h : ∀ i, i < n → parentSeq i a = parentSeq i b) : a.Perm b := by
  rw [List.perm_iff_count]
  intro x
  by_cases hx : x.1 < n
  · rw [count_eq_parentSeq, count_eq_parentSeq, h x.1 hx]
  · have h1 : a.count x = 0 := List.count_eq_zero.mpr (fun hm => hx (ha x hm))
    have h2 : b.count x = 0 := List.count_eq_zero.mpr (fun hm => hx (hb x hm))
    rw [h1, h2]

end Union
end Kap.C12
