import Kap.Proofs.C12Union
namespace Kap.C12
namespace Union
open QueueLike LawfulQueue Spec
set_option linter.unusedSectionVars false
set_option linter.unusedSimpArgs false
set_option linter.unusedVariables false
variable {Q : Type} [QueueLike Q UMsg] [LawfulQueue Q UMsg]

/-- `sourceMark` of a source: the time of its head, or its remembered low mark when it is empty. -/
def boundOf (q : Q) (lm : Option Int) : Option Int :=
  match (toList q).head? with
  | some x => some x.time
  | none => lm

def optMin (m : Option Int) (b : Option Int) : Option Int :=
  match b with
  | some s => if zeroOrBefore s m then some s else m
  | none => m

theorem markStep_false (q : Q) (lm mark : Option Int) (v : Nat) :
    markStep false q lm mark v = (optMin mark (boundOf q lm), v + (if (boundOf q lm).isSome then 1 else 0), boundOf q lm) := by
  unfold markStep boundOf
  rw [len_eq]
  cases h : toList q with
  | nil =>
    simp only [List.length_nil, Nat.lt_irrefl, if_false, List.head?_nil]
    cases lm with
    | none => simp [optMin]
    | some l => simp [optMin]
  | cons x xs =>
    simp only [List.length_cons, Nat.zero_lt_succ, if_true, List.head?_cons, optMin, Option.isSome_some, Bool.not_false, Bool.true_and]
    cases mark with
    | none => simp [zeroOrBefore]
    | some m =>
      by_cases hlt : x.time < m
      · simp [zeroOrBefore, hlt]
      · simp [zeroOrBefore, hlt]

theorem markLoop_false (qs : List Q) (lms : List (Option Int)) (m0 : Option Int) (v : Nat) (hl : qs.length = lms.length) :
    markLoop false qs lms m0 v =
      ((List.zipWith boundOf qs lms).foldl optMin m0,
       v + ((List.zipWith boundOf qs lms).filter Option.isSome).length,
       List.zipWith boundOf qs lms) := by
  induction qs generalizing lms m0 v with
  | nil =>
    cases lms with
    | nil => simp [markLoop]
    | cons _ _ => simp at hl
  | cons q qs ih =>
    cases lms with
    | nil => simp at hl
    | cons lm lms =>
      simp only [List.length_cons, Nat.add_right_cancel_iff] at hl
      simp only [markLoop, markStep_false, ih lms _ _ hl, List.zipWith_cons_cons, List.foldl_cons, List.filter_cons]
      cases hb : boundOf q lm <;> simp [hb] <;> omega

/-- With every bound known, the fold yields a lower bound of all of them (and of the start value). -/
theorem foldl_optMin (bs : List (Option Int)) (m0 : Option Int) (hall : ∀ b ∈ bs, b.isSome) :
    (∀ a, m0 = some a → ∃ m, bs.foldl optMin m0 = some m ∧ m ≤ a) ∧
    (∀ b ∈ bs, ∀ x, b = some x → ∃ m, bs.foldl optMin m0 = some m ∧ m ≤ x) ∧
    (bs = [] → bs.foldl optMin m0 = m0) := by
  induction bs generalizing m0 with
  | nil => exact ⟨fun a h => ⟨a, h, Int.le_refl _⟩, by simp, fun _ => rfl⟩
  | cons b bs ih =>
    simp only [List.foldl_cons]
    have hb := hall b (by simp)
    cases b with
    | none => simp at hb
    | some s =>
      obtain ⟨i1, i2, _⟩ := ih (optMin m0 (some s)) (fun b' hb' => hall b' (by simp [hb']))
      have hstep : ∃ r, optMin m0 (some s) = some r ∧ r ≤ s ∧ (∀ a, m0 = some a → r ≤ a) := by
        unfold optMin
        cases m0 with
        | none => exact ⟨s, by simp [zeroOrBefore], Int.le_refl _, by simp⟩
        | some a =>
          by_cases h : s < a
          · exact ⟨s, by simp [zeroOrBefore, h], Int.le_refl _, by intro a' ha'; cases ha'; omega⟩
          · exact ⟨a, by simp [zeroOrBefore, h], by omega, by intro a' ha'; cases ha'; omega⟩
      obtain ⟨r, hr, hr1, hr2⟩ := hstep
      obtain ⟨m, hm, hm1⟩ := i1 r hr
      refine ⟨?_, ?_, by simp⟩
      · intro a ha; exact ⟨m, hm, by have := hr2 a ha; omega⟩
      · intro b' hb' x hx
        simp only [List.mem_cons] at hb'
        rcases hb' with rfl | hb'
        · cases hx; exact ⟨m, hm, by omega⟩
        · exact i2 b' hb' x hx

end Union
end Kap.C12
