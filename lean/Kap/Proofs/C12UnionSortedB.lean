import Kap.Proofs.C12UnionSorted
namespace Kap.C12
namespace Union
open QueueLike LawfulQueue Spec
set_option linter.unusedSectionVars false
set_option linter.unusedSimpArgs false
set_option linter.unusedVariables false
variable {Q : Type} [QueueLike Q UMsg] [LawfulQueue Q UMsg]

/-- The accumulator of `emitReady` is only appended to. -/
theorem emitReady_append (drain : Bool) (fuel : Nat) (s : UState Q) (out : List (Nat × UMsg)) :
    emitReady drain fuel s out =
      ((emitReady drain fuel s []).1, out ++ (emitReady drain fuel s []).2.1, (emitReady drain fuel s []).2.2) := by
  induction fuel generalizing s out with
  | zero => simp [emitReady]
  | succ fuel ih =>
    simp only [emitReady]
    split
    · simp
    · split
      · simp
      · rw [ih _ (out ++ _), ih _ ([] ++ _)]
        simp [List.append_assoc]

def TimeSorted (l : List UMsg) : Prop := l.Pairwise (fun a b => a.time ≤ b.time)

theorem pairwise_of_forall {β : Type} (R : β → β → Prop) (l : List β) (h : ∀ a ∈ l, ∀ b ∈ l, R a b) : l.Pairwise R := by
  induction l with
  | nil => exact List.Pairwise.nil
  | cons x xs ih =>
    apply List.Pairwise.cons
    · intro b hb; exact h x (by simp) b (by simp [hb])
    · exact ih (fun a ha b hb => h a (by simp [ha]) b (by simp [hb]))

/-- Sources after a pass: what was emitted from source `j` is the prefix with time ≤ mark, what remains is the rest. -/
theorem emitPass_split (mark : Option Int) (qs : List Q) (k : Nat) :
    ∀ j, parentSeq (k + j) (emitPass mark k qs).2 = (seq qs j).takeWhile (fun v => notAfter v.time mark) ∧
         seq (emitPass mark k qs).1 j = (seq qs j).dropWhile (fun v => notAfter v.time mark) := by
  induction qs generalizing k with
  | nil => intro j; simp [emitPass, seq_nil, parentSeq]
  | cons q qs ih =>
    intro j
    obtain ⟨e1, e2, e3⟩ := emitSrc_spec mark k q
    obtain ⟨_, _, p3⟩ := emitPass_spec mark qs (k + 1)
    simp only [emitPass]
    rw [parentSeq_append]
    cases j with
    | zero =>
      rw [seq_cons_zero, seq_cons_zero, Nat.add_zero]
      rw [parentSeq_nil_of_ne k (emitPass mark (k + 1) qs).2 (by intro x hx; have := (p3 x hx).1; omega), List.append_nil]
      have hps : parentSeq k (emitSrc mark k q).2 = (emitSrc mark k q).2.map (·.2) := by
        unfold parentSeq
        rw [List.filter_eq_self.mpr (by intro x hx; simp [e2 x hx])]
      rw [hps, e3]
      refine ⟨rfl, ?_⟩
      unfold emitSrc
      simp only []
      rw [toList_deq, drop_length_takeWhile]
    | succ j =>
      rw [seq_cons_succ, seq_cons_succ]
      rw [parentSeq_nil_of_ne (k + (j + 1)) (emitSrc mark k q).2 (by intro x hx; have := e2 x hx; omega), List.nil_append]
      have := ih (k + 1) j
      rw [show k + 1 + j = k + (j + 1) by omega] at this
      exact this

theorem mem_parentSeq' {β : Type} (i : Nat) (x : β) (arr : List (Nat × β)) : x ∈ parentSeq i arr ↔ (i, x) ∈ arr := by
  simp only [parentSeq, List.mem_map, List.mem_filter, beq_iff_eq]
  constructor
  · rintro ⟨a, ⟨ha, hi⟩, rfl⟩; obtain ⟨a1, a2⟩ := a; simp only at hi; subst hi; exact ha
  · intro h; exact ⟨(i, x), ⟨h, rfl⟩, rfl⟩

theorem mem_takeWhile_pred {β : Type} (p : β → Bool) (l : List β) : ∀ x ∈ l.takeWhile p, p x = true := by
  induction l with
  | nil => simp
  | cons x xs ih =>
    by_cases h : p x
    · simp only [List.takeWhile_cons, h, if_true, List.mem_cons]
      intro y hy; rcases hy with rfl | hy
      · exact h
      · exact ih y hy
    · simp [List.takeWhile_cons, h]

theorem sorted_head_le (l : List UMsg) (h : TimeSorted l) (x y : UMsg) (hx : l.head? = some x) (hy : y ∈ l) : x.time ≤ y.time := by
  cases l with
  | nil => simp at hx
  | cons a as =>
    simp only [List.head?_cons, Option.some.injEq] at hx
    subst hx
    simp only [List.mem_cons] at hy
    rcases hy with rfl | hy
    · exact Int.le_refl _
    · exact (List.pairwise_cons.mp h).1 y hy

theorem mem_dropWhile_gt (p : UMsg → Bool) (l : List UMsg) (h : TimeSorted l) (m : Int)
    (hp : ∀ v, p v = decide (v.time ≤ m)) : ∀ x ∈ l.dropWhile p, x ∈ l ∧ m < x.time := by
  induction l with
  | nil => simp
  | cons a as ih =>
    intro x hx
    by_cases ha : p a = true
    · simp only [List.dropWhile_cons, ha, if_true] at hx
      have := ih (List.pairwise_cons.mp h).2 x hx
      exact ⟨by simp [this.1], this.2⟩
    · simp only [List.dropWhile_cons, ha, Bool.false_eq_true, if_false] at hx
      have ham : m < a.time := by rw [hp] at ha; simp at ha; omega
      simp only [List.mem_cons] at hx
      rcases hx with rfl | hx
      · exact ⟨by simp, ham⟩
      · have := (List.pairwise_cons.mp h).1 x hx
        exact ⟨by simp [hx], by omega⟩

/-- One pass with a mark that is at most every head time: everything emitted has exactly the mark's time,
the output stays sorted, the sources stay sorted, and what remains is later than the mark. -/
theorem pass_sorted (m : Int) (qs : List Q) (P : List (Nat × UMsg))
    (h1 : ∀ j, TimeSorted (seq qs j))
    (h2 : ∀ j x, (seq qs j).head? = some x → m ≤ x.time)
    (hP : ∀ e ∈ P, ∀ j, ∀ x ∈ seq qs j, e.2.time ≤ x.time)
    (hS : (P.map (·.2.time)).Pairwise (· ≤ ·)) :
    (∀ e ∈ (emitPass (some m) 0 qs).2, e.2.time = m ∧ e.2 ∈ seq qs e.1) ∧
    ((P ++ (emitPass (some m) 0 qs).2).map (·.2.time)).Pairwise (· ≤ ·) ∧
    (∀ j, TimeSorted (seq (emitPass (some m) 0 qs).1 j)) ∧
    (∀ j, ∀ x ∈ seq (emitPass (some m) 0 qs).1 j, x ∈ seq qs j ∧ m < x.time) := by
  have hsplit := emitPass_split (some m) qs 0
  have hc1 : ∀ e ∈ (emitPass (some m) 0 qs).2, e.2.time = m ∧ e.2 ∈ seq qs e.1 := by
    intro e he
    obtain ⟨j, v⟩ := e
    have hv : v ∈ parentSeq j (emitPass (some m) 0 qs).2 := (mem_parentSeq' j v _).mpr he
    have := (hsplit j).1
    rw [Nat.zero_add] at this
    rw [this] at hv
    have hmem := mem_takeWhile_pred _ _ v hv
    have hin : v ∈ seq qs j := (List.takeWhile_sublist _).subset hv
    simp only [notAfter, decide_eq_true_eq] at hmem
    cases hh : (seq qs j).head? with
    | none => cases hl : seq qs j with
      | nil => rw [hl] at hin; simp at hin
      | cons a as => rw [hl] at hh; simp at hh
    | some x =>
      have := h2 j x hh
      have := sorted_head_le _ (h1 j) x v hh hin
      exact ⟨by simp only; omega, hin⟩
  refine ⟨hc1, ?_, ?_, ?_⟩
  · rw [List.map_append, List.pairwise_append]
    refine ⟨hS, ?_, ?_⟩
    · apply pairwise_of_forall
      intro a ha b hb
      simp only [List.mem_map] at ha hb
      obtain ⟨ea, hea, rfl⟩ := ha
      obtain ⟨eb, heb, rfl⟩ := hb
      rw [(hc1 ea hea).1, (hc1 eb heb).1]; exact Int.le_refl _
    · intro a ha b hb
      simp only [List.mem_map] at ha hb
      obtain ⟨ea, hea, rfl⟩ := ha
      obtain ⟨eb, heb, rfl⟩ := hb
      exact hP ea hea eb.1 eb.2 (hc1 eb heb).2
  · intro j
    rw [(hsplit j).2]
    exact (h1 j).sublist (List.dropWhile_sublist _)
  · intro j x hx
    rw [(hsplit j).2] at hx
    exact mem_dropWhile_gt _ _ (h1 j) m (by intro v; simp [notAfter]) x hx

end Union
end Kap.C12
