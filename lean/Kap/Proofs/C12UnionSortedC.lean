import Kap.Proofs.C12UnionSortedB
namespace Kap.C12
namespace Union
open QueueLike LawfulQueue Spec
set_option linter.unusedSectionVars false
set_option linter.unusedSimpArgs false
set_option linter.unusedVariables false
variable {Q : Type} [QueueLike Q UMsg] [LawfulQueue Q UMsg]

theorem emitPass_none (qs : List Q) (k : Nat) : (emitPass none k qs).2 = [] := by
  induction qs generalizing k with
  | nil => rfl
  | cons q qs ih =>
    simp only [emitPass, emitSrc, ih]
    have : (toList q).takeWhile (fun v => notAfter v.time none) = [] := by
      cases toList q with
      | nil => rfl
      | cons a as => simp [List.takeWhile_cons, notAfter]
    simp [this]

theorem seq_source (qs : List Q) (j : Nat) (x : UMsg) (h : (seq qs j).head? = some x) : ∃ q ∈ qs, toList q = seq qs j := by
  unfold seq at h ⊢
  cases hq : (qs.map toList)[j]? with
  | none => rw [hq] at h; simp at h
  | some l =>
    have := List.mem_of_getElem? hq
    simp only [List.mem_map] at this
    obtain ⟨q, hq1, hq2⟩ := this
    exact ⟨q, hq1, by simp [hq2]⟩

/-- Invariant of the drain loop. -/
structure DI (s : UState Q) (P : List (Nat × UMsg)) : Prop where
  len : s.sources.length ≤ s.lowMarks.length
  srt : ∀ j, TimeSorted (seq s.sources j)
  le : ∀ e ∈ P, ∀ j, ∀ x ∈ seq s.sources j, e.2.time ≤ x.time
  out : (P.map (·.2.time)).Pairwise (· ≤ ·)

theorem drain_sorted (fuel : Nat) (s : UState Q) (P : List (Nat × UMsg)) (h : DI s P) :
    ((emitReady true fuel s P).2.1.map (·.2.time)).Pairwise (· ≤ ·) := by
  induction fuel generalizing s P with
  | zero => simpa [emitReady] using h.out
  | succ fuel ih =>
    simp only [emitReady, Bool.not_true, Bool.false_and, Bool.false_eq_true, if_false]
    obtain ⟨m1, _, _⟩ := markLoop_drain s.sources s.lowMarks none 0 h.len
    cases hm : (markLoop true s.sources s.lowMarks none 0).1 with
    | none =>
      simp only [emitPass_none, List.isEmpty_nil, if_true]
      exact h.out
    | some m =>
      have h2 : ∀ j x, (seq s.sources j).head? = some x → m ≤ x.time := by
        intro j x hx
        obtain ⟨q, hq, hqe⟩ := seq_source s.sources j x hx
        obtain ⟨m', hm', hle⟩ := m1 q hq x (by rw [hqe]; exact hx)
        rw [hm] at hm'; cases hm'; exact hle
      obtain ⟨c1, c2, c3, c4⟩ := pass_sorted m s.sources P h.srt h2 h.le h.out
      split
      · exact h.out
      · apply ih
        refine ⟨?_, c3, ?_, c2⟩
        · simp only []
          rw [markLoop_length, (emitPass_spec _ s.sources 0).1]; exact h.len
        · intro e he j x hx
          simp only [] at hx
          obtain ⟨hx1, hx2⟩ := c4 j x hx
          simp only [List.mem_append] at he
          rcases he with he | he
          · exact h.le e he j x hx1
          · rw [(c1 e he).1]; omega

end Union
end Kap.C12
