import Kap.Proofs.C12UnionSortedC
namespace Kap.C12
namespace Union
open QueueLike LawfulQueue Spec
set_option linter.unusedSectionVars false
set_option linter.unusedSimpArgs false
set_option linter.unusedVariables false
variable {Q : Type} [QueueLike Q UMsg] [LawfulQueue Q UMsg]

/-- `sourceMark` of source `j` as `emitReady` would compute it now. -/
def bnd (s : UState Q) (j : Nat) : Option Int :=
  match (seq s.sources j).head? with
  | some x => some x.time
  | none => (s.lowMarks[j]?).join

theorem seq_eq_toList (qs : List Q) (j : Nat) (hj : j < qs.length) : seq qs j = toList qs[j] := by
  simp [seq, hj]

theorem seq_lt (qs : List Q) (j : Nat) (h : seq qs j ≠ []) : j < qs.length := by
  by_cases hj : j < qs.length
  · exact hj
  · exfalso; apply h; simp [seq, List.getElem?_eq_none (by simpa using hj : (qs.map toList).length ≤ j)]

theorem bs_get (s : UState Q) (j : Nat) (h1 : j < s.sources.length) (h2 : j < s.lowMarks.length) :
    (List.zipWith boundOf s.sources s.lowMarks)[j]? = some (bnd s j) := by
  rw [List.getElem?_zipWith, List.getElem?_eq_getElem h1, List.getElem?_eq_getElem h2]
  simp only [Option.some.injEq]
  unfold bnd boundOf
  rw [seq_eq_toList _ _ h1, List.getElem?_eq_getElem h2]
  simp only [Option.join_some]
  cases (toList s.sources[j]).head? <;> rfl

/-- Invariant of the union node while the parents are running (all of them time-ordered). -/
structure SI (n : Nat) (s : UState Q) (P arr : List (Nat × UMsg)) : Prop where
  run : RunInv n s P arr
  lml : s.lowMarks.length = n
  srt : ∀ j, TimeSorted (seq s.sources j)
  le : ∀ e ∈ P, ∀ j, j < n → ∀ x, bnd s j = some x → e.2.time ≤ x
  out : (P.map (·.2.time)).Pairwise (· ≤ ·)
  unset : ∀ j, j < n → bnd s j = none → P = []
  lm : ∀ j, j < n → ∀ L, (s.lowMarks[j]?).join = some L → ∃ x ∈ parentSeq j arr, x.time = L

/-- Replacing the sources by sources with the same contents keeps the invariant. -/
theorem SI.congr {n : Nat} {s : UState Q} {P arr : List (Nat × UMsg)} (h : SI n s P arr) (qs' : List Q)
    (hl : qs'.length = s.sources.length) (hs : ∀ j, seq qs' j = seq s.sources j) :
    SI n { s with sources := qs' } P arr := by
  have hb : ∀ j, bnd { s with sources := qs' } j = bnd s j := by intro j; simp [bnd, hs]
  refine ⟨⟨by rw [hl]; exact h.run.1, h.run.2.1, ?_, h.run.2.2.2⟩, h.lml, ?_, ?_, h.out, ?_, h.lm⟩
  · intro j; simp only [hs]; exact h.run.2.2.1 j
  · intro j; simp only [hs]; exact h.srt j
  · intro e he j hj x hx; rw [hb] at hx; exact h.le e he j hj x hx
  · intro j hj hx; rw [hb] at hx; exact h.unset j hj hx

/-- Storing the freshly computed source marks as low marks keeps the invariant (and every bound). -/
theorem SI.marks {n : Nat} {s : UState Q} {P arr : List (Nat × UMsg)} (h : SI n s P arr) :
    SI n { s with lowMarks := List.zipWith boundOf s.sources s.lowMarks } P arr ∧
    ∀ j, j < n → bnd { s with lowMarks := List.zipWith boundOf s.sources s.lowMarks } j = bnd s j := by
  have hsl : s.sources.length = n := h.run.1
  have hb : ∀ j, j < n → bnd { s with lowMarks := List.zipWith boundOf s.sources s.lowMarks } j = bnd s j := by
    intro j hj
    unfold bnd
    simp only []
    cases hh : (seq s.sources j).head? with
    | some x => rfl
    | none =>
      simp only []
      rw [bs_get s j (by omega) (by rw [h.lml]; exact hj)]
      simp [bnd, hh]
  refine ⟨⟨⟨hsl, by simp [hsl, h.lml], h.run.2.2.1, h.run.2.2.2⟩, by simp [hsl, h.lml], h.srt, ?_, h.out, ?_, ?_⟩, hb⟩
  · intro e he j hj x hx; rw [hb j hj] at hx; exact h.le e he j hj x hx
  · intro j hj hx; rw [hb j hj] at hx; exact h.unset j hj hx
  · intro j hj L hL
    simp only [] at hL
    rw [bs_get s j (by omega) (by rw [h.lml]; exact hj)] at hL
    simp only [Option.join_some] at hL
    unfold bnd at hL
    cases hh : (seq s.sources j).head? with
    | some x =>
      rw [hh] at hL
      simp only [Option.some.injEq] at hL
      refine ⟨x, ?_, hL⟩
      rw [← h.run.2.2.1 j, List.mem_append]
      right
      exact List.mem_of_mem_head? hh
    | none =>
      rw [hh] at hL
      exact h.lm j hj L hL

end Union
end Kap.C12
