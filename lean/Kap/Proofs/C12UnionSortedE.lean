import Kap.Proofs.C12UnionSortedD
namespace Kap.C12
namespace Union
open QueueLike LawfulQueue Spec
set_option linter.unusedSectionVars false
set_option linter.unusedSimpArgs false
set_option linter.unusedVariables false
variable {Q : Type} [QueueLike Q UMsg] [LawfulQueue Q UMsg]

theorem all_isSome_of_filter_length (l : List (Option Int)) (h : (l.filter Option.isSome).length = l.length) :
    ∀ b ∈ l, b.isSome := by
  induction l with
  | nil => simp
  | cons x xs ih =>
    cases x with
    | none =>
      simp only [List.filter_cons, Option.isSome_none, Bool.false_eq_true, if_false, List.length_cons] at h
      have := List.length_filter_le Option.isSome xs
      omega
    | some v =>
      simp only [List.filter_cons, Option.isSome_some, if_true, List.length_cons, Nat.add_right_cancel_iff] at h
      intro b hb
      simp only [List.mem_cons] at hb
      rcases hb with rfl | hb
      · rfl
      · exact ih h b hb

/-- One non-draining `emitReady` keeps the invariant (the accumulator is the whole output so far). -/
theorem SI_emitReady {n : Nat} (fuel : Nat) (s : UState Q) (P arr : List (Nat × UMsg)) (h : SI n s P arr) :
    SI n (emitReady false fuel s P).1 (emitReady false fuel s P).2.1 arr := by
  induction fuel generalizing s P with
  | zero => simpa [emitReady] using h
  | succ fuel ih =>
    have hsl : s.sources.length = n := h.run.1
    simp only [emitReady]
    rw [markLoop_false s.sources s.lowMarks none 0 (by rw [hsl, h.lml])]
    simp only [Bool.not_false, Bool.true_and, Nat.zero_add]
    obtain ⟨h1, hb1⟩ := h.marks
    generalize hbs : List.zipWith boundOf s.sources s.lowMarks = bs at h1 hb1 ⊢
    have hbl : bs.length = n := by rw [← hbs]; simp [hsl, h.lml]
    by_cases hv : (bs.filter Option.isSome).length ≠ s.sources.length
    · rw [if_pos (by simpa using hv)]
      exact h1
    · rw [if_neg (by simpa using hv)]
      have hall := all_isSome_of_filter_length bs (by omega)
      have hbget : ∀ j, j < n → bs[j]? = some (bnd s j) := by
        intro j hj; rw [← hbs]; exact bs_get s j (by omega) (by rw [h.lml]; exact hj)
      have hsome : ∀ j, j < n → ∃ x, bnd s j = some x := by
        intro j hj
        have := hall (bnd s j) (List.mem_of_getElem? (hbget j hj))
        cases hh : bnd s j with
        | none => rw [hh] at this; simp at this
        | some x => exact ⟨x, rfl⟩
      -- the pass works on the sources of `s`, the low marks are `bs`
      have hcase : ∀ (mark : Option Int), mark = bs.foldl optMin none →
          SI n (if (emitPass mark 0 s.sources).2.isEmpty = true then
                  ({ sources := (emitPass mark 0 s.sources).1, lowMarks := bs }, P, true)
                else emitReady false fuel { sources := (emitPass mark 0 s.sources).1, lowMarks := bs }
                  (P ++ (emitPass mark 0 s.sources).2)).1
               (if (emitPass mark 0 s.sources).2.isEmpty = true then
                  ({ sources := (emitPass mark 0 s.sources).1, lowMarks := bs }, P, true)
                else emitReady false fuel { sources := (emitPass mark 0 s.sources).1, lowMarks := bs }
                  (P ++ (emitPass mark 0 s.sources).2)).2.1 arr := by
        intro mark hmark
        obtain ⟨p1, p2, p3⟩ := emitPass_spec mark s.sources 0
        by_cases hemp : (emitPass mark 0 s.sources).2.isEmpty = true
        · simp only [hemp, if_true]
          have he : (emitPass mark 0 s.sources).2 = [] := List.isEmpty_iff.mp hemp
          apply h1.congr _ p1
          intro j
          have := p2 j
          rw [he] at this
          simpa [parentSeq] using this
        · simp only [hemp, Bool.false_eq_true, if_false]
          apply ih
          -- the mark is a known time, at most every bound
          have hne : (emitPass mark 0 s.sources).2 ≠ [] := by intro hc; rw [hc] at hemp; simp at hemp
          cases hmk : mark with
          | none => rw [hmk, emitPass_none] at hne; exact absurd rfl hne
          | some m =>
            subst hmk
            have hLB : ∀ j, j < n → ∀ x, bnd s j = some x → m ≤ x := by
              intro j hj x hx
              obtain ⟨m', hm', hle⟩ := (foldl_optMin bs none hall).2.1 (some x)
                (List.mem_of_getElem? (by rw [hbget j hj, hx])) x rfl
              rw [← hmark] at hm'; cases hm'; exact hle
            have h2 : ∀ j x, (seq s.sources j).head? = some x → m ≤ x.time := by
              intro j x hx
              have hj : j < n := by
                rw [← hsl]; apply seq_lt; intro hc; rw [hc] at hx; simp at hx
              exact hLB j hj x.time (by simp [bnd, hx])
            have hP : ∀ e ∈ P, ∀ j, ∀ x ∈ seq s.sources j, e.2.time ≤ x.time := by
              intro e he j x hx
              have hj : j < n := by
                rw [← hsl]; apply seq_lt; intro hc; rw [hc] at hx; simp at hx
              cases hh : (seq s.sources j).head? with
              | none => cases hl : seq s.sources j with
                | nil => rw [hl] at hx; simp at hx
                | cons a as => rw [hl] at hh; simp at hh
              | some y =>
                have := h.le e he j hj y.time (by simp [bnd, hh])
                have := sorted_head_le _ (h.srt j) y x hh hx
                omega
            obtain ⟨c1, c2, c3, c4⟩ := pass_sorted m s.sources P h.srt h2 hP h.out
            have hbnd2 : ∀ j, j < n → ∀ x, bnd { sources := (emitPass (some m) 0 s.sources).1, lowMarks := bs } j = some x →
                (∃ y ∈ seq (emitPass (some m) 0 s.sources).1 j, x = y.time) ∨
                (seq (emitPass (some m) 0 s.sources).1 j = [] ∧ bnd s j = some x) := by
              intro j hj x hx
              unfold bnd at hx
              simp only [] at hx
              cases hh : (seq (emitPass (some m) 0 s.sources).1 j).head? with
              | some y =>
                rw [hh] at hx
                simp only [Option.some.injEq] at hx
                left; exact ⟨y, List.mem_of_mem_head? hh, hx.symm⟩
              | none =>
                rw [hh] at hx
                simp only [] at hx
                rw [hbget j hj] at hx
                right
                refine ⟨?_, by simpa using hx⟩
                cases hl : seq (emitPass (some m) 0 s.sources).1 j with
                | nil => rfl
                | cons a as => rw [hl] at hh; simp at hh
            refine ⟨⟨by simp only []; rw [p1]; exact hsl, by simp only []; omega, ?_, ?_⟩, by simp only []; exact hbl, c3, ?_, c2, ?_, ?_⟩
            · intro j
              simp only []
              rw [parentSeq_append, List.append_assoc]
              have := p2 j
              rw [Nat.zero_add] at this
              rw [this]
              exact h.run.2.2.1 j
            · intro x hx
              simp only [List.mem_append] at hx
              rcases hx with hx | hx
              · exact h.run.2.2.2 x hx
              · have := (p3 x hx).2; omega
            · intro e he j hj x hx
              simp only [List.mem_append] at he
              rcases hbnd2 j hj x hx with ⟨y, hy, rfl⟩ | ⟨_, hx'⟩
              · obtain ⟨hy1, hy2⟩ := c4 j y hy
                rcases he with he | he
                · exact hP e he j y hy1
                · rw [(c1 e he).1]; omega
              · rcases he with he | he
                · exact h.le e he j hj x hx'
                · rw [(c1 e he).1]; exact hLB j hj x hx'
            · intro j hj hx
              exfalso
              unfold bnd at hx
              simp only [] at hx
              cases hh : (seq (emitPass (some m) 0 s.sources).1 j).head? with
              | some y => rw [hh] at hx; simp at hx
              | none =>
                rw [hh] at hx
                simp only [] at hx
                rw [hbget j hj] at hx
                obtain ⟨x, hx2⟩ := hsome j hj
                rw [hx2] at hx; simp at hx
            · exact h1.lm
      exact hcase _ rfl

end Union
end Kap.C12
