import Kap.Proofs.C12UnionSortedE
namespace Kap.C12
namespace Union
open QueueLike LawfulQueue Spec
set_option linter.unusedSectionVars false
set_option linter.unusedSimpArgs false
set_option linter.unusedVariables false
variable {Q : Type} [QueueLike Q UMsg] [LawfulQueue Q UMsg]

/-- A message of parent `src`, not earlier than what `src` delivered before, is enqueued: the invariant stays. -/
theorem SI_enqueue {n : Nat} {s : UState Q} {P arr : List (Nat × UMsg)} (h : SI n s P arr) (src : Nat) (m : UMsg)
    (hs : src < n) (hord : ∀ x ∈ parentSeq src arr, x.time ≤ m.time) :
    SI n { s with sources := s.sources.modify src (fun q => enq q m) } P (arr ++ [(src, m)]) := by
  have hsl : s.sources.length = n := h.run.1
  have hseq : ∀ j, seq (s.sources.modify src (fun q => enq q m)) j = if j = src then seq s.sources j ++ [m] else seq s.sources j :=
    fun j => seq_modify s.sources src m j (by omega)
  have hsub : ∀ j, ∀ x ∈ seq s.sources j, x ∈ parentSeq j arr := by
    intro j x hx; rw [← h.run.2.2.1 j]; exact List.mem_append.mpr (Or.inr hx)
  have hps : ∀ j, parentSeq j (arr ++ [(src, m)]) = if j = src then parentSeq j arr ++ [m] else parentSeq j arr := by
    intro j
    rw [parentSeq_append]
    by_cases hj : j = src
    · subst hj; simp [parentSeq]
    · have : parentSeq j [(src, m)] = [] := by
        apply parentSeq_nil_of_ne; intro x hx; simp only [List.mem_singleton] at hx; subst hx; simp; omega
      simp [hj, this]
  have hb : ∀ j, bnd { s with sources := s.sources.modify src (fun q => enq q m) } j =
      if j = src ∧ seq s.sources j = [] then some m.time else bnd s j := by
    intro j
    unfold bnd
    simp only [hseq]
    by_cases hj : j = src
    · subst hj
      simp only [if_true, true_and]
      cases hl : seq s.sources j with
      | nil => simp
      | cons a as => simp
    · simp [hj]
  refine ⟨⟨by simp [hsl], h.run.2.1, ?_, h.run.2.2.2⟩, h.lml, ?_, ?_, h.out, ?_, ?_⟩
  · intro j
    rw [hseq, hps]
    by_cases hj : j = src
    · simp only [hj, if_true]
      rw [← List.append_assoc, ← hj, h.run.2.2.1 j]
    · simp only [hj, if_false]; exact h.run.2.2.1 j
  · intro j
    simp only [hseq]
    by_cases hj : j = src
    · subst hj
      simp only [if_true]
      unfold TimeSorted
      rw [List.pairwise_append]
      refine ⟨h.srt j, by simp, ?_⟩
      intro a ha b hb'
      simp only [List.mem_singleton] at hb'
      subst hb'
      exact hord a (hsub j a ha)
    · simp only [hj, if_false]; exact h.srt j
  · intro e he j hj x hx
    rw [hb] at hx
    by_cases hc : j = src ∧ seq s.sources j = []
    · rw [if_pos hc] at hx
      simp only [Option.some.injEq] at hx
      subst hx
      obtain ⟨hjs, hemp⟩ := hc
      subst hjs
      cases hbn : bnd s j with
      | none => have := h.unset j hj hbn; rw [this] at he; simp at he
      | some L =>
        have h1 := h.le e he j hj L hbn
        have hL : (s.lowMarks[j]?).join = some L := by
          unfold bnd at hbn; rw [hemp] at hbn; simpa using hbn
        obtain ⟨y, hy, hyt⟩ := h.lm j hj L hL
        have := hord y hy
        omega
    · rw [if_neg hc] at hx
      exact h.le e he j hj x hx
  · intro j hj hx
    rw [hb] at hx
    by_cases hc : j = src ∧ seq s.sources j = []
    · rw [if_pos hc] at hx; simp at hx
    · rw [if_neg hc] at hx
      exact h.unset j hj hx
  · intro j hj L hL
    obtain ⟨y, hy, hyt⟩ := h.lm j hj L hL
    refine ⟨y, ?_, hyt⟩
    rw [hps]
    by_cases hjs : j = src
    · simp [hjs] at hy ⊢; exact Or.inl hy
    · simp [hjs]; exact hy

theorem parentSeq_ren_time (rename : String) (i : Nat) (l : List (Nat × UMsg)) :
    (parentSeq i (l.map (fun a => (a.1, renamed rename a.2)))).map (·.time) = (parentSeq i l).map (·.time) := by
  induction l with
  | nil => rfl
  | cons a as ih =>
    simp only [parentSeq] at ih ⊢
    have ht : (renamed rename a.2).time = a.2.time := by unfold renamed; split <;> rfl
    by_cases hi : a.1 = i <;> simp [List.filter_cons, hi, ih, ht]

theorem SI_arrivals {n : Nat} (rename : String) (rest : List (Nat × UMsg)) (s : UState Q) (P arr : List (Nat × UMsg))
    (h : SI n s P arr) (hs : ∀ a ∈ rest, a.1 < n)
    (hord : ∀ i, i < n → ((parentSeq i (arr ++ rest.map (fun a => (a.1, renamed rename a.2)))).map (·.time)).Pairwise (· ≤ ·)) :
    SI n (runArrivals rename s rest).1 (P ++ (runArrivals rename s rest).2)
      (arr ++ rest.map (fun a => (a.1, renamed rename a.2))) := by
  induction rest generalizing s P arr with
  | nil => simpa [runArrivals] using h
  | cons a rest ih =>
    obtain ⟨src, m⟩ := a
    have hsrc := hs (src, m) (by simp)
    have hle : ∀ x ∈ parentSeq src arr, x.time ≤ (renamed rename m).time := by
      intro x hx
      have := hord src hsrc
      simp only [List.map_cons, parentSeq_append, List.map_append, List.pairwise_append] at this
      apply this.2.2 x.time (List.mem_map.mpr ⟨x, hx, rfl⟩) (renamed rename m).time
      simp [parentSeq]
    have h0 := SI_enqueue h src (renamed rename m) hsrc hle
    have h1 := SI_emitReady (total ({ s with sources := s.sources.modify src (fun q => enq q (renamed rename m)) } : UState Q) + 1) _ P _ h0
    rw [emitReady_append] at h1
    simp only [] at h1
    simp only [runArrivals, message, emitReadyAll]
    have h2 := ih _ _ _ h1 (fun a ha => hs a (by simp [ha])) (by simpa [List.append_assoc] using hord)
    simpa [List.append_assoc] using h2

/-- **union_sorted.** -/
theorem run_sorted (rename : String) (n : Nat) (arrivals : List (Nat × UMsg)) (hs : ∀ a ∈ arrivals, a.1 < n)
    (hord : parentsOrdered n arrivals) : unionSorted (run rename n arrivals : UState Q × _).2 := by
  have h0 : SI n (init n : UState Q) [] [] := by
    refine ⟨runInv_init n, by simp [init], ?_, by simp, by simp, fun _ _ _ => rfl, ?_⟩
    · intro j
      rw [seq_eq_nil_of_all]
      · exact List.Pairwise.nil
      · intro q hq; simp only [init, List.mem_replicate] at hq; rw [hq.2, toList_empty]
    · intro j hj L hL
      simp [init, List.getElem?_replicate, hj] at hL
  have h1 := SI_arrivals rename arrivals (init n : UState Q) [] [] h0 hs (by
    intro i hi
    simp only [List.nil_append]
    rw [parentSeq_ren_time]
    exact hord i hi)
  simp only [List.nil_append] at h1
  unfold run finish emitReadyAll unionSorted
  simp only []
  generalize hr : runArrivals rename (init n : UState Q) arrivals = r at h1
  obtain ⟨s1, o1⟩ := r
  simp only [] at h1 ⊢
  have hsl : s1.sources.length = n := h1.run.1
  have hD : DI s1 o1 := by
    refine ⟨by rw [hsl, h1.lml]; exact Nat.le_refl _, h1.srt, ?_, h1.out⟩
    intro e he j x hx
    have hj : j < n := by rw [← hsl]; apply seq_lt; intro hc; rw [hc] at hx; simp at hx
    cases hh : (seq s1.sources j).head? with
    | none => cases hl : seq s1.sources j with
      | nil => rw [hl] at hx; simp at hx
      | cons a as => rw [hl] at hh; simp at hh
    | some y =>
      have := h1.le e he j hj y.time (by simp [bnd, hh])
      have := sorted_head_le _ (h1.srt j) y x hh hx
      omega
  have := drain_sorted (total s1 + 1) s1 o1 hD
  rw [emitReady_append] at this
  exact this

end Union
end Kap.C12
