/-
Helper lemmas for C13: the precedence-climbing parser (Kap.C13.primary/outer/inner/params) inverts the
flag-driven printer `fmtToksOld` on canonical trees, for every tree and every fuel that suffices.
Core Lean only.
-/
import Kap.Model.C13

namespace Kap.C13
open Kap.C13.Gen

/-! ### Res -/

@[simp] theorem Res.bind_ok {α β} (a : α) (g : α → Res β) : (Res.ok a).bind g = g a := rfl
@[simp] theorem Res.bind_err {α β} (g : α → Res β) : (Res.err : Res α).bind g = .err := rfl
@[simp] theorem Res.bind_na {α β} (w : String) (g : α → Res β) : (Res.na w : Res α).bind g = .na w := rfl

/-! ### Canonical trees (= the image of the parser) -/

/-- an unparenthesised binary node -/
def isBare : Expr → Bool
  | .bin _ _ _ false => true
  | _ => false

/-- an operand under an operator that needs binding power ≥ q is fine without parentheses when it is not a
bare binary node, or its operator binds at least that tight -/
def okQ (q : Nat) : Expr → Bool
  | .bin o _ _ false => q ≤ prec o
  | _ => true

mutual
/-- every operand carries the Parens flag wherever the grammar needs it: a bare left operand binds at least as
tight as its parent (left associativity), a bare right operand strictly tighter, a unary operand is not bare -/
def canon : Expr → Bool
  | .lit _ => true
  | .id _ => true
  | .un _ e => canon e && !isBare e
  | .bin o l r _ => canon l && canon r && okQ (prec o) l && okQ (prec o + 1) r
  | .call _ args => canonAll args
def canonAll : List Expr → Bool
  | [] => true
  | a :: rest => canon a && canonAll rest
end

mutual
/-- size, for the strong induction -/
def size : Expr → Nat
  | .lit _ => 1
  | .id _ => 1
  | .un _ e => size e + 1
  | .bin _ l r _ => size l + size r + 1
  | .call _ args => sizeAll args + 1
def sizeAll : List Expr → Nat
  | [] => 0
  | a :: rest => size a + sizeAll rest + 1
end

/-- what may follow an expression: not an operator and not '(' -/
def stops : List Tok → Bool
  | .op _ :: _ => false
  | .lp :: _ => false
  | _ => true

/-- what may follow inside `precedence(_, minP)`: like `stops`, or an operator binding looser than minP -/
def stopsAt (minP : Nat) : List Tok → Bool
  | .op o :: _ => prec o < minP
  | .lp :: _ => false
  | _ => true

theorem stopsAt_of_stops {minP : Nat} {ts : List Tok} (h : stops ts = true) : stopsAt minP ts = true := by
  cases ts with
  | nil => rfl
  | cons t ts => cases t <;> simp_all [stops, stopsAt]

/-! ### Spines: `((p op1 t1) op2 t2) … opn tn` -/

abbrev Spine := List (BinOp × Expr)

def spineToks : Spine → List Tok
  | [] => []
  | (o, t) :: S => .op o :: fmtToksOld t ++ spineToks S

def foldSpine (lhs : Expr) : Spine → Expr
  | [] => lhs
  | (o, t) :: S => foldSpine (.bin o lhs t false) S

theorem spineToks_append (S T : Spine) : spineToks (S ++ T) = spineToks S ++ spineToks T := by
  induction S with
  | nil => rfl
  | cons x S ih => obtain ⟨o, t⟩ := x; simp [spineToks, ih]

theorem foldSpine_append (lhs : Expr) (S T : Spine) : foldSpine lhs (S ++ T) = foldSpine (foldSpine lhs S) T := by
  induction S generalizing lhs with
  | nil => rfl
  | cons x S ih => obtain ⟨o, t⟩ := x; simp [foldSpine, ih]

/-- the spine of a tree: its leftmost non-bare operand and the (operator, right operand) pairs above it -/
def spineOf : Expr → Expr × Spine
  | .bin o l r false => let (p, S) := spineOf l; (p, S ++ [(o, r)])
  | e => (e, [])

theorem fold_spineOf : (e : Expr) → foldSpine (spineOf e).1 (spineOf e).2 = e
  | .bin o l r false => by
    have ih := fold_spineOf l
    simp [spineOf, foldSpine_append, ih, foldSpine]
  | .bin _ _ _ true => by simp [spineOf, foldSpine]
  | .lit _ => by simp [spineOf, foldSpine]
  | .id _ => by simp [spineOf, foldSpine]
  | .un _ _ => by simp [spineOf, foldSpine]
  | .call _ _ => by simp [spineOf, foldSpine]

theorem toks_spineOf : (e : Expr) → fmtToksOld (spineOf e).1 ++ spineToks (spineOf e).2 = fmtToksOld e
  | .bin o l r false => by
    have ih := toks_spineOf l
    simp [spineOf, spineToks_append, spineToks, fmtToksOld, ← ih, List.append_assoc]
  | .bin _ _ _ true => by simp [spineOf, spineToks]
  | .lit _ => by simp [spineOf, spineToks]
  | .id _ => by simp [spineOf, spineToks]
  | .un _ _ => by simp [spineOf, spineToks]
  | .call _ _ => by simp [spineOf, spineToks]

theorem spineOf_head_not_bare : (e : Expr) → isBare (spineOf e).1 = false
  | .bin o l r false => by
    have ih := spineOf_head_not_bare l
    simpa [spineOf] using ih
  | .bin _ _ _ true => by simp [spineOf, isBare]
  | .lit _ => by simp [spineOf, isBare]
  | .id _ => by simp [spineOf, isBare]
  | .un _ _ => by simp [spineOf, isBare]
  | .call _ _ => by simp [spineOf, isBare]

/-! ### The two loops of `precedence` on a spine -/

theorem Res.bind_assoc {α β γ} (r : Res α) (g : α → Res β) (h : β → Res γ) :
    (r.bind g).bind h = r.bind (fun a => (g a).bind h) := by
  cases r <;> rfl

theorem stopsAt_mono {a b : Nat} (h : a ≤ b) {ts : List Tok} (hs : stopsAt a ts = true) : stopsAt b ts = true := by
  cases ts with
  | nil => rfl
  | cons t ts =>
    cases t <;> simp_all [stopsAt]
    omega

/-- `t` is read back as the right operand of an operator of binding power `p`: `primary`, then the inner loop -/
def ReadsOperand (t : Expr) (p : Nat) : Prop :=
  ∀ rest, stopsAt (p + 1) rest = true → ∃ N, ∀ f, N ≤ f →
    (primary f (fmtToksOld t ++ rest)).bind (fun x => inner f x.1 p x.2) = .ok (t, rest)

/-- binding powers never increase along a spine -/
def nonInc (S : Spine) : Prop := S.Pairwise (fun a b => prec b.1 ≤ prec a.1)

theorem stopsAt_spine {S : Spine} {rest : List Tok} {q b : Nat} (hq : b ≤ q)
    (hS : ∀ x ∈ S, prec x.1 < q) (hr : stopsAt b rest = true) : stopsAt q (spineToks S ++ rest) = true := by
  cases S with
  | nil => simpa [spineToks] using stopsAt_mono hq hr
  | cons x S =>
    obtain ⟨o, t⟩ := x
    have := hS (o, t) (by simp)
    simpa [spineToks, stopsAt] using this

/-- the outer loop consumes a whole spine whose operators all bind at least `minP` -/
theorem outer_spine : ∀ (S : Spine) (lhs : Expr) (minP : Nat) (rest : List Tok),
    (∀ x ∈ S, minP ≤ prec x.1) → nonInc S → (∀ x ∈ S, ReadsOperand x.2 (prec x.1)) →
    stopsAt minP rest = true →
    ∃ N, ∀ f, N ≤ f → outer f lhs minP (spineToks S ++ rest) = .ok (foldSpine lhs S, rest)
  | [], lhs, minP, rest, _, _, _, hr => by
    refine ⟨1, fun f hf => ?_⟩
    obtain ⟨f, rfl⟩ : ∃ g, f = g + 1 := ⟨f - 1, by omega⟩
    cases rest with
    | nil => simp [spineToks, outer, foldSpine]
    | cons t ts =>
      cases t <;> simp_all [spineToks, outer, foldSpine, stopsAt]
      intro h; omega
  | (o, t) :: S, lhs, minP, rest, hmin, hinc, hread, hr => by
    have hmin' : ∀ x ∈ S, minP ≤ prec x.1 := fun x hx => hmin x (by simp [hx])
    have hinc' : nonInc S := (List.pairwise_cons.mp hinc).2
    have hhead : ∀ x ∈ S, prec x.1 ≤ prec o := (List.pairwise_cons.mp hinc).1
    have hread' : ∀ x ∈ S, ReadsOperand x.2 (prec x.1) := fun x hx => hread x (by simp [hx])
    have ho : minP ≤ prec o := hmin (o, t) (by simp)
    have hstop : stopsAt (prec o + 1) (spineToks S ++ rest) = true :=
      stopsAt_spine (by omega) (fun x hx => by have := hhead x hx; omega) hr
    obtain ⟨N1, h1⟩ := hread (o, t) (by simp) _ hstop
    obtain ⟨N2, h2⟩ := outer_spine S (.bin o lhs t false) minP rest hmin' hinc' hread' hr
    refine ⟨max N1 N2 + 1, fun f hf => ?_⟩
    obtain ⟨f, rfl⟩ : ∃ g, f = g + 1 := ⟨f - 1, by omega⟩
    have e1 := h1 f (by omega)
    have e2 := h2 f (by omega)
    simp only [spineToks, List.cons_append, List.append_assoc, outer, ho, if_true]
    rw [← Res.bind_assoc, e1]
    simpa [foldSpine] using e2

/-- split a spine at the first operator binding looser than `q` -/
def splitGE (q : Nat) : Spine → Spine × Spine
  | [] => ([], [])
  | x :: S => if q ≤ prec x.1 then ((x :: (splitGE q S).1), (splitGE q S).2) else ([], x :: S)

theorem splitGE_append (q : Nat) : ∀ S, (splitGE q S).1 ++ (splitGE q S).2 = S
  | [] => rfl
  | x :: S => by
    by_cases h : q ≤ prec x.1 <;> simp [splitGE, h, splitGE_append q S]

theorem splitGE_fst (q : Nat) : ∀ S, ∀ x ∈ (splitGE q S).1, q ≤ prec x.1
  | [], _, h => by simp [splitGE] at h
  | y :: S, x, h => by
    by_cases hq : q ≤ prec y.1
    · simp [splitGE, hq] at h
      rcases h with rfl | h
      · exact hq
      · exact splitGE_fst q S x h
    · simp [splitGE, hq] at h

theorem splitGE_snd_head (q : Nat) : ∀ S, ∀ x T, (splitGE q S).2 = x :: T → prec x.1 < q
  | [], x, T, h => by simp [splitGE] at h
  | y :: S, x, T, h => by
    by_cases hq : q ≤ prec y.1
    · simp [splitGE, hq] at h
      exact splitGE_snd_head q S x T h
    · simp [splitGE, hq] at h
      obtain ⟨rfl, _⟩ := h
      omega

theorem splitGE_snd_length (q : Nat) : ∀ S, (splitGE q S).2.length ≤ S.length
  | [] => by simp [splitGE]
  | y :: S => by
    by_cases hq : q ≤ prec y.1
    · have := splitGE_snd_length q S
      simp [splitGE, hq]; omega
    · simp [splitGE, hq]

/-- the inner loop consumes a whole spine whose operators all bind tighter than `p`, group by group -/
theorem inner_spine : ∀ (n : Nat) (S : Spine), S.length ≤ n → ∀ (rhs : Expr) (p : Nat) (rest : List Tok),
    (∀ x ∈ S, p < prec x.1) → nonInc S → (∀ x ∈ S, ReadsOperand x.2 (prec x.1)) →
    stopsAt (p + 1) rest = true →
    ∃ N, ∀ f, N ≤ f → inner f rhs p (spineToks S ++ rest) = .ok (foldSpine rhs S, rest)
  | n, [], _, rhs, p, rest, _, _, _, hr => by
    refine ⟨1, fun f hf => ?_⟩
    obtain ⟨f, rfl⟩ : ∃ g, f = g + 1 := ⟨f - 1, by omega⟩
    cases rest with
    | nil => simp [spineToks, inner, foldSpine]
    | cons t ts =>
      cases t <;> simp_all [spineToks, inner, foldSpine, stopsAt]
      intro h; omega
  | 0, (o, t) :: S, hn, _, _, _, _, _, _, _ => by simp at hn
  | n + 1, (o, t) :: S, hn, rhs, p, rest, hp, hinc, hread, hr => by
    have hpo : p < prec o := hp (o, t) (by simp)
    -- the group of operators that bind exactly as tight as the first one
    have hsplit := splitGE_append (prec o) ((o, t) :: S)
    have hfst1 : (splitGE (prec o) ((o, t) :: S)).1 = (o, t) :: (splitGE (prec o) S).1 := by simp [splitGE]
    have hsnd1 : (splitGE (prec o) ((o, t) :: S)).2 = (splitGE (prec o) S).2 := by simp [splitGE]
    generalize hS1 : (splitGE (prec o) ((o, t) :: S)).1 = S1 at *
    generalize hS2 : (splitGE (prec o) ((o, t) :: S)).2 = S2 at *
    have hmem1 : ∀ x ∈ S1, x ∈ (o, t) :: S := fun x hx => by rw [← hsplit]; simp [hx]
    have hmem2 : ∀ x ∈ S2, x ∈ (o, t) :: S := fun x hx => by rw [← hsplit]; simp [hx]
    have hinc12 : nonInc (S1 ++ S2) := by rw [hsplit]; exact hinc
    have hinc1 : nonInc S1 := (List.pairwise_append.mp hinc12).1
    have hinc2 : nonInc S2 := (List.pairwise_append.mp hinc12).2.1
    have hge1 : ∀ x ∈ S1, prec o ≤ prec x.1 := by
      intro x hx; rw [← hS1] at hx; exact splitGE_fst (prec o) _ x hx
    have hstop1 : stopsAt (prec o) (spineToks S2 ++ rest) = true := by
      cases hS2' : S2 with
      | nil => simpa [spineToks] using stopsAt_mono (by omega) hr
      | cons x T =>
        have : prec x.1 < prec o := splitGE_snd_head (prec o) ((o, t) :: S) x T (by rw [hS2, hS2'])
        obtain ⟨ox, tx⟩ := x
        simpa [spineToks, stopsAt] using this
    have hlen2 : S2.length ≤ n := by
      have := splitGE_snd_length (prec o) S
      rw [hsnd1]; simp at hn; omega
    obtain ⟨N1, h1⟩ := outer_spine S1 rhs (prec o) (spineToks S2 ++ rest) hge1 hinc1
      (fun x hx => hread x (hmem1 x hx)) hstop1
    obtain ⟨N2, h2⟩ := inner_spine n S2 hlen2 (foldSpine rhs S1) p rest
      (fun x hx => hp x (hmem2 x hx)) hinc2 (fun x hx => hread x (hmem2 x hx)) hr
    refine ⟨max N1 N2 + 1, fun f hf => ?_⟩
    obtain ⟨f, rfl⟩ : ∃ g, f = g + 1 := ⟨f - 1, by omega⟩
    have e1 := h1 f (by omega)
    have e2 := h2 f (by omega)
    have htoks : spineToks ((o, t) :: S) ++ rest = spineToks S1 ++ (spineToks S2 ++ rest) := by
      rw [← hsplit, spineToks_append, List.append_assoc]
    have hhd : ∃ tl, spineToks S1 ++ (spineToks S2 ++ rest) = .op o :: tl := by
      rw [hfst1]; exact ⟨fmtToksOld t ++ (spineToks (splitGE (prec o) S).1 ++ (spineToks S2 ++ rest)), by simp [spineToks]⟩
    obtain ⟨tl, htl⟩ := hhd
    rw [htoks, htl]
    simp only [inner, hpo, if_true]
    rw [← htl, e1]
    simp only [Res.bind_ok]
    rw [e2, ← foldSpine_append, hsplit]

end Kap.C13
