/-
Helper lemmas for C13: the precedence-climbing parser (Kap.C13.primary/outer/inner/params) inverts the
flag-driven printer `fmtToksOld` on canonical trees, for every tree and every fuel that suffices.
Core Lean only.
-/
import Kap.Model.C13

namespace Kap.C13
open Kap.C13.Gen

/-! ### Res -/

@[simp] theorem Res.bind_ok {α β} (a : α) (g : α → Res β) : (Res.ok a).bind g = g a := rfl
@[simp] theorem Res.bind_err {α β} (g : α → Res β) : (Res.err : Res α).bind g = .err := rfl
@[simp] theorem Res.bind_na {α β} (w : String) (g : α → Res β) : (Res.na w : Res α).bind g = .na w := rfl

/-! ### Canonical trees (= the image of the parser) -/

/-- an unparenthesised binary node -/
def isBare : Expr → Bool
  | .bin _ _ _ false => true
  | _ => false

/-- an operand under an operator that needs binding power ≥ q is fine without parentheses when it is not a
bare binary node, or its operator binds at least that tight -/
def okQ (q : Nat) : Expr → Bool
  | .bin o _ _ false => q ≤ prec o
  | _ => true

mutual
/-- every operand carries the Parens flag wherever the grammar needs it: a bare left operand binds at least as
tight as its parent (left associativity), a bare right operand strictly tighter, a unary operand is not bare -/
def canon : Expr → Bool
  | .lit _ => true
  | .id _ => true
  | .un _ e => canon e && !isBare e
  | .bin o l r _ => canon l && canon r && okQ (prec o) l && okQ (prec o + 1) r
  | .call _ args => canonAll args
def canonAll : List Expr → Bool
  | [] => true
  | a :: rest => canon a && canonAll rest
end

mutual
/-- size, for the strong induction -/
def size : Expr → Nat
  | .lit _ => 1
  | .id _ => 1
  | .un _ e => size e + 1
  | .bin _ l r _ => size l + size r + 1
  | .call _ args => sizeAll args + 1
def sizeAll : List Expr → Nat
  | [] => 0
  | a :: rest => size a + sizeAll rest + 1
end

/-- what may follow an expression: not an operator and not '(' -/
def stops : List Tok → Bool
  | .op _ :: _ => false
  | .lp :: _ => false
  | _ => true

/-- what may follow inside `precedence(_, minP)`: like `stops`, or an operator binding looser than minP -/
def stopsAt (minP : Nat) : List Tok → Bool
  | .op o :: _ => prec o < minP
  | .lp :: _ => false
  | _ => true

theorem stopsAt_of_stops {minP : Nat} {ts : List Tok} (h : stops ts = true) : stopsAt minP ts = true := by
  cases ts with
  | nil => rfl
  | cons t ts => cases t <;> simp_all [stops, stopsAt]

/-! ### Spines: `((p op1 t1) op2 t2) … opn tn` -/

abbrev Spine := List (BinOp × Expr)

def spineToks : Spine → List Tok
  | [] => []
  | (o, t) :: S => .op o :: fmtToksOld t ++ spineToks S

def foldSpine (lhs : Expr) : Spine → Expr
  | [] => lhs
  | (o, t) :: S => foldSpine (.bin o lhs t false) S

theorem spineToks_append (S T : Spine) : spineToks (S ++ T) = spineToks S ++ spineToks T := by
  induction S with
  | nil => rfl
  | cons x S ih => obtain ⟨o, t⟩ := x; simp [spineToks, ih]

theorem foldSpine_append (lhs : Expr) (S T : Spine) : foldSpine lhs (S ++ T) = foldSpine (foldSpine lhs S) T := by
  induction S generalizing lhs with
  | nil => rfl
  | cons x S ih => obtain ⟨o, t⟩ := x; simp [foldSpine, ih]

/-- the spine of a tree: its leftmost non-bare operand and the (operator, right operand) pairs above it -/
def spineOf : Expr → Expr × Spine
  | .bin o l r false => let (p, S) := spineOf l; (p, S ++ [(o, r)])
  | e => (e, [])

theorem fold_spineOf : (e : Expr) → foldSpine (spineOf e).1 (spineOf e).2 = e
  | .bin o l r false => by
    have ih := fold_spineOf l
    simp [spineOf, foldSpine_append, ih, foldSpine]
  | .bin _ _ _ true => by simp [spineOf, foldSpine]
  | .lit _ => by simp [spineOf, foldSpine]
  | .id _ => by simp [spineOf, foldSpine]
  | .un _ _ => by simp [spineOf, foldSpine]
  | .call _ _ => by simp [spineOf, foldSpine]

theorem toks_spineOf : (e : Expr) → fmtToksOld (spineOf e).1 ++ spineToks (spineOf e).2 = fmtToksOld e
  | .bin o l r false => by
    have ih := toks_spineOf l
    simp [spineOf, spineToks_append, spineToks, fmtToksOld, ← ih, List.append_assoc]
  | .bin _ _ _ true => by simp [spineOf, spineToks]
  | .lit _ => by simp [spineOf, spineToks]
  | .id _ => by simp [spineOf, spineToks]
  | .un _ _ => by simp [spineOf, spineToks]
  | .call _ _ => by simp [spineOf, spineToks]

theorem spineOf_head_not_bare : (e : Expr) → isBare (spineOf e).1 = false
  | .bin o l r false => by
    have ih := spineOf_head_not_bare l
    simpa [spineOf] using ih
  | .bin _ _ _ true => by simp [spineOf, isBare]
  | .lit _ => by simp [spineOf, isBare]
  | .id _ => by simp [spineOf, isBare]
  | .un _ _ => by simp [spineOf, isBare]
  | .call _ _ => by simp [spineOf, isBare]

/-! ### The two loops of `precedence` on a spine -/

theorem Res.bind_assoc {α β γ} (r : Res α) (g : α → Res β) (h : β → Res γ) :
    (r.bind g).bind h = r.bind (fun a => (g a).bind h) := by
  cases r <;> rfl

theorem stopsAt_mono {a b : Nat} (h : a ≤ b) {ts : List Tok} (hs : stopsAt a ts = true) : stopsAt b ts = true := by
  cases ts with
  | nil => rfl
  | cons t ts =>
    cases t <;> simp_all [stopsAt]
    omega

/-- `t` is read back as the right operand of an operator of binding power `p`: `primary`, then the inner loop -/
def ReadsOperand (t : Expr) (p : Nat) : Prop :=
  ∀ rest, stopsAt (p + 1) rest = true → ∃ N, ∀ f, N ≤ f →
    (primary f (fmtToksOld t ++ rest)).bind (fun x => inner f x.1 p x.2) = .ok (t, rest)

/-- binding powers never increase along a spine -/
def nonInc (S : Spine) : Prop := S.Pairwise (fun a b => prec b.1 ≤ prec a.1)

theorem stopsAt_spine {S : Spine} {rest : List Tok} {q b : Nat} (hq : b ≤ q)
    (hS : ∀ x ∈ S, prec x.1 < q) (hr : stopsAt b rest = true) : stopsAt q (spineToks S ++ rest) = true := by
  cases S with
  | nil => simpa [spineToks] using stopsAt_mono hq hr
  | cons x S =>
    obtain ⟨o, t⟩ := x
    have := hS (o, t) (by simp)
    simpa [spineToks, stopsAt] using this

/-- the outer loop consumes a whole spine whose operators all bind at least `minP` -/
theorem outer_spine : ∀ (S : Spine) (lhs : Expr) (minP : Nat) (rest : List Tok),
    (∀ x ∈ S, minP ≤ prec x.1) → nonInc S → (∀ x ∈ S, ReadsOperand x.2 (prec x.1)) →
    stopsAt minP rest = true →
    ∃ N, ∀ f, N ≤ f → outer f lhs minP (spineToks S ++ rest) = .ok (foldSpine lhs S, rest)
  | [], lhs, minP, rest, _, _, _, hr => by
    refine ⟨1, fun f hf => ?_⟩
    obtain ⟨f, rfl⟩ : ∃ g, f = g + 1 := ⟨f - 1, by omega⟩
    cases rest with
    | nil => simp [spineToks, outer, foldSpine]
    | cons t ts =>
      cases t <;> simp_all [spineToks, outer, foldSpine, stopsAt]
      intro h; omega
  | (o, t) :: S, lhs, minP, rest, hmin, hinc, hread, hr => by
    have hmin' : ∀ x ∈ S, minP ≤ prec x.1 := fun x hx => hmin x (by simp [hx])
    have hinc' : nonInc S := (List.pairwise_cons.mp hinc).2
    have hhead : ∀ x ∈ S, prec x.1 ≤ prec o := (List.pairwise_cons.mp hinc).1
    have hread' : ∀ x ∈ S, ReadsOperand x.2 (prec x.1) := fun x hx => hread x (by simp [hx])
    have ho : minP ≤ prec o := hmin (o, t) (by simp)
    have hstop : stopsAt (prec o + 1) (spineToks S ++ rest) = true :=
      stopsAt_spine (by omega) (fun x hx => by have := hhead x hx; omega) hr
    obtain ⟨N1, h1⟩ := hread (o, t) (by simp) _ hstop
    obtain ⟨N2, h2⟩ := outer_spine S (.bin o lhs t false) minP rest hmin' hinc' hread' hr
    refine ⟨max N1 N2 + 1, fun f hf => ?_⟩
    obtain ⟨f, rfl⟩ : ∃ g, f = g + 1 := ⟨f - 1, by omega⟩
    have e1 := h1 f (by omega)
    have e2 := h2 f (by omega)
    simp only [spineToks, List.cons_append, List.append_assoc, outer, ho, if_true]
    rw [← Res.bind_assoc, e1]
    simpa [foldSpine] using e2

/-- split a spine at the first operator binding looser than `q` -/
def splitGE (q : Nat) : Spine → Spine × Spine
  | [] => ([], [])
  | x :: S => if q ≤ prec x.1 then ((x :: (splitGE q S).1), (splitGE q S).2) else ([], x :: S)

theorem splitGE_append (q : Nat) : ∀ S, (splitGE q S).1 ++ (splitGE q S).2 = S
  | [] => rfl
  | x :: S => by
    by_cases h : q ≤ prec x.1 <;> simp [splitGE, h, splitGE_append q S]

theorem splitGE_fst (q : Nat) : ∀ S, ∀ x ∈ (splitGE q S).1, q ≤ prec x.1
  | [], _, h => by simp [splitGE] at h
  | y :: S, x, h => by
    by_cases hq : q ≤ prec y.1
    · simp [splitGE, hq] at h
      rcases h with rfl | h
      · exact hq
      · exact splitGE_fst q S x h
    · simp [splitGE, hq] at h

theorem splitGE_snd_head (q : Nat) : ∀ S, ∀ x T, (splitGE q S).2 = x :: T → prec x.1 < q
  | [], x, T, h => by simp [splitGE] at h
  | y :: S, x, T, h => by
    by_cases hq : q ≤ prec y.1
    · simp [splitGE, hq] at h
      exact splitGE_snd_head q S x T h
    · simp [splitGE, hq] at h
      obtain ⟨rfl, _⟩ := h
      omega

theorem splitGE_snd_length (q : Nat) : ∀ S, (splitGE q S).2.length ≤ S.length
  | [] => by simp [splitGE]
  | y :: S => by
    by_cases hq : q ≤ prec y.1
    · have := splitGE_snd_length q S
      simp [splitGE, hq]; omega
    · simp [splitGE, hq]

/-- the inner loop consumes a whole spine whose operators all bind tighter than `p`, group by group -/
theorem inner_spine : ∀ (n : Nat) (S : Spine), S.length ≤ n → ∀ (rhs : Expr) (p : Nat) (rest : List Tok),
    (∀ x ∈ S, p < prec x.1) → nonInc S → (∀ x ∈ S, ReadsOperand x.2 (prec x.1)) →
    stopsAt (p + 1) rest = true →
    ∃ N, ∀ f, N ≤ f → inner f rhs p (spineToks S ++ rest) = .ok (foldSpine rhs S, rest)
  | n, [], _, rhs, p, rest, _, _, _, hr => by
    refine ⟨1, fun f hf => ?_⟩
    obtain ⟨f, rfl⟩ : ∃ g, f = g + 1 := ⟨f - 1, by omega⟩
    cases rest with
    | nil => simp [spineToks, inner, foldSpine]
    | cons t ts =>
      cases t <;> simp_all [spineToks, inner, foldSpine, stopsAt]
      intro h; omega
  | 0, (o, t) :: S, hn, _, _, _, _, _, _, _ => by simp at hn
  | n + 1, (o, t) :: S, hn, rhs, p, rest, hp, hinc, hread, hr => by
    have hpo : p < prec o := hp (o, t) (by simp)
    -- the group of operators that bind exactly as tight as the first one
    have hsplit := splitGE_append (prec o) ((o, t) :: S)
    have hfst1 : (splitGE (prec o) ((o, t) :: S)).1 = (o, t) :: (splitGE (prec o) S).1 := by simp [splitGE]
    have hsnd1 : (splitGE (prec o) ((o, t) :: S)).2 = (splitGE (prec o) S).2 := by simp [splitGE]
    generalize hS1 : (splitGE (prec o) ((o, t) :: S)).1 = S1 at *
    generalize hS2 : (splitGE (prec o) ((o, t) :: S)).2 = S2 at *
    have hmem1 : ∀ x ∈ S1, x ∈ (o, t) :: S := fun x hx => by rw [← hsplit]; simp [hx]
    have hmem2 : ∀ x ∈ S2, x ∈ (o, t) :: S := fun x hx => by rw [← hsplit]; simp [hx]
    have hinc12 : nonInc (S1 ++ S2) := by rw [hsplit]; exact hinc
    have hinc1 : nonInc S1 := (List.pairwise_append.mp hinc12).1
    have hinc2 : nonInc S2 := (List.pairwise_append.mp hinc12).2.1
    have hge1 : ∀ x ∈ S1, prec o ≤ prec x.1 := by
      intro x hx; rw [← hS1] at hx; exact splitGE_fst (prec o) _ x hx
    have hstop1 : stopsAt (prec o) (spineToks S2 ++ rest) = true := by
      cases hS2' : S2 with
      | nil => simpa [spineToks] using stopsAt_mono (by omega) hr
      | cons x T =>
        have : prec x.1 < prec o := splitGE_snd_head (prec o) ((o, t) :: S) x T (by rw [hS2, hS2'])
        obtain ⟨ox, tx⟩ := x
        simpa [spineToks, stopsAt] using this
    have hlen2 : S2.length ≤ n := by
      have := splitGE_snd_length (prec o) S
      rw [hsnd1]; simp at hn; omega
    obtain ⟨N1, h1⟩ := outer_spine S1 rhs (prec o) (spineToks S2 ++ rest) hge1 hinc1
      (fun x hx => hread x (hmem1 x hx)) hstop1
    obtain ⟨N2, h2⟩ := inner_spine n S2 hlen2 (foldSpine rhs S1) p rest
      (fun x hx => hp x (hmem2 x hx)) hinc2 (fun x hx => hread x (hmem2 x hx)) hr
    refine ⟨max N1 N2 + 1, fun f hf => ?_⟩
    obtain ⟨f, rfl⟩ : ∃ g, f = g + 1 := ⟨f - 1, by omega⟩
    have e1 := h1 f (by omega)
    have e2 := h2 f (by omega)
    have htoks : spineToks ((o, t) :: S) ++ rest = spineToks S1 ++ (spineToks S2 ++ rest) := by
      rw [← hsplit, spineToks_append, List.append_assoc]
    have hhd : ∃ tl, spineToks S1 ++ (spineToks S2 ++ rest) = .op o :: tl := by
      rw [hfst1]; exact ⟨fmtToksOld t ++ (spineToks (splitGE (prec o) S).1 ++ (spineToks S2 ++ rest)), by simp [spineToks]⟩
    obtain ⟨tl, htl⟩ := hhd
    rw [htoks, htl]
    simp only [inner, hpo, if_true]
    rw [← htl, e1]
    simp only [Res.bind_ok]
    rw [e2, ← foldSpine_append, hsplit]

/-! ### Spines of canonical trees -/

theorem canon_spineOf : (e : Expr) → canon e = true →
    canon (spineOf e).1 = true ∧ nonInc (spineOf e).2 ∧
    (∀ x ∈ (spineOf e).2, canon x.2 = true ∧ okQ (prec x.1 + 1) x.2 = true) ∧
    (∀ q, okQ q e = true → ∀ x ∈ (spineOf e).2, q ≤ prec x.1)
  | .bin o l r false, h => by
    simp only [canon, Bool.and_eq_true] at h
    obtain ⟨⟨⟨hl, hr⟩, hol⟩, hor⟩ := h
    obtain ⟨i1, i2, i3, i4⟩ := canon_spineOf l hl
    refine ⟨by simpa [spineOf] using i1, ?_, ?_, ?_⟩
    · simp only [spineOf, nonInc]
      refine List.pairwise_append.mpr ⟨i2, by simp, ?_⟩
      intro a ha b hb
      simp at hb; subst hb
      exact i4 (prec o) hol a ha
    · intro x hx
      simp only [spineOf, List.mem_append, List.mem_singleton] at hx
      rcases hx with hx | rfl
      · exact i3 x hx
      · exact ⟨hr, hor⟩
    · intro q hq x hx
      simp only [okQ, decide_eq_true_eq] at hq
      simp only [spineOf, List.mem_append, List.mem_singleton] at hx
      rcases hx with hx | rfl
      · have := i4 (prec o) hol x hx; omega
      · exact hq
  | .bin _ _ _ true, h => by simp [spineOf, nonInc, h]
  | .lit _, h => by simp [spineOf, nonInc, h]
  | .id _, h => by simp [spineOf, nonInc, h]
  | .un _ _, h => by simp [spineOf, nonInc, h]
  | .call _ _, h => by simp [spineOf, nonInc, h]

theorem size_spineOf : (e : Expr) →
    size (spineOf e).1 ≤ size e ∧ (∀ x ∈ (spineOf e).2, size x.2 < size e) ∧
    (isBare e = true → size (spineOf e).1 < size e)
  | .bin o l r false => by
    obtain ⟨i1, i2, _⟩ := size_spineOf l
    refine ⟨by simp [spineOf, size]; omega, ?_, fun _ => by simp [spineOf, size]; omega⟩
    intro x hx
    simp only [spineOf, List.mem_append, List.mem_singleton] at hx
    rcases hx with hx | rfl
    · have := i2 x hx; simp [size]; omega
    · simp [size]; omega
  | .bin _ _ _ true => by simp [spineOf, isBare]
  | .lit _ => by simp [spineOf, isBare]
  | .id _ => by simp [spineOf, isBare]
  | .un _ _ => by simp [spineOf, isBare]
  | .call _ _ => by simp [spineOf, isBare]

theorem spineOf_not_bare {e : Expr} (h : isBare e = false) : spineOf e = (e, []) := by
  cases e with
  | bin o l r p => cases p <;> simp_all [isBare, spineOf]
  | _ => simp [spineOf]

/-! ### The printed text of an expression never starts with ')' -/

theorem fmtToksOld_head : (e : Expr) → ∀ rest, startsRp (fmtToksOld e ++ rest) = false
  | .lit _, _ => by simp [fmtToksOld, startsRp]
  | .id _, _ => by simp [fmtToksOld, startsRp]
  | .un .neg _, _ => by simp [fmtToksOld, startsRp]
  | .un .not _, _ => by simp [fmtToksOld, startsRp]
  | .call _ _, _ => by simp [fmtToksOld, startsRp]
  | .bin _ _ _ true, _ => by simp [fmtToksOld, startsRp]
  | .bin o l r false, rest => by
    have := fmtToksOld_head l ([Tok.op o] ++ fmtToksOld r ++ rest)
    simpa [fmtToksOld, List.append_assoc] using this

/-! ### The round trip -/

/-- `e` is read back by `primary` -/
def ReadsPrimary (e : Expr) : Prop :=
  ∀ rest, stopsAt 0 rest = true → ∃ N, ∀ f, N ≤ f → primary f (fmtToksOld e ++ rest) = .ok (e, rest)

/-- `e` is read back by `primaryExpr` -/
def ReadsExpr (e : Expr) : Prop :=
  ∀ rest, stopsAt 0 rest = true → ∃ N, ∀ f, N ≤ f → primaryExpr f (fmtToksOld e ++ rest) = .ok (e, rest)

/-- `lparameters` reads back an argument list -/
def ReadsArgs (args : List Expr) : Prop :=
  ∀ rest, ∃ N, ∀ f, N ≤ f → params f (fmtArgToksOld args ++ .rp :: rest) = .ok (args, .rp :: rest)

theorem stopsAt0_not_lp {rest : List Tok} (h : stopsAt 0 rest = true) : ∀ tl, rest ≠ .lp :: tl := by
  intro tl heq; subst heq; simp [stopsAt] at h

/-- from "the leftmost operand is read by primary" and "every right operand is read as an operand" to the whole
tree being read as an operand / as an expression -/
theorem reads_of_spine (e : Expr) (hc : canon e = true)
    (hp : ∀ rest, (∀ tl, rest ≠ .lp :: tl) → ∃ N, ∀ f, N ≤ f →
      primary f (fmtToksOld (spineOf e).1 ++ rest) = .ok ((spineOf e).1, rest))
    (hs : ∀ x ∈ (spineOf e).2, ReadsOperand x.2 (prec x.1)) :
    (∀ p, okQ (p + 1) e = true → ReadsOperand e p) ∧ ReadsExpr e := by
  obtain ⟨_, c2, _, c4⟩ := canon_spineOf e hc
  constructor
  · intro p hq rest hr
    have hnl : ∀ tl, spineToks (spineOf e).2 ++ rest ≠ .lp :: tl := by
      intro tl
      cases hS : (spineOf e).2 with
      | nil =>
        simp only [spineToks, List.nil_append]
        intro heq; subst heq; simp [stopsAt] at hr
      | cons x S => obtain ⟨o, t⟩ := x; simp [spineToks]
    obtain ⟨N1, h1⟩ := hp _ hnl
    obtain ⟨N2, h2⟩ := inner_spine _ (spineOf e).2 (Nat.le_refl _) (spineOf e).1 p rest
      (fun x hx => by have := c4 (p + 1) hq x hx; omega) c2 hs hr
    refine ⟨max N1 N2, fun f hf => ?_⟩
    have e1 := h1 f (by omega)
    have e2 := h2 f (by omega)
    rw [← toks_spineOf e, List.append_assoc, e1]
    simp only [Res.bind_ok]
    rw [e2, fold_spineOf]
  · intro rest hr
    have hnl : ∀ tl, spineToks (spineOf e).2 ++ rest ≠ .lp :: tl := by
      intro tl
      cases hS : (spineOf e).2 with
      | nil =>
        simp only [spineToks, List.nil_append]
        intro heq; subst heq; simp [stopsAt] at hr
      | cons x S => obtain ⟨o, t⟩ := x; simp [spineToks]
    obtain ⟨N1, h1⟩ := hp _ hnl
    obtain ⟨N2, h2⟩ := outer_spine (spineOf e).2 (spineOf e).1 0 rest (fun _ _ => Nat.zero_le _) c2 hs hr
    refine ⟨max N1 N2, fun f hf => ?_⟩
    have e1 := h1 f (by omega)
    have e2 := h2 f (by omega)
    rw [← toks_spineOf e, List.append_assoc, primaryExpr, e1]
    simp only [Res.bind_ok]
    rw [e2, fold_spineOf]

theorem primaryExpr_bind {β} (f : Nat) (ts : List Tok) (K : Expr × List Tok → Res β) :
    (primary f ts).bind (fun x => (outer f x.1 0 x.2).bind K) = (primaryExpr f ts).bind K := by
  rw [primaryExpr, Res.bind_assoc]

theorem reads_args : ∀ (args : List Expr), (∀ a ∈ args, ReadsExpr a) → ReadsArgs args
  | [], _ => by
    intro rest
    refine ⟨1, fun f hf => ?_⟩
    obtain ⟨f, rfl⟩ : ∃ g, f = g + 1 := ⟨f - 1, by omega⟩
    simp [fmtArgToksOld, params, startsRp]
  | [a], h => by
    intro rest
    obtain ⟨N, hN⟩ := h a (by simp) (.rp :: rest) (by simp [stopsAt])
    refine ⟨N + 1, fun f hf => ?_⟩
    obtain ⟨f, rfl⟩ : ∃ g, f = g + 1 := ⟨f - 1, by omega⟩
    have e1 := hN f (by omega)
    simp only [fmtArgToksOld, params, fmtToksOld_head, Bool.false_eq_true, if_false]
    rw [primaryExpr_bind, e1]
    simp
  | a :: b :: tl, h => by
    intro rest
    obtain ⟨N1, h1⟩ := h a (by simp) (.comma :: (fmtArgToksOld (b :: tl) ++ .rp :: rest)) (by simp [stopsAt])
    obtain ⟨N2, h2⟩ := reads_args (b :: tl) (fun x hx => h x (by simp [hx])) rest
    refine ⟨max N1 N2 + 1, fun f hf => ?_⟩
    obtain ⟨f, rfl⟩ : ∃ g, f = g + 1 := ⟨f - 1, by omega⟩
    have e1 := h1 f (by omega)
    have e2 := h2 f (by omega)
    simp only [fmtArgToksOld, List.append_assoc, List.cons_append, params, fmtToksOld_head,
      Bool.false_eq_true, if_false]
    rw [primaryExpr_bind, e1]
    simp [e2]

theorem size_pos : (e : Expr) → 0 < size e
  | .lit _ => by simp [size]
  | .id _ => by simp [size]
  | .un _ _ => by simp [size]
  | .bin _ _ _ _ => by simp [size]
  | .call _ _ => by simp [size]

theorem canonAll_mem : ∀ (args : List Expr), canonAll args = true → ∀ a ∈ args, canon a = true
  | [], _, a, ha => by simp at ha
  | x :: xs, h, a, ha => by
    simp only [canonAll, Bool.and_eq_true] at h
    simp at ha
    rcases ha with rfl | ha
    · exact h.1
    · exact canonAll_mem xs h.2 a ha

theorem sizeAll_mem : ∀ (args : List Expr), ∀ a ∈ args, size a < sizeAll args + 1
  | [], a, ha => by simp at ha
  | x :: xs, a, ha => by
    simp at ha
    rcases ha with rfl | ha
    · simp [sizeAll]; omega
    · have := sizeAll_mem xs a ha; simp [sizeAll]; omega

/-- The round trip, for every canonical tree: `primary` reads a non-bare tree, the operand reader and
`primaryExpr` read any tree – whatever follows, as long as it cannot continue the expression. -/
theorem roundtrip_all : ∀ (n : Nat) (e : Expr), size e ≤ n → canon e = true →
    (isBare e = false → ∀ rest, (∀ tl, rest ≠ .lp :: tl) → ∃ N, ∀ f, N ≤ f →
        primary f (fmtToksOld e ++ rest) = .ok (e, rest)) ∧
    (∀ p, okQ (p + 1) e = true → ReadsOperand e p) ∧ ReadsExpr e
  | 0, e, hs, _ => by have := size_pos e; omega
  | n + 1, e, hsz, hc => by
    -- the two readers for any strictly smaller or spine-decomposed tree
    have spineReads : ∀ e' : Expr, canon e' = true → isBare e' = true → size e' ≤ n + 1 →
        (∀ p, okQ (p + 1) e' = true → ReadsOperand e' p) ∧ ReadsExpr e' := by
      intro e' hc' hb' hs'
      obtain ⟨c1, _, c3, _⟩ := canon_spineOf e' hc'
      obtain ⟨_, z2, z3⟩ := size_spineOf e'
      refine reads_of_spine e' hc' ?_ ?_
      · exact (roundtrip_all n (spineOf e').1 (by have := z3 hb'; omega) c1).1 (spineOf_head_not_bare e')
      · intro x hx
        have := z2 x hx
        exact (roundtrip_all n x.2 (by omega) (c3 x hx).1).2.1 _ (c3 x hx).2
    have hprim : isBare e = false → ∀ rest, (∀ tl, rest ≠ .lp :: tl) → ∃ N, ∀ f, N ≤ f →
        primary f (fmtToksOld e ++ rest) = .ok (e, rest) := by
      intro hb rest hnl
      match e, hsz, hc, hb with
      | .lit a, _, _, _ =>
        refine ⟨1, fun f hf => ?_⟩
        obtain ⟨f, rfl⟩ : ∃ g, f = g + 1 := ⟨f - 1, by omega⟩
        simp [fmtToksOld, primary]
      | .id s, _, _, _ =>
        refine ⟨1, fun f hf => ?_⟩
        obtain ⟨f, rfl⟩ : ∃ g, f = g + 1 := ⟨f - 1, by omega⟩
        cases rest with
        | nil => simp [fmtToksOld, primary]
        | cons t ts =>
          cases t <;> first | (exact absurd rfl (hnl ts)) | simp [fmtToksOld, primary]
      | .un op e', hsz, hc, _ =>
        simp only [canon, Bool.and_eq_true, Bool.not_eq_true'] at hc
        have hs' : size e' ≤ n := by simp [size] at hsz; omega
        obtain ⟨N, hN⟩ := (roundtrip_all n e' hs' hc.1).1 hc.2 rest hnl
        refine ⟨N + 1, fun f hf => ?_⟩
        obtain ⟨f, rfl⟩ : ∃ g, f = g + 1 := ⟨f - 1, by omega⟩
        have e1 := hN f (by omega)
        cases op <;> simp [fmtToksOld, primary, e1]
      | .bin o l r true, hsz, hc, _ =>
        have hc0 : canon (.bin o l r false) = true := by simpa [canon] using hc
        have hs0 : size (.bin o l r false) ≤ n + 1 := by simpa [size] using hsz
        obtain ⟨N, hN⟩ := (spineReads (.bin o l r false) hc0 rfl hs0).2 (.rp :: rest) (by simp [stopsAt])
        refine ⟨N + 1, fun f hf => ?_⟩
        obtain ⟨f, rfl⟩ : ∃ g, f = g + 1 := ⟨f - 1, by omega⟩
        have e1 := hN f (by omega)
        have ht : fmtToksOld (.bin o l r true) ++ rest = .lp :: (fmtToksOld (.bin o l r false) ++ .rp :: rest) := by
          simp [fmtToksOld, List.append_assoc]
        rw [ht]
        simp only [primary]
        rw [primaryExpr_bind, e1]
        simp [expectRp, setParens]
      | .call s args, hsz, hc, _ =>
        have hca : canonAll args = true := by simpa [canon] using hc
        have hra : ReadsArgs args := reads_args args (fun a ha => by
          have h1 := sizeAll_mem args a ha
          have : size a ≤ n := by simp [size] at hsz; omega
          exact (roundtrip_all n a this (canonAll_mem args hca a ha)).2.2)
        obtain ⟨N, hN⟩ := hra rest
        refine ⟨N + 1, fun f hf => ?_⟩
        obtain ⟨f, rfl⟩ : ∃ g, f = g + 1 := ⟨f - 1, by omega⟩
        have e1 := hN f (by omega)
        have ht : fmtToksOld (.call s args) ++ rest = .id s :: .lp :: (fmtArgToksOld args ++ .rp :: rest) := by
          simp [fmtToksOld, List.append_assoc]
        rw [ht]
        simp only [primary, e1]
        simp [expectRp]
    refine ⟨hprim, ?_⟩
    cases hb : isBare e with
    | true => exact spineReads e hc hb hsz
    | false =>
      have hsp := spineOf_not_bare hb
      refine reads_of_spine e hc ?_ ?_
      · rw [hsp]; exact hprim hb
      · rw [hsp]; intro x hx; simp at hx

end Kap.C13
