/-
C13: the repaired formatter (`fmtToksP`: Parens flag OR the parentheses the operand needs) is the flag-driven
printer applied to a canonical tree that differs from the input in Parens flags only.
-/
import Kap.Proofs.C13

namespace Kap.C13
open Kap.C13.Gen

/-- set the Parens flag when asked to (what `formatOperand` does for a BinaryNode) -/
def mark (b : Bool) : Expr → Expr
  | .bin o l r p => .bin o l r (p || b)
  | e => e

mutual
/-- the tree whose flag-driven print-out is the repaired formatter's output -/
def canonize : Expr → Expr
  | .lit a => .lit a
  | .id s => .id s
  | .un op e => .un op (mark true (canonize e))
  | .bin o l r p =>
    .bin o (mark (needsParens l o false) (canonize l)) (mark (needsParens r o true) (canonize r)) p
  | .call f args => .call f (canonizeAll args)
def canonizeAll : List Expr → List Expr
  | [] => []
  | a :: rest => canonize a :: canonizeAll rest
end

mutual
/-- forget every Parens flag -/
def erase : Expr → Expr
  | .lit a => .lit a
  | .id s => .id s
  | .un op e => .un op (erase e)
  | .bin o l r _ => .bin o (erase l) (erase r) false
  | .call f args => .call f (eraseAll args)
def eraseAll : List Expr → List Expr
  | [] => []
  | a :: rest => erase a :: eraseAll rest
end

theorem erase_mark (b : Bool) (e : Expr) : erase (mark b e) = erase e := by
  cases e <;> simp [mark, erase]

mutual
theorem erase_canonize : (e : Expr) → erase (canonize e) = erase e
  | .lit _ => by simp [canonize]
  | .id _ => by simp [canonize]
  | .un _ e => by simp [canonize, erase, erase_mark, erase_canonize e]
  | .bin _ l r _ => by simp [canonize, erase, erase_mark, erase_canonize l, erase_canonize r]
  | .call _ args => by simp [canonize, erase, eraseAll_canonizeAll args]
theorem eraseAll_canonizeAll : (args : List Expr) → eraseAll (canonizeAll args) = eraseAll args
  | [] => by simp [canonizeAll]
  | a :: rest => by simp [canonizeAll, eraseAll, erase_canonize a, eraseAll_canonizeAll rest]
end

mutual
theorem fmtToksP_eq : (e : Expr) → (extra : Bool) → fmtToksP e extra = fmtToksOld (mark extra (canonize e))
  | .lit _, _ => by simp [fmtToksP, canonize, mark, fmtToksOld]
  | .id _, _ => by simp [fmtToksP, canonize, mark, fmtToksOld]
  | .un .neg e, _ => by simp [fmtToksP, canonize, mark, fmtToksOld, fmtToksP_eq e true]
  | .un .not e, _ => by simp [fmtToksP, canonize, mark, fmtToksOld, fmtToksP_eq e true]
  | .bin o l r p, extra => by
    simp [fmtToksP, canonize, mark, fmtToksOld, fmtToksP_eq l, fmtToksP_eq r]
  | .call _ args, _ => by simp [fmtToksP, canonize, mark, fmtToksOld, fmtArgToks_eq args]
theorem fmtArgToks_eq : (args : List Expr) → fmtArgToks args = fmtArgToksOld (canonizeAll args)
  | [] => by simp [fmtArgToks, canonizeAll, fmtArgToksOld]
  | [a] => by
    have := fmtToksP_eq a false
    cases h : canonize a <;> simp_all [fmtArgToks, canonizeAll, fmtArgToksOld, mark]
  | a :: b :: rest => by
    have h1 := fmtToksP_eq a false
    have h2 := fmtArgToks_eq (b :: rest)
    have hm : mark false (canonize a) = canonize a := by cases canonize a <;> simp [mark]
    rw [hm] at h1
    simp only [canonizeAll] at h2
    simp [fmtArgToks, canonizeAll, fmtArgToksOld, h1, h2]
end

theorem canon_mark (b : Bool) (e : Expr) : canon (mark b e) = canon e := by
  cases e <;> simp [mark, canon]

theorem isBare_mark_true (e : Expr) : isBare (mark true e) = false := by
  cases e <;> simp [mark, isBare]

theorem okQ_left (o : BinOp) (l : Expr) : okQ (prec o) (mark (needsParens l o false) (canonize l)) = true := by
  cases l with
  | bin ol a b p =>
    simp only [canonize, mark, needsParens, okQ]
    cases p <;> by_cases h : prec ol < prec o <;> simp [h] <;> omega
  | _ => simp [canonize, mark, okQ]

theorem okQ_right (o : BinOp) (r : Expr) : okQ (prec o + 1) (mark (needsParens r o true) (canonize r)) = true := by
  cases r with
  | bin or' a b p =>
    simp only [canonize, mark, needsParens, okQ]
    cases p <;> by_cases h : prec or' ≤ prec o <;> simp [h] <;> omega
  | _ => simp [canonize, mark, okQ]

mutual
theorem canon_canonize : (e : Expr) → canon (canonize e) = true
  | .lit _ => by simp [canonize, canon]
  | .id _ => by simp [canonize, canon]
  | .un _ e => by simp [canonize, canon, canon_mark, canon_canonize e, isBare_mark_true]
  | .bin o l r _ => by
    simp [canonize, canon, canon_mark, canon_canonize l, canon_canonize r, okQ_left, okQ_right]
  | .call _ args => by simp [canonize, canon, canonAll_canonizeAll args]
theorem canonAll_canonizeAll : (args : List Expr) → canonAll (canonizeAll args) = true
  | [] => by simp [canonizeAll, canonAll]
  | a :: rest => by simp [canonizeAll, canonAll, canon_canonize a, canonAll_canonizeAll rest]
end

/-- on a canonical tree nothing needs to be added -/
theorem mark_of_okQ_left (o : BinOp) (l : Expr) (h : okQ (prec o) l = true) : mark (needsParens l o false) l = l := by
  cases l with
  | bin ol a b p =>
    cases p
    · simp only [okQ, decide_eq_true_eq] at h
      have : ¬ prec ol < prec o := by omega
      simp [mark, needsParens, this]
    · simp [mark]
  | _ => simp [mark]

theorem mark_of_okQ_right (o : BinOp) (r : Expr) (h : okQ (prec o + 1) r = true) : mark (needsParens r o true) r = r := by
  cases r with
  | bin or' a b p =>
    cases p
    · simp only [okQ, decide_eq_true_eq] at h
      have : ¬ prec or' ≤ prec o := by omega
      simp [mark, needsParens, this]
    · simp [mark]
  | _ => simp [mark]

theorem mark_true_of_not_bare (e : Expr) (h : isBare e = false) : mark true e = e := by
  cases e with
  | bin o l r p => cases p <;> simp_all [isBare, mark]
  | _ => simp [mark]

theorem needsParens_canonize (x : Expr) (o : BinOp) (b : Bool) : needsParens (canonize x) o b = needsParens x o b := by
  cases x <;> simp [canonize, needsParens]

mutual
theorem canonize_of_canon : (e : Expr) → canon e = true → canonize e = e
  | .lit _, _ => by simp [canonize]
  | .id _, _ => by simp [canonize]
  | .un _ e, h => by
    simp only [canon, Bool.and_eq_true, Bool.not_eq_true'] at h
    simp [canonize, canonize_of_canon e h.1, mark_true_of_not_bare e h.2]
  | .bin o l r _, h => by
    simp only [canon, Bool.and_eq_true] at h
    obtain ⟨⟨⟨hl, hr⟩, hol⟩, hor⟩ := h
    simp [canonize, canonize_of_canon l hl, canonize_of_canon r hr, mark_of_okQ_left o l hol, mark_of_okQ_right o r hor]
  | .call _ args, h => by
    have : canonAll args = true := by simpa [canon] using h
    simp [canonize, canonizeAll_of_canon args this]
theorem canonizeAll_of_canon : (args : List Expr) → canonAll args = true → canonizeAll args = args
  | [], _ => by simp [canonizeAll]
  | a :: rest, h => by
    simp only [canonAll, Bool.and_eq_true] at h
    simp [canonizeAll, canonize_of_canon a h.1, canonizeAll_of_canon rest h.2]
end

end Kap.C13
