/-
C13: the `newX` decoders of node.go (newNumber, newDur, newString, newReference, newRegex) invert the texts
that Format prints for the operands (`atomText`): decimal / octal integers, formatted durations, single- and
triple-quoted strings, references and regex literals.
-/
import Kap.Proofs.C13Lit
namespace Kap.C13
open Kap.C13.Gen
theorem decToString_ofNat (n : Nat) : toString (n : Int) = String.ofList (Nat.toDigits 10 n) := rfl
theorem decToString_negSucc (n : Nat) : toString (Int.negSucc n) = "-" ++ String.ofList (Nat.toDigits 10 (n+1)) := rfl
theorem atomText_int10_nat (n : Nat) : atomText (.num (.int 10 (n : Int))) = Nat.toDigits 10 n := by
  simp only [atomText, fmtAtom, fmtNum, decToString_ofNat]
  simp

theorem atomText_int10_neg (n : Nat) : atomText (.num (.int 10 (Int.negSucc n))) = '-' :: Nat.toDigits 10 (n + 1) := by
  simp only [atomText, fmtAtom, fmtNum, decToString_negSucc]
  simp

theorem atomText_oct (n : Nat) : atomText (.num (.int 8 (n : Int))) = '0' :: Nat.toDigits 8 n := by
  have h : ¬ ((n : Int) < 0) := by omega
  simp [atomText, fmtAtom, fmtNum, octal, h]
theorem atomText_flt (c : String) : atomText (.num (.flt c)) = c.toList := by
  simp [atomText, fmtAtom, fmtNum]

theorem isDigit_eq_core (c : Char) : Kap.C13.isDigit c = c.isDigit := by
  simp only [Kap.C13.isDigit, Char.isDigit, Char.le_def, ge_iff_le]

theorem isDigit_digitChar (d : Nat) (h : d < 10) : Kap.C13.isDigit (Nat.digitChar d) = true := by
  rw [isDigit_eq_core]; simp [h]

theorem digitVal_digitChar (d : Nat) (h : d < 10) : digitVal (Nat.digitChar d) = d := by
  have := Nat.toNat_digitChar_sub_48_of_lt_ten h
  simpa [digitVal] using this

theorem toDigits_digits (b : Nat) (hb : b = 8 ∨ b = 10) (n : Nat) :
    Nat.toDigits b n ≠ [] ∧ ∀ c ∈ Nat.toDigits b n, Kap.C13.isDigit c = true := by
  refine ⟨Nat.toDigits_ne_nil, fun c hc => ?_⟩
  rw [isDigit_eq_core]
  exact Nat.isDigit_of_mem_toDigits (by omega) (by omega) hc

theorem decHead?_append_ne_nil {α} (l m : List α) (h : l ≠ []) : (l ++ m).head? = l.head? := by
  cases l with
  | nil => exact absurd rfl h
  | cons a t => rfl

theorem toDigits10_head (n : Nat) (h : 0 < n) : (Nat.toDigits 10 n).head? ≠ some '0' := by
  induction n using Nat.strongRecOn with
  | _ n ih =>
    rw [Nat.toDigits_eq_if (by decide)]
    split
    · simp; omega
    · have h2 : 0 < n / 10 := by omega
      have := ih (n / 10) (by omega) h2
      rw [decHead?_append_ne_nil _ _ Nat.toDigits_ne_nil]
      exact this

/-- the step of `parseNat` -/
def decPstep (base : Nat) (acc : Option Nat) (c : Char) : Option Nat :=
  match acc with
  | none => none
  | some n => if isDigit c && digitVal c < base then some (n * base + digitVal c) else none

theorem parseNat_eq (base : Nat) (cs : List Char) :
    parseNat base cs = if cs.isEmpty then none else cs.foldl (decPstep base) (some 0) := rfl

theorem decPfold_toDigits (b : Nat) (hb : b = 8 ∨ b = 10) (n : Nat) :
    (Nat.toDigits b n).foldl (decPstep b) (some 0) = some n := by
  have hb1 : 1 < b := by omega
  induction n using Nat.strongRecOn with
  | _ n ih =>
    rw [Nat.toDigits_eq_if hb1]
    split
    · rename_i hlt
      have h10 : n < 10 := by omega
      simp [decPstep, isDigit_digitChar n h10, digitVal_digitChar n h10, hlt]
    · rename_i hge
      have h10 : n % b < 10 := by have := Nat.mod_lt n (by omega : 0 < b); omega
      have hlt : n % b < b := Nat.mod_lt n (by omega)
      rw [List.foldl_append, ih (n / b) (Nat.div_lt_self (by omega) hb1)]
      simp [decPstep, isDigit_digitChar _ h10, digitVal_digitChar _ h10, hlt]
      exact Nat.div_add_mod' n b

theorem parseNat_toDigits (b : Nat) (hb : b = 8 ∨ b = 10) (n : Nat) : parseNat b (Nat.toDigits b n) = some n := by
  rw [parseNat_eq, decPfold_toDigits b hb n]
  simp

theorem decToString_nonneg (x : Int) (h : 0 ≤ x) : (toString x).toList = Nat.toDigits 10 x.toNat := by
  obtain ⟨m, rfl⟩ := Int.eq_ofNat_of_zero_le h
  rw [decToString_ofNat]; simp

theorem formatDuration_form (d : Int) (h0 : 0 ≤ d) (hu : d % 1000 = 0) :
    ∃ (n : Nat) (u : List Char) (k : Int), (formatDuration d).toList = Nat.toDigits 10 n ++ u ∧ unitNs u = some k ∧
      (n : Int) * k = d ∧ (u = ['w'] ∨ u = ['d'] ∨ u = ['h'] ∨ u = ['m'] ∨ u = ['s'] ∨ u = ['m', 's'] ∨ u = ['u']) := by
  unfold formatDuration
  simp only [Int.tdiv_eq_ediv_of_nonneg h0, Int.tmod_eq_emod_of_nonneg h0]
  split
  · exact ⟨0, ['s'], 1000000000, by simp, rfl, by omega, by simp⟩
  split
  · exact ⟨(d / 604800000000000).toNat, ['w'], 604800000000000,
      by rw [String.toList_append, decToString_nonneg _ (by omega)]; rfl, rfl, by omega, by simp⟩
  split
  · exact ⟨(d / 86400000000000).toNat, ['d'], 86400000000000,
      by rw [String.toList_append, decToString_nonneg _ (by omega)]; rfl, rfl, by omega, by simp⟩
  split
  · exact ⟨(d / 3600000000000).toNat, ['h'], 3600000000000,
      by rw [String.toList_append, decToString_nonneg _ (by omega)]; rfl, rfl, by omega, by simp⟩
  split
  · exact ⟨(d / 60000000000).toNat, ['m'], 60000000000,
      by rw [String.toList_append, decToString_nonneg _ (by omega)]; rfl, rfl, by omega, by simp⟩
  split
  · exact ⟨(d / 1000000000).toNat, ['s'], 1000000000,
      by rw [String.toList_append, decToString_nonneg _ (by omega)]; rfl, rfl, by omega, by simp⟩
  split
  · exact ⟨(d / 1000000).toNat, ['m', 's'], 1000000,
      by rw [String.toList_append, decToString_nonneg _ (by omega)]; rfl, rfl, by omega, by simp⟩
  exact ⟨(d / 1000).toNat, ['u'], 1000,
      by rw [String.toList_append, decToString_nonneg _ (by omega)]; rfl, rfl, by omega, by simp⟩

theorem dot_not_mem_toDigits (b : Nat) (hb : b = 8 ∨ b = 10) (n : Nat) : (Nat.toDigits b n).contains '.' = false := by
  cases h : (Nat.toDigits b n).contains '.' with
  | false => rfl
  | true =>
    have hm : '.' ∈ Nat.toDigits b n := by simpa using h
    have := (toDigits_digits b hb n).2 _ hm
    exact absurd this (by decide)

theorem parseInt64_toDigits (b : Nat) (hb : b = 8 ∨ b = 10) (n : Nat) (h : (n : Int) ≤ int64Max) :
    parseInt64 b (Nat.toDigits b n) = some (n : Int) := by
  simp [parseInt64, parseNat_toDigits b hb n, h]

theorem newNumber_int10 (n : Nat) (h : (n : Int) ≤ int64Max) : newNumber (String.ofList (Nat.toDigits 10 n)) = .ok (.int 10 n) := by
  have hne : (Nat.toDigits 10 n).isEmpty = false := by
    cases hd : Nat.toDigits 10 n with
    | nil => exact absurd hd Nat.toDigits_ne_nil
    | cons a t => rfl
  have hbase : ((Nat.toDigits 10 n).head? = some '0' && decide ((Nat.toDigits 10 n).length > 1)) = false := by
    rcases Nat.eq_zero_or_pos n with rfl | hp
    · simp
    · have := toDigits10_head n hp
      simp [this]
  unfold newNumber
  simp only [String.toList_ofList, hne, dot_not_mem_toDigits 10 (Or.inr rfl) n, hbase,
    Bool.false_eq_true, if_false]
  rw [parseInt64_toDigits 10 (Or.inr rfl) n h]

theorem parseNat_zero_cons (b : Nat) (hb : b = 8 ∨ b = 10) (ds : List Char) (hne : ds ≠ []) :
    parseNat b ('0' :: ds) = parseNat b ds := by
  have h0 : decPstep b (some 0) '0' = some 0 := by
    rcases hb with rfl | rfl <;> decide
  cases ds with
  | nil => exact absurd rfl hne
  | cons a t =>
    rw [parseNat_eq, parseNat_eq]
    simp only [List.isEmpty_cons, Bool.false_eq_true, if_false]
    rw [List.foldl_cons, h0]

theorem newNumber_oct (n : Nat) (h : (n : Int) ≤ int64Max) : newNumber (String.ofList ('0' :: Nat.toDigits 8 n)) = .ok (.int 8 n) := by
  have hlen : (Nat.toDigits 8 n).length > 0 := Nat.length_toDigits_pos
  have hbase : ((('0' :: Nat.toDigits 8 n).head? = some '0') && decide (('0' :: Nat.toDigits 8 n).length > 1)) = true := by
    simp; omega
  have hdot : ('0' :: Nat.toDigits 8 n).contains '.' = false := by
    rw [List.contains_cons, dot_not_mem_toDigits 8 (Or.inl rfl) n]; decide
  have hp : parseInt64 8 ('0' :: Nat.toDigits 8 n) = some (n : Int) := by
    have := parseInt64_toDigits 8 (Or.inl rfl) n h
    unfold parseInt64 at this ⊢
    rw [parseNat_zero_cons 8 (Or.inl rfl) _ Nat.toDigits_ne_nil]
    exact this
  unfold newNumber
  simp only [String.toList_ofList, List.isEmpty_cons, hdot, hbase, Bool.false_eq_true, if_false, if_true]
  rw [hp]

theorem wrap64_id (x : Int) (h0 : 0 ≤ x) (h1 : x ≤ int64Max) : wrap64 x = x := by
  unfold int64Max at h1
  unfold wrap64
  have hm : x % 18446744073709551616 = x := by omega
  simp only [hm]
  split
  · omega
  · rfl

/-- the units of `unitNs` -/
theorem unitNs_cases (u : List Char) (k : Int) (hk : unitNs u = some k) :
    (u = ['u'] ∨ u = ['µ'] ∨ u = ['m', 's'] ∨ u = ['s'] ∨ u = ['m'] ∨ u = ['h'] ∨ u = ['d'] ∨ u = ['w']) ∧ 1000 ≤ k := by
  unfold unitNs at hk
  split at hk <;> simp at hk <;> subst hk <;> simp

theorem decUnit_split (u : List Char) (k : Int) (hk : unitNs u = some k) :
    u.takeWhile isDigit = [] ∧ u.dropWhile isDigit = u := by
  rcases (unitNs_cases u k hk).1 with rfl | rfl | rfl | rfl | rfl | rfl | rfl | rfl <;> decide

theorem newDur_of_form (n : Nat) (u : List Char) (k : Int) (hk : unitNs u = some k) (h : (n : Int) * k ≤ int64Max) :
    newDur (String.ofList (Nat.toDigits 10 n ++ u)) = .ok ((n : Int) * k) := by
  have hdig := (toDigits_digits 10 (Or.inr rfl) n).2
  have hk1 := (unitNs_cases u k hk).2
  have hn0 : (0 : Int) ≤ n := Int.natCast_nonneg n
  have hnk0 : 0 ≤ (n : Int) * k := Int.mul_nonneg hn0 (by omega)
  have hnle : (n : Int) ≤ (n : Int) * k := by
    have := Int.mul_le_mul_of_nonneg_left (show (1 : Int) ≤ k by omega) hn0
    simpa using this
  have hn : (n : Int) ≤ int64Max := Int.le_trans hnle h
  obtain ⟨ht, hd⟩ := decUnit_split u k hk
  unfold newDur
  simp only [String.toList_ofList, List.takeWhile_append_of_pos hdig, List.dropWhile_append_of_pos hdig, ht, hd,
    List.append_nil, parseInt64_toDigits 10 (Or.inr rfl) n hn, hk, wrap64_id _ hnk0 h]
  simp [Int.not_lt.mpr hnk0]

theorem newDur_formatDuration (d : Int) (h0 : 0 ≤ d) (h1 : d ≤ int64Max) (hu : d % 1000 = 0) : newDur (formatDuration d) = .ok d := by
  obtain ⟨n, u, k, hf, hk, hnk, _⟩ := formatDuration_form d h0 hu
  have : formatDuration d = String.ofList (Nat.toDigits 10 n ++ u) := by
    rw [← hf]; simp
  rw [this, newDur_of_form n u k hk (by rw [hnk]; exact h1), hnk]

theorem decTake_body {α} (L : List α) (x : List α) (k : Nat) (hk : k = L.length) : (L ++ x).take k = L := by
  subst hk; exact List.take_left' rfl

theorem newString_single (l : List Char) : newString ('\'' :: (escQ '\'' l ++ ['\''])) = (l, false) := by
  have hcond : (decide (('\'' :: (escQ '\'' l ++ ['\''])).length ≥ 6) &&
      decide (('\'' :: (escQ '\'' l ++ ['\''])).take 3 = ['\'', '\'', '\''])) = false := by
    cases he : escQ '\'' l with
    | nil => simp
    | cons c t =>
      have hc : c ≠ '\'' := by
        intro hc; subst hc; exact escQ_head '\'' (by decide) l t he
      simp [hc]
  unfold newString
  simp only [hcond, Bool.false_eq_true, if_false, List.drop_succ_cons, List.drop_zero]
  rw [decTake_body _ _ _ (by simp), unescQ_escQ '\'' (by decide)]

theorem newString_triple (l : List Char) : newString ('\'' :: '\'' :: '\'' :: (l ++ ['\'', '\'', '\''])) = (l, true) := by
  have hcond : (decide (('\'' :: '\'' :: '\'' :: (l ++ ['\'', '\'', '\''])).length ≥ 6) &&
      decide (('\'' :: '\'' :: '\'' :: (l ++ ['\'', '\'', '\''])).take 3 = ['\'', '\'', '\''])) = true := by
    simp
  unfold newString
  simp only [hcond, if_true, List.drop_succ_cons, List.drop_zero]
  rw [decTake_body _ _ _ (by simp)]

theorem newReference_fmt (s : List Char) : newReference ('"' :: (escQ '"' s ++ ['"'])) = s := by
  unfold newReference
  simp only [List.drop_succ_cons, List.drop_zero]
  rw [decTake_body _ _ _ (by simp), unescQ_escQ '"' (by decide)]

theorem newRegex_fmt (L : List Char) : newRegex ('/' :: (L ++ ['/'])) = (unescQ '/' L, L) := by
  unfold newRegex
  simp only [List.drop_succ_cons, List.drop_zero]
  rw [decTake_body _ _ _ (by simp)]

end Kap.C13
