/-
C13, character level, the DECODE step: the raw tokens of the printed text, run through the `newX` constructors
the parser calls (`decodeAll`), are the decoded tokens of the NORMALISED tree: literals carry the spelling that
was printed (duration and regex literals filled in, the quoting that was chosen), a negative number is the
unary minus applied to its absolute value. Together with `lex_fmtCharsS` this is `lexer_decodes_formatted`.
-/
import Kap.Proofs.C13LexCheck
import Kap.Proofs.C13Image

namespace Kap.C13
open Kap.C13.Gen

/-- the atom the parser builds from the printed token of `a` -/
def normAtom : Atom → Atom
  | .dur ns lit => .dur ns (if lit.isEmpty then formatDuration ns else lit)
  | .str l t => .str l (useTriple l.toList t)
  | .rx re lit => .rx re (regexLiteral re lit)
  | a => a

/-- the tree the parser builds from the printed token(s) of `a`: `-5` is `-(5)` -/
def normLit (a : Atom) : Expr :=
  match a with
  | .num (.int base (Int.negSucc n)) =>
    if base = 10 then .un .neg (.lit (.num (.int 10 ((n + 1 : Nat) : Int)))) else .lit a
  | .num (.flt c) =>
    match fltNegText c.toList with
    | some t => .un .neg (.lit (.num (.flt (String.ofList t))))
    | none => .lit a
  | .dur ns lit =>
    if lit.isEmpty && decide (ns < 0) then .un .neg (.lit (.dur (-ns) (formatDuration (-ns))))
    else .lit (normAtom a)
  | a => .lit (normAtom a)

mutual
def norm : Expr → Expr
  | .lit a => normLit a
  | .id s => .id s
  | .un op e => .un op (norm e)
  | .bin o l r p => .bin o (norm l) (norm r) p
  | .call f args => .call f (normAll args)
def normAll : List Expr → List Expr
  | [] => []
  | a :: rest => norm a :: normAll rest
end

/-- the bracket check standing in for regexp.Compile in `decode` -/
def rxValidB (re : List Char) : Bool :=
  !(re.count '[' != re.count ']' || re.count '(' != re.count ')' || re.isEmpty)

/-- a float text in the canonical spelling `newNumber` reproduces -/
def fltDecOK (t : List Char) : Bool := t.contains '.' && decide (canonFloat t = .ok (String.ofList t))

/-- the printed token of the atom decodes to the atom's own value (decidable): integers within int64, floats
in canonical spelling, durations a multiple of 1us within int64 (or a literal that denotes the value), a regex
literal that denotes the regex -/
def atomDecOK : Atom → Bool
  | .bool _ => true
  | .ref _ => true
  | .str _ _ => true
  | .star => true
  | .num (.int base v) =>
    (decide (base = 10) && decide (-int64Max ≤ v) && decide (v ≤ int64Max)) ||
    (decide (base = 8) && decide (0 ≤ v) && decide (v ≤ int64Max))
  | .num (.flt c) => fltDecOK ((fltNegText c.toList).getD c.toList)
  | .dur ns lit =>
    if lit.isEmpty then decide (-int64Max ≤ ns) && decide (ns ≤ int64Max) && decide (ns % 1000 = 0)
    else decide (newDur lit = .ok ns)
  | .rx re lit => decide (unescQ '/' (regexLiteral re lit).toList = re.toList) && rxValidB re.toList

mutual
def decOK : Expr → Bool
  | .lit a => atomDecOK a
  | .id _ => true
  | .un _ e => decOK e
  | .bin _ l r _ => decOK l && decOK r
  | .call _ args => decOKAll args
def decOKAll : List Expr → Bool
  | [] => true
  | a :: rest => decOK a && decOKAll rest
end

/-! ### atoms -/

theorem decodeAll_single (t : RTok) (x : Tok) (h : decode t = .ok x) : decodeAll [t] = .ok [x] := by
  simp [decodeAll, h]

theorem decodeAll_cons (t : RTok) (x : Tok) (a : List RTok) (a' : List Tok) (ht : decode t = .ok x)
    (ha : decodeAll a = .ok a') : decodeAll (t :: a) = .ok (x :: a') := by
  simp [decodeAll, ht, ha]

theorem decode_bool (v : Bool) : decode (atomRaw (.bool v)) = .ok (.lit (.bool v)) := by
  cases v <;> rfl

theorem decode_ref (s : String) : decode (atomRaw (.ref s)) = .ok (.lit (.ref s)) := by
  simp [atomRaw, decode, atomText_ref, newReference_fmt]

theorem decode_str (l : String) (t : Bool) :
    decode (atomRaw (.str l t)) = .ok (.lit (.str l (useTriple l.toList t))) := by
  cases hu : useTriple l.toList t with
  | true =>
    simp [atomRaw, decode, atomText_str_triple l t hu, newString_triple]
  | false =>
    have ht : atomText (.str l t) = '\'' :: (escQ '\'' l.toList ++ ['\'']) := by
      simp [atomText, fmtAtom, fmtString, hu]
    simp [atomRaw, decode, ht, newString_single]

theorem decode_star : decode (atomRaw .star) = .ok (.lit .star) := rfl

theorem decode_rx (re lit : String) (h1 : unescQ '/' (regexLiteral re lit).toList = re.toList)
    (h2 : rxValidB re.toList = true) :
    decode (atomRaw (.rx re lit)) = .ok (.lit (.rx re (regexLiteral re lit))) := by
  simp only [rxValidB, Bool.not_eq_true'] at h2
  simp [atomRaw, decode, atomText_rx, newRegex_fmt, h1, h2]

theorem decode_dur_value (ns : Int) (lit : String) (hl : lit.isEmpty = true) (h0 : 0 ≤ ns) (h1 : ns ≤ int64Max)
    (hu : ns % 1000 = 0) : decode (atomRaw (.dur ns lit)) = .ok (.lit (.dur ns (formatDuration ns))) := by
  have ht : atomText (.dur ns lit) = (formatDuration ns).toList := by simp [atomText, fmtAtom, hl]
  simp [atomRaw, decode, ht, newDur_formatDuration ns h0 h1 hu]

theorem decode_dur_lit (ns : Int) (lit : String) (hl : lit.isEmpty = false) (h : newDur lit = .ok ns) :
    decode (atomRaw (.dur ns lit)) = .ok (.lit (.dur ns lit)) := by
  have ht : atomText (.dur ns lit) = lit.toList := by simp [atomText, fmtAtom, hl]
  simp [atomRaw, decode, ht, h]

theorem decode_flt (t : List Char) (h : fltDecOK t = true) :
    decode (.number (String.ofList t)) = .ok (.lit (.num (.flt (String.ofList t)))) := by
  simp only [fltDecOK, Bool.and_eq_true, decide_eq_true_eq] at h
  obtain ⟨h1, h2⟩ := h
  have hemp : t.isEmpty = false := by
    cases t with
    | nil => simp at h1
    | cons _ _ => rfl
  simp only [decode, newNumber, String.toList_ofList, hemp, h1, h2]
  simp

/-- the raw token(s) of an operand decode to the token(s) of its normal form -/
theorem decode_atomRaws (a : Atom) (h : atomDecOK a = true) (x : Bool) :
    decodeAll (atomRaws a) = .ok (fmtToksP (normLit a) x) := by
  cases a with
  | bool v => exact decodeAll_single _ _ (decode_bool v)
  | ref s => exact decodeAll_single _ _ (decode_ref s)
  | str l t => exact decodeAll_single _ _ (decode_str l t)
  | star => exact decodeAll_single _ _ decode_star
  | rx re lit =>
    simp only [atomDecOK, Bool.and_eq_true, decide_eq_true_eq] at h
    exact decodeAll_single _ _ (decode_rx re lit h.1 h.2)
  | dur ns lit =>
    simp only [atomDecOK] at h
    split at h
    · rename_i hl
      simp only [Bool.and_eq_true, decide_eq_true_eq] at h
      by_cases h0 : 0 ≤ ns
      · obtain ⟨n, u, k, hform, _, _, _⟩ := formatDuration_form ns h0 h.2
        have hd := digitsOK_toDigits 10 (Or.inr rfl) n
        obtain ⟨c, t, hct, hc⟩ := digitsOK_head hd
        have ht : atomText (.dur ns lit) = (formatDuration ns).toList := by simp [atomText, fmtAtom, hl]
        have hr : atomRaws (.dur ns lit) = [atomRaw (.dur ns lit)] := by
          simp only [atomRaws, atomRaw, ht, hform, hct, List.cons_append]
          exact splitMinus_other _ c _ (digit_ne c '-' hc (by decide))
        rw [hr]
        have := decodeAll_single _ _ (decode_dur_value ns lit hl h0 h.1.2 h.2)
        have hneg : ¬ ns < 0 := by omega
        simpa [normLit, normAtom, fmtToksP, hl, hneg] using this
      · have hlt : ns < 0 := by omega
        have ht : atomText (.dur ns lit) = '-' :: (formatDuration (-ns)).toList := by
          simp [atomText, fmtAtom, hl, formatDuration_neg ns hlt]
        have hr : atomRaws (.dur ns lit) = [.op .TokenMinus, .duration (formatDuration (-ns))] := by
          simp only [atomRaws, ht, splitMinus_minus, String.ofList_toList]
        rw [hr]
        have hd : decode (.duration (formatDuration (-ns))) = .ok (.lit (.dur (-ns) (formatDuration (-ns)))) := by
          simp [decode, newDur_formatDuration (-ns) (by omega) (by omega) (by omega)]
        have h2 := decodeAll_cons (.op .TokenMinus) (.op .TokenMinus) _ _ rfl (decodeAll_single _ _ hd)
        simpa [normLit, fmtToksP, hl, hlt] using h2
    · rename_i hl
      simp only [decide_eq_true_eq] at h
      have hl' : lit.isEmpty = false := by simpa using hl
      have ht : atomText (.dur ns lit) = lit.toList := by simp [atomText, fmtAtom, hl']
      have hne : ∀ t, lit.toList ≠ '-' :: t := by
        intro t heq
        have : newDur lit = .err := by
          simp [newDur, heq, isDigit, parseInt64, parseNat]
        rw [this] at h
        exact absurd h (by simp)
      have hr : atomRaws (.dur ns lit) = [atomRaw (.dur ns lit)] := by
        simp only [atomRaws, atomRaw, ht]
        unfold splitMinus
        split
        · rename_i t heq; exact absurd heq (hne t)
        · rfl
      rw [hr]
      have := decodeAll_single _ _ (decode_dur_lit ns lit hl' h)
      simpa [normLit, normAtom, fmtToksP, hl'] using this
  | num n =>
    cases n with
    | flt c =>
      simp only [atomDecOK] at h
      cases hn : fltNegText c.toList with
      | some t =>
        rw [hn] at h
        simp only [Option.getD_some] at h
        have hct : c.toList = '-' :: t := by
          unfold fltNegText at hn
          split at hn
          · rename_i t' heq; simp at hn; rw [heq, hn]
          · simp at hn
        have ht : atomText (.num (.flt c)) = '-' :: t := by rw [atomText_flt, hct]
        have hr : atomRaws (.num (.flt c)) = [.op .TokenMinus, .number (String.ofList t)] := by
          simp only [atomRaws, ht, splitMinus_minus]
        rw [hr]
        have hd := decode_flt t h
        have h2 := decodeAll_cons (.op .TokenMinus) (.op .TokenMinus) _ _ rfl (decodeAll_single _ _ hd)
        simpa [normLit, hn, fmtToksP] using h2
      | none =>
        rw [hn] at h
        simp only [Option.getD_none] at h
        have hd := decode_flt c.toList h
        rw [String.ofList_toList] at hd
        have hne : ∀ t, atomText (.num (.flt c)) ≠ '-' :: t := by
          intro t heq
          rw [atomText_flt] at heq
          rw [heq] at hn
          simp [fltNegText] at hn
        have hr : atomRaws (.num (.flt c)) = [.number c] := by
          simp only [atomRaws]
          unfold splitMinus
          split
          · rename_i t heq; exact absurd heq (hne t)
          · rw [atomText_flt, String.ofList_toList]
        rw [hr]
        have := decodeAll_single _ _ hd
        simpa [normLit, hn, fmtToksP] using this
    | int base v =>
      simp only [atomDecOK, Bool.or_eq_true, Bool.and_eq_true, decide_eq_true_eq] at h
      rcases h with ⟨⟨rfl, hlo⟩, hhi⟩ | ⟨⟨rfl, hlo⟩, hhi⟩
      · cases v with
        | ofNat n =>
          have hd := digitsOK_toDigits 10 (Or.inr rfl) n
          obtain ⟨c, t, hct, hc⟩ := digitsOK_head hd
          have hr := atomRaws_num_of_digit (.int 10 (Int.ofNat n)) c t (by rw [← hct]; exact atomText_int10_nat n) hc
          rw [hr, ← hct]
          have := newNumber_int10 n hhi
          refine decodeAll_single _ _ ?_
          show (newNumber _).bind _ = _
          rw [this]
          rfl
        | negSucc n =>
          have ht := atomText_int10_neg n
          have hr : atomRaws (.num (.int 10 (Int.negSucc n))) =
              [.op .TokenMinus, .number (String.ofList (Nat.toDigits 10 (n + 1)))] := by
            simp only [atomRaws, ht, splitMinus_minus]
          have hb : ((n + 1 : Nat) : Int) ≤ int64Max := by
            have : Int.negSucc n = -((n + 1 : Nat) : Int) := rfl
            rw [this] at hlo
            omega
          have := newNumber_int10 (n + 1) hb
          rw [hr]
          simp [decodeAll, decode, this, normLit, fmtToksP]
      · cases v with
        | ofNat n =>
          have hd := digitsOK_toDigits 8 (Or.inl rfl) n
          have hr := atomRaws_num_of_digit (.int 8 (Int.ofNat n)) '0' (Nat.toDigits 8 n) (atomText_oct n) (by decide)
          rw [hr]
          have := newNumber_oct n hhi
          refine decodeAll_single _ _ ?_
          show (newNumber _).bind _ = _
          rw [this]
          rfl
        | negSucc n => exact absurd hlo (by simp)

/-! ### trees -/

theorem decodeAll_append : ∀ (a b : List RTok) (a' b' : List Tok), decodeAll a = .ok a' → decodeAll b = .ok b' →
    decodeAll (a ++ b) = .ok (a' ++ b')
  | [], b, a', b', ha, hb => by simp [decodeAll] at ha; subst ha; simpa using hb
  | t :: a, b, a', b', ha, hb => by
    simp only [decodeAll] at ha
    obtain ⟨x, hx, ha⟩ := Res.bind_eq_ok ha
    obtain ⟨xs, hxs, ha⟩ := Res.bind_eq_ok ha
    simp at ha
    subst ha
    have := decodeAll_append a b xs b' hxs hb
    simp [decodeAll, hx, this]

theorem needsParens_norm (e : Expr) (o : BinOp) (s : Bool) : needsParens (norm e) o s = needsParens e o s := by
  cases e with
  | lit a =>
    simp only [norm, normLit]
    split
    · split <;> simp [needsParens]
    · split <;> simp [needsParens]
    · split <;> simp [needsParens]
    · simp [needsParens]
  | _ => simp [norm, needsParens]

mutual
theorem decode_rawToksS : (e : Expr) → decOK e = true → ∀ x,
    decodeAll (rawToksS e x) = .ok (fmtToksP (norm e) x)
  | .lit a, h, x => by
    simp only [rawToksS, norm]
    exact decode_atomRaws a (by simpa [decOK] using h) x
  | .id s, _, x => by simp [rawToksS, norm, fmtToksP, decodeAll, decode]
  | .un .neg e, h, x => by
    have ih := decode_rawToksS e (by simpa [decOK] using h) true
    simp only [rawToksS, norm, fmtToksP]
    exact decodeAll_cons _ _ _ _ rfl ih
  | .un .not e, h, x => by
    have ih := decode_rawToksS e (by simpa [decOK] using h) true
    simp only [rawToksS, norm, fmtToksP]
    exact decodeAll_cons _ _ _ _ rfl ih
  | .bin o l r p, h, x => by
    simp only [decOK, Bool.and_eq_true] at h
    have ihl := decode_rawToksS l h.1 (needsParens l o false)
    have ihr := decode_rawToksS r h.2 (needsParens r o true)
    simp only [rawToksS, norm, fmtToksP, needsParens_norm]
    have hmid : decodeAll (rawToksS l (needsParens l o false) ++ .op o :: rawToksS r (needsParens r o true)) =
        .ok (fmtToksP (norm l) (needsParens l o false) ++ [.op o] ++ fmtToksP (norm r) (needsParens r o true)) := by
      have := decodeAll_append _ _ _ _ ihl (decodeAll_cons (.op o) (.op o) _ _ rfl ihr)
      simpa [List.append_assoc] using this
    cases hP : (p || x) with
    | false => simpa [List.append_assoc] using hmid
    | true =>
      have h1 := decodeAll_append _ _ _ _ hmid (decodeAll_single .rp .rp rfl)
      have h2 := decodeAll_cons .lp .lp _ _ rfl h1
      simpa [List.append_assoc] using h2
  | .call f args, h, x => by
    have ih := decode_rawArgToksS args (by simpa [decOK] using h)
    simp only [rawToksS, norm, fmtToksP]
    have h1 := decodeAll_append _ _ _ _ ih (decodeAll_single .rp .rp rfl)
    exact decodeAll_cons _ _ _ _ (by simp [decode]) (decodeAll_cons .lp .lp _ _ rfl h1)
theorem decode_rawArgToksS : (args : List Expr) → decOKAll args = true →
    decodeAll (rawArgToksS args) = .ok (fmtArgToks (normAll args))
  | [], _ => by simp [rawArgToksS, normAll, fmtArgToks, decodeAll]
  | [a], h => by
    have ih := decode_rawToksS a (by simpa [decOKAll] using h) false
    simpa [rawArgToksS, normAll, fmtArgToks] using ih
  | a :: b :: tl, h => by
    simp only [decOKAll, Bool.and_eq_true] at h
    have ih := decode_rawToksS a h.1 false
    have ih2 := decode_rawArgToksS (b :: tl) (by simpa [decOKAll] using h.2)
    have := decodeAll_append _ _ _ _ ih (decodeAll_cons .comma .comma _ _ rfl ih2)
    simpa [rawArgToksS, normAll, fmtArgToks] using this
end

/-- lexer + decoder on the printed text: the decoded tokens of the normalised tree -/
theorem lex_decode_fmt (e : Expr) (h1 : isStar e = true ∨ lexOK e false false = true) (h2 : decOK e = true) :
    (lex (fmtChars e)).bind decodeAll = .ok (fmtToks (norm e)) := by
  have hl : lex (fmtChars e) = .ok (rawToksS e false) := by
    refine lex_fmtCharsS e ?_
    rcases h1 with h | h
    · exact Or.inl h
    · exact Or.inr (lexOK_sound e false false h)
  rw [hl]
  exact decode_rawToksS e h2 false

end Kap.C13
